package main

// probe: black-box probes for the properties C16 (aliasing of slices), C17 (every call returns
// normally and silently) and C18 (read-only operations are pure and race-free).
//
//   probe -prop C16|C17|C18 -seed S [-tier quick|thorough] [-n cases] [-only index] [-v]
//
// The parent process splits the case indices over worker processes (the same binary with
// -worker k), merges their results and prints ONE JSON object on stdout.  A worker that dies
// (fatal error such as a stack overflow) or hangs is reported as a violation and restarted
// behind the case that killed it.

import (
	"encoding/json"
	"flag"
	"fmt"
	"hash/fnv"
	"math/rand"
	"os"
	"os/exec"
	"path/filepath"
	"sort"
	"strings"
	"sync"
	"syscall"
	"time"
)

type Violation struct {
	What    string   `json:"what"`
	Kind    string   `json:"kind"`
	Config  string   `json:"config"`
	History []string `json:"history"`
	Probe   string   `json:"probe"`
	Detail  string   `json:"detail"`
	Replay  any      `json:"replay"`
}

type Sample struct {
	Case    int      `json:"case"`
	Kind    string   `json:"kind"`
	Config  string   `json:"config"`
	History []string `json:"history"`
	Note    string   `json:"note"`
}

// what one case produced
type caseResult struct {
	Kind       string
	CfgText    string
	Hist       []string
	Nontrivial uint64 // hash of (kind, config, history) when the container is not empty, else 0
	Checks     map[string]int
	Sample     *Sample
	Violations []Violation
}

type partial struct {
	Evaluations int            `json:"evaluations"`
	Nontrivial  []uint64       `json:"nontrivial"`
	PerKind     map[string]int `json:"per_kind"`
	Checks      map[string]int `json:"checks"`
	Samples     []Sample       `json:"samples"`
	Violations  []Violation    `json:"violations"`
	Done        bool           `json:"done"`
	Restart     bool           `json:"restart"` // a call was abandoned: continue in a fresh process
	LastCase    int            `json:"last_case"`
}

type Result struct {
	Property           string         `json:"property"`
	Tier               string         `json:"tier"`
	Seed               int64          `json:"seed"`
	Evaluations        int            `json:"evaluations"`
	DistinctNontrivial int            `json:"distinct_nontrivial"`
	PerKind            map[string]int `json:"per_kind"`
	Checks             map[string]int `json:"checks"`
	Samples            []Sample       `json:"samples"`
	WallS              float64        `json:"wall_s"`
	Violations         []Violation    `json:"violations"`
}

type options struct {
	prop     string
	tier     string
	seed     int64
	n        int
	only     int
	verbose  bool
	workers  int
	worker   int
	from     int
	out      string
	progress string
	tmp      string
	skip     string
}

var opt options

// logFile is where progress / verbose text goes: the original stderr (C17 redirects fd 2).
var logFile = os.Stderr

func logf(format string, a ...any) { fmt.Fprintf(logFile, format, a...) }
func vlogf(format string, a ...any) {
	if opt.verbose {
		fmt.Fprintf(logFile, format, a...)
	}
}

func die(format string, a ...any) {
	fmt.Fprintf(logFile, "probe: "+format+"\n", a...)
	os.Exit(2)
}

func defaultCases(prop, tier string) int {
	thorough := tier == "thorough"
	switch prop {
	case "C16":
		if thorough {
			return 21 * 40000
		}
		return 21 * 1500
	case "C17":
		if thorough {
			return 21 * 20000
		}
		return 21 * 900
	case "C18":
		if thorough {
			return 21 * 1000
		}
		return 21 * 50
	}
	return 0
}

func defaultWorkers(prop string) int {
	if prop == "C18" {
		return 6 // every worker runs 8 reader goroutines itself
	}
	return 16
}

func main() {
	flag.StringVar(&opt.prop, "prop", "", "C16, C17 or C18")
	flag.StringVar(&opt.tier, "tier", "quick", "quick or thorough")
	flag.Int64Var(&opt.seed, "seed", 1, "seed of the random source")
	flag.IntVar(&opt.n, "n", 0, "number of cases (default depends on the tier)")
	flag.IntVar(&opt.only, "only", -1, "run only this case index, verbosely")
	flag.BoolVar(&opt.verbose, "v", false, "verbose")
	flag.IntVar(&opt.workers, "workers", 0, "number of worker processes")
	flag.IntVar(&opt.worker, "worker", -1, "(internal) act as worker k")
	flag.IntVar(&opt.from, "from", 0, "(internal) skip the cases below this index")
	flag.StringVar(&opt.out, "out", "", "(internal) result file of the worker")
	flag.StringVar(&opt.progress, "progress", "", "(internal) progress file of the worker")
	flag.StringVar(&opt.tmp, "tmp", "", "(internal) scratch directory")
	flag.StringVar(&opt.skip, "skip", "", "(internal) comma-separated case indices that killed a previous worker")
	flag.Parse()
	if opt.prop != "C16" && opt.prop != "C17" && opt.prop != "C18" {
		die("-prop must be C16, C17 or C18")
	}
	if opt.tier != "quick" && opt.tier != "thorough" {
		die("-tier must be quick or thorough")
	}
	if opt.n <= 0 {
		opt.n = defaultCases(opt.prop, opt.tier)
	}
	if opt.workers <= 0 {
		opt.workers = defaultWorkers(opt.prop)
	}
	if opt.only >= 0 {
		opt.verbose = true
		opt.workers = 1
		if opt.only >= opt.n {
			opt.n = opt.only + 1
		}
	}
	if opt.worker >= 0 {
		workerMain()
		return
	}
	parentMain()
}

// ---------- case seeds ----------

// caseSeeds draws the seed of every case from the one source seeded with -seed, so a case is
// a function of (seed, case index).
func caseSeeds(seed int64, n int) []int64 {
	master := rand.New(rand.NewSource(seed))
	out := make([]int64, n)
	for i := range out {
		out[i] = master.Int63()
	}
	return out
}

func kindOfCase(i int) string { return allKinds[i%len(allKinds)] }

func replayInfo(idx int, kind string) map[string]any {
	return map[string]any{
		"seed": opt.seed, "case": idx, "kind": kind, "tier": opt.tier, "n": opt.n,
		"cmd": fmt.Sprintf("probe -prop %s -tier %s -seed %d -n %d -only %d", opt.prop, opt.tier, opt.seed, opt.n, idx),
	}
}

func hashCase(cfg Config, ops []*Op) uint64 {
	h := fnv.New64a()
	h.Write([]byte(cfg.Text()))
	for _, o := range ops {
		h.Write([]byte{0})
		h.Write([]byte(o.Text()))
	}
	v := h.Sum64()
	if v == 0 {
		v = 1
	}
	return v
}

// ---------- worker ----------

func writeProgress(text string) {
	if opt.progress == "" {
		return
	}
	if len(text) > 3000 {
		text = text[:3000]
	}
	progressMu.Lock()
	defer progressMu.Unlock()
	if progressF == nil {
		f, err := os.OpenFile(opt.progress, os.O_CREATE|os.O_WRONLY|os.O_TRUNC, 0o644)
		if err != nil {
			return
		}
		progressF = f
	}
	// fixed-size record, overwritten in place
	buf := make([]byte, 3072)
	for i := range buf {
		buf[i] = ' '
	}
	copy(buf, text)
	buf[len(buf)-1] = '\n'
	progressF.WriteAt(buf, 0)
}

var (
	progressMu sync.Mutex
	progressF  *os.File
)

func workerMain() {
	seeds := caseSeeds(opt.seed, opt.n)
	p := &partial{PerKind: map[string]int{}, Checks: map[string]int{}, LastCase: -1}
	setup := workerSetup()
	defer setup.finish(p)
	flush := func() {
		data, _ := json.Marshal(p)
		tmp := opt.out + ".tmp"
		if os.WriteFile(tmp, data, 0o644) == nil {
			os.Rename(tmp, opt.out)
		}
	}
	caseTimeout := 40 * time.Second
	lastFlush := time.Now()
	skip := map[string]bool{}
	for _, f := range strings.Split(opt.skip, ",") {
		skip[f] = true
	}
	for i := 0; i < opt.n; i++ {
		if i%opt.workers != opt.worker || i < opt.from || skip[fmt.Sprint(i)] {
			continue
		}
		if opt.only >= 0 && i != opt.only {
			continue
		}
		kind := kindOfCase(i)
		writeProgress(fmt.Sprintf("case=%d kind=%s start", i, kind))
		setup.beforeCase(i, kind)
		ch := make(chan *caseResult, 1)
		go func(i int) {
			cr := &caseResult{Kind: kind, Checks: map[string]int{}}
			defer func() {
				if r := recover(); r != nil {
					cr.Violations = append(cr.Violations, Violation{
						What: "the probe's own code panicked while running a case", Kind: kind,
						Probe: opt.prop + ":internal", Detail: fmt.Sprintf("%v\n%s", r, stackText()),
						Replay: replayInfo(i, kind),
					})
				}
				ch <- cr
			}()
			runCase(i, seeds[i], kind, cr)
		}(i)
		var cr *caseResult
		select {
		case cr = <-ch:
		case <-time.After(caseTimeout):
			cr = &caseResult{Kind: kind, Checks: map[string]int{"case_timeouts": 1}}
			cr.Violations = append(cr.Violations, Violation{
				What:    fmt.Sprintf("case did not finish within %v (non-termination of a library call)", caseTimeout),
				Kind:    kind,
				Probe:   opt.prop + ":case-watchdog",
				Detail:  "last progress record: " + readProgress(opt.progress),
				History: []string{},
				Replay:  replayInfo(i, kind),
			})
		}
		setup.afterCase(i, kind, cr)
		p.Evaluations++
		p.PerKind[kind]++
		p.LastCase = i
		if cr.Nontrivial != 0 {
			p.Nontrivial = append(p.Nontrivial, cr.Nontrivial)
		}
		for k, v := range cr.Checks {
			if strings.HasPrefix(k, "max:") {
				if v > p.Checks[k] {
					p.Checks[k] = v
				}
				continue
			}
			p.Checks[k] += v
		}
		if cr.Sample != nil && len(p.Samples) < 3 {
			p.Samples = append(p.Samples, *cr.Sample)
		}
		for _, v := range cr.Violations {
			if len(p.Violations) < 40 {
				p.Violations = append(p.Violations, v)
			}
			p.Checks["violations_total"]++
		}
		if cr.Checks["call_timeouts"] > 0 || cr.Checks["case_timeouts"] > 0 {
			// an abandoned goroutine is still running a library call (possibly allocating):
			// hand the remaining cases to a fresh process
			p.Restart = true
			flush()
			os.Exit(0)
		}
		if time.Since(lastFlush) > 2*time.Second {
			flush()
			lastFlush = time.Now()
		}
	}
	p.Done = true
	flush()
}

func readProgress(path string) string {
	data, err := os.ReadFile(path)
	if err != nil {
		return ""
	}
	return strings.TrimSpace(string(data))
}

func runCase(idx int, seed int64, kind string, cr *caseResult) {
	rng := rand.New(rand.NewSource(seed))
	switch opt.prop {
	case "C16":
		runC16(idx, rng, kind, cr)
	case "C17":
		runC17(idx, rng, kind, cr)
	case "C18":
		runC18(idx, rng, kind, cr)
	}
}

// buildState draws configuration and history of a case and returns the live container.  A
// panic while building is reported as a violation (ok = false).
func buildState(idx int, rng *rand.Rand, kind string, cr *caseResult) (d *drv, ops []*Op, ok bool) {
	cfg := genConfig(rng, kind)
	defer func() {
		if r := recover(); r != nil {
			ok = false
			last := ""
			if len(ops) > 0 {
				last = ops[len(ops)-1].Text()
			}
			cr.Violations = append(cr.Violations, Violation{
				What:    fmt.Sprintf("%s: a library call panicked while the state was being built (last operation of the history: %s)", kind, last),
				Kind:    kind,
				Config:  cfg.Text(),
				History: historyText(ops),
				Probe:   opt.prop + ":history",
				Detail:  fmt.Sprintf("panic: %v\n%s", r, stackText()),
				Replay:  replayInfo(idx, kind),
			})
		}
	}()
	cr.CfgText = cfg.Text()
	d = newDrv(cfg)
	genHistory(rng, d, &ops)
	cr.Hist = historyText(ops)
	if d.c.Size() > 0 {
		cr.Nontrivial = hashCase(cfg, ops)
	}
	for _, t := range stateTags(d, ops) {
		cr.Checks[t]++
	}
	vlogf("case %d  %s\n", idx, cfg.Text())
	for i, o := range ops {
		vlogf("  op %2d  %s\n", i, o.Text())
	}
	vlogf("  state: %s\n", safeFingerprint(d))
	return d, ops, true
}

func safeFingerprint(d *drv) (s string) {
	defer func() {
		if r := recover(); r != nil {
			s = fmt.Sprintf("<fingerprint panicked: %v>", r)
		}
	}()
	return d.fingerprint()
}

// ---------- parent ----------

func parentMain() {
	start := time.Now()
	self, err := os.Executable()
	if err != nil {
		die("cannot find own executable: %v", err)
	}
	tmp, err := os.MkdirTemp("", "probe-"+opt.prop+"-")
	if err != nil {
		die("cannot create scratch directory: %v", err)
	}
	defer os.RemoveAll(tmp)
	limit := 150 * time.Second
	if opt.tier == "thorough" {
		limit = 20 * time.Minute
	}
	parts := make([]*partial, opt.workers)
	extra := make([][]Violation, opt.workers)
	var wg sync.WaitGroup
	for k := 0; k < opt.workers; k++ {
		wg.Add(1)
		go func(k int) {
			defer wg.Done()
			parts[k], extra[k] = superviseWorker(self, tmp, k, limit)
		}(k)
	}
	wg.Wait()

	res := Result{Property: opt.prop, Tier: opt.tier, Seed: opt.seed, PerKind: map[string]int{}, Checks: map[string]int{},
		Samples: []Sample{}, Violations: []Violation{}}
	distinct := map[uint64]bool{}
	for k, p := range parts {
		if p == nil {
			continue
		}
		res.Evaluations += p.Evaluations
		for _, h := range p.Nontrivial {
			distinct[h] = true
		}
		for kk, v := range p.PerKind {
			res.PerKind[kk] += v
		}
		for kk, v := range p.Checks {
			if strings.HasPrefix(kk, "max:") { // inventories: the same in every worker
				if v > res.Checks[kk[4:]] {
					res.Checks[kk[4:]] = v
				}
				continue
			}
			res.Checks[kk] += v
		}
		for _, s := range p.Samples {
			if len(res.Samples) < 3 {
				res.Samples = append(res.Samples, s)
			}
		}
		res.Violations = append(res.Violations, p.Violations...)
		res.Violations = append(res.Violations, extra[k]...)
		res.Checks["violations_total"] += len(extra[k])
	}
	res.DistinctNontrivial = len(distinct)
	sort.SliceStable(res.Violations, func(i, j int) bool { return violationCase(res.Violations[i]) < violationCase(res.Violations[j]) })
	if len(res.Violations) > 60 {
		// keep 60, taking turns among the (kind, probe) groups so that one frequent finding
		// does not hide the others
		groups := map[string][]Violation{}
		order := []string{}
		for _, v := range res.Violations {
			k := v.Kind + "|" + v.Probe
			if _, ok := groups[k]; !ok {
				order = append(order, k)
			}
			groups[k] = append(groups[k], v)
		}
		kept := []Violation{}
		for round := 0; len(kept) < 60; round++ {
			for _, k := range order {
				if round < len(groups[k]) && len(kept) < 60 {
					kept = append(kept, groups[k][round])
				}
			}
		}
		res.Violations = kept
	}
	res.WallS = float64(time.Since(start).Milliseconds()) / 1000
	enc := json.NewEncoder(os.Stdout)
	enc.SetEscapeHTML(false)
	if opt.only >= 0 {
		enc.SetIndent("", "  ")
	}
	if err := enc.Encode(res); err != nil {
		die("cannot encode the result: %v", err)
	}
}

func violationCase(v Violation) int {
	if m, ok := v.Replay.(map[string]any); ok {
		switch c := m["case"].(type) {
		case float64:
			return int(c)
		case int:
			return c
		}
	}
	return 1 << 30
}

// superviseWorker runs worker k to completion, restarting it behind a case that killed it.
func superviseWorker(self, tmp string, k int, limit time.Duration) (*partial, []Violation) {
	total := &partial{PerKind: map[string]int{}, Checks: map[string]int{}}
	var extra []Violation
	from := 0
	deadline := time.Now().Add(limit)
	crashes := 0
	skip := []string{}
	for attempt := 0; attempt < 400 && crashes < 8; attempt++ {
		out := filepath.Join(tmp, fmt.Sprintf("w%d.%d.json", k, attempt))
		progress := filepath.Join(tmp, fmt.Sprintf("w%d.%d.progress", k, attempt))
		errFile := filepath.Join(tmp, fmt.Sprintf("w%d.%d.stderr", k, attempt))
		wtmp := filepath.Join(tmp, fmt.Sprintf("w%d.%d.d", k, attempt))
		os.MkdirAll(wtmp, 0o755)
		args := []string{"-prop", opt.prop, "-tier", opt.tier, "-seed", fmt.Sprint(opt.seed), "-n", fmt.Sprint(opt.n),
			"-workers", fmt.Sprint(opt.workers), "-worker", fmt.Sprint(k), "-from", fmt.Sprint(from),
			"-out", out, "-progress", progress, "-tmp", wtmp, "-skip", strings.Join(skip, ",")}
		if opt.only >= 0 {
			args = append(args, "-only", fmt.Sprint(opt.only))
		}
		if opt.verbose {
			args = append(args, "-v")
		}
		cmd := exec.Command(self, args...)
		cmd.Env = append(os.Environ(), "GORACE=halt_on_error=0 exitcode=0 history_size=3 log_path="+filepath.Join(wtmp, "race"),
			"PROBE_LOGFD=3")
		ef, _ := os.Create(errFile)
		cmd.Stdout = ef
		cmd.Stderr = ef
		cmd.ExtraFiles = []*os.File{os.Stderr} // fd 3: progress and verbose text
		if err := cmd.Start(); err != nil {
			die("cannot start worker: %v", err)
		}
		done := make(chan error, 1)
		go func() { done <- cmd.Wait() }()
		var werr error
		killed := false
		select {
		case werr = <-done:
		case <-time.After(time.Until(deadline)):
			cmd.Process.Signal(syscall.SIGKILL)
			werr = <-done
			killed = true
		}
		ef.Close()
		var p partial
		data, rerr := os.ReadFile(out)
		if rerr == nil {
			rerr = json.Unmarshal(data, &p)
		}
		if rerr == nil {
			mergePartial(total, &p)
		}
		if rerr == nil && p.Done && werr == nil {
			return total, extra
		}
		if rerr == nil && p.Restart && werr == nil && !killed {
			from = p.LastCase + 1
			continue
		}
		crashes++
		// the worker died: report the case it was running and continue behind it
		prog := readProgress(progress)
		var idx int
		var kind string
		fmt.Sscanf(prog, "case=%d kind=%s", &idx, &kind)
		if prog == "" {
			idx, kind = from, ""
		}
		what := "worker process died (fatal error, e.g. stack overflow or concurrent map access) while running a case"
		if killed {
			what = "worker process exceeded the time limit and was killed (non-termination)"
		}
		extra = append(extra, Violation{
			What: what, Kind: kind, History: []string{}, Probe: opt.prop + ":process",
			Detail: fmt.Sprintf("exit: %v\nlast progress record: %s\nstderr tail:\n%s", werr, prog, tailOfFiles(4000, errFile, filepath.Join(wtmp, "capture.log"))),
			Replay: replayInfo(idx, kind),
		})
		if killed || prog == "" {
			return total, extra
		}
		// continue behind the last case whose result reached the result file, without the
		// case that killed the worker
		skip = append(skip, fmt.Sprint(idx))
		if rerr == nil && p.LastCase >= from {
			from = p.LastCase + 1
		}
	}
	return total, extra
}

func mergePartial(t, p *partial) {
	t.Evaluations += p.Evaluations
	t.Nontrivial = append(t.Nontrivial, p.Nontrivial...)
	for k, v := range p.PerKind {
		t.PerKind[k] += v
	}
	for k, v := range p.Checks {
		if strings.HasPrefix(k, "max:") {
			if v > t.Checks[k] {
				t.Checks[k] = v
			}
			continue
		}
		t.Checks[k] += v
	}
	for _, s := range p.Samples {
		if len(t.Samples) < 3 {
			t.Samples = append(t.Samples, s)
		}
	}
	t.Violations = append(t.Violations, p.Violations...)
}

func tailOfFiles(n int, paths ...string) string {
	var b strings.Builder
	for _, p := range paths {
		data, err := os.ReadFile(p)
		if err != nil || len(data) == 0 {
			continue
		}
		if len(data) > n {
			data = data[len(data)-n:]
		}
		b.WriteString("--- " + filepath.Base(p) + " ---\n")
		b.Write(data)
		b.WriteString("\n")
	}
	return b.String()
}
