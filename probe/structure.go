package main

// Exact structure of the trees through the verif hooks: shapes (as printed in the trace) and
// the parent-link / node-count checks of sane bit 1.

import (
	"strconv"
	"strings"

	"github.com/emirpasic/gods/v2/trees/avltree"
	"github.com/emirpasic/gods/v2/trees/btree"
	rbt "github.com/emirpasic/gods/v2/trees/redblacktree"
)

const maxNodes = 1 << 22 // guard against cyclic structures

// ---------- red-black tree ----------

// (c k v left right), () for nil, c = 1 black / 0 red
func rbShape[V any](root *rbt.Node[int, V], val func(V) int) string {
	var b strings.Builder
	budget := maxNodes
	var rec func(n *rbt.Node[int, V])
	rec = func(n *rbt.Node[int, V]) {
		if n == nil || budget <= 0 {
			b.WriteString("()")
			return
		}
		budget--
		if n.VerifIsRed() {
			b.WriteString("(0 ")
		} else {
			b.WriteString("(1 ")
		}
		b.WriteString(strconv.Itoa(n.Key))
		b.WriteByte(' ')
		b.WriteString(strconv.Itoa(val(n.Value)))
		b.WriteByte(' ')
		rec(n.Left)
		b.WriteByte(' ')
		rec(n.Right)
		b.WriteByte(')')
	}
	rec(root)
	return b.String()
}

// parent links mirror child links and node count = size
func rbLinks[V any](root *rbt.Node[int, V], size int) bool {
	if root == nil {
		return size == 0
	}
	if root.Parent != nil {
		return false
	}
	count := 0
	ok := true
	var rec func(n *rbt.Node[int, V])
	rec = func(n *rbt.Node[int, V]) {
		count++
		if count > size+1 || count > maxNodes {
			ok = false
			return
		}
		for _, ch := range []*rbt.Node[int, V]{n.Left, n.Right} {
			if ch != nil && ok {
				if ch.Parent != n {
					ok = false
					return
				}
				rec(ch)
			}
		}
	}
	rec(root)
	return ok && count == size
}

func intVal(v int) int                         { return v }
func unitVal(struct{}) int                     { return 0 }
func rbTreeShape(t *rbt.Tree[int, int]) string { return rbShape(t.Root, intVal) }
func rbTreeLinks(t *rbt.Tree[int, int]) bool   { return rbLinks(t.Root, t.Size()) }

// ---------- AVL tree ----------

// (b k v left right)
func avlShape(root *avltree.Node[int, int]) string {
	var b strings.Builder
	budget := maxNodes
	var rec func(n *avltree.Node[int, int])
	rec = func(n *avltree.Node[int, int]) {
		if n == nil || budget <= 0 {
			b.WriteString("()")
			return
		}
		budget--
		b.WriteByte('(')
		b.WriteString(strconv.Itoa(n.VerifBalance()))
		b.WriteByte(' ')
		b.WriteString(strconv.Itoa(n.Key))
		b.WriteByte(' ')
		b.WriteString(strconv.Itoa(n.Value))
		b.WriteByte(' ')
		rec(n.Children[0])
		b.WriteByte(' ')
		rec(n.Children[1])
		b.WriteByte(')')
	}
	rec(root)
	return b.String()
}

func avlLinks(root *avltree.Node[int, int], size int) bool {
	if root == nil {
		return size == 0
	}
	if root.Parent != nil {
		return false
	}
	count := 0
	ok := true
	var rec func(n *avltree.Node[int, int])
	rec = func(n *avltree.Node[int, int]) {
		count++
		if count > size+1 || count > maxNodes {
			ok = false
			return
		}
		for _, ch := range n.Children {
			if ch != nil && ok {
				if ch.Parent != n {
					ok = false
					return
				}
				rec(ch)
			}
		}
	}
	rec(root)
	return ok && count == size
}

// ---------- B-tree ----------

// (((k v) ...) (children...)), () for the empty tree
func btShape(root *btree.Node[int, int]) string {
	if root == nil {
		return "()"
	}
	var b strings.Builder
	budget := maxNodes
	var rec func(n *btree.Node[int, int])
	rec = func(n *btree.Node[int, int]) {
		if n == nil || budget <= 0 {
			b.WriteString("()")
			return
		}
		budget--
		b.WriteString("((")
		for i, e := range n.Entries {
			if i > 0 {
				b.WriteByte(' ')
			}
			if e == nil {
				b.WriteString("()")
				continue
			}
			b.WriteByte('(')
			b.WriteString(strconv.Itoa(e.Key))
			b.WriteByte(' ')
			b.WriteString(strconv.Itoa(e.Value))
			b.WriteByte(')')
		}
		b.WriteString(") (")
		for i, ch := range n.Children {
			if i > 0 {
				b.WriteByte(' ')
			}
			rec(ch)
		}
		b.WriteString("))")
	}
	rec(root)
	return b.String()
}

// children's Parent point back, number of entries = size
func btLinks(root *btree.Node[int, int], size int) bool {
	if root == nil {
		return size == 0
	}
	if root.Parent != nil {
		return false
	}
	count := 0
	ok := true
	var rec func(n *btree.Node[int, int])
	rec = func(n *btree.Node[int, int]) {
		count += len(n.Entries)
		if count > size+1 || count > maxNodes {
			ok = false
			return
		}
		for _, ch := range n.Children {
			if !ok {
				return
			}
			if ch == nil || ch.Parent != n {
				ok = false
				return
			}
			rec(ch)
		}
	}
	rec(root)
	return ok && count == size
}
