package main

// Per-worker environment: the log descriptor, the capture of fd 1 / fd 2 (C17; after
// /verif/harness/sane.go) and the attribution of race reports to cases (C18).

import (
	"fmt"
	"os"
	"path/filepath"
	"runtime"
	"strings"
	"syscall"
)

func stackText() string {
	buf := make([]byte, 16384)
	n := runtime.Stack(buf, false)
	lines := strings.Split(string(buf[:n]), "\n")
	// keep the frames of the library and of the probe, drop runtime noise at the top
	if len(lines) > 40 {
		lines = lines[:40]
	}
	return strings.Join(lines, "\n")
}

// ---------- fd capture ----------

type fdCapture struct {
	f    *os.File
	last int64
}

// startCapture redirects fd 1 and fd 2 to a file for the rest of the process.
func startCapture(path string) (*fdCapture, error) {
	f, err := os.OpenFile(path, os.O_CREATE|os.O_RDWR|os.O_TRUNC|os.O_APPEND, 0o644)
	if err != nil {
		return nil, err
	}
	if err = syscall.Dup3(int(f.Fd()), 1, 0); err != nil {
		return nil, err
	}
	if err = syscall.Dup3(int(f.Fd()), 2, 0); err != nil {
		return nil, err
	}
	return &fdCapture{f: f}, nil
}

// dirty returns the bytes written to fd 1 / fd 2 since the previous call ("" if none).
func (c *fdCapture) dirty() string {
	if c == nil {
		return ""
	}
	st, err := c.f.Stat()
	if err != nil {
		return ""
	}
	if st.Size() == c.last {
		return ""
	}
	n := st.Size() - c.last
	if n > 2048 {
		n = 2048
	}
	buf := make([]byte, n)
	m, _ := c.f.ReadAt(buf, c.last)
	c.last = st.Size()
	if m == 0 {
		return "<unreadable>"
	}
	return string(buf[:m])
}

// ---------- worker setup ----------

type workerEnv struct {
	capture  *fdCapture
	raceSeen map[string]int64 // race log file -> bytes already attributed
	marker   *os.File
}

var wenv *workerEnv

func workerSetup() *workerEnv {
	if os.Getenv("PROBE_LOGFD") == "3" {
		logFile = os.NewFile(3, "log")
	}
	if opt.tmp == "" {
		d, err := os.MkdirTemp("", "probe-worker-")
		if err != nil {
			die("cannot create scratch directory: %v", err)
		}
		opt.tmp = d
	}
	w := &workerEnv{raceSeen: map[string]int64{}}
	wenv = w
	switch opt.prop {
	case "C17":
		c, err := startCapture(filepath.Join(opt.tmp, "capture.log"))
		if err != nil {
			die("cannot redirect fd 1 / fd 2: %v", err)
		}
		w.capture = c
	case "C18":
		w.marker, _ = os.Create(filepath.Join(opt.tmp, "markers.log"))
	}
	return w
}

func (w *workerEnv) beforeCase(idx int, kind string) {
	if w.marker != nil {
		fmt.Fprintf(w.marker, "case=%d kind=%s\n", idx, kind)
	}
}

// newRaceReports returns the text the race detector wrote since the previous call.
func (w *workerEnv) newRaceReports() string {
	files, _ := filepath.Glob(filepath.Join(opt.tmp, "race.*"))
	var b strings.Builder
	for _, f := range files {
		st, err := os.Stat(f)
		if err != nil || st.Size() == w.raceSeen[f] {
			continue
		}
		fh, err := os.Open(f)
		if err != nil {
			continue
		}
		buf := make([]byte, st.Size()-w.raceSeen[f])
		n, _ := fh.ReadAt(buf, w.raceSeen[f])
		fh.Close()
		w.raceSeen[f] = st.Size()
		b.Write(buf[:n])
	}
	return b.String()
}

func (w *workerEnv) afterCase(idx int, kind string, cr *caseResult) {
	if opt.prop != "C18" {
		return
	}
	rep := w.newRaceReports()
	if rep == "" {
		return
	}
	// one violation per report that mentions the library
	for _, r := range strings.Split(rep, "==================") {
		if !strings.Contains(r, "WARNING: DATA RACE") {
			continue
		}
		cr.Checks["race_reports"]++
		if !strings.Contains(r, "github.com/emirpasic/gods") {
			cr.Checks["race_reports_outside_library"]++
			continue
		}
		lines := strings.Split(strings.TrimSpace(r), "\n")
		if len(lines) > 40 {
			lines = lines[:40]
		}
		v := Violation{
			What:    kind + ": data race between concurrent read-only calls (race detector report)",
			Kind:    kind,
			Probe:   "C18:race",
			Detail:  strings.Join(lines, "\n"),
			History: []string{},
			Replay:  replayInfo(idx, kind),
		}
		v.Config = cr.CfgText
		if cr.Hist != nil {
			v.History = cr.Hist
		}
		cr.Violations = append(cr.Violations, v)
	}
}

func (w *workerEnv) finish(p *partial) {}
