package main

// Drivers of ArrayList, SinglyLinkedList, DoublyLinkedList.

import (
	"fmt"

	"github.com/emirpasic/gods/v2/lists/arraylist"
	"github.com/emirpasic/gods/v2/lists/doublylinkedlist"
	"github.com/emirpasic/gods/v2/lists/singlylinkedlist"
)

const mutateMark = 424242 // value added to result containers by the aliasing check

func constructList(d *drv) {
	switch d.cfg.Kind {
	case "ArrayList":
		bindArrayList(d, arraylist.New[int]())
	case "SinglyLinkedList":
		bindSLL(d, singlylinkedlist.New[int]())
	case "DoublyLinkedList":
		bindDLL(d, doublylinkedlist.New[int]())
	}
}

func valueOnly(f mapFn) func(i, v int) int {
	return func(i, v int) int { _, nv := f(i, v); return nv }
}

func arrayListFP(l *arraylist.List[int]) string {
	e, c, isNil := l.VerifRaw()
	return fmt.Sprintf("AL%v cap=%d nil=%v", e, c, isNil)
}

func bindArrayList(d *drv, l *arraylist.List[int]) {
	d.c, d.raw = l, l
	d.add, d.insert, d.set, d.removeAt, d.swap = l.Add, l.Insert, l.Set, l.Remove, l.Swap
	d.sortBy = func(f cmpFn) { l.Sort(f) }
	d.getIdx, d.indexOf, d.contains = l.Get, l.IndexOf, l.Contains
	d.iter = func() any { return l.Iterator() }
	d.each = l.Each
	d.anyF = func(p predFn) bool { return l.Any(p) }
	d.allF = func(p predFn) bool { return l.All(p) }
	d.find = func(p predFn) (int, int) { return l.Find(p) }
	d.selectF = func(p predFn) *drv {
		r := l.Select(p)
		return d.derive(func(n *drv) { bindArrayList(n, r) })
	}
	d.mapF = func(f mapFn) *drv {
		r := l.Map(valueOnly(f))
		return d.derive(func(n *drv) { bindArrayList(n, r) })
	}
	d.links = func() bool { e, c, _ := l.VerifRaw(); return len(e) <= c && len(e) == l.Size() }
	d.fingerprint = func() string { return arrayListFP(l) }
	d.mutate = func() { l.Clear(); l.Add(mutateMark) }
}

func sllFP(l *singlylinkedlist.List[int]) string {
	f, size, ok := l.VerifChain(1 << 20)
	return fmt.Sprintf("SLL%v size=%d ok=%v", f, size, ok)
}

func sllLinks(l *singlylinkedlist.List[int]) bool {
	_, _, ok := l.VerifChain(1 << 20)
	return ok
}

func bindSLL(d *drv, l *singlylinkedlist.List[int]) {
	d.c, d.raw = l, l
	d.add, d.appendF, d.prepend = l.Add, l.Append, l.Prepend
	d.insert, d.set, d.removeAt, d.swap = l.Insert, l.Set, l.Remove, l.Swap
	d.sortBy = func(f cmpFn) { l.Sort(f) }
	d.getIdx, d.indexOf, d.contains = l.Get, l.IndexOf, l.Contains
	d.iter = func() any { return l.Iterator() }
	d.each = l.Each
	d.anyF = func(p predFn) bool { return l.Any(p) }
	d.allF = func(p predFn) bool { return l.All(p) }
	d.find = func(p predFn) (int, int) { return l.Find(p) }
	d.selectF = func(p predFn) *drv {
		r := l.Select(p)
		return d.derive(func(n *drv) { bindSLL(n, r) })
	}
	d.mapF = func(f mapFn) *drv {
		r := l.Map(valueOnly(f))
		return d.derive(func(n *drv) { bindSLL(n, r) })
	}
	d.links = func() bool { return sllLinks(l) }
	d.fingerprint = func() string { return sllFP(l) }
	d.mutate = func() { l.Clear(); l.Add(mutateMark) }
}

func dllFP(l *doublylinkedlist.List[int]) string {
	f, b, size, ok := l.VerifChain(1 << 20)
	return fmt.Sprintf("DLL%v back=%v size=%d ok=%v", f, b, size, ok)
}

func dllLinks(l *doublylinkedlist.List[int]) bool {
	f, b, _, ok := l.VerifChain(1 << 20)
	if !ok || len(f) != len(b) {
		return false
	}
	for i := range f {
		if f[i] != b[len(b)-1-i] {
			return false
		}
	}
	return true
}

func bindDLL(d *drv, l *doublylinkedlist.List[int]) {
	d.c, d.raw = l, l
	d.add, d.appendF, d.prepend = l.Add, l.Append, l.Prepend
	d.insert, d.set, d.removeAt, d.swap = l.Insert, l.Set, l.Remove, l.Swap
	d.sortBy = func(f cmpFn) { l.Sort(f) }
	d.getIdx, d.indexOf, d.contains = l.Get, l.IndexOf, l.Contains
	d.iter = func() any { it := l.Iterator(); return &it }
	d.each = l.Each
	d.anyF = func(p predFn) bool { return l.Any(p) }
	d.allF = func(p predFn) bool { return l.All(p) }
	d.find = func(p predFn) (int, int) { return l.Find(p) }
	d.selectF = func(p predFn) *drv {
		r := l.Select(p)
		return d.derive(func(n *drv) { bindDLL(n, r) })
	}
	d.mapF = func(f mapFn) *drv {
		r := l.Map(valueOnly(f))
		return d.derive(func(n *drv) { bindDLL(n, r) })
	}
	d.links = func() bool { return dllLinks(l) }
	d.fingerprint = func() string { return dllFP(l) }
	d.mutate = func() { l.Clear(); l.Add(mutateMark) }
}
