package main

// Generic deep dump: a canonical text of EVERYTHING reachable from a value, unexported fields
// included (reflect + unsafe), recursively through pointers, slices (the whole capacity
// region, not only [0:len]), arrays, maps (entries sorted by the text of the key) and
// interfaces.  Pointers are printed as object numbers in order of first visit (never as
// addresses), so two dumps are equal iff the two object graphs are isomorphic with equal
// contents.  A private cache field added to a container later is covered automatically.

import (
	"reflect"
	"sort"
	"strconv"
	"strings"
	"unsafe"
)

type ptrKey struct {
	p unsafe.Pointer
	t reflect.Type
}

type dumper struct {
	b      strings.Builder
	seen   map[ptrKey]int
	budget int
	// shallowType: pointers to this struct type are not followed (used for printing a node
	// returned by a read-only call without printing the whole tree)
	shallowType reflect.Type
}

const dumpBudget = 400000

func deepDump(v any) string {
	d := &dumper{seen: map[ptrKey]int{}, budget: dumpBudget}
	d.value(reflect.ValueOf(v))
	return d.b.String()
}

// shallowDump prints the pointee of a node-like pointer without following pointers to further
// nodes of the same type.
func shallowDump(v reflect.Value) string {
	d := &dumper{seen: map[ptrKey]int{}, budget: dumpBudget}
	if v.Kind() == reflect.Ptr && !v.IsNil() {
		d.shallowType = v.Type().Elem()
		d.b.WriteString("&")
		d.value(v.Elem())
		return d.b.String()
	}
	d.value(v)
	return d.b.String()
}

// clean returns a value without the read-only flag that reflect puts on values obtained
// through unexported fields.
func clean(v reflect.Value) reflect.Value {
	if v.CanInterface() {
		return v
	}
	if v.CanAddr() {
		return reflect.NewAt(v.Type(), unsafe.Pointer(v.UnsafeAddr())).Elem()
	}
	return v
}

func (d *dumper) value(v reflect.Value) {
	if d.budget <= 0 {
		d.b.WriteString("<budget>")
		return
	}
	d.budget--
	if !v.IsValid() {
		d.b.WriteString("<invalid>")
		return
	}
	v = clean(v)
	switch v.Kind() {
	case reflect.Bool:
		d.b.WriteString(strconv.FormatBool(v.Bool()))
	case reflect.Int, reflect.Int8, reflect.Int16, reflect.Int32, reflect.Int64:
		d.b.WriteString(strconv.FormatInt(v.Int(), 10))
	case reflect.Uint, reflect.Uint8, reflect.Uint16, reflect.Uint32, reflect.Uint64, reflect.Uintptr:
		d.b.WriteString(strconv.FormatUint(v.Uint(), 10))
	case reflect.Float32, reflect.Float64:
		d.b.WriteString(strconv.FormatFloat(v.Float(), 'g', -1, 64))
	case reflect.Complex64, reflect.Complex128:
		d.b.WriteString(strconv.FormatComplex(v.Complex(), 'g', -1, 128))
	case reflect.String:
		d.b.WriteString(strconv.Quote(v.String()))
	case reflect.Func:
		if v.IsNil() {
			d.b.WriteString("func:nil")
		} else {
			d.b.WriteString("func")
		}
	case reflect.Chan, reflect.UnsafePointer:
		if v.IsNil() {
			d.b.WriteString(v.Kind().String() + ":nil")
		} else {
			d.b.WriteString(v.Kind().String())
		}
	case reflect.Ptr:
		if v.IsNil() {
			d.b.WriteString("nil")
			return
		}
		if d.shallowType != nil && v.Type().Elem() == d.shallowType {
			d.b.WriteString("*")
			return
		}
		k := ptrKey{unsafe.Pointer(v.Pointer()), v.Type()}
		if id, ok := d.seen[k]; ok {
			d.b.WriteString("^" + strconv.Itoa(id))
			return
		}
		id := len(d.seen) + 1
		d.seen[k] = id
		d.b.WriteString("&" + strconv.Itoa(id))
		d.value(v.Elem())
	case reflect.Interface:
		if v.IsNil() {
			d.b.WriteString("iface:nil")
			return
		}
		e := v.Elem()
		d.b.WriteString("iface(" + e.Type().String() + ")")
		if !e.CanAddr() && e.Kind() == reflect.Struct {
			c := reflect.New(e.Type()).Elem()
			c.Set(e)
			e = c
		}
		d.value(e)
	case reflect.Struct:
		if !v.CanAddr() {
			c := reflect.New(v.Type()).Elem()
			c.Set(v)
			v = c
		}
		d.b.WriteString("{")
		t := v.Type()
		for i := 0; i < v.NumField(); i++ {
			if i > 0 {
				d.b.WriteString(" ")
			}
			d.b.WriteString(t.Field(i).Name + ":")
			d.value(v.Field(i))
		}
		d.b.WriteString("}")
	case reflect.Array:
		d.b.WriteString("[")
		for i := 0; i < v.Len(); i++ {
			if i > 0 {
				d.b.WriteString(" ")
			}
			d.value(v.Index(i))
		}
		d.b.WriteString("]")
	case reflect.Slice:
		if v.IsNil() {
			d.b.WriteString("slice:nil")
			return
		}
		n, c := v.Len(), v.Cap()
		d.b.WriteString("slice(len=" + strconv.Itoa(n) + " cap=" + strconv.Itoa(c) + ")[")
		full := v.Slice3(0, c, c)
		for i := 0; i < c; i++ {
			if i == n {
				d.b.WriteString(" |")
			}
			if i > 0 {
				d.b.WriteString(" ")
			}
			d.value(full.Index(i))
		}
		d.b.WriteString("]")
	case reflect.Map:
		if v.IsNil() {
			d.b.WriteString("map:nil")
			return
		}
		type entry struct {
			k string
			v reflect.Value
		}
		es := make([]entry, 0, v.Len())
		it := v.MapRange()
		for it.Next() {
			kd := &dumper{seen: map[ptrKey]int{}, budget: 1000}
			kd.value(it.Key())
			es = append(es, entry{kd.b.String(), it.Value()})
		}
		sort.Slice(es, func(i, j int) bool { return es[i].k < es[j].k })
		d.b.WriteString("map(" + strconv.Itoa(len(es)) + ")[")
		for i, e := range es {
			if i > 0 {
				d.b.WriteString(" ")
			}
			d.b.WriteString(e.k + ":")
			d.value(e.v)
		}
		d.b.WriteString("]")
	default:
		d.b.WriteString("<" + v.Kind().String() + ">")
	}
}
