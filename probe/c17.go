package main

// PROBE C17: every exported operation returns normally (no panic, terminates) and silently
// (nothing on fd 1 / fd 2) for every argument.  The driver is reflective: the methods of the
// container, of its iterators and of the containers it returns are enumerated at run time, so
// a method added later is exercised without changing the probe.

import (
	"cmp"
	"fmt"
	"math"
	"math/rand"
	"reflect"
	"sort"
	"strconv"
	"strings"
	"sync"
	"time"

	"github.com/emirpasic/gods/v2/containers"
)

const callTimeout = 10 * time.Second // generous: a loaded machine must not look like non-termination

var (
	byteSliceType = reflect.TypeOf([]byte{})
	boolType      = reflect.TypeOf(true)
	stringType    = reflect.TypeOf("")
)

var mutatorNames = map[string]bool{
	"Put": true, "Remove": true, "Add": true, "Append": true, "Prepend": true, "Insert": true, "Set": true,
	"Swap": true, "Sort": true, "Clear": true, "Push": true, "Pop": true, "Enqueue": true, "Dequeue": true,
	"FromJSON": true, "UnmarshalJSON": true,
}

var moveNames = map[string]bool{"Next": true, "Prev": true, "First": true, "Last": true, "NextTo": true, "PrevTo": true}
var resetNames = map[string]bool{"Begin": true, "End": true}

func isLibraryType(t reflect.Type) bool {
	for t.Kind() == reflect.Ptr {
		t = t.Elem()
	}
	return strings.HasPrefix(t.PkgPath(), "github.com/emirpasic/gods")
}

func hasMethod(t reflect.Type, name string) bool {
	_, ok := t.MethodByName(name)
	return ok
}

// exported methods of a (pointer) type, without the verification hooks
func methodsOf(t reflect.Type) []reflect.Method {
	out := []reflect.Method{}
	for i := 0; i < t.NumMethod(); i++ {
		m := t.Method(i)
		if strings.HasPrefix(m.Name, "Verif") {
			continue
		}
		out = append(out, m)
	}
	return out
}

// the inventory of (type, method) pairs met by this worker
var (
	inventoryMu sync.Mutex
	inventory   = map[string]bool{}
	invTypes    = map[string]bool{}
)

func noteInventory(t reflect.Type) {
	inventoryMu.Lock()
	defer inventoryMu.Unlock()
	if invTypes[t.String()] {
		return
	}
	invTypes[t.String()] = true
	for _, m := range methodsOf(t) {
		inventory[t.String()+"."+m.Name] = true
	}
}

func inventoryCounts() (types, methods int) {
	inventoryMu.Lock()
	defer inventoryMu.Unlock()
	return len(invTypes), len(inventory)
}

// ---------- targets ----------

type target struct {
	label  string
	v      reflect.Value // pointer with the full method set
	isIter bool
	isMain bool
	drv    *drv    // for the main container
	owner  *target // for an iterator: the container it iterates over
}

type c17 struct {
	idx     int
	rng     *rand.Rand
	g       *gen
	cfg     Config
	ops     []*Op
	cr      *caseResult
	d       *drv
	targets []*target
	log     []string
	dead    bool // a call timed out: the case is over
	nviol   int
}

func (c *c17) violate(probe, what, detail string) {
	c.nviol++
	if c.nviol > 4 {
		return
	}
	h := historyText(c.ops)
	if len(c.log) > 0 {
		h = append(h, "-- calls made by the reflective driver --")
		lg := c.log
		if len(lg) > 100 {
			lg = lg[len(lg)-100:]
		}
		h = append(h, lg...)
	}
	c.cr.Violations = append(c.cr.Violations, Violation{
		What: c.cfg.Kind + ": " + what, Kind: c.cfg.Kind, Config: c.cfg.Text(), History: h,
		Probe: probe, Detail: detail, Replay: replayInfo(c.idx, c.cfg.Kind),
	})
	vlogf("  VIOLATION %s: %s\n    %s\n", probe, what, strings.ReplaceAll(detail, "\n", "\n    "))
}

// asTarget turns a call result into a target when it is a container or an iterator of the
// library (pointer, or struct value copied into an addressable one).
func asTarget(v reflect.Value) (reflect.Value, bool) {
	if !v.IsValid() {
		return v, false
	}
	t := v.Type()
	switch {
	case t.Kind() == reflect.Ptr && t.Elem().Kind() == reflect.Struct:
		if v.IsNil() || !isLibraryType(t) {
			return v, false
		}
	case t.Kind() == reflect.Struct && isLibraryType(t):
		p := reflect.New(t)
		p.Elem().Set(v)
		v, t = p, p.Type()
	default:
		return v, false
	}
	isIter := hasMethod(t, "Next") && hasMethod(t, "Value")
	isContainer := hasMethod(t, "Values") && hasMethod(t, "Size")
	if !isIter && !isContainer {
		return v, false
	}
	return v, true
}

func (c *c17) addTarget(v reflect.Value, origin string, owner *target) *target {
	t := v.Type()
	noteInventory(t)
	tg := &target{v: v, isIter: hasMethod(t, "Next") && hasMethod(t, "Value")}
	if tg.isIter {
		tg.owner = owner
	}
	n := 0
	for _, o := range c.targets {
		if o.v.Type() == t {
			n++
		}
	}
	tg.label = fmt.Sprintf("%s#%d", strings.TrimPrefix(t.String(), "*"), n+1)
	if origin != "" {
		tg.label += "<-" + origin
	}
	if len(c.targets) >= 9 { // replace a random non-main target (and retire the iterators over it)
		i := 1 + c.rng.Intn(len(c.targets)-1)
		old := c.targets[i]
		c.targets[i] = tg
		if !old.isIter {
			c.retireIterators(old)
		}
	} else {
		c.targets = append(c.targets, tg)
	}
	return tg
}

// ---------- guarded call ----------

type callOutcome struct {
	outs     []reflect.Value
	panicked bool
	panicVal string
	stack    string
	timedOut bool
	output   string
}

// guarded runs f under recover() and the watchdog; bytes written to fd 1 / fd 2 are collected.
func guarded(f func() []reflect.Value) callOutcome {
	type res struct {
		outs  []reflect.Value
		p     any
		stack string
		ok    bool
	}
	ch := make(chan res, 1)
	go func() {
		var r res
		defer func() {
			if p := recover(); p != nil {
				r.p, r.stack, r.ok = p, stackText(), false
			}
			ch <- r
		}()
		r.outs = f()
		r.ok = true
	}()
	var out callOutcome
	timer := time.NewTimer(callTimeout)
	select {
	case r := <-ch:
		timer.Stop()
		out.outs = r.outs
		if !r.ok {
			out.panicked, out.panicVal, out.stack = true, fmt.Sprint(r.p), r.stack
		}
	case <-timer.C:
		out.timedOut = true
	}
	if wenv != nil && wenv.capture != nil {
		out.output = wenv.capture.dirty()
	}
	return out
}

// call invokes one method and judges the outcome.  ok = false: the case cannot go on.
func (c *c17) call(tg *target, name string, args []reflect.Value, argText string, slice bool) (outs []reflect.Value, ok bool) {
	text := fmt.Sprintf("%s.%s(%s)", tg.label, name, argText)
	writeProgress(fmt.Sprintf("case=%d kind=%s %s", c.idx, c.cfg.Kind, text))
	mv := tg.v.MethodByName(name)
	o := guarded(func() []reflect.Value {
		if slice {
			return mv.CallSlice(args)
		}
		return mv.Call(args)
	})
	c.cr.Checks["calls"]++
	c.log = append(c.log, text+summarise(o))
	vlogf("  call %s%s\n", text, summarise(o))
	probe := "C17:" + strings.TrimPrefix(tg.v.Type().String(), "*") + "." + name
	if o.output != "" {
		c.violate(probe, fmt.Sprintf("%s wrote to standard output / standard error", text), "bytes written: "+strconv.Quote(o.output))
	}
	if o.timedOut {
		c.violate(probe, fmt.Sprintf("%s did not return within %v (non-termination)", text, callTimeout), "the call was abandoned by the watchdog")
		c.dead = true
		c.cr.Checks["call_timeouts"]++
		return nil, false
	}
	if o.panicked {
		c.violate(probe, fmt.Sprintf("%s panicked: %s", text, o.panicVal), o.stack)
		return nil, false
	}
	return o.outs, true
}

func summarise(o callOutcome) string {
	switch {
	case o.timedOut:
		return " -> TIMEOUT"
	case o.panicked:
		return " -> PANIC " + o.panicVal
	}
	parts := []string{}
	for _, v := range o.outs {
		switch v.Kind() {
		case reflect.Bool, reflect.Int:
			parts = append(parts, fmt.Sprint(v.Interface()))
		case reflect.Slice:
			parts = append(parts, fmt.Sprintf("%s(len %d)", v.Type(), v.Len()))
		case reflect.Interface:
			if v.IsNil() {
				parts = append(parts, "nil")
			} else if e, ok := v.Interface().(error); ok {
				s := e.Error()
				if len(s) > 60 {
					s = s[:60] + "..."
				}
				parts = append(parts, "error("+s+")")
			} else {
				parts = append(parts, fmt.Sprint(v.Interface()))
			}
		default:
			parts = append(parts, v.Type().String())
		}
	}
	if len(parts) == 0 {
		return ""
	}
	return " -> " + strings.Join(parts, ", ")
}

// ---------- argument synthesis ----------

func (c *c17) size() int {
	n := 0
	func() {
		defer func() { recover() }()
		n = c.d.c.Size()
	}()
	return n
}

func (c *c17) hostileInt() int {
	size := c.size()
	set := []int{-1, 0, 1, size - 1, size, size + 1, 1 << 31, -(1 << 31), math.MaxInt, math.MinInt,
		c.rng.Intn(c.cfg.Uni + 1), c.rng.Intn(c.cfg.Uni + 1), c.rng.Intn(size + 1), c.rng.Intn(size + 1)}
	return set[c.rng.Intn(len(set))]
}

func (c *c17) intList() []int {
	var n int
	switch c.rng.Intn(6) {
	case 0:
		n = 0
	case 1:
		n = 1
	case 2:
		n = 2
	case 3:
		n = 3
	case 4:
		n = 5 + c.rng.Intn(20)
	default:
		n = c.rng.Intn(4)
	}
	out := make([]int, n)
	for i := range out {
		switch x := c.rng.Intn(20); {
		case x == 0:
			out[i] = c.hostileInt()
		case x < 5 && i > 0:
			out[i] = out[c.rng.Intn(i)] // duplicate
		default:
			out[i] = c.rng.Intn(c.cfg.Uni)
		}
	}
	return out
}

// pure callbacks built by reflection for any func(int...) (int|bool...) type
func pureFunc(t reflect.Type, variant int) reflect.Value {
	isComparator := strings.Contains(t.Name(), "Comparator")
	return reflect.MakeFunc(t, func(in []reflect.Value) []reflect.Value {
		sum := 0
		ints := []int{}
		for _, v := range in {
			if v.Kind() == reflect.Int {
				sum += int(v.Int())
				ints = append(ints, int(v.Int()))
			}
		}
		out := make([]reflect.Value, t.NumOut())
		for j := range out {
			ot := t.Out(j)
			switch ot.Kind() {
			case reflect.Bool:
				var b bool
				switch variant % 4 {
				case 0:
					b = true
				case 1:
					b = false
				case 2:
					b = floorMod(sum, 3) == 0
				default:
					b = len(ints) > 1 && ints[1] < 2
				}
				out[j] = reflect.ValueOf(b).Convert(ot)
			case reflect.Int:
				var r int
				switch {
				case isComparator && len(ints) == 2:
					if variant%2 == 0 {
						r = cmp.Compare(ints[0], ints[1])
					} else {
						r = cmp.Compare(ints[1], ints[0])
					}
				case j < len(ints):
					switch variant % 3 {
					case 0:
						r = ints[j]
					case 1:
						r = ints[j]/2 + 1
					default:
						r = -ints[j]
					}
				default:
					r = sum
				}
				out[j] = reflect.ValueOf(r).Convert(ot)
			default:
				out[j] = reflect.Zero(ot)
			}
		}
		return out
	})
}

func floorMod(a, b int) int {
	m := a % b
	if m != 0 && ((m < 0) != (b < 0)) {
		m += b
	}
	return m
}

func funcTypeOK(t reflect.Type) bool {
	for i := 0; i < t.NumIn(); i++ {
		if k := t.In(i).Kind(); k != reflect.Int && k != reflect.Bool && k != reflect.Struct {
			return false
		}
	}
	for i := 0; i < t.NumOut(); i++ {
		if k := t.Out(i).Kind(); k != reflect.Int && k != reflect.Bool && k != reflect.Struct {
			return false
		}
	}
	return true
}

// synth produces an argument of type t for a call on tg.
func (c *c17) synth(tg *target, t reflect.Type) (reflect.Value, string, bool) {
	switch {
	case t == intType:
		x := c.hostileInt()
		return reflect.ValueOf(x), strconv.Itoa(x), true
	case t == boolType:
		b := c.rng.Intn(2) == 0
		return reflect.ValueOf(b), fmt.Sprint(b), true
	case t == stringType:
		return reflect.ValueOf("x"), `"x"`, true
	case t == byteSliceType:
		doc, what := c.jsonDoc()
		show := string(doc)
		if len(show) > 70 {
			show = show[:70] + fmt.Sprintf("...(%d bytes)", len(doc))
		}
		return reflect.ValueOf(doc), what + ":" + strconv.Quote(show), true
	case t == intSliceType:
		l := c.intList()
		return reflect.ValueOf(l), joinInts(l), true
	case t.Kind() == reflect.Func && funcTypeOK(t):
		variant := c.rng.Intn(12)
		return pureFunc(t, variant), fmt.Sprintf("<pure func #%d>", variant), true
	case t == tg.v.Type():
		// a container of the receiver's type: the same one, or a fresh one with some content
		if c.rng.Intn(4) == 0 {
			return tg.v, "<same container>", true
		}
		if tg.isMain || t == reflect.TypeOf(c.d.raw) {
			o := newLike(c.d)
			vs := c.intList()
			if o.add != nil {
				o.add(vs...)
			}
			return reflect.ValueOf(o.raw), "<fresh container with " + joinInts(vs) + ">", true
		}
		return tg.v, "<same container>", true
	case t.Kind() == reflect.Ptr && t.Elem().Kind() == reflect.Struct && isLibraryType(t):
		// e.g. a tree node (IteratorAt): obtained from the receiver itself through a method
		// that returns this type and takes only ints; a nil result is not passed on
		prods := []reflect.Method{}
		for _, m := range methodsOf(tg.v.Type()) {
			if m.Type.NumOut() == 0 || m.Type.Out(0) != t || m.Type.IsVariadic() {
				continue
			}
			ints := true
			for i := 1; i < m.Type.NumIn(); i++ {
				ints = ints && m.Type.In(i) == intType
			}
			if ints {
				prods = append(prods, m)
			}
		}
		if len(prods) == 0 {
			return reflect.Value{}, "", false
		}
		m := prods[c.rng.Intn(len(prods))]
		args, texts := []reflect.Value{}, []string{}
		for i := 1; i < m.Type.NumIn(); i++ {
			x := c.rng.Intn(c.cfg.Uni + 1)
			args, texts = append(args, reflect.ValueOf(x)), append(texts, strconv.Itoa(x))
		}
		outs, ok := c.call(tg, m.Name, args, strings.Join(texts, ", "), false)
		if !ok || len(outs) == 0 || outs[0].IsNil() {
			return reflect.Value{}, "", false
		}
		return outs[0], "<result of " + m.Name + "(" + strings.Join(texts, ", ") + ")>", true
	case t.Kind() == reflect.Interface && reflect.TypeOf(c.d.raw).Implements(t):
		return reflect.ValueOf(c.d.raw).Convert(t), "<the container>", true
	}
	return reflect.Value{}, "", false
}

// ---------- JSON pool ----------

func (c *c17) jsonDoc() ([]byte, string) {
	g := c.g
	kv := isKVKind(c.cfg.Kind)
	if g.chance(15) {
		kv = !kv
	}
	num := func() string { return strconv.Itoa(g.intn(c.cfg.Uni)) }
	array := func(n int) []string {
		out := make([]string, n)
		for i := range out {
			out[i] = num()
		}
		return out
	}
	members := func(n int, dup bool) []string {
		out := []string{}
		for i := 0; i < n; i++ {
			k := num()
			if !dup {
				k = strconv.Itoa(i)
			}
			out = append(out, `"`+k+`":`+num())
		}
		return out
	}
	doc := func(items []string) string {
		if kv {
			return "{" + strings.Join(items, ",") + "}"
		}
		return "[" + strings.Join(items, ",") + "]"
	}
	items := func(n int) []string {
		if kv {
			return members(n, false)
		}
		return array(n)
	}
	wrong := []string{`"x"`, `[]`, `{}`, `true`, `null`, `1.5`, `[1]`, `{"a":1}`, `""`, `-0`, `1e2`}
	switch g.intn(20) {
	case 0:
		return []byte(doc(items(g.intn(8)))), "valid"
	case 1:
		return []byte(doc(items(1 + g.intn(30)))), "valid"
	case 2:
		return []byte("null"), "null"
	case 3:
		return []byte("[]"), "empty array"
	case 4:
		return []byte("{}"), "empty object"
	case 5:
		s := doc(items(1 + g.intn(6)))
		return []byte(s[:g.intn(len(s))]), "truncated"
	case 6, 7:
		it := items(1 + g.intn(6))
		pos := []int{0, len(it) / 2, len(it) - 1}[g.intn(3)]
		w := wrong[g.intn(len(wrong))]
		if kv {
			it[pos] = `"` + strconv.Itoa(pos) + `":` + w
		} else {
			it[pos] = w
		}
		return []byte(doc(it)), "wrong element type at " + strconv.Itoa(pos)
	case 8:
		huge := []string{"99999999999999999999", "1e400", "-99999999999999999999", "9223372036854775808", "-9223372036854775809", "9223372036854775807"}
		it := items(1 + g.intn(4))
		h := huge[g.intn(len(huge))]
		if kv {
			if g.chance(50) {
				it[0] = `"` + h + `":1`
			} else {
				it[0] = `"1":` + h
			}
		} else {
			it[0] = h
		}
		return []byte(doc(it)), "huge number"
	case 9:
		it := items(1 + g.intn(4))
		if kv {
			it[len(it)-1] = `"7":2.5`
		} else {
			it[len(it)-1] = "2.5"
		}
		return []byte(doc(it)), "float"
	case 10:
		open, cl := "[", "]"
		if g.chance(40) {
			open, cl = `{"1":`, "}"
		}
		depth := 10001
		s := strings.Repeat(open, depth)
		if g.chance(50) {
			s += "1" + strings.Repeat(cl, depth)
		}
		return []byte(s), "nested 10001 levels"
	case 11:
		b := make([]byte, g.intn(40))
		for i := range b {
			b[i] = byte(g.intn(256))
		}
		return b, "random bytes"
	case 12:
		return []byte("{" + strings.Join(members(2+g.intn(6), true), ",") + "}"), "duplicate keys"
	case 13:
		s := doc(items(g.intn(5)))
		s = strings.ReplaceAll(s, ",", " ,\n\t ")
		return []byte(" \n\t" + s + "  \r\n"), "whitespace"
	case 14:
		return []byte{}, "empty input"
	case 15:
		return []byte(`{"a":1,"":2,"1.5":3,"-1":4," 2":5}`), "non-integer keys"
	case 16:
		return []byte(`[` + strings.Join(array(g.intn(4)), ",") + `] x`), "trailing garbage"
	case 17:
		return []byte(wrong[g.intn(len(wrong))]), "scalar or wrong top-level type"
	case 18:
		it := []string{}
		for i, n := 0, 1+g.intn(6); i < n; i++ {
			it = append(it, strconv.Itoa(-g.intn(5)))
		}
		if kv {
			for i := range it {
				it[i] = `"` + it[i] + `":` + it[i]
			}
		}
		return []byte(doc(it)), "negative numbers and repeats"
	}
	// equal values under different keys (bidirectional maps), or a long document
	if kv {
		return []byte(`{"1":5,"2":5,"3":5,"5":1}`), "equal values"
	}
	return []byte(doc(array(40 + g.intn(60)))), "long"
}

// ---------- the case ----------

func runC17(idx int, rng *rand.Rand, kind string, cr *caseResult) {
	d, ops, ok := buildState(idx, rng, kind, cr)
	if wenv != nil && wenv.capture != nil {
		if out := wenv.capture.dirty(); out != "" {
			cr.Violations = append(cr.Violations, Violation{
				What: kind + ": a mutator of the history wrote to standard output / standard error", Kind: kind,
				Config: cr.CfgText, History: historyText(ops), Probe: "C17:history",
				Detail: "bytes written: " + strconv.Quote(out), Replay: replayInfo(idx, kind),
			})
		}
	}
	if !ok {
		return
	}
	c := &c17{idx: idx, rng: rng, g: &gen{rng: rng, cfg: d.cfg}, cfg: d.cfg, ops: ops, cr: cr, d: d}
	main := &target{label: kind, v: reflect.ValueOf(d.raw), isMain: true, drv: d}
	noteInventory(main.v.Type())
	c.targets = []*target{main}
	if idx < 3*len(allKinds) && d.c.Size() > 0 {
		cr.Sample = &Sample{Case: idx, Kind: kind, Config: d.cfg.Text(), History: historyText(ops)}
	}

	c.walk("before")
	steps := 30 + rng.Intn(50)
	for i := 0; i < steps && !c.dead; i++ {
		c.step()
	}
	if !c.dead {
		c.sortedValues()
		c.walk("after")
	}
	ty, me := inventoryCounts()
	cr.Checks["max:inventory_types"] = ty
	cr.Checks["max:inventory_methods"] = me
	if cr.Sample != nil {
		lg := c.log
		if len(lg) > 12 {
			lg = lg[:12]
		}
		cr.Sample.Note = fmt.Sprintf("%d reflective calls, first ones: %s", len(c.log), strings.Join(lg, "; "))
	}
}

func (c *c17) pickTarget() *target {
	iters, others := []*target{}, []*target{}
	for _, t := range c.targets[1:] {
		if t.isIter {
			iters = append(iters, t)
		} else {
			others = append(others, t)
		}
	}
	x := c.rng.Intn(100)
	switch {
	case x < 50:
		return c.targets[0]
	case x < 88:
		if len(iters) > 0 && c.rng.Intn(8) != 0 {
			return iters[c.rng.Intn(len(iters))]
		}
		// make a new iterator
		if hasMethod(c.targets[0].v.Type(), "Iterator") {
			outs, ok := c.call(c.targets[0], "Iterator", nil, "", false)
			if ok && len(outs) == 1 {
				if v, ok := asTarget(outs[0]); ok {
					return c.addTarget(v, "", c.targets[0])
				}
			}
		}
		return c.targets[0]
	}
	if len(others) > 0 {
		return others[c.rng.Intn(len(others))]
	}
	return c.targets[0]
}

func (c *c17) step() {
	tg := c.pickTarget()
	if c.dead {
		return
	}
	ms := methodsOf(tg.v.Type())
	// iterator accessors are not chosen on their own
	cands := ms[:0:0]
	for _, m := range ms {
		if tg.isIter && m.Type.NumIn() == 1 && !moveNames[m.Name] && !resetNames[m.Name] {
			continue
		}
		cands = append(cands, m)
	}
	if len(cands) == 0 {
		return
	}
	m := cands[c.rng.Intn(len(cands))]
	c.callMethod(tg, m)
}

func (c *c17) callMethod(tg *target, m reflect.Method) {
	mt := m.Type
	args := []reflect.Value{}
	texts := []string{}
	for i := 1; i < mt.NumIn(); i++ {
		v, text, ok := c.synth(tg, mt.In(i))
		if !ok {
			c.cr.Checks["methods_skipped_unknown_parameter_type"]++
			vlogf("  skip %s.%s: cannot synthesise %s\n", tg.label, m.Name, mt.In(i))
			return
		}
		args = append(args, v)
		texts = append(texts, text)
	}
	// An iterator is used as documented only while its container is not modified: when a call
	// changes the container (deep dump of all fields, so methods added later are covered), the
	// iterators over it are retired.
	before := ""
	if !tg.isIter && c.hasIterators(tg) {
		before = c.safeDump(tg)
	}
	outs, ok := c.call(tg, m.Name, args, strings.Join(texts, ", "), mt.IsVariadic())
	if before != "" && !c.dead && (!ok || c.safeDump(tg) != before) {
		c.retireIterators(tg)
	}
	if !ok {
		return
	}
	if tg.isIter && moveNames[m.Name] && len(outs) == 1 && outs[0].Kind() == reflect.Bool && outs[0].Bool() {
		c.accessors(tg)
	}
	for _, o := range outs {
		if v, ok := asTarget(o); ok && c.rng.Intn(3) != 0 {
			c.addTarget(v, m.Name, tg)
		}
	}
}

func (c *c17) hasIterators(owner *target) bool {
	for _, t := range c.targets {
		if t.isIter && t.owner == owner {
			return true
		}
	}
	return false
}

func (c *c17) retireIterators(owner *target) {
	kept := c.targets[:0]
	for _, t := range c.targets {
		if t.isIter && t.owner == owner {
			c.cr.Checks["iterators_retired_after_mutation"]++
			continue
		}
		kept = append(kept, t)
	}
	c.targets = kept
}

func (c *c17) safeDump(tg *target) (s string) {
	defer func() {
		if r := recover(); r != nil {
			s = fmt.Sprintf("<dump panicked: %v>", r)
		}
	}()
	return deepDump(tg.v.Interface())
}

// accessors reads Value / Key / Index (every parameterless method that is not a move) right
// after a move that returned true.
func (c *c17) accessors(tg *target) {
	for _, m := range methodsOf(tg.v.Type()) {
		if m.Type.NumIn() != 1 || moveNames[m.Name] || resetNames[m.Name] {
			continue
		}
		if _, ok := c.call(tg, m.Name, nil, "", false); !ok {
			return
		}
	}
}

// walk: a fresh iterator forwards to the end and backwards to the beginning, at most
// 4*(size+2) steps each way.
func (c *c17) walk(when string) {
	main := c.targets[0]
	if !hasMethod(main.v.Type(), "Iterator") || c.dead {
		return
	}
	size := c.size()
	bound := 4 * (size + 2)
	outs, ok := c.call(main, "Iterator", nil, "", false)
	if !ok || len(outs) != 1 {
		return
	}
	v, ok := asTarget(outs[0])
	if !ok {
		return
	}
	it := &target{label: "walk-" + when + ":" + strings.TrimPrefix(v.Type().String(), "*"), v: v, isIter: true}
	noteInventory(v.Type())
	c.cr.Checks["iterator_walks"]++
	run := func(move string) {
		n := 0
		for {
			outs, ok := c.call(it, move, nil, "", false)
			if !ok || len(outs) != 1 || !outs[0].Bool() {
				return
			}
			c.accessors(it)
			if c.dead {
				return
			}
			n++
			if n > bound {
				c.violate("C17:iterator-walk", fmt.Sprintf("walking a fresh iterator with %s() does not end: %d successful moves on a container of size %d (bound 4*(size+2) = %d)",
					move, n, size, bound), "non-termination of iteration (e.g. a cycle through parent pointers)")
				return
			}
		}
	}
	run("Next")
	if hasMethod(v.Type(), "Prev") && !c.dead {
		if c.rng.Intn(2) == 0 {
			if _, ok := c.call(it, "End", nil, "", false); !ok {
				return
			}
		}
		run("Prev")
	}
}

// package-level functions of containers
func (c *c17) sortedValues() {
	main := c.targets[0]
	fake := &target{label: "containers", v: reflect.ValueOf(sortedValuesShim{c.d.c})}
	_ = main
	c.call(fake, "GetSortedValues", nil, "", false)
	f, txt, _ := c.synth(main, comparatorType)
	c.call(fake, "GetSortedValuesFunc", []reflect.Value{f}, txt, false)
}

type sortedValuesShim struct{ c containers.Container[int] }

func (s sortedValuesShim) GetSortedValues() []int { return containers.GetSortedValues[int](s.c) }
func (s sortedValuesShim) GetSortedValuesFunc(f func(a, b int) int) []int {
	return containers.GetSortedValuesFunc[int](s.c, f)
}

var _ = sort.Ints
