package main

// Tags of the generated states that the probes are meant to reach (counted in "checks").

import (
	"github.com/emirpasic/gods/v2/lists/arraylist"
	"github.com/emirpasic/gods/v2/queues/arrayqueue"
	"github.com/emirpasic/gods/v2/queues/circularbuffer"
	"github.com/emirpasic/gods/v2/queues/priorityqueue"
	"github.com/emirpasic/gods/v2/stacks/arraystack"
	"github.com/emirpasic/gods/v2/trees/binaryheap"
)

func stateTags(d *drv, ops []*Op) []string {
	tags := []string{}
	if d.c.Size() == 0 {
		tags = append(tags, "state_empty")
	}
	var al *arraylist.List[int]
	switch c := d.raw.(type) {
	case *arraylist.List[int]:
		al = c
	case *arraystack.Stack[int]:
		al = c.VerifInner()
	case *arrayqueue.Queue[int]:
		al = c.VerifInner()
	case *binaryheap.Heap[int]:
		al = c.VerifInner()
	case *priorityqueue.Queue[int]:
		al = c.VerifInner().VerifInner()
	case *circularbuffer.Queue[int]:
		_, start, end, full, _, size := c.VerifState()
		if full {
			tags = append(tags, "state_ring_full")
			if end == 0 {
				tags = append(tags, "state_ring_full_end0")
			} else {
				tags = append(tags, "state_ring_full_wrapped")
			}
		} else if size > 0 && end < start {
			tags = append(tags, "state_ring_wrapped")
		} else if size > 0 && end == 0 {
			tags = append(tags, "state_ring_end0")
		}
	}
	if al != nil {
		e, capacity, _ := al.VerifRaw()
		if len(e) > 0 && len(e) == capacity {
			tags = append(tags, "state_arraylist_len_eq_cap")
		} else if len(e) > 0 {
			tags = append(tags, "state_arraylist_spare_capacity")
		}
	}
	if d.shape != nil || d.cfg.Kind == "AVLTree" || d.cfg.Kind == "BTree" || d.cfg.Kind == "RedBlackTree" {
		// removal of the current minimum somewhere in the history
		for _, o := range ops {
			if o.Name == "Clear" {
				tags = append(tags, "history_with_clear")
				break
			}
		}
	}
	return tags
}
