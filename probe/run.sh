#!/bin/sh
# run.sh <PID> <tier> <seed>
#
# Builds the probe against the CURRENT /repo working tree (or the tree named by PROBE_REPO),
# runs it for property PID in {C16, C17, C18} and prints ONE JSON object on stdout.  Progress
# and build output go to stderr.  Exit code 0 unless the probe itself is broken (2).
#
# Environment:
#   PROBE_REPO   build against this copy of the library instead of /repo (validation)
#   PROBE_N      number of cases (default: depends on the tier)
#   PROBE_ARGS   extra arguments for the probe (e.g. "-only 17")

set -u
export GOFLAGS=-mod=mod GOPROXY=off GOSUMDB=off GOTOOLCHAIN=local

if [ $# -lt 1 ]; then
	echo "usage: run.sh <C16|C17|C18> [quick|thorough] [seed]" >&2
	exit 2
fi
pid=$1
tier=${2:-quick}
seed=${3:-1}
case "$pid" in C16 | C17 | C18) ;; *)
	echo "run.sh: unknown property $pid" >&2
	exit 2
	;;
esac
case "$tier" in quick | thorough) ;; *)
	echo "run.sh: unknown tier $tier" >&2
	exit 2
	;;
esac

here=$(cd "$(dirname "$0")" && pwd)
build=${PROBE_BUILD_DIR:-/verif/build}
mkdir -p "$build" || exit 2
work=$(mktemp -d /tmp/probe-run-XXXXXX) || exit 2
trap 'rm -rf "$work"' EXIT INT TERM

modflag=""
if [ -n "${PROBE_REPO:-}" ]; then
	sed "s#=> /repo\$#=> $PROBE_REPO#" "$here/go.mod" >"$work/go.mod"
	cp "$here/go.sum" "$work/go.sum"
	modflag="-modfile=$work/go.mod"
fi

race=""
name=probe
if [ "$pid" = C18 ]; then
	race="-race"
	name=probe-race
fi

# build into a private file (several run.sh may be active), run it from there, then publish it
echo "run.sh: building $name (-tags verif $race) against ${PROBE_REPO:-/repo}" >&2
if ! (cd "$here" && go build -tags verif $race $modflag -o "$work/$name" .) >&2; then
	echo "run.sh: the probe does not build against ${PROBE_REPO:-/repo}" >&2
	exit 2
fi

nflag=""
if [ -n "${PROBE_N:-}" ]; then nflag="-n $PROBE_N"; fi

# shellcheck disable=SC2086
"$work/$name" -prop "$pid" -tier "$tier" -seed "$seed" $nflag ${PROBE_ARGS:-}
status=$?
if [ -z "${PROBE_REPO:-}" ]; then
	cp "$work/$name" "$build/.$name.$$" 2>/dev/null && mv -f "$build/.$name.$$" "$build/$name"
fi
if [ $status -ne 0 ]; then
	echo "run.sh: probe exited with status $status" >&2
	exit 2
fi
exit 0
