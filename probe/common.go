package main

// Vocabulary shared by the three probes: configurations, text helpers (the few printing
// functions the copied drivers use), comparator family, operations and the generator of random
// histories.  Derived from /verif/harness (trace.go, families.go, gen.go), without the trace
// protocol.

import (
	"cmp"
	"fmt"
	"math/rand"
	"sort"
	"strconv"
	"strings"
)

// ---------- configuration ----------

type Config struct {
	Kind  string
	KCmp  string
	VCmp  string
	Cap   int
	Order int
	Uni   int
}

func (c Config) Text() string {
	s := "kind=" + c.Kind
	if takesComparator(c.Kind) {
		s += " kcmp=" + c.KCmp
	}
	if c.Kind == "TreeBidiMap" {
		s += " vcmp=" + c.VCmp
	}
	if c.Kind == "CircularBuffer" {
		s += fmt.Sprintf(" cap=%d", c.Cap)
	}
	if c.Kind == "BTree" {
		s += fmt.Sprintf(" order=%d", c.Order)
	}
	return s + fmt.Sprintf(" uni=%d", c.Uni)
}

var allKinds = []string{
	"ArrayList", "SinglyLinkedList", "DoublyLinkedList",
	"HashSet", "TreeSet", "LinkedHashSet",
	"ArrayStack", "LinkedListStack",
	"HashMap", "TreeMap", "LinkedHashMap", "HashBidiMap", "TreeBidiMap",
	"RedBlackTree", "AVLTree", "BTree", "BinaryHeap",
	"ArrayQueue", "LinkedListQueue", "CircularBuffer", "PriorityQueue",
}

func isKVKind(kind string) bool {
	switch kind {
	case "HashMap", "TreeMap", "LinkedHashMap", "HashBidiMap", "TreeBidiMap", "RedBlackTree", "AVLTree", "BTree":
		return true
	}
	return false
}

// kinds whose Values()/Keys()/String() order comes from ranging over a Go map
func isHashOrdered(kind string) bool {
	return kind == "HashSet" || kind == "HashMap" || kind == "HashBidiMap"
}

// ---------- text helpers used by the copied drivers ----------

func oz(n int) string { return strconv.Itoa(n) }

func obool(b bool) string {
	if b {
		return "1"
	}
	return "0"
}

func ol(items ...string) string { return "(" + strings.Join(items, " ") + ")" }

func ozs(l []int) string {
	var b strings.Builder
	b.WriteByte('(')
	for i, x := range l {
		if i > 0 {
			b.WriteByte(' ')
		}
		b.WriteString(strconv.Itoa(x))
	}
	b.WriteByte(')')
	return b.String()
}

func opairs(l [][2]int) string {
	var b strings.Builder
	b.WriteByte('(')
	for i, e := range l {
		if i > 0 {
			b.WriteByte(' ')
		}
		b.WriteString("(" + strconv.Itoa(e[0]) + " " + strconv.Itoa(e[1]) + ")")
	}
	b.WriteByte(')')
	return b.String()
}

func intsEqual(a, b []int) bool {
	if len(a) != len(b) {
		return false
	}
	for i := range a {
		if a[i] != b[i] {
			return false
		}
	}
	return true
}

func cloneInts(l []int) []int { return append([]int{}, l...) }

// ---------- comparators (harness/families.go) ----------

var cmpNames = []string{"CNat", "CRev", "CDiv3", "CAbs"}

func floorDiv(a, b int) int {
	if b == 0 {
		return 0
	}
	q := a / b
	if (a%b != 0) && ((a < 0) != (b < 0)) {
		q--
	}
	return q
}

func cmpKey(id string) func(int) int {
	switch id {
	case "CNat", "":
		return func(x int) int { return x }
	case "CRev":
		return func(x int) int { return -x }
	case "CDiv3":
		return func(x int) int { return floorDiv(x, 3) }
	case "CAbs":
		return func(x int) int {
			if x < 0 {
				return -x
			}
			return x
		}
	}
	panic("probe: unknown comparator " + id)
}

func comparator(id string) func(a, b int) int {
	key := cmpKey(id)
	return func(a, b int) int { return cmp.Compare(key(a), key(b)) }
}

// ---------- operations ----------

type Op struct {
	Name string
	I, J int
	Vs   []int
	Cmp  string
	JSON string
}

func (o *Op) Text() string {
	switch o.Name {
	case "Clear", "Pop", "Dequeue":
		return o.Name + "()"
	case "Add", "Append", "Prepend", "RemoveVals", "PushAll":
		n := o.Name
		if n == "RemoveVals" {
			n = "Remove"
		} else if n == "PushAll" {
			n = "Push"
		}
		return n + "(" + joinInts(o.Vs) + ")"
	case "Insert":
		if len(o.Vs) == 0 {
			return fmt.Sprintf("Insert(%d)", o.I)
		}
		return fmt.Sprintf("Insert(%d, %s)", o.I, joinInts(o.Vs))
	case "Set", "Swap", "Put":
		return fmt.Sprintf("%s(%d, %d)", o.Name, o.I, o.J)
	case "RemoveAt":
		return fmt.Sprintf("Remove(%d)", o.I)
	case "Remove", "Push", "Enqueue":
		return fmt.Sprintf("%s(%d)", o.Name, o.I)
	case "Sort":
		return "Sort(" + o.Cmp + ")"
	case "FromJSON":
		return "FromJSON(" + o.JSON + ")"
	}
	return o.Name + "?"
}

func joinInts(l []int) string {
	s := make([]string, len(l))
	for i, x := range l {
		s[i] = strconv.Itoa(x)
	}
	return strings.Join(s, ", ")
}

func historyText(ops []*Op) []string {
	out := make([]string, len(ops))
	for i, o := range ops {
		out[i] = o.Text()
	}
	return out
}

// applyOp runs one mutator through the driver record.  Operations the kind does not offer are
// ignored (the generator does not produce them).
func applyOp(d *drv, op *Op) {
	switch op.Name {
	case "Clear":
		d.c.Clear()
	case "FromJSON":
		_ = d.c.FromJSON([]byte(op.JSON))
	case "Add":
		d.add(op.Vs...)
	case "Append":
		d.appendF(op.Vs...)
	case "Prepend":
		d.prepend(op.Vs...)
	case "Insert":
		d.insert(op.I, op.Vs...)
	case "Set":
		d.set(op.I, op.J)
	case "RemoveAt":
		d.removeAt(op.I)
	case "Swap":
		d.swap(op.I, op.J)
	case "Sort":
		d.sortBy(comparator(op.Cmp))
	case "RemoveVals":
		d.removeVals(op.Vs...)
	case "Push":
		d.push(op.I)
	case "PushAll":
		d.pushAll(op.Vs...)
	case "Pop":
		d.pop()
	case "Enqueue":
		d.enqueue(op.I)
	case "Dequeue":
		d.dequeue()
	case "Put":
		d.put(op.I, op.J)
	case "Remove":
		d.remove(op.I)
	default:
		panic("probe: unknown operation " + op.Name)
	}
}

// replay builds the container of a case from scratch.
func replay(cfg Config, ops []*Op) *drv {
	d := newDrv(cfg)
	for _, op := range ops {
		applyOp(d, op)
	}
	return d
}

// ---------- random histories ----------

type gen struct {
	rng *rand.Rand
	cfg Config
}

func (g *gen) intn(n int) int {
	if n <= 0 {
		return 0
	}
	return g.rng.Intn(n)
}
func (g *gen) chance(pct int) bool { return g.intn(100) < pct }

func genConfig(rng *rand.Rand, kind string) Config {
	pickCmp := func() string {
		x := rng.Intn(10)
		switch {
		case x < 6:
			return "CNat"
		case x < 8:
			return "CRev"
		case x < 9:
			return "CDiv3"
		}
		return "CAbs"
	}
	c := Config{Kind: kind, KCmp: pickCmp(), VCmp: pickCmp()}
	c.Cap = 1 + rng.Intn(6)
	c.Order = 3 + rng.Intn(6)
	c.Uni = 3 + rng.Intn(10)
	if rng.Intn(4) == 0 {
		c.Uni = 20 + rng.Intn(30)
	}
	return c
}

type wname struct {
	name string
	w    int
}

func inserters(kind string) []wname {
	switch kind {
	case "ArrayList":
		return []wname{{"Add", 50}, {"Insert", 40}, {"Set", 10}}
	case "SinglyLinkedList", "DoublyLinkedList":
		return []wname{{"Add", 30}, {"Append", 10}, {"Prepend", 20}, {"Insert", 30}, {"Set", 10}}
	case "HashSet", "TreeSet", "LinkedHashSet":
		return []wname{{"Add", 100}}
	case "ArrayStack", "LinkedListStack":
		return []wname{{"Push", 100}}
	case "BinaryHeap":
		return []wname{{"Push", 55}, {"PushAll", 45}}
	case "ArrayQueue", "LinkedListQueue", "CircularBuffer", "PriorityQueue":
		return []wname{{"Enqueue", 100}}
	}
	return []wname{{"Put", 100}}
}

func removers(kind string) []wname {
	switch kind {
	case "ArrayList", "SinglyLinkedList", "DoublyLinkedList":
		return []wname{{"RemoveAt", 100}}
	case "HashSet", "TreeSet", "LinkedHashSet":
		return []wname{{"RemoveVals", 100}}
	case "ArrayStack", "LinkedListStack", "BinaryHeap":
		return []wname{{"Pop", 100}}
	case "ArrayQueue", "LinkedListQueue", "CircularBuffer", "PriorityQueue":
		return []wname{{"Dequeue", 100}}
	}
	return []wname{{"Remove", 100}}
}

func shufflers(kind string) []wname {
	switch kind {
	case "ArrayList", "SinglyLinkedList", "DoublyLinkedList":
		return []wname{{"Set", 40}, {"Swap", 35}, {"Sort", 25}}
	}
	return nil
}

func (g *gen) weighted(ws []wname) string {
	total := 0
	for _, w := range ws {
		total += w.w
	}
	x := g.intn(total)
	for _, w := range ws {
		if x < w.w {
			return w.name
		}
		x -= w.w
	}
	return ws[len(ws)-1].name
}

func (g *gen) value() int {
	x := g.intn(100)
	switch {
	case x < 90:
		return g.intn(g.cfg.Uni)
	case x < 95:
		return -1 - g.intn(3)
	}
	return g.cfg.Uni + g.intn(1000)
}

func (g *gen) values(max int) []int {
	n := g.intn(max + 1)
	out := make([]int, n)
	for i := range out {
		out[i] = g.value()
	}
	return out
}

// an index in or near [0, size]
func (g *gen) index(size int, inRangeOnly bool) int {
	if size > 0 && (inRangeOnly || g.chance(88)) {
		switch g.intn(4) {
		case 0:
			return 0
		case 1:
			return size - 1
		}
		return g.intn(size)
	}
	switch g.intn(4) {
	case 0:
		return -1
	case 1:
		return size
	case 2:
		return size + 1
	}
	return size
}

// an existing key/member, chosen by `style`: 0 minimum, 1 maximum, 2 random, 3 universe value
func (g *gen) existing(d *drv, style int) int {
	var pool []int
	if d.keys != nil {
		pool = d.keys()
	} else {
		pool = d.c.Values()
	}
	if len(pool) == 0 || style == 3 {
		return g.value()
	}
	s := sortedCopy(pool)
	switch style {
	case 0:
		return s[0]
	case 1:
		return s[len(s)-1]
	}
	return s[g.intn(len(s))]
}

func (g *gen) validJSON() string {
	n := g.intn(7)
	switch g.cfg.Kind {
	case "TreeMap", "TreeBidiMap", "RedBlackTree", "AVLTree", "BTree":
		// these load a JSON object by ranging over a Go map: with two or more members the
		// shape of the tree would not be reproducible from (seed, case index)
		n = g.intn(2)
	}
	var b strings.Builder
	if isKVKind(g.cfg.Kind) {
		b.WriteByte('{')
		seenK, seenV := map[int]bool{}, map[int]bool{}
		first := true
		for i := 0; i < n; i++ {
			k, v := g.intn(g.cfg.Uni), g.intn(g.cfg.Uni)
			if seenK[k] || seenV[v] { // keep the document unambiguous (bidi maps, ordering)
				continue
			}
			seenK[k], seenV[v] = true, true
			if !first {
				b.WriteByte(',')
			}
			first = false
			fmt.Fprintf(&b, "\"%d\":%d", k, v)
		}
		b.WriteByte('}')
		return b.String()
	}
	b.WriteByte('[')
	for i := 0; i < n; i++ {
		if i > 0 {
			b.WriteByte(',')
		}
		b.WriteString(strconv.Itoa(g.intn(g.cfg.Uni)))
	}
	b.WriteByte(']')
	return b.String()
}

// makeOp chooses the arguments of operation `name` looking at the live container.
func (g *gen) makeOp(d *drv, name string, style int) *Op {
	size := d.c.Size()
	op := &Op{Name: name}
	switch name {
	case "Add", "Append", "Prepend", "PushAll":
		op.Vs = g.values(3)
		if g.chance(8) {
			op.Vs = g.values(9)
		}
	case "Insert":
		op.I = g.index(size, false)
		if g.chance(30) {
			op.I = size
		}
		op.Vs = g.values(3)
	case "Set":
		op.I, op.J = g.index(size, false), g.value()
	case "RemoveAt":
		switch style {
		case 0:
			op.I = 0
		case 1:
			op.I = size - 1
		case 2:
			op.I = g.index(size, true)
		default:
			op.I = g.index(size, false)
		}
	case "Swap":
		op.I, op.J = g.index(size, false), g.index(size, false)
	case "Sort":
		op.Cmp = cmpNames[g.intn(len(cmpNames))]
	case "RemoveVals":
		op.Vs = []int{g.existing(d, style)}
		if g.chance(25) {
			op.Vs = append(op.Vs, g.values(2)...)
		}
		if g.chance(4) {
			op.Vs = nil
		}
	case "Push", "Enqueue":
		op.I = g.value()
	case "Put":
		op.I, op.J = g.value(), g.value()
	case "Remove":
		op.I = g.existing(d, style)
	case "FromJSON":
		op.JSON = g.validJSON()
	}
	return op
}

// genHistory generates a history of at most 60 operations and applies it to d while doing so.
// A panic of an operation propagates to the caller (the operation is the last of *out).
func genHistory(rng *rand.Rand, d *drv, out *[]*Op) {
	g := &gen{rng: rng, cfg: d.cfg}
	kind := d.cfg.Kind
	ins, rem, shuf := inserters(kind), removers(kind), shufflers(kind)
	do := func(name string, style int) {
		if len(*out) >= 60 {
			return
		}
		op := g.makeOp(d, name, style)
		*out = append(*out, op)
		applyOp(d, op)
	}
	random := func(n int) {
		for i := 0; i < n; i++ {
			x := g.intn(100)
			switch {
			case x < 4:
				do("Clear", 0)
			case x < 7:
				do("FromJSON", 0)
			case x < 20 && shuf != nil:
				do(g.weighted(shuf), 3)
			case x < 64:
				do(g.weighted(ins), 3)
			default:
				st := 2
				if g.chance(30) {
					st = 3
				}
				do(g.weighted(rem), st)
			}
		}
	}
	switch sc := g.intn(100); {
	case sc < 35: // plain random history, length 0..60
		random(g.intn(61))
	case sc < 62: // grow to N, shrink down to M, a few more operations
		sizes := []int{1, 2, 3, 4, 5, 7, 8, 9, 15, 16, 17, 31, 32, 33, 40}
		n := sizes[g.intn(len(sizes))]
		if g.chance(30) {
			n = 1 + g.intn(40)
		}
		single := g.chance(70)
		for d.c.Size() < n && len(*out) < 45 {
			before := d.c.Size()
			if single {
				// one element at a time through the simplest inserter
				op := g.makeOp(d, ins[0].name, 3)
				if op.Vs != nil || ins[0].name == "Add" {
					op.Vs = []int{g.value()}
				}
				if isSetKind(kind) || isKVKind(kind) {
					op.Vs, op.I = []int{before}, before // distinct keys so that the size grows
				}
				*out = append(*out, op)
				applyOp(d, op)
			} else {
				do(g.weighted(ins), 3)
			}
			if d.c.Size() == before && (kind == "CircularBuffer" || g.chance(20)) {
				break // ring is full / duplicates do not grow the container
			}
		}
		targets := []int{0, 1, 2, n / 4, n/4 + 1, n / 2}
		m := targets[g.intn(len(targets))]
		style := g.intn(3)
		for d.c.Size() > m && len(*out) < 58 {
			before := d.c.Size()
			do(g.weighted(rem), style)
			if d.c.Size() >= before {
				break
			}
		}
		random(g.intn(4))
	case sc < 75: // random, Clear, random
		random(g.intn(30))
		do("Clear", 0)
		random(g.intn(25))
	default: // bursts of insertions and removals (wraps rings, crosses grow/shrink thresholds)
		for len(*out) < 60 {
			for i, n := 0, 1+g.intn(10); i < n; i++ {
				do(g.weighted(ins), 3)
			}
			style := g.intn(3)
			for i, n := 0, 1+g.intn(10); i < n; i++ {
				do(g.weighted(rem), style)
			}
			if g.chance(15) {
				break
			}
		}
		if g.chance(50) { // finish with a burst of insertions so that the state is not empty
			for i, n := 0, 1+g.intn(6); i < n; i++ {
				do(g.weighted(ins), 3)
			}
		}
	}
}

var _ = sort.Ints
