package main

// PROBE C16: returned slices are snapshots, argument slices are copied, GetSortedValues does
// not alter the container.

import (
	"fmt"
	"math/rand"
	"reflect"
	"sort"
	"strings"

	"github.com/emirpasic/gods/v2/containers"
	"github.com/emirpasic/gods/v2/lists/arraylist"
	"github.com/emirpasic/gods/v2/lists/doublylinkedlist"
	"github.com/emirpasic/gods/v2/lists/singlylinkedlist"
	"github.com/emirpasic/gods/v2/maps/hashbidimap"
	"github.com/emirpasic/gods/v2/maps/linkedhashmap"
	"github.com/emirpasic/gods/v2/maps/treebidimap"
	"github.com/emirpasic/gods/v2/maps/treemap"
	"github.com/emirpasic/gods/v2/queues/arrayqueue"
	"github.com/emirpasic/gods/v2/queues/linkedlistqueue"
	"github.com/emirpasic/gods/v2/queues/priorityqueue"
	"github.com/emirpasic/gods/v2/sets/hashset"
	"github.com/emirpasic/gods/v2/sets/linkedhashset"
	"github.com/emirpasic/gods/v2/sets/treeset"
	"github.com/emirpasic/gods/v2/stacks/arraystack"
	"github.com/emirpasic/gods/v2/stacks/linkedliststack"
	"github.com/emirpasic/gods/v2/trees/binaryheap"
)

const (
	sentA      = -9100000 // written over the elements of a returned slice
	sentB      = -9200000 // written into the spare capacity of a returned slice
	sentC      = -9300000 // written over an argument slice after the call
	callerMark = 7700000  // what the caller had in the spare capacity of a slice
)

// fp16 is the deep fingerprint: the hook-based canonical text of the harness plus the generic
// dump of every field (which also shows the spare capacity of backing arrays).
func fp16(d *drv) string { return d.fingerprint() + " ## " + deepDump(d.raw) }

// ---------- where slices come from ----------

type sliceSrc struct {
	name      string
	get       func() []int
	unordered bool
}

// sliceSources: Values() and Keys() of the container and of the containers it wraps.
func sliceSources(d *drv) []sliceSrc {
	hash := isHashOrdered(d.cfg.Kind)
	out := []sliceSrc{{"Values", d.c.Values, hash}}
	if d.keys != nil {
		out = append(out, sliceSrc{"Keys", d.keys, hash})
	}
	add := func(name string, f func() []int, unordered bool) {
		out = append(out, sliceSrc{name, f, unordered})
	}
	switch c := d.raw.(type) {
	case *arraystack.Stack[int]:
		add("inner ArrayList.Values", func() []int { return c.VerifInner().Values() }, false)
	case *linkedliststack.Stack[int]:
		add("inner SinglyLinkedList.Values", func() []int { return c.VerifInner().Values() }, false)
	case *arrayqueue.Queue[int]:
		add("inner ArrayList.Values", func() []int { return c.VerifInner().Values() }, false)
	case *linkedlistqueue.Queue[int]:
		add("inner SinglyLinkedList.Values", func() []int { return c.VerifInner().Values() }, false)
	case *binaryheap.Heap[int]:
		add("inner ArrayList.Values", func() []int { return c.VerifInner().Values() }, false)
	case *priorityqueue.Queue[int]:
		add("inner BinaryHeap.Values", func() []int { return c.VerifInner().Values() }, false)
		add("inner ArrayList.Values", func() []int { return c.VerifInner().VerifInner().Values() }, false)
	case *treeset.Set[int]:
		add("inner RedBlackTree.Keys", func() []int { return c.VerifInner().Keys() }, false)
	case *linkedhashset.Set[int]:
		add("ordering list Values", func() []int { return c.VerifOrdering().Values() }, false)
	case *treemap.Map[int, int]:
		add("inner RedBlackTree.Keys", func() []int { return c.VerifInner().Keys() }, false)
		add("inner RedBlackTree.Values", func() []int { return c.VerifInner().Values() }, false)
	case *linkedhashmap.Map[int, int]:
		add("ordering list Values", func() []int { return c.VerifOrdering().Values() }, false)
	case *hashbidimap.Map[int, int]:
		add("forward HashMap.Keys", func() []int { return c.VerifInner().Keys() }, true)
		add("forward HashMap.Values", func() []int { return c.VerifInner().Values() }, true)
		add("inverse HashMap.Keys", func() []int { return c.VerifInverse().Keys() }, true)
		add("inverse HashMap.Values", func() []int { return c.VerifInverse().Values() }, true)
	case *treebidimap.Map[int, int]:
		add("forward RedBlackTree.Keys", func() []int { return c.VerifInner().Keys() }, false)
		add("forward RedBlackTree.Values", func() []int { return c.VerifInner().Values() }, false)
		add("inverse RedBlackTree.Keys", func() []int { return c.VerifInverse().Keys() }, false)
		add("inverse RedBlackTree.Values", func() []int { return c.VerifInverse().Values() }, false)
	}
	return out
}

func canonSlice(s []int, unordered bool) []int {
	if unordered {
		return sortedCopy(s)
	}
	return cloneInts(s)
}

func snapshotAll(ss []sliceSrc) [][]int {
	out := make([][]int, len(ss))
	for i, s := range ss {
		out[i] = canonSlice(s.get(), s.unordered)
	}
	return out
}

// scribble writes to every element of s, into its spare capacity, appends within the spare
// capacity and sorts it.
func scribble(s []int) {
	for i := range s {
		s[i] = sentA - i
	}
	full := s[:cap(s)]
	for i := len(s); i < cap(s); i++ {
		full[i] = sentB - i
	}
	if cap(s) > len(s) {
		_ = append(s, sentB)
	}
	sort.Ints(s)
}

// ---------- the case ----------

type c16 struct {
	idx  int
	rng  *rand.Rand
	cfg  Config
	ops  []*Op
	cr   *caseResult
	seen map[string]bool
}

func (c *c16) build() *drv { return replay(c.cfg, c.ops) }

func (c *c16) violate(probe, what, detail string, extra ...string) {
	key := probe + "|" + what
	if c.seen[key] || len(c.seen) >= 6 {
		return
	}
	c.seen[key] = true
	h := historyText(c.ops)
	h = append(h, extra...)
	c.cr.Violations = append(c.cr.Violations, Violation{
		What: c.cfg.Kind + ": " + what, Kind: c.cfg.Kind, Config: c.cfg.Text(), History: h,
		Probe: probe, Detail: detail, Replay: replayInfo(c.idx, c.cfg.Kind),
	})
	vlogf("  VIOLATION %s: %s\n    %s\n", probe, what, strings.ReplaceAll(detail, "\n", "\n    "))
}

// guard runs one sub-probe; a panic inside it is a finding of its own.
func (c *c16) guard(probe string, f func()) {
	defer func() {
		if r := recover(); r != nil {
			c.violate(probe, "a library call panicked during the probe", fmt.Sprintf("panic: %v\n%s", r, stackText()))
		}
	}()
	f()
}

func diffText(a, b string) string {
	i := 0
	for i < len(a) && i < len(b) && a[i] == b[i] {
		i++
	}
	lo := i - 60
	if lo < 0 {
		lo = 0
	}
	cut := func(s string) string {
		hi := i + 100
		if hi > len(s) {
			hi = len(s)
		}
		if lo > len(s) {
			return ""
		}
		return s[lo:hi]
	}
	return fmt.Sprintf("fingerprints differ at offset %d\n  expected: ...%s...\n  observed: ...%s...", i, cut(a), cut(b))
}

func runC16(idx int, rng *rand.Rand, kind string, cr *caseResult) {
	d, ops, ok := buildState(idx, rng, kind, cr)
	if !ok {
		return
	}
	c := &c16{idx: idx, rng: rng, cfg: d.cfg, ops: ops, cr: cr, seen: map[string]bool{}}
	c.guard("C16:replay", func() {
		if a, b := fp16(d), fp16(c.build()); a != b {
			c.violate("C16:replay", "replaying the history does not reproduce the state (probe not deterministic)", diffText(a, b))
		}
	})
	c.guard("C16a", c.probeA)
	c.guard("C16b", c.probeB)
	c.guard("C16c", c.probeC)
	c.guard("C16c", c.probeConstructors)
	c.guard("C16d", c.probeD)
	if d.c.Size() > 0 && idx < 3*len(allKinds) {
		note := "state: " + d.fingerprint()
		if len(note) > 400 {
			note = note[:400] + "..."
		}
		cr.Sample = &Sample{Case: idx, Kind: kind, Config: d.cfg.Text(), History: historyText(ops), Note: note}
	}
}

// (a) writing to a returned slice never changes the container
func (c *c16) probeA() {
	n := len(sliceSources(c.build()))
	for si := 0; si < n; si++ {
		d := c.build()
		ss := sliceSources(d)
		src := ss[si]
		probe := "C16a:" + src.name
		fp0 := fp16(d)
		before := snapshotAll(ss)
		s := src.get()
		scribble(s)
		c.cr.Checks["a_returned_slice_written"]++
		if fp1 := fp16(d); fp1 != fp0 {
			c.violate(probe, "writing to the slice returned by "+src.name+"() changed the container", diffText(fp0, fp1))
			continue
		}
		after := snapshotAll(ss)
		for j := range ss {
			if !intsEqual(before[j], after[j]) {
				c.violate(probe, "after writing to the slice returned by "+src.name+"(), "+ss[j].name+"() returns something else",
					fmt.Sprintf("expected %v, observed %v", before[j], after[j]))
			}
		}
	}
}

// stir applies mutators that would write to any shared backing array: for lists Sort, Set of
// every index and Swap; some random operations; for the ring cap+1 Enqueues; removals down to
// empty; insertions; Clear; insertions.  check is called after every operation and stops the
// sequence by returning false.
func stir(d *drv, rng *rand.Rand, check func(op *Op) bool) {
	g := &gen{rng: rng, cfg: d.cfg}
	kind := d.cfg.Kind
	ins, rem, shuf := inserters(kind), removers(kind), shufflers(kind)
	stop := false
	do := func(op *Op) {
		if stop {
			return
		}
		applyOp(d, op)
		if !check(op) {
			stop = true
		}
	}
	if isListKind(kind) {
		do(&Op{Name: "Sort", Cmp: "CRev"})
		for i, n := 0, d.c.Size(); i < n; i++ {
			do(&Op{Name: "Set", I: i, J: 31000 + i})
		}
		do(&Op{Name: "Swap", I: 0, J: d.c.Size() - 1})
	}
	for i := 0; i < 6 && !stop; i++ {
		switch x := g.intn(10); {
		case x < 2 && shuf != nil:
			do(g.makeOp(d, g.weighted(shuf), 3))
		case x < 6:
			do(g.makeOp(d, g.weighted(ins), 3))
		default:
			do(g.makeOp(d, g.weighted(rem), 2))
		}
	}
	if kind == "CircularBuffer" {
		for i := 0; i <= d.cfg.Cap; i++ {
			do(&Op{Name: "Enqueue", I: 41000 + i})
		}
	}
	for i := 0; i < 80 && d.c.Size() > 0 && !stop; i++ {
		do(g.makeOp(d, g.weighted(rem), i%3))
	}
	for i := 0; i < 3; i++ {
		do(g.makeOp(d, g.weighted(ins), 3))
	}
	do(&Op{Name: "Clear"})
	for i := 0; i < 3; i++ {
		do(g.makeOp(d, g.weighted(ins), 3))
	}
}

// (b) later changes to the container never change a slice returned earlier
func (c *c16) probeB() {
	n := len(sliceSources(c.build()))
	for si := 0; si < n; si++ {
		d := c.build()
		src := sliceSources(d)[si]
		probe := "C16b:" + src.name
		s := src.get()
		full := s[:cap(s)]
		for i := len(s); i < cap(s); i++ {
			full[i] = callerMark + i // the caller appended within the spare capacity
		}
		saved := cloneInts(full)
		c.cr.Checks["b_snapshot_kept_under_mutation"]++
		applied := []string{}
		stir(d, c.rng, func(op *Op) bool {
			applied = append(applied, op.Text())
			if intsEqual(full, saved) {
				return true
			}
			c.violate(probe, "a slice returned earlier by "+src.name+"() changed when the container was mutated by "+op.Text(),
				fmt.Sprintf("slice (whole capacity) expected %v, observed %v; mutators applied after taking the slice: %s",
					saved, full, strings.Join(applied, "; ")), "-- "+src.name+"() taken here --", strings.Join(applied, "; "))
			return false
		})
	}
}

var intSliceType = reflect.TypeOf([]int{})
var intType = reflect.TypeOf(0)

// (c) argument slices of every variadic method (found by reflection) are copied
func (c *c16) probeC() {
	d0 := c.build()
	rt := reflect.TypeOf(d0.raw)
	for mi := 0; mi < rt.NumMethod(); mi++ {
		m := rt.Method(mi)
		if strings.HasPrefix(m.Name, "Verif") {
			continue
		}
		mt := m.Type // In(0) is the receiver
		if !mt.IsVariadic() || mt.In(mt.NumIn()-1) != intSliceType {
			continue
		}
		nIdx := mt.NumIn() - 2
		okParams := true
		for i := 1; i <= nIdx; i++ {
			if mt.In(i) != intType {
				okParams = false
			}
		}
		if !okParams {
			c.cr.Checks["c_variadic_methods_skipped"]++
			continue
		}
		idxChoices := 1
		if nIdx > 0 {
			idxChoices = 3
		}
		for _, n := range []int{0, 1, 2, 5} {
			for spareSel := 0; spareSel < 3; spareSel++ {
				for idxSel := 0; idxSel < idxChoices; idxSel++ {
					c.argCase(m.Name, nIdx, n, spareSel, idxSel)
				}
			}
		}
	}
}

func (c *c16) fillArg(d *drv, name string, n, spare int) (arg, full []int) {
	g := &gen{rng: c.rng, cfg: c.cfg}
	arg = make([]int, n, n+spare)
	existing := d.c.Values()
	for i := range arg {
		if (name == "Remove" || name == "Contains") && len(existing) > 0 && g.chance(70) {
			arg[i] = existing[g.intn(len(existing))]
		} else {
			arg[i] = g.value()
		}
	}
	full = arg[:cap(arg)]
	for i := n; i < cap(arg); i++ {
		full[i] = callerMark + i
	}
	return arg, full
}

// checkArgAliasing: after a call that received arg..., the caller overwrites the whole
// capacity region; the container must not change; then the container is mutated; arg must not
// change.
func (c *c16) checkArgAliasing(d *drv, probe, call string, full []int) {
	afterCall := fp16(d)
	for i := range full {
		full[i] = sentC - i
	}
	wrote := cloneInts(full)
	if fp := fp16(d); fp != afterCall {
		c.violate(probe, "the caller's later writes to the slice passed to "+call+" reached the container",
			diffText(afterCall, fp), "-- "+call+" --")
		return
	}
	applied := []string{}
	stir(d, c.rng, func(op *Op) bool {
		applied = append(applied, op.Text())
		if intsEqual(full, wrote) {
			return true
		}
		c.violate(probe, "a later mutation of the container ("+op.Text()+") changed the slice that had been passed to "+call,
			fmt.Sprintf("argument slice (whole capacity) expected %v, observed %v; mutators applied: %s", wrote, full, strings.Join(applied, "; ")),
			"-- "+call+" --", strings.Join(applied, "; "))
		return false
	})
}

func (c *c16) argCase(name string, nIdx, n, spareSel, idxSel int) {
	d := c.build()
	size := d.c.Size()
	spare := []int{0, size, size + 3}[spareSel]
	arg, full := c.fillArg(d, name, n, spare)
	args := []reflect.Value{}
	idxText := ""
	for i := 0; i < nIdx; i++ {
		idx := []int{0, size / 2, size}[idxSel]
		args = append(args, reflect.ValueOf(idx))
		idxText += fmt.Sprintf("%d, ", idx)
	}
	args = append(args, reflect.ValueOf(arg))
	call := fmt.Sprintf("%s(%sarg...) with arg=%v len=%d cap=%d", name, idxText, arg, len(arg), cap(arg))
	probe := "C16c:" + name
	c.cr.Checks["c_argument_slices"]++
	reflect.ValueOf(d.raw).MethodByName(name).CallSlice(args) // passes arg itself, like f(arg...)
	c.checkArgAliasing(d, probe, call, full)
}

// variadic constructors
type ctor struct {
	name string
	mk   func(d *drv, vs []int)
}

func variadicConstructors(kind string) []ctor {
	switch kind {
	case "ArrayList":
		return []ctor{{"arraylist.New", func(d *drv, vs []int) { bindArrayList(d, arraylist.New(vs...)) }}}
	case "SinglyLinkedList":
		return []ctor{{"singlylinkedlist.New", func(d *drv, vs []int) { bindSLL(d, singlylinkedlist.New(vs...)) }}}
	case "DoublyLinkedList":
		return []ctor{{"doublylinkedlist.New", func(d *drv, vs []int) { bindDLL(d, doublylinkedlist.New(vs...)) }}}
	case "HashSet":
		return []ctor{{"hashset.New", func(d *drv, vs []int) { bindHashSet(d, hashset.New(vs...)) }}}
	case "LinkedHashSet":
		return []ctor{{"linkedhashset.New", func(d *drv, vs []int) { bindLinkedHashSet(d, linkedhashset.New(vs...)) }}}
	case "TreeSet":
		return []ctor{
			{"treeset.New", func(d *drv, vs []int) { bindTreeSet(d, treeset.New(vs...)) }},
			{"treeset.NewWith", func(d *drv, vs []int) { bindTreeSet(d, treeset.NewWith(d.kf, vs...)) }},
		}
	}
	return nil
}

func (c *c16) probeConstructors() {
	for _, ct := range variadicConstructors(c.cfg.Kind) {
		for _, n := range []int{0, 1, 2, 5} {
			for _, spare := range []int{0, n, n + 3} {
				d := &drv{cfg: c.cfg, calls: new(int), kf: comparator(c.cfg.KCmp), vf: comparator(c.cfg.VCmp)}
				arg, full := c.fillArg(&drv{c: emptyValues{}}, ct.name, n, spare)
				ct.mk(d, arg)
				c.cr.Checks["c_constructor_slices"]++
				call := fmt.Sprintf("%s(arg...) with arg=%v len=%d cap=%d", ct.name, arg, len(arg), cap(arg))
				c.checkArgAliasing(d, "C16c:"+ct.name, call, full)
			}
		}
	}
}

// emptyValues is a stand-in container without elements (fillArg asks for existing values).
type emptyValues struct{ baseAPI }

func (emptyValues) Values() []int { return nil }

// (d) GetSortedValues / GetSortedValuesFunc
func (c *c16) probeD() {
	for variant := 0; variant < 2; variant++ {
		d := c.build()
		ss := sliceSources(d)
		fp0 := fp16(d)
		before := snapshotAll(ss)
		vals := d.c.Values()
		var r []int
		name := "containers.GetSortedValues"
		cmpName := "CNat"
		if variant == 0 {
			r = containers.GetSortedValues[int](d.c)
		} else {
			cmpName = cmpNames[c.rng.Intn(len(cmpNames))]
			name = "containers.GetSortedValuesFunc(" + cmpName + ")"
			r = containers.GetSortedValuesFunc[int](d.c, comparator(cmpName))
		}
		probe := "C16d:" + name
		c.cr.Checks["d_sorted_values"]++
		got := cloneInts(r)
		// sorted permutation of Values()
		if !intsEqual(sortedCopy(got), sortedCopy(vals)) {
			c.violate(probe, name+" does not return a permutation of Values()", fmt.Sprintf("Values() = %v, result = %v", vals, got))
		}
		f := comparator(cmpName)
		for i := 1; i < len(got); i++ {
			if f(got[i-1], got[i]) > 0 {
				c.violate(probe, name+" result is not sorted", fmt.Sprintf("Values() = %v, result = %v (position %d)", vals, got, i))
				break
			}
		}
		if variant == 0 && !intsEqual(got, sortedCopy(vals)) {
			c.violate(probe, name+" is not the ascending sort of Values()", fmt.Sprintf("expected %v, observed %v", sortedCopy(vals), got))
		}
		if fp1 := fp16(d); fp1 != fp0 {
			c.violate(probe, name+" altered the container", diffText(fp0, fp1))
			continue
		}
		scribble(r)
		if fp1 := fp16(d); fp1 != fp0 {
			c.violate(probe, "writing to the result of "+name+" changed the container", diffText(fp0, fp1))
			continue
		}
		after := snapshotAll(ss)
		for j := range ss {
			if !intsEqual(before[j], after[j]) {
				c.violate(probe, "after "+name+" and writing to its result, "+ss[j].name+"() returns something else",
					fmt.Sprintf("expected %v, observed %v", before[j], after[j]))
			}
		}
	}
}
