package main

// PROBE C18: read-only operations are pure (deep dump of every field, private ones included,
// unchanged by each single call) and safe for concurrent readers (8 goroutines under the race
// detector, every result equal to the sequential answer, state unchanged afterwards).
//
// The read-only operations are found by reflection: every exported method of the container
// except the mutators listed in mutatorNames, with arguments synthesised from the parameter
// types; plus fresh iterators walked both ways and containers.GetSortedValues(Func).

import (
	"encoding/json"
	"fmt"
	"math/rand"
	"reflect"
	"regexp"
	"sort"
	"strings"
	"sync"

	"github.com/emirpasic/gods/v2/containers"
	"github.com/emirpasic/gods/v2/utils"
)

const (
	readers = 8
	rounds  = 2
)

var comparatorType = reflect.TypeOf(utils.Comparator[int](nil))

type readCall struct {
	label    string
	run      func() string // performs the call, returns the canonical text of the result
	unstable bool          // the sequential answer is not reproducible (ranging over a Go map)
	expect   string
}

type c18 struct {
	idx   int
	rng   *rand.Rand
	cfg   Config
	ops   []*Op
	cr    *caseResult
	d     *drv
	other *drv
	seen  map[string]bool
	mu    sync.Mutex
}

func (c *c18) violate(probe, what, detail string) {
	c.mu.Lock()
	defer c.mu.Unlock()
	key := probe + "|" + what
	if c.seen[key] || len(c.seen) >= 6 {
		return
	}
	c.seen[key] = true
	c.cr.Violations = append(c.cr.Violations, Violation{
		What: c.cfg.Kind + ": " + what, Kind: c.cfg.Kind, Config: c.cfg.Text(), History: historyText(c.ops),
		Probe: probe, Detail: detail, Replay: replayInfo(c.idx, c.cfg.Kind),
	})
	vlogf("  VIOLATION %s: %s\n    %s\n", probe, what, strings.ReplaceAll(detail, "\n", "\n    "))
}

// ---------- canonical text of results ----------

var tokenSplit = regexp.MustCompile(`[ ,\n\t\[\]{}]+`)

// tokenSort makes the text of a hash-ordered container independent of the order
func tokenSort(s string) string {
	toks := tokenSplit.Split(s, -1)
	sort.Strings(toks)
	return strings.Join(toks, " ")
}

func (c *c18) canon(v reflect.Value) string {
	hash := isHashOrdered(c.cfg.Kind)
	if !v.IsValid() {
		return "<invalid>"
	}
	t := v.Type()
	switch {
	case t == intSliceType:
		l := v.Interface().([]int)
		if hash {
			l = sortedCopy(l)
		}
		if l == nil {
			return "[]int(nil)"
		}
		return fmt.Sprint(l)
	case t == byteSliceType:
		s := string(v.Bytes())
		if hash {
			s = tokenSort(s)
		}
		return s
	case t.Kind() == reflect.String:
		s := v.String()
		if hash {
			s = tokenSort(s)
		}
		return s
	case t.Kind() == reflect.Bool, t.Kind() == reflect.Int:
		return fmt.Sprint(v.Interface())
	case t.Kind() == reflect.Func:
		return "func"
	case t.Kind() == reflect.Interface:
		if v.IsNil() {
			return "nil"
		}
		if e, ok := v.Interface().(error); ok {
			return "error:" + e.Error()
		}
		return c.canon(v.Elem())
	case t.Kind() == reflect.Ptr && t.Elem().Kind() == reflect.Struct && isLibraryType(t):
		if v.IsNil() {
			return "nil"
		}
		switch {
		case hasMethod(t, "Next") && hasMethod(t, "Value"):
			return "iterator:" + c.walkIterator(v)
		case hasMethod(t, "Values") && hasMethod(t, "Size"):
			return "container:" + deepDump(v.Interface())
		}
		return "node:" + shallowDump(v)
	case t.Kind() == reflect.Struct && isLibraryType(t):
		p := reflect.New(t)
		p.Elem().Set(v)
		return c.canon(p)
	}
	return deepDump(v.Interface())
}

func (c *c18) walkIterator(it reflect.Value) string {
	t := it.Type()
	var b strings.Builder
	acc := []reflect.Value{}
	names := []string{}
	for _, m := range methodsOf(t) {
		if m.Type.NumIn() == 1 && !moveNames[m.Name] && !resetNames[m.Name] {
			acc = append(acc, it.MethodByName(m.Name))
			names = append(names, m.Name)
		}
	}
	read := func() {
		b.WriteString("(")
		for i, a := range acc {
			outs := a.Call(nil)
			if i > 0 {
				b.WriteString(" ")
			}
			b.WriteString(names[i] + "=")
			for _, o := range outs {
				b.WriteString(fmt.Sprint(o.Interface()))
			}
		}
		b.WriteString(")")
	}
	bound := 4 * (c.d.c.Size() + 2)
	move := func(name string, args ...reflect.Value) bool {
		m := it.MethodByName(name)
		if !m.IsValid() {
			return false
		}
		outs := m.Call(args)
		return len(outs) == 1 && outs[0].Kind() == reflect.Bool && outs[0].Bool()
	}
	reset := func(name string) {
		if m := it.MethodByName(name); m.IsValid() {
			m.Call(nil)
		}
	}
	b.WriteString("fwd")
	for n := 0; n < bound && move("Next"); n++ {
		read()
	}
	if hasMethod(t, "Prev") {
		b.WriteString(" bwd")
		for n := 0; n < bound && move("Prev"); n++ {
			read()
		}
		b.WriteString(" last")
		if move("Last") {
			read()
		}
		if m, ok := t.MethodByName("PrevTo"); ok {
			reset("End")
			b.WriteString(" prevto")
			if move("PrevTo", pureFunc(m.Type.In(1), 2)) {
				read()
			}
		}
	}
	b.WriteString(" first")
	if move("First") {
		read()
	}
	if m, ok := t.MethodByName("NextTo"); ok {
		reset("Begin")
		b.WriteString(" nextto")
		if move("NextTo", pureFunc(m.Type.In(1), 2)) {
			read()
		}
	}
	return b.String()
}

// ---------- argument tuples ----------

type argGen struct {
	text string
	make func(log *[]string) reflect.Value // called for every invocation (callbacks keep a private log)
}

// loggingFunc is a pure callback that also records its arguments in a log private to one call
func loggingFunc(t reflect.Type, variant int, log *[]string) reflect.Value {
	inner := pureFunc(t, variant)
	return reflect.MakeFunc(t, func(in []reflect.Value) []reflect.Value {
		parts := make([]string, len(in))
		for i, v := range in {
			parts[i] = fmt.Sprint(v.Interface())
		}
		*log = append(*log, strings.Join(parts, ","))
		return inner.Call(in)
	})
}

func (c *c18) choices(t reflect.Type, recv reflect.Type) ([]argGen, bool) {
	size := c.d.c.Size()
	konst := func(text string, v any) argGen {
		rv := reflect.ValueOf(v)
		return argGen{text, func(*[]string) reflect.Value { return rv }}
	}
	switch {
	case t == intType:
		out := []argGen{}
		seen := map[int]bool{}
		for _, x := range []int{-1, 0, 1, size / 2, size - 1, size, c.cfg.Uni / 2, c.cfg.Uni + 7} {
			if !seen[x] {
				seen[x] = true
				out = append(out, konst(fmt.Sprint(x), x))
			}
		}
		return out, true
	case t == intSliceType:
		vals := c.d.c.Values()
		sort.Ints(vals)
		if len(vals) > 3 {
			vals = vals[:3]
		}
		lists := [][]int{{}, {0}, {1, 0, 1}, vals, {c.cfg.Uni + 5, 0}}
		out := []argGen{}
		for _, l := range lists {
			out = append(out, konst(fmt.Sprint(l), cloneInts(l)))
		}
		return out, true
	case t == comparatorType:
		return []argGen{
			{"<natural order>", func(*[]string) reflect.Value { return pureFunc(t, 0) }},
			{"<reverse order>", func(*[]string) reflect.Value { return pureFunc(t, 1) }},
		}, true
	case t.Kind() == reflect.Func && funcTypeOK(t):
		out := []argGen{}
		for _, variant := range []int{2, 3, 5} {
			variant := variant
			out = append(out, argGen{fmt.Sprintf("<pure func #%d>", variant), func(log *[]string) reflect.Value { return loggingFunc(t, variant, log) }})
		}
		return out, true
	case t == recv:
		return []argGen{konst("<second container>", c.other.raw), konst("<same container>", c.d.raw)}, true
	case t == boolType:
		return []argGen{konst("true", true), konst("false", false)}, true
	case t.Kind() == reflect.Ptr && t.Elem().Kind() == reflect.Struct && isLibraryType(t):
		// e.g. a tree node (IteratorAt): the non-nil results of the parameterless methods of
		// the container that return this type
		out := []argGen{}
		rv := reflect.ValueOf(c.d.raw)
		for _, m := range methodsOf(recv) {
			if m.Type.NumIn() == 1 && m.Type.NumOut() >= 1 && m.Type.Out(0) == t && !mutatorNames[m.Name] {
				res := rv.MethodByName(m.Name).Call(nil)[0]
				if !res.IsNil() {
					out = append(out, argGen{"<result of " + m.Name + "()>", func(*[]string) reflect.Value { return res }})
				}
			}
		}
		return out, len(out) > 0
	}
	return nil, false
}

// readCalls enumerates the read-only operations of the container.
func (c *c18) readCalls() []*readCall {
	rv := reflect.ValueOf(c.d.raw)
	rt := rv.Type()
	out := []*readCall{}
	nMethods := 0
	defer func() { c.cr.Checks["max:read_methods_"+c.cfg.Kind] = nMethods }()
	for _, m := range methodsOf(rt) {
		if mutatorNames[m.Name] {
			continue
		}
		mt := m.Type
		mv := rv.MethodByName(m.Name)
		variadic := mt.IsVariadic()
		per := make([][]argGen, 0, mt.NumIn()-1)
		ok := true
		for i := 1; i < mt.NumIn(); i++ {
			ch, good := c.choices(mt.In(i), rt)
			if !good {
				ok = false
				break
			}
			per = append(per, ch)
		}
		if !ok {
			c.cr.Checks["read_methods_skipped_unknown_parameter_type"]++
			continue
		}
		nMethods++
		// tuples: all choices of the first parameter, the others rotate (at most 8 per method)
		n := 1
		for _, ch := range per {
			if len(ch) > n {
				n = len(ch)
			}
		}
		if n > 8 {
			n = 8
		}
		for k := 0; k < n; k++ {
			gens := make([]argGen, len(per))
			texts := make([]string, len(per))
			for i, ch := range per {
				gens[i] = ch[(k+i)%len(ch)]
				texts[i] = gens[i].text
			}
			name := m.Name
			out = append(out, &readCall{
				label: fmt.Sprintf("%s(%s)", name, strings.Join(texts, ", ")),
				run: func() string {
					var log []string
					args := make([]reflect.Value, len(gens))
					for i, g := range gens {
						args[i] = g.make(&log)
					}
					var outs []reflect.Value
					if variadic {
						outs = mv.CallSlice(args)
					} else {
						outs = mv.Call(args)
					}
					parts := make([]string, 0, len(outs)+1)
					for _, o := range outs {
						parts = append(parts, c.canon(o))
					}
					if log != nil {
						parts = append(parts, "callbacks:"+strings.Join(log, ";"))
					}
					return strings.Join(parts, " | ")
				},
			})
		}
	}
	// package-level readers
	cont := c.d.c
	hash := isHashOrdered(c.cfg.Kind)
	out = append(out,
		&readCall{label: "containers.GetSortedValues(c)", run: func() string { return fmt.Sprint(containers.GetSortedValues[int](cont)) }},
		&readCall{label: "containers.GetSortedValuesFunc(c, reverse)", run: func() string {
			return fmt.Sprint(containers.GetSortedValuesFunc[int](cont, func(a, b int) int { return b - a }))
		}},
		&readCall{label: "json.Marshal(c)", run: func() string {
			data, err := json.Marshal(cont)
			s := string(data)
			if hash {
				s = tokenSort(s)
			}
			return fmt.Sprintf("%s %v", s, err)
		}},
		&readCall{label: "fmt.Sprint(c)", run: func() string {
			s := fmt.Sprint(cont)
			if hash {
				s = tokenSort(s)
			}
			return s
		}},
	)
	return out
}

// safeRun performs a read call under recover()
func safeRun(rc *readCall) (text string, panicText string) {
	defer func() {
		if r := recover(); r != nil {
			panicText = fmt.Sprintf("panic: %v\n%s", r, stackText())
		}
	}()
	return rc.run(), ""
}

func runC18(idx int, rng *rand.Rand, kind string, cr *caseResult) {
	d, ops, ok := buildState(idx, rng, kind, cr)
	if !ok {
		return
	}
	c := &c18{idx: idx, rng: rng, cfg: d.cfg, ops: ops, cr: cr, d: d, seen: map[string]bool{}}
	// the second, fixed container for the set algebra
	c.other = newLike(d)
	if c.other.add != nil {
		g := &gen{rng: rng, cfg: d.cfg}
		vs := g.values(6)
		if ex := d.c.Values(); len(ex) > 0 {
			vs = append(vs, ex[0], ex[len(ex)/2])
		}
		c.other.add(vs...)
	}
	fp := func() string { return deepDump(d.raw) + " ## second: " + deepDump(c.other.raw) }

	calls := c.readCalls()
	cr.Checks["max:read_calls_"+kind] = len(calls)

	// ----- purity: the dump of all fields is the same after every single call -----
	fp0 := fp()
	for _, rc := range calls {
		writeProgress(fmt.Sprintf("case=%d kind=%s sequential %s", idx, kind, rc.label))
		text, p := safeRun(rc)
		cr.Checks["purity_checks"]++
		if p != "" {
			c.violate("C18:sequential", "read-only call "+rc.label+" panicked", p)
			return
		}
		rc.expect = text
		if fp1 := fp(); fp1 != fp0 {
			c.violate("C18:purity", "read-only call "+rc.label+" modified the container (deep dump of all fields differs)", diffText(fp0, fp1))
			fp0 = fp1
		}
		vlogf("  read %s = %.200s\n", rc.label, text)
	}
	// reproducibility of the sequential answers (ranging over a Go map is not)
	for rep := 0; rep < 2; rep++ {
		for _, rc := range calls {
			text, p := safeRun(rc)
			if p != "" {
				c.violate("C18:sequential", "read-only call "+rc.label+" panicked", p)
				return
			}
			if text != rc.expect && !rc.unstable {
				rc.unstable = true
				cr.Checks["unstable_answers_not_compared"]++
				vlogf("  unstable %s\n", rc.label)
			}
		}
	}
	if fp1 := fp(); fp1 != fp0 {
		c.violate("C18:purity", "repeating the read-only calls modified the container", diffText(fp0, fp1))
		fp0 = fp1
	}

	// ----- concurrency: 8 readers, 2 rounds each, every call in its own random order -----
	writeProgress(fmt.Sprintf("case=%d kind=%s concurrent phase", idx, kind))
	orders := make([][]int, readers*rounds)
	for i := range orders {
		orders[i] = rng.Perm(len(calls))
	}
	var wg sync.WaitGroup
	var cmpCount, mismatches int64
	var cntMu sync.Mutex
	type mismatch struct {
		rc   *readCall
		text string
	}
	var differing []mismatch
	for r := 0; r < readers; r++ {
		wg.Add(1)
		go func(r int) {
			defer wg.Done()
			n, bad := 0, 0
			for round := 0; round < rounds; round++ {
				for _, ci := range orders[r*rounds+round] {
					rc := calls[ci]
					text, p := safeRun(rc)
					n++
					if p != "" {
						c.violate("C18:concurrent", "read-only call "+rc.label+" panicked while other readers were active", p)
						bad++
						continue
					}
					if !rc.unstable && text != rc.expect {
						bad++
						cntMu.Lock()
						if len(differing) < 50 {
							differing = append(differing, mismatch{rc, text})
						}
						cntMu.Unlock()
					}
				}
			}
			cntMu.Lock()
			cmpCount += int64(n)
			mismatches += int64(bad)
			cntMu.Unlock()
		}(r)
	}
	wg.Wait()
	// An answer that differs from the sequential one is a violation unless the call does not
	// have ONE sequential answer (LinkedHashSet's set algebra ranges over a Go map): the call
	// is repeated sequentially; if it ever disagrees with itself it is not compared.
	for _, m := range differing {
		if m.rc.unstable {
			continue
		}
		for rep := 0; rep < 600 && !m.rc.unstable; rep++ {
			if text, p := safeRun(m.rc); p == "" && text != m.rc.expect {
				m.rc.unstable = true
				cr.Checks["unstable_answers_not_compared"]++
			}
		}
		if !m.rc.unstable {
			c.violate("C18:concurrent", "read-only call "+m.rc.label+" returned a different answer while other readers were active",
				fmt.Sprintf("sequential answer (reproduced 600 times): %.600s\nconcurrent answer: %.600s", m.rc.expect, m.text))
		}
	}
	cr.Checks["concurrent_calls"] += int(cmpCount)
	cr.Checks["concurrent_states"]++
	if fp1 := fp(); fp1 != fp0 {
		c.violate("C18:concurrent", "the container's state differs after the concurrent read-only calls", diffText(fp0, fp1))
	}
	if idx < 3*len(allKinds) && d.c.Size() > 0 {
		labels := []string{}
		for i, rc := range calls {
			if i%7 == 0 && len(labels) < 10 {
				labels = append(labels, rc.label)
			}
		}
		cr.Sample = &Sample{Case: idx, Kind: kind, Config: d.cfg.Text(), History: historyText(ops),
			Note: fmt.Sprintf("%d read-only calls (e.g. %s), each checked for purity, then run by %d goroutines x %d rounds", len(calls), strings.Join(labels, "; "), readers, rounds)}
	}
}
