#!/usr/bin/env python3
"""Regenerates /verif/MANIFEST.json from the table below (kept in one place so it stays valid)."""
import json, os, subprocess
ROOT = os.path.dirname(os.path.dirname(os.path.abspath(__file__)))

HOOK_COMMITS = ["8d26004", "32a4228", "0a6e16d", "05dbd0b"]

TB = ("Trusted: Coq 8.16.1 kernel (full .vo build, vm_compute in finite obligations, no native_compute); "
      "extraction with ExtrOcamlBasic only + coq/ocaml/driver.ml; the Go harness /verif/harness and the "
      "verif-tagged read-only hooks; encoding/json and Go's map/slices as oracles. The theorem is about the "
      "hand-written Gallina machine (coq/theories/Model/Machine.v); it is tied to /repo by the correspondence "
      "check, which compares the projected observations after every operation of every generated history. "
      "A second tie is regenerated from the Go source on every run (srcgen: go/ast translator + more than 500 equivalence theorems): the pointer code of the linked lists and of the red-black, AVL and B-trees (Put, Remove, lookups, iterators), the ArrayList capacity management, the binary heap, the ring buffer and the wrapper kinds are proved equal to the model's functions; String() text, Sort, Each, the bytes of JSON and slice aliasing are modelled or probed, not verified (DESIGN 0.6).")

# property -> (claimed?, technique, level text, extra note, design ref)
P = {
 "C01": (True, "Coq proof: refinement of the tree/hash/linked map models to a history-based map spec (induction over op lists) + differential correspondence model vs Go",
         "Theorems (Properties/C01.v, closed under the global context) state, for every operation list, every strict-weak-order comparator of the family and every B-tree order >= 3, that Get/Size/Keys/Values of the machine equal the 'last live Put' scan of the history; the correspondence check ties the machine to the Go code on the contents projection. Second tie, regenerated from the Go source on every run (srcgen): HashMap / LinkedHashMap / TreeMap methods and the POINTER code of the red-black and AVL trees (Put, Remove, Get, GetNode over a heap of nodes with Parent links; insertCase1-5, deleteCase1-6, rotations, putFix/removeFix on **Node links) are proved equal to the model's functions; B-tree search, Get, Put (split) and Remove (borrow, merge) likewise.", "0.2, 4 C01"),
 "C02": (True, "Coq proof: sortedness/navigation theorems over all histories + differential correspondence",
         "Theorems (Properties/C02.v): keys strictly ascending under any SWO comparator, one key per equivalence class, Left/Right least/greatest, Floor/Ceiling characterised, for all histories; tie compares keys, values, both iteration directions and floor/ceiling for every probe. The pointer code of Floor / Ceiling / Left / Right and of the Parent-climbing iterators of the red-black, AVL and B-trees is regenerated from the Go source on every run (srcgen) and proved equal to the model's functions.", "0.2, 4 C02"),
 "C03": (True, "Coq proof: the three list step functions refine one abstract sequence + differential correspondence incl. chain-consistency hooks",
         "Theorems (Properties/C03.v): for every history the three list models have Values equal to the abstract sequence run; observers agree; out-of-range no-ops; Sort gives sorted permutation.", "4 C03"),
 "C04": (True, "Coq proof: set membership = history scan, NoDup, size; + differential correspondence",
         "Theorems (Properties/C04.v) over all histories of variadic Add/Remove/Clear for the three set models.", "4 C04"),
 "C05": (True, "Coq proof: LIFO/FIFO refinement and ring-buffer invariant (modular arithmetic) for all capacities + exact-state correspondence",
         "Theorems (Properties/C05.v): stacks/queues refine abstract stack/queue; ring invariant and bounded-FIFO refinement for every c >= 1; tie compares raw ring, start, end, full, size after every operation. In addition the circular buffer's Go source is re-translated to Gallina on every run (srcgen) and each regenerated method is proved equal to the model's.", "0.2, 4 C05"),
 "C06": (True, "Coq proof: heap-order invariant and multiset preservation by induction over histories + raw-array correspondence",
         "Theorems (Properties/C06.v): heap_ok after every history (single/bulk push, pop, clear, load), min property, bag preservation, Values permutation. binaryheap.go (bubbleUp, bubbleDown, Push, Pop) and its iterator are regenerated from the Go source on every run (srcgen) and proved equal to the model's heap functions.", "0.2, 4 C06"),
 "C07": (True, "Coq proof: red-black / AVL / B-tree shape invariants, height and comparator-call bounds + exact-structure and exact-cost correspondence",
         "Theorems (Properties/C07*.v): invariants preserved by Put/Remove for all SWO comparators and orders, height bounds (2 log2(n+1), Fibonacci/1.45 log2, ceil(m/2) powers), comparator-call bounds; tie compares the complete exported structure and the measured comparator-call count of every operation; an extracted oracle (proved silent on every model run, C07_oracle.v) evaluates the invariants and the exact integer forms of the numeric bounds on the implementation's own output to decide between a failing input and a broken tie. The pointer-level Put and Remove of the red-black and AVL trees (descent, allocation, insertCase1-5, deleteCase1-6, putFix/removeFix, rotations, Parent links) and the lookups of all three trees are regenerated from the Go source on every run (srcgen) and proved equal to the model incl. colours / balance factors and the exact number of comparator calls; the B-tree's Put/Remove (split, borrow, merge, root collapse, re-parenting) likewise, with exact comparator-call counts.", "0.2, 4 C07"),
 "C08": (True, "Coq proof: iterator models refine an integer cursor over -1..n (simulation) + correspondence on call scripts",
         "Theorems (Properties/C08*.v): every iterator model (index, linked, ring, heap, RB/AVL/B-tree path iterators) simulates the cursor for every call sequence on every reachable state of all 18 iterator types. The Go sources of the index, ring, linked-list (pointer mode), heap, red-black, AVL and B-tree iterators are re-translated to Gallina on every run (srcgen) and proved equal to the model's iterator functions.", "0.2, 4 C08"),
 "C09": (True, "Coq proof: insertion-order ('birth order') characterisation over all histories + correspondence",
         "Theorems (Properties/C09.v): order of LinkedHashMap/Set keys = order of births in the history; present keys never move; removal is a filter.", "4 C09"),
 "C10": (True, "Coq proof: mutual-inverse invariant of forward/inverse maps over all histories + correspondence with inverse-map hook",
         "Theorems (Properties/C10.v, 25, closed under the global context): for every history of both bidirectional kinds and every comparator pair, forward and inverse dictionaries are exact mutual inverses; Get(k)=v iff GetKey(v)=k (modulo the comparators' equivalence); injectivity both ways; the exact pair set after Put and Remove; Size = |Keys| = |Values|; a history-only specification of all lookups (no displaced pair is ever returned). Tie: Get/GetKey for every probe, keys, values, size and the inverse-map hook after every operation; an auxiliary load probe checks one-to-one-ness after loading documents with colliding values.", "0.1, 4 C10"),
 "C11": (True, "Coq proof: from_json (to_json s) round-trip on the machine + correspondence using encoding/json as oracle",
         "Theorems (Properties/C11.v, 19): for all 21 kinds and every reachable state, from_json of the decoded to_json into a fresh container succeeds and yields an equivalent container (the same state for 14 kinds; equal contents, iteration order and observers for the trees; the same logical queue for the ring), and any continuation gives the same answers (same Pop/Dequeue sequence). Tie: the decoded ToJSON document vs the model after every operation, json.Valid / Marshal=ToJSON / reload bits computed with encoding/json; strprobe repeats the round trip on string-instantiated containers (escapes, control characters, non-BMP runes, values equal to keys).", "0.1, 4 C11"),
 "C12": (True, "Coq proof: load = clear + inserts (reachable), atomic on error + correspondence on valid and malformed streams",
         "Theorems (Properties/C12.v, 18): a failing load leaves the state unchanged; a successful one depends only on the document (no prior element survives); what it denotes per kind (sequence, deduplicated set, sorted map, last-capacity ring, heapified permutation, one-to-one bidi map); the loaded state is a run of a FromJSON-free history, so every other theorem applies to all continuations; null, [] and {} give the initial state. Tie: valid and malformed document streams applied to containers with prior content, full observation before/after; strprobe adds string documents, tying members and atomicity on wrongly typed elements.", "0.1, 4 C12"),
 "C13": (True, "Coq proof: membership laws of Intersection/Union/Difference + correspondence with independence probes",
         "Theorems (Properties/C13.v, 18): for all pairs of reachable sets of the three kinds, Intersection/Union/Difference contain exactly the members in both / either / only the first (modulo the comparator's equivalence for TreeSet), without duplicates, ordered by the operands' comparator; operands unchanged; same-object, empty-operand and either-size cases. Tie: result members and both operands before/after, plus two-way independence probes (in-place writes to the result, later mutation of an operand).", "0.1, 4 C13"),
 "C14": (True, "Coq proof: enumerable functions = list functions over the iterator sequence + correspondence with callback logs",
         "Theorems (Properties/C14.v, 16): on every reachable state of the 8 enumerable kinds Each/Any/All/Find equal the list functions over the iterator sequence; Select keeps exactly the matching elements in order; Map equals repeated insertion of the mapped elements into a fresh container of the same configuration; the receiver is returned unchanged. Tie: callback logs, results, receiver fingerprint, independence probes.", "0.1, 4 C14"),
 "C15": (True, "Coq proof: size/empty/values/keys invariants for all 21 kinds, Clear = init + correspondence",
         "Theorems (Properties/C15.v, 14): one invariant for all 21 kinds over every history: Size >= 0, Size = len(Values) (= len(Keys) for key-value kinds), Empty iff Size = 0; Clear yields exactly the initial state (state equality including ring indices and configuration), hence any continuation behaves as on a fresh container; observers return their state. Tie: size/empty/values/keys after every operation of histories that include loads, Clear at random points; String() prefix and the observer-fingerprint bit are checked dynamically.", "0.1, 4 C15"),
 "C16": (True, "Coq proof: generic independence theorems + finite obligations re-proved over an effect table regenerated from the Go source (go/ssa) + aliasing probes",
         "Theorems (Properties/C16.v): generic independence of an uncaptured fresh block from the container and back (heap model with slice identities), and finite obligations re-proved by computation over the effect table REGENERATED from /repo by a go/ssa translator on every run: every Values/Keys/GetSortedValues* returns only fresh references, no variadic entry point captures an argument slice; GetSortedValues on the machine is the sorted permutation with the state unchanged. Dynamic counterpart: probe C16 (overwrite returned slices including spare capacity, argument slices with spare capacity, deep fingerprints).", "0.1, 3.4, 4 C16"),
 "C17": (True, "Coq proof: machine never crashes (nil-freedom of tree algorithms) + silence obligation over the regenerated effect table + reflection-driven panic/output probe",
         "Theorems (Properties/C17_model.v, C17.v): no history of any kind reaches the crash state and no step returns a crash (nil-freedom of the red-black, AVL and B-tree algorithms; pointer-level nil-freedom of both linked lists in C03_cells.v), the two constructor preconditions being the only crashes; over the regenerated effect table no exported operation reaches an I/O primitive or an unknown callee. Dynamic counterpart: reflection-driven probe over every exported method with hostile arguments under recover, watchdog and fd capture.", "0.1, 3.4, 4 C17"),
 "C18": (True, "Coq proof: reader non-interference theorem + purity obligation over the regenerated effect table + race-detector probe",
         "Theorems (Properties/C18.v): readers_noninterfere for every interleaving of any number of threads (no conflicting access, shared store unchanged, every read sees its sequential value) and, over the effect table regenerated from /repo on every run, every read-only operation (466 functions) writes no non-fresh memory, does no I/O and touches iterator state only in iterators it created. Dynamic counterpart: probe C18 built with -race (8 goroutines over all read-only methods found by reflection) plus a reflect/unsafe deep dump of unexported fields before/after every read-only call.", "0.1, 3.4, 4 C18"),
}

HOLD = set()     # waiting for the dynamic probes (/verif/probe) before being registered

def has_property_file(pid):
    if pid in HOLD: return False
    d = os.path.join(ROOT, "coq", "theories", "Properties")
    return any(f.startswith(pid) and f.endswith(".v") for f in os.listdir(d))

def main():
    checks, na = [], []
    for pid in sorted(P):
        claimed, tech, text, ref = P[pid]
        if not (claimed and has_property_file(pid)):
            na.append(dict(property_id=pid, reason="check not yet registered: the Coq property file for %s is still being written (the property will be claimed; it is not inapplicable)" % pid))
            continue
        checks.append(dict(
            property_id=pid,
            quick_cmd="./check %s --tier quick" % pid,
            thorough_cmd="./check %s --tier thorough" % pid,
            evidence_file="evidence/%s.json" % pid,
            replay_cmd_template="./check %s --replay {path}" % pid,
            engine="coq-proof+correspondence",
            level_claimed=dict(category="proof", text=text, design_ref="DESIGN.md section " + ref),
            level_note=TB,
            technique=tech))
    m = dict(
        version=1,
        setup_cmd="./setup.sh",
        hooks=dict(guard="verif", enable="go build -tags verif",
                   baseline_off_cmd="cd /repo && go test -count=1 ./...",
                   source_commits=HOOK_COMMITS, add_only=True),
        engines=[dict(name="coq-proof+correspondence", path="check",
                      serves_properties=[c["property_id"] for c in checks],
                      kind_free_text="Coq 8.16.1 development under coq/ (models, specs, proofs, property theorems), extracted OCaml replay driver, Go harness built from /repo with -tags verif, go/ssa effect translator regenerating coq/theories/Effects/EffectsGen.v")],
        checks=checks,
        notes="See DESIGN.md. Every check: (1) full .vo build + Print Assumptions of the property theorems + hygiene scan, (2) correspondence model vs implementation on generated histories, (3) search for a failing input when either breaks, (4) known_findings.json, (5) evidence.",
        not_applicable=na)
    json.dump(m, open(os.path.join(ROOT, "MANIFEST.json"), "w"), indent=1)
    print("claimed:", [c["property_id"] for c in checks], "not yet:", [n["property_id"] for n in na])

if __name__ == "__main__":
    main()
