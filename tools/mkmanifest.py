#!/usr/bin/env python3
"""Regenerates /verif/MANIFEST.json from the table below (kept in one place so it stays valid)."""
import json, os, subprocess
ROOT = os.path.dirname(os.path.dirname(os.path.abspath(__file__)))

HOOK_COMMITS = ["8d26004", "32a4228", "0a6e16d", "05dbd0b"]

TB = ("Trusted: Coq 8.16.1 kernel (full .vo build, vm_compute in finite obligations, no native_compute); "
      "extraction with ExtrOcamlBasic only + coq/ocaml/driver.ml; the Go harness /verif/harness and the "
      "verif-tagged read-only hooks; encoding/json and Go's map/slices as oracles. The theorem is about the "
      "hand-written Gallina machine (coq/theories/Model/Machine.v); it is tied to /repo by the correspondence "
      "check, which compares the projected observations after every operation of every generated history. "
      "Pointer manipulation, capacity management and String() text are modelled, not verified (DESIGN 6).")

# property -> (claimed?, technique, level text, extra note, design ref)
P = {
 "C01": (True, "Coq proof: refinement of the tree/hash/linked map models to a history-based map spec (induction over op lists) + differential correspondence model vs Go",
         "Theorems (Properties/C01.v, closed under the global context) state, for every operation list, every strict-weak-order comparator of the family and every B-tree order >= 3, that Get/Size/Keys/Values of the machine equal the 'last live Put' scan of the history; the correspondence check ties the machine to the Go code on the contents projection.", "4 C01"),
 "C02": (True, "Coq proof: sortedness/navigation theorems over all histories + differential correspondence",
         "Theorems (Properties/C02.v): keys strictly ascending under any SWO comparator, one key per equivalence class, Left/Right least/greatest, Floor/Ceiling characterised, for all histories; tie compares keys, values, both iteration directions and floor/ceiling for every probe.", "4 C02"),
 "C03": (True, "Coq proof: the three list step functions refine one abstract sequence + differential correspondence incl. chain-consistency hooks",
         "Theorems (Properties/C03.v): for every history the three list models have Values equal to the abstract sequence run; observers agree; out-of-range no-ops; Sort gives sorted permutation.", "4 C03"),
 "C04": (True, "Coq proof: set membership = history scan, NoDup, size; + differential correspondence",
         "Theorems (Properties/C04.v) over all histories of variadic Add/Remove/Clear for the three set models.", "4 C04"),
 "C05": (True, "Coq proof: LIFO/FIFO refinement and ring-buffer invariant (modular arithmetic) for all capacities + exact-state correspondence",
         "Theorems (Properties/C05.v): stacks/queues refine abstract stack/queue; ring invariant and bounded-FIFO refinement for every c >= 1; tie compares raw ring, start, end, full, size.", "4 C05"),
 "C06": (True, "Coq proof: heap-order invariant and multiset preservation by induction over histories + raw-array correspondence",
         "Theorems (Properties/C06.v): heap_ok after every history (single/bulk push, pop, clear, load), min property, bag preservation, Values permutation.", "4 C06"),
 "C07": (True, "Coq proof: red-black / AVL / B-tree shape invariants, height and comparator-call bounds + exact-structure and exact-cost correspondence",
         "Theorems (Properties/C07*.v): invariants preserved by Put/Remove for all SWO comparators and orders, height bounds (2 log2(n+1), Fibonacci/1.45 log2, ceil(m/2) powers), comparator-call bounds; tie compares the complete exported structure and the measured comparator-call count of every operation.", "4 C07"),
 "C08": (True, "Coq proof: iterator models refine an integer cursor over -1..n (simulation) + correspondence on call scripts",
         "Theorems (Properties/C08*.v): every iterator model (index, linked, ring, heap, RB/AVL/B-tree path iterators) simulates the cursor for every call sequence.", "4 C08"),
 "C09": (True, "Coq proof: insertion-order ('birth order') characterisation over all histories + correspondence",
         "Theorems (Properties/C09.v): order of LinkedHashMap/Set keys = order of births in the history; present keys never move; removal is a filter.", "4 C09"),
 "C10": (True, "Coq proof: mutual-inverse invariant of forward/inverse maps over all histories + correspondence with inverse-map hook",
         "Theorems (Properties/C10.v).", "4 C10"),
 "C11": (True, "Coq proof: from_json (to_json s) round-trip on the machine + correspondence using encoding/json as oracle",
         "Theorems (Properties/C11.v).", "4 C11"),
 "C12": (True, "Coq proof: load = clear + inserts (reachable), atomic on error + correspondence on valid and malformed streams",
         "Theorems (Properties/C12.v).", "4 C12"),
 "C13": (True, "Coq proof: membership laws of Intersection/Union/Difference + correspondence with independence probes",
         "Theorems (Properties/C13.v).", "4 C13"),
 "C14": (True, "Coq proof: enumerable functions = list functions over the iterator sequence + correspondence with callback logs",
         "Theorems (Properties/C14.v).", "4 C14"),
 "C15": (True, "Coq proof: size/empty/values/keys invariants for all 21 kinds, Clear = init + correspondence",
         "Theorems (Properties/C15.v).", "4 C15"),
 "C16": (True, "Coq proof: generic independence theorems + finite obligations re-proved over an effect table regenerated from the Go source (go/ssa) + aliasing probes",
         "Theorems (Properties/C16.v, Effects/*.v).", "4 C16"),
 "C17": (True, "Coq proof: machine never crashes (nil-freedom of tree algorithms) + silence obligation over the regenerated effect table + reflection-driven panic/output probe",
         "Theorems (Properties/C17.v, Effects/*.v).", "4 C17"),
 "C18": (True, "Coq proof: reader non-interference theorem + purity obligation over the regenerated effect table + race-detector probe",
         "Theorems (Properties/C18.v, Effects/*.v).", "4 C18"),
}

HOLD = set()     # waiting for the dynamic probes (/verif/probe) before being registered

def has_property_file(pid):
    if pid in HOLD: return False
    d = os.path.join(ROOT, "coq", "theories", "Properties")
    return any(f.startswith(pid) and f.endswith(".v") for f in os.listdir(d))

def main():
    checks, na = [], []
    for pid in sorted(P):
        claimed, tech, text, ref = P[pid]
        if not (claimed and has_property_file(pid)):
            na.append(dict(property_id=pid, reason="check not yet registered: the Coq property file for %s is still being written (the property will be claimed; it is not inapplicable)" % pid))
            continue
        checks.append(dict(
            property_id=pid,
            quick_cmd="./check %s --tier quick" % pid,
            thorough_cmd="./check %s --tier thorough" % pid,
            evidence_file="evidence/%s.json" % pid,
            replay_cmd_template="./check %s --replay {path}" % pid,
            engine="coq-proof+correspondence",
            level_claimed=dict(category="proof", text=text, design_ref="DESIGN.md section " + ref),
            level_note=TB,
            technique=tech))
    m = dict(
        version=1,
        setup_cmd="./setup.sh",
        hooks=dict(guard="verif", enable="go build -tags verif",
                   baseline_off_cmd="cd /repo && go test -count=1 ./...",
                   source_commits=HOOK_COMMITS, add_only=True),
        engines=[dict(name="coq-proof+correspondence", path="check",
                      serves_properties=[c["property_id"] for c in checks],
                      kind_free_text="Coq 8.16.1 development under coq/ (models, specs, proofs, property theorems), extracted OCaml replay driver, Go harness built from /repo with -tags verif, go/ssa effect translator regenerating coq/theories/Effects/EffectsGen.v")],
        checks=checks,
        notes="See DESIGN.md. Every check: (1) full .vo build + Print Assumptions of the property theorems + hygiene scan, (2) correspondence model vs implementation on generated histories, (3) search for a failing input when either breaks, (4) known_findings.json, (5) evidence.",
        not_applicable=na)
    json.dump(m, open(os.path.join(ROOT, "MANIFEST.json"), "w"), indent=1)
    print("claimed:", [c["property_id"] for c in checks], "not yet:", [n["property_id"] for n in na])

if __name__ == "__main__":
    main()
