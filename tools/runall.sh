#!/bin/bash
# runs every registered quick check on the current tree (full runs: evidence is rewritten)
cd "$(dirname "$0")/.."
export GOFLAGS=-mod=mod GOPROXY=off GOSUMDB=off GOTOOLCHAIN=local
tier="${1:-quick}"
for p in C01 C02 C03 C04 C05 C06 C07 C08 C09 C10 C11 C12 C13 C14 C15 C16 C17 C18; do
  ./check $p --tier $tier 2>&1 | grep -E '^(check|VIOLATION|KNOWN)' | tail -3
done
