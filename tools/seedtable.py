#!/usr/bin/env python3
"""Rewrites the table of seeded changes in DESIGN.md (between the SEEDED-TABLE markers) from seeded/*/meta.json."""
import json, glob, os, re
ROOT = os.path.dirname(os.path.dirname(os.path.abspath(__file__)))
rows = []
for mf in sorted(glob.glob(os.path.join(ROOT, "seeded", "*", "meta.json"))):
    m = json.load(open(mf))
    notes = ""
    nf = os.path.join(os.path.dirname(mf), "notes.md")
    what = m.get("summary") or ""
    if not what and os.path.exists(nf):
        txt = open(nf).read()
        # first non-heading, non-empty line as a one-line description
        for line in txt.split("\n"):
            t = line.strip(" -*#`")
            if len(t) > 30 and not t.lower().startswith(("notes", "change ", "property")):
                what = t; break
    what = re.sub(r"\s+", " ", what)[:150].replace("|", "/")
    det = []
    for pid, c in sorted(m["checks"].items()):
        if c["exit"] == 1:
            nf_only = c["violation_lines"] and all("no-failing-input-found" in l for l in c["violation_lines"])
            det.append(pid + (" (tie only)" if nf_only else ""))
    missed = [pid for pid, c in sorted(m["checks"].items()) if c["exit"] == 0]
    rows.append("| %s | %s | %s | %s | %s |" % (m["id"], ", ".join(m["files_changed"]), what, ", ".join(det) or "—", ", ".join(missed) or ""))
table = ["| id | files changed | what it does (from the author's notes) | reported by | also run, quiet |", "|---|---|---|---|---|"] + rows
p = os.path.join(ROOT, "DESIGN.md")
s = open(p).read()
b, e = "<!-- SEEDED-TABLE-BEGIN -->", "<!-- SEEDED-TABLE-END -->"
block = b + "\n" + "\n".join(table) + "\n" + e
if b in s:
    s = s[:s.index(b)] + block + s[s.index(e) + len(e):]
else:
    anchor = "### 0.5 Trusted base as built"
    s = s.replace(anchor, "### 0.6 Table of seeded changes\n\n\"reported by\": checks that exited 1 with a VIOLATION line when the change was applied to /repo (quick tier, seed 1); \"(tie only)\" = every line ended with no-failing-input-found. \"also run, quiet\": checks of neighbouring properties that were run and (correctly or not) stayed quiet.\n\n" + block + "\n\n" + anchor, 1)
    # keep numbering order: move 0.6 after 0.5 is cosmetic; leave as is
open(p, "w").write(s)
print(len(rows), "rows")
