#!/usr/bin/env python3
"""saveseed.py <Pxx><x> ...: copy a confirmed seeded change from /tmp/mut into /verif/seeded/<id>/ with meta.json"""
import sys, os, json, shutil, re
for name in sys.argv[1:]:
    P, X = name[:3], name[3:]
    src = "/tmp/mut/%s/%s/%s" % (P, {"a": "out", "b": "out", "c": "out2", "d": "out2", "e": "out3", "f": "out3", "i": "out5", "j": "out5"}.get(X, "out4"), X)
    res = json.load(open("/tmp/mut/results/%s.json" % name))
    dst = "/verif/seeded/%s" % name
    os.makedirs(dst, exist_ok=True)
    shutil.copy(src + "/patch.diff", dst + "/patch.diff")
    shutil.copy(src + "/demo_test.go", dst + "/demo_test.go")
    notes = open(src + "/notes.md").read() if os.path.exists(src + "/notes.md") else ""
    shutil.copy(src + "/notes.md", dst + "/notes.md") if notes else None
    demo = open(src + "/demo_test.go").read()
    place = (re.search(r"place in:\s*([\w/.-]+)", demo) or [None, "?"])[1]
    files = re.findall(r"^\+\+\+ b/(\S+)", open(src + "/patch.diff").read(), re.M)
    meta = dict(
        id=name, breaks_property=P, files_changed=files, demo_place_in=place,
        origin="written by an independent sub-agent given only the text of property %s and a scratch worktree of /repo (nothing from /verif)" % P,
        needs_to_manifest=(re.search(r"(?is)trigger[^\n]*\n(.{0,600})", notes) or [None, ""])[1].strip()[:600] or "see notes.md",
        confirmed=res["confirm"],
        what_i_ran=["scratch worktree: demo passes on clean tree; git apply patch.diff; go build ./... && go build -tags verif ./... && go vet; full suite (excluding out/) passes; demo fails with the patch",
                    "git -C /repo apply patch.diff; VERIF_SKIP_COQ=1 ./check <pid> for the properties below; git -C /repo checkout -- ."],
        checks={pid: dict(exit=v["exit"], violation_lines=v["violations"], first_mismatch=v.get("mismatch"), shrunk_case_lines=v.get("case_len"))
                for pid, v in res["checks"].items()},
        detected_by=[pid for pid, v in res["checks"].items() if v["exit"] == 1])
    json.dump(meta, open(dst + "/meta.json", "w"), indent=1)
    print(name, "->", dst, "detected by", meta["detected_by"])
