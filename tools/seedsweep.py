#!/usr/bin/env python3
"""seedsweep.py [-j N] [-tier quick] seed...  : every check with every given seed on the current /repo
(correspondence + probes, VERIF_SKIP_COQ=1), in parallel; prints any run that exits non-zero."""
import sys, os, subprocess, threading, queue, shutil
args = sys.argv[1:]; n = 6; tier = "quick"
while args and args[0].startswith("-"):
    if args[0] == "-j": n = int(args[1]); args = args[2:]
    elif args[0] == "-tier": tier = args[1]; args = args[2:]
PIDS = ["C%02d" % i for i in range(1, 19)]
q = queue.Queue()
for seed in args:
    for p in PIDS: q.put((p, seed))
lock = threading.Lock(); bad = []
def worker(k):
    work = "/tmp/sweep/work%d" % k; build = "/tmp/sweep/build%d" % k
    os.makedirs(work, exist_ok=True); os.makedirs(build, exist_ok=True)
    env = dict(os.environ, GOFLAGS="-mod=mod", GOPROXY="off", GOSUMDB="off", GOTOOLCHAIN="local",
               VERIF_WORK=work, VERIF_BUILD=build, VERIF_SKIP_COQ="1", VERIF_SEED=seed_of.get(k, "1"))
    while True:
        try: p, seed = q.get_nowait()
        except queue.Empty: break
        e = dict(env, VERIF_SEED=seed)
        r = subprocess.run(["/verif/check", p, "--tier", tier], cwd="/verif", env=e, stdout=subprocess.PIPE, stderr=subprocess.STDOUT, universal_newlines=True)
        last = [l for l in r.stdout.strip().split("\n") if l.startswith(("check", "VIOLATION", "KNOWN"))][-3:]
        with lock:
            if r.returncode != 0:
                bad.append((p, seed)); print("NONZERO", p, "seed", seed, "rc", r.returncode, last or r.stdout[-400:], flush=True)
            else:
                print("ok", p, seed, last[-1][-60:] if last else "", flush=True)
    shutil.rmtree(work, ignore_errors=True); shutil.rmtree(build, ignore_errors=True)
seed_of = {}
ts = [threading.Thread(target=worker, args=(k,)) for k in range(n)]
[t.start() for t in ts]; [t.join() for t in ts]
print("DONE nonzero:", bad)
