#!/usr/bin/env python3
"""mutest.py <mutation-dir> <scratch-worktree> <pid> [<pid>...]
Confirms a seeded change in the scratch worktree (suite passes, demo fails with / passes without the
patch), then applies it to /repo, runs the named checks (correspondence only: VERIF_SKIP_COQ=1) and
reverts /repo.  Prints one summary line per check."""
import sys, os, re, subprocess, shutil, json
ENV = dict(os.environ, GOFLAGS="-mod=mod", GOPROXY="off", GOSUMDB="off", GOTOOLCHAIN="local")
def sh(cmd, cwd=None, env=None, timeout=1800):
    p = subprocess.run(cmd, shell=True, cwd=cwd, env=env or ENV, stdout=subprocess.PIPE, stderr=subprocess.STDOUT, universal_newlines=True, timeout=timeout)
    return p.returncode, p.stdout
def main():
    mdir, wt = sys.argv[1], sys.argv[2]; pids = sys.argv[3:]
    patch = os.path.join(mdir, "patch.diff"); demo = os.path.join(mdir, "demo_test.go")
    src = open(demo).read()
    m = re.search(r"place in:\s*([\w/.-]+)", src)
    place = m.group(1).strip("/") if m else None
    res = dict(mutation=mdir, confirm={}, checks={})
    pk = "$(go list ./... | grep -v '/out')"
    if place:
        sh("git checkout -q -- . && git clean -fdq -e out -e out2 -e out3", cwd=wt)
        dst = os.path.join(wt, place, "zz_demo_test.go"); shutil.copy(demo, dst)
        rc, out = sh("go test -count=1 ./%s/ 2>&1 | tail -5" % place, cwd=wt); res["confirm"]["demo_clean_passes"] = ("ok" in out and "FAIL" not in out)
        rc, out = sh("git apply %s" % patch, cwd=wt); res["confirm"]["applies"] = rc == 0
        rc, out = sh("go build ./... && go build -tags verif ./... && go vet %s >/dev/null 2>&1; echo vet=$?" % pk, cwd=wt); res["confirm"]["builds"] = "vet=0" in out
        rc, out = sh("go test -count=1 ./%s/ 2>&1 | tail -15" % place, cwd=wt); res["confirm"]["demo_patched_fails"] = "FAIL" in out
        os.remove(dst)
        rc, out = sh("go test -count=1 %s 2>&1 | grep -v '^ok\\|no test files' | head" % pk, cwd=wt); res["confirm"]["suite_passes_with_patch"] = out.strip() == ""
        if out.strip(): res["confirm"]["suite_output"] = out[:400]
        sh("git checkout -q -- . && git clean -fdq -e out -e out2 -e out3", cwd=wt)
    # run the checks against /repo
    rc, out = sh("git -C /repo status --porcelain")
    if out.strip(): print("refusing: /repo not clean"); sys.exit(2)
    rc, out = sh("git -C /repo apply %s" % patch)
    try:
        for pid in pids:
            rc, out = sh(("" if os.environ.get("MUTEST_FULL") else "VERIF_SKIP_COQ=1 ") + "/verif/check %s" % pid, cwd="/verif", timeout=3000)
            viol = [l for l in out.split("\n") if l.startswith("VIOLATION") or l.startswith("KNOWN")]
            last = out.strip().split("\n")[-1]
            res["checks"][pid] = dict(exit=rc, violations=viol[:4], summary=last[-300:])
            # keep the first replay for inspection
            for l in viol[:1]:
                mm = re.search(r"replay=(\S+)", l)
                if mm and os.path.exists(mm.group(1)):
                    d = json.load(open(mm.group(1)))
                    res["checks"][pid]["mismatch"] = d.get("mismatch"); res["checks"][pid]["case_len"] = len(d.get("case") or [])
    finally:
        sh("git -C /repo checkout -- . && git -C /repo clean -fdq")
    print(json.dumps(res, indent=1))
main()
