#!/usr/bin/env python3
"""pmatrix.py [-j N] spec...   spec = Cxx:x:PID[ PID...]
Parallel version of mutest: each worker owns a scratch copy of /repo (git worktree under /tmp/pm/wK),
applies the seeded patch there and runs the named checks with VERIF_REPO pointing at the copy
(correspondence + probes only: VERIF_SKIP_COQ=1).  Results: /tmp/mut/results/<id>.json (same format as mutest)."""
import sys, os, json, re, subprocess, shutil, threading, queue, time
ENV = dict(os.environ, GOFLAGS="-mod=mod", GOPROXY="off", GOSUMDB="off", GOTOOLCHAIN="local")
def sh(cmd, cwd=None, env=None, timeout=3600):
    p = subprocess.run(cmd, shell=True, cwd=cwd, env=env or ENV, stdout=subprocess.PIPE, stderr=subprocess.STDOUT, universal_newlines=True, timeout=timeout)
    return p.returncode, p.stdout
def srcdir(P, X):
    # the kept copies under /verif (patch.diff, demo_test.go) are used when the sub-agents' scratch worktrees are gone
    kept = "/verif/%s/%s%s" % ("refactorings" if P.startswith("R") else "seeded", P, X)
    if not os.path.isdir("/tmp/mut/%s" % P) and os.path.isdir(kept): return kept
    if P.startswith("R"): return "/tmp/mut/%s/out/%s" % (P, X)
    return "/tmp/mut/%s/%s/%s" % (P, {"a": "out", "b": "out", "c": "out2", "d": "out2", "e": "out3", "f": "out3", "g": "out4", "h": "out4", "i": "out5", "j": "out5"}.get(X, "out4"), X)
def worker(k, q, lock):
    wt = "/tmp/pm/w%d" % k
    sh("git -C /repo worktree remove --force %s; rm -rf %s; git -C /repo worktree add -q --detach %s HEAD" % (wt, wt, wt))
    work = "/tmp/pm/work%d" % k; build = "/tmp/pm/build%d" % k
    os.makedirs(work, exist_ok=True); os.makedirs(build, exist_ok=True)
    env = dict(ENV, VERIF_REPO=wt, VERIF_WORK=work, VERIF_BUILD=build, VERIF_SKIP_COQ="1", VERIF_SRCGEN=os.environ.get("PM_SRCGEN", "1"), VERIF_SHRINK_S="8")
    while True:
        try: spec = q.get_nowait()
        except queue.Empty: break
        P, X, pids = spec.split(":"); pids = pids.split()
        mdir = srcdir(P, X); patch = mdir + "/patch.diff"
        res = dict(mutation=mdir, confirm={}, checks={})
        os.makedirs("/tmp/mut/results", exist_ok=True)
        old = "/tmp/mut/results/%s%s.json" % (P, X)
        if os.path.exists(old):
            try: res["confirm"] = json.load(open(old)).get("confirm", {})
            except Exception: pass
        sh("git checkout -q -- . && git clean -fdq", cwd=wt)
        demo_path = mdir + "/demo_test.go"
        place = None
        if not res["confirm"] and os.path.exists(demo_path):
            m = re.search(r"place in:\s*([\w/.-]+)", open(demo_path).read())
            if m:
                place = m.group(1).strip("/")
                dst = os.path.join(wt, place, "zz_demo_test.go"); shutil.copy(demo_path, dst)
                rc, out = sh("go test -count=1 ./%s/ 2>&1 | tail -5" % place, cwd=wt)
                res["confirm"]["demo_clean_passes"] = ("ok" in out and "FAIL" not in out)
                os.remove(dst)
        rc, out = sh("git apply %s" % patch, cwd=wt)
        if rc != 0:
            res["error"] = "patch does not apply: " + out[-300:]
        else:
            if not os.path.exists(demo_path) and not res["confirm"]:
                rc, out = sh("go build ./... && go build -tags verif ./... && go test -count=1 $(go list ./... | grep -v /out) 2>&1 | grep -v '^ok\\|no test files' | head", cwd=wt)
                res["confirm"] = dict(refactoring=True, suite_passes_with_patch=(out.strip() == ""))
            elif place:
                dst = os.path.join(wt, place, "zz_demo_test.go"); shutil.copy(demo_path, dst)
                rc, out = sh("go test -count=1 ./%s/ 2>&1 | tail -15" % place, cwd=wt); res["confirm"]["demo_patched_fails"] = "FAIL" in out
                os.remove(dst)
                rc, out = sh("go build ./... && go build -tags verif ./... && go test -count=1 $(go list ./... | grep -v /out) 2>&1 | grep -v '^ok\\|no test files' | head", cwd=wt)
                res["confirm"]["suite_passes_with_patch"] = out.strip() == ""
            for pid in pids:
                t0 = time.time()
                rc, out = sh("/verif/check %s" % pid, cwd="/verif", env=env, timeout=3000)
                viol = [l for l in out.split("\n") if l.startswith("VIOLATION") or l.startswith("KNOWN")]
                last = out.strip().split("\n")[-1] if out.strip() else ""
                res["checks"][pid] = dict(exit=rc, violations=viol[:4], summary=last[-300:], wall_s=round(time.time() - t0))
                for l in viol[:1]:
                    mm = re.search(r"replay=(\S+)", l)
                    if mm and os.path.exists(mm.group(1)):
                        d = json.load(open(mm.group(1)))
                        res["checks"][pid]["mismatch"] = d.get("mismatch"); res["checks"][pid]["case_len"] = len(d.get("case") or [])
        sh("git checkout -q -- . && git clean -fdq", cwd=wt)
        json.dump(res, open(old, "w"), indent=1)
        with lock:
            print(P + X, res.get("error") or {k: (v["exit"], len(v["violations"]), v["wall_s"]) for k, v in res["checks"].items()}, flush=True)
    sh("git -C /repo worktree remove --force %s" % wt)
    shutil.rmtree(work, ignore_errors=True); shutil.rmtree(build, ignore_errors=True)
def main():
    args = sys.argv[1:]; n = 6
    if args and args[0] == "-j": n = int(args[1]); args = args[2:]
    os.makedirs("/tmp/pm", exist_ok=True)
    q = queue.Queue()
    for a in args: q.put(a)
    lock = threading.Lock()
    ts = [threading.Thread(target=worker, args=(k, q, lock)) for k in range(n)]
    for t in ts: t.start()
    for t in ts: t.join()
main()
# the harness is rebuilt with -cover for every scratch copy: the build cache grows by gigabytes per matrix
sh("go clean -cache")
