#!/bin/bash
cd /verif
PM_SRCGEN="" python3 tools/pmatrix.py -j 8 \
 "C01:i:C01 C10" "C01:j:C01 C09" "C02:i:C02 C10" "C02:j:C02 C08" "C03:i:C03 C16" "C03:j:C03" \
 "C04:i:C04 C09" "C04:j:C04" "C05:i:C05 C11" "C05:j:C05 C15" "C06:i:C06 C12" "C06:j:C06 C08" \
 "C07:i:C07 C15" "C07:j:C07" "C08:i:C08 C03" "C08:j:C08 C02" "C09:i:C09 C13" "C09:j:C09 C11" \
 "C10:i:C10 C14" "C10:j:C10 C12" "C11:i:C11 C10" "C11:j:C11" "C12:i:C12 C06" "C12:j:C12 C10" \
 "C13:i:C13" "C13:j:C13" "C14:i:C14" "C14:j:C14 C16" "C15:i:C15 C10" "C15:j:C15 C16" \
 "C16:i:C16" "C16:j:C16" "C17:i:C17 C03" "C17:j:C17 C08" "C18:i:C18 C06" "C18:j:C18 C14"
