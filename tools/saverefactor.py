#!/usr/bin/env python3
"""copies the behaviour-preserving refactorings (false-alarm tests) from /tmp/mut/R*/out into /verif/refactorings/"""
import json, os, re, shutil, glob
rows = []
for rf in sorted(glob.glob("/tmp/mut/results/R*.json")):
    name = os.path.basename(rf)[:-5]; P, X = name[:2], name[2:]
    src = "/tmp/mut/%s/out/%s" % (P, X)
    if not os.path.exists(src + "/patch.diff"): continue
    res = json.load(open(rf))
    dst = "/verif/refactorings/%s" % name
    os.makedirs(dst, exist_ok=True)
    shutil.copy(src + "/patch.diff", dst + "/patch.diff")
    if os.path.exists(src + "/notes.md"): shutil.copy(src + "/notes.md", dst + "/notes.md")
    files = re.findall(r"^\+\+\+ b/(\S+)", open(src + "/patch.diff").read(), re.M)
    verdicts = {}
    for pid, c in sorted(res["checks"].items()):
        if c["exit"] == 0: verdicts[pid] = "quiet"
        elif c["violation_lines"] if "violation_lines" in c else c["violations"]:
            ls = c.get("violations", [])
            verdicts[pid] = "tie only (no-failing-input-found)" if all("no-failing-input-found" in l for l in ls) else "FAILING INPUT CLAIMED"
    meta = dict(id=name, kind="behaviour-preserving refactoring (written by an independent sub-agent; full suite passes; its own randomized differential test against the unchanged code found no difference)",
                files_changed=files, verdicts=verdicts, first_mismatch={pid: c.get("mismatch") for pid, c in res["checks"].items() if c["exit"] == 1})
    json.dump(meta, open(dst + "/meta.json", "w"), indent=1)
    rows.append((name, files, verdicts))
for r in rows: print(r[0], r[2])
