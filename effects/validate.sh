#!/bin/bash
# validate.sh: sensitivity check of the effect pipeline with seeded mutations.
# Works on a scratch copy of the repository (never touches /repo) and in --scratch mode of run.sh
# (never touches /verif/coq/theories).  Prints, per mutation, the failing obligations and offenders.
set -uo pipefail
here="$(cd "$(dirname "$0")" && pwd)"
src="${1:-/repo}"
scratch=/tmp/effects-scratch
summ() { # summ <json-file>
  python3 - "$1" <<'PY'
import json, sys
d = json.load(open(sys.argv[1]))
print("  functions=%d all_ok=%s check_compiled=%s wall_s=%.1f" % (d["functions"], d["all_ok"], d["check_compiled"], d["wall_s"]))
for o in d["obligations"]:
    if not o["ok"]:
        print("  FAIL %s (%d of %d): %s" % (o["name"], len(o["offenders"]), o["domain_size"], ", ".join(o["offenders"])))
        for det in o.get("details", [])[:3]:
            print("       e.g. %s: %s" % (det["function"], det["closure"]))
PY
}
mutate() { # mutate <label> <file> <python-expr old> <new>
  local label="$1" file="$2" old="$3" new="$4"
  rm -rf "$scratch"; cp -r "$src" "$scratch"
  python3 - "$scratch/$file" "$old" "$new" <<'PY' || { echo "mutation did not apply"; return 1; }
import sys
p, old, new = sys.argv[1:4]
s = open(p).read()
if s.count(old) != 1:
    sys.exit("pattern occurs %d times in %s" % (s.count(old), p))
open(p, "w").write(s.replace(old, new))
PY
  echo "== $label"
  (cd "$scratch" && git diff --stat -- "$file" | head -1)
  "$here/run.sh" --scratch "$scratch" > /tmp/effects-mut.json 2> /tmp/effects-mut.err; echo "  run.sh exit=$?"
  summ /tmp/effects-mut.json
}

echo "== baseline ($src)"
"$here/run.sh" --scratch "$src" > /tmp/effects-mut.json 2> /tmp/effects-mut.err; echo "  run.sh exit=$?"
summ /tmp/effects-mut.json

mutate "(a) ArrayList.Values returns the backing slice" lists/arraylist/arraylist.go \
  'return slices.Clone(list.elements)' 'return list.elements'

mutate "(b) redblacktree lookup performs a no-op store (tree.Root.Parent = nil)" trees/redblacktree/redblacktree.go \
  'func (tree *Tree[K, V]) lookup(key K) *Node[K, V] {
	node := tree.Root' \
  'func (tree *Tree[K, V]) lookup(key K) *Node[K, V] {
	if tree.Root != nil {
		tree.Root.Parent = nil
	}
	node := tree.Root'

mutate "(c) HashSet.Add prints" sets/hashset/hashset.go \
  '	for _, item := range items {
		set.items[item] = itemExists
	}
}' \
  '	for _, item := range items {
		set.items[item] = itemExists
	}
	fmt.Println("added", len(items))
}'

mutate "(d) arraylist.New keeps the caller's slice" lists/arraylist/arraylist.go \
  '	if len(values) > 0 {
		list.Add(values...)
	}
	return list' \
  '	list.elements = values
	return list'


# ---- further mutations (beyond the four of the brief) ----
mutate "(e) a container type gets a field of an iterator type (rule I)" lists/arraylist/arraylist.go \
  'type List[T comparable] struct {
	elements []T' \
  'type List[T comparable] struct {
	cursor   *Iterator[T]
	elements []T'

mutate "(f) a read-only method wraps the callback in a closure that prints" sets/treeset/enumerable.go \
  '	iterator := set.Iterator()
	for iterator.Next() {
		f(iterator.Index(), iterator.Value())
	}
}' \
  '	iterator := set.Iterator()
	g := func(index int, value T) { println(index); f(index, value) }
	for iterator.Next() {
		g(iterator.Index(), iterator.Value())
	}
}'

mutate "(g) a read-only method calls a standard-library function outside the reviewed table" stacks/arraystack/arraystack.go \
  '	return stack.list.Get(stack.list.Size() - 1)' \
  '	_ = strings.ToUpper(fmt.Sprint(stack.list.Size()))
	return stack.list.Get(stack.list.Size() - 1)'

mutate "(h) a read-only method caches a result in the receiver (ArrayStack.Peek touches list)" stacks/arraystack/arraystack.go \
  '	return stack.list.Get(stack.list.Size() - 1)' \
  '	stack.list = stack.list
	return stack.list.Get(stack.list.Size() - 1)'

mutate "(i) ArrayList.Values keeps the slice it returns (fresh, but aliased by the container)" lists/arraylist/arraylist.go \
  '	return slices.Clone(list.elements)' \
  '	list.elements = slices.Clone(list.elements)
	return list.elements[:len(list.elements):len(list.elements)]'

rm -rf "$scratch" /tmp/effects-mut.json /tmp/effects-mut.err
