// Command effects is the source-derived effect translator of DESIGN.md section 3.4.
//
//	effects gen  [-o EffectsGen.v] [repo-dir]   analyse the library and write the Coq table
//	effects dump [repo-dir]                     print the computed summaries (debugging)
//	effects json <functions> <wall_s> <report.out> <check.out> <check-status>   assemble run.sh's JSON
//	effects stdlib                              print the standard-library summary table
package main

import (
	"flag"
	"fmt"
	"go/types"
	"os"
	"sort"
	"strings"

	"golang.org/x/tools/go/packages"
	"golang.org/x/tools/go/ssa"
	"golang.org/x/tools/go/ssa/ssautil"
)

const modulePath = "github.com/emirpasic/gods/v2"

var patterns = []string{"./containers/...", "./lists/...", "./sets/...", "./stacks/...", "./maps/...", "./trees/...", "./queues/...", "./utils/..."}

func die(code int, format string, args ...interface{}) {
	fmt.Fprintf(os.Stderr, "effects: "+format+"\n", args...)
	os.Exit(code)
}

// TypeInfo: one named type of the module, for rule (I) and for the API classification.
type TypeInfo struct {
	Name     string   // module-relative, e.g. "trees/redblacktree.Iterator"
	Iterator bool     // the type is called Iterator
	Mentions []string // named types occurring in its underlying type (fields, elements, ...)
}

type World struct {
	a     *analyzer
	types []*TypeInfo
}

func relPkg(path string) string {
	if path == modulePath {
		return "."
	}
	return strings.TrimPrefix(path, modulePath+"/")
}

func load(dir string) *World {
	cfg := &packages.Config{Mode: packages.LoadAllSyntax, Dir: dir, BuildFlags: []string{"-tags=verif"}}
	pkgs, err := packages.Load(cfg, patterns...)
	if err != nil {
		die(1, "load error: %v", err)
	}
	if packages.PrintErrors(pkgs) > 0 {
		die(1, "load error: the packages of %s do not type-check", dir)
	}
	if len(pkgs) == 0 {
		die(1, "load error: no packages under %s", dir)
	}
	prog, spkgs := ssautil.AllPackages(pkgs, ssa.BuilderMode(0))
	prog.Build()
	a := &analyzer{prog: prog, sums: map[*ssa.Function]*Summary{}, byName: map[string][]*ssa.Function{}, usedStd: map[string]bool{}, mod: modulePath}
	w := &World{a: a}
	seen := map[*ssa.Function]bool{}
	var addFn func(f *ssa.Function, method bool)
	addFn = func(f *ssa.Function, method bool) {
		if f == nil || len(f.Blocks) == 0 || seen[f] {
			return
		}
		seen[f] = true
		a.funcs = append(a.funcs, f)
		if method {
			a.byName[f.Name()] = append(a.byName[f.Name()], f)
		}
		for _, an := range f.AnonFuncs {
			addFn(an, false)
		}
	}
	sort.Slice(spkgs, func(i, j int) bool {
		if spkgs[i] == nil || spkgs[j] == nil {
			return spkgs[j] != nil
		}
		return spkgs[i].Pkg.Path() < spkgs[j].Pkg.Path()
	})
	for _, p := range spkgs {
		if p == nil || !(p.Pkg.Path() == a.mod || strings.HasPrefix(p.Pkg.Path(), a.mod+"/")) {
			continue
		}
		var names []string
		for n := range p.Members {
			names = append(names, n)
		}
		sort.Strings(names)
		for _, n := range names {
			if f, ok := p.Members[n].(*ssa.Function); ok {
				addFn(f, false)
			}
		}
		scope := p.Pkg.Scope()
		for _, name := range scope.Names() {
			tn, ok := scope.Lookup(name).(*types.TypeName)
			if !ok {
				continue
			}
			named, ok := types.Unalias(tn.Type()).(*types.Named)
			if !ok || tn.IsAlias() {
				continue
			}
			for k := 0; k < named.NumMethods(); k++ {
				addFn(prog.FuncValue(named.Method(k)), true)
			}
			if _, isIface := named.Underlying().(*types.Interface); !isIface {
				ti := &TypeInfo{Name: relPkg(p.Pkg.Path()) + "." + name, Iterator: name == "Iterator"}
				m := map[string]bool{}
				mentions(named.Underlying(), m, map[types.Type]bool{})
				ti.Mentions = sortedKeys(m)
				w.types = append(w.types, ti)
			}
		}
	}
	sort.Slice(w.types, func(i, j int) bool { return w.types[i].Name < w.types[j].Name })
	// deterministic order everywhere: by stable name
	names := map[string]*ssa.Function{}
	for _, f := range a.funcs {
		n := fname(f)
		if g, dup := names[n]; dup {
			die(2, "internal error: two functions named %s (%s, %s)", n, f, g)
		}
		names[n] = f
	}
	sort.Slice(a.funcs, func(i, j int) bool { return fname(a.funcs[i]) < fname(a.funcs[j]) })
	for _, fs := range a.byName {
		sort.Slice(fs, func(i, j int) bool { return fname(fs[i]) < fname(fs[j]) })
	}
	return w
}

// mentions collects the named types occurring in t (not looking through named types).
func mentions(t types.Type, out map[string]bool, seen map[types.Type]bool) {
	t = types.Unalias(t)
	if seen[t] {
		return
	}
	seen[t] = true
	switch u := t.(type) {
	case *types.Named:
		if u.Obj().Pkg() != nil {
			out[relPkg(u.Obj().Pkg().Path())+"."+u.Obj().Name()] = true
		}
		if ta := u.TypeArgs(); ta != nil {
			for i := 0; i < ta.Len(); i++ {
				mentions(ta.At(i), out, seen)
			}
		}
	case *types.Pointer:
		mentions(u.Elem(), out, seen)
	case *types.Slice:
		mentions(u.Elem(), out, seen)
	case *types.Array:
		mentions(u.Elem(), out, seen)
	case *types.Chan:
		mentions(u.Elem(), out, seen)
	case *types.Map:
		mentions(u.Key(), out, seen)
		mentions(u.Elem(), out, seen)
	case *types.Struct:
		for i := 0; i < u.NumFields(); i++ {
			mentions(u.Field(i).Type(), out, seen)
		}
	case *types.Tuple:
		for i := 0; i < u.Len(); i++ {
			mentions(u.At(i).Type(), out, seen)
		}
	case *types.Signature:
		mentions(u.Params(), out, seen)
		mentions(u.Results(), out, seen)
	}
}

// ---------- stable names ----------
var fnameCache = map[*ssa.Function]string{}

// fname: "lists/arraylist.New", "lists/arraylist.(*List).Values", anonymous "....(*List).Each$1".
func fname(f *ssa.Function) string {
	if n, ok := fnameCache[f]; ok {
		return n
	}
	root := f
	for root.Parent() != nil {
		root = root.Parent()
	}
	pkg := "?"
	if root.Pkg != nil {
		pkg = relPkg(root.Pkg.Pkg.Path())
	} else if o := root.Object(); o != nil && o.Pkg() != nil {
		pkg = relPkg(o.Pkg().Path())
	}
	base := root.Name()
	if recv := root.Signature.Recv(); recv != nil {
		t := types.Unalias(recv.Type())
		ptr := ""
		if p, ok := t.(*types.Pointer); ok {
			ptr = "*"
			t = types.Unalias(p.Elem())
		}
		tn := t.String()
		if n, ok := t.(*types.Named); ok {
			tn = n.Obj().Name()
		}
		base = "(" + ptr + tn + ")." + root.Name()
	}
	n := pkg + "." + base
	if f != root {
		n += strings.TrimPrefix(f.Name(), root.Name())
	}
	fnameCache[f] = n
	return n
}

func repoArg(args []string) string {
	if len(args) > 0 {
		return args[0]
	}
	return "/repo"
}

func main() {
	if len(os.Args) < 2 {
		die(2, "usage: effects gen|dump|json|stdlib ...")
	}
	switch os.Args[1] {
	case "gen":
		fs := flag.NewFlagSet("gen", flag.ExitOnError)
		out := fs.String("o", "", "output file (default stdout)")
		fs.Parse(os.Args[2:])
		w := load(repoArg(fs.Args()))
		rounds := w.a.fixpoint()
		res := w.a.finalPass()
		text := emitCoq(w, res)
		if *out == "" {
			os.Stdout.WriteString(text)
		} else {
			tmp := *out + ".tmp"
			if err := os.WriteFile(tmp, []byte(text), 0o644); err != nil {
				die(2, "%v", err)
			}
			if err := os.Rename(tmp, *out); err != nil {
				die(2, "%v", err)
			}
		}
		fmt.Fprintf(os.Stderr, "effects: functions: %d rounds: %d\n", len(res), rounds)
	case "dump":
		w := load(repoArg(os.Args[2:]))
		rounds := w.a.fixpoint()
		res := w.a.finalPass()
		fmt.Println("functions:", len(res), "rounds:", rounds)
		for _, r := range res {
			s := r.Summary
			caps := []string{}
			for _, c := range s.capPairs() {
				caps = append(caps, c.Into.String()+"<-"+c.From.String())
			}
			fmt.Printf("%-60s W=%s IW=%s R=%s FC=%s cap=%v io=%v user=%v unk=%v | direct W=%s IW=%s edges=%d\n", fname(r.Fn), s.Writes, s.IterW, s.Returns, s.FreshCnt,
				caps, sortedKeys(s.IO), s.UserFn, sortedKeys(s.Unknown), r.Direct.Writes, r.Direct.IterW, len(r.Edges))
		}
	case "json":
		os.Exit(assembleJSON(os.Args[2:]))
	case "stdlib":
		for _, n := range stdNames() {
			fmt.Printf("%-36s %+v\n", n, stdTable[n])
		}
	default:
		die(2, "unknown subcommand %q", os.Args[1])
	}
}
