# sourced by gen.sh and run.sh
export GOFLAGS=-mod=mod GOPROXY=off GOSUMDB=off GOTOOLCHAIN=local
EFFECTS_DIR="$(cd "$(dirname "${BASH_SOURCE[0]}")" && pwd)"
EFFECTS_BIN="$EFFECTS_DIR/bin/effects"
COQ_THEORIES="${COQ_THEORIES:-/verif/coq/theories}"

# (re)build the translator when a source file is newer than the binary
build_tool() {
  local stale=0 f
  [ -x "$EFFECTS_BIN" ] || stale=1
  for f in "$EFFECTS_DIR"/*.go "$EFFECTS_DIR"/go.mod "$EFFECTS_DIR"/go.sum; do
    [ "$f" -nt "$EFFECTS_BIN" ] && stale=1
  done
  if [ "$stale" = 1 ]; then
    mkdir -p "$EFFECTS_DIR/bin"
    (cd "$EFFECTS_DIR" && go build -o "$EFFECTS_BIN.new.$$" . && mv "$EFFECTS_BIN.new.$$" "$EFFECTS_BIN") || return 1
  fi
}

# generate <theories>/Effects/EffectsGen.v from repo dir $1 into theories root $2;
# the file is only replaced when its content changes
generate() {
  local repo="$1" root="$2" out tmp
  out="$root/Effects/EffectsGen.v"
  tmp="$out.new.$$"
  mkdir -p "$root/Effects"
  "$EFFECTS_BIN" gen -o "$tmp" "$repo" || { rm -f "$tmp" "$tmp.tmp"; return 1; }
  if cmp -s "$tmp" "$out"; then rm -f "$tmp"; else mv "$tmp" "$out"; fi
}
