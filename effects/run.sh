#!/bin/bash
# run.sh [--scratch] [repo-dir]
#   builds the translator, regenerates EffectsGen.v from repo-dir (default /repo), compiles
#   EffectModel.v (if stale), EffectsGen.v, EffectsObligations.v, EffectsReport.v, EffectsCheck.v and
#   prints ONE JSON object on stdout (see README.md).  Exit 0 when the run completed -- also when
#   obligations fail; non-zero only for internal errors (load error, the generated file or the
#   report does not compile, report and check disagree).
#   --scratch: do all the Coq work in a temporary copy of theories/Effects, so that a run on a
#   mutated source tree does not touch the shared /verif/coq/theories.
set -uo pipefail
. "$(dirname "$0")/env.sh"
start=$(date +%s.%N)
scratch=0
if [ "${1:-}" = "--scratch" ]; then scratch=1; shift; fi
repo="${1:-/repo}"
COQ_TIMEOUT="${COQ_TIMEOUT:-300}"
work="$(mktemp -d /tmp/effects-run.XXXXXX)"
trap 'rm -rf "$work"' EXIT

fail() { echo "effects/run.sh: $*" >&2; exit 2; }

build_tool >&2 || fail "cannot build the translator"

root="$COQ_THEORIES"
if [ "$scratch" = 1 ]; then
  root="$work/theories"
  mkdir -p "$root/Effects"
  cp "$COQ_THEORIES"/Effects/{EffectModel,EffectsObligations,EffectsReport,EffectsCheck}.v "$root/Effects/"
fi
E="$root/Effects"
if [ "$scratch" = 0 ]; then
  # concurrent runs on the shared tree would overwrite each other's .vo files
  exec 9> "$EFFECTS_DIR/.lock"
  flock 9
fi

generate "$repo" "$root" 2> "$work/gen.err" || { cat "$work/gen.err" >&2; fail "translator failed on $repo"; }
cat "$work/gen.err" >&2

ulimit -s unlimited 2>/dev/null || ulimit -s 4000000 2>/dev/null || true   # long report strings
coq() { # coq <file-stem> <output-file>: compile one file, output captured
  timeout "$COQ_TIMEOUT" coqc -q -Q "$root" Gods -w -notation-overridden "$E/$1.v" > "$2" 2>&1
}

# EffectModel.v: written once; recompiled only when stale.  Its Print Assumptions output is kept.
if [ ! -f "$E/EffectModel.vo" ] || [ "$E/EffectModel.v" -nt "$E/EffectModel.vo" ] ||
   [ ! -f "$E/EffectModel.out" ] || [ "$E/EffectModel.v" -nt "$E/EffectModel.out" ]; then
  coq EffectModel "$E/EffectModel.out" || { cat "$E/EffectModel.out" >&2; rm -f "$E/EffectModel.out"; fail "EffectModel.v does not compile"; }
fi
coq EffectsGen "$work/gen.out" || { cat "$work/gen.out" >&2; fail "the generated EffectsGen.v does not compile"; }
coq EffectsObligations "$work/obl.out" || { cat "$work/obl.out" >&2; fail "EffectsObligations.v does not compile"; }
# the report first: it has no theorem that can fail
coq EffectsReport "$work/report.out" || { cat "$work/report.out" >&2; fail "EffectsReport.v does not compile"; }
coq EffectsCheck "$work/check.out"; check_status=$?
if [ "$check_status" = 124 ]; then fail "EffectsCheck.v timed out"; fi

end=$(date +%s.%N)
wall=$(echo "$end $start" | awk '{printf "%.2f", $1 - $2}')
"$EFFECTS_BIN" json -repo "$repo" -wall "$wall" -report "$work/report.out" \
  -check "$work/check.out" -check-src "$E/EffectsCheck.v" -check-status "$check_status" \
  -model "$E/EffectModel.out" -model-src "$E/EffectModel.v"
