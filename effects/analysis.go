package main

// The intra-procedural abstract interpretation and the inter-procedural summary fixpoint.
// This file is the design-round prototype (DESIGN.md Appendix D) with these extensions:
//   - summaries are kept over *summary locations* only (every fresh site collapses to Fresh);
//   - iterator-state writes are an origin set, not a flag; io and unknown callees are name sets and
//     are propagated through calls;
//   - a final recording pass separates the DIRECT effects of a function from those that come from
//     applying a callee summary, and records every call edge with its origin substitution;
//   - closures: free variables are extra parameters, creating a closure of a module function (or
//     mentioning a module function as a value) counts as a potential call of it;
//   - the standard-library table is data (stdlib.go).

import (
	"fmt"
	"go/token"
	"go/types"
	"os"
	"sort"
	"strings"

	"golang.org/x/tools/go/ssa"
)

// ---------- abstract locations ----------
type Loc struct {
	Kind byte // 'F' fresh, 'P' param object, 'D' param deep, 'G' global/unknown
	N    int  // site id for F (0 in summaries), param index for P/D
}

func (l Loc) String() string {
	switch l.Kind {
	case 'F':
		return fmt.Sprintf("F%d", l.N)
	case 'P':
		return fmt.Sprintf("P%d", l.N)
	case 'D':
		return fmt.Sprintf("D%d", l.N)
	}
	return "G"
}

type Set map[Loc]bool

func (s Set) add(l Loc) bool {
	if s[l] {
		return false
	}
	s[l] = true
	return true
}
func (s Set) addAll(o Set) bool {
	ch := false
	for l := range o {
		if s.add(l) {
			ch = true
		}
	}
	return ch
}
func (s Set) sorted() []Loc {
	xs := make([]Loc, 0, len(s))
	for l := range s {
		xs = append(xs, l)
	}
	sort.Slice(xs, func(i, j int) bool { return locLess(xs[i], xs[j]) })
	return xs
}
func (s Set) String() string {
	var xs []string
	for _, l := range s.sorted() {
		xs = append(xs, l.String())
	}
	return "{" + strings.Join(xs, ",") + "}"
}

func kindRank(k byte) int {
	switch k {
	case 'F':
		return 0
	case 'P':
		return 1
	case 'D':
		return 2
	}
	return 3
}
func locLess(a, b Loc) bool {
	if a.Kind != b.Kind {
		return kindRank(a.Kind) < kindRank(b.Kind)
	}
	return a.N < b.N
}

var G = Loc{'G', 0}
var RF = Loc{'F', 0} // in summaries: "fresh"

// sl collapses a function-local location to a summary location.
func sl(l Loc) Loc {
	if l.Kind == 'F' {
		return RF
	}
	return l
}
func collapse(x Set) Set {
	out := Set{}
	for l := range x {
		out.add(sl(l))
	}
	return out
}

// Summary (also used for the DIRECT effects): all locations are summary locations.
type Summary struct {
	Writes   Set             // P(i), D(i), G written (container / ordinary memory)
	IterW    Set             // P(i), D(i), G written as iterator state (typing rule I)
	Captures map[Loc]Set     // into -> from
	Returns  Set             // RF, P, D, G
	FreshCnt Set             // what returned-fresh objects may contain (non-fresh)
	IO       map[string]bool // names of the I/O primitives reached
	UserFn   bool            // calls a function value
	Unknown  map[string]bool // callees without a summary
}

func newSummary() *Summary {
	return &Summary{Writes: Set{}, IterW: Set{}, Captures: map[Loc]Set{}, Returns: Set{}, FreshCnt: Set{},
		IO: map[string]bool{}, Unknown: map[string]bool{}}
}

func sortedKeys(m map[string]bool) []string {
	xs := make([]string, 0, len(m))
	for k := range m {
		xs = append(xs, k)
	}
	sort.Strings(xs)
	return xs
}

type capPair struct{ Into, From Loc }

func (s *Summary) capPairs() []capPair {
	var out []capPair
	for into, from := range s.Captures {
		for f := range from {
			out = append(out, capPair{into, f})
		}
	}
	sort.Slice(out, func(i, j int) bool {
		if out[i].Into != out[j].Into {
			return locLess(out[i].Into, out[j].Into)
		}
		return locLess(out[i].From, out[j].From)
	})
	return out
}

func (s *Summary) key() string {
	var b strings.Builder
	b.WriteString(s.Writes.String())
	b.WriteString(s.IterW.String())
	for _, c := range s.capPairs() {
		b.WriteString(c.Into.String() + "<-" + c.From.String() + ";")
	}
	b.WriteString(s.Returns.String())
	b.WriteString(s.FreshCnt.String())
	fmt.Fprint(&b, sortedKeys(s.IO), s.UserFn, sortedKeys(s.Unknown))
	return b.String()
}

// ---------- call edges (recorded in the final pass) ----------
type ArgSub struct{ Obj, Deep Set } // collapsed P(arg_i), deep(P(arg_i)) in the caller

type Edge struct {
	Callee  *ssa.Function
	Kind    string // call, invoke, go, defer, closure, funcvalue
	Args    []ArgSub
	ResUsed bool // the call has a reference-typed result that the caller tracks
	Res     Set  // collapsed P(result)
	ResDeep Set  // collapsed deep(P(result))
}

func (e *Edge) key() string {
	var b strings.Builder
	b.WriteString(e.Kind)
	for _, a := range e.Args {
		b.WriteString("|" + a.Obj.String() + a.Deep.String())
	}
	fmt.Fprint(&b, "|", e.ResUsed, e.Res.String(), e.ResDeep.String())
	return b.String()
}

type analyzer struct {
	prog    *ssa.Program
	funcs   []*ssa.Function
	sums    map[*ssa.Function]*Summary
	mod     string
	byName  map[string][]*ssa.Function // method name -> module methods (CHA)
	usedStd map[string]bool            // standard-library summaries that were applied
}

func origin(f *ssa.Function) *ssa.Function {
	if o := f.Origin(); o != nil {
		return o
	}
	return f
}

// isRef: can a value of this type carry a reference to mutable memory?  Typing rules (T) and (F).
func isRef(t types.Type) bool {
	t = types.Unalias(t)
	if _, ok := t.(*types.TypeParam); ok {
		return false // (T) generic code cannot write through an opaque T
	}
	switch u := t.Underlying().(type) {
	case *types.Signature:
		return false // (F) function values are immutable; calling them is the "user function" assumption
	case *types.Pointer, *types.Slice, *types.Map, *types.Chan, *types.Interface:
		return true
	case *types.Struct:
		for i := 0; i < u.NumFields(); i++ {
			if isRef(u.Field(i).Type()) {
				return true
			}
		}
		return false
	case *types.Array:
		return isRef(u.Elem())
	case *types.Tuple:
		for i := 0; i < u.Len(); i++ {
			if isRef(u.At(i).Type()) {
				return true
			}
		}
		return false
	case *types.Basic:
		return u.Kind() == types.UnsafePointer
	}
	return false
}

func isString(t types.Type) bool {
	b, ok := t.Underlying().(*types.Basic)
	return ok && b.Info()&types.IsString != 0
}

// pointeeHasRefs: typing rule (C).
func pointeeHasRefs(t types.Type) bool {
	t = types.Unalias(t)
	if _, ok := t.(*types.TypeParam); ok {
		return false
	}
	switch u := t.Underlying().(type) {
	case *types.Pointer:
		return isRef(u.Elem())
	case *types.Slice:
		return isRef(u.Elem())
	case *types.Map:
		return isRef(u.Key()) || isRef(u.Elem())
	case *types.Chan:
		return isRef(u.Elem())
	}
	return true
}

type fstate struct {
	a     *analyzer
	fn    *ssa.Function
	pts   map[ssa.Value]Set
	cont  map[Loc]Set
	site  map[ssa.Instruction]int
	nsite int
	sum   *Summary
	ch    bool

	// final pass
	rec     bool
	inApply int
	direct  *Summary
	edges   []*Edge
}

// paramType: formal parameters first, then free variables (closures).
func (s *fstate) paramType(n int) types.Type {
	if n < len(s.fn.Params) {
		return s.fn.Params[n].Type()
	}
	n -= len(s.fn.Params)
	if n < len(s.fn.FreeVars) {
		return s.fn.FreeVars[n].Type()
	}
	return nil
}

func (s *fstate) P(v ssa.Value) Set {
	switch x := v.(type) {
	case *ssa.Const:
		return Set{}
	case *ssa.Global:
		return Set{G: true}
	case *ssa.Function:
		return Set{}
	case *ssa.Builtin:
		return Set{}
	case *ssa.FreeVar:
		for k, fv := range s.fn.FreeVars {
			if fv == x {
				return Set{Loc{'P', len(s.fn.Params) + k}: true}
			}
		}
		return Set{G: true}
	}
	if x, ok := s.pts[v]; ok {
		return x
	}
	x := Set{}
	s.pts[v] = x
	return x
}

func (s *fstate) C(l Loc) Set {
	switch l.Kind {
	case 'P':
		if t := s.paramType(l.N); t != nil && !pointeeHasRefs(t) {
			return Set{}
		}
		return Set{Loc{'D', l.N}: true}
	case 'D':
		return Set{Loc{'D', l.N}: true}
	case 'G':
		return Set{G: true}
	}
	if x, ok := s.cont[l]; ok {
		return x
	}
	x := Set{}
	s.cont[l] = x
	return x
}

func (s *fstate) deep(x Set) Set {
	out := Set{}
	work := []Loc{}
	for l := range x {
		for c := range s.C(l) {
			if out.add(c) {
				work = append(work, c)
			}
		}
	}
	for len(work) > 0 {
		l := work[len(work)-1]
		work = work[:len(work)-1]
		for c := range s.C(l) {
			if out.add(c) {
				work = append(work, c)
			}
		}
	}
	return out
}

func (s *fstate) deepIncl(l Loc) Set { return s.deep(Set{l: true}) }

func (s *fstate) fresh(i ssa.Instruction) Loc {
	if n, ok := s.site[i]; ok {
		return Loc{'F', n}
	}
	s.nsite++
	s.site[i] = s.nsite
	return Loc{'F', s.nsite}
}

func (s *fstate) setP(v ssa.Value, x Set) {
	if !isRef(v.Type()) {
		return
	}
	if s.P(v).addAll(x) {
		s.ch = true
	}
}

var dbg = os.Getenv("DBG")
var curInstr ssa.Instruction

func (s *fstate) directly() bool { return s.rec && s.inApply == 0 }

func (s *fstate) write(targets Set) {
	for l := range targets {
		if l.Kind != 'F' {
			if s.sum.Writes.add(l) {
				if dbg != "" && strings.Contains(s.fn.String(), dbg) {
					fmt.Fprintf(os.Stderr, "WRITE %s in %s at %v targets=%s\n", l, s.fn, curInstr, targets)
				}
				s.ch = true
			}
			if s.directly() {
				s.direct.Writes.add(l)
			}
		}
	}
}

func (s *fstate) iterWrite(targets Set) {
	for l := range targets {
		if l.Kind != 'F' {
			if s.sum.IterW.add(l) {
				s.ch = true
			}
			if s.directly() {
				s.direct.IterW.add(l)
			}
		}
	}
}

func capAdd(sum *Summary, into, from Loc) bool {
	m := sum.Captures[into]
	if m == nil {
		m = Set{}
		sum.Captures[into] = m
	}
	return m.add(from)
}

func (s *fstate) store(targets Set, val Set) {
	for l := range targets {
		if l.Kind == 'F' {
			if dbg != "" && strings.Contains(s.fn.String(), dbg) && val[G] && !s.C(l)[G] {
				fmt.Fprintf(os.Stderr, "G INTO %s in %s at %v\n", l, s.fn, curInstr)
			}
			if s.C(l).addAll(val) {
				s.ch = true
			}
		} else {
			// capture: pointers stored into shared memory
			for v := range val {
				if v == l || (v.Kind == 'D' && (l.Kind == 'P' || l.Kind == 'D') && v.N == l.N) {
					continue // a structure rearranging its own parts is not a capture
				}
				if capAdd(s.sum, l, sl(v)) {
					s.ch = true
				}
				if s.directly() {
					capAdd(s.direct, l, sl(v))
				}
			}
		}
	}
}

func (s *fstate) io(name string) {
	if !s.sum.IO[name] {
		s.sum.IO[name] = true
		s.ch = true
	}
	if s.directly() {
		s.direct.IO[name] = true
	}
}

func (s *fstate) userFn() {
	if !s.sum.UserFn {
		s.sum.UserFn = true
		s.ch = true
	}
	if s.directly() {
		s.direct.UserFn = true
	}
}

func (s *fstate) unknown(name string) {
	if !s.sum.Unknown[name] {
		s.sum.Unknown[name] = true
		s.ch = true
	}
	if s.directly() {
		s.direct.Unknown[name] = true
	}
}

// ---------- actual arguments ----------
type actual struct {
	v ssa.Value // nil: an unknown reference supplied by somebody else (Global)
}

func (s *fstate) aObj(a actual) Set {
	if a.v == nil {
		return Set{G: true}
	}
	return s.P(a.v)
}
func (s *fstate) aDeep(a actual) Set { return s.deep(s.aObj(a)) }

func actuals(vs []ssa.Value) []actual {
	out := make([]actual, len(vs))
	for i, v := range vs {
		out[i] = actual{v}
	}
	return out
}

func extFullName(g *ssa.Function) string {
	name := g.String()
	if g.Pkg != nil && g.Signature.Recv() == nil {
		name = g.Pkg.Pkg.Path() + "." + g.Name()
	}
	return name
}

func (s *fstate) call(instr ssa.Instruction, c *ssa.CallCommon, res ssa.Value, kind string) {
	args := c.Args
	var callees []*ssa.Function
	if c.IsInvoke() {
		// interface method: CHA by name (and arity) over every module method
		args = append([]ssa.Value{c.Value}, args...)
		for _, f := range s.a.byName[c.Method.Name()] {
			if len(f.Params) == len(args) {
				callees = append(callees, f)
			}
		}
		if len(callees) == 0 {
			s.unknownCall(instr, c.Method.FullName(), actuals(args), res)
			return
		}
		kind = "invoke"
	} else if b, ok := c.Value.(*ssa.Builtin); ok {
		s.builtin(instr, b.Name(), args, res)
		return
	} else if f := c.StaticCallee(); f != nil {
		callees = []*ssa.Function{f}
		if mc, ok := c.Value.(*ssa.MakeClosure); ok {
			args = append(append([]ssa.Value{}, args...), mc.Bindings...)
		}
	} else {
		// call through a function value: assumed pure (user comparator / predicate / callback)
		s.userFn()
		if res != nil && isRef(res.Type()) {
			s.setP(res, Set{G: true})
		}
		return
	}
	for _, f := range callees {
		g := origin(f)
		sum, ok := s.a.sums[g]
		if !ok {
			s.extCall(instr, g, args, res)
			continue
		}
		s.apply(instr, g, sum, actuals(args), res, kind)
	}
}

func (s *fstate) mapLoc(instr ssa.Instruction, l Loc, args []actual) Set {
	switch l.Kind {
	case 'P':
		if l.N < len(args) {
			return s.aObj(args[l.N])
		}
	case 'D':
		if l.N < len(args) {
			return s.aDeep(args[l.N])
		}
	case 'G':
		return Set{G: true}
	case 'F':
		return Set{s.fresh(instr): true}
	}
	return Set{}
}

func (s *fstate) apply(instr ssa.Instruction, g *ssa.Function, sum *Summary, args []actual, res ssa.Value, kind string) {
	s.inApply++
	for l := range sum.Writes {
		s.write(s.mapLoc(instr, l, args))
	}
	for l := range sum.IterW {
		s.iterWrite(s.mapLoc(instr, l, args))
	}
	for into, from := range sum.Captures {
		val := Set{}
		for f := range from {
			val.addAll(s.mapLoc(instr, f, args))
		}
		s.store(s.mapLoc(instr, into, args), val)
	}
	for n := range sum.IO {
		s.io(n)
	}
	if sum.UserFn {
		s.userFn()
	}
	for n := range sum.Unknown {
		s.unknown(n)
	}
	resUsed := res != nil && isRef(res.Type())
	if resUsed {
		out := Set{}
		for l := range sum.Returns {
			out.addAll(s.mapLoc(instr, l, args))
		}
		if sum.Returns[RF] {
			fl := s.fresh(instr)
			val := Set{}
			for l := range sum.FreshCnt {
				val.addAll(s.mapLoc(instr, l, args))
			}
			val.add(fl)
			if s.C(fl).addAll(val) {
				s.ch = true
			}
		}
		s.setP(res, out)
	}
	s.inApply--
	if s.rec {
		e := &Edge{Callee: g, Kind: kind, ResUsed: resUsed, Res: Set{}, ResDeep: Set{}}
		for _, a := range args {
			e.Args = append(e.Args, ArgSub{collapse(s.aObj(a)), collapse(s.aDeep(a))})
		}
		if resUsed {
			e.Res = collapse(s.P(res))
			e.ResDeep = collapse(s.deep(s.P(res)))
		}
		s.edges = append(s.edges, e)
	}
}

func (s *fstate) extCall(instr ssa.Instruction, g *ssa.Function, args []ssa.Value, res ssa.Value) {
	name := extFullName(g)
	if g.Synthetic == "package initializer" {
		// the initialiser of an imported non-module package, called from a module package's
		// initialiser: outside the model (it runs once, before any operation of the library)
		return
	}
	if e, ok := lookupStd(name); ok {
		s.a.usedStd[name] = true
		s.applyStd(instr, name, e, args, res)
		return
	}
	s.unknownCall(instr, name, actuals(args), res)
}

// applyStd interprets one entry of the reviewed standard-library table (stdlib.go).
func (s *fstate) applyStd(instr ssa.Instruction, name string, e stdEntry, args []ssa.Value, res ssa.Value) {
	if e.IO {
		s.io(name)
		return
	}
	for _, i := range e.WritesDeep {
		if i < len(args) {
			s.write(s.P(args[i]))
			s.write(s.deep(s.P(args[i])))
		}
	}
	for _, i := range e.Writes {
		if i < len(args) {
			s.write(s.P(args[i]))
		}
	}
	for _, i := range e.StoresFreshDeep {
		if i < len(args) {
			fl := Set{s.fresh(instr): true}
			s.store(s.P(args[i]), fl)
			s.store(s.deep(s.P(args[i])), fl)
		}
	}
	resRef := res != nil && isRef(res.Type())
	x := Set{}
	if e.ResFresh {
		x.add(s.fresh(instr))
	}
	for _, i := range e.ResAlias {
		if i < len(args) {
			x.addAll(s.P(args[i]))
		}
	}
	// references that the result object (or the in-place grown first argument) now holds
	val := Set{}
	for _, i := range e.ResHolds {
		if i < len(args) {
			val.addAll(s.P(args[i]))
			val.addAll(s.deep(s.P(args[i])))
		}
	}
	for _, i := range e.ResHoldsElems {
		if i < len(args) {
			val.addAll(s.elems(args[i]))
		}
	}
	if len(val) > 0 {
		s.store(x, val)
	}
	if resRef {
		s.setP(res, x)
	}
}

func (s *fstate) unknownCall(instr ssa.Instruction, name string, args []actual, res ssa.Value) {
	s.unknown(name)
	// an unknown callee may write everything reachable from its reference arguments and may store
	// any of them (or a global) into any of them or into a global
	all := Set{G: true}
	var refs []Set
	for _, a := range args {
		if a.v == nil || isRef(a.v.Type()) {
			x := Set{}
			x.addAll(s.aObj(a))
			x.addAll(s.aDeep(a))
			refs = append(refs, x)
			all.addAll(x)
		}
	}
	for _, x := range refs {
		s.write(x)
		s.store(x, all)
	}
	if len(refs) > 0 {
		s.store(Set{G: true}, all)
	}
	if res != nil && isRef(res.Type()) {
		s.setP(res, Set{G: true})
	}
}

func (s *fstate) builtin(instr ssa.Instruction, name string, args []ssa.Value, res ssa.Value) {
	switch name {
	case "append":
		x := Set{s.fresh(instr): true}
		x.addAll(s.P(args[0]))
		// in-place append writes the backing array of args[0]
		s.write(s.P(args[0]))
		// the old elements move into the (possibly new) backing array
		val := s.elems(args[0])
		if len(args) > 1 {
			// elements copied into result backing array
			val.addAll(s.elems(args[1]))
		}
		s.store(x, val)
		s.setP(res, x)
	case "copy":
		s.write(s.P(args[0]))
		s.store(s.P(args[0]), s.elems(args[1]))
	case "delete", "clear":
		s.write(s.P(args[0]))
	case "len", "cap", "min", "max", "real", "imag", "complex":
	case "print", "println":
		s.io(name)
	case "panic", "recover":
		if res != nil && isRef(res.Type()) {
			s.setP(res, Set{G: true})
		}
	case "close":
		s.write(s.P(args[0]))
	default:
		s.unknownCall(instr, "builtin."+name, actuals(args), res)
	}
}

func (s *fstate) run() {
	fn := s.fn
	for i, p := range fn.Params {
		if isRef(p.Type()) {
			s.P(p).add(Loc{'P', i})
		}
	}
	for iter := 0; iter < 50; iter++ {
		s.ch = false
		s.sweep()
		if !s.ch {
			return
		}
	}
	fmt.Fprintf(os.Stderr, "effects: internal error: no local fixpoint in %s\n", s.fn)
	os.Exit(2)
}

func (s *fstate) sweep() {
	for _, b := range s.fn.Blocks {
		for _, in := range b.Instrs {
			s.instr(in)
		}
	}
}

// elems: the references held by the elements of the slice value v -- none when the element type
// carries no reference (typing rules T and C: a []T has nothing behind it).
func (s *fstate) elems(v ssa.Value) Set {
	if !pointeeHasRefs(v.Type()) {
		return Set{}
	}
	return s.deep(s.P(v))
}

// load: what a dereference / element read of x yields.
func (s *fstate) load(x Set) Set {
	out := Set{}
	for l := range x {
		out.addAll(s.C(l))
	}
	return out
}

func (s *fstate) instr(in ssa.Instruction) {
	curInstr = in
	s.operands(in)
	switch v := in.(type) {
	case *ssa.Alloc:
		s.setP(v, Set{s.fresh(v): true})
	case *ssa.MakeSlice:
		s.setP(v, Set{s.fresh(v): true})
	case *ssa.MakeMap:
		s.setP(v, Set{s.fresh(v): true})
	case *ssa.MakeChan:
		s.setP(v, Set{s.fresh(v): true})
	case *ssa.MakeClosure:
		x := Set{}
		for _, b := range v.Bindings {
			x.addAll(s.P(b))
		}
		s.setP(v, x)
		s.closureCreated(v)
	case *ssa.MakeInterface:
		if _, opaque := types.Unalias(v.X.Type()).(*types.TypeParam); opaque {
			// rule (T) holds only while the value keeps its type-parameter type: behind an interface
			// it can be inspected (type assertion, reflection), so it becomes an unknown reference
			s.setP(v, Set{G: true})
		} else {
			s.setP(v, s.P(v.X))
		}
	case *ssa.FieldAddr:
		s.setP(v, s.P(v.X))
	case *ssa.IndexAddr:
		s.setP(v, s.P(v.X))
	case *ssa.Field:
		s.setP(v, s.P(v.X))
	case *ssa.Index:
		s.setP(v, s.P(v.X))
	case *ssa.Slice:
		s.setP(v, s.P(v.X))
	case *ssa.ChangeType:
		s.setP(v, s.P(v.X))
	case *ssa.Convert:
		switch {
		case isRef(v.X.Type()):
			s.setP(v, s.P(v.X))
		case isString(v.X.Type()):
			s.setP(v, Set{s.fresh(v): true}) // string -> []byte / []rune: a fresh copy
		default:
			s.setP(v, Set{G: true}) // e.g. uintptr -> unsafe.Pointer: a forged, unknown reference
		}
	case *ssa.MultiConvert:
		s.setP(v, s.P(v.X))
	case *ssa.ChangeInterface:
		s.setP(v, s.P(v.X))
	case *ssa.TypeAssert:
		s.setP(v, s.P(v.X))
	case *ssa.SliceToArrayPointer:
		s.setP(v, s.P(v.X))
	case *ssa.Phi:
		for _, e := range v.Edges {
			s.setP(v, s.P(e))
		}
	case *ssa.Extract:
		s.setP(v, s.P(v.Tuple))
	case *ssa.UnOp:
		if v.Op == token.MUL || v.Op == token.ARROW {
			if isRef(v.Type()) {
				s.setP(v, s.load(s.P(v.X)))
			}
		}
	case *ssa.Store:
		tg := s.P(v.Addr)
		if isIterAddr(v.Addr) {
			s.iterWrite(tg) // typing rule (I)
		} else {
			s.write(tg)
		}
		if isRef(v.Val.Type()) {
			s.store(tg, s.P(v.Val))
		}
	case *ssa.MapUpdate:
		tg := s.P(v.Map)
		s.write(tg)
		val := Set{}
		val.addAll(s.P(v.Key))
		val.addAll(s.P(v.Value))
		s.store(tg, val)
	case *ssa.Send:
		tg := s.P(v.Chan)
		s.write(tg)
		if isRef(v.X.Type()) {
			s.store(tg, s.P(v.X))
		}
	case *ssa.Lookup:
		if isRef(v.Type()) {
			s.setP(v, s.load(s.P(v.X)))
		}
	case *ssa.Range:
		s.setP(v, s.P(v.X))
	case *ssa.Next:
		s.setP(v, s.load(s.P(v.Iter)))
	case *ssa.Select:
		// receives yield channel contents, sends store into channels
		x := Set{}
		for _, st := range v.States {
			if st.Send != nil {
				s.write(s.P(st.Chan))
				if isRef(st.Send.Type()) {
					s.store(s.P(st.Chan), s.P(st.Send))
				}
			} else {
				x.addAll(s.load(s.P(st.Chan)))
			}
		}
		s.setP(v, x)
	case *ssa.Call:
		s.call(v, &v.Call, v, "call")
	case *ssa.Defer:
		s.call(v, &v.Call, nil, "defer")
	case *ssa.Go:
		s.call(v, &v.Call, nil, "go")
	case *ssa.Return:
		for _, r := range v.Results {
			if !isRef(r.Type()) {
				continue
			}
			for l := range s.P(r) {
				if l.Kind == 'F' {
					if s.sum.Returns.add(RF) {
						s.ch = true
					}
					for c := range s.deepIncl(l) {
						if c.Kind != 'F' {
							if s.sum.FreshCnt.add(c) {
								s.ch = true
							}
						}
					}
				} else if s.sum.Returns.add(l) {
					s.ch = true
				}
			}
		}
	case *ssa.BinOp, *ssa.If, *ssa.Jump, *ssa.Panic, *ssa.DebugRef, *ssa.RunDefers:
	default:
		// an instruction kind this analysis does not know: its result is an unknown reference
		if val, ok := in.(ssa.Value); ok && isRef(val.Type()) {
			s.setP(val, Set{G: true})
		}
		s.unknown(fmt.Sprintf("instruction %T", in))
	}
}

// operands: mentions of os.Stdout / os.Stderr are I/O; a module function used as a *value* (not in
// call position) may be called by whoever receives it, with unknown arguments.
func (s *fstate) operands(in ssa.Instruction) {
	var callee *ssa.Value
	switch c := in.(type) {
	case ssa.CallInstruction:
		callee = &c.Common().Value
	case *ssa.MakeClosure:
		callee = &c.Fn
	}
	var buf [8]*ssa.Value
	for _, op := range in.Operands(buf[:0]) {
		if op == nil || *op == nil {
			continue
		}
		switch x := (*op).(type) {
		case *ssa.Global:
			if x.Pkg != nil && x.Pkg.Pkg.Path() == "os" && (x.Name() == "Stdout" || x.Name() == "Stderr") {
				s.io("os." + x.Name())
			}
		case *ssa.Function:
			if op == callee {
				continue
			}
			g := origin(x)
			if sum, ok := s.a.sums[g]; ok {
				args := make([]actual, len(g.Params)+len(g.FreeVars))
				s.apply(in, g, sum, args, nil, "funcvalue")
			}
		}
	}
}

// closureCreated: creating a closure of a module function counts as calling it (any number of
// times) with unknown actual parameters and the bound variables as the extra parameters.
func (s *fstate) closureCreated(v *ssa.MakeClosure) {
	fn, _ := v.Fn.(*ssa.Function)
	if fn == nil {
		return
	}
	g := origin(fn)
	sum, ok := s.a.sums[g]
	if !ok {
		s.unknownCall(v, "closure of "+extFullName(g), actuals(v.Bindings), nil)
		return
	}
	args := make([]actual, len(g.Params))
	args = append(args, actuals(v.Bindings)...)
	s.apply(v, g, sum, args, nil, "closure")
}

// isIterAddr: typing rule (I) -- the address is (a path of fields / array elements inside) an object
// of a named type called Iterator.
func isIterAddr(a ssa.Value) bool {
	for {
		switch x := a.(type) {
		case *ssa.FieldAddr:
			t := x.X.Type()
			if p, ok := t.Underlying().(*types.Pointer); ok {
				if n, ok := types.Unalias(p.Elem()).(*types.Named); ok && n.Obj().Name() == "Iterator" {
					return true
				}
			}
			a = x.X
			continue
		case *ssa.IndexAddr:
			if p, ok := x.X.Type().Underlying().(*types.Pointer); ok {
				if _, ok := p.Elem().Underlying().(*types.Array); ok {
					a = x.X
					continue
				}
			}
		}
		return false
	}
}

// fixpoint iterates the summaries of all functions to a global fixpoint; returns the number of rounds.
func (a *analyzer) fixpoint() int {
	for _, f := range a.funcs {
		a.sums[f] = newSummary()
	}
	rounds := 0
	for {
		rounds++
		any := false
		for _, f := range a.funcs {
			st := a.newState(f, a.sums[f])
			before := a.sums[f].key()
			st.run()
			if before != a.sums[f].key() {
				any = true
			}
		}
		if !any {
			return rounds
		}
		if rounds > 100 {
			fmt.Fprintln(os.Stderr, "effects: internal error: no global fixpoint after 100 rounds")
			os.Exit(2)
		}
	}
}

func (a *analyzer) newState(f *ssa.Function, sum *Summary) *fstate {
	return &fstate{a: a, fn: f, pts: map[ssa.Value]Set{}, cont: map[Loc]Set{}, site: map[ssa.Instruction]int{}, sum: sum}
}

// FuncResult: what the final pass produces for one function.
type FuncResult struct {
	Fn      *ssa.Function
	Direct  *Summary
	Edges   []*Edge
	Summary *Summary
}

// finalPass re-analyses every function from scratch against the final callee summaries, checks that
// this reproduces the fixpoint summary, and records direct effects and call edges.
func (a *analyzer) finalPass() []*FuncResult {
	var out []*FuncResult
	for _, f := range a.funcs {
		sum := newSummary()
		st := a.newState(f, sum)
		st.run()
		if sum.key() != a.sums[f].key() {
			fmt.Fprintf(os.Stderr, "effects: internal error: summary of %s not reproduced:\n  fixpoint %s\n  final    %s\n", f, a.sums[f].key(), sum.key())
			os.Exit(2)
		}
		st.rec = true
		st.direct = newSummary()
		st.ch = false
		st.sweep()
		if st.ch {
			fmt.Fprintf(os.Stderr, "effects: internal error: recording sweep changed the state of %s\n", f)
			os.Exit(2)
		}
		// returns / fresh_content are intra-procedural facts about the final points-to sets
		st.direct.Returns = sum.Returns
		st.direct.FreshCnt = sum.FreshCnt
		// deduplicate and order the edges
		seen := map[string]bool{}
		var es []*Edge
		for _, e := range st.edges {
			k := fname(e.Callee) + "#" + e.key()
			if !seen[k] {
				seen[k] = true
				es = append(es, e)
			}
		}
		sort.SliceStable(es, func(i, j int) bool {
			ni, nj := fname(es[i].Callee), fname(es[j].Callee)
			if ni != nj {
				return ni < nj
			}
			return es[i].key() < es[j].key()
		})
		out = append(out, &FuncResult{Fn: f, Direct: st.direct, Edges: es, Summary: sum})
	}
	return out
}
