package main

func assembleJSON(args []string) int { return 2 }
