package main

// effects json: assemble the JSON object that run.sh prints, from the outputs of coqc.

import (
	"encoding/json"
	"flag"
	"fmt"
	"os"
	"regexp"
	"strconv"
	"strings"
)

type Detail struct {
	Function string `json:"function"`
	Closure  string `json:"closure"`
}

type Obligation struct {
	Name       string   `json:"name"`
	OK         bool     `json:"ok"`
	Offenders  []string `json:"offenders"`
	DomainSize int      `json:"domain_size"`
	Details    []Detail `json:"details,omitempty"`
}

type Assumption struct {
	Theorem string `json:"theorem"`
	File    string `json:"file"`
	Output  string `json:"output"`
	Closed  bool   `json:"closed"`
}

type Info struct {
	Count int      `json:"count"`
	Items []string `json:"items,omitempty"`
}

type Result struct {
	Repo          string           `json:"repo"`
	Functions     int              `json:"functions"`
	Obligations   []*Obligation    `json:"obligations"`
	AllOK         bool             `json:"all_ok"`
	CheckCompiled bool             `json:"check_compiled"`
	CheckError    string           `json:"check_error,omitempty"`
	Assumptions   []Assumption     `json:"assumptions"`
	Info          map[string]*Info `json:"info"`
	WallS         float64          `json:"wall_s"`
}

func splitNames(s string) []string {
	if s == "" {
		return []string{}
	}
	return strings.Split(s, ";")
}

var printAssumptionsRe = regexp.MustCompile(`(?m)^\s*Print Assumptions\s+([A-Za-z0-9_']+)\s*\.`)

// assumptionBlocks pairs the "Print Assumptions X." commands of a .v file, in order, with the blocks
// coqc printed ("Closed under the global context" or "Axioms:" followed by indented lines).
func assumptionBlocks(srcPath, outPath string) []Assumption {
	src, err := os.ReadFile(srcPath)
	if err != nil {
		return nil
	}
	out, _ := os.ReadFile(outPath)
	var names []string
	for _, m := range printAssumptionsRe.FindAllStringSubmatch(string(src), -1) {
		names = append(names, m[1])
	}
	var blocks []string
	for _, line := range strings.Split(string(out), "\n") {
		switch {
		case strings.HasPrefix(line, "Closed under the global context"), strings.HasPrefix(line, "Axioms:"):
			blocks = append(blocks, line)
		case strings.HasPrefix(line, "File ") || strings.HasPrefix(line, "Error"):
			// a compilation error ends the assumption output
			goto done
		case len(blocks) > 0 && strings.TrimSpace(line) != "" && strings.HasPrefix(blocks[len(blocks)-1], "Axioms:"):
			blocks[len(blocks)-1] += "\n" + line
		}
	}
done:
	var res []Assumption
	base := srcPath[strings.LastIndex(srcPath, "/")+1:]
	for i, b := range blocks {
		if i >= len(names) {
			break
		}
		res = append(res, Assumption{Theorem: names[i], File: base, Output: b, Closed: b == "Closed under the global context"})
	}
	return res
}

func assembleJSON(args []string) int {
	fs := flag.NewFlagSet("json", flag.ExitOnError)
	repo := fs.String("repo", "", "analysed repository")
	wall := fs.Float64("wall", 0, "wall-clock seconds")
	report := fs.String("report", "", "output of coqc EffectsReport.v")
	check := fs.String("check", "", "output of coqc EffectsCheck.v")
	checkSrc := fs.String("check-src", "", "EffectsCheck.v")
	checkStatus := fs.Int("check-status", 0, "exit status of coqc EffectsCheck.v")
	model := fs.String("model", "", "saved output of coqc EffectModel.v")
	modelSrc := fs.String("model-src", "", "EffectModel.v")
	fs.Parse(args)

	data, err := os.ReadFile(*report)
	if err != nil {
		fmt.Fprintf(os.Stderr, "effects json: %v\n", err)
		return 2
	}
	text := string(data)
	b, e := strings.Index(text, "BEGIN-REPORT"), strings.Index(text, "END-REPORT")
	if b < 0 || e < b {
		fmt.Fprintln(os.Stderr, "effects json: no report in the output of EffectsReport.v")
		return 2
	}
	res := &Result{Repo: *repo, WallS: *wall, Info: map[string]*Info{}, AllOK: true, Assumptions: []Assumption{}}
	byName := map[string]*Obligation{}
	for _, line := range strings.Split(text[b:e], "\n") {
		f := strings.Split(strings.TrimRight(line, "\r"), "|")
		switch f[0] {
		case "OBL":
			if len(f) < 4 {
				continue
			}
			n, _ := strconv.Atoi(f[2])
			o := &Obligation{Name: f[1], DomainSize: n, Offenders: splitNames(f[3])}
			o.OK = len(o.Offenders) == 0
			if !o.OK {
				res.AllOK = false
			}
			res.Obligations = append(res.Obligations, o)
			byName[o.Name] = o
		case "DET":
			if len(f) < 4 {
				continue
			}
			if o := byName[f[1]]; o != nil {
				o.Details = append(o.Details, Detail{Function: f[2], Closure: strings.Join(f[3:], "|")})
			}
		case "INFO":
			if len(f) < 4 {
				continue
			}
			n, _ := strconv.Atoi(f[2])
			if f[1] == "functions" {
				res.Functions = n
				continue
			}
			res.Info[f[1]] = &Info{Count: n, Items: splitNames(f[3])}
		}
	}
	if len(res.Obligations) == 0 {
		fmt.Fprintln(os.Stderr, "effects json: the report lists no obligation")
		return 2
	}
	res.CheckCompiled = *checkStatus == 0
	if *modelSrc != "" {
		res.Assumptions = append(res.Assumptions, assumptionBlocks(*modelSrc, *model)...)
	}
	res.Assumptions = append(res.Assumptions, assumptionBlocks(*checkSrc, *check)...)
	if !res.CheckCompiled {
		out, _ := os.ReadFile(*check)
		lines := strings.Split(strings.TrimSpace(string(out)), "\n")
		for i, l := range lines {
			if strings.HasPrefix(l, "File ") {
				res.CheckError = strings.Join(lines[i:], "\n")
				break
			}
		}
	}
	enc := json.NewEncoder(os.Stdout)
	enc.SetEscapeHTML(false)
	if err := enc.Encode(res); err != nil {
		fmt.Fprintf(os.Stderr, "effects json: %v\n", err)
		return 2
	}
	// EffectsCheck.v and EffectsReport.v use the same predicates: they must agree
	if res.AllOK != res.CheckCompiled {
		fmt.Fprintf(os.Stderr, "effects json: internal error: report says all_ok=%v but EffectsCheck.v compiled=%v\n", res.AllOK, res.CheckCompiled)
		return 3
	}
	return 0
}
