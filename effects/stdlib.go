package main

import (
	"sort"
	"strings"
)

// The reviewed summary table for the standard-library functions the library calls.  It is part of
// the trusted base (README.md lists every entry).  Everything not listed here is an *unknown
// callee*: it is assumed to write every reference argument and everything reachable from it, to
// store any argument (or a global) into any argument or a global, to return a Global reference,
// and it is listed in the `unknown` component of every transitive caller.
type stdEntry struct {
	IO              bool  // writes to stdout / stderr
	Writes          []int // writes the object argument i refers to (e.g. a slice's backing array)
	WritesDeep      []int // writes argument i's object and everything reachable from it
	StoresFreshDeep []int // may store freshly allocated memory into argument i / what it reaches
	ResFresh        bool  // the result may be freshly allocated memory
	ResAlias        []int // the result may be (a view of) argument i
	ResHolds        []int // the result object keeps argument i (and what it reaches)
	ResHoldsElems   []int // the result keeps the *elements* of slice argument i (shallow copy)
	Note            string
}

var fresh = stdEntry{ResFresh: true, Note: "pure; result (if a reference) is fresh"}

var stdTable = map[string]stdEntry{
	// pure functions: no write, no I/O, result fresh
	"fmt.Sprintf":             fresh,
	"fmt.Sprint":              fresh,
	"strings.Join":            fresh,
	"strings.Repeat":          fresh,
	"strings.TrimRight":       fresh,
	"strings.HasPrefix":       fresh,
	"strings.HasSuffix":       fresh,
	"encoding/json.Marshal":   fresh,
	"reflect.ValueOf":         fresh,
	"(reflect.Value).Pointer": fresh,
	"cmp.Compare":             fresh,
	"slices.Contains":         fresh,
	"slices.Index":            fresh,
	"bytes.Index":             fresh,
	"strconv.FormatInt":       fresh,
	"strconv.FormatUint":      fresh,
	"strconv.FormatFloat":     fresh,
	"strconv.FormatBool":      fresh,
	"(time.Time).After":       fresh,
	"(time.Time).Before":      fresh,
	"bytes.NewReader":         {ResFresh: true, Note: "fresh reader; a bytes.Reader never writes the slice it reads"},
	"fmt.Errorf":              fresh,
	"errors.New":              fresh,
	"strings.TrimLeft":        fresh,
	"strings.TrimSuffix":      fresh,
	"strings.TrimPrefix":      fresh,
	"strings.TrimSpace":       fresh,
	"strings.Trim":            fresh,
	"strings.Split":           fresh,
	"strings.Contains":        fresh,
	"strings.Index":           fresh,
	"strings.ToLower":         fresh,
	"strings.ToUpper":         fresh,
	"strings.Compare":         fresh,
	"strings.EqualFold":       fresh,
	"strconv.Itoa":            fresh,
	"strconv.Quote":           fresh,
	"strconv.Atoi":            fresh,
	"slices.IndexFunc":        fresh,
	"slices.ContainsFunc":     fresh,
	"slices.Equal":            fresh,
	"slices.BinarySearch":     fresh,
	"slices.BinarySearchFunc": fresh,
	"slices.Max":              fresh,
	"slices.Min":              fresh,
	"math/bits.Len":           fresh,
	"math/bits.Len64":         fresh,
	"math/bits.LeadingZeros":  fresh,
	"math/bits.TrailingZeros": fresh,
	"encoding/json.Valid":     fresh,

	// I/O
	"fmt.Println": {IO: true},
	"fmt.Printf":  {IO: true},
	"fmt.Print":   {IO: true},
	// plus every function of package log and every method of *log.Logger (prefix rule in lookupStd)

	// copies
	"slices.Clone":    {ResFresh: true, ResHoldsElems: []int{0}, Note: "fresh backing array holding the elements of argument 0"},
	"bytes.NewBuffer": {ResFresh: true, ResHolds: []int{0}, Note: "fresh buffer that takes ownership of argument 0"},

	// in-place mutators
	"slices.Reverse":          {WritesDeep: []int{0}},
	"sort.Slice":              {WritesDeep: []int{0}},
	"sort.Ints":               {WritesDeep: []int{0}},
	"sort.Strings":            {WritesDeep: []int{0}},
	"slices.Grow":             {ResFresh: true, ResAlias: []int{0}, Note: "returns its argument when the capacity suffices"},
	// formatted output into a writer the caller supplies: writes that writer (os.Stdout / os.Stderr as
	// the writer is recorded as I/O by the reference to the global itself)
	"fmt.Fprintf":             {WritesDeep: []int{0}},
	"fmt.Fprint":              {WritesDeep: []int{0}},
	"fmt.Fprintln":            {WritesDeep: []int{0}},
	"slices.Sort":             {WritesDeep: []int{0}},
	"slices.SortFunc":         {WritesDeep: []int{0}},
	"slices.Insert":           {Writes: []int{0}, ResFresh: true, ResAlias: []int{0}, ResHoldsElems: []int{2}, Note: "grows in place or reallocates, like append"},
	"slices.Delete":           {Writes: []int{0}, ResFresh: true, ResAlias: []int{0}},
	"encoding/json.Unmarshal": {WritesDeep: []int{1}, StoresFreshDeep: []int{1}, Note: "decodes into argument 1"},

	// streaming decoder (LinkedHashMap.FromJSON)
	"encoding/json.NewDecoder":        {ResFresh: true, ResHolds: []int{0}},
	"(*encoding/json.Decoder).Token":  {WritesDeep: []int{0}, ResFresh: true},
	"(*encoding/json.Decoder).More":   {WritesDeep: []int{0}},
	"(*encoding/json.Decoder).Decode": {WritesDeep: []int{0, 1}, StoresFreshDeep: []int{1}},
	// plus every method of *bytes.Buffer (prefix rule): writes the receiver, result may alias it
}

var bufferMethod = stdEntry{Writes: []int{0}, ResAlias: []int{0}, Note: "any method of *bytes.Buffer / *strings.Builder: writes the receiver; a reference result aliases the receiver"}
var logEntry = stdEntry{IO: true, Note: "every function of package log and every method of *log.Logger"}

func lookupStd(name string) (stdEntry, bool) {
	if e, ok := stdTable[name]; ok {
		return e, true
	}
	switch {
	case strings.HasPrefix(name, "(*bytes.Buffer)."), strings.HasPrefix(name, "(*strings.Builder)."):
		return bufferMethod, true
	case strings.HasPrefix(name, "log.") || strings.HasPrefix(name, "(*log.Logger)."):
		return logEntry, true
	}
	return stdEntry{}, false
}

func stdNames() []string {
	var xs []string
	for k := range stdTable {
		xs = append(xs, k)
	}
	sort.Strings(xs)
	return xs
}
