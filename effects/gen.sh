#!/bin/bash
# gen.sh [repo-dir]: (re)generate /verif/coq/theories/Effects/EffectsGen.v from the Go source
# (default /repo).  EffectsGen.v is generated, never committed; coq/build.sh compiles every .v under
# theories/, so run this before building the Coq development.  COQ_THEORIES overrides the target root.
set -euo pipefail
. "$(dirname "$0")/env.sh"
repo="${1:-/repo}"
build_tool
generate "$repo" "$COQ_THEORIES"
