package main

// API classification (DESIGN.md Appendix B.4) and emission of EffectsGen.v.

import (
	"fmt"
	"go/token"
	"go/types"
	"sort"
	"strings"

	"golang.org/x/tools/go/ssa"
)

// Name tables of Appendix B.4 (non-iterator types).  Every method of a type named Iterator is
// classified as an iterator method and needs no table.
var readonlyNames = []string{
	"Get", "GetKey", "GetNode", "Contains", "IndexOf", "Peek", "Size", "Empty", "Full", "Values", "Keys",
	"String", "ToJSON", "MarshalJSON", "Floor", "Ceiling", "Min", "Max", "Left", "Right", "LeftKey", "RightKey",
	"LeftValue", "RightValue", "Height", "Iterator", "IteratorAt", "Each", "Any", "All", "Find", "Select", "Map",
	"Intersection", "Union", "Difference",
	"Next", "Prev", // node methods
}
var mutatorNames = []string{
	"Add", "Append", "Prepend", "Insert", "Set", "Remove", "Clear", "Sort", "Swap", "Put", "Push", "Pop",
	"Enqueue", "Dequeue", "FromJSON", "UnmarshalJSON",
}
var snapshotNames = []string{"Values", "Keys"}

const hookPrefix = "Verif"

func inList(xs []string, x string) bool {
	for _, y := range xs {
		if x == y {
			return true
		}
	}
	return false
}

type FnInfo struct {
	R           *FuncResult
	ID          int
	Name        string
	NParams     int
	SliceParams []int
	IterParams  []int // parameters whose static type mentions a type named Iterator
	Exported    bool
	Method      bool
	IterMethod  bool
	Variadic    bool
	Pkg         string
}

// mentionsIterator: the type expression mentions (without looking through other named types) a
// named type called Iterator -- the same name test as typing rule (I) in isIterAddr.
func mentionsIterator(t types.Type) bool {
	m := map[string]bool{}
	mentions(t, m, map[types.Type]bool{})
	for n := range m {
		if strings.HasSuffix(n, ".Iterator") {
			return true
		}
	}
	return false
}

func recvNamed(f *ssa.Function) *types.Named {
	recv := f.Signature.Recv()
	if recv == nil {
		return nil
	}
	t := types.Unalias(recv.Type())
	if p, ok := t.(*types.Pointer); ok {
		t = types.Unalias(p.Elem())
	}
	n, _ := t.(*types.Named)
	return n
}

func describe(r *FuncResult, id int) *FnInfo {
	f := r.Fn
	fi := &FnInfo{R: r, ID: id, Name: fname(f), NParams: len(f.Params) + len(f.FreeVars)}
	if f.Pkg != nil {
		fi.Pkg = relPkg(f.Pkg.Pkg.Path())
	} else if o := f.Object(); o != nil && o.Pkg() != nil {
		fi.Pkg = relPkg(o.Pkg().Path())
	}
	for i, p := range f.Params {
		if _, ok := p.Type().Underlying().(*types.Slice); ok {
			fi.SliceParams = append(fi.SliceParams, i)
		}
	}
	for i := 0; i < fi.NParams; i++ {
		var t types.Type
		if i < len(f.Params) {
			t = f.Params[i].Type()
		} else {
			t = f.FreeVars[i-len(f.Params)].Type()
		}
		if mentionsIterator(t) {
			fi.IterParams = append(fi.IterParams, i)
		}
	}
	if f.Parent() != nil || f.Synthetic != "" {
		return fi // anonymous functions and package initialisers are not API
	}
	fi.Exported = token.IsExported(f.Name())
	fi.Variadic = f.Signature.Variadic()
	if n := recvNamed(f); n != nil {
		fi.Method = true
		fi.IterMethod = n.Obj().Name() == "Iterator"
	}
	return fi
}

type Classification struct {
	Exported, Readonly, Snapshot, Variadic, Iterator, Mutator, Unclassified, Inits, Hooks []int
}

func classify(fns []*FnInfo) *Classification {
	c := &Classification{}
	for _, fi := range fns {
		if fi.R.Fn.Synthetic == "package initializer" {
			c.Inits = append(c.Inits, fi.ID)
		}
		if !fi.Exported {
			continue
		}
		name := fi.R.Fn.Name()
		c.Exported = append(c.Exported, fi.ID)
		if fi.Variadic {
			c.Variadic = append(c.Variadic, fi.ID)
		}
		switch {
		case fi.IterMethod:
			c.Iterator = append(c.Iterator, fi.ID)
			c.Readonly = append(c.Readonly, fi.ID)
		case fi.Method && strings.HasPrefix(name, hookPrefix):
			// observation hooks of the verification harness (files built with -tags=verif): they are
			// called by the concurrent-reader probes, so they must be read-only and silent
			c.Hooks = append(c.Hooks, fi.ID)
			c.Readonly = append(c.Readonly, fi.ID)
		case fi.Method:
			ro, mu := inList(readonlyNames, name), inList(mutatorNames, name)
			if ro {
				c.Readonly = append(c.Readonly, fi.ID)
			}
			if mu {
				c.Mutator = append(c.Mutator, fi.ID)
			}
			if !ro && !mu {
				c.Unclassified = append(c.Unclassified, fi.ID)
			}
			if inList(snapshotNames, name) {
				c.Snapshot = append(c.Snapshot, fi.ID)
			}
		default:
			if fi.Pkg == "containers" && strings.HasPrefix(name, "GetSortedValues") {
				c.Readonly = append(c.Readonly, fi.ID)
				c.Snapshot = append(c.Snapshot, fi.ID)
			}
		}
	}
	return c
}

// ---------- Coq syntax ----------
func coqString(s string) string { return `"` + strings.ReplaceAll(s, `"`, `""`) + `"` }

func coqLoc(l Loc) string {
	switch l.Kind {
	case 'F':
		return "Fresh"
	case 'P':
		return fmt.Sprintf("ParamObj %d", l.N)
	case 'D':
		return fmt.Sprintf("ParamDeep %d", l.N)
	}
	return "Global"
}

func coqList(xs []string) string { return "[" + strings.Join(xs, "; ") + "]" }

func coqSet(s Set) string {
	var xs []string
	for _, l := range s.sorted() {
		xs = append(xs, coqLoc(l))
	}
	return coqList(xs)
}

func coqStrings(xs []string) string {
	var ys []string
	for _, x := range xs {
		ys = append(ys, coqString(x))
	}
	return coqList(ys)
}

func coqInts(xs []int) string {
	var ys []string
	for _, x := range xs {
		ys = append(ys, fmt.Sprint(x))
	}
	return coqList(ys)
}

func coqBool(b bool) string {
	if b {
		return "true"
	}
	return "false"
}

func coqKind(k string) string {
	switch k {
	case "call":
		return "KCall"
	case "invoke":
		return "KInvoke"
	case "go":
		return "KGo"
	case "defer":
		return "KDefer"
	case "closure":
		return "KClosure"
	case "funcvalue":
		return "KFuncValue"
	}
	panic("edge kind " + k)
}

func coqEff(s *Summary) string {
	var caps []string
	for _, c := range s.capPairs() {
		caps = append(caps, "("+coqLoc(c.Into)+", "+coqLoc(c.From)+")")
	}
	return fmt.Sprintf("(mkEff %s %s %s %s %s %s %s %s)", coqSet(s.Writes), coqSet(s.IterW), coqList(caps),
		coqSet(s.Returns), coqSet(s.FreshCnt), coqStrings(sortedKeys(s.IO)), coqBool(s.UserFn), coqStrings(sortedKeys(s.Unknown)))
}

func coqIDs(name string, ids []int, w *strings.Builder) {
	sort.Ints(ids)
	fmt.Fprintf(w, "Definition %s : list positive := [", name)
	for i, id := range ids {
		if i > 0 {
			w.WriteString("; ")
		}
		if i%16 == 0 {
			w.WriteString("\n  ")
		}
		fmt.Fprintf(w, "%d", id)
	}
	w.WriteString("]%positive.\n\n")
}

func emitCoq(world *World, res []*FuncResult) string {
	ids := map[*ssa.Function]int{}
	var fns []*FnInfo
	for i, r := range res {
		ids[r.Fn] = i + 1
		fns = append(fns, describe(r, i+1))
	}
	cl := classify(fns)

	var w strings.Builder
	w.WriteString("(* GENERATED by /verif/effects (effects gen) from the Go source -- do not edit, do not commit.\n")
	w.WriteString("   Regenerated on every run; an unchanged source gives a byte-identical file. *)\n")
	w.WriteString("From Coq Require Import List String PArith.\n")
	w.WriteString("From Gods Require Import Effects.EffectModel.\n")
	w.WriteString("Import ListNotations.\nLocal Open Scope string_scope.\nLocal Open Scope list_scope.\n\n")
	fmt.Fprintf(&w, "Definition function_count : nat := %d.\n\n", len(fns))

	w.WriteString("(* id -> stable name *)\nDefinition names : list (positive * string) := [\n")
	for i, fi := range fns {
		sep := ";"
		if i == len(fns)-1 {
			sep = ""
		}
		fmt.Fprintf(&w, "  (%d%%positive, %s)%s\n", fi.ID, coqString(fi.Name), sep)
	}
	w.WriteString("].\n\n")

	w.WriteString("(* per function: number of parameters (formals, then free variables), indices of the slice-typed\n")
	w.WriteString("   parameters, indices of the parameters whose type mentions an iterator type, DIRECT effects,\n")
	w.WriteString("   call edges with origin substitution, the tool's own summary *)\n")
	for _, fi := range fns {
		r := fi.R
		fmt.Fprintf(&w, "(* %s *)\nDefinition fn_%d : fn_entry := mkFn %d %s %s\n  %s\n  [", coqString(fi.Name), fi.ID, fi.NParams, coqInts(fi.SliceParams), coqInts(fi.IterParams), coqEff(r.Direct))
		for k, e := range r.Edges {
			if k > 0 {
				w.WriteString(";")
			}
			var args []string
			for _, a := range e.Args {
				args = append(args, "mkArg "+coqSet(a.Obj)+" "+coqSet(a.Deep))
			}
			fmt.Fprintf(&w, "\n   mkEdge %d%%positive %s %s %s %s %s", ids[e.Callee], coqKind(e.Kind), coqList(args), coqBool(e.ResUsed), coqSet(e.Res), coqSet(e.ResDeep))
		}
		fmt.Fprintf(&w, "]\n  %s.\n\n", coqEff(r.Summary))
	}
	w.WriteString("Definition effects : list (positive * fn_entry) := [\n")
	for i, fi := range fns {
		sep := ";"
		if i == len(fns)-1 {
			sep = ""
		}
		fmt.Fprintf(&w, "  (%d%%positive, fn_%d)%s\n", fi.ID, fi.ID, sep)
	}
	w.WriteString("].\n\n")

	w.WriteString("(* API classification by the name rules of DESIGN.md Appendix B.4, from the method sets *)\n")
	fmt.Fprintf(&w, "Definition readonly_names : list string := %s.\n", coqStrings(readonlyNames))
	fmt.Fprintf(&w, "Definition mutator_names : list string := %s.\n\n", coqStrings(mutatorNames))
	coqIDs("exported_api", cl.Exported, &w)
	coqIDs("readonly_api", cl.Readonly, &w)
	coqIDs("snapshot_api", cl.Snapshot, &w)
	coqIDs("variadic_api", cl.Variadic, &w)
	coqIDs("iterator_api", cl.Iterator, &w)
	coqIDs("mutator_api", cl.Mutator, &w)
	coqIDs("unclassified", cl.Unclassified, &w)
	coqIDs("hook_api", cl.Hooks, &w)
	coqIDs("package_inits", cl.Inits, &w)

	w.WriteString("(* rule (I): every named non-interface type of the module with the named types its definition mentions *)\n")
	w.WriteString("Definition type_mentions : list (string * list string) := [\n")
	for i, t := range world.types {
		sep := ";"
		if i == len(world.types)-1 {
			sep = ""
		}
		fmt.Fprintf(&w, "  (%s, %s)%s\n", coqString(t.Name), coqStrings(t.Mentions), sep)
	}
	w.WriteString("].\n\n")
	var its []string
	for _, t := range world.types {
		if t.Iterator {
			its = append(its, t.Name)
		}
	}
	fmt.Fprintf(&w, "Definition iterator_types : list string := %s.\n\n", coqStrings(its))
	w.WriteString("(* entries of the translator's standard-library summary table that this source uses *)\n")
	fmt.Fprintf(&w, "Definition stdlib_summaries_used : list string := %s.\n", coqStrings(sortedKeys(world.a.usedStd)))
	return w.String()
}
