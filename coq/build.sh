#!/bin/bash
# Full .vo build of the Coq development (never -vos). Usage: coq/build.sh [make targets/flags]
set -e
cd "$(dirname "$0")"
{
  echo "-Q theories Gods"
  echo "-arg -w -arg -notation-overridden,-deprecated-hint-without-locality,-deprecated-instance-without-locality"
  find theories -name '*.v' | LC_ALL=C sort
} > _CoqProject.new
if ! cmp -s _CoqProject.new _CoqProject 2>/dev/null || [ ! -f Makefile.coq ]; then
  mv _CoqProject.new _CoqProject
  coq_makefile -f _CoqProject -o Makefile.coq >/dev/null
else
  rm -f _CoqProject.new
fi
exec make -k -f Makefile.coq -j16 "$@"
