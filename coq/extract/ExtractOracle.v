(* Extraction of the property oracle (Oracle/Oracle.v) together with the machine, for
   coq/ocaml/oracle.  Same discipline as Extract.v: ExtrOcamlBasic only (bool, option, unit, list,
   prod, sumbool, sumor map to the OCaml types); Z / positive / nat stay the extracted inductives;
   no Extract Constant. *)
From Coq Require Import Extraction ExtrOcamlBasic.
From Gods Require Import Common.Cmp Model.Ops Model.Machine Oracle.Oracle.
Extraction Language OCaml.
Separate Extraction Oracle.oracle_vector Oracle.oracle_cost Oracle.oracle_cost_op
  Machine.init Machine.step Machine.observe.
