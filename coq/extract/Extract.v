(* Extraction of the executable machine to OCaml.  ExtrOcamlBasic only: bool, option, unit, list,
   prod, sumbool, sumor map to the OCaml types; Z / positive / nat stay the extracted inductives
   (no ExtrOcamlZInt, no Extract Constant of our own). *)
From Coq Require Import Extraction ExtrOcamlBasic.
From Gods Require Import Common.Cmp Model.Ops Model.Machine Spec.SeqSpec.
Extraction Language OCaml.
Separate Extraction Machine.init Machine.step Machine.observe Machine.run SeqSpec.sort_okb SeqSpec.sortedb SeqSpec.is_permb.
