#!/bin/bash
# Extract the property oracle (theories/Oracle/Oracle.v) and the machine, and build coq/ocaml/oracle.
# Needs the .vo files of the Coq development (coq/build.sh).  Uses its own directory gen_oracle/ and
# its own extraction file extract/ExtractOracle.v; does not touch gen/, driver or Extract.v.
set -e
cd "$(dirname "$0")"
rm -rf gen_oracle && mkdir -p gen_oracle && echo '*' > gen_oracle/.gitignore
( cd gen_oracle && coqc -Q ../../theories Gods ../../extract/ExtractOracle.v >/dev/null )
rm -f ../extract/ExtractOracle.vo ../extract/ExtractOracle.vok ../extract/ExtractOracle.vos ../extract/ExtractOracle.glob ../extract/.ExtractOracle.aux
cp oracle.ml gen_oracle/oracle_main.ml   # not oracle.ml: the extracted Oracle.v is module Oracle
cd gen_oracle
files=$(ocamlfind ocamldep -sort *.ml *.mli)
ocamlfind ocamlopt -O3 -w -a -o ../oracle $files 2>/dev/null || ocamlfind ocamlopt -w -a -o ../oracle $files
