#!/bin/bash
# In-Coq cross-check of the extraction (thorough tier).
#   crosscheck.sh <trace> <N> [--recorded]
# Writes the first N cases of the trace as Gallina literals (oracle --emit-coq), lets Coq replay them
# with vm_compute on Machine.init / step / observe (theories/Oracle/CrossCheck.v) and compares.
# Default: the expected values are those of the EXTRACTED OCaml machine replayed on the trace's H / O
# lines (extraction vs. vm_compute, independent of what the implementation did).  --recorded: the
# expected values are the R / X / V lines recorded in the trace (implementation vs. vm_compute).
# Prints "CROSSCHECK ok cases=N" and exits 0 iff Coq prints M = []; otherwise "CROSSCHECK mismatch",
# Coq's output, exit 1.  Needs coq/ocaml/oracle (build_oracle.sh) and the compiled theories.
set -u
here="$(cd "$(dirname "$0")" && pwd)"
if [ $# -lt 2 ]; then echo "usage: crosscheck.sh <trace> <N> [--recorded]" >&2; exit 2; fi
trace="$1"; n="$2"; mode="${3:-}"
[ -x "$here/oracle" ] || { echo "CROSSCHECK mismatch"; echo "missing $here/oracle (run build_oracle.sh)"; exit 1; }
[ -f "$here/../theories/Oracle/CrossCheck.vo" ] || { echo "CROSSCHECK mismatch"; echo "missing theories/Oracle/CrossCheck.vo"; exit 1; }
tmp="$(mktemp -d "${TMPDIR:-/tmp}/crosscheck.XXXXXX")"
trap 'rm -rf "$tmp"' EXIT
if ! emitted="$("$here/oracle" --emit-coq "$trace" "$n" "$tmp/out.v" $mode 2>&1)"; then
  echo "CROSSCHECK mismatch"; echo "$emitted"; exit 1
fi
cases="$(echo "$emitted" | sed -n 's/^emitted cases=\([0-9]*\).*/\1/p')"
out="$(cd "$tmp" && timeout "${CROSSCHECK_TIMEOUT:-1800}" coqc -Q "$here/../theories" Gods out.v 2>&1)"
status=$?
# the whole output must be exactly the printing of an empty list
flat="$(echo "$out" | tr -s ' \n' '  ' | sed 's/^ *//; s/ *$//')"
if [ $status -eq 0 ] && [ "$flat" = "M = [] : list (nat * Z * Z)" ]; then
  echo "CROSSCHECK ok cases=$cases"
  exit 0
fi
echo "CROSSCHECK mismatch"
echo "$out" | head -c 20000
exit 1
