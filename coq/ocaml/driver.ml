(* Replays traces recorded by the Go harness on the extracted Coq machine and reports every
   line on which model and implementation differ.  Hand-written, trusted glue: parser of the trace
   format of PROTOCOL.md, printer of observations, comparison.  No semantics lives here.

   usage: driver <trace-file> [--max-report N]
   output: one line per mismatch   M <case> <opindex> <what> model=<obs> impl=<obs> op=<op text>
           final line              S cases=<n> ops=<n> compared=<n> mismatches=<n> badcases=<n> *)
open BinNums
open Ops

module SL = Stdlib.List
module SS = Stdlib.String

(* ---------- integers ---------- *)
let rec pos_of_int (n : int) : positive =
  if n = 1 then Coq_xH
  else if n land 1 = 0 then Coq_xO (pos_of_int (n lsr 1))
  else Coq_xI (pos_of_int (n lsr 1))
let z_of_int (n : int) : coq_Z =
  if n = 0 then Z0 else if n > 0 then Zpos (pos_of_int n) else Zneg (pos_of_int (- n))
let z10 = z_of_int 10
(* decimal text of any length -> Z, exactly *)
let z_of_string (s : string) : coq_Z =
  let n = SS.length s in
  if n = 0 then failwith "empty integer" else
  let neg = s.[0] = '-' in
  let start = if neg || s.[0] = '+' then 1 else 0 in
  if n - start <= 17 then z_of_int (int_of_string s)
  else begin
    let acc = ref Z0 in
    for i = start to n - 1 do
      let d = Char.code s.[i] - 48 in
      if d < 0 || d > 9 then failwith ("bad integer " ^ s);
      acc := BinInt.Z.add (BinInt.Z.mul !acc z10) (z_of_int d)
    done;
    if neg then BinInt.Z.opp !acc else !acc
  end
let rec pos_to_int_opt (p : positive) (depth : int) : int option =
  if depth > 60 then None else
  match p with
  | Coq_xH -> Some 1
  | Coq_xO q -> (match pos_to_int_opt q (depth + 1) with Some v -> Some (2 * v) | None -> None)
  | Coq_xI q -> (match pos_to_int_opt q (depth + 1) with Some v -> Some (2 * v + 1) | None -> None)
let rec z_to_string (z : coq_Z) : string =
  match z with
  | Z0 -> "0"
  | Zneg p -> "-" ^ z_to_string (Zpos p)
  | Zpos p ->
    (match pos_to_int_opt p 0 with
     | Some v -> string_of_int v
     | None ->
       let (q, r) = BinInt.Z.div_eucl z z10 in
       z_to_string q ^ z_to_string r)

(* ---------- observations ---------- *)
let rec obs_to_buf (b : Buffer.t) (o : obs) : unit =
  match o with
  | OZ z -> Buffer.add_string b (z_to_string z)
  | OL l ->
    Buffer.add_char b '(';
    SL.iteri (fun i x -> if i > 0 then Buffer.add_char b ' '; obs_to_buf b x) l;
    Buffer.add_char b ')'
let obs_to_string (o : obs) : string =
  let b = Buffer.create 64 in obs_to_buf b o; Buffer.contents b

let tag_name (t : tag) : string =
  match t with
  | TSize -> "size" | TEmpty -> "empty" | TValues -> "values" | TKeys -> "keys" | TGet -> "get"
  | TGetKey -> "getkey" | TContains -> "contains" | TIndexOf -> "indexof" | TGetIdx -> "getidx"
  | TPeek -> "peek" | TFull -> "full" | TLeft -> "left" | TRight -> "right" | TFloor -> "floor"
  | TCeiling -> "ceiling" | THeight -> "height" | TShape -> "shape" | TRaw -> "raw" | TJson -> "json"
  | TIterF -> "iterf" | TIterB -> "iterb" | TCost -> "cost" | TSane -> "sane"

(* ---------- parsing of operations ---------- *)
let split_on (c : char) (s : string) : string list = if s = "" then [] else SS.split_on_char c s
let zlist (s : string) : coq_Z list =
  (* "[1,2,3]" or "[]" *)
  let n = SS.length s in
  if n < 2 || s.[0] <> '[' || s.[n - 1] <> ']' then failwith ("bad list " ^ s);
  SL.map z_of_string (split_on ',' (SS.sub s 1 (n - 2)))
let pairlist (s : string) : (coq_Z * coq_Z) list =
  let n = SS.length s in
  if n < 2 || s.[0] <> '[' || s.[n - 1] <> ']' then failwith ("bad pair list " ^ s);
  SL.map (fun p -> match SS.split_on_char ':' p with
      | [a; b] -> (z_of_string a, z_of_string b)
      | _ -> failwith ("bad pair " ^ p)) (split_on ',' (SS.sub s 1 (n - 2)))
let cmp_id (s : string) : Cmp.cmp_id =
  match s with
  | "CNat" -> Cmp.CNat | "CRev" -> Cmp.CRev | "CDiv3" -> Cmp.CDiv3 | "CAbs" -> Cmp.CAbs
  | _ -> failwith ("bad comparator " ^ s)
let pred_of (fields : string list) : pred =
  match fields with
  | ["PTrue"] -> PTrue | ["PFalse"] -> PFalse
  | ["PIdxMod"; a; b] -> PIdxMod (z_of_string a, z_of_string b)
  | ["PValLt"; c] -> PValLt (z_of_string c)
  | ["PValMod"; a; b] -> PValMod (z_of_string a, z_of_string b)
  | ["PSumMod"; a; b] -> PSumMod (z_of_string a, z_of_string b)
  | ["PKeyEq"; c] -> PKeyEq (z_of_string c)
  | _ -> failwith ("bad predicate " ^ SS.concat ":" fields)
let pred_s (s : string) : pred = pred_of (SS.split_on_char ':' s)
let mapf_s (s : string) : mapf =
  match SS.split_on_char ':' s with
  | ["FId"] -> FId | ["FConst"; c] -> FConst (z_of_string c) | ["FValPlus"; c] -> FValPlus (z_of_string c)
  | ["FValDiv"; c] -> FValDiv (z_of_string c) | ["FIdxPlusVal"] -> FIdxPlusVal | ["FSwapKV"] -> FSwapKV
  | ["FKeyDiv"; c] -> FKeyDiv (z_of_string c) | ["FKeyNeg"] -> FKeyNeg
  | _ -> failwith ("bad mapping function " ^ s)
let icall_s (s : string) : icall =
  match SS.split_on_char ':' s with
  | ["Next"] -> CNext | ["Prev"] -> CPrev | ["Begin"] -> CBegin | ["End"] -> CEnd
  | ["First"] -> CFirst | ["Last"] -> CLast
  | "NextTo" :: p -> CNextTo (pred_of p) | "PrevTo" :: p -> CPrevTo (pred_of p)
  | _ -> failwith ("bad iterator call " ^ s)
let script (s : string) : icall list =
  let n = SS.length s in
  if n < 2 || s.[0] <> '[' || s.[n - 1] <> ']' then failwith ("bad script " ^ s);
  SL.map icall_s (split_on ',' (SS.sub s 1 (n - 2)))

let parse_op (words : string list) : op =
  match words with
  | ["Add"; vs] -> Add (zlist vs) | ["Append"; vs] -> Append (zlist vs) | ["Prepend"; vs] -> Prepend (zlist vs)
  | ["Insert"; i; vs] -> Insert (z_of_string i, zlist vs)
  | ["Set"; i; v] -> SetAt (z_of_string i, z_of_string v)
  | ["RemoveAt"; i] -> RemoveAt (z_of_string i)
  | ["Swap"; i; j] -> Swap (z_of_string i, z_of_string j)
  | ["Sort"; c; res] -> Sort (cmp_id c, zlist res)
  | ["RemoveVals"; vs] -> RemoveVals (zlist vs)
  | ["Push"; v] -> Push (z_of_string v) | ["PushAll"; vs] -> PushAll (zlist vs) | ["Pop"] -> Pop
  | ["Enqueue"; v] -> Enqueue (z_of_string v) | ["Dequeue"] -> Dequeue
  | ["Put"; k; v] -> Put (z_of_string k, z_of_string v) | ["Remove"; k] -> Remove (z_of_string k)
  | ["Clear"] -> Clear
  | ["FromJSON"; "DErr"] -> FromJSON DErr | ["FromJSON"; "DNull"] -> FromJSON DNull
  | ["FromJSON"; "DArr"; vs] -> FromJSON (DArr (zlist vs))
  | ["FromJSON"; "DObj"; kvs] -> FromJSON (DObj (pairlist kvs))
  | ["Iter"; s] -> Iter (script s)
  | ["Each"] -> Each | ["Any"; p] -> AnyP (pred_s p) | ["All"; p] -> AllP (pred_s p) | ["Find"; p] -> FindP (pred_s p)
  | ["Select"; p] -> SelectP (pred_s p) | ["Map"; f] -> MapF (mapf_s f)
  | ["Inter"; b] -> Inter (zlist b) | ["Union"; b] -> Union (zlist b) | ["Diff"; b] -> Diff (zlist b)
  | ["InterSelf"] -> InterSelf | ["UnionSelf"] -> UnionSelf | ["DiffSelf"] -> DiffSelf
  | ["SortedValues"] -> SortedValues
  | ["SortedValuesFunc"; c; res] -> SortedValuesFunc (cmp_id c, zlist res)
  | _ -> failwith ("bad operation: " ^ SS.concat " " words)

let kind_of (s : string) : kind =
  match s with
  | "ArrayList" -> ArrayList | "SinglyLinkedList" -> SinglyLinkedList | "DoublyLinkedList" -> DoublyLinkedList
  | "HashSet" -> HashSet | "TreeSet" -> TreeSet | "LinkedHashSet" -> LinkedHashSet
  | "ArrayStack" -> ArrayStack | "LinkedListStack" -> LinkedListStack
  | "HashMap" -> HashMap | "TreeMap" -> TreeMap | "LinkedHashMap" -> LinkedHashMap
  | "HashBidiMap" -> HashBidiMap | "TreeBidiMap" -> TreeBidiMap
  | "RedBlackTree" -> RedBlackTree | "AVLTree" -> AVLTree | "BTree" -> BTree | "BinaryHeap" -> BinaryHeap
  | "ArrayQueue" -> ArrayQueue | "LinkedListQueue" -> LinkedListQueue | "CircularBuffer" -> CircularBuffer
  | "PriorityQueue" -> PriorityQueue
  | _ -> failwith ("bad kind " ^ s)

let field (words : string list) (name : string) : string =
  let pre = name ^ "=" in
  let pl = SS.length pre in
  match SL.find_opt (fun w -> SS.length w >= pl && SS.sub w 0 pl = pre) words with
  | Some w -> SS.sub w pl (SS.length w - pl)
  | None -> failwith ("missing header field " ^ name)

(* ---------- replay ---------- *)
let max_report = ref 200
let emit = ref false   (* --emit: print the model's own trace instead of comparing *)
let reported = ref 0
let mismatches = ref 0
let compared = ref 0
let cases = ref 0
let ops = ref 0
let badcases = ref 0

let () =
  let file = ref "" in
  let args = Array.to_list Sys.argv in
  let rec go = function
    | "--max-report" :: n :: rest -> max_report := int_of_string n; go rest
    | "--emit" :: rest -> emit := true; go rest
    | f :: rest -> file := f; go rest
    | [] -> () in
  go (SL.tl args);
  let ic = if !file = "-" || !file = "" then stdin else open_in !file in
  let case_id = ref "" in
  let cfg = ref None in
  let level = ref Z0 in
  let st = ref None in                                  (* current model state *)
  let vec : (string * string) list ref = ref [] in      (* model's observation vector, as text *)
  let seen_tags : string list ref = ref [] in
  let cur_res = ref "" and cur_extra = ref "" in
  let opidx = ref (-1) in
  let optext = ref "" in
  let case_bad = ref false in
  let report what model impl =
    incr mismatches; case_bad := true;
    if !reported < !max_report then begin
      incr reported;
      Printf.printf "M %s %d %s model=%s impl=%s op=%s\n" !case_id !opidx what model impl !optext
    end in
  let flush_vec () =
    (* every component the model has must have been printed by the implementation *)
    SL.iter (fun (t, o) -> if not (SL.mem t !seen_tags) then report ("V:" ^ t) o "<absent>") !vec;
    vec := []; seen_tags := [] in
  let observe_now () =
    match !cfg, !st with
    | Some c, Some s ->
      vec := SL.map (fun (t, o) -> (tag_name t, obs_to_string o)) (Machine.observe c !level s);
      if !emit then begin
        SL.iter (fun (t, o) -> Printf.printf "V %s %s\n" t o) !vec;
        vec := []
      end;
      seen_tags := []
    | _ -> () in
  (try
     while true do
       let line = input_line ic in
       let n = SS.length line in
       if n >= 1 then begin
         match line.[0] with
         | 'H' ->
           let words = SS.split_on_char ' ' line in
           incr cases; case_bad := false;
           case_id := (match words with _ :: id :: _ -> id | _ -> "?");
           let c = { ckind = kind_of (field words "kind"); kcmp = cmp_id (field words "kcmp");
                     vcmp = cmp_id (field words "vcmp"); ccap = z_of_string (field words "cap");
                     corder = z_of_string (field words "order"); cuni = z_of_string (field words "uni") } in
           if !emit then print_endline line;
           cfg := Some c; level := z_of_string (field words "lvl");
           st := Some (Machine.init c); opidx := -1; optext := "<init>";
           observe_now ()
         | 'O' ->
           flush_vec ();
           incr ops; incr opidx;
           optext := SS.sub line 2 (n - 2);
           let words = SL.filter (fun w -> w <> "") (SS.split_on_char ' ' !optext) in
           (match !cfg, !st with
            | Some c, Some s ->
              let ((s', r), x) = Machine.step c s (parse_op words) in
              st := Some s'; cur_res := obs_to_string r; cur_extra := obs_to_string x;
              if !emit then Printf.printf "%s\nR %s\nX %s\n" line !cur_res !cur_extra;
              observe_now ()
            | _ -> failwith "operation before header")
         | 'R' when !emit -> ()
         | 'X' when !emit -> ()
         | 'V' when !emit -> ()
         | 'E' when !emit -> print_endline "E"
         | 'R' ->
           incr compared;
           let impl = SS.sub line 2 (n - 2) in
           if impl <> !cur_res then report "R" !cur_res impl
         | 'X' ->
           incr compared;
           let impl = SS.sub line 2 (n - 2) in
           if impl <> !cur_extra then report "X" !cur_extra impl
         | 'V' ->
           incr compared;
           (match SS.index_from_opt line 2 ' ' with
            | None -> failwith ("bad V line " ^ line)
            | Some sp ->
              let t = SS.sub line 2 (sp - 2) in
              let impl = SS.sub line (sp + 1) (n - sp - 1) in
              seen_tags := t :: !seen_tags;
              (match SL.assoc_opt t !vec with
               | Some m -> if m <> impl then report ("V:" ^ t) m impl
               | None -> report ("V:" ^ t) "<absent>" impl))
         | 'E' -> flush_vec (); if !case_bad then incr badcases
         | '#' -> ()
         | _ -> failwith ("bad line " ^ line)
       end
     done
   with End_of_file -> ());
  if not !emit then Printf.printf "S cases=%d ops=%d compared=%d mismatches=%d badcases=%d\n" !cases !ops !compared !mismatches !badcases
