(* Property oracle for C07 evaluated on the IMPLEMENTATION's recorded observations, and writer of
   Gallina literals for the in-Coq cross-check of the extraction.  Hand-written, trusted glue only:
   the trace parser is the one of driver.ml (copied), plus a reader of <obs> S-expressions.  The
   verdicts come from the extracted Oracle.oracle_vector / Oracle.oracle_cost_op (Oracle/Oracle.v).

   usage: oracle <trace-file> [--max-report N]
            for every case, every observation vector (the V lines after H and after each O) and every
            X line:   F <case> <opindex> <code> <short text>      (opindex -1 = the constructor's vector)
            final:    S cases=<n> vectors=<n> failures=<n>
            exit status 0
          oracle --emit-coq <trace-file> <N> <out.v> [--recorded]
            writes the first N cases as   Definition cases : list CrossCheck.rcase := [...]
            followed by   Definition M := Eval vm_compute in CrossCheck.mismatches cases.  Print M.
            Default: the R / X / V values written are those of the EXTRACTED OCaml machine linked into
            this program (replayed on the H / O lines exactly as driver.ml does), so that the check
            "M = []" compares extraction against vm_compute and nothing else.  With --recorded the
            values written are the ones recorded in the trace (the implementation's). *)
open BinNums
open Ops

module SL = Stdlib.List
module SS = Stdlib.String

(* ---------- integers ---------- *)
let rec pos_of_int (n : int) : positive =
  if n = 1 then Coq_xH
  else if n land 1 = 0 then Coq_xO (pos_of_int (n lsr 1))
  else Coq_xI (pos_of_int (n lsr 1))
let z_of_int (n : int) : coq_Z =
  if n = 0 then Z0 else if n > 0 then Zpos (pos_of_int n) else Zneg (pos_of_int (- n))
let z10 = z_of_int 10
(* decimal text of any length -> Z, exactly *)
let z_of_string (s : string) : coq_Z =
  let n = SS.length s in
  if n = 0 then failwith "empty integer" else
  let neg = s.[0] = '-' in
  let start = if neg || s.[0] = '+' then 1 else 0 in
  if n - start <= 17 then z_of_int (int_of_string s)
  else begin
    let acc = ref Z0 in
    for i = start to n - 1 do
      let d = Char.code s.[i] - 48 in
      if d < 0 || d > 9 then failwith ("bad integer " ^ s);
      acc := BinInt.Z.add (BinInt.Z.mul !acc z10) (z_of_int d)
    done;
    if neg then BinInt.Z.opp !acc else !acc
  end
let rec pos_to_int_opt (p : positive) (depth : int) : int option =
  if depth > 60 then None else
  match p with
  | Coq_xH -> Some 1
  | Coq_xO q -> (match pos_to_int_opt q (depth + 1) with Some v -> Some (2 * v) | None -> None)
  | Coq_xI q -> (match pos_to_int_opt q (depth + 1) with Some v -> Some (2 * v + 1) | None -> None)
let rec z_to_string (z : coq_Z) : string =
  match z with
  | Z0 -> "0"
  | Zneg p -> "-" ^ z_to_string (Zpos p)
  | Zpos p ->
    (match pos_to_int_opt p 0 with
     | Some v -> string_of_int v
     | None ->
       let (q, r) = BinInt.Z.div_eucl z z10 in
       z_to_string q ^ z_to_string r)

(* ---------- observations ---------- *)
let rec obs_to_buf (b : Buffer.t) (o : obs) : unit =
  match o with
  | OZ z -> Buffer.add_string b (z_to_string z)
  | OL l ->
    Buffer.add_char b '(';
    SL.iteri (fun i x -> if i > 0 then Buffer.add_char b ' '; obs_to_buf b x) l;
    Buffer.add_char b ')'
let obs_to_string (o : obs) : string =
  let b = Buffer.create 64 in obs_to_buf b o; Buffer.contents b

(* reader of the <obs> S-expressions of PROTOCOL.md: decimal integers and parentheses *)
let obs_of_string (s : string) : obs =
  let n = SS.length s in
  let pos = ref 0 in
  let skip () = while !pos < n && s.[!pos] = ' ' do incr pos done in
  let rec item () : obs =
    skip ();
    if !pos >= n then failwith ("bad observation " ^ s);
    if s.[!pos] = '(' then begin
      incr pos;
      let acc = ref [] in
      let fin = ref false in
      while not !fin do
        skip ();
        if !pos >= n then failwith ("unbalanced observation " ^ s);
        if s.[!pos] = ')' then begin incr pos; fin := true end
        else acc := item () :: !acc
      done;
      OL (SL.rev !acc)
    end else begin
      let start = !pos in
      while !pos < n && s.[!pos] <> ' ' && s.[!pos] <> '(' && s.[!pos] <> ')' do incr pos done;
      if !pos = start then failwith ("bad observation " ^ s);
      OZ (z_of_string (SS.sub s start (!pos - start)))
    end in
  let o = item () in
  skip ();
  if !pos <> n then failwith ("trailing text in observation " ^ s);
  o

let tag_name (t : tag) : string =
  match t with
  | TSize -> "size" | TEmpty -> "empty" | TValues -> "values" | TKeys -> "keys" | TGet -> "get"
  | TGetKey -> "getkey" | TContains -> "contains" | TIndexOf -> "indexof" | TGetIdx -> "getidx"
  | TPeek -> "peek" | TFull -> "full" | TLeft -> "left" | TRight -> "right" | TFloor -> "floor"
  | TCeiling -> "ceiling" | THeight -> "height" | TShape -> "shape" | TRaw -> "raw" | TJson -> "json"
  | TIterF -> "iterf" | TIterB -> "iterb" | TCost -> "cost" | TSane -> "sane"
let all_tags = [TSize; TEmpty; TValues; TKeys; TGet; TGetKey; TContains; TIndexOf; TGetIdx; TPeek; TFull;
                TLeft; TRight; TFloor; TCeiling; THeight; TShape; TRaw; TJson; TIterF; TIterB; TCost; TSane]
let tag_of_name (s : string) : tag =
  match SL.find_opt (fun t -> tag_name t = s) all_tags with
  | Some t -> t
  | None -> failwith ("bad tag " ^ s)
let tag_ctor (t : tag) : string =
  match t with
  | TSize -> "TSize" | TEmpty -> "TEmpty" | TValues -> "TValues" | TKeys -> "TKeys" | TGet -> "TGet"
  | TGetKey -> "TGetKey" | TContains -> "TContains" | TIndexOf -> "TIndexOf" | TGetIdx -> "TGetIdx"
  | TPeek -> "TPeek" | TFull -> "TFull" | TLeft -> "TLeft" | TRight -> "TRight" | TFloor -> "TFloor"
  | TCeiling -> "TCeiling" | THeight -> "THeight" | TShape -> "TShape" | TRaw -> "TRaw" | TJson -> "TJson"
  | TIterF -> "TIterF" | TIterB -> "TIterB" | TCost -> "TCost" | TSane -> "TSane"

(* ---------- parsing of operations (driver.ml) ---------- *)
let split_on (c : char) (s : string) : string list = if s = "" then [] else SS.split_on_char c s
let zlist (s : string) : coq_Z list =
  (* "[1,2,3]" or "[]" *)
  let n = SS.length s in
  if n < 2 || s.[0] <> '[' || s.[n - 1] <> ']' then failwith ("bad list " ^ s);
  SL.map z_of_string (split_on ',' (SS.sub s 1 (n - 2)))
let pairlist (s : string) : (coq_Z * coq_Z) list =
  let n = SS.length s in
  if n < 2 || s.[0] <> '[' || s.[n - 1] <> ']' then failwith ("bad pair list " ^ s);
  SL.map (fun p -> match SS.split_on_char ':' p with
      | [a; b] -> (z_of_string a, z_of_string b)
      | _ -> failwith ("bad pair " ^ p)) (split_on ',' (SS.sub s 1 (n - 2)))
let cmp_id (s : string) : Cmp.cmp_id =
  match s with
  | "CNat" -> Cmp.CNat | "CRev" -> Cmp.CRev | "CDiv3" -> Cmp.CDiv3 | "CAbs" -> Cmp.CAbs
  | _ -> failwith ("bad comparator " ^ s)
let pred_of (fields : string list) : pred =
  match fields with
  | ["PTrue"] -> PTrue | ["PFalse"] -> PFalse
  | ["PIdxMod"; a; b] -> PIdxMod (z_of_string a, z_of_string b)
  | ["PValLt"; c] -> PValLt (z_of_string c)
  | ["PValMod"; a; b] -> PValMod (z_of_string a, z_of_string b)
  | ["PSumMod"; a; b] -> PSumMod (z_of_string a, z_of_string b)
  | ["PKeyEq"; c] -> PKeyEq (z_of_string c)
  | _ -> failwith ("bad predicate " ^ SS.concat ":" fields)
let pred_s (s : string) : pred = pred_of (SS.split_on_char ':' s)
let mapf_s (s : string) : mapf =
  match SS.split_on_char ':' s with
  | ["FId"] -> FId | ["FConst"; c] -> FConst (z_of_string c) | ["FValPlus"; c] -> FValPlus (z_of_string c)
  | ["FValDiv"; c] -> FValDiv (z_of_string c) | ["FIdxPlusVal"] -> FIdxPlusVal | ["FSwapKV"] -> FSwapKV
  | ["FKeyDiv"; c] -> FKeyDiv (z_of_string c) | ["FKeyNeg"] -> FKeyNeg
  | _ -> failwith ("bad mapping function " ^ s)
let icall_s (s : string) : icall =
  match SS.split_on_char ':' s with
  | ["Next"] -> CNext | ["Prev"] -> CPrev | ["Begin"] -> CBegin | ["End"] -> CEnd
  | ["First"] -> CFirst | ["Last"] -> CLast
  | "NextTo" :: p -> CNextTo (pred_of p) | "PrevTo" :: p -> CPrevTo (pred_of p)
  | _ -> failwith ("bad iterator call " ^ s)
let script (s : string) : icall list =
  let n = SS.length s in
  if n < 2 || s.[0] <> '[' || s.[n - 1] <> ']' then failwith ("bad script " ^ s);
  SL.map icall_s (split_on ',' (SS.sub s 1 (n - 2)))

let parse_op (words : string list) : op =
  match words with
  | ["Add"; vs] -> Add (zlist vs) | ["Append"; vs] -> Append (zlist vs) | ["Prepend"; vs] -> Prepend (zlist vs)
  | ["Insert"; i; vs] -> Insert (z_of_string i, zlist vs)
  | ["Set"; i; v] -> SetAt (z_of_string i, z_of_string v)
  | ["RemoveAt"; i] -> RemoveAt (z_of_string i)
  | ["Swap"; i; j] -> Swap (z_of_string i, z_of_string j)
  | ["Sort"; c; res] -> Sort (cmp_id c, zlist res)
  | ["RemoveVals"; vs] -> RemoveVals (zlist vs)
  | ["Push"; v] -> Push (z_of_string v) | ["PushAll"; vs] -> PushAll (zlist vs) | ["Pop"] -> Pop
  | ["Enqueue"; v] -> Enqueue (z_of_string v) | ["Dequeue"] -> Dequeue
  | ["Put"; k; v] -> Put (z_of_string k, z_of_string v) | ["Remove"; k] -> Remove (z_of_string k)
  | ["Clear"] -> Clear
  | ["FromJSON"; "DErr"] -> FromJSON DErr | ["FromJSON"; "DNull"] -> FromJSON DNull
  | ["FromJSON"; "DArr"; vs] -> FromJSON (DArr (zlist vs))
  | ["FromJSON"; "DObj"; kvs] -> FromJSON (DObj (pairlist kvs))
  | ["Iter"; s] -> Iter (script s)
  | ["Each"] -> Each | ["Any"; p] -> AnyP (pred_s p) | ["All"; p] -> AllP (pred_s p) | ["Find"; p] -> FindP (pred_s p)
  | ["Select"; p] -> SelectP (pred_s p) | ["Map"; f] -> MapF (mapf_s f)
  | ["Inter"; b] -> Inter (zlist b) | ["Union"; b] -> Union (zlist b) | ["Diff"; b] -> Diff (zlist b)
  | ["InterSelf"] -> InterSelf | ["UnionSelf"] -> UnionSelf | ["DiffSelf"] -> DiffSelf
  | ["SortedValues"] -> SortedValues
  | ["SortedValuesFunc"; c; res] -> SortedValuesFunc (cmp_id c, zlist res)
  | _ -> failwith ("bad operation: " ^ SS.concat " " words)

let kind_of (s : string) : kind =
  match s with
  | "ArrayList" -> ArrayList | "SinglyLinkedList" -> SinglyLinkedList | "DoublyLinkedList" -> DoublyLinkedList
  | "HashSet" -> HashSet | "TreeSet" -> TreeSet | "LinkedHashSet" -> LinkedHashSet
  | "ArrayStack" -> ArrayStack | "LinkedListStack" -> LinkedListStack
  | "HashMap" -> HashMap | "TreeMap" -> TreeMap | "LinkedHashMap" -> LinkedHashMap
  | "HashBidiMap" -> HashBidiMap | "TreeBidiMap" -> TreeBidiMap
  | "RedBlackTree" -> RedBlackTree | "AVLTree" -> AVLTree | "BTree" -> BTree | "BinaryHeap" -> BinaryHeap
  | "ArrayQueue" -> ArrayQueue | "LinkedListQueue" -> LinkedListQueue | "CircularBuffer" -> CircularBuffer
  | "PriorityQueue" -> PriorityQueue
  | _ -> failwith ("bad kind " ^ s)
let kind_ctor (k : kind) : string =
  match k with
  | ArrayList -> "ArrayList" | SinglyLinkedList -> "SinglyLinkedList" | DoublyLinkedList -> "DoublyLinkedList"
  | HashSet -> "HashSet" | TreeSet -> "TreeSet" | LinkedHashSet -> "LinkedHashSet"
  | ArrayStack -> "ArrayStack" | LinkedListStack -> "LinkedListStack"
  | HashMap -> "HashMap" | TreeMap -> "TreeMap" | LinkedHashMap -> "LinkedHashMap"
  | HashBidiMap -> "HashBidiMap" | TreeBidiMap -> "TreeBidiMap"
  | RedBlackTree -> "RedBlackTree" | AVLTree -> "AVLTree" | BTree -> "BTree" | BinaryHeap -> "BinaryHeap"
  | ArrayQueue -> "ArrayQueue" | LinkedListQueue -> "LinkedListQueue" | CircularBuffer -> "CircularBuffer"
  | PriorityQueue -> "PriorityQueue"

let field (words : string list) (name : string) : string =
  let pre = name ^ "=" in
  let pl = SS.length pre in
  match SL.find_opt (fun w -> SS.length w >= pl && SS.sub w 0 pl = pre) words with
  | Some w -> SS.sub w pl (SS.length w - pl)
  | None -> failwith ("missing header field " ^ name)

let config_of_header (words : string list) : config =
  { ckind = kind_of (field words "kind"); kcmp = cmp_id (field words "kcmp");
    vcmp = cmp_id (field words "vcmp"); ccap = z_of_string (field words "cap");
    corder = z_of_string (field words "order"); cuni = z_of_string (field words "uni") }

(* a V line: "V <tag> <obs>" *)
let parse_v (line : string) : tag * obs =
  let n = SS.length line in
  match SS.index_from_opt line 2 ' ' with
  | None -> failwith ("bad V line " ^ line)
  | Some sp -> (tag_of_name (SS.sub line 2 (sp - 2)), obs_of_string (SS.sub line (sp + 1) (n - sp - 1)))

(* ---------- mode 1: the oracle over a trace ---------- *)
let code_text (code : int) : string =
  match code with
  | 1 -> "undecodable component (size/shape/height/cost/raw)"
  | 2 -> "shape invariant violated"
  | 3 -> "keys not strictly ascending under the comparator"
  | 4 -> "node/entry count differs from Size()"
  | 5 -> "red-black: longest path more than twice the shortest"
  | 6 -> "B-tree: Height() differs from the number of levels"
  | 7 -> "Get comparator calls above the bound"
  | 8 -> "Put/Remove comparator calls above the bound"
  | 9 -> "heap order violated"
  | _ -> "?"
let z_to_int (z : coq_Z) : int = int_of_string (z_to_string z)

let run_oracle (file : string) (max_report : int) : unit =
  let ic = if file = "-" then stdin else open_in file in
  let case_id = ref "" in
  let cfg : config option ref = ref None in
  let opidx = ref (-1) in
  let cur_op : op option ref = ref None in
  let vec : (tag * obs) list ref = ref [] in       (* the vector being read, reversed *)
  let have_vec = ref false in                      (* a vector is open (after H or after O) *)
  let size_before : coq_Z option ref = ref None in (* Size() reported by the last complete vector *)
  let cases = ref 0 and vectors = ref 0 and failures = ref 0 and reported = ref 0 in
  let fail code extra =
    incr failures;
    if !reported < max_report then begin
      incr reported;
      Printf.printf "F %s %d %d %s%s\n" !case_id !opidx code (code_text code) extra
    end in
  let skipped = ref 0 in
  let flush_vec ?(last = false) () =
    if !have_vec then begin
      have_vec := false;
      let v = SL.rev !vec in
      vec := [];
      match !cfg with
      | None -> ()
      | Some c ->
        incr vectors;
        size_before := (match SL.find_opt (fun (t, _) -> t = TSize) v with
            | Some (_, OZ n) -> Some n
            | _ -> None);
        (* the sortedness check of the oracle is quadratic in the number of keys: structures with more
           than 300 entries are judged on every 32nd vector and on the last vector of their case (the
           cost lines are always judged) *)
        let big = (match !size_before with
            | Some n -> (try z_to_int n > 300 with _ -> true)
            | None -> false) in
        if (not big) || !opidx land 31 = 0 || last then
          SL.iter (fun code -> fail (z_to_int code) "") (Oracle.oracle_vector c v)
        else incr skipped
    end in
  (try
     while true do
       let line = input_line ic in
       let n = SS.length line in
       if n >= 1 then begin
         match line.[0] with
         | 'H' ->
           flush_vec ();
           let words = SS.split_on_char ' ' line in
           incr cases;
           case_id := (match words with _ :: id :: _ -> id | _ -> "?");
           cfg := Some (config_of_header words);
           opidx := -1; cur_op := None; size_before := None;
           vec := []; have_vec := true
         | 'O' ->
           flush_vec ();
           incr opidx;
           let words = SL.filter (fun w -> w <> "") (SS.split_on_char ' ' (SS.sub line 2 (n - 2))) in
           cur_op := Some (parse_op words);
           vec := []; have_vec := true
         | 'R' -> ()
         | 'X' ->
           (match !cfg, !size_before, !cur_op with
            | Some c, Some nb, Some o ->
              let x = (try obs_of_string (SS.sub line 2 (n - 2)) with Failure _ -> OL []) in
              let is_put = (match o with Put (_, _) -> true | _ -> false) in
              SL.iter (fun code -> fail (z_to_int code) (Printf.sprintf " (calls=%s size-before=%s)" (obs_to_string x) (z_to_string nb)))
                (Oracle.oracle_cost_op c is_put nb x)
            | _ -> ())
         | 'V' ->
           (* a component that is not an S-expression of integers is undecodable, not fatal *)
           (try vec := parse_v line :: !vec
            with Failure _ -> fail 1 (" (unreadable line: " ^ (if n > 60 then SS.sub line 0 60 ^ "..." else line) ^ ")"))
         | 'E' -> flush_vec ~last:true ()
         | '#' -> ()
         | _ -> failwith ("bad line " ^ line)
       end
     done
   with End_of_file -> ());
  flush_vec ~last:true ();
  Printf.printf "S cases=%d vectors=%d failures=%d sampled_out=%d\n" !cases !vectors !failures !skipped

(* ---------- mode 2: Gallina literals for CrossCheck.v ---------- *)
(* Integers are written through named constants ([z_12], [z_m3] : Z and [o_12], [o_m3] := OZ ..) that
   the generated file defines once each by a %Z literal: Coq evaluates a number notation at every
   occurrence of a literal, which would dominate the run time (a trace holds few distinct integers). *)
let used_ints : (string, unit) Hashtbl.t = Hashtbl.create 1024
let int_name (z : coq_Z) : string option =
  let t = z_to_string z in
  if SS.length t > 15 then None
  else begin
    if not (Hashtbl.mem used_ints t) then Hashtbl.add used_ints t ();
    Some (if t.[0] = '-' then "m" ^ SS.sub t 1 (SS.length t - 1) else t)
  end
let gz (b : Buffer.t) (z : coq_Z) : unit =
  match int_name z with
  | Some nm -> Buffer.add_string b "z_"; Buffer.add_string b nm
  | None -> Buffer.add_char b '('; Buffer.add_string b (z_to_string z); Buffer.add_string b ")%Z"
let goz (b : Buffer.t) (z : coq_Z) : unit =
  match int_name z with
  | Some nm -> Buffer.add_string b "o_"; Buffer.add_string b nm
  | None -> Buffer.add_string b "(OZ ("; Buffer.add_string b (z_to_string z); Buffer.add_string b ")%Z)"
let glist (b : Buffer.t) (f : Buffer.t -> 'a -> unit) (l : 'a list) : unit =
  Buffer.add_char b '[';
  SL.iteri (fun i x -> if i > 0 then Buffer.add_string b "; "; f b x) l;
  Buffer.add_char b ']'
let gzs (b : Buffer.t) (l : coq_Z list) : unit = glist b gz l
let gpair (b : Buffer.t) ((k, v) : coq_Z * coq_Z) : unit =
  Buffer.add_char b '('; gz b k; Buffer.add_string b ", "; gz b v; Buffer.add_char b ')'
let rec gobs (b : Buffer.t) (o : obs) : unit =
  match o with
  | OZ z -> goz b z
  | OL [] -> Buffer.add_string b "o_nil"
  | OL l -> Buffer.add_string b "OL "; glist b gobs l
let gcmp (b : Buffer.t) (c : Cmp.cmp_id) : unit =
  Buffer.add_string b (match c with Cmp.CNat -> "CNat" | Cmp.CRev -> "CRev" | Cmp.CDiv3 -> "CDiv3" | Cmp.CAbs -> "CAbs")
let app1 b name f x = Buffer.add_string b name; Buffer.add_char b ' '; f b x
let gpred (b : Buffer.t) (p : pred) : unit =
  match p with
  | PTrue -> Buffer.add_string b "PTrue" | PFalse -> Buffer.add_string b "PFalse"
  | PIdxMod (x, y) -> Buffer.add_string b "(PIdxMod "; gz b x; Buffer.add_char b ' '; gz b y; Buffer.add_char b ')'
  | PValLt c -> Buffer.add_string b "(PValLt "; gz b c; Buffer.add_char b ')'
  | PValMod (x, y) -> Buffer.add_string b "(PValMod "; gz b x; Buffer.add_char b ' '; gz b y; Buffer.add_char b ')'
  | PSumMod (x, y) -> Buffer.add_string b "(PSumMod "; gz b x; Buffer.add_char b ' '; gz b y; Buffer.add_char b ')'
  | PKeyEq c -> Buffer.add_string b "(PKeyEq "; gz b c; Buffer.add_char b ')'
let gmapf (b : Buffer.t) (f : mapf) : unit =
  match f with
  | FId -> Buffer.add_string b "FId" | FIdxPlusVal -> Buffer.add_string b "FIdxPlusVal"
  | FSwapKV -> Buffer.add_string b "FSwapKV" | FKeyNeg -> Buffer.add_string b "FKeyNeg"
  | FConst c -> Buffer.add_string b "(FConst "; gz b c; Buffer.add_char b ')'
  | FValPlus c -> Buffer.add_string b "(FValPlus "; gz b c; Buffer.add_char b ')'
  | FValDiv c -> Buffer.add_string b "(FValDiv "; gz b c; Buffer.add_char b ')'
  | FKeyDiv c -> Buffer.add_string b "(FKeyDiv "; gz b c; Buffer.add_char b ')'
let gicall (b : Buffer.t) (c : icall) : unit =
  match c with
  | CNext -> Buffer.add_string b "CNext" | CPrev -> Buffer.add_string b "CPrev"
  | CBegin -> Buffer.add_string b "CBegin" | CEnd -> Buffer.add_string b "CEnd"
  | CFirst -> Buffer.add_string b "CFirst" | CLast -> Buffer.add_string b "CLast"
  | CNextTo p -> Buffer.add_string b "CNextTo "; gpred b p
  | CPrevTo p -> Buffer.add_string b "CPrevTo "; gpred b p
let gdecoded (b : Buffer.t) (d : decoded) : unit =
  match d with
  | DErr -> Buffer.add_string b "DErr" | DNull -> Buffer.add_string b "DNull"
  | DArr vs -> Buffer.add_string b "(DArr "; gzs b vs; Buffer.add_char b ')'
  | DObj kvs -> Buffer.add_string b "(DObj "; glist b gpair kvs; Buffer.add_char b ')'
(* constructors of Model/Ops.v, qualified: Coq.Lists.List also has an [Add] *)
let gop (b : Buffer.t) (o : op) : unit =
  let s = Buffer.add_string b in
  let sp () = Buffer.add_char b ' ' in
  match o with
  | Add vs -> s "Ops.Add "; gzs b vs | Append vs -> s "Ops.Append "; gzs b vs | Prepend vs -> s "Ops.Prepend "; gzs b vs
  | Insert (i, vs) -> s "Ops.Insert "; gz b i; sp (); gzs b vs
  | SetAt (i, v) -> s "Ops.SetAt "; gz b i; sp (); gz b v
  | RemoveAt i -> s "Ops.RemoveAt "; gz b i
  | Swap (i, j) -> s "Ops.Swap "; gz b i; sp (); gz b j
  | Sort (c, res) -> s "Ops.Sort "; gcmp b c; sp (); gzs b res
  | RemoveVals vs -> s "Ops.RemoveVals "; gzs b vs
  | Push v -> s "Ops.Push "; gz b v | PushAll vs -> s "Ops.PushAll "; gzs b vs | Pop -> s "Ops.Pop"
  | Enqueue v -> s "Ops.Enqueue "; gz b v | Dequeue -> s "Ops.Dequeue"
  | Put (k, v) -> s "Ops.Put "; gz b k; sp (); gz b v | Remove k -> s "Ops.Remove "; gz b k
  | Clear -> s "Ops.Clear"
  | FromJSON d -> s "Ops.FromJSON "; gdecoded b d
  | Iter cs -> s "Ops.Iter "; glist b gicall cs
  | Each -> s "Ops.Each" | AnyP p -> s "Ops.AnyP "; gpred b p | AllP p -> s "Ops.AllP "; gpred b p
  | FindP p -> s "Ops.FindP "; gpred b p | SelectP p -> s "Ops.SelectP "; gpred b p | MapF f -> s "Ops.MapF "; gmapf b f
  | Inter x -> s "Ops.Inter "; gzs b x | Union x -> s "Ops.Union "; gzs b x | Diff x -> s "Ops.Diff "; gzs b x
  | InterSelf -> s "Ops.InterSelf" | UnionSelf -> s "Ops.UnionSelf" | DiffSelf -> s "Ops.DiffSelf"
  | SortedValues -> s "Ops.SortedValues"
  | SortedValuesFunc (c, res) -> s "Ops.SortedValuesFunc "; gcmp b c; sp (); gzs b res
let gvec (b : Buffer.t) (v : (tag * obs) list) : unit =
  glist b (fun b (t, o) -> Buffer.add_char b '('; Buffer.add_string b (tag_ctor t); Buffer.add_string b ", ";
            (if o = Machine.all_sane then Buffer.add_string b "Machine.all_sane" else gobs b o);
            Buffer.add_char b ')') v

type rstep = { s_op : op; mutable s_res : obs; mutable s_extra : obs; mutable s_vec : (tag * obs) list }
type rcase = { r_cfg : config; r_lvl : coq_Z; mutable r_init : (tag * obs) list; mutable r_steps : rstep list }

(* the first [limit] cases of a trace, with the recorded values *)
let read_cases (file : string) (limit : int) : rcase list =
  let ic = if file = "-" then stdin else open_in file in
  let acc : rcase list ref = ref [] in
  let cur : rcase option ref = ref None in
  let close_case () =
    match !cur with
    | Some rc ->
      rc.r_init <- SL.rev rc.r_init;
      rc.r_steps <- SL.rev_map (fun st -> st.s_vec <- SL.rev st.s_vec; st) rc.r_steps;
      acc := rc :: !acc; cur := None
    | None -> () in
  (try
     while true do
       let line = input_line ic in
       let n = SS.length line in
       if n >= 1 then begin
         match line.[0] with
         | 'H' ->
           close_case ();
           if SL.length !acc >= limit then raise End_of_file;
           let words = SS.split_on_char ' ' line in
           cur := Some { r_cfg = config_of_header words; r_lvl = z_of_string (field words "lvl");
                         r_init = []; r_steps = [] }
         | 'O' ->
           (match !cur with
            | Some rc ->
              let words = SL.filter (fun w -> w <> "") (SS.split_on_char ' ' (SS.sub line 2 (n - 2))) in
              rc.r_steps <- { s_op = parse_op words; s_res = OL []; s_extra = OL []; s_vec = [] } :: rc.r_steps
            | None -> failwith "operation before header")
         | 'R' -> (match !cur with
             | Some { r_steps = st :: _; _ } -> st.s_res <- obs_of_string (SS.sub line 2 (n - 2))
             | _ -> failwith "R line without operation")
         | 'X' -> (match !cur with
             | Some { r_steps = st :: _; _ } -> st.s_extra <- obs_of_string (SS.sub line 2 (n - 2))
             | _ -> failwith "X line without operation")
         | 'V' -> (match !cur with
             | Some ({ r_steps = st :: _; _ }) -> st.s_vec <- parse_v line :: st.s_vec
             | Some rc -> rc.r_init <- parse_v line :: rc.r_init
             | None -> failwith "V line before header")
         | 'E' -> close_case ()
         | '#' -> ()
         | _ -> failwith ("bad line " ^ line)
       end
     done
   with End_of_file -> ());
  close_case ();
  SL.rev !acc

(* replace the recorded values by those of the extracted machine, replayed as driver.ml does:
   Machine.init, then Machine.step per O line, Machine.observe with the H line's lvl *)
let model_case (rc : rcase) : rcase =
  let c = rc.r_cfg in
  let s = ref (Machine.init c) in
  let init_vec = Machine.observe c rc.r_lvl !s in
  let steps = SL.map (fun st ->
      let ((s', r), x) = Machine.step c !s st.s_op in
      s := s';
      { s_op = st.s_op; s_res = r; s_extra = x; s_vec = Machine.observe c rc.r_lvl s' }) rc.r_steps in
  { r_cfg = c; r_lvl = rc.r_lvl; r_init = init_vec; r_steps = steps }

let emit_coq (file : string) (limit : int) (out : string) (recorded : bool) : unit =
  let cases = read_cases file limit in
  let cases = if recorded then cases else SL.map model_case cases in
  let b = Buffer.create (1 lsl 22) in
  let s = Buffer.add_string b in
  SL.iteri (fun i rc ->
      s (Printf.sprintf "Definition case_%d : CrossCheck.rcase :=\n" i);
      s "  {| r_cfg := {| ckind := "; s (kind_ctor rc.r_cfg.ckind);
      s "; kcmp := "; gcmp b rc.r_cfg.kcmp; s "; vcmp := "; gcmp b rc.r_cfg.vcmp;
      s "; ccap := "; gz b rc.r_cfg.ccap; s "; corder := "; gz b rc.r_cfg.corder;
      s "; cuni := "; gz b rc.r_cfg.cuni; s " |};\n";
      s "     r_lvl := "; gz b rc.r_lvl; s ";\n";
      s "     r_init := "; gvec b rc.r_init; s ";\n";
      s "     r_steps := [";
      SL.iteri (fun j st ->
          if j > 0 then s ";";
          s "\n       {| s_op := "; gop b st.s_op; s "; s_res := "; gobs b st.s_res;
          s "; s_extra := "; gobs b st.s_extra; s ";\n          s_vec := "; gvec b st.s_vec; s " |}") rc.r_steps;
      s "] |}.\n") cases;
  s "\nDefinition cases : list CrossCheck.rcase := [";
  SL.iteri (fun i _ -> if i > 0 then s "; "; s (Printf.sprintf "case_%d" i)) cases;
  s "].\n";
  s "Definition M := Eval vm_compute in CrossCheck.mismatches cases.\nPrint M.\n";
  (* header: imports and one definition per distinct integer, each a %Z literal *)
  let oc = open_out out in
  let h = Buffer.create 65536 in
  let hs = Buffer.add_string h in
  hs "(* generated by coq/ocaml/oracle --emit-coq: ";
  hs (if recorded then "values recorded in the trace" else "values computed by the extracted OCaml machine");
  hs " *)\n";
  hs "From Coq Require Import ZArith List.\n";
  hs "From Gods Require Import Common.Cmp Model.Ops Model.Machine Oracle.CrossCheck.\n";
  hs "Import ListNotations.\n\n";
  hs "Definition o_nil : obs := OL [].\n";
  let ints = SL.sort compare (Hashtbl.fold (fun t () acc -> int_of_string t :: acc) used_ints []) in
  SL.iter (fun v ->
      let nm = if v < 0 then "m" ^ string_of_int (- v) else string_of_int v in
      hs (Printf.sprintf "Definition z_%s : Z := (%d)%%Z. Definition o_%s : obs := OZ z_%s.\n" nm v nm nm)) ints;
  hs "\n";
  Buffer.output_buffer oc h;
  Buffer.output_buffer oc b;
  close_out oc;
  Printf.printf "emitted cases=%d ops=%d integers=%d source=%s\n" (SL.length cases)
    (SL.fold_left (fun a rc -> a + SL.length rc.r_steps) 0 cases) (SL.length ints) (if recorded then "recorded" else "model")

let () =
  let args = SL.tl (Array.to_list Sys.argv) in
  match args with
  | "--emit-coq" :: file :: n :: out :: rest ->
    emit_coq file (int_of_string n) out (SL.mem "--recorded" rest)
  | _ ->
    let file = ref "" and max_report = ref 1000 in
    let rec go = function
      | "--max-report" :: n :: rest -> max_report := int_of_string n; go rest
      | f :: rest -> file := f; go rest
      | [] -> () in
    go args;
    if !file = "" then begin prerr_endline "usage: oracle <trace-file> | oracle --emit-coq <trace-file> <N> <out.v> [--recorded]"; exit 2 end;
    run_oracle !file !max_report
