#!/bin/bash
# Extract the machine from the compiled Coq development and build the replay driver.
# Needs coq/build.sh to have been run (the .vo files).  Output: coq/ocaml/driver
set -e
cd "$(dirname "$0")"
rm -rf gen && mkdir -p gen
( cd gen && coqc -Q ../../theories Gods ../../extract/Extract.v >/dev/null )
cp driver.ml gen/
cd gen
files=$(ocamlfind ocamldep -sort *.ml *.mli)
ocamlfind ocamlopt -O3 -w -a -o ../driver $files 2>/dev/null || ocamlfind ocamlopt -w -a -o ../driver $files
