(* The uniform machine: one executable state machine for all 21 container kinds.
   [init], [step] and [observe] are what the Go harness is compared with after every operation
   (PROTOCOL.md); every theorem in Properties/ is about runs of this machine.  The per-kind
   algorithms live in the other Model/ files; this file is the wiring, and the models of the thin
   wrappers (sets, maps over Go's built-in map, linked kinds, bidirectional maps, stacks, queues). *)
From Coq Require Import ZArith List Bool Lia.
From Gods Require Import Common.Cmp Common.ListAux Spec.SeqSpec Spec.MapSpec Model.Ops Model.Lists Model.Iter.
From Gods Require Model.RBTree Model.AVLTree Model.BTree Model.BTreeCost Model.BTreeIter Model.Heap Model.Ring.
Import ListNotations.
Local Open Scope Z_scope.

Module RB := RBTree. Module AVL := AVLTree. Module BT := BTree. Module BTC := BTreeCost. Module BTI := BTreeIter.

Inductive state :=
  | StSeq (l : list Z)                          (* lists, stacks, plain queues: the backing sequence *)
  | StHSet (l : list Z)                         (* Go map used as a set: members in ascending order (canonical form) *)
  | StLSet (tbl : list Z) (ord : list Z)        (* LinkedHashSet: table (canonical) + ordering list *)
  | StRB (t : RB.tree) (n : Z)                  (* RedBlackTree, TreeMap, TreeSet: tree + cached size *)
  | StAVL (t : AVL.tree) (n : Z)
  | StBT (r : option BT.node) (n : Z)
  | StHeap (l : list Z)                         (* BinaryHeap, PriorityQueue: the backing array *)
  | StRing (r : Ring.ring)
  | StHMap (l : list (Z * Z))                   (* Go map: association list ascending by key (canonical form) *)
  | StLMap (tbl : list (Z * Z)) (ord : list Z)  (* LinkedHashMap: table (canonical) + ordering list of keys *)
  | StHBidi (f i : list (Z * Z))                (* HashBidiMap: forward and inverse Go maps *)
  | StTBidi (f : RB.tree) (fn : Z) (i : RB.tree) (inn : Z)   (* TreeBidiMap: two red-black trees with sizes *)
  | StCrash.                                    (* the Go code panicked (constructor precondition or nil dereference) *)

(* ---------- Go's built-in map as a canonical association list ---------- *)
Definition hput (k v : Z) (l : list (Z * Z)) := ins_list Z.compare k v l.
Definition hdel (k : Z) (l : list (Z * Z)) := del_list Z.compare k l.
Definition hget (k : Z) (l : list (Z * Z)) : option Z :=
  match find (fun e => fst e =? k) l with Some e => Some (snd e) | None => None end.
Definition hmem (k : Z) (l : list (Z * Z)) : bool := existsb (fun e => fst e =? k) l.
(* a Go map used as a set *)
Definition sadd (x : Z) (l : list Z) : list Z := map fst (hput x 0 (map (fun y => (y, 0)) l)).
Definition sdel (x : Z) (l : list Z) : list Z := map fst (hdel x (map (fun y => (y, 0)) l)).
Definition smem (x : Z) (l : list Z) : bool := existsb (Z.eqb x) l.

(* ---------- red-black tree with cached size (Tree.size) ---------- *)
Definition rbs := (RB.tree * Z)%type.
Definition rbs_put (cmp : cmpf) (k v : Z) (s : rbs) : option rbs :=
  match RB.put cmp k v (fst s) with
  | Some (t', b) => Some (t', if b then snd s + 1 else snd s)
  | None => None
  end.
Definition rbs_remove (cmp : cmpf) (k : Z) (s : rbs) : option rbs :=
  match RB.remove cmp k (fst s) with
  | Some (t', b) => Some (t', if b then snd s - 1 else snd s)
  | None => None
  end.
Definition rbs_get (cmp : cmpf) (k : Z) (s : rbs) : option Z :=
  match RB.lookup cmp k (fst s) with Some (_, v) => Some v | None => None end.
Definition rbs_empty : rbs := (RB.E, 0).
(* insert a sequence of entries one Put at a time (constructors, FromJSON, Select, Map, set algebra) *)
Fixpoint rbs_puts (cmp : cmpf) (es : list (Z * Z)) (s : rbs) : option rbs :=
  match es with
  | [] => Some s
  | (k, v) :: es' => match rbs_put cmp k v s with Some s' => rbs_puts cmp es' s' | None => None end
  end.
Fixpoint rbs_removes (cmp : cmpf) (ks : list Z) (s : rbs) : option rbs :=
  match ks with
  | [] => Some s
  | k :: ks' => match rbs_remove cmp k s with Some s' => rbs_removes cmp ks' s' | None => None end
  end.

(* ---------- AVL / B-tree with cached size ---------- *)
Definition avl_put (cmp : cmpf) (k v : Z) (t : AVL.tree) (n : Z) : option (AVL.tree * Z) :=
  match AVL.put cmp k v t with
  | Some (t', _, b) => Some (t', if b then n + 1 else n)
  | None => None
  end.
Definition avl_remove (cmp : cmpf) (k : Z) (t : AVL.tree) (n : Z) : option (AVL.tree * Z) :=
  match AVL.remove cmp k t with
  | Some (t', _, b) => Some (t', if b then n - 1 else n)
  | None => None
  end.
Fixpoint avl_puts (cmp : cmpf) (es : list (Z * Z)) (t : AVL.tree) (n : Z) : option (AVL.tree * Z) :=
  match es with
  | [] => Some (t, n)
  | (k, v) :: es' => match avl_put cmp k v t n with Some (t', n') => avl_puts cmp es' t' n' | None => None end
  end.

Definition bt_fuel (r : option BT.node) : nat := match r with Some n => S (BT.maxheight n) | None => 1%nat end.
Definition bt_put (m : nat) (cmp : cmpf) (k v : Z) (r : option BT.node) (n : Z) : option (option BT.node * Z) :=
  match BT.put m cmp (bt_fuel r) (k, v) r with
  | Some (r', b) => Some (r', if b then n + 1 else n)
  | None => None
  end.
Definition bt_remove (m : nat) (cmp : cmpf) (k : Z) (r : option BT.node) (n : Z) : option (option BT.node * Z) :=
  match BT.remove m cmp (bt_fuel r) k r with
  | Some (r', b) => Some (r', if b then n - 1 else n)
  | None => None
  end.
Fixpoint bt_puts (m : nat) (cmp : cmpf) (es : list (Z * Z)) (r : option BT.node) (n : Z) : option (option BT.node * Z) :=
  match es with
  | [] => Some (r, n)
  | (k, v) :: es' => match bt_put m cmp k v r n with Some (r', n') => bt_puts m cmp es' r' n' | None => None end
  end.
Definition bt_get (cmp : cmpf) (k : Z) (r : option BT.node) : option BT.entry :=
  match r with Some n => BT.get cmp (bt_fuel r) k n | None => None end.
Definition bt_inorder (r : option BT.node) : list (Z * Z) := match r with Some n => BT.inorder n | None => [] end.

(* ---------- LinkedHashSet / LinkedHashMap: table + ordering list ---------- *)
Definition lset_add1 (x : Z) (s : list Z * list Z) : list Z * list Z :=
  let '(tbl, ord) := s in
  if smem x tbl then s else (sadd x tbl, dll_add [x] ord).
Definition lset_remove1 (x : Z) (s : list Z * list Z) : list Z * list Z :=
  let '(tbl, ord) := s in
  if smem x tbl then (sdel x tbl, dll_remove (dll_index_of x ord) ord) else s.
Definition lmap_put (k v : Z) (s : list (Z * Z) * list Z) : list (Z * Z) * list Z :=
  let '(tbl, ord) := s in
  if hmem k tbl then (hput k v tbl, ord) else (hput k v tbl, dll_add [k] ord).
Definition lmap_remove (k : Z) (s : list (Z * Z) * list Z) : list (Z * Z) * list Z :=
  let '(tbl, ord) := s in
  if hmem k tbl then (hdel k tbl, dll_remove (dll_index_of k ord) ord) else s.
Definition lmap_value (tbl : list (Z * Z)) (k : Z) : Z := match hget k tbl with Some v => v | None => 0 end.
Definition lmap_entries (tbl : list (Z * Z)) (ord : list Z) : list (Z * Z) := map (fun k => (k, lmap_value tbl k)) ord.

(* ---------- bidirectional maps ---------- *)
Definition hbidi_put (k v : Z) (s : list (Z * Z) * list (Z * Z)) : list (Z * Z) * list (Z * Z) :=
  let '(f, i) := s in
  let i1 := match hget k f with Some v0 => hdel v0 i | None => i end in
  let f1 := match hget v i1 with Some k0 => hdel k0 f | None => f end in
  (hput k v f1, hput v k i1).
Definition hbidi_remove (k : Z) (s : list (Z * Z) * list (Z * Z)) : list (Z * Z) * list (Z * Z) :=
  let '(f, i) := s in
  match hget k f with Some v => (hdel k f, hdel v i) | None => s end.

Definition tbidi := (rbs * rbs)%type.
Definition tbidi_put (kc vc : cmpf) (k v : Z) (s : tbidi) : option tbidi :=
  let '(f, i) := s in
  match (match rbs_get kc k f with Some v0 => rbs_remove vc v0 i | None => Some i end) with
  | None => None
  | Some i1 =>
    match (match rbs_get vc v i1 with Some k0 => rbs_remove kc k0 f | None => Some f end) with
    | None => None
    | Some f1 =>
      match rbs_put kc k v f1, rbs_put vc v k i1 with
      | Some f2, Some i2 => Some (f2, i2)
      | _, _ => None
      end
    end
  end.
Definition tbidi_remove (kc vc : cmpf) (k : Z) (s : tbidi) : option tbidi :=
  let '(f, i) := s in
  match rbs_get kc k f with
  | None => Some s
  | Some v => match rbs_remove kc k f, rbs_remove vc v i with
              | Some f', Some i' => Some (f', i')
              | _, _ => None
              end
  end.
Fixpoint tbidi_puts (kc vc : cmpf) (es : list (Z * Z)) (s : tbidi) : option tbidi :=
  match es with
  | [] => Some s
  | (k, v) :: es' => match tbidi_put kc vc k v s with Some s' => tbidi_puts kc vc es' s' | None => None end
  end.

(* ---------- configuration helpers ---------- *)
Definition kc (c : config) : cmpf := cmp_of (kcmp c).
Definition vc (c : config) : cmpf := cmp_of (vcmp c).
Definition bt_m (c : config) : nat := Z.to_nat (corder c).

Definition init (c : config) : state :=
  match ckind c with
  | ArrayList | SinglyLinkedList | DoublyLinkedList | ArrayStack | LinkedListStack
  | ArrayQueue | LinkedListQueue => StSeq []
  | HashSet => StHSet []
  | LinkedHashSet => StLSet [] []
  | TreeSet | TreeMap | RedBlackTree => StRB RB.E 0
  | AVLTree => StAVL AVL.E 0
  | BTree => if corder c <? 3 then StCrash else StBT None 0           (* documented panic *)
  | BinaryHeap | PriorityQueue => StHeap []
  | CircularBuffer => if ccap c <? 1 then StCrash else StRing (Ring.rinit (Z.to_nat (ccap c)))   (* documented panic *)
  | HashMap => StHMap []
  | LinkedHashMap => StLMap [] []
  | HashBidiMap => StHBidi [] []
  | TreeBidiMap => StTBidi RB.E 0 RB.E 0
  end.

(* ---------- the sequence the container enumerates (Values(), and Keys() for key-value kinds) ---------- *)
Definition entries_of (c : config) (s : state) : list (Z * Z) :=      (* (key, value) in Keys() order *)
  match s with
  | StRB t _ => RB.inorder t
  | StAVL t _ => AVL.inorder t
  | StBT r _ => bt_inorder r
  | StHMap l => l
  | StLMap tbl ord => lmap_entries tbl ord
  | StHBidi f _ => f
  | StTBidi f _ _ _ => RB.inorder f
  | _ => []
  end.

Definition values_of (c : config) (s : state) : list Z :=
  match s with
  | StSeq l => match ckind c with ArrayStack => rev l | _ => l end     (* the array stack lists top first *)
  | StHSet l => l
  | StLSet _ ord => ord
  | StRB t _ => match ckind c with TreeSet => RB.keys t | _ => RB.values t end
  | StAVL t _ => AVL.values t
  | StBT r _ => map snd (bt_inorder r)
  | StHeap l => Heap.values (kc c) l
  | StRing r => Ring.rvalues r
  | StHMap l => map snd l
  | StLMap tbl ord => map (lmap_value tbl) ord
  | StHBidi _ i => map fst i                                            (* inverseMap.Keys() *)
  | StTBidi _ _ i _ => RB.keys i
  | StCrash => []
  end.

Definition keys_of (c : config) (s : state) : list Z := map fst (entries_of c s).

Definition size_of (c : config) (s : state) : Z :=
  match s with
  | StSeq l => zlen l
  | StHSet l => zlen l
  | StLSet _ ord => zlen ord                                            (* ordering.Size() *)
  | StRB _ n => n
  | StAVL _ n => n
  | StBT _ n => n
  | StHeap l => zlen l
  | StRing r => Z.of_nat (Ring.rsize r)
  | StHMap l => zlen l
  | StLMap _ ord => zlen ord
  | StHBidi f _ => zlen f
  | StTBidi _ fn _ _ => fn
  | StCrash => 0
  end.

Definition is_kv (k : kind) : bool :=
  match k with
  | HashMap | TreeMap | LinkedHashMap | HashBidiMap | TreeBidiMap | RedBlackTree | AVLTree | BTree => true
  | _ => false
  end.

(* ---------- building a container from a sequence of elements (constructors, FromJSON, Select, Map) ---------- *)
Definition add_values (c : config) (vs : list Z) (s : state) : state :=
  match s with
  | StSeq l =>
    match ckind c with
    | ArrayList | ArrayStack | ArrayQueue => StSeq (al_add vs l)
    | SinglyLinkedList | LinkedListQueue => StSeq (sll_add vs l)
    | DoublyLinkedList => StSeq (dll_add vs l)
    | LinkedListStack => StSeq (sll_add vs l)
    | _ => s
    end
  | StHSet l => StHSet (fold_left (fun acc x => sadd x acc) vs l)
  | StLSet tbl ord => let '(t, o) := fold_left (fun acc x => lset_add1 x acc) vs (tbl, ord) in StLSet t o
  | StRB t n => match rbs_puts (kc c) (map (fun x => (x, 0)) vs) (t, n) with
                | Some (t', n') => StRB t' n' | None => StCrash end
  | _ => s
  end.

Definition put_entries (c : config) (es : list (Z * Z)) (s : state) : state :=
  match s with
  | StRB t n => match rbs_puts (kc c) es (t, n) with Some (t', n') => StRB t' n' | None => StCrash end
  | StAVL t n => match avl_puts (kc c) es t n with Some (t', n') => StAVL t' n' | None => StCrash end
  | StBT r n => match bt_puts (bt_m c) (kc c) es r n with Some (r', n') => StBT r' n' | None => StCrash end
  | StHMap l => StHMap (fold_left (fun acc e => hput (fst e) (snd e) acc) es l)
  | StLMap tbl ord => let '(t, o) := fold_left (fun acc e => lmap_put (fst e) (snd e) acc) es (tbl, ord) in StLMap t o
  | StHBidi f i => let '(f', i') := fold_left (fun acc e => hbidi_put (fst e) (snd e) acc) es (f, i) in StHBidi f' i'
  | StTBidi f fn i inn =>
    match tbidi_puts (kc c) (vc c) es ((f, fn), (i, inn)) with
    | Some ((f', fn'), (i', inn')) => StTBidi f' fn' i' inn'
    | None => StCrash
    end
  | _ => s
  end.

(* ---------- JSON (content level; bytes are encoding/json's business) ---------- *)
(* what ToJSON denotes: an array of elements, or an object as a member list.  Object members of the
   hash- and tree-backed kinds are compared in ascending key order (encoding/json sorts map keys);
   LinkedHashMap writes its members itself, in insertion order. *)
Definition sort_entries (es : list (Z * Z)) : list (Z * Z) := fold_left (fun acc e => hput (fst e) (snd e) acc) es [].
Definition to_json (c : config) (s : state) : obs :=
  if is_kv (ckind c) then
    match s with
    | StLMap tbl ord => OL [OZ 1; opairs (lmap_entries tbl ord)]
    | _ => OL [OZ 1; opairs (sort_entries (entries_of c s))]
    end
  else
    match s with
    | StSeq l => OL [OZ 0; ozs l]                                        (* backing list order, both stacks included *)
    | StHeap l => OL [OZ 0; ozs l]                                       (* raw heap array *)
    | _ => OL [OZ 0; ozs (values_of c s)]
    end.

(* keep the last c values (a ring loaded from a longer array) *)
Fixpoint ring_enqs (vs : list Z) (r : Ring.ring) : Ring.ring :=
  match vs with [] => r | v :: vs' => ring_enqs vs' (Ring.renq v r) end.

(* document-order member list -> first position, last value per distinct key (what decoding into a Go
   map and re-reading the key order from the document gives) *)
Fixpoint dedup_last (es : list (Z * Z)) (seen : list Z) (all : list (Z * Z)) : list (Z * Z) :=
  match es with
  | [] => []
  | (k, _) :: es' =>
    if existsb (Z.eqb k) seen then dedup_last es' seen all
    else (k, match hget k (sort_entries all) with Some v => v | None => 0 end) :: dedup_last es' (k :: seen) all
  end.

Definition load_array (c : config) (vs : list Z) : state :=
  match ckind c with
  | BinaryHeap | PriorityQueue => StHeap (Heap.heapify_from (kc c) vs (length vs / 2 + 1))
  | CircularBuffer => match init c with StRing r => StRing (ring_enqs vs r) | s => s end
  | ArrayList | ArrayStack | ArrayQueue => StSeq vs                     (* the decoded slice becomes the backing list *)
  | _ => add_values c vs (init c)                                       (* Clear + Add(elements...) *)
  end.

Definition from_json (c : config) (d : decoded) (s : state) : state * bool :=
  match s with
  | StCrash => (StCrash, false)
  | _ =>
    if is_kv (ckind c) then
      match d with
      | DObj kvs =>
        match ckind c with
        | LinkedHashMap => (put_entries c (dedup_last kvs [] kvs) (init c), true)
        | _ => (put_entries c (sort_entries kvs) (init c), true)         (* a Go map is ranged over: order-insensitive here *)
        end
      | DNull => (init c, true)
      | _ => (s, false)
      end
    else
      match d with
      | DArr vs => (load_array c vs, true)
      | DNull => (load_array c [], true)
      | _ => (s, false)
      end
  end.

(* ---------- iterators ---------- *)
Definition script_fuel (c : config) (s : state) : nat := S (S (Z.to_nat (size_of c s))).

Definition run_iter (c : config) (s : state) (cs : list icall) : list obs :=
  let fuel := script_fuel c s in
  let n := size_of c s in
  match s with
  | StSeq l =>
    match ckind c with
    | ArrayList | ArrayQueue =>
      run_script Z (ix_next n) (ix_prev n) ix_begin (ix_end n) (ix_cur (fun i => al_get i l)) true fuel (-1) cs
    | ArrayStack =>
      run_script Z (ix_next n) (ix_prev n) ix_begin (ix_end n) (ix_cur (fun i => al_get (n - i - 1) l)) true fuel (-1) cs
    | LinkedListStack | LinkedListQueue =>
      run_script Z (ix_next n) (ix_prev n) ix_begin (ix_end n) (ix_cur (fun i => sll_get i l)) false fuel (-1) cs
    | SinglyLinkedList =>
      run_script (Z * cell) (ll_next l) (ll_prev l) ll_begin (ll_end l) (ll_cur l) false fuel (-1, None) cs
    | _ =>
      run_script (Z * cell) (ll_next l) (ll_prev l) ll_begin (ll_end l) (ll_cur l) true fuel (-1, None) cs
    end
  | StLSet _ ord =>
    run_script (Z * cell) (ll_next ord) (ll_prev ord) ll_begin (ll_end ord) (ll_cur ord) true fuel (-1, None) cs
  | StLMap tbl ord =>
    run_script (Z * cell) (ll_next ord) (ll_prev ord) ll_begin (ll_end ord)
      (fun st => match ll_cur ord st with Some (_, k) => Some (k, lmap_value tbl k) | None => None end)
      true fuel (-1, None) cs
  | StRing r =>
    run_script Z (ix_next n) (ix_prev n) ix_begin (ix_end n)
      (ix_cur (fun i => if inrange n i
                        then Some (get (Ring.rvals r) (Z.to_nat ((i + Z.of_nat (Ring.rstart r)) mod Z.of_nat (Ring.rmax r))))
                        else None))
      true fuel (-1) cs
  | StHeap l =>
    run_script Z (ix_next n) (ix_prev n) ix_begin (ix_end n)
      (ix_cur (fun i => if inrange n i then Some (Heap.iter_value (kc c) l (Z.to_nat i)) else None))
      true fuel (-1) cs
  | StRB t _ =>
    match ckind c with
    | TreeSet =>
      run_script (Z * RB.ipos) (ts_next t n) (ts_prev t) ts_begin (ts_end n) (ts_cur t) true fuel (-1, RB.IBegin) cs
    | _ =>
      run_script RB.ipos (rb_next t) (rb_prev t) (fun _ => RB.IBegin) (fun _ => RB.IEnd) (RB.ikv t) true fuel RB.IBegin cs
    end
  | StTBidi f _ _ _ =>
    run_script RB.ipos (rb_next f) (rb_prev f) (fun _ => RB.IBegin) (fun _ => RB.IEnd) (RB.ikv f) true fuel RB.IBegin cs
  | StAVL t _ =>
    run_script AVL.ipos (avl_next t) (avl_prev t) (fun _ => AVL.IBegin) (fun _ => AVL.IEnd) (AVL.ikv t) true fuel AVL.IBegin cs
  | StBT r _ =>
    run_script BTI.ipos (bt_next (kc c) r) (bt_prev (kc c) r) (fun _ => BTI.IBegin) (fun _ => BTI.IEnd)
      (BTI.ientry r) true fuel BTI.IBegin cs
  | _ => [ounsupported]
  end.

(* the (index-or-key, value) sequence a fresh iterator walks: what the enumerable functions range over *)
Definition each_of (c : config) (s : state) : option (list (Z * Z)) :=
  let fuel := script_fuel c s in
  let n := size_of c s in
  match s with
  | StSeq l =>
    match ckind c with
    | ArrayList => walk Z (ix_cur (fun i => al_get i l)) (ix_next n) fuel (-1)
    | _ => walk (Z * cell) (ll_cur l) (ll_next l) fuel (-1, None)
    end
  | StLSet _ ord => walk (Z * cell) (ll_cur ord) (ll_next ord) fuel (-1, None)
  | StLMap tbl ord =>
    walk (Z * cell) (fun st => match ll_cur ord st with Some (_, k) => Some (k, lmap_value tbl k) | None => None end)
      (ll_next ord) fuel (-1, None)
  | StRB t _ =>
    match ckind c with
    | TreeSet => walk (Z * RB.ipos) (ts_cur t) (ts_next t n) fuel (-1, RB.IBegin)
    | _ => walk RB.ipos (RB.ikv t) (rb_next t) fuel RB.IBegin
    end
  | StTBidi f _ _ _ => walk RB.ipos (RB.ikv f) (rb_next f) fuel RB.IBegin
  | StAVL t _ => walk AVL.ipos (AVL.ikv t) (avl_next t) fuel AVL.IBegin
  | StBT r _ => walk BTI.ipos (BTI.ientry r) (bt_next (kc c) r) fuel BTI.IBegin
  | _ => None
  end.

(* backward walk (ordered key-value kinds), for the observation vector *)
Definition each_back (c : config) (s : state) : option (list (Z * Z)) :=
  let fuel := script_fuel c s in
  match s with
  | StRB t _ => walk RB.ipos (RB.ikv t) (rb_prev t) fuel RB.IEnd
  | StTBidi f _ _ _ => walk RB.ipos (RB.ikv f) (rb_prev f) fuel RB.IEnd
  | StAVL t _ => walk AVL.ipos (AVL.ikv t) (avl_prev t) fuel AVL.IEnd
  | StBT r _ => walk BTI.ipos (BTI.ientry r) (bt_prev (kc c) r) fuel BTI.IEnd
  | StLMap tbl ord =>
    walk (Z * cell) (fun st => match ll_cur ord st with Some (_, k) => Some (k, lmap_value tbl k) | None => None end)
      (ll_prev ord) fuel (ll_end ord (-1, None))
  | _ => None
  end.

(* ---------- content of a container as an observation (results of Select / Map / set algebra) ---------- *)
Definition content_obs (c : config) (s : state) : obs :=
  match s with
  | StCrash => ocrash
  | _ => if is_kv (ckind c)
         then OL [ozs (keys_of c s); ozs (values_of c s)]
         else ozs (values_of c s)
  end.

(* ---------- enumerable functions: loops over the container's own iterator ---------- *)
Definition has_enumerable (k : kind) : bool :=
  match k with
  | ArrayList | SinglyLinkedList | DoublyLinkedList | TreeSet | LinkedHashSet | TreeMap | LinkedHashMap | TreeBidiMap => true
  | _ => false
  end.
Definition find_first (p : pred) (es : list (Z * Z)) : option (Z * Z) :=
  find (fun e => pred_eval p (fst e) (snd e)) es.
Definition select_of (c : config) (p : pred) (es : list (Z * Z)) : state :=
  let kept := filter (fun e => pred_eval p (fst e) (snd e)) es in
  if is_kv (ckind c) then put_entries c kept (init c) else add_values c (map snd kept) (init c).
Definition map_of (c : config) (f : mapf) (es : list (Z * Z)) : state :=
  let mapped := map (fun e => mapf_eval f (fst e) (snd e)) es in
  if is_kv (ckind c) then put_entries c mapped (init c) else add_values c (map snd mapped) (init c).

(* ---------- set algebra, following each implementation ---------- *)
Definition set_of (c : config) (b : list Z) : state := add_values c b (init c).
(* TreeSet: iterate one operand in order, probe the other, Add to a fresh tree with the receiver's comparator *)
Definition ts_inter (c : config) (a b : rbs) : state :=
  let pick := if snd a <=? snd b then (a, b) else (b, a) in
  let '(x, y) := pick in
  add_values c (filter (fun k => match RB.lookup (kc c) k (fst y) with Some _ => true | None => false end) (RB.keys (fst x))) (init c).
Definition ts_union (c : config) (a b : rbs) : state :=
  add_values c (RB.keys (fst a) ++ RB.keys (fst b)) (init c).
Definition ts_diff (c : config) (a b : rbs) : state :=
  add_values c (filter (fun k => match RB.lookup (kc c) k (fst b) with Some _ => false | None => true end) (RB.keys (fst a))) (init c).
(* hash-table based kinds: the result is compared as a set (ascending), its order is unspecified *)
Definition hs_inter (a b : list Z) : list Z := filter (fun x => smem x b) a.
Definition hs_union (a b : list Z) : list Z := fold_left (fun acc x => sadd x acc) (a ++ b) [].
Definition hs_diff (a b : list Z) : list Z := filter (fun x => negb (smem x b)) a.

Inductive alg := AInter | AUnion | ADiff.
Definition set_algebra (c : config) (o : alg) (s other : state) : obs :=
  match s, other with
  | StHSet a, StHSet b => ozs (match o with AInter => hs_inter a b | AUnion => hs_union a b | ADiff => hs_diff a b end)
  | StLSet a _, StLSet b _ => ozs (match o with AInter => hs_inter a b | AUnion => hs_union a b | ADiff => hs_diff a b end)
  | StRB ta na, StRB tb nb =>
    content_obs c (match o with
                   | AInter => ts_inter c (ta, na) (tb, nb)
                   | AUnion => ts_union c (ta, na) (tb, nb)
                   | ADiff => ts_diff c (ta, na) (tb, nb)
                   end)
  | _, _ => ounsupported
  end.

(* ---------- one operation: new state, result, comparator-call count (trees) ---------- *)
Definition pure (s : state) (o : obs) : state * obs * obs := (s, o, onone).
Definition cost (n : nat) : obs := OL [OZ (Z.of_nat n)].

Definition step (c : config) (s : state) (o : op) : state * obs * obs :=
  match s with
  | StCrash => (StCrash, ocrash, onone)
  | _ =>
  match o with
  | Clear =>
    (match s with
     | StRing r => StRing (Ring.rclear r)
     | _ => init c
     end, ounit, onone)
  | FromJSON d => let '(s', ok) := from_json c d s in (s', obool ok, onone)
  | Iter cs => pure s (OL (run_iter c s cs))
  (* ----- lists ----- *)
  | Add vs =>
    match s with
    | StSeq _ | StHSet _ | StLSet _ _ | StRB _ _ =>
      match ckind c with
      | ArrayList | SinglyLinkedList | DoublyLinkedList | HashSet | TreeSet | LinkedHashSet => (add_values c vs s, ounit, onone)
      | _ => pure s ounsupported
      end
    | _ => pure s ounsupported
    end
  | Append vs =>
    match s, ckind c with
    | StSeq l, SinglyLinkedList => (StSeq (sll_add vs l), ounit, onone)
    | StSeq l, DoublyLinkedList => (StSeq (dll_add vs l), ounit, onone)
    | _, _ => pure s ounsupported
    end
  | Prepend vs =>
    match s, ckind c with
    | StSeq l, SinglyLinkedList => (StSeq (sll_prepend vs l), ounit, onone)
    | StSeq l, DoublyLinkedList => (StSeq (dll_prepend vs l), ounit, onone)
    | _, _ => pure s ounsupported
    end
  | Insert i vs =>
    match s, ckind c with
    | StSeq l, ArrayList => (StSeq (al_insert i vs l), ounit, onone)
    | StSeq l, SinglyLinkedList => (StSeq (sll_insert i vs l), ounit, onone)
    | StSeq l, DoublyLinkedList => (StSeq (dll_insert i vs l), ounit, onone)
    | _, _ => pure s ounsupported
    end
  | SetAt i v =>
    match s, ckind c with
    | StSeq l, ArrayList => (StSeq (al_set i v l), ounit, onone)
    | StSeq l, SinglyLinkedList => (StSeq (sll_set i v l), ounit, onone)
    | StSeq l, DoublyLinkedList => (StSeq (dll_set i v l), ounit, onone)
    | _, _ => pure s ounsupported
    end
  | RemoveAt i =>
    match s, ckind c with
    | StSeq l, ArrayList => (StSeq (al_remove i l), ounit, onone)
    | StSeq l, SinglyLinkedList => (StSeq (sll_remove i l), ounit, onone)
    | StSeq l, DoublyLinkedList => (StSeq (dll_remove i l), ounit, onone)
    | _, _ => pure s ounsupported
    end
  | Swap i j =>
    match s, ckind c with
    | StSeq l, ArrayList => (StSeq (al_swap i j l), ounit, onone)
    | StSeq l, SinglyLinkedList => (StSeq (sll_swap i j l), ounit, onone)
    | StSeq l, DoublyLinkedList => (StSeq (dll_swap i j l), ounit, onone)
    | _, _ => pure s ounsupported
    end
  | Sort ci res =>
    match s, ckind c with
    | StSeq l, (ArrayList | SinglyLinkedList | DoublyLinkedList) =>
      (* size < 2: nothing happens.  Otherwise the implementation's result is accepted iff it is
         a comparator-sorted permutation of the content (validated, never trusted). *)
      if zlen l <? 2 then (s, obool (sort_okb (cmp_of ci) l res), onone)
      else if sort_okb (cmp_of ci) l res then (StSeq res, obool true, onone)
      else (StSeq (isort (cmp_of ci) l), obool false, onone)
    | _, _ => pure s ounsupported
    end
  (* ----- sets ----- *)
  | RemoveVals vs =>
    match s, ckind c with
    | StHSet l, HashSet => (StHSet (fold_left (fun acc x => sdel x acc) vs l), ounit, onone)
    | StLSet tbl ord, LinkedHashSet =>
      let '(t, o') := fold_left (fun acc x => lset_remove1 x acc) vs (tbl, ord) in (StLSet t o', ounit, onone)
    | StRB t n, TreeSet =>
      match rbs_removes (kc c) vs (t, n) with
      | Some (t', n') => (StRB t' n', ounit, onone)
      | None => (StCrash, ocrash, onone)
      end
    | _, _ => pure s ounsupported
    end
  (* ----- stacks, queues, heap ----- *)
  | Push v =>
    match s, ckind c with
    | StSeq l, ArrayStack => (StSeq (al_add [v] l), ounit, onone)                 (* list.Add *)
    | StSeq l, LinkedListStack => (StSeq (sll_prepend [v] l), ounit, onone)       (* list.Prepend *)
    | StHeap l, BinaryHeap => (StHeap (Heap.push (kc c) [v] l), ounit, onone)
    | _, _ => pure s ounsupported
    end
  | PushAll vs =>
    match s, ckind c with
    | StHeap l, BinaryHeap => (StHeap (Heap.push (kc c) vs l), ounit, onone)
    | _, _ => pure s ounsupported
    end
  | Pop =>
    match s, ckind c with
    | StSeq l, ArrayStack =>                                                        (* Get(size-1), Remove(size-1) *)
      (StSeq (al_remove (zlen l - 1) l), oopt (al_get (zlen l - 1) l), onone)
    | StSeq l, LinkedListStack => (StSeq (sll_remove 0 l), oopt (sll_get 0 l), onone)
    | StHeap l, BinaryHeap => let '(l', r) := Heap.pop (kc c) l in (StHeap l', oopt r, onone)
    | _, _ => pure s ounsupported
    end
  | Enqueue v =>
    match s, ckind c with
    | StSeq l, ArrayQueue => (StSeq (al_add [v] l), ounit, onone)
    | StSeq l, LinkedListQueue => (StSeq (sll_add [v] l), ounit, onone)
    | StRing r, CircularBuffer => (StRing (Ring.renq v r), ounit, onone)
    | StHeap l, PriorityQueue => (StHeap (Heap.push (kc c) [v] l), ounit, onone)
    | _, _ => pure s ounsupported
    end
  | Dequeue =>
    match s, ckind c with
    | StSeq l, ArrayQueue => (StSeq (al_remove 0 l), oopt (al_get 0 l), onone)
    | StSeq l, LinkedListQueue => (StSeq (sll_remove 0 l), oopt (sll_get 0 l), onone)
    | StRing r, CircularBuffer => let '(r', v) := Ring.rdeq r in (StRing r', oopt v, onone)
    | StHeap l, PriorityQueue => let '(l', r) := Heap.pop (kc c) l in (StHeap l', oopt r, onone)
    | _, _ => pure s ounsupported
    end
  (* ----- maps, trees ----- *)
  | Put k v =>
    match s with
    | StRB t n =>
      match ckind c with
      | TreeSet => pure s ounsupported
      | _ => match rbs_put (kc c) k v (t, n) with
             | Some (t', n') => (StRB t' n', ounit, cost (RB.put_cost (kc c) k t))
             | None => (StCrash, ocrash, onone)
             end
      end
    | StAVL t n =>
      match avl_put (kc c) k v t n with
      | Some (t', n') => (StAVL t' n', ounit, cost (AVL.put_cost (kc c) k t))
      | None => (StCrash, ocrash, onone)
      end
    | StBT r n =>
      match bt_put (bt_m c) (kc c) k v r n with
      | Some (r', n') => (StBT r' n', ounit, cost (BTC.put_c (bt_m c) (kc c) (bt_fuel r) (k, v) r))
      | None => (StCrash, ocrash, onone)
      end
    | StHMap l => (StHMap (hput k v l), ounit, onone)
    | StLMap tbl ord => let '(t, o') := lmap_put k v (tbl, ord) in (StLMap t o', ounit, onone)
    | StHBidi f i => let '(f', i') := hbidi_put k v (f, i) in (StHBidi f' i', ounit, onone)
    | StTBidi f fn i inn =>
      match tbidi_put (kc c) (vc c) k v ((f, fn), (i, inn)) with
      | Some ((f', fn'), (i', inn')) => (StTBidi f' fn' i' inn', ounit, onone)
      | None => (StCrash, ocrash, onone)
      end
    | _ => pure s ounsupported
    end
  | Remove k =>
    match s with
    | StRB t n =>
      match ckind c with
      | TreeSet => pure s ounsupported
      | _ => match rbs_remove (kc c) k (t, n) with
             | Some (t', n') => (StRB t' n', ounit, cost (RB.remove_cost (kc c) k t))
             | None => (StCrash, ocrash, onone)
             end
      end
    | StAVL t n =>
      match avl_remove (kc c) k t n with
      | Some (t', n') => (StAVL t' n', ounit, cost (AVL.remove_cost (kc c) k t))
      | None => (StCrash, ocrash, onone)
      end
    | StBT r n =>
      match bt_remove (bt_m c) (kc c) k r n with
      | Some (r', n') => (StBT r' n', ounit, cost (BTC.remove_c (bt_m c) (kc c) (bt_fuel r) k r))
      | None => (StCrash, ocrash, onone)
      end
    | StHMap l => (StHMap (hdel k l), ounit, onone)
    | StLMap tbl ord => let '(t, o') := lmap_remove k (tbl, ord) in (StLMap t o', ounit, onone)
    | StHBidi f i => let '(f', i') := hbidi_remove k (f, i) in (StHBidi f' i', ounit, onone)
    | StTBidi f fn i inn =>
      match tbidi_remove (kc c) (vc c) k ((f, fn), (i, inn)) with
      | Some ((f', fn'), (i', inn')) => (StTBidi f' fn' i' inn', ounit, onone)
      | None => (StCrash, ocrash, onone)
      end
    | _ => pure s ounsupported
    end
  (* ----- enumerable functions ----- *)
  | Each | AnyP _ | AllP _ | FindP _ | SelectP _ | MapF _ =>
    if negb (has_enumerable (ckind c)) then pure s ounsupported else
    match each_of c s with
    | None => pure s ocrash
    | Some es =>
      pure s (match o with
              | Each => opairs es
              | AnyP p => obool (existsb (fun e => pred_eval p (fst e) (snd e)) es)
              | AllP p => obool (forallb (fun e => pred_eval p (fst e) (snd e)) es)
              | FindP p => match find_first p es with
                           | Some (i, v) => opair i v
                           | None => if is_kv (ckind c) then opair 0 0 else opair (-1) 0
                           end
              | SelectP p => content_obs c (select_of c p es)
              | MapF f => content_obs c (map_of c f es)
              | _ => ounsupported
              end)
    end
  (* ----- set algebra ----- *)
  | Inter b => pure s (set_algebra c AInter s (set_of c b))
  | Union b => pure s (set_algebra c AUnion s (set_of c b))
  | Diff b => pure s (set_algebra c ADiff s (set_of c b))
  | InterSelf => pure s (set_algebra c AInter s s)
  | UnionSelf => pure s (set_algebra c AUnion s s)
  | DiffSelf => pure s (set_algebra c ADiff s s)
  (* ----- containers.GetSortedValues / GetSortedValuesFunc ----- *)
  | SortedValues => pure s (ozs (isort Z.compare (values_of c s)))
  | SortedValuesFunc ci res => pure s (obool (sort_okb (cmp_of ci) (values_of c s) res))
  end
  end.

Definition run_from (c : config) (s : state) (ops : list op) : state :=
  fold_left (fun st o => fst (fst (step c st o))) ops s.
Definition run (c : config) (ops : list op) : state := run_from c (init c) ops.

(* ---------- the observation vector ---------- *)
Fixpoint zrange (lo : Z) (n : nat) : list Z := match n with O => [] | S k => lo :: zrange (lo + 1) k end.
Definition probes (c : config) : list Z := zrange (-1) (Z.to_nat (cuni c + 2)).       (* -1 .. cuni *)
Definition contains_probes (c : config) : list (list Z) :=
  [] :: map (fun v => [v]) (probes c) ++ [[0; 1]; [1; 1; 0]; [cuni c; 0]; [0; -1]].

Fixpoint rb_shape (t : RB.tree) : obs :=
  match t with
  | RB.E => OL []
  | RB.T col l k v r => OL [OZ (match col with RB.Red => 0 | RB.Black => 1 end); OZ k; OZ v; rb_shape l; rb_shape r]
  end.
Fixpoint avl_shape (t : AVL.tree) : obs :=
  match t with
  | AVL.E => OL []
  | AVL.T b l k v r => OL [OZ b; OZ k; OZ v; avl_shape l; avl_shape r]
  end.
Fixpoint bt_shape (n : BT.node) : obs :=
  match n with BT.N es cs => OL [opairs es; OL (map bt_shape cs)] end.

Definition peek_of (c : config) (s : state) : obs :=
  match s, ckind c with
  | StSeq l, ArrayStack => oopt (al_get (zlen l - 1) l)
  | StSeq l, LinkedListStack => oopt (sll_get 0 l)
  | StSeq l, ArrayQueue => oopt (al_get 0 l)
  | StSeq l, LinkedListQueue => oopt (sll_get 0 l)
  | StRing r, _ => oopt (Ring.rpeek r)
  | StHeap l, _ => oopt (hd_error l)
  | _, _ => ounsupported
  end.

Definition get_of (c : config) (s : state) (k : Z) : obs :=
  match s with
  | StRB t _ => oopt (rbs_get (kc c) k (t, 0))
  | StAVL t _ => oopt (match AVL.lookup (kc c) k t with Some (_, v) => Some v | None => None end)
  | StBT r _ => oopt (match bt_get (kc c) k r with Some (_, v) => Some v | None => None end)
  | StHMap l => oopt (hget k l)
  | StLMap tbl _ => oopt (hget k tbl)
  | StHBidi f _ => oopt (hget k f)
  | StTBidi f _ _ _ => oopt (rbs_get (kc c) k (f, 0))
  | _ => ounsupported
  end.
Definition getkey_of (c : config) (s : state) (v : Z) : obs :=
  match s with
  | StHBidi _ i => oopt (hget v i)
  | StTBidi _ _ i _ => oopt (rbs_get (vc c) v (i, 0))
  | _ => ounsupported
  end.
Definition contains_of (c : config) (s : state) (vs : list Z) : obs :=
  match s, ckind c with
  | StSeq l, ArrayList => obool (al_contains vs l)
  | StSeq l, SinglyLinkedList => obool (sll_contains vs l)
  | StSeq l, DoublyLinkedList => obool (dll_contains vs l)
  | StHSet l, _ => obool (forallb (fun x => smem x l) vs)
  | StLSet tbl _, _ => obool (forallb (fun x => smem x tbl) vs)
  | StRB t _, TreeSet => obool (forallb (fun x => match RB.lookup (kc c) x t with Some _ => true | None => false end) vs)
  | _, _ => ounsupported
  end.

Definition all_sane : obs := OL [OZ 1; OZ 1; OZ 1; OZ 1; OZ 1; OZ 1; OZ 1; OZ 1].

(* level 0: size, raw structure and costs only (long histories); level 1: everything *)
Definition observe (c : config) (level : Z) (s : state) : list (tag * obs) :=
  match s with
  | StCrash => [(TSane, ocrash)]
  | _ =>
  let full := 1 <=? level in
  let k := ckind c in
  [(TSize, OZ (size_of c s))] ++
  (if full then [(TEmpty, obool (size_of c s =? 0)); (TValues, ozs (values_of c s))] else []) ++
  (if full && is_kv k then [(TKeys, ozs (keys_of c s)); (TGet, OL (map (get_of c s) (probes c)))] else []) ++
  (if full then
     match k with
     | HashBidiMap | TreeBidiMap => [(TGetKey, OL (map (getkey_of c s) (probes c)))]
     | ArrayList | SinglyLinkedList | DoublyLinkedList =>
       match s with
       | StSeq l =>
         [(TGetIdx, OL (map (fun i => oopt (match k with
                                            | ArrayList => al_get i l
                                            | SinglyLinkedList => sll_get i l
                                            | _ => dll_get i l end))
                            (zrange (-2) (length l + 4))));
          (TIndexOf, ozs (map (fun v => match k with
                                        | ArrayList => al_index_of v l
                                        | SinglyLinkedList => sll_index_of v l
                                        | _ => dll_index_of v l end) (probes c)));
          (TContains, OL (map (contains_of c s) (contains_probes c)))]
       | _ => []
       end
     | HashSet | TreeSet | LinkedHashSet => [(TContains, OL (map (contains_of c s) (contains_probes c)))]
     | ArrayStack | LinkedListStack | ArrayQueue | LinkedListQueue | PriorityQueue | BinaryHeap => [(TPeek, peek_of c s)]
     | CircularBuffer =>
       match s with StRing r => [(TPeek, peek_of c s); (TFull, obool (Ring.rfullb r))] | _ => [] end
     | _ => []
     end
   else []) ++
  (* navigation on the ordered key-value kinds *)
  (if full then
     match s, k with
     | StRB t _, (RedBlackTree | TreeMap) =>
       [(TLeft, oopt2 (RB.leftmost t)); (TRight, oopt2 (RB.rightmost t));
        (TFloor, OL (map (fun p => oopt2 (RB.floor (kc c) p t)) (probes c)));
        (TCeiling, OL (map (fun p => oopt2 (RB.ceiling (kc c) p t)) (probes c)))]
     | StAVL t _, _ =>
       [(TLeft, oopt2 (AVL.leftmost t)); (TRight, oopt2 (AVL.rightmost t));
        (TFloor, OL (map (fun p => oopt2 (AVL.floor (kc c) p t)) (probes c)));
        (TCeiling, OL (map (fun p => oopt2 (AVL.ceiling (kc c) p t)) (probes c)))]
     | StBT r _, _ =>
       [(TLeft, oopt2 (match r with Some n => BT.left_entry n | None => None end));
        (TRight, oopt2 (match r with Some n => BT.right_entry n | None => None end))]
     | _, _ => []
     end
   else []) ++
  (if full then
     match each_of c s, each_back c s with
     | Some f, Some b => if is_kv k then [(TIterF, opairs f); (TIterB, opairs b)] else []
     | _, _ => []
     end
   else []) ++
  (* exact structure and comparator-call counts *)
  match s, k with
  | StRB t _, RedBlackTree =>
    [(TShape, rb_shape t); (TCost, ozs (map (fun p => Z.of_nat (RB.get_cost (kc c) p t)) (probes c)))]
  | StRB t _, (TreeMap | TreeSet) => [(TShape, rb_shape t)]
  | StTBidi f _ i _, _ => [(TShape, OL [rb_shape f; rb_shape i])]
  | StAVL t _, _ =>
    [(TShape, avl_shape t); (TCost, ozs (map (fun p => Z.of_nat (AVL.get_cost (kc c) p t)) (probes c)))]
  | StBT r _, _ =>
    [(THeight, OZ (match r with Some n => Z.of_nat (BT.height n) | None => 0 end));
     (TShape, match r with Some n => bt_shape n | None => OL [] end);
     (TCost, ozs (map (fun p => match r with
                                | Some n => Z.of_nat (BTC.get_c (kc c) (bt_fuel r) p n)
                                | None => 0 end) (probes c)))]
  | StHeap l, _ => [(TRaw, ozs l)]
  | StRing r, _ =>
    [(TRaw, OL [ozs (Ring.rvals r); OZ (Z.of_nat (Ring.rstart r)); OZ (Z.of_nat (Ring.rend r));
                obool (Ring.rfull r); OZ (Z.of_nat (Ring.rmax r)); OZ (Z.of_nat (Ring.rsize r))])]
  | StLSet tbl _, _ => [(TRaw, ozs tbl)]
  | StLMap tbl _, _ => [(TRaw, opairs tbl)]
  | StHBidi _ i, _ => [(TRaw, opairs i)]
  | _, _ => []
  end ++
  (if full then [(TJson, to_json c s)] else []) ++
  [(TSane, all_sane)]
  end.
