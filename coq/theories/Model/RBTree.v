From Coq Require Import ZArith List Lia Bool.
From Gods Require Import Common.Cmp.
Import ListNotations.
Local Open Scope Z_scope.

Inductive color := Red | Black.
Inductive tree := E | T (c : color) (l : tree) (k : Z) (v : Z) (r : tree).


Definition col (t : tree) : color := match t with E => Black | T c _ _ _ _ => c end.
Definition is_red t := match col t with Red => true | Black => false end.
Definition setcol (c : color) (t : tree) := match t with E => E | T _ l k v r => T c l k v r end.

Inductive side := L | R.
(* status returned by insertion into a subtree *)
Inductive istat := IDone | ICheck | IRedRed (d : side).

Definition outcome (A : Type) := option A. (* None = Go would panic (nil dereference) *)

(* g is the grandparent, built from its colour/children; p' (red) sits on side s, red grandchild on side d *)
Definition ins_fix_g (gc : color) (gl : tree) (gk gv : Z) (gr : tree) (s d : side) : outcome (tree * istat) :=
  match s with
  | L =>
    (* parent = gl, uncle = gr *)
    if is_red gr then Some (T Red (setcol Black gl) gk gv (setcol Black gr), ICheck)
    else match gl with
      | E => None
      | T _ pl pk pv pr =>
        match d with
        | L => (* case5: p black, g red, rotateRight g *)
            Some (T Black pl pk pv (T Red pr gk gv gr), IDone)
        | R => (* case4: rotateLeft p ; then case5 on old p with parent n *)
            match pr with
            | E => None
            | T _ nl nk nv nr =>
              Some (T Black (T Red pl pk pv nl) nk nv (T Red nr gk gv gr), IDone)
            end
        end
      end
  | R =>
    if is_red gl then Some (T Red (setcol Black gl) gk gv (setcol Black gr), ICheck)
    else match gr with
      | E => None
      | T _ pl pk pv pr =>
        match d with
        | R => Some (T Black (T Red gl gk gv pl) pk pv pr, IDone)
        | L => match pl with
            | E => None
            | T _ nl nk nv nr =>
              Some (T Black (T Red gl gk gv nl) nk nv (T Red nr pk pv pr), IDone)
            end
        end
      end
  end.

Definition ins_up (c : color) (l : tree) (k v : Z) (r : tree) (s : side) (st : istat) : outcome (tree * istat) :=
  match st with
  | IDone => Some (T c l k v r, IDone)
  | ICheck => match c with
              | Black => Some (T c l k v r, IDone)         (* insertCase2 *)
              | Red => Some (T c l k v r, IRedRed s)       (* needs grandparent *)
              end
  | IRedRed d => ins_fix_g c l k v r s d
  end.

Fixpoint ins (cmp : cmpf) (key val : Z) (t : tree) : outcome (tree * istat * bool) :=
  match t with
  | E => Some (T Red E key val E, ICheck, true)
  | T c l k v r =>
    match cmp key k with
    | Eq => Some (T c l key val r, IDone, false)
    | Lt => match ins cmp key val l with
            | None => None
            | Some (l', st, b) => match ins_up c l' k v r L st with
                                  | None => None | Some (t', st') => Some (t', st', b) end
            end
    | Gt => match ins cmp key val r with
            | None => None
            | Some (r', st, b) => match ins_up c l k v r' R st with
                                  | None => None | Some (t', st') => Some (t', st', b) end
            end
    end
  end.

Definition put (cmp : cmpf) (key val : Z) (t : tree) : outcome (tree * bool) :=
  match ins cmp key val t with
  | None => None
  | Some (t', IDone, b) => Some (t', b)
  | Some (t', ICheck, b) => Some (setcol Black t', b)    (* insertCase1: root *)
  | Some (t', IRedRed _, b) => None                     (* red root with red child: Go derefs nil grandparent *)
  end.

(* ---------- deletion ---------- *)
Inductive dstat := DDone | DDeficit.

(* cases 3..6 at parent P=(pc,l,k,v,r) whose child on side s is deficient *)
Definition del_fix_3456 (pc : color) (l : tree) (k v : Z) (r : tree) (s : side) : outcome (tree * dstat) :=
  match s with
  | L =>
    match r with
    | E => None
    | T sc sl sk sv sr =>
      (* case3 *)
      match pc, sc, col sl, col sr with
      | Black, Black, Black, Black => Some (T pc l k v (T Red sl sk sv sr), DDeficit)
      | Red, Black, Black, Black => Some (T Black l k v (T Red sl sk sv sr), DDone)
      | _, _, _, _ =>
        (* case5 *)
        let '(sc, sl, sk, sv, sr, ok) :=
          match sc, col sl, col sr with
          | Black, Red, Black =>
              match sl with
              | T _ a xk xv b => (Black, a, xk, xv, T Red b sk sv sr, true)
              | E => (sc, sl, sk, sv, sr, false)
              end
          | _, _, _ => (sc, sl, sk, sv, sr, true)
          end in
        if negb ok then None else
        (* case6: sibling.color = parent color; parent black *)
        if is_red sr then Some (T pc (T Black l k v sl) sk sv (setcol Black sr), DDone)
        else if is_red sl then
          (* rotateRight(parent): parent.Left = node side... node is left child, so left := l; rotateRight makes l the root *)
          match l with
          | E => None
          | T lc ll lk lv lr => Some (T lc ll lk lv (T Black lr k v (T pc (setcol Black sl) sk sv sr)), DDone)
          end
        else Some (T Black l k v (T pc sl sk sv sr), DDone)
      end
    end
  | R =>
    match l with
    | E => None
    | T sc sl sk sv sr =>
      match pc, sc, col sl, col sr with
      | Black, Black, Black, Black => Some (T pc (T Red sl sk sv sr) k v r, DDeficit)
      | Red, Black, Black, Black => Some (T Black (T Red sl sk sv sr) k v r, DDone)
      | _, _, _, _ =>
        let '(sc, sl, sk, sv, sr, ok) :=
          match sc, col sr, col sl with
          | Black, Red, Black =>
              match sr with
              | T _ a xk xv b => (Black, T Red sl sk sv a, xk, xv, b, true)
              | E => (sc, sl, sk, sv, sr, false)
              end
          | _, _, _ => (sc, sl, sk, sv, sr, true)
          end in
        if negb ok then None else
        (* case6 for node == right: first branch requires node==left so skipped; else-if sibling.Left red *)
        if is_red sl then Some (T pc (setcol Black sl) sk sv (T Black sr k v r), DDone)
        else Some (T Black (T pc sl sk sv sr) k v r, DDone)
      end
    end
  end.

(* case 2 then 3..6 *)
Definition del_fix (pc : color) (l : tree) (k v : Z) (r : tree) (s : side) : outcome (tree * dstat) :=
  match s with
  | L =>
    match r with
    | T Red sl sk sv sr =>
      (* parent red, sibling black, rotateLeft(parent) : sibling root, parent = its left child with right := sl *)
      match del_fix_3456 Red l k v sl L with
      | None => None
      | Some (p', st) => Some (T Black p' sk sv sr, st)
      end
    | _ => del_fix_3456 pc l k v r L
    end
  | R =>
    match l with
    | T Red sl sk sv sr =>
      match del_fix_3456 Red sr k v r R with
      | None => None
      | Some (p', st) => Some (T Black sl sk sv p', st)
      end
    | _ => del_fix_3456 pc l k v r R
    end
  end.

Definition del_up (c : color) (l : tree) (k v : Z) (r : tree) (s : side) (st : dstat) : outcome (tree * dstat) :=
  match st with
  | DDone => Some (T c l k v r, DDone)
  | DDeficit => del_fix c l k v r s
  end.

(* remove the maximum node of a non-empty tree; returns new subtree, its key/value, status *)
Fixpoint delmax (t : tree) : outcome (tree * Z * Z * dstat) :=
  match t with
  | E => None
  | T c l k v E => Some (l, k, v, match c with Black => DDeficit | Red => DDone end)
  | T c l k v r =>
    match delmax r with
    | None => None
    | Some (r', mk, mv, st) =>
      match del_up c l k v r' R st with
      | None => None
      | Some (t', st') => Some (t', mk, mv, st')
      end
    end
  end.

Fixpoint del (cmp : cmpf) (key : Z) (t : tree) : outcome (tree * dstat * bool) :=
  match t with
  | E => Some (E, DDone, false)
  | T c l k v r =>
    match cmp key k with
    | Lt => match del cmp key l with
            | None => None
            | Some (l', st, b) => match del_up c l' k v r L st with
                                  | None => None | Some (t', st') => Some (t', st', b) end
            end
    | Gt => match del cmp key r with
            | None => None
            | Some (r', st, b) => match del_up c l k v r' R st with
                                  | None => None | Some (t', st') => Some (t', st', b) end
            end
    | Eq =>
      match l, r with
      | T _ _ _ _ _, T _ _ _ _ _ =>
        match delmax l with
        | None => None
        | Some (l', mk, mv, st) =>
          match del_up c l' mk mv r L st with
          | None => None | Some (t', st') => Some (t', st', true) end
        end
      | _, E => Some (l, match c with Black => DDeficit | Red => DDone end, true)
      | E, _ => Some (r, match c with Black => DDeficit | Red => DDone end, true)
      end
    end
  end.

Definition remove (cmp : cmpf) (key : Z) (t : tree) : outcome (tree * bool) :=
  match t with
  | E => Some (E, false)
  | T c l k v r =>
    match cmp key k, l, r with
    | Eq, _, E => Some (setcol Black l, true)   (* root with <2 children: child becomes black root *)
    | Eq, E, _ => Some (setcol Black r, true)
    | _, _, _ => match del cmp key t with
                 | None => None
                 | Some (t', _, b) => Some (t', b)
                 end
    end
  end.


(* ---------- observers (mirroring lookup / Floor / Ceiling / Left / Right of redblacktree.go) ---------- *)
Fixpoint lookup (cmp : cmpf) (key : Z) (t : tree) : option (Z * Z) :=
  match t with
  | E => None
  | T _ l k v r =>
    match cmp key k with
    | Eq => Some (k, v)
    | Lt => lookup cmp key l
    | Gt => lookup cmp key r
    end
  end.

(* Floor: remembers the last node at which the descent went right *)
Fixpoint floor_from (cmp : cmpf) (key : Z) (t : tree) (cand : option (Z * Z)) : option (Z * Z) :=
  match t with
  | E => cand
  | T _ l k v r =>
    match cmp key k with
    | Eq => Some (k, v)
    | Lt => floor_from cmp key l cand
    | Gt => floor_from cmp key r (Some (k, v))
    end
  end.
Definition floor cmp key t := floor_from cmp key t None.

Fixpoint ceiling_from (cmp : cmpf) (key : Z) (t : tree) (cand : option (Z * Z)) : option (Z * Z) :=
  match t with
  | E => cand
  | T _ l k v r =>
    match cmp key k with
    | Eq => Some (k, v)
    | Lt => ceiling_from cmp key l (Some (k, v))
    | Gt => ceiling_from cmp key r cand
    end
  end.
Definition ceiling cmp key t := ceiling_from cmp key t None.

Fixpoint leftmost (t : tree) : option (Z * Z) :=
  match t with
  | E => None
  | T _ E k v _ => Some (k, v)
  | T _ l _ _ _ => leftmost l
  end.
Fixpoint rightmost (t : tree) : option (Z * Z) :=
  match t with
  | E => None
  | T _ _ k v E => Some (k, v)
  | T _ _ _ _ r => rightmost r
  end.

Fixpoint inorder (t : tree) : list (Z * Z) :=
  match t with E => [] | T _ l k v r => inorder l ++ (k, v) :: inorder r end.
Definition keys t := map fst (inorder t).
Definition values t := map snd (inorder t).

Fixpoint count (t : tree) : nat := match t with E => 0%nat | T _ l _ _ r => S (count l + count r) end.
Fixpoint height (t : tree) : nat := match t with E => 0%nat | T _ l _ _ r => S (Nat.max (height l) (height r)) end.
Fixpoint minheight (t : tree) : nat := match t with E => 0%nat | T _ l _ _ r => S (Nat.min (minheight l) (minheight r)) end.

(* ---------- comparator-call counts (C07): every call of tree.Comparator the Go code makes ---------- *)
Fixpoint lookup_cost (cmp : cmpf) (key : Z) (t : tree) : nat :=
  match t with
  | E => 0%nat
  | T _ l k _ r =>
    match cmp key k with
    | Eq => 1%nat
    | Lt => S (lookup_cost cmp key l)
    | Gt => S (lookup_cost cmp key r)
    end
  end.
(* Put calls the comparator once on the empty tree (type assertion), otherwise once per node of the descent *)
Definition put_cost (cmp : cmpf) (key : Z) (t : tree) : nat :=
  match t with E => 1%nat | _ => lookup_cost cmp key t end.
Definition remove_cost := lookup_cost.
Definition get_cost := lookup_cost.

(* ---------- iterator (iterator.go): the node is located by its path from the root ---------- *)
Inductive ipos := IBegin | IEnd | IBetween (path : list side).

Fixpoint subtree (t : tree) (p : list side) : option tree :=
  match p with
  | [] => match t with E => None | _ => Some t end
  | d :: p' => match t with
               | E => None
               | T _ l _ _ r => subtree (match d with L => l | R => r end) p'
               end
  end.
Fixpoint leftmost_path (t : tree) : list side :=
  match t with T _ (T _ _ _ _ _ as l) _ _ _ => L :: leftmost_path l | _ => [] end.
Fixpoint rightmost_path (t : tree) : list side :=
  match t with T _ _ _ _ (T _ _ _ _ _ as r) => R :: rightmost_path r | _ => [] end.

(* climb while the node is a right child; stop at the first parent reached from its left child *)
Fixpoint climb_next (rp : list side) : ipos :=     (* rp = path reversed: innermost step first *)
  match rp with
  | [] => IEnd
  | L :: rest => IBetween (rev rest)
  | R :: rest => climb_next rest
  end.
Fixpoint climb_prev (rp : list side) : ipos :=
  match rp with
  | [] => IBegin
  | R :: rest => IBetween (rev rest)
  | L :: rest => climb_prev rest
  end.

Definition inext (t : tree) (it : ipos) : ipos :=
  match it with
  | IEnd => IEnd
  | IBegin => match t with E => IEnd | _ => IBetween (leftmost_path t) end
  | IBetween p =>
    match subtree t p with
    | Some (T _ _ _ _ (T _ _ _ _ _ as r)) => IBetween (p ++ R :: leftmost_path r)
    | _ => climb_next (rev p)
    end
  end.
Definition iprev (t : tree) (it : ipos) : ipos :=
  match it with
  | IBegin => IBegin
  | IEnd => match t with E => IBegin | _ => IBetween (rightmost_path t) end
  | IBetween p =>
    match subtree t p with
    | Some (T _ (T _ _ _ _ _ as l) _ _ _) => IBetween (p ++ L :: rightmost_path l)
    | _ => climb_prev (rev p)
    end
  end.
Definition ikv (t : tree) (it : ipos) : option (Z * Z) :=
  match it with
  | IBetween p => match subtree t p with Some (T _ _ k v _) => Some (k, v) | _ => None end
  | _ => None
  end.
