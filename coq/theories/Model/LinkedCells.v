(* Pointer-level (heap of cells) executable models of lists/singlylinkedlist/singlylinkedlist.go and
   lists/doublylinkedlist/doublylinkedlist.go, transcribed statement by statement.

   Addresses are natural numbers, `None` is Go's nil.  The heap is an association list (latest
   binding first) together with an allocation counter `lnext_addr` (every allocated address is below
   it; cells are never freed: Go's garbage is simply unreachable).  Every method returns an `option`:
   `None` means "the Go code dereferences a nil pointer (or an unallocated cell), or indexes a slice
   out of range, here" -- or, for the loops that only stop on nil (Contains), that it would not
   terminate (the fuel, one more than the number of cells ever allocated, can only run out on a
   cyclic chain).

   Definitions only; the refinement proofs w.r.t. Model/Lists.v are in Proofs/LinkedCellsProofs.v. *)
From Coq Require Import ZArith List Bool Arith.
From Gods Require Import Common.Cmp Spec.SeqSpec Model.Ops.
Import ListNotations.
Local Open Scope Z_scope.

(* ---------- heap ---------- *)
Record cell := { cval : Z; cnext : option nat; cprev : option nat }.   (* cprev unused by the singly linked list *)
Definition heap := list (nat * cell).

Fixpoint hread (h : heap) (a : nat) : option cell :=
  match h with
  | [] => None
  | (b, c) :: h' => if Nat.eqb a b then Some c else hread h' a
  end.
Definition hwrite (h : heap) (a : nat) (c : cell) : heap := (a, c) :: h.

Record llist := {
  lheap : heap;
  lfirst : option nat;
  llast : option nat;
  lsize : Z;
  lnext_addr : nat
}.

Definition empty_llist : llist := {| lheap := []; lfirst := None; llast := None; lsize := 0; lnext_addr := O |}.

Notation "'do' x <- e ; k" := (match e with Some x => k | None => None end)
  (at level 200, x pattern, e at level 100, k at level 200, only parsing).

(* field updates of the list header *)
Definition set_heap (d : llist) (h : heap) : llist :=
  {| lheap := h; lfirst := lfirst d; llast := llast d; lsize := lsize d; lnext_addr := lnext_addr d |}.
Definition set_first (d : llist) (p : option nat) : llist :=
  {| lheap := lheap d; lfirst := p; llast := llast d; lsize := lsize d; lnext_addr := lnext_addr d |}.
Definition set_last (d : llist) (p : option nat) : llist :=
  {| lheap := lheap d; lfirst := lfirst d; llast := p; lsize := lsize d; lnext_addr := lnext_addr d |}.
Definition set_size (d : llist) (n : Z) : llist :=
  {| lheap := lheap d; lfirst := lfirst d; llast := llast d; lsize := n; lnext_addr := lnext_addr d |}.

(* p.field (read): nil / unallocated -> None *)
Definition deref (h : heap) (p : option nat) : option cell :=
  match p with None => None | Some a => hread h a end.
(* p.field = x (write) *)
Definition store (h : heap) (p : option nat) (f : cell -> cell) : option heap :=
  match p with
  | None => None
  | Some a => match hread h a with None => None | Some c => Some (hwrite h a (f c)) end
  end.
Definition with_val (v : Z) (c : cell) : cell := {| cval := v; cnext := cnext c; cprev := cprev c |}.
Definition with_next (x : option nat) (c : cell) : cell := {| cval := cval c; cnext := x; cprev := cprev c |}.
Definition with_prev (x : option nat) (c : cell) : cell := {| cval := cval c; cnext := cnext c; cprev := x |}.

(* &element{...}: the new cell's address is the allocation counter *)
Definition alloc (d : llist) (c : cell) : llist * option nat :=
  ({| lheap := hwrite (lheap d) (lnext_addr d) c; lfirst := lfirst d; llast := llast d;
      lsize := lsize d; lnext_addr := S (lnext_addr d) |}, Some (lnext_addr d)).

(* pointer comparison *)
Definition ptr_eqb (p q : option nat) : bool :=
  match p, q with
  | None, None => true
  | Some a, Some b => Nat.eqb a b
  | _, _ => false
  end.
Definition is_nil (p : option nat) : bool := match p with None => true | Some _ => false end.

Fixpoint foldM {A S : Type} (f : S -> A -> option S) (l : list A) (s : S) : option S :=
  match l with
  | [] => Some s
  | x :: l' => do s' <- f s x; foldM f l' s'
  end.

(* withinRange *)
Definition c_within (d : llist) (i : Z) : bool := (0 <=? i) && (i <? lsize d).

(* ---------- walks ---------- *)
(* `for e := 0; e != index; e, element = e+1, element.next {}` with 0 <= index: n iterations of
   `element = element.<nx>` *)
Fixpoint walk (nx : cell -> option nat) (h : heap) (e : option nat) (n : nat) : option (option nat) :=
  match n with
  | O => Some e
  | S n' => do c <- deref h e; walk nx h (nx c) n'
  end.
(* `for e := 0; e != index; e, element = e+1, element.next { beforeElement = element }` *)
Fixpoint walk_track (h : heap) (before e : option nat) (n : nat) : option (option nat * option nat) :=
  match n with
  | O => Some (before, e)
  | S n' => do c <- deref h e; walk_track h e (cnext c) n'
  end.
(* doubly linked Insert, from the tail:
   `for e := size-1; e != index; e, foundElement = e-1, foundElement.prev { beforeElement = beforeElement.prev }` *)
Fixpoint walk_back2 (h : heap) (before found : option nat) (n : nat) : option (option nat * option nat) :=
  match n with
  | O => Some (before, found)
  | S n' => do cb <- deref h before; do cf <- deref h found; walk_back2 h (cprev cb) (cprev cf) n'
  end.

(* the chain as the Go hook VerifChain sees it: follow <nx> from e; it must consist of exactly n
   cells; returns the values and the last cell visited *)
Fixpoint walk_cells (nx : cell -> option nat) (h : heap) (e : option nat) (seen : option nat) (n : nat)
  : option (list Z * option nat) :=
  match n, e with
  | O, None => Some ([], seen)
  | O, Some _ => None
  | S _, None => None
  | S n', Some a =>
    do c <- hread h a;
    do r <- walk_cells nx h (nx c) e n';
    Some (cval c :: fst r, snd r)
  end.
(* forward walk: exactly lsize cells from first, ending in last *)
Definition walk_fwd (d : llist) : option (list Z) :=
  if lsize d <? 0 then None else
  do r <- walk_cells cnext (lheap d) (lfirst d) None (Z.to_nat (lsize d));
  if ptr_eqb (snd r) (llast d) then Some (fst r) else None.
(* backward walk (doubly linked list): exactly lsize cells from last, ending in first *)
Definition walk_bwd (d : llist) : option (list Z) :=
  if lsize d <? 0 then None else
  do r <- walk_cells cprev (lheap d) (llast d) None (Z.to_nat (lsize d));
  if ptr_eqb (snd r) (lfirst d) then Some (fst r) else None.

(* ================= code shared verbatim by the two Go files ================= *)

(* Clear: size = 0; first = nil; last = nil *)
Definition c_clear (d : llist) : llist :=
  {| lheap := lheap d; lfirst := None; llast := None; lsize := 0; lnext_addr := lnext_addr d |}.

(* Values: values := make([]T, size); for e, element := 0, first; element != nil; e, element = e+1, element.next
   { values[e] = element.value }.  The slots not reached keep the zero value; reaching a cell with
   e = size is an index-out-of-range panic.  n = number of slots left. *)
Fixpoint values_from (h : heap) (e : option nat) (n : nat) : option (list Z) :=
  match e with
  | None => Some (repeat 0 n)
  | Some a =>
    match n with
    | O => None
    | S n' => do c <- hread h a; do r <- values_from h (cnext c) n'; Some (cval c :: r)
    end
  end.
Definition c_values (d : llist) : option (list Z) :=
  if lsize d <? 0 then None                       (* make with a negative length panics *)
  else values_from (lheap d) (lfirst d) (Z.to_nat (lsize d)).

(* Contains, inner loop: for element := first; element != nil; element = element.next
   { if element.value == value { found = true; break } } *)
Fixpoint find_from (h : heap) (e : option nat) (v : Z) (fuel : nat) : option bool :=
  match e with
  | None => Some false
  | Some a =>
    match fuel with
    | O => None
    | S f => do c <- hread h a; if cval c =? v then Some true else find_from h (cnext c) v f
    end
  end.
Fixpoint contains_loop (h : heap) (first : option nat) (vs : list Z) (fuel : nat) : option bool :=
  match vs with
  | [] => Some true
  | v :: vs' => do found <- find_from h first v fuel;
                if found then contains_loop h first vs' fuel else Some false
  end.
Definition c_contains (d : llist) (vs : list Z) : option bool :=
  match vs with
  | [] => Some true                                (* len(values) == 0 *)
  | _ => if lsize d =? 0 then Some false
         else contains_loop (lheap d) (lfirst d) vs (S (lnext_addr d))
  end.

(* IndexOf: size == 0 -> -1; else the first index in Values() *)
Definition c_index_of (d : llist) (v : Z) : option Z :=
  if lsize d =? 0 then Some (-1)
  else do vals <- c_values d; Some (index_from v vals 0).

(* Swap: var element1, element2; for e, cur := 0, first; element1 == nil || element2 == nil;
   e, cur = e+1, cur.next { switch e { case i: element1 = cur; case j: element2 = cur } }
   element1.value, element2.value = element2.value, element1.value *)
Fixpoint swap_loop (h : heap) (i j e : Z) (cur e1 e2 : option nat) (fuel : nat)
  : option (option nat * option nat) :=
  if is_nil e1 || is_nil e2 then
    match fuel with
    | O => None
    | S f =>
      let e1' := if e =? i then cur else e1 in
      let e2' := if e =? i then e2 else if e =? j then cur else e2 in
      do c <- deref h cur;                          (* post statement: cur = cur.next *)
      swap_loop h i j (e + 1) (cnext c) e1' e2' f
    end
  else Some (e1, e2).
Definition c_swap (d : llist) (i j : Z) : option llist :=
  if c_within d i && c_within d j && negb (i =? j) then
    (* the loop ends at the latest after max(i,j)+1 <= size iterations (or crashes) *)
    do es <- swap_loop (lheap d) i j 0 (lfirst d) None None (S (Z.to_nat (lsize d)));
    let '(e1, e2) := es in
    do c1 <- deref (lheap d) e1;
    do c2 <- deref (lheap d) e2;
    do h1 <- store (lheap d) e1 (with_val (cval c2));
    do h2 <- store h1 e2 (with_val (cval c1));
    Some (set_heap d h2)
  else Some d.

(* ================= singly linked list ================= *)

(* Add, loop body *)
Definition csll_add1 (d : llist) (v : Z) : option llist :=
  let '(d1, ne) := alloc d {| cval := v; cnext := None; cprev := None |} in   (* newElement := &element{value: value} *)
  if lsize d1 =? 0 then
    Some (set_size (set_last (set_first d1 ne) ne) (lsize d1 + 1))              (* first = new; last = new; size++ *)
  else
    do h <- store (lheap d1) (llast d1) (with_next ne);                         (* last.next = new *)
    Some (set_size (set_last (set_heap d1 h) ne) (lsize d1 + 1)).               (* last = new; size++ *)
Definition csll_add (d : llist) (vs : list Z) : option llist := foldM csll_add1 vs d.
Definition csll_append := csll_add.

(* Prepend, loop body (the loop runs over the values from the last to the first) *)
Definition csll_prepend1 (d : llist) (v : Z) : option llist :=
  let '(d1, ne) := alloc d {| cval := v; cnext := lfirst d; cprev := None |} in (* &element{value, next: first} *)
  let d2 := set_first d1 ne in                                                   (* first = new *)
  let d3 := if lsize d2 =? 0 then set_last d2 ne else d2 in                      (* if size == 0 { last = new } *)
  Some (set_size d3 (lsize d3 + 1)).
Definition csll_prepend (d : llist) (vs : list Z) : option llist := foldM csll_prepend1 (rev vs) d.

(* Get: (value, ok) *)
Definition csll_get (d : llist) (i : Z) : option (option Z) :=
  if negb (c_within d i) then Some None
  else
    do e <- walk cnext (lheap d) (lfirst d) (Z.to_nat i);
    do c <- deref (lheap d) e;                                                   (* element.value *)
    Some (Some (cval c)).

Definition csll_remove (d : llist) (i : Z) : option llist :=
  if negb (c_within d i) then Some d
  else if lsize d =? 1 then Some (c_clear d)
  else
    do be <- walk_track (lheap d) None (lfirst d) (Z.to_nat i);
    let '(before, e) := be in
    (* if element == list.first { list.first = element.next } *)
    do d1 <- (if ptr_eqb e (lfirst d) then do c <- deref (lheap d) e; Some (set_first d (cnext c)) else Some d);
    (* if element == list.last { list.last = beforeElement } *)
    let d2 := if ptr_eqb e (llast d1) then set_last d1 before else d1 in
    (* if beforeElement != nil { beforeElement.next = element.next } *)
    do d3 <- (if is_nil before then Some d2
              else do c <- deref (lheap d2) e;
                   do h <- store (lheap d2) before (with_next (cnext c));
                   Some (set_heap d2 h));
    Some (set_size d3 (lsize d3 - 1)).

Definition csll_values := c_values.
Definition csll_contains := c_contains.
Definition csll_index_of := c_index_of.
Definition csll_clear (d : llist) : option llist := Some (c_clear d).
Definition csll_swap := c_swap.

(* Sort: size < 2 -> nothing; values := Values(); sort (the sorted slice is the parameter res);
   Clear(); Add(values...) *)
Definition csll_sort (d : llist) (res : list Z) : option llist :=
  if lsize d <? 2 then Some d
  else do _ <- c_values d; csll_add (c_clear d) res.

(* Insert, head case loop: for i, value := range values { new := &element{value};
   if i == 0 { first = new } else { before.next = new }; before = new } *)
Fixpoint csll_ins_head_loop (vs : list Z) (i : nat) (d : llist) (before : option nat)
  : option (llist * option nat) :=
  match vs with
  | [] => Some (d, before)
  | v :: vs' =>
    let '(d1, ne) := alloc d {| cval := v; cnext := None; cprev := None |} in
    do d2 <- match i with
             | O => Some (set_first d1 ne)
             | S _ => do h <- store (lheap d1) before (with_next ne); Some (set_heap d1 h)
             end;
    csll_ins_head_loop vs' (S i) d2 ne
  end.
(* Insert, middle case loop: for _, value := range values { new := &element{value};
   before.next = new; before = new } *)
Fixpoint csll_ins_mid_loop (vs : list Z) (d : llist) (before : option nat) : option (llist * option nat) :=
  match vs with
  | [] => Some (d, before)
  | v :: vs' =>
    let '(d1, ne) := alloc d {| cval := v; cnext := None; cprev := None |} in
    do h <- store (lheap d1) before (with_next ne);
    csll_ins_mid_loop vs' (set_heap d1 h) ne
  end.
Definition csll_insert (d : llist) (i : Z) (vs : list Z) : option llist :=
  if negb (c_within d i) then
    (if i =? lsize d then csll_add d vs else Some d)
  else
    match vs with
    | [] => Some d                                                               (* len(values) == 0 *)
    | _ =>
      let d0 := set_size d (lsize d + zlen vs) in                                (* size += len(values) *)
      do bf <- walk_track (lheap d0) None (lfirst d0) (Z.to_nat i);
      let '(before, found) := bf in
      if ptr_eqb found (lfirst d0) then
        let oldNext := lfirst d0 in
        do r <- csll_ins_head_loop vs O d0 before;
        let '(d1, before1) := r in
        do h <- store (lheap d1) before1 (with_next oldNext);                    (* before.next = oldNext *)
        Some (set_heap d1 h)
      else
        do cb <- deref (lheap d0) before;                                        (* oldNext := before.next *)
        let oldNext := cnext cb in
        do r <- csll_ins_mid_loop vs d0 before;
        let '(d1, before1) := r in
        do h <- store (lheap d1) before1 (with_next oldNext);
        Some (set_heap d1 h)
    end.

Definition csll_set (d : llist) (i v : Z) : option llist :=
  if negb (c_within d i) then
    (if i =? lsize d then csll_add d [v] else Some d)
  else
    do e <- walk cnext (lheap d) (lfirst d) (Z.to_nat i);
    do h <- store (lheap d) e (with_val v);                                      (* foundElement.value = value *)
    Some (set_heap d h).

(* ================= doubly linked list ================= *)

Definition cdll_add1 (d : llist) (v : Z) : option llist :=
  let '(d1, ne) := alloc d {| cval := v; cnext := None; cprev := llast d |} in  (* &element{value, prev: last} *)
  if lsize d1 =? 0 then
    Some (set_size (set_last (set_first d1 ne) ne) (lsize d1 + 1))
  else
    do h <- store (lheap d1) (llast d1) (with_next ne);                          (* last.next = new *)
    Some (set_size (set_last (set_heap d1 h) ne) (lsize d1 + 1)).
Definition cdll_add (d : llist) (vs : list Z) : option llist := foldM cdll_add1 vs d.
Definition cdll_append := cdll_add.

Definition cdll_prepend1 (d : llist) (v : Z) : option llist :=
  let '(d1, ne) := alloc d {| cval := v; cnext := lfirst d; cprev := None |} in (* &element{value, next: first} *)
  if lsize d1 =? 0 then
    Some (set_size (set_last (set_first d1 ne) ne) (lsize d1 + 1))
  else
    do h <- store (lheap d1) (lfirst d1) (with_prev ne);                         (* first.prev = new *)
    Some (set_size (set_first (set_heap d1 h) ne) (lsize d1 + 1)).               (* first = new; size++ *)
Definition cdll_prepend (d : llist) (vs : list Z) : option llist := foldM cdll_prepend1 (rev vs) d.

(* the element at a valid index, from the nearer end:
   if size-index < index { element = last; for e := size-1; e != index; e, element = e-1, element.prev {} }
   else { element = first; for e := 0; e != index; e, element = e+1, element.next {} } *)
Definition cdll_locate (d : llist) (i : Z) : option (option nat) :=
  if lsize d - i <? i then walk cprev (lheap d) (llast d) (Z.to_nat (lsize d - 1 - i))
  else walk cnext (lheap d) (lfirst d) (Z.to_nat i).

Definition cdll_get (d : llist) (i : Z) : option (option Z) :=
  if negb (c_within d i) then Some None
  else
    do e <- cdll_locate d i;
    do c <- deref (lheap d) e;
    Some (Some (cval c)).

Definition cdll_remove (d : llist) (i : Z) : option llist :=
  if negb (c_within d i) then Some d
  else if lsize d =? 1 then Some (c_clear d)
  else
    do e <- cdll_locate d i;
    (* if element == first { first = element.next } *)
    do d1 <- (if ptr_eqb e (lfirst d) then do c <- deref (lheap d) e; Some (set_first d (cnext c)) else Some d);
    (* if element == last { last = element.prev } *)
    do d2 <- (if ptr_eqb e (llast d1) then do c <- deref (lheap d1) e; Some (set_last d1 (cprev c)) else Some d1);
    (* if element.prev != nil { element.prev.next = element.next } *)
    do c <- deref (lheap d2) e;
    do d3 <- (if is_nil (cprev c) then Some d2
              else do h <- store (lheap d2) (cprev c) (with_next (cnext c)); Some (set_heap d2 h));
    (* if element.next != nil { element.next.prev = element.prev } *)
    do c' <- deref (lheap d3) e;
    do d4 <- (if is_nil (cnext c') then Some d3
              else do h <- store (lheap d3) (cnext c') (with_prev (cprev c')); Some (set_heap d3 h));
    Some (set_size d4 (lsize d4 - 1)).

Definition cdll_values := c_values.
Definition cdll_contains := c_contains.
Definition cdll_index_of := c_index_of.
Definition cdll_clear (d : llist) : option llist := Some (c_clear d).
Definition cdll_swap := c_swap.

Definition cdll_sort (d : llist) (res : list Z) : option llist :=
  if lsize d <? 2 then Some d
  else do _ <- c_values d; cdll_add (c_clear d) res.

(* Insert, head case loop: for i, value := range values { new := &element{value};
   if i == 0 { first = new } else { new.prev = before; before.next = new }; before = new } *)
Fixpoint cdll_ins_head_loop (vs : list Z) (i : nat) (d : llist) (before : option nat)
  : option (llist * option nat) :=
  match vs with
  | [] => Some (d, before)
  | v :: vs' =>
    let '(d1, ne) := alloc d {| cval := v; cnext := None; cprev := None |} in
    do d2 <- match i with
             | O => Some (set_first d1 ne)
             | S _ => do h1 <- store (lheap d1) ne (with_prev before);
                      do h2 <- store h1 before (with_next ne);
                      Some (set_heap d1 h2)
             end;
    cdll_ins_head_loop vs' (S i) d2 ne
  end.
(* Insert, middle case loop: for _, value := range values { new := &element{value};
   new.prev = before; before.next = new; before = new } *)
Fixpoint cdll_ins_mid_loop (vs : list Z) (d : llist) (before : option nat) : option (llist * option nat) :=
  match vs with
  | [] => Some (d, before)
  | v :: vs' =>
    let '(d1, ne) := alloc d {| cval := v; cnext := None; cprev := None |} in
    do h1 <- store (lheap d1) ne (with_prev before);
    do h2 <- store h1 before (with_next ne);
    cdll_ins_mid_loop vs' (set_heap d1 h2) ne
  end.
Definition cdll_insert (d : llist) (i : Z) (vs : list Z) : option llist :=
  if negb (c_within d i) then
    (if i =? lsize d then cdll_add d vs else Some d)
  else
    match vs with
    | [] => Some d                                                               (* len(values) == 0 *)
    | _ =>
      do bf <- (if lsize d - i <? i then
                  do cl <- deref (lheap d) (llast d);                            (* before = last.prev *)
                  walk_back2 (lheap d) (cprev cl) (llast d) (Z.to_nat (lsize d - 1 - i))
                else walk_track (lheap d) None (lfirst d) (Z.to_nat i));
      let '(before, found) := bf in
      do d2 <-
        (if ptr_eqb found (lfirst d) then
           let oldNext := lfirst d in
           do r <- cdll_ins_head_loop vs O d before;
           let '(d1, before1) := r in
           do h1 <- store (lheap d1) oldNext (with_prev before1);                (* oldNext.prev = before *)
           do h2 <- store h1 before1 (with_next oldNext);                        (* before.next = oldNext *)
           Some (set_heap d1 h2)
         else
           do cb <- deref (lheap d) before;                                      (* oldNext := before.next *)
           let oldNext := cnext cb in
           do r <- cdll_ins_mid_loop vs d before;
           let '(d1, before1) := r in
           do h1 <- store (lheap d1) oldNext (with_prev before1);
           do h2 <- store h1 before1 (with_next oldNext);
           Some (set_heap d1 h2));
      Some (set_size d2 (lsize d2 + zlen vs))                                    (* size += len(values) *)
    end.

Definition cdll_set (d : llist) (i v : Z) : option llist :=
  if negb (c_within d i) then
    (if i =? lsize d then cdll_add d [v] else Some d)
  else
    do e <- cdll_locate d i;
    do h <- store (lheap d) e (with_val v);
    Some (set_heap d h).

(* ================= the machine's list operations on cells ================= *)
Definition cells_sort (sortf : llist -> list Z -> option llist) (d : llist) (ci : cmp_id) (res : list Z)
  : option llist :=
  do l <- walk_fwd d;
  sortf d (if sort_okb (cmp_of ci) l res then res else isort (cmp_of ci) l).

Definition sll_cells_step (d : llist) (o : op) : option llist :=
  match o with
  | Add vs => csll_add d vs
  | Append vs => csll_append d vs
  | Prepend vs => csll_prepend d vs
  | Insert i vs => csll_insert d i vs
  | SetAt i v => csll_set d i v
  | RemoveAt i => csll_remove d i
  | Swap i j => csll_swap d i j
  | Sort ci res => cells_sort csll_sort d ci res
  | Clear => csll_clear d
  | FromJSON (DArr vs) => csll_add (c_clear d) vs                                (* Clear(); Add(elements...) *)
  | FromJSON DNull => csll_add (c_clear d) []
  | _ => Some d
  end.

Definition dll_cells_step (d : llist) (o : op) : option llist :=
  match o with
  | Add vs => cdll_add d vs
  | Append vs => cdll_append d vs
  | Prepend vs => cdll_prepend d vs
  | Insert i vs => cdll_insert d i vs
  | SetAt i v => cdll_set d i v
  | RemoveAt i => cdll_remove d i
  | Swap i j => cdll_swap d i j
  | Sort ci res => cells_sort cdll_sort d ci res
  | Clear => cdll_clear d
  | FromJSON (DArr vs) => cdll_add (c_clear d) vs
  | FromJSON DNull => cdll_add (c_clear d) []
  | _ => Some d
  end.

(* kind: SinglyLinkedList -> the singly linked cells, everything else -> the doubly linked cells *)
Definition cells_step (k : kind) (d : llist) (o : op) : option llist :=
  match k with
  | SinglyLinkedList => sll_cells_step d o
  | _ => dll_cells_step d o
  end.
Definition cells_run_from (k : kind) (d : llist) (ops : list op) : option llist := foldM (cells_step k) ops d.
Definition cells_run (k : kind) (ops : list op) : option llist := cells_run_from k empty_llist ops.
