(* L1 models of the stateful iterators, each following its Go implementation:
   - index iterators (ArrayList, ArrayStack, ArrayQueue, LinkedListStack, LinkedListQueue,
     CircularBuffer, BinaryHeap, PriorityQueue): an integer saturating at -1 and size;
   - SinglyLinkedList / DoublyLinkedList iterators: index plus a pointer to the current cell
     (modelled as the cell's position; following a nil pointer is a crash = None);
   - red-black / AVL / B-tree iterators: the path iterators of Model/RBTree.v, AVLTree.v, BTreeIter.v;
   - TreeSet keeps an index next to the red-black iterator.
   A generic runner interprets scripts of calls over any of them. *)
From Coq Require Import ZArith List Bool Lia.
From Gods Require Import Common.Cmp Common.ListAux Spec.SeqSpec Model.Ops Model.Lists.
From Gods Require Model.RBTree Model.AVLTree Model.BTree Model.BTreeIter Model.Heap.
Import ListNotations.
Local Open Scope Z_scope.

Section Runner.
Variable S : Type.
Variable next prev : S -> option (S * bool).     (* None: the Go code would dereference nil *)
Variable begin_ end_ : S -> S.
Variable cur : S -> option (Z * Z).              (* (index-or-key, value) of the element the iterator is on *)
Variable has_prev : bool.                        (* false for forward-only iterators *)

(* what a successful move reports: the harness reads Index/Key and Value only then *)
Definition moved (s : S) (b : bool) : option (S * obs) :=
  if b then match cur s with
            | Some (i, v) => Some (s, OL [OZ 1; OZ i; OZ v])
            | None => None
            end
  else Some (s, OL [OZ 0]).

(* for it.Next() { if f(it.Index(), it.Value()) { return true } } return false *)
Fixpoint move_to (step : S -> option (S * bool)) (p : pred) (fuel : nat) (s : S) : option (S * bool) :=
  match fuel with
  | O => None                                   (* does not terminate within size+2 steps *)
  | Datatypes.S f =>
    match step s with
    | None => None
    | Some (s', false) => Some (s', false)
    | Some (s', true) =>
      match cur s' with
      | None => None
      | Some (i, v) => if pred_eval p i v then Some (s', true) else move_to step p f s'
      end
    end
  end.

Definition run_call (fuel : nat) (s : S) (c : icall) : option (S * obs) :=
  match c with
  | CNext => match next s with Some (s', b) => moved s' b | None => None end
  | CBegin => Some (begin_ s, ounit)
  | CFirst => match next (begin_ s) with Some (s', b) => moved s' b | None => None end
  | CNextTo p => match move_to next p fuel s with Some (s', b) => moved s' b | None => None end
  | CPrev => if has_prev then match prev s with Some (s', b) => moved s' b | None => None end
             else Some (s, ounsupported)
  | CEnd => if has_prev then Some (end_ s, ounit) else Some (s, ounsupported)
  | CLast => if has_prev then match prev (end_ s) with Some (s', b) => moved s' b | None => None end
             else Some (s, ounsupported)
  | CPrevTo p => if has_prev then match move_to prev p fuel s with Some (s', b) => moved s' b | None => None end
                 else Some (s, ounsupported)
  end.

Fixpoint run_script (fuel : nat) (s : S) (cs : list icall) : list obs :=
  match cs with
  | [] => []
  | c :: cs' =>
    match run_call fuel s c with
    | None => [ocrash]                          (* the script stops at a crash *)
    | Some (s', o) => o :: run_script fuel s' cs'
    end
  end.

(* a full forward walk from a fresh iterator: what Each / Keys / Values / String iterate over *)
Fixpoint walk (step : S -> option (S * bool)) (fuel : nat) (s : S) : option (list (Z * Z)) :=
  match fuel with
  | O => None
  | Datatypes.S f =>
    match step s with
    | None => None
    | Some (_, false) => Some []
    | Some (s', true) =>
      match cur s', walk step f s' with
      | Some e, Some rest => Some (e :: rest)
      | _, _ => None
      end
    end
  end.
End Runner.

(* ---------- index iterators ---------- *)
Section Index.
Variable n : Z.                                  (* container size *)
Variable value_at : Z -> option Z.               (* Value() at an index within range *)
Definition inrange (i : Z) : bool := (0 <=? i) && (i <? n).
Definition ix_next (i : Z) : option (Z * bool) :=
  let i' := if i <? n then i + 1 else i in Some (i', inrange i').
Definition ix_prev (i : Z) : option (Z * bool) :=
  let i' := if 0 <=? i then i - 1 else i in Some (i', inrange i').
Definition ix_begin (_ : Z) : Z := -1.
Definition ix_end (_ : Z) : Z := n.
Definition ix_cur (i : Z) : option (Z * Z) :=
  match value_at i with Some v => Some (i, v) | None => None end.
End Index.

(* ---------- linked-list iterators: (index, current cell) ---------- *)
Section Linked.
Variable l : list Z.
Definition ln := zlen l.
Definition cell := option nat.                   (* None = nil pointer *)
Definition cell_next (e : nat) : cell := if (Z.of_nat e + 1 <? ln) then Some (Datatypes.S e) else None.
Definition cell_prev (e : nat) : cell := match e with O => None | Datatypes.S j => Some j end.
Definition first_cell : cell := match l with [] => None | _ => Some O end.
Definition last_cell : cell := match l with [] => None | _ => Some (length l - 1)%nat end.

Definition ll_next (s : Z * cell) : option (Z * cell * bool) :=
  let '(i, e) := s in
  let i' := if i <? ln then i + 1 else i in
  if negb (within i' l) then Some (i', None, false)
  else if i' =? 0 then Some (i', first_cell, true)
  else match e with
       | None => None                            (* iterator.element.next on a nil element *)
       | Some j => Some (i', cell_next j, true)
       end.
Definition ll_prev (s : Z * cell) : option (Z * cell * bool) :=
  let '(i, e) := s in
  let i' := if 0 <=? i then i - 1 else i in
  if negb (within i' l) then Some (i', None, false)
  else if i' =? ln - 1 then Some (i', last_cell, true)
  else match e with
       | None => None
       | Some j => Some (i', cell_prev j, true)
       end.
Definition ll_begin (_ : Z * cell) : Z * cell := (-1, None).
Definition ll_end (_ : Z * cell) : Z * cell := (ln, last_cell).
Definition ll_cur (s : Z * cell) : option (Z * Z) :=
  match snd s with
  | None => None                                 (* iterator.element.value on nil *)
  | Some j => match nth_error l j with Some v => Some (fst s, v) | None => None end
  end.
End Linked.

(* ---------- tree iterators ---------- *)
Definition rb_next (t : RBTree.tree) (p : RBTree.ipos) : option (RBTree.ipos * bool) :=
  let p' := RBTree.inext t p in
  Some (p', match p' with RBTree.IBetween _ => true | _ => false end).
Definition rb_prev (t : RBTree.tree) (p : RBTree.ipos) : option (RBTree.ipos * bool) :=
  let p' := RBTree.iprev t p in
  Some (p', match p' with RBTree.IBetween _ => true | _ => false end).

Definition avl_next (t : AVLTree.tree) (p : AVLTree.ipos) : option (AVLTree.ipos * bool) :=
  let p' := AVLTree.inext t p in
  Some (p', match p' with AVLTree.IBetween _ => true | _ => false end).
Definition avl_prev (t : AVLTree.tree) (p : AVLTree.ipos) : option (AVLTree.ipos * bool) :=
  let p' := AVLTree.iprev t p in
  Some (p', match p' with AVLTree.IBetween _ => true | _ => false end).

Definition bt_next (cmp : cmpf) (r : option BTree.node) (p : BTreeIter.ipos) : option (BTreeIter.ipos * bool) :=
  let p' := BTreeIter.inext cmp r p in
  Some (p', match p' with BTreeIter.IBetween _ _ => true | _ => false end).
Definition bt_prev (cmp : cmpf) (r : option BTree.node) (p : BTreeIter.ipos) : option (BTreeIter.ipos * bool) :=
  let p' := BTreeIter.iprev cmp r p in
  Some (p', match p' with BTreeIter.IBetween _ _ => true | _ => false end).

(* TreeSet: an index maintained next to the red-black iterator *)
Section TreeSetIter.
Variable t : RBTree.tree.
Variable n : Z.
Definition ts_next (s : Z * RBTree.ipos) : option (Z * RBTree.ipos * bool) :=
  let '(i, p) := s in
  let i' := if i <? n then i + 1 else i in
  match rb_next t p with Some (p', b) => Some (i', p', b) | None => None end.
Definition ts_prev (s : Z * RBTree.ipos) : option (Z * RBTree.ipos * bool) :=
  let '(i, p) := s in
  let i' := if 0 <=? i then i - 1 else i in
  match rb_prev t p with Some (p', b) => Some (i', p', b) | None => None end.
Definition ts_begin (_ : Z * RBTree.ipos) : Z * RBTree.ipos := (-1, RBTree.IBegin).
Definition ts_end (_ : Z * RBTree.ipos) : Z * RBTree.ipos := (n, RBTree.IEnd).
Definition ts_cur (s : Z * RBTree.ipos) : option (Z * Z) :=
  match RBTree.ikv t (snd s) with Some (k, _) => Some (fst s, k) | None => None end.
End TreeSetIter.
