(* Circular buffer, mirroring queues/circularbuffer/circularbuffer.go field by field. *)
From Coq Require Import ZArith List Lia Bool Arith.
From Gods Require Import Common.ListAux.
Import ListNotations.

Record ring := { rvals : list Z; rstart : nat; rend : nat; rfull : bool; rmax : nat; rsize : nat }.
Definition rinit (c : nat) := {| rvals := repeat 0%Z c; rstart := 0; rend := 0; rfull := false; rmax := c; rsize := 0 |}.
Definition calc (r : ring) : nat :=
  if rend r <? rstart r then rmax r - rstart r + rend r
  else if rend r =? rstart r then (if rfull r then rmax r else 0)
  else rend r - rstart r.
Definition rdeq (r : ring) : ring * option Z :=
  if rsize r =? 0 then (r, None)
  else
    let v := get (rvals r) (rstart r) in
    let s := rstart r + 1 in
    let s := if rmax r <=? s then 0 else s in
    ({| rvals := rvals r; rstart := s; rend := rend r; rfull := false; rmax := rmax r; rsize := rsize r - 1 |}, Some v).
Definition renq (x : Z) (r : ring) : ring :=
  let r := if rsize r =? rmax r then fst (rdeq r) else r in
  let vals := set (rvals r) (rend r) x in
  let e := rend r + 1 in
  let e := if rmax r <=? e then 0 else e in
  let full := if e =? rstart r then true else rfull r in
  let r' := {| rvals := vals; rstart := rstart r; rend := e; rfull := full; rmax := rmax r; rsize := rsize r |} in
  {| rvals := vals; rstart := rstart r; rend := e; rfull := full; rmax := rmax r; rsize := calc r' |}.
Definition rvalues (r : ring) : list Z := map (fun i => get (rvals r) ((rstart r + i) mod rmax r)) (seq 0 (rsize r)).
Definition rpeek (r : ring) : option Z := if rsize r =? 0 then None else Some (get (rvals r) (rstart r)).
Definition rfullb (r : ring) : bool := rsize r =? rmax r.
Definition rclear (r : ring) : ring := rinit (rmax r).
