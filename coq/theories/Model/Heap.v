From Coq Require Import ZArith List Lia Bool Arith.
From Gods Require Import Common.Cmp Common.ListAux.
Import ListNotations.

Definition gt (cmp : cmpf) a b := match cmp a b with Gt => true | _ => false end.

(* ---------- binary heap (binaryheap.go) ---------- *)
Fixpoint bubble_down (cmp : cmpf) (fuel : nat) (l : list Z) (index : nat) : list Z :=
  match fuel with
  | O => l
  | S f =>
    let size := length l in
    let li := 2 * index + 1 in
    if li <? size then
      let ri := 2 * index + 2 in
      let smaller := if (ri <? size) && gt cmp (get l li) (get l ri) then ri else li in
      if gt cmp (get l index) (get l smaller) then bubble_down cmp f (swap l index smaller) smaller
      else l
    else l
  end.

Fixpoint bubble_up (cmp : cmpf) (fuel : nat) (l : list Z) (index : nat) : list Z :=
  match fuel with
  | O => l
  | S f =>
    if 0 <? index then
      let parent := (index - 1) / 2 in
      if gt cmp (get l parent) (get l index) then bubble_up cmp f (swap l index parent) parent
      else l
    else l
  end.

Fixpoint heapify_from (cmp : cmpf) (l : list Z) (i : nat) : list Z :=   (* i, i-1, ..., 0 *)
  let l' := bubble_down cmp (length l) l i in
  match i with O => l' | S j => heapify_from cmp l' j end.

Definition push (cmp : cmpf) (vals : list Z) (h : list Z) : list Z :=
  match vals with
  | [v] => let h' := h ++ [v] in bubble_up cmp (length h') h' (length h' - 1)
  | _ => let h' := h ++ vals in heapify_from cmp h' (length h' / 2 + 1)
  end.

Definition pop (cmp : cmpf) (h : list Z) : list Z * option Z :=
  match h with
  | [] => ([], None)
  | x :: _ =>
    let last := length h - 1 in
    let h1 := removelast (swap h 0 last) in
    (bubble_down cmp (length h1) h1 0, Some x)
  end.

(* iterator Value(): level-sorted *)
Fixpoint nbits (fuel n : nat) : nat := match fuel with O => 0 | S f => if n =? 0 then 0 else S (nbits f (n / 2)) end.
Definition level_start (index : nat) := 2 ^ (nbits (S index) (index + 1) - 1) - 1.
Fixpoint popn (cmp : cmpf) (n : nat) (h : list Z) : list Z := match n with O => h | S k => popn cmp k (fst (pop cmp h)) end.
Definition iter_value (cmp : cmpf) (h : list Z) (index : nat) : Z :=
  let start := level_start index in
  let stop := Nat.min (start + (start + 1)) (length h) in
  let tmp := fold_left (fun acc n => push cmp [get h n] acc) (seq start (stop - start)) [] in
  match snd (pop cmp (popn cmp (index - start) tmp)) with Some v => v | None => 0%Z end.
Definition values (cmp : cmpf) (h : list Z) : list Z := map (iter_value cmp h) (seq 0 (length h)).
