From Coq Require Import ZArith List Lia Bool Arith.
From Gods Require Import Common.Cmp Model.BTree.
Import ListNotations.

(* cost of one binary search = number of comparator calls *)
Fixpoint bsearch_c (cmp : cmpf) (key : Z) (es : list entry) (low high : Z) (fuel : nat) : nat :=
  match fuel with
  | O => 0
  | S f =>
    if (low <=? high)%Z then
      let mid := ((high + low) / 2)%Z in
      match nth_error es (Z.to_nat mid) with
      | None => 0
      | Some (k, _) =>
        match cmp key k with
        | Gt => S (bsearch_c cmp key es (mid + 1)%Z high f)
        | Lt => S (bsearch_c cmp key es low (mid - 1)%Z f)
        | Eq => 1
        end
      end
    else 0
  end.
Definition search_c cmp key es := bsearch_c cmp key es 0%Z (Z.of_nat (length es) - 1)%Z (S (length es)).

Section M.
Variable m : nat.

(* Get *)
Fixpoint get_c (cmp : cmpf) (fuel : nat) (key : Z) (n : node) : nat :=
  match fuel with
  | O => 0
  | S f =>
    match n with N es cs =>
      let '(pos, found) := search cmp key es in
      search_c cmp key es +
      if found then 0 else
      match nth_error cs pos with
      | None => 0
      | Some c => get_c cmp f key c
      end
    end
  end.

(* Put: returns result as ins, plus cost *)
Fixpoint ins_c (cmp : cmpf) (fuel : nat) (e : entry) (n : node) : option (ires * bool * nat) :=
  match fuel with
  | O => None
  | S f =>
    match n with N es cs =>
      let '(pos, found) := search cmp (fst e) es in
      let c0 := search_c cmp (fst e) es in
      if found then Some (IOk (N (replace_at pos e es) cs), false, c0)
      else match cs with
        | [] => Some (maybe_split m (N (insert_at pos e es) []), true, c0)
        | _ =>
          match nth_error cs pos with
          | None => None
          | Some c =>
            match ins_c cmp f e c with
            | None => None
            | Some (IOk c', b, k) => Some (IOk (N es (replace_at pos c' cs)), b, c0 + k)
            | Some (ISplit l mid r, b, k) =>
              (* splitNonRoot searches the parent (this node, entries before insertion) for the middle key *)
              Some (maybe_split m (N (insert_at pos mid es) (insert_at (S pos) r (replace_at pos l cs))), b,
                    c0 + k + search_c cmp (fst mid) es)
            end
          end
        end
    end
  end.

Definition put_c (cmp : cmpf) (fuel : nat) (e : entry) (root : option node) : nat :=
  match root with
  | None => 0
  | Some n => match ins_c cmp fuel e n with Some (_, _, k) => k | None => 0 end
  end.

(* rebalance child i; key = the reference key Go passes (deleted key / merged separator).
   returns new node, cost, and the key to pass to the next level if a merge happened *)
Definition rebalance_child_c (cmp : cmpf) (es : list entry) (cs : list node) (i : nat) (key : Z) (isroot_parent : bool)
  : option (node * nat * option Z) :=
  match nth_error cs i with
  | None => None
  | Some (N ces ccs) =>
    if (minEntries m <=? length ces)%nat then Some (N es cs, 0, None)
    else
      let sc := search_c cmp key es in
      let lefts := if (1 <=? i)%nat then nth_error cs (i - 1) else None in
      let rights := nth_error cs (S i) in
      let borrow_left := match lefts with Some (N les _) => (minEntries m <? length les)%nat | None => false end in
      let borrow_right := match rights with Some (N res _) => (minEntries m <? length res)%nat | None => false end in
      match rebalance_child m es cs i with
      | None => None
      | Some n' =>
        if borrow_left then Some (n', sc, None)
        else if borrow_right then Some (n', sc + sc, None)
        else
          (* merge: the separator removed from the parent becomes the next reference key *)
          let sep := match rights, lefts with
                     | Some _, _ => nth_error es i
                     | None, Some _ => nth_error es (i - 1)
                     | None, None => None
                     end in
          Some (n', sc + sc, match sep with Some (k, _) => Some k | None => None end)
      end
  end.

Fixpoint delmax_c (cmp : cmpf) (fuel : nat) (n : node) : option (node * entry * nat * option Z) :=
  match fuel with
  | O => None
  | S f =>
    match n with N es cs =>
      match cs with
      | [] => match last_opt es with Some e => Some (N (removelast es) [], e, 0, Some (fst e)) | None => None end
      | _ =>
        let i := (length cs - 1)%nat in
        match nth_error cs i with
        | None => None
        | Some c =>
          match delmax_c cmp f c with
          | None => None
          | Some (c', e, k, okey) =>
            match okey with
            | None => Some (N es (replace_at i c' cs), e, k, None)
            | Some key =>
              match rebalance_child_c cmp es (replace_at i c' cs) i key false with
              | None => None
              | Some (n', k2, okey') => Some (n', e, k + k2, okey')
              end
            end
          end
        end
      end
    end
  end.

Fixpoint del_c (cmp : cmpf) (fuel : nat) (key : Z) (n : node) : option (node * bool * nat * option Z) :=
  match fuel with
  | O => None
  | S f =>
    match n with N es cs =>
      let '(pos, found) := search cmp key es in
      let c0 := search_c cmp key es in
      match cs with
      | [] => if found then Some (N (remove_at pos es) [], true, c0, Some key) else Some (n, false, c0, None)
      | _ =>
        match nth_error cs pos with
        | None => None
        | Some c =>
          if found then
            match delmax_c cmp f c with
            | None => None
            | Some (c', pred, k, okey) =>
              match okey with
              | None => Some (N (replace_at pos pred es) (replace_at pos c' cs), true, c0 + k, None)
              | Some rk =>
                match rebalance_child_c cmp (replace_at pos pred es) (replace_at pos c' cs) pos rk false with
                | None => None
                | Some (n', k2, okey') => Some (n', true, c0 + k + k2, okey')
                end
              end
            end
          else
            match del_c cmp f key c with
            | None => None
            | Some (c', b, k, okey) =>
              if b then
                match okey with
                | None => Some (N es (replace_at pos c' cs), b, c0 + k, None)
                | Some rk =>
                  match rebalance_child_c cmp es (replace_at pos c' cs) pos rk false with
                  | None => None
                  | Some (n', k2, okey') => Some (n', b, c0 + k + k2, okey')
                  end
                end
              else Some (n, false, c0 + k, None)
            end
        end
      end
    end
  end.

Definition remove_c (cmp : cmpf) (fuel : nat) (key : Z) (root : option node) : nat :=
  match root with
  | None => 0
  | Some n => match del_c cmp fuel key n with Some (_, _, k, _) => k | None => 0 end
  end.
End M.
