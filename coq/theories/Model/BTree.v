From Coq Require Import ZArith List Lia Bool Arith.
From Gods Require Import Common.Cmp.
Import ListNotations.

Definition entry := (Z * Z)%type.
Inductive node := N (es : list entry) (cs : list node).   (* leaf iff cs = [] *)
Definition entries n := match n with N es _ => es end.
Definition children n := match n with N _ cs => cs end.
Definition isLeaf n := match children n with [] => true | _ => false end.

(* binary search exactly as btree.search; fuel = length es + 1 *)
Fixpoint bsearch (cmp : cmpf) (key : Z) (es : list entry) (low high : Z) (fuel : nat) : (nat * bool) :=
  match fuel with
  | O => (Z.to_nat low, false)
  | S f =>
    if (low <=? high)%Z then
      let mid := ((high + low) / 2)%Z in
      match nth_error es (Z.to_nat mid) with
      | None => (Z.to_nat low, false)
      | Some (k, _) =>
        match cmp key k with
        | Gt => bsearch cmp key es (mid + 1)%Z high f
        | Lt => bsearch cmp key es low (mid - 1)%Z f
        | Eq => (Z.to_nat mid, true)
        end
      end
    else (Z.to_nat low, false)
  end.
Definition search cmp key es := bsearch cmp key es 0%Z (Z.of_nat (length es) - 1)%Z (S (length es)).

Definition insert_at {A} (i : nat) (x : A) (l : list A) := firstn i l ++ x :: skipn i l.
Definition replace_at {A} (i : nat) (x : A) (l : list A) := firstn i l ++ x :: skipn (S i) l.
Definition remove_at {A} (i : nat) (l : list A) := firstn i l ++ skipn (S i) l.

Section M.
Variable m : nat.  (* order *)
Definition maxEntries := (m - 1)%nat.
Definition minEntries := ((m + 1) / 2 - 1)%nat.
Definition middle := ((m - 1) / 2)%nat.

Inductive ires := IOk (n : node) | ISplit (l : node) (mid : entry) (r : node).

Definition maybe_split (n : node) : ires :=
  match n with N es cs =>
    if (maxEntries <? length es)%nat then
      match nth_error es middle with
      | Some mid =>
        ISplit (N (firstn middle es) (firstn (S middle) cs)) mid (N (skipn (S middle) es) (skipn (S middle) cs))
      | None => IOk n
      end
    else IOk n
  end.

(* fuel = height bound *)
Fixpoint ins (cmp : cmpf) (fuel : nat) (e : entry) (n : node) : option (ires * bool) :=
  match fuel with
  | O => None
  | S f =>
    match n with N es cs =>
      let '(pos, found) := search cmp (fst e) es in
      if found then Some (IOk (N (replace_at pos e es) cs), false)
      else match cs with
        | [] => Some (maybe_split (N (insert_at pos e es) []), true)
        | _ =>
          match nth_error cs pos with
          | None => None
          | Some c =>
            match ins cmp f e c with
            | None => None
            | Some (IOk c', b) => Some (IOk (N es (replace_at pos c' cs)), b)
            | Some (ISplit l mid r, b) =>
              Some (maybe_split (N (insert_at pos mid es) (insert_at (S pos) r (replace_at pos l cs))), b)
            end
          end
        end
    end
  end.

Definition put (cmp : cmpf) (fuel : nat) (e : entry) (root : option node) : option (option node * bool) :=
  match root with
  | None => Some (Some (N [e] []), true)
  | Some n =>
    match ins cmp fuel e n with
    | None => None
    | Some (IOk n', b) => Some (Some n', b)
    | Some (ISplit l mid r, b) => Some (Some (N [mid] [l; r]), b)
    end
  end.

(* rebalance child i of node (es, cs) after a deletion below/in it *)
Definition last_opt {A} (l : list A) := nth_error l (length l - 1).
Definition rebalance_child (es : list entry) (cs : list node) (i : nat) : option node :=
  match nth_error cs i with
  | None => None
  | Some (N ces ccs) =>
    if (minEntries <=? length ces)%nat then Some (N es cs)
    else
      let lefts := if (1 <=? i)%nat then nth_error cs (i - 1) else None in
      let rights := nth_error cs (S i) in
      let borrow_left :=
        match lefts with
        | Some (N les lcs) =>
          if (minEntries <? length les)%nat then
            match nth_error es (i - 1), last_opt les with
            | Some sep, Some le =>
              let ces' := sep :: ces in
              let es' := replace_at (i - 1) le es in
              let les' := removelast les in
              let '(lcs', ccs') := match lcs with
                                   | [] => (lcs, ccs)
                                   | _ => match last_opt lcs with
                                          | Some lc => (removelast lcs, lc :: ccs)
                                          | None => (lcs, ccs) end
                                   end in
              Some (N es' (replace_at i (N ces' ccs') (replace_at (i - 1) (N les' lcs') cs)))
            | _, _ => None
            end
          else None
        | None => None
        end in
      match borrow_left with
      | Some r => Some r
      | None =>
        let borrow_right :=
          match rights with
          | Some (N res rcs) =>
            if (minEntries <? length res)%nat then
              match nth_error es i, res with
              | Some sep, re :: res' =>
                let ces' := ces ++ [sep] in
                let es' := replace_at i re es in
                let '(rcs', ccs') := match rcs with
                                     | [] => (rcs, ccs)
                                     | rc :: rcs' => (rcs', ccs ++ [rc])
                                     end in
                Some (N es' (replace_at (S i) (N res' rcs') (replace_at i (N ces' ccs') cs)))
              | _, _ => None
              end
            else None
          | None => None
          end in
        match borrow_right with
        | Some r => Some r
        | None =>
          match rights, lefts with
          | Some (N res rcs), _ =>
            match nth_error es i with
            | Some sep =>
              Some (N (remove_at i es) (remove_at (S i) (replace_at i (N (ces ++ sep :: res) (ccs ++ rcs)) cs)))
            | None => None
            end
          | None, Some (N les lcs) =>
            match nth_error es (i - 1) with
            | Some sep =>
              Some (N (remove_at (i - 1) es) (remove_at (i - 1) (replace_at i (N (les ++ sep :: ces) (lcs ++ ccs)) cs)))
            | None => None
            end
          | None, None => Some (N es cs)
          end
        end
      end
  end.

(* delete the largest entry of the subtree, rebalancing on the way back *)
Fixpoint delmax (fuel : nat) (n : node) : option (node * entry) :=
  match fuel with
  | O => None
  | S f =>
    match n with N es cs =>
      match cs with
      | [] => match last_opt es with Some e => Some (N (removelast es) [], e) | None => None end
      | _ =>
        let i := (length cs - 1)%nat in
        match nth_error cs i with
        | None => None
        | Some c =>
          match delmax f c with
          | None => None
          | Some (c', e) =>
            match rebalance_child es (replace_at i c' cs) i with
            | None => None
            | Some n' => Some (n', e)
            end
          end
        end
      end
    end
  end.

Fixpoint del (cmp : cmpf) (fuel : nat) (key : Z) (n : node) : option (node * bool) :=
  match fuel with
  | O => None
  | S f =>
    match n with N es cs =>
      let '(pos, found) := search cmp key es in
      match cs with
      | [] => if found then Some (N (remove_at pos es) [], true) else Some (n, false)
      | _ =>
        match nth_error cs pos with
        | None => None
        | Some c =>
          if found then
            match delmax f c with
            | None => None
            | Some (c', pred) =>
              match rebalance_child (replace_at pos pred es) (replace_at pos c' cs) pos with
              | None => None
              | Some n' => Some (n', true)
              end
            end
          else
            match del cmp f key c with
            | None => None
            | Some (c', b) =>
              if b then
                match rebalance_child es (replace_at pos c' cs) pos with
                | None => None
                | Some n' => Some (n', b)
                end
              else Some (n, false)
            end
        end
      end
    end
  end.

Definition remove (cmp : cmpf) (fuel : nat) (key : Z) (root : option node) : option (option node * bool) :=
  match root with
  | None => Some (None, false)
  | Some n =>
    match del cmp fuel key n with
    | None => None
    | Some (N [] [], b) => Some (None, b)
    | Some (N [] (c :: _), b) => Some (Some c, b)
    | Some (n', b) => Some (Some n', b)
    end
  end.
End M.

(* ---------- observers (Get / Left / Right / Height of btree.go) ---------- *)
Fixpoint get (cmp : cmpf) (fuel : nat) (key : Z) (n : node) : option entry :=
  match fuel with
  | O => None
  | S f =>
    match n with N es cs =>
      let '(pos, found) := search cmp key es in
      if found then nth_error es pos
      else match nth_error cs pos with
           | None => None
           | Some c => get cmp f key c
           end
    end
  end.

(* Height(): number of levels along the first children *)
Fixpoint height (n : node) : nat :=
  match n with N _ cs => S (match cs with [] => 0 | c :: _ => height c end) end.
(* deepest level anywhere: used as recursion fuel by the machine *)
Fixpoint maxheight (n : node) : nat :=
  match n with N _ cs => S (list_max (map maxheight cs)) end.

Fixpoint left_entry (n : node) : option entry :=
  match n with N es cs => match cs with [] => hd_error es | c :: _ => left_entry c end end.
Fixpoint right_node (fuel : nat) (n : node) : node :=
  match fuel with
  | O => n
  | S f => match n with N es cs =>
             match last_opt cs with None => n | Some c => right_node f c end
           end
  end.
Definition right_entry (n : node) : option entry := last_opt (entries (right_node (maxheight n) n)).

Fixpoint interleave (cs : list (list entry)) (es : list entry) : list entry :=
  match cs with
  | [] => es
  | c :: cs' => c ++ match es with
                     | [] => concat cs'
                     | e :: es' => e :: interleave cs' es'
                     end
  end.
Fixpoint inorder (n : node) : list entry :=
  match n with N es cs => interleave (map inorder cs) es end.
Fixpoint count (n : node) : nat :=
  match n with N es cs => length es + list_sum (map count cs) end.
Fixpoint nodes (n : node) : nat :=
  match n with N es cs => S (list_sum (map nodes cs)) end.
