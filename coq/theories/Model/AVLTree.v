From Coq Require Import ZArith List Lia Bool.
From Gods Require Import Common.Cmp.
Import ListNotations.
Local Open Scope Z_scope.

Inductive tree := E | T (b : Z) (l : tree) (k : Z) (v : Z) (r : tree).
Definition bal t := match t with E => 0 | T b _ _ _ _ => b end.
Definition setb b t := match t with E => E | T _ l k v r => T b l k v r end.

(* rotate c s : c = 1 rotates left (right child comes up), c = -1 rotates right; balance factors untouched *)
Definition rotate (c : Z) (s : tree) : option tree :=
  match s with
  | E => None
  | T sb sl sk sv sr =>
    if c =? 1 then
      match sr with E => None | T rb rl rk rv rr => Some (T rb (T sb sl sk sv rl) rk rv rr) end
    else
      match sl with E => None | T rb rl rk rv rr => Some (T rb rl rk rv (T sb rr sk sv sr)) end
  end.

Definition child (c : Z) (s : tree) := match s with E => E | T _ l _ _ r => if c =? 1 then r else l end.
Definition setchild (c : Z) (s x : tree) := match s with E => E | T b l k v r => if c =? 1 then T b l k v x else T b x k v r end.

(* set balance of the child on side -c of the root... helpers for doublerot *)
Definition singlerot (c : Z) (s : tree) : option tree :=
  match rotate c (setb 0 s) with
  | None => None
  | Some s' => Some (setb 0 s')
  end.

Definition doublerot (c : Z) (s : tree) : option tree :=
  match rotate (- c) (child c s) with
  | None => None
  | Some x =>
    match rotate c (setchild c s x) with
    | None => None
    | Some p =>
      (* p root; old s is p's child on side -c ; old r is p's child on side c *)
      let pb := bal p in
      let '(sb, rb) := if pb =? c then (- c, 0) else if pb =? - c then (0, c) else (0, 0) in
      let p1 := setchild (- c) p (setb sb (child (- c) p)) in
      let p2 := setchild c p1 (setb rb (child c p1)) in
      Some (setb 0 p2)
    end
  end.

(* returns (tree, height grew?) *)
Definition putFix (c : Z) (s : tree) : option (tree * bool) :=
  let sb := bal s in
  if sb =? 0 then Some (setb c s, true)
  else if sb =? - c then Some (setb 0 s, false)
  else if bal (child c s) =? c then
    match singlerot c s with None => None | Some s' => Some (s', false) end
  else match doublerot c s with None => None | Some s' => Some (s', false) end.

Definition removeFix (c : Z) (s : tree) : option (tree * bool) :=
  let sb := bal s in
  if sb =? 0 then Some (setb c s, false)
  else if sb =? - c then Some (setb 0 s, true)
  else if bal (child c s) =? 0 then
    match rotate c s with None => None | Some s' => Some (setb (- c) s', false) end
  else if bal (child c s) =? c then
    match singlerot c s with None => None | Some s' => Some (s', true) end
  else match doublerot c s with None => None | Some s' => Some (s', true) end.

Fixpoint put (cmp : cmpf) (key val : Z) (t : tree) : option (tree * bool * bool) (* tree, fx, inserted *) :=
  match t with
  | E => Some (T 0 E key val E, true, true)
  | T b l k v r =>
    match cmp key k with
    | Eq => Some (T b l key val r, false, false)
    | Lt => match put cmp key val l with
            | None => None
            | Some (l', fx, ins) =>
              if fx then match putFix (-1) (T b l' k v r) with None => None | Some (t', f) => Some (t', f, ins) end
              else Some (T b l' k v r, false, ins)
            end
    | Gt => match put cmp key val r with
            | None => None
            | Some (r', fx, ins) =>
              if fx then match putFix 1 (T b l k v r') with None => None | Some (t', f) => Some (t', f, ins) end
              else Some (T b l k v r', false, ins)
            end
    end
  end.

Fixpoint removeMin (t : tree) : option (tree * Z * Z * bool) :=
  match t with
  | E => None
  | T b E k v r => Some (r, k, v, true)
  | T b l k v r =>
    match removeMin l with
    | None => None
    | Some (l', mk, mv, fx) =>
      if fx then match removeFix 1 (T b l' k v r) with None => None | Some (t', f) => Some (t', mk, mv, f) end
      else Some (T b l' k v r, mk, mv, false)
    end
  end.

Fixpoint remove (cmp : cmpf) (key : Z) (t : tree) : option (tree * bool * bool) (* tree, fx, removed *) :=
  match t with
  | E => Some (E, false, false)
  | T b l k v r =>
    match cmp key k with
    | Eq =>
      match r with
      | E => Some (l, true, true)
      | _ => match removeMin r with
             | None => None
             | Some (r', mk, mv, fx) =>
               if fx then match removeFix (-1) (T b l mk mv r') with None => None | Some (t', f) => Some (t', f, true) end
               else Some (T b l mk mv r', false, true)
             end
      end
    | Lt => match remove cmp key l with
            | None => None
            | Some (l', fx, rem) =>
              if fx then match removeFix 1 (T b l' k v r) with None => None | Some (t', f) => Some (t', f, rem) end
              else Some (T b l' k v r, false, rem)
            end
    | Gt => match remove cmp key r with
            | None => None
            | Some (r', fx, rem) =>
              if fx then match removeFix (-1) (T b l k v r') with None => None | Some (t', f) => Some (t', f, rem) end
              else Some (T b l k v r', false, rem)
            end
    end
  end.

(* ---------- observers (GetNode / Floor / Ceiling / bottom of avltree.go) ---------- *)
Fixpoint lookup (cmp : cmpf) (key : Z) (t : tree) : option (Z * Z) :=
  match t with
  | E => None
  | T _ l k v r =>
    match cmp key k with
    | Eq => Some (k, v)
    | Lt => lookup cmp key l
    | Gt => lookup cmp key r
    end
  end.
Fixpoint floor_from (cmp : cmpf) (key : Z) (t : tree) (cand : option (Z * Z)) : option (Z * Z) :=
  match t with
  | E => cand
  | T _ l k v r =>
    match cmp key k with
    | Eq => Some (k, v)
    | Lt => floor_from cmp key l cand
    | Gt => floor_from cmp key r (Some (k, v))
    end
  end.
Definition floor cmp key t := floor_from cmp key t None.
Fixpoint ceiling_from (cmp : cmpf) (key : Z) (t : tree) (cand : option (Z * Z)) : option (Z * Z) :=
  match t with
  | E => cand
  | T _ l k v r =>
    match cmp key k with
    | Eq => Some (k, v)
    | Lt => ceiling_from cmp key l (Some (k, v))
    | Gt => ceiling_from cmp key r cand
    end
  end.
Definition ceiling cmp key t := ceiling_from cmp key t None.
Fixpoint leftmost (t : tree) : option (Z * Z) :=
  match t with
  | E => None
  | T _ E k v _ => Some (k, v)
  | T _ l _ _ _ => leftmost l
  end.
Fixpoint rightmost (t : tree) : option (Z * Z) :=
  match t with
  | E => None
  | T _ _ k v E => Some (k, v)
  | T _ _ _ _ r => rightmost r
  end.
Fixpoint inorder (t : tree) : list (Z * Z) :=
  match t with E => [] | T _ l k v r => inorder l ++ (k, v) :: inorder r end.
Definition keys t := map fst (inorder t).
Definition values t := map snd (inorder t).
Fixpoint count (t : tree) : nat := match t with E => 0%nat | T _ l _ _ r => S (count l + count r) end.
Fixpoint height (t : tree) : nat := match t with E => 0%nat | T _ l _ _ r => S (Nat.max (height l) (height r)) end.

(* ---------- comparator-call counts (C07) ---------- *)
Fixpoint lookup_cost (cmp : cmpf) (key : Z) (t : tree) : nat :=
  match t with
  | E => 0%nat
  | T _ l k _ r =>
    match cmp key k with
    | Eq => 1%nat
    | Lt => S (lookup_cost cmp key l)
    | Gt => S (lookup_cost cmp key r)
    end
  end.
Definition put_cost := lookup_cost.
Definition remove_cost := lookup_cost.
Definition get_cost := lookup_cost.

(* ---------- iterator (iterator.go + Node.Next/Prev = walk1): node located by its path ---------- *)
Inductive side := L | R.
Inductive ipos := IBegin | IEnd | IBetween (path : list side).
Fixpoint subtree (t : tree) (p : list side) : option tree :=
  match p with
  | [] => match t with E => None | _ => Some t end
  | d :: p' => match t with
               | E => None
               | T _ l _ _ r => subtree (match d with L => l | R => r end) p'
               end
  end.
Fixpoint leftmost_path (t : tree) : list side :=
  match t with T _ (T _ _ _ _ _ as l) _ _ _ => L :: leftmost_path l | _ => [] end.
Fixpoint rightmost_path (t : tree) : list side :=
  match t with T _ _ _ _ (T _ _ _ _ _ as r) => R :: rightmost_path r | _ => [] end.
(* walk1(1) without a right child: climb while n is the right child of p; the answer is p (nil = none) *)
Fixpoint climb_next (rp : list side) : option (list side) :=
  match rp with
  | [] => None
  | L :: rest => Some (rev rest)
  | R :: rest => climb_next rest
  end.
Fixpoint climb_prev (rp : list side) : option (list side) :=
  match rp with
  | [] => None
  | R :: rest => Some (rev rest)
  | L :: rest => climb_prev rest
  end.
Definition node_next (t : tree) (p : list side) : option (list side) :=
  match subtree t p with
  | Some (T _ _ _ _ (T _ _ _ _ _ as r)) => Some (p ++ R :: leftmost_path r)
  | _ => climb_next (rev p)
  end.
Definition node_prev (t : tree) (p : list side) : option (list side) :=
  match subtree t p with
  | Some (T _ (T _ _ _ _ _ as l) _ _ _) => Some (p ++ L :: rightmost_path l)
  | _ => climb_prev (rev p)
  end.
Definition inext (t : tree) (it : ipos) : ipos :=
  match it with
  | IEnd => IEnd
  | IBegin => match t with E => IEnd | _ => IBetween (leftmost_path t) end
  | IBetween p => match node_next t p with Some q => IBetween q | None => IEnd end
  end.
Definition iprev (t : tree) (it : ipos) : ipos :=
  match it with
  | IBegin => IBegin
  | IEnd => match t with E => IBegin | _ => IBetween (rightmost_path t) end
  | IBetween p => match node_prev t p with Some q => IBetween q | None => IBegin end
  end.
Definition ikv (t : tree) (it : ipos) : option (Z * Z) :=
  match it with
  | IBetween p => match subtree t p with Some (T _ _ k v _) => Some (k, v) | _ => None end
  | _ => None
  end.
