From Coq Require Import ZArith List Lia Bool Arith.
From Gods Require Import Common.Cmp Model.BTree.
Import ListNotations.

(* iterator position: the Go iterator keeps (node, entry); the node is identified here by its path of
   child indices from the root, the entry by its key (Go re-finds it with tree.search) *)
Inductive ipos := IBegin | IEnd | IBetween (path : list nat) (key : Z).

Fixpoint node_at (n : node) (path : list nat) : option node :=
  match path with
  | [] => Some n
  | i :: p => match nth_error (children n) i with Some c => node_at c p | None => None end
  end.

(* leftmost / rightmost leaf below n, as a path suffix *)
Fixpoint leftmost (fuel : nat) (n : node) : list nat :=
  match fuel with O => [] | S f =>
    match children n with [] => [] | c :: _ => 0 :: leftmost f c end end.
Fixpoint rightmost (fuel : nat) (n : node) : list nat :=
  match fuel with O => [] | S f =>
    match children n with
    | [] => []
    | cs => let i := length cs - 1 in
            match nth_error cs i with Some c => i :: rightmost f c | None => [] end
    end end.

Definition first_key (n : node) : option Z := match entries n with (k, _) :: _ => Some k | [] => None end.
Definition last_key (n : node) : option Z := match last_opt (entries n) with Some (k, _) => Some k | None => None end.
Definition key_at_idx (n : node) (i : nat) : option Z := match nth_error (entries n) i with Some (k, _) => Some k | None => None end.

(* descent / climb fuel: one more than the height of the tree at hand (the Go loops run until they
   reach a leaf / the root; no node is deeper than the height of the root) *)
Definition fuel_of (r : node) : nat := S (maxheight r).

(* climb for Next: go up until an entry at index e exists *)
Fixpoint climb_next (cmp : cmpf) (root : node) (fuel : nat) (path : list nat) (key : Z) : ipos :=
  match fuel with
  | O => IEnd
  | S f =>
    match path with
    | [] => IEnd                                   (* node.Parent == nil *)
    | _ =>
      let p := removelast path in
      match node_at root p with
      | None => IEnd
      | Some n =>
        let e := fst (search cmp key (entries n)) in
        match key_at_idx n e with
        | Some k => IBetween p k
        | None => climb_next cmp root f p key
        end
      end
    end
  end.

Fixpoint climb_prev (cmp : cmpf) (root : node) (fuel : nat) (path : list nat) (key : Z) : ipos :=
  match fuel with
  | O => IBegin
  | S f =>
    match path with
    | [] => IBegin
    | _ =>
      let p := removelast path in
      match node_at root p with
      | None => IBegin
      | Some n =>
        let e := fst (search cmp key (entries n)) in
        if (1 <=? e)%nat then
          match key_at_idx n (e - 1) with Some k => IBetween p k | None => IBegin end
        else climb_prev cmp root f p key
      end
    end
  end.

Definition inext (cmp : cmpf) (root : option node) (it : ipos) : ipos :=
  match it with
  | IEnd => IEnd
  | IBegin =>
    match root with
    | None => IEnd
    | Some r =>
      let p := leftmost (fuel_of r) r in
      match node_at r p with
      | Some n => match first_key n with Some k => IBetween p k | None => IEnd end
      | None => IEnd
      end
    end
  | IBetween path key =>
    match root with
    | None => IEnd
    | Some r =>
      match node_at r path with
      | None => IEnd
      | Some n =>
        let e := fst (search cmp key (entries n)) in
        match nth_error (children n) (e + 1) with
        | Some c =>
          let p := path ++ (e + 1) :: leftmost (fuel_of r) c in
          match node_at r p with
          | Some n' => match first_key n' with Some k => IBetween p k | None => IEnd end
          | None => IEnd
          end
        | None =>
          match key_at_idx n (e + 1) with
          | Some k => IBetween path k
          | None => climb_next cmp r (fuel_of r) path key
          end
        end
      end
    end
  end.

Definition iprev (cmp : cmpf) (root : option node) (it : ipos) : ipos :=
  match it with
  | IBegin => IBegin
  | IEnd =>
    match root with
    | None => IBegin
    | Some r =>
      let p := rightmost (fuel_of r) r in
      match node_at r p with
      | Some n => match last_key n with Some k => IBetween p k | None => IBegin end
      | None => IBegin
      end
    end
  | IBetween path key =>
    match root with
    | None => IBegin
    | Some r =>
      match node_at r path with
      | None => IBegin
      | Some n =>
        let e := fst (search cmp key (entries n)) in
        match nth_error (children n) e with
        | Some c =>
          let p := path ++ e :: rightmost (fuel_of r) c in
          match node_at r p with
          | Some n' => match last_key n' with Some k => IBetween p k | None => IBegin end
          | None => IBegin
          end
        | None =>
          if (1 <=? e)%nat then
            match key_at_idx n (e - 1) with Some k => IBetween path k | None => IBegin end
          else climb_prev cmp r (fuel_of r) path key
        end
      end
    end
  end.

Definition ientry (root : option node) (it : ipos) : option entry :=
  match it, root with
  | IBetween path key, Some r =>
    match node_at r path with
    | Some n => find (fun e => Z.eqb (fst e) key) (entries n)
    | None => None
    end
  | _, _ => None
  end.
