(* L1 models of ArrayList, SinglyLinkedList and DoublyLinkedList at sequence level: each function
   follows the case structure of the corresponding Go method (range guard, "index == size" branch,
   head case / middle case, "size == 1 -> Clear", traversal direction of the doubly linked list).
   Pointer surgery itself (next/prev/first/last) is abstracted; see Model/LinkedCells.v for the
   cell-level models. *)
From Coq Require Import ZArith List Bool Lia.
From Gods Require Import Common.Cmp Spec.SeqSpec.
Import ListNotations.
Local Open Scope Z_scope.

(* ---------- ArrayList (lists/arraylist/arraylist.go) ---------- *)
Definition al_add (vs l : list Z) : list Z := l ++ vs.            (* growBy + element-wise copy *)
Definition al_insert (i : Z) (vs l : list Z) : list Z :=
  if negb (within i l) then (if i =? zlen l then al_add vs l else l)
  else firstn (Z.to_nat i) l ++ vs ++ skipn (Z.to_nat i) l.        (* slices.Insert *)
Definition al_set (i v : Z) (l : list Z) : list Z :=
  if negb (within i l) then (if i =? zlen l then al_add [v] l else l)
  else upd (Z.to_nat i) v l.
Definition al_remove (i : Z) (l : list Z) : list Z :=
  if negb (within i l) then l else firstn (Z.to_nat i) l ++ skipn (S (Z.to_nat i)) l.   (* slices.Delete *)
Definition al_swap (i j : Z) (l : list Z) : list Z :=
  if within i l && within j l then
    upd (Z.to_nat j) (nth (Z.to_nat i) l 0) (upd (Z.to_nat i) (nth (Z.to_nat j) l 0) l)
  else l.
Definition al_get (i : Z) (l : list Z) : option Z := if negb (within i l) then None else nth_error l (Z.to_nat i).
Definition al_contains (vs l : list Z) : bool := forallb (fun v => existsb (Z.eqb v) l) vs.  (* slices.Contains *)
Definition al_index_of (v : Z) (l : list Z) : Z := index_from v l 0.                          (* slices.Index *)

(* ---------- SinglyLinkedList (lists/singlylinkedlist/singlylinkedlist.go) ---------- *)
Definition sll_add (vs l : list Z) : list Z := fold_left (fun acc v => acc ++ [v]) vs l.     (* one cell at a time at the tail *)
Definition sll_prepend (vs l : list Z) : list Z := fold_left (fun acc v => v :: acc) (rev vs) l.  (* last value first, at the head *)
Definition sll_remove (i : Z) (l : list Z) : list Z :=
  if negb (within i l) then l
  else if zlen l =? 1 then []                                      (* size == 1 -> Clear *)
  else firstn (Z.to_nat i) l ++ skipn (S (Z.to_nat i)) l.
Definition sll_insert (i : Z) (vs l : list Z) : list Z :=
  if negb (within i l) then (if i =? zlen l then sll_add vs l else l)
  else match vs with
       | [] => l                                                   (* the repaired guard (D1) *)
       | _ => if i =? 0 then vs ++ l                               (* foundElement == list.first *)
              else firstn (Z.to_nat i) l ++ vs ++ skipn (Z.to_nat i) l
       end.
Definition sll_set (i v : Z) (l : list Z) : list Z :=
  if negb (within i l) then (if i =? zlen l then sll_add [v] l else l)
  else upd (Z.to_nat i) v l.
Definition sll_swap (i j : Z) (l : list Z) : list Z :=
  if within i l && within j l && negb (i =? j) then
    upd (Z.to_nat j) (nth (Z.to_nat i) l 0) (upd (Z.to_nat i) (nth (Z.to_nat j) l 0) l)
  else l.
Definition sll_get (i : Z) (l : list Z) : option Z := if negb (within i l) then None else nth_error l (Z.to_nat i).
Definition sll_contains (vs l : list Z) : bool :=
  match vs with
  | [] => true
  | _ => match l with [] => false | _ => forallb (fun v => existsb (fun x => x =? v) l) vs end
  end.
Definition sll_index_of (v : Z) (l : list Z) : Z := match l with [] => -1 | _ => index_from v l 0 end.

(* ---------- DoublyLinkedList (lists/doublylinkedlist/doublylinkedlist.go) ---------- *)
Definition dll_add := sll_add.
Definition dll_prepend := sll_prepend.
(* the element at index i, reached from the tail when size - i < i *)
Definition dll_get (i : Z) (l : list Z) : option Z :=
  if negb (within i l) then None
  else if zlen l - i <? i then nth_error (rev l) (Z.to_nat (zlen l - 1 - i))
  else nth_error l (Z.to_nat i).
Definition dll_remove := sll_remove.
Definition dll_insert (i : Z) (vs l : list Z) : list Z :=
  if negb (within i l) then (if i =? zlen l then dll_add vs l else l)
  else match vs with
       | [] => l                                                   (* the repaired guard (D2) *)
       | _ => if i =? 0 then vs ++ l
              else firstn (Z.to_nat i) l ++ vs ++ skipn (Z.to_nat i) l
       end.
Definition dll_set := sll_set.
Definition dll_swap := sll_swap.
Definition dll_contains := sll_contains.
Definition dll_index_of := sll_index_of.
