(* L2 specification of the three lists: one mathematical sequence (property C03). *)
From Coq Require Import ZArith List Bool Lia.
From Gods Require Import Common.Cmp.
Import ListNotations.
Local Open Scope Z_scope.

Definition zlen {A} (l : list A) : Z := Z.of_nat (length l).
Definition within {A} (i : Z) (l : list A) : bool := (0 <=? i) && (i <? zlen l).

Definition seq_add (vs l : list Z) : list Z := l ++ vs.
Definition seq_prepend (vs l : list Z) : list Z := vs ++ l.
(* Insert(i, vs...) splices vs before position i for 0 <= i <= size, otherwise nothing *)
Definition seq_insert (i : Z) (vs l : list Z) : list Z :=
  if (0 <=? i) && (i <=? zlen l) then firstn (Z.to_nat i) l ++ vs ++ skipn (Z.to_nat i) l else l.
(* Set(size, v) appends *)
Definition seq_set (i v : Z) (l : list Z) : list Z :=
  if within i l then firstn (Z.to_nat i) l ++ v :: skipn (S (Z.to_nat i)) l
  else if i =? zlen l then l ++ [v] else l.
Definition seq_remove (i : Z) (l : list Z) : list Z :=
  if within i l then firstn (Z.to_nat i) l ++ skipn (S (Z.to_nat i)) l else l.
Definition upd (n : nat) (v : Z) (l : list Z) : list Z := firstn n l ++ v :: skipn (S n) l.
Definition seq_swap (i j : Z) (l : list Z) : list Z :=
  if within i l && within j l then
    let a := nth (Z.to_nat i) l 0 in
    let b := nth (Z.to_nat j) l 0 in
    upd (Z.to_nat j) a (upd (Z.to_nat i) b l)
  else l.
Definition seq_get (i : Z) (l : list Z) : option Z :=
  if within i l then nth_error l (Z.to_nat i) else None.
Fixpoint index_from (v : Z) (l : list Z) (n : Z) : Z :=
  match l with
  | [] => -1
  | x :: l' => if x =? v then n else index_from v l' (n + 1)
  end.
Definition seq_index_of (v : Z) (l : list Z) : Z := index_from v l 0.
Definition seq_contains (vs l : list Z) : bool := forallb (fun v => existsb (Z.eqb v) l) vs.

(* Sort is specified relationally (Go's slices.SortFunc is unstable): any result that is sorted under
   the comparator and is a permutation of the input is acceptable. *)
Fixpoint sortedb (cmp : cmpf) (l : list Z) : bool :=
  match l with
  | [] => true
  | x :: l' => match l' with
               | [] => true
               | y :: _ => negb (is_gt (cmp x y)) && sortedb cmp l'
               end
  end.
Fixpoint countz (x : Z) (l : list Z) : nat :=
  match l with [] => 0%nat | y :: l' => if y =? x then S (countz x l') else countz x l' end.
Definition is_permb (a b : list Z) : bool :=
  (length a =? length b)%nat && forallb (fun x => (countz x a =? countz x b)%nat) a.
Definition sort_okb (cmp : cmpf) (l res : list Z) : bool := sortedb cmp res && is_permb res l.
(* insertion sort: one witness that an acceptable result exists *)
Fixpoint insert_sorted (cmp : cmpf) (x : Z) (l : list Z) : list Z :=
  match l with
  | [] => [x]
  | y :: l' => if is_gt (cmp x y) then y :: insert_sorted cmp x l' else x :: l
  end.
Definition isort (cmp : cmpf) (l : list Z) : list Z := fold_right (insert_sorted cmp) [] l.

(* the abstract list machine *)
Inductive lop :=
  | LAdd (vs : list Z) | LPrepend (vs : list Z) | LInsert (i : Z) (vs : list Z) | LSet (i v : Z)
  | LRemove (i : Z) | LSwap (i j : Z) | LSorted (res : list Z) | LClear.
Definition seq_step (l : list Z) (o : lop) : list Z :=
  match o with
  | LAdd vs => seq_add vs l
  | LPrepend vs => seq_prepend vs l
  | LInsert i vs => seq_insert i vs l
  | LSet i v => seq_set i v l
  | LRemove i => seq_remove i l
  | LSwap i j => seq_swap i j l
  | LSorted res => res
  | LClear => []
  end.
