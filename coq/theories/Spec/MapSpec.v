(* L2 specification of key-value containers.

   Two layers:
   - sorted association lists with [ins_list]/[del_list]/[find_list]: what the three search trees
     refine to (their in-order entry sequence);
   - the declarative, history-based reading of property C01: [last_live] scans the history
     newest-first and never mentions any container state.

   Definitions only; the lemmas are in Proofs/MapSpecProofs.v so that the model still runs when a
   proof breaks. *)
From Coq Require Import ZArith List Lia Bool Sorted.
From Gods Require Import Common.Cmp.
Import ListNotations.
Local Open Scope Z_scope.

Definition entry := (Z * Z)%type.

Section WithCmp.
Variable cmp : cmpf.

(* keys strictly ascending under cmp *)
Definition ksorted (l : list entry) : Prop :=
  StronglySorted (fun a b => cmp (fst a) (fst b) = Lt) l.

Fixpoint ins_list (k v : Z) (l : list entry) : list entry :=
  match l with
  | [] => [(k, v)]
  | (k', v') :: l' =>
    match cmp k k' with
    | Lt => (k, v) :: l
    | Eq => (k, v) :: l'                   (* the stored key is replaced too, as in the Go code *)
    | Gt => (k', v') :: ins_list k v l'
    end
  end.

Fixpoint del_list (k : Z) (l : list entry) : list entry :=
  match l with
  | [] => []
  | (k', v') :: l' =>
    match cmp k k' with
    | Lt => l
    | Eq => l'
    | Gt => (k', v') :: del_list k l'
    end
  end.

(* first entry whose key is equivalent to k (no use of sortedness) *)
Definition find_list (k : Z) (l : list entry) : option entry :=
  find (fun e => is_eq (cmp k (fst e))) l.

Definition mem_list (k : Z) (l : list entry) : bool :=
  match find_list k l with Some _ => true | None => false end.

(* greatest entry not above k / least entry not below k, by filtering the whole list *)
Definition floor_list (k : Z) (l : list entry) : option entry :=
  last (map Some (filter (fun e => negb (is_lt (cmp k (fst e)))) l)) None.
Definition ceiling_list (k : Z) (l : list entry) : option entry :=
  hd_error (filter (fun e => negb (is_gt (cmp k (fst e)))) l).

(* ---------- the history-based specification ---------- *)
Inductive mop := MPut (k v : Z) | MRemove (k : Z) | MClear.

(* state of the abstract map after a history: a sorted association list *)
Definition mstep (l : list entry) (o : mop) : list entry :=
  match o with
  | MPut k v => ins_list k v l
  | MRemove k => del_list k l
  | MClear => []
  end.
Definition mrun (h : list mop) : list entry := fold_left mstep h [].

(* h is newest-first: the entry stored by the most recent Put of a key equivalent to k that has not
   been followed by a Remove of an equivalent key or by Clear *)
Fixpoint last_live (h : list mop) (k : Z) : option entry :=
  match h with
  | [] => None
  | MPut k' v :: h' => match cmp k k' with Eq => Some (k', v) | _ => last_live h' k end
  | MRemove k' :: h' => match cmp k k' with Eq => None | _ => last_live h' k end
  | MClear :: _ => None
  end.

End WithCmp.

(* the unordered (hash) variant: Go's built-in map, keys compared with == *)
Definition eq_cmp : cmpf := Z.compare.
