(* L2 specifications of the set kinds (property C04) and of the insertion order of the linked kinds
   (property C09).  Both are history based: they scan / fold the list of calls made so far and never
   mention a container state.

   Definitions only; the lemmas are in Proofs/SetsProofs.v and Proofs/LinkedProofs.v. *)
From Coq Require Import ZArith List Bool.
From Gods Require Import Common.Cmp Model.Ops.
Import ListNotations.
Local Open Scope Z_scope.

(* ================= C04: membership as a function of the history ================= *)

(* the calls that matter for a set *)
Inductive sop := SAdd (vs : list Z) | SRem (vs : list Z) | SClear.

(* the set calls an operation of the uniform machine stands for.  FromJSON of an array is
   Clear + Add(elements...); of null it is Clear; a document that does not decode changes nothing. *)
Definition set_hist1 (c : config) (o : op) : list sop :=
  match o with
  | Add vs => [SAdd vs]
  | RemoveVals vs => [SRem vs]
  | Clear => [SClear]
  | FromJSON (DArr vs) => [SClear; SAdd vs]
  | FromJSON DNull => [SClear]
  | _ => []
  end.
Definition set_hist (c : config) (ops : list op) : list sop := flat_map (set_hist1 c) ops.

(* does the argument list vs contain an element equivalent to x *)
Definition eqvb (cmp : cmpf) (x : Z) (vs : list Z) : bool := existsb (fun y => is_eq (cmp x y)) vs.

(* h is newest-first.  The most recent call whose argument list mentions (an element equivalent to) x
   decides: Add -> member, Remove -> not a member; a Clear met before any such call, or no such call
   at all -> not a member.  [live_from] is the same scan continued into a base membership. *)
Fixpoint live_from (cmp : cmpf) (h : list sop) (base : Z -> bool) (x : Z) : bool :=
  match h with
  | [] => base x
  | SAdd vs :: h' => if eqvb cmp x vs then true else live_from cmp h' base x
  | SRem vs :: h' => if eqvb cmp x vs then false else live_from cmp h' base x
  | SClear :: _ => false
  end.
Definition live (cmp : cmpf) (h : list sop) (x : Z) : bool := live_from cmp h (fun _ => false) x.

(* ================= C09: insertion order as a function of the history ================= *)

Inductive event := EIns (k : Z) | ERem (k : Z) | EClear.

(* insert k appends k iff k is absent; remove k deletes k; clear empties *)
Definition order_step (l : list Z) (e : event) : list Z :=
  match e with
  | EIns k => if existsb (Z.eqb k) l then l else l ++ [k]
  | ERem k => filter (fun x => negb (x =? k)) l
  | EClear => []
  end.
Definition order_spec (es : list event) : list Z := fold_left order_step es [].

(* key events of one operation.  LinkedHashSet: Add inserts its arguments in argument order.
   LinkedHashMap: FromJSON of an object is Clear followed by the insertion of the member keys in
   document order (a duplicate member name is an insertion of a present key: no effect on order). *)
Definition events1 (c : config) (o : op) : list event :=
  match ckind c with
  | LinkedHashSet =>
    match o with
    | Add vs => map EIns vs
    | RemoveVals vs => map ERem vs
    | Clear => [EClear]
    | FromJSON (DArr vs) => EClear :: map EIns vs
    | FromJSON DNull => [EClear]
    | _ => []
    end
  | LinkedHashMap =>
    match o with
    | Put k _ => [EIns k]
    | Remove k => [ERem k]
    | Clear => [EClear]
    | FromJSON (DObj kvs) => EClear :: map EIns (map fst kvs)
    | FromJSON DNull => [EClear]
    | _ => []
    end
  | _ => []
  end.
Definition events (c : config) (ops : list op) : list event := flat_map (events1 c) ops.

(* ---------- the declarative reading of the order ---------- *)
(* position (in the event list, oldest first, counted from 0) of the most recent insertion of k that
   found k absent, provided k has not been removed / cleared since: [birth es k].
   [None]: k is not present after es. *)
Fixpoint birth_from (es : list event) (n : nat) (cur : option nat) (k : Z) : option nat :=
  match es with
  | [] => cur
  | EIns k' :: es' =>
    birth_from es' (S n) (if k' =? k then match cur with Some _ => cur | None => Some n end else cur) k
  | ERem k' :: es' => birth_from es' (S n) (if k' =? k then None else cur) k
  | EClear :: es' => birth_from es' (S n) None k
  end.
Definition birth (es : list event) (k : Z) : option nat := birth_from es 0 None k.
