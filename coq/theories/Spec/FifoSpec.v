(* L2 specification of the two stacks and three queues (property C05): the content of the container
   is one mathematical sequence [q : list Z] listed in REMOVAL ORDER -- the head of [q] is the
   element the next Pop / Dequeue returns and Peek shows.
     stack (ArrayStack, LinkedListStack) : Push conses at the front, Pop removes the head   (LIFO)
     queue (ArrayQueue, LinkedListQueue) : Enqueue appends at the back, Dequeue removes the head (FIFO)
     CircularBuffer of capacity cap      : a queue that keeps only the last cap elements:
                                           Enqueue x = lastn cap (q ++ [x])
   Definitions only; the refinement proof is Proofs/C05Proofs.v, the theorems are Properties/C05.v. *)
From Coq Require Import ZArith List Bool.
From Gods Require Import Common.Cmp Common.ListAux Spec.SeqSpec Model.Ops.
Import ListNotations.

Definition is_stack (k : kind) : bool :=
  match k with ArrayStack | LinkedListStack => true | _ => false end.
Definition is_queue (k : kind) : bool :=
  match k with ArrayQueue | LinkedListQueue | CircularBuffer => true | _ => false end.

(* the capacity of the circular buffer *)
Definition cap_of (c : config) : nat := Z.to_nat (ccap c).

(* the configurations C05 speaks about: the five kinds; a CircularBuffer needs a capacity >= 1
   (New(0) panics, as documented) *)
Definition c05_config (c : config) : Prop :=
  match ckind c with
  | ArrayStack | LinkedListStack | ArrayQueue | LinkedListQueue => True
  | CircularBuffer => (1 <= ccap c)%Z
  | _ => False
  end.

(* ---------- the abstract operations ---------- *)
Definition abs_push (v : Z) (q : list Z) : list Z := v :: q.
Definition abs_enqueue (c : config) (v : Z) (q : list Z) : list Z :=
  match ckind c with
  | CircularBuffer => lastn (cap_of c) (q ++ [v])      (* a full buffer loses exactly its oldest element *)
  | _ => q ++ [v]
  end.
(* Pop / Dequeue: the head leaves, and is the result; (zero, false) on an empty container *)
Definition abs_remove (q : list Z) : list Z * obs := (tl q, oopt (hd_error q)).
Definition abs_peek (q : list Z) : obs := oopt (hd_error q).
Definition abs_size (q : list Z) : Z := Z.of_nat (length q).
Definition abs_full (c : config) (q : list Z) : bool := Nat.eqb (length q) (cap_of c).
(* FromJSON of an array: the content becomes what the array denotes.  ArrayStack: the array is the
   backing slice, whose LAST element is the top; LinkedListStack: the FIRST element is the top;
   queues: the first element is the front; the ring keeps the last cap elements. *)
Definition abs_load (c : config) (vs : list Z) : list Z :=
  match ckind c with
  | ArrayStack => rev vs
  | CircularBuffer => lastn (cap_of c) vs
  | _ => vs
  end.

(* [Iter] scripts are the business of the iterator properties; C05 leaves their result unspecified *)
Definition c05_specified (o : op) : bool := match o with Iter _ => false | _ => true end.

(* one operation on the abstract content: new content and the operation's result.
   Operations the kind does not offer leave the content unchanged. *)
Definition abs_step (c : config) (q : list Z) (o : op) : list Z * obs :=
  match o with
  | Push v => if is_stack (ckind c) then (abs_push v q, ounit) else (q, ounsupported)
  | Pop => if is_stack (ckind c) then abs_remove q else (q, ounsupported)
  | Enqueue v => if is_queue (ckind c) then (abs_enqueue c v q, ounit) else (q, ounsupported)
  | Dequeue => if is_queue (ckind c) then abs_remove q else (q, ounsupported)
  | Clear => ([], ounit)
  | FromJSON (DArr vs) => (abs_load c vs, obool true)
  | FromJSON DNull => ([], obool true)
  | FromJSON _ => (q, obool false)
  | SortedValues => (q, ozs (isort Z.compare q))
  | SortedValuesFunc ci res => (q, obool (sort_okb (cmp_of ci) q res))
  | Iter _ => (q, OL [])                               (* result not specified here *)
  | _ => (q, ounsupported)
  end.

Definition abs_run_from (c : config) (q : list Z) (ops : list op) : list Z :=
  fold_left (fun q o => fst (abs_step c q o)) ops q.
Definition abs_run (c : config) (ops : list op) : list Z := abs_run_from c [] ops.

(* the operation that removes an element *)
Definition remove_op (c : config) : op := if is_stack (ckind c) then Pop else Dequeue.

(* ---------- history view of the queues (for the declarative corollary) ---------- *)
(* every value that entered the queue since the last Clear / FromJSON, oldest first *)
Definition enq_history (c : config) (ops : list op) : list Z :=
  fold_left (fun h o =>
    match o with
    | Enqueue v => h ++ [v]
    | Clear => []
    | FromJSON (DArr vs) => vs
    | FromJSON DNull => []
    | _ => h
    end) ops [].

(* no Dequeue in the operation list *)
Definition no_dequeue (ops : list op) : bool :=
  forallb (fun o => match o with Dequeue => false | _ => true end) ops.
