(* Property C04 (HashSet, TreeSet, LinkedHashSet) and the shared lemmas about Go's built-in map as a
   canonical association list (hput / hdel / hget / hmem, sadd / sdel / smem) that LinkedProofs.v and
   BidiProofs.v reuse.  All lemma names of the shared part carry the prefix [sp_]. *)
From Coq Require Import ZArith List Lia Bool Arith Sorted Permutation SetoidList.
From Gods Require Import Common.Cmp Common.ListAux Spec.SeqSpec Spec.MapSpec Spec.SetSpec
  Model.Ops Model.Lists Model.Machine Proofs.RBInv Proofs.RBMap.
Import ListNotations.
Local Open Scope Z_scope.

(* ================================================================================== *)
(* Comparators                                                                          *)
(* ================================================================================== *)

Lemma sp_cmp_by_SWO : forall f, SWO (cmp_by f).
Proof.
  intros f. unfold cmp_by. constructor.
  - intros x. apply Z.compare_refl.
  - intros x y. apply Z.compare_antisym.
  - intros x y z H1 H2. rewrite Z.compare_lt_iff in *. lia.
  - intros x y z H. apply Z.compare_eq in H. rewrite H. reflexivity.
Qed.

Lemma sp_cmp_of_SWO : forall ci, SWO (cmp_of ci).
Proof. intros ci. apply sp_cmp_by_SWO. Qed.

Lemma sp_Zcompare_SWO : SWO Z.compare.
Proof. exact (sp_cmp_by_SWO (fun x => x)). Qed.

Lemma sp_kc_SWO : forall c, SWO (kc c).
Proof. intros c. apply sp_cmp_of_SWO. Qed.
Lemma sp_vc_SWO : forall c, SWO (vc c).
Proof. intros c. apply sp_cmp_of_SWO. Qed.

Lemma sp_is_eq_Zcompare x y : is_eq (x ?= y) = (x =? y).
Proof.
  destruct (Z.eqb_spec x y) as [->|Hne].
  - rewrite Z.compare_refl. reflexivity.
  - destruct (x ?= y) eqn:E; try reflexivity. apply Z.compare_eq in E. contradiction.
Qed.

(* ================================================================================== *)
(* Association lists under an arbitrary strict weak order                               *)
(* ================================================================================== *)
Section Assoc.
Variable cmp : cmpf.
Hypothesis Hswo : SWO cmp.

Lemma sp_cmp_eq_r x k k' : cmp k k' = Eq -> cmp x k = cmp x k'.
Proof.
  intros H. rewrite (swo_sym _ Hswo k x), (swo_sym _ Hswo k' x).
  rewrite (swo_eq_l _ Hswo k k' x H). reflexivity.
Qed.

Lemma sp_cmp_eq_trans x y z : cmp x y = Eq -> cmp y z = Eq -> cmp x z = Eq.
Proof. intros H1 H2. rewrite (swo_eq_l _ Hswo x y z H1). exact H2. Qed.

Lemma sp_cmp_eq_sym x y : cmp x y = Eq -> cmp y x = Eq.
Proof. intros H. rewrite (swo_sym _ Hswo x y), H. reflexivity. Qed.

(* lookup after insertion: no sortedness needed *)
Lemma sp_find_ins x k v l :
  find_list cmp x (ins_list cmp k v l) = if is_eq (cmp x k) then Some (k, v) else find_list cmp x l.
Proof.
  induction l as [|[k' v'] l IH].
  - reflexivity.
  - cbn [ins_list]. destruct (cmp k k') eqn:E.
    + unfold find_list. cbn [find fst].
      rewrite <- (sp_cmp_eq_r x k k' E). destruct (is_eq (cmp x k)); reflexivity.
    + reflexivity.
    + unfold find_list in *. cbn [find fst]. rewrite IH.
      destruct (is_eq (cmp x k')) eqn:E1; destruct (is_eq (cmp x k)) eqn:E2; try reflexivity.
      exfalso. destruct (cmp x k') eqn:F1; try discriminate. destruct (cmp x k) eqn:F2; try discriminate.
      apply sp_cmp_eq_sym in F2. rewrite (sp_cmp_eq_trans _ _ _ F2 F1) in E. discriminate.
Qed.

Lemma sp_find_above x k l : above cmp k l -> cmp x k = Eq -> find_list cmp x l = None.
Proof.
  intros Ha He. apply find_list_above.
  unfold above in *. eapply Forall_impl; [|exact Ha].
  intros e He'. cbn in He'. rewrite (swo_eq_l _ Hswo x k (fst e) He). exact He'.
Qed.

Lemma sp_all_gt_above k l : all_gt cmp l k -> above cmp k l.
Proof. intros H. exact H. Qed.

Lemma sp_find_del x k l : ksorted cmp l ->
  find_list cmp x (del_list cmp k l) = if is_eq (cmp x k) then None else find_list cmp x l.
Proof.
  induction l as [|[k' v'] l IH]; intros Hs.
  - cbn. destruct (is_eq (cmp x k)); reflexivity.
  - destruct (ksorted_cons_inv _ _ _ Hs) as [Hs' Hgt]. cbn [fst] in Hgt.
    cbn [del_list]. destruct (cmp k k') eqn:E.
    + (* Eq *)
      destruct (is_eq (cmp x k)) eqn:E1.
      * destruct (cmp x k) eqn:F; try discriminate.
        apply (sp_find_above x k'); [exact Hgt|]. eapply sp_cmp_eq_trans; eassumption.
      * unfold find_list. cbn [find fst]. rewrite <- (sp_cmp_eq_r x k k' E), E1. reflexivity.
    + (* Lt *)
      destruct (is_eq (cmp x k)) eqn:E1; [|reflexivity].
      destruct (cmp x k) eqn:F; try discriminate.
      apply (sp_find_above x k); [|exact F].
      constructor; [exact E|]. apply all_gt_trans with (b := k'); assumption.
    + (* Gt *)
      unfold find_list in *. cbn [find fst]. rewrite (IH Hs').
      destruct (is_eq (cmp x k')) eqn:E1; destruct (is_eq (cmp x k)) eqn:E2; try reflexivity.
      exfalso. destruct (cmp x k') eqn:F1; try discriminate. destruct (cmp x k) eqn:F2; try discriminate.
      apply sp_cmp_eq_sym in F2. rewrite (sp_cmp_eq_trans _ _ _ F2 F1) in E. discriminate.
Qed.

Lemma sp_mem_ins x k v l :
  mem_list cmp x (ins_list cmp k v l) = is_eq (cmp x k) || mem_list cmp x l.
Proof. unfold mem_list. rewrite sp_find_ins. destruct (is_eq (cmp x k)); reflexivity. Qed.

Lemma sp_mem_del x k l : ksorted cmp l ->
  mem_list cmp x (del_list cmp k l) = negb (is_eq (cmp x k)) && mem_list cmp x l.
Proof. intros Hs. unfold mem_list. rewrite sp_find_del by assumption. destruct (is_eq (cmp x k)); reflexivity. Qed.

Lemma sp_find_In x l e : find_list cmp x l = Some e -> In e l /\ cmp x (fst e) = Eq.
Proof.
  unfold find_list. intros H. apply find_some in H. destruct H as [H1 H2].
  split; [assumption|]. destruct (cmp x (fst e)); try discriminate. reflexivity.
Qed.

(* in a sorted list an entry is found by any key equivalent to its own *)
Lemma sp_In_find x l e : ksorted cmp l -> In e l -> cmp x (fst e) = Eq -> find_list cmp x l = Some e.
Proof.
  induction l as [|a l IH]; intros Hs Hin He; [contradiction|].
  destruct (ksorted_cons_inv _ _ _ Hs) as [Hs' Hgt].
  unfold find_list. cbn [find]. destruct Hin as [->|Hin].
  - rewrite He. reflexivity.
  - assert (Hlt : cmp (fst a) (fst e) = Lt).
    { unfold all_gt in Hgt. rewrite Forall_forall in Hgt. apply Hgt. assumption. }
    assert (Hx : cmp x (fst a) = Gt).
    { rewrite (swo_sym _ Hswo (fst a) x). rewrite (sp_cmp_eq_r (fst a) x (fst e) He), Hlt. reflexivity. }
    rewrite Hx. cbn [is_eq]. apply IH; assumption.
Qed.

Lemma sp_find_none x l : find_list cmp x l = None -> forall e, In e l -> cmp x (fst e) <> Eq.
Proof.
  unfold find_list. intros H e Hin He.
  pose proof (find_none _ _ H e Hin) as Hn. cbn in Hn. rewrite He in Hn. discriminate.
Qed.

Lemma sp_mem_existsb x l : mem_list cmp x l = existsb (fun e => is_eq (cmp x (fst e))) l.
Proof.
  unfold mem_list, find_list. induction l as [|a l IH]; [reflexivity|].
  cbn [find existsb]. destruct (is_eq (cmp x (fst a))); [reflexivity|exact IH].
Qed.

(* membership of entries after ins / del (sorted lists) *)
Lemma sp_In_ins e k v l : ksorted cmp l ->
  (In e (ins_list cmp k v l) <-> e = (k, v) \/ (In e l /\ cmp (fst e) k <> Eq)).
Proof.
  intros Hs. assert (Hs2 : ksorted cmp (ins_list cmp k v l)) by (apply ins_list_sorted; assumption). split.
  - intros Hin.
    assert (Hf : find_list cmp (fst e) (ins_list cmp k v l) = Some e).
    { apply sp_In_find; try assumption. apply (swo_refl _ Hswo). }
    rewrite sp_find_ins in Hf. destruct (is_eq (cmp (fst e) k)) eqn:E.
    + left. congruence.
    + right. apply sp_find_In in Hf. split; [tauto|]. intros F. rewrite F in E. discriminate.
  - intros [->|[Hin Hne]].
    + assert (Hf : find_list cmp k (ins_list cmp k v l) = Some (k, v)).
      { rewrite sp_find_ins, (swo_refl _ Hswo). reflexivity. }
      apply sp_find_In in Hf. tauto.
    + assert (Hf : find_list cmp (fst e) (ins_list cmp k v l) = Some e).
      { rewrite sp_find_ins. destruct (cmp (fst e) k) eqn:E; try congruence; cbn [is_eq];
        apply sp_In_find; try assumption; apply (swo_refl _ Hswo). }
      apply sp_find_In in Hf. tauto.
Qed.

Lemma sp_In_del e k l : ksorted cmp l ->
  (In e (del_list cmp k l) <-> In e l /\ cmp (fst e) k <> Eq).
Proof.
  intros Hs. assert (Hs2 : ksorted cmp (del_list cmp k l)) by (apply del_list_sorted; assumption). split.
  - intros Hin.
    assert (Hf : find_list cmp (fst e) (del_list cmp k l) = Some e).
    { apply sp_In_find; try assumption. apply (swo_refl _ Hswo). }
    rewrite sp_find_del in Hf by assumption. destruct (is_eq (cmp (fst e) k)) eqn:E; [discriminate|].
    apply sp_find_In in Hf. split; [tauto|]. intros F. rewrite F in E. discriminate.
  - intros [Hin Hne].
    assert (Hf : find_list cmp (fst e) (del_list cmp k l) = Some e).
    { rewrite sp_find_del by assumption. destruct (cmp (fst e) k) eqn:E; try congruence; cbn [is_eq];
      apply sp_In_find; try assumption; apply (swo_refl _ Hswo). }
    apply sp_find_In in Hf. tauto.
Qed.

(* lengths *)
Lemma sp_mem_above k l : above cmp k l -> mem_list cmp k l = false.
Proof. intros H. unfold mem_list. rewrite find_list_above by assumption. reflexivity. Qed.

Lemma sp_mem_cons x a l : mem_list cmp x (a :: l) = is_eq (cmp x (fst a)) || mem_list cmp x l.
Proof. rewrite !sp_mem_existsb. reflexivity. Qed.

Lemma sp_length_ins k v l : ksorted cmp l ->
  length (ins_list cmp k v l) = if mem_list cmp k l then length l else S (length l).
Proof.
  induction l as [|[k' v'] l IH]; intros Hs; [reflexivity|].
  destruct (ksorted_cons_inv _ _ _ Hs) as [Hs' Hgt]. cbn [fst] in Hgt.
  rewrite sp_mem_cons. cbn [ins_list fst]. destruct (cmp k k') eqn:E; cbn [is_eq orb length].
  - reflexivity.
  - rewrite sp_mem_above; [reflexivity|]. apply all_gt_trans with (b := k'); assumption.
  - rewrite (IH Hs'). destruct (mem_list cmp k l); reflexivity.
Qed.

Lemma sp_length_del k l : ksorted cmp l ->
  length (del_list cmp k l) = if mem_list cmp k l then Nat.pred (length l) else length l.
Proof.
  induction l as [|[k' v'] l IH]; intros Hs; [reflexivity|].
  destruct (ksorted_cons_inv _ _ _ Hs) as [Hs' Hgt]. cbn [fst] in Hgt.
  rewrite sp_mem_cons. cbn [del_list fst]. destruct (cmp k k') eqn:E; cbn [is_eq orb length].
  - reflexivity.
  - rewrite sp_mem_above; [reflexivity|]. apply all_gt_trans with (b := k'); assumption.
  - rewrite (IH Hs'). destruct (mem_list cmp k l) eqn:M; [|reflexivity].
    destruct l as [|a l]; [discriminate M|reflexivity].
Qed.

(* keys of a sorted list: strictly ascending, hence pairwise inequivalent *)
Lemma sp_keys_sorted l : ksorted cmp l -> StronglySorted (fun a b => cmp a b = Lt) (map fst l).
Proof.
  induction 1 as [|a l Hs IH Hall]; cbn [map]; constructor; [assumption|].
  rewrite Forall_map. exact Hall.
Qed.

Lemma sp_sorted_NoDupA l : StronglySorted (fun a b => cmp a b = Lt) l -> NoDupA (fun a b => cmp a b = Eq) l.
Proof.
  induction 1 as [|a l Hs IH Hall]; constructor; [|assumption].
  intros Hin. apply InA_alt in Hin. destruct Hin as (y & Hy & Hin).
  rewrite Forall_forall in Hall. rewrite (Hall y Hin) in Hy. discriminate.
Qed.

Lemma sp_InA_keys x l : InA (fun a b => cmp a b = Eq) x (map fst l) <-> mem_list cmp x l = true.
Proof.
  rewrite sp_mem_existsb, InA_alt, existsb_exists. split.
  - intros (y & Hy & Hin). apply in_map_iff in Hin. destruct Hin as (e & <- & Hin).
    exists e. rewrite Hy. split; [assumption|reflexivity].
  - intros (e & Hin & He). exists (fst e). split; [|apply in_map; assumption].
    destruct (cmp x (fst e)); try discriminate. reflexivity.
Qed.

End Assoc.

(* ================================================================================== *)
(* Go's built-in map: hput / hdel / hget / hmem                                         *)
(* ================================================================================== *)

Definition hsorted (l : list (Z * Z)) : Prop := ksorted Z.compare l.

Lemma sp_hget_find k l : hget k l = match find_list Z.compare k l with Some e => Some (snd e) | None => None end.
Proof.
  unfold hget, find_list. induction l as [|a l IH]; [reflexivity|].
  cbn [find]. rewrite sp_is_eq_Zcompare, (Z.eqb_sym k (fst a)).
  destruct (fst a =? k); [reflexivity|exact IH].
Qed.

Lemma sp_hmem_hget k l : hmem k l = match hget k l with Some _ => true | None => false end.
Proof.
  unfold hmem, hget. induction l as [|a l IH]; [reflexivity|].
  cbn [existsb find]. destruct (fst a =? k); [reflexivity|exact IH].
Qed.

Lemma sp_hsorted_nil : hsorted [].
Proof. constructor. Qed.

Lemma sp_hput_sorted k v l : hsorted l -> hsorted (hput k v l).
Proof. intros H. apply ins_list_sorted; [exact sp_Zcompare_SWO|exact H]. Qed.

Lemma sp_hdel_sorted k l : hsorted l -> hsorted (hdel k l).
Proof. intros H. apply del_list_sorted; first [exact sp_Zcompare_SWO|exact H]. Qed.

Lemma sp_hget_hput x k v l : hget x (hput k v l) = if x =? k then Some v else hget x l.
Proof.
  rewrite !sp_hget_find. unfold hput. rewrite (sp_find_ins _ sp_Zcompare_SWO).
  rewrite sp_is_eq_Zcompare. destruct (x =? k); reflexivity.
Qed.

Lemma sp_hget_hdel x k l : hsorted l -> hget x (hdel k l) = if x =? k then None else hget x l.
Proof.
  intros Hs. rewrite !sp_hget_find. unfold hdel. rewrite (sp_find_del _ sp_Zcompare_SWO) by assumption.
  rewrite sp_is_eq_Zcompare. destruct (x =? k); reflexivity.
Qed.

Lemma sp_hmem_hput x k v l : hmem x (hput k v l) = (x =? k) || hmem x l.
Proof. rewrite !sp_hmem_hget, sp_hget_hput. destruct (x =? k); reflexivity. Qed.

Lemma sp_hmem_hdel x k l : hsorted l -> hmem x (hdel k l) = negb (x =? k) && hmem x l.
Proof. intros Hs. rewrite !sp_hmem_hget, sp_hget_hdel by assumption. destruct (x =? k); reflexivity. Qed.

Lemma sp_hget_nil x : hget x [] = None.
Proof. reflexivity. Qed.

(* entries of a sorted table are exactly the successful lookups *)
Lemma sp_hget_In k v l : hsorted l -> (hget k l = Some v <-> In (k, v) l).
Proof.
  intros Hs. rewrite sp_hget_find. split.
  - destruct (find_list Z.compare k l) as [e|] eqn:F; [|discriminate].
    intros H. apply sp_find_In in F. destruct F as [Hin He]. apply Z.compare_eq in He.
    destruct e as [k' v']. cbn in *. inversion H; subst. assumption.
  - intros Hin. rewrite (sp_In_find _ sp_Zcompare_SWO k l (k, v) Hs Hin (Z.compare_refl k)). reflexivity.
Qed.

Lemma sp_hsorted_NoDup_keys l : hsorted l -> NoDup (map fst l).
Proof.
  intros Hs. apply (sp_keys_sorted Z.compare) in Hs.
  induction Hs as [|a l' Hs IH Hall]; constructor; [|assumption].
  intros Hin. rewrite Forall_forall in Hall. apply Hall in Hin. rewrite Z.compare_refl in Hin. discriminate.
Qed.

Lemma sp_hsorted_NoDup l : hsorted l -> NoDup l.
Proof. intros Hs. apply (NoDup_map_inv fst). apply sp_hsorted_NoDup_keys. assumption. Qed.

Lemma sp_hmem_In k l : hmem k l = true <-> In k (map fst l).
Proof.
  unfold hmem. rewrite existsb_exists, in_map_iff. split.
  - intros (e & Hin & He). apply Z.eqb_eq in He. exists e. tauto.
  - intros (e & He & Hin). exists e. split; [assumption|]. apply Z.eqb_eq. assumption.
Qed.

Lemma sp_zlen_hput k v l : hsorted l -> zlen (hput k v l) = if hmem k l then zlen l else zlen l + 1.
Proof.
  intros Hs. unfold zlen, hput. rewrite (sp_length_ins _ sp_Zcompare_SWO) by assumption.
  rewrite sp_hmem_hget, sp_hget_find. unfold mem_list.
  destruct (find_list Z.compare k l); cbv beta iota; unfold entry in *; lia.
Qed.

Lemma sp_zlen_hdel k l : hsorted l -> zlen (hdel k l) = if hmem k l then zlen l - 1 else zlen l.
Proof.
  intros Hs. unfold zlen, hdel. rewrite (sp_length_del _ sp_Zcompare_SWO) by assumption.
  rewrite sp_hmem_hget, sp_hget_find. unfold mem_list.
  destruct (find_list Z.compare k l) eqn:F; cbv beta iota; unfold entry in *; [|lia].
  destruct l as [|a l]; [discriminate F|]. cbn [length Nat.pred]. lia.
Qed.

(* ================================================================================== *)
(* A Go map used as a set: sadd / sdel / smem                                           *)
(* ================================================================================== *)

Definition zasc (l : list Z) : Prop := StronglySorted Z.lt l.
Definition emb (l : list Z) : list (Z * Z) := map (fun y => (y, 0)) l.

Lemma sp_map_fst_emb l : map fst (emb l) = l.
Proof. unfold emb. rewrite map_map. cbn. apply map_id. Qed.

Lemma sp_emb_sorted l : zasc l <-> hsorted (emb l).
Proof.
  unfold zasc, hsorted, ksorted, emb. split.
  - induction 1 as [|a l Hs IH Hall]; cbn [map]; constructor; [assumption|].
    rewrite Forall_map. cbn. eapply Forall_impl; [|exact Hall]. intros b Hb. exact Hb.
  - induction l as [|a l IH]; intros H; [constructor|].
    cbn [map] in H. inversion H as [|x y Hs Hall]; subst. constructor; [auto|].
    rewrite Forall_map in Hall. cbn in Hall. eapply Forall_impl; [|exact Hall]. intros b Hb. exact Hb.
Qed.

Lemma sp_emb_ins x l : ins_list Z.compare x 0 (emb l) = emb (match l with _ => map fst (ins_list Z.compare x 0 (emb l)) end).
Proof.
  induction l as [|a l IH]; [reflexivity|].
  cbn [emb map ins_list]. destruct (x ?= a).
  - cbn [map fst]. fold (emb l). rewrite sp_map_fst_emb. reflexivity.
  - cbn [map fst]. fold (emb l). rewrite sp_map_fst_emb. reflexivity.
  - cbn [map fst]. fold (emb l). f_equal. exact IH.
Qed.

Lemma sp_emb_sadd x l : emb (sadd x l) = hput x 0 (emb l).
Proof. unfold sadd, hput. fold (emb l). symmetry. apply sp_emb_ins. Qed.

Lemma sp_emb_del x l : del_list Z.compare x (emb l) = emb (map fst (del_list Z.compare x (emb l))).
Proof.
  induction l as [|a l IH]; [reflexivity|].
  cbn [emb map del_list]. destruct (x ?= a).
  - fold (emb l). rewrite sp_map_fst_emb. reflexivity.
  - cbn [map fst]. fold (emb l). rewrite sp_map_fst_emb. reflexivity.
  - cbn [map fst]. fold (emb l). f_equal. exact IH.
Qed.

Lemma sp_emb_sdel x l : emb (sdel x l) = hdel x (emb l).
Proof. unfold sdel, hdel. fold (emb l). symmetry. apply sp_emb_del. Qed.

Lemma sp_smem_hmem x l : smem x l = hmem x (emb l).
Proof.
  unfold smem, hmem, emb. induction l as [|a l IH]; [reflexivity|].
  cbn [existsb map fst]. rewrite (Z.eqb_sym x a), IH. reflexivity.
Qed.

Lemma sp_smem_In x l : smem x l = true <-> In x l.
Proof.
  unfold smem. rewrite existsb_exists. split.
  - intros (y & Hin & He). apply Z.eqb_eq in He. subst. assumption.
  - intros Hin. exists x. split; [assumption|apply Z.eqb_refl].
Qed.

Lemma sp_smem_eqvb x l : smem x l = eqvb Z.compare x l.
Proof.
  unfold smem, eqvb. induction l as [|a l IH]; [reflexivity|].
  cbn [existsb]. rewrite sp_is_eq_Zcompare, IH. reflexivity.
Qed.

Lemma sp_sadd_sorted x l : zasc l -> zasc (sadd x l).
Proof. intros H. apply sp_emb_sorted. rewrite sp_emb_sadd. apply sp_hput_sorted. apply sp_emb_sorted. assumption. Qed.

Lemma sp_sdel_sorted x l : zasc l -> zasc (sdel x l).
Proof. intros H. apply sp_emb_sorted. rewrite sp_emb_sdel. apply sp_hdel_sorted. apply sp_emb_sorted. assumption. Qed.

Lemma sp_smem_sadd z x l : smem z (sadd x l) = (z =? x) || smem z l.
Proof. rewrite !sp_smem_hmem, sp_emb_sadd, sp_hmem_hput. reflexivity. Qed.

Lemma sp_smem_sdel z x l : zasc l -> smem z (sdel x l) = negb (z =? x) && smem z l.
Proof.
  intros H. rewrite !sp_smem_hmem, sp_emb_sdel, sp_hmem_hdel; [reflexivity|].
  apply sp_emb_sorted. assumption.
Qed.

Lemma sp_zlen_emb l : zlen (emb l) = zlen l.
Proof. unfold zlen, emb. rewrite map_length. reflexivity. Qed.

Lemma sp_zlen_sadd x l : zasc l -> zlen (sadd x l) = if smem x l then zlen l else zlen l + 1.
Proof.
  intros H. rewrite <- (sp_zlen_emb (sadd x l)), sp_emb_sadd, sp_zlen_hput by (apply sp_emb_sorted; assumption).
  rewrite <- sp_smem_hmem, sp_zlen_emb. reflexivity.
Qed.

Lemma sp_zlen_sdel x l : zasc l -> zlen (sdel x l) = if smem x l then zlen l - 1 else zlen l.
Proof.
  intros H. rewrite <- (sp_zlen_emb (sdel x l)), sp_emb_sdel, sp_zlen_hdel by (apply sp_emb_sorted; assumption).
  rewrite <- sp_smem_hmem, sp_zlen_emb. reflexivity.
Qed.

Lemma sp_zasc_NoDup l : zasc l -> NoDup l.
Proof.
  induction 1 as [|a l Hs IH Hall]; constructor; [|assumption].
  intros Hin. rewrite Forall_forall in Hall. apply Hall in Hin. lia.
Qed.

Lemma sp_In_sadd z x l : In z (sadd x l) <-> z = x \/ In z l.
Proof.
  rewrite <- !sp_smem_In, sp_smem_sadd, orb_true_iff, Z.eqb_eq. reflexivity.
Qed.

Lemma sp_In_sdel z x l : zasc l -> (In z (sdel x l) <-> In z l /\ z <> x).
Proof.
  intros H. rewrite <- !sp_smem_In, sp_smem_sdel, andb_true_iff, negb_true_iff, Z.eqb_neq by assumption. tauto.
Qed.

(* ================================================================================== *)
(* Positional removal from the ordering list (shared with LinkedProofs.v)               *)
(* ================================================================================== *)

Definition drop (v : Z) (l : list Z) : list Z := filter (fun y => negb (y =? v)) l.

Lemma sp_drop_notin v l : ~ In v l -> drop v l = l.
Proof.
  unfold drop. induction l as [|a l IH]; intros Hn; [reflexivity|].
  cbn [filter]. destruct (Z.eqb_spec a v) as [->|Hne].
  - exfalso. apply Hn. left. reflexivity.
  - cbn [negb]. f_equal. apply IH. intros H. apply Hn. right. assumption.
Qed.

Lemma sp_In_drop z v l : In z (drop v l) <-> In z l /\ z <> v.
Proof.
  unfold drop. rewrite filter_In, negb_true_iff, Z.eqb_neq. reflexivity.
Qed.

Lemma sp_NoDup_drop v l : NoDup l -> NoDup (drop v l).
Proof. intros H. unfold drop. apply NoDup_filter. assumption. Qed.

Lemma sp_index_split v l : NoDup l -> In v l -> forall n,
  exists i : nat, index_from v l n = n + Z.of_nat i /\ (i < length l)%nat /\
                  firstn i l ++ skipn (S i) l = drop v l.
Proof.
  induction l as [|a l IH]; intros Hnd Hin n; [contradiction|].
  inversion Hnd as [|a' l' Hna Hnd']; subst.
  cbn [index_from]. unfold drop. cbn [filter]. destruct (Z.eqb_spec a v) as [->|Hne].
  - exists 0%nat. cbn [negb firstn skipn app length]. split; [lia|]. split; [lia|].
    symmetry. apply sp_drop_notin. assumption.
  - destruct Hin as [He|Hin]; [contradiction|].
    destruct (IH Hnd' Hin (n + 1)) as (i & Hi & Hlt & Hsp).
    exists (S i). cbn [negb length]. split; [lia|]. split; [lia|].
    cbn [firstn skipn app]. cbn [skipn] in Hsp. f_equal. exact Hsp.
Qed.

Lemma sp_dll_remove_index v l : NoDup l -> In v l -> dll_remove (dll_index_of v l) l = drop v l.
Proof.
  intros Hnd Hin. destruct (sp_index_split v l Hnd Hin 0) as (i & Hi & Hlt & Hsp).
  unfold dll_remove, sll_remove, dll_index_of, sll_index_of.
  destruct l as [|a l]; [contradiction|]. rewrite Hi.
  replace (0 + Z.of_nat i) with (Z.of_nat i) by lia.
  assert (Hw : within (Z.of_nat i) (a :: l) = true).
  { unfold within, zlen. apply andb_true_iff. split; [apply Z.leb_le|apply Z.ltb_lt]; lia. }
  rewrite Hw. cbn [negb]. rewrite Nat2Z.id.
  destruct (zlen (a :: l) =? 1) eqn:E; [|exact Hsp].
  apply Z.eqb_eq in E. unfold zlen in E. cbn [length] in *.
  destruct l as [|b l]; [|cbn [length] in E; lia].
  rewrite <- Hsp. destruct i as [|i]; [reflexivity|cbn [length] in Hlt; lia].
Qed.

Lemma sp_dll_add1 x l : dll_add [x] l = l ++ [x].
Proof. reflexivity. Qed.

(* ================================================================================== *)
(* Red-black tree with cached size                                                      *)
(* ================================================================================== *)

Definition tree_inv (cmp : cmpf) (t : RB.tree) (n : Z) : Prop :=
  rbt t /\ bst cmp t /\ n = Z.of_nat (RBTree.count t).

Lemma sp_tree_inv_E cmp : tree_inv cmp RBTree.E 0.
Proof. split; [apply rbt_E|]. split; [constructor|reflexivity]. Qed.

Lemma sp_mem_length cmp k (l : list (Z * Z)) : mem_list cmp k l = true -> (0 < length l)%nat.
Proof. destruct l; [discriminate|cbn; lia]. Qed.

Lemma sp_rbs_put_spec cmp k v t n : SWO cmp -> tree_inv cmp t n ->
  exists t' n', rbs_put cmp k v (t, n) = Some (t', n') /\ tree_inv cmp t' n' /\
                RBTree.inorder t' = ins_list cmp k v (RBTree.inorder t) /\
                n' = (if mem_list cmp k (RBTree.inorder t) then n else n + 1).
Proof.
  intros Hswo (Hrb & Hbst & Hn).
  destruct (put_rbt cmp k v t Hrb) as (t' & b & Hput & Hrb').
  assert (Hio : RBTree.inorder t' = ins_list cmp k v (RBTree.inorder t) /\ bst cmp t' /\
                b = negb (mem_list cmp k (RBTree.inorder t))).
  { eapply put_inorder; eassumption. }
  destruct Hio as (Hio & Hbst' & Hb).
  exists t', (if b then n + 1 else n). unfold rbs_put. cbn [fst snd]. rewrite Hput.
  split; [reflexivity|].
  assert (Hlen : length (RBTree.inorder t') =
                 if mem_list cmp k (RBTree.inorder t) then length (RBTree.inorder t) else S (length (RBTree.inorder t))).
  { rewrite Hio. apply sp_length_ins; assumption. }
  split; [|split; [assumption|]].
  - split; [assumption|]. split; [assumption|].
    rewrite count_inorder, Hlen. rewrite count_inorder in Hn. subst b n.
    destruct (mem_list cmp k (RBTree.inorder t)); cbn [negb]; lia.
  - subst b. destruct (mem_list cmp k (RBTree.inorder t)); reflexivity.
Qed.

Lemma sp_rbs_remove_spec cmp k t n : SWO cmp -> tree_inv cmp t n ->
  exists t' n', rbs_remove cmp k (t, n) = Some (t', n') /\ tree_inv cmp t' n' /\
                RBTree.inorder t' = del_list cmp k (RBTree.inorder t) /\
                n' = (if mem_list cmp k (RBTree.inorder t) then n - 1 else n).
Proof.
  intros Hswo (Hrb & Hbst & Hn).
  destruct (remove_rbt cmp k t Hrb) as (t' & b & Hrem & Hrb').
  assert (Hio : RBTree.inorder t' = del_list cmp k (RBTree.inorder t) /\ bst cmp t' /\
                b = mem_list cmp k (RBTree.inorder t)).
  { eapply remove_inorder; eassumption. }
  destruct Hio as (Hio & Hbst' & Hb).
  exists t', (if b then n - 1 else n). unfold rbs_remove. cbn [fst snd]. rewrite Hrem.
  split; [reflexivity|].
  assert (Hlen : length (RBTree.inorder t') =
                 if mem_list cmp k (RBTree.inorder t) then Nat.pred (length (RBTree.inorder t)) else length (RBTree.inorder t)).
  { rewrite Hio. apply sp_length_del; assumption. }
  split; [|split; [assumption|]].
  - split; [assumption|]. split; [assumption|].
    rewrite count_inorder, Hlen. rewrite count_inorder in Hn. subst b n.
    destruct (mem_list cmp k (RBTree.inorder t)) eqn:M; [|reflexivity].
    apply sp_mem_length in M. lia.
  - subst b. reflexivity.
Qed.

Lemma sp_rbs_get_spec cmp k t : SWO cmp -> bst cmp t ->
  rbs_get cmp k (t, 0) = match find_list cmp k (RBTree.inorder t) with Some e => Some (snd e) | None => None end.
Proof.
  intros Hswo Hb. unfold rbs_get. cbn [fst].
  assert (H : RBTree.lookup cmp k t = find_list cmp k (RBTree.inorder t)) by (apply lookup_spec; assumption).
  rewrite H. destruct (find_list cmp k (RBTree.inorder t)) as [[k' v']|]; reflexivity.
Qed.

(* ================================================================================== *)
(* C04                                                                                  *)
(* ================================================================================== *)

Definition is_set_kind (k : kind) : bool :=
  match k with HashSet | TreeSet | LinkedHashSet => true | _ => false end.

(* the equivalence a set kind identifies elements by: == for the hash kinds, the comparator for TreeSet *)
Definition set_cmp (c : config) : cmpf := match ckind c with TreeSet => kc c | _ => Z.compare end.
Definition sequiv (c : config) (x y : Z) : Prop := set_cmp c x y = Eq.

(* Contains(x) of a single element *)
Definition member (c : config) (s : state) (x : Z) : bool :=
  match s with
  | StHSet l => smem x l
  | StLSet tbl _ => smem x tbl
  | StRB t _ => match RB.lookup (kc c) x t with Some _ => true | None => false end
  | _ => false
  end.

Lemma set_cmp_SWO c : SWO (set_cmp c).
Proof. unfold set_cmp. destruct (ckind c); first [apply sp_kc_SWO|apply sp_Zcompare_SWO]. Qed.

(* ---------- the history scan ---------- *)
Lemma live_from_app cmp h1 h2 base x :
  live_from cmp (h1 ++ h2) base x = live_from cmp h1 (live_from cmp h2 base) x.
Proof.
  induction h1 as [|o h1 IH]; [reflexivity|].
  destruct o as [vs|vs|]; cbn [app live_from]; try rewrite IH; reflexivity.
Qed.

(* ---------- HashSet ---------- *)
Definition hs_adds (vs l : list Z) : list Z := fold_left (fun acc x => sadd x acc) vs l.
Definition hs_dels (vs l : list Z) : list Z := fold_left (fun acc x => sdel x acc) vs l.

Lemma hs_adds_spec vs : forall l, zasc l ->
  zasc (hs_adds vs l) /\ forall z, smem z (hs_adds vs l) = eqvb Z.compare z vs || smem z l.
Proof.
  unfold hs_adds. induction vs as [|v vs IH]; intros l Hs.
  - split; [assumption|]. intros z. reflexivity.
  - cbn [fold_left]. destruct (IH (sadd v l) (sp_sadd_sorted v l Hs)) as [H1 H2].
    split; [assumption|]. intros z. rewrite H2, sp_smem_sadd. unfold eqvb. cbn [existsb].
    rewrite sp_is_eq_Zcompare.
    destruct (z =? v), (existsb (fun y => is_eq (z ?= y)) vs), (smem z l); reflexivity.
Qed.

Lemma hs_dels_spec vs : forall l, zasc l ->
  zasc (hs_dels vs l) /\ forall z, smem z (hs_dels vs l) = negb (eqvb Z.compare z vs) && smem z l.
Proof.
  unfold hs_dels. induction vs as [|v vs IH]; intros l Hs.
  - split; [assumption|]. intros z. reflexivity.
  - cbn [fold_left]. destruct (IH (sdel v l) (sp_sdel_sorted v l Hs)) as [H1 H2].
    split; [assumption|]. intros z. rewrite H2, sp_smem_sdel by assumption. unfold eqvb. cbn [existsb].
    rewrite sp_is_eq_Zcompare.
    destruct (z =? v), (existsb (fun y => is_eq (z ?= y)) vs), (smem z l); reflexivity.
Qed.

(* ---------- LinkedHashSet: table and ordering list never drift apart ---------- *)
Definition lset_inv (tbl ord : list Z) : Prop :=
  zasc tbl /\ NoDup ord /\ forall z, In z tbl <-> In z ord.

Lemma lset_inv_nil : lset_inv [] [].
Proof. split; [constructor|]. split; [constructor|]. intros z. tauto. Qed.

Lemma lset_inv_smem tbl ord z : lset_inv tbl ord -> smem z tbl = smem z ord.
Proof.
  intros (_ & _ & H). apply eq_true_iff_eq. rewrite !sp_smem_In. apply H.
Qed.

Lemma lset_inv_perm tbl ord : lset_inv tbl ord -> Permutation tbl ord.
Proof.
  intros (H1 & H2 & H3). apply NoDup_Permutation; [apply sp_zasc_NoDup|..]; assumption.
Qed.

(* one Add / Remove step, with the exact effect on the ordering list (used for C09 as well) *)
Lemma lset_add1_spec x tbl ord : lset_inv tbl ord ->
  exists tbl' ord', lset_add1 x (tbl, ord) = (tbl', ord') /\ lset_inv tbl' ord' /\
    (forall z, smem z tbl' = (z =? x) || smem z tbl) /\
    ord' = order_step ord (EIns x).
Proof.
  intros Hinv. pose proof (lset_inv_smem _ _ x Hinv) as Hm. destruct Hinv as (H1 & H2 & H3).
  unfold lset_add1. cbn [order_step]. fold (smem x ord). rewrite <- Hm.
  destruct (smem x tbl) eqn:M.
  - exists tbl, ord. split; [reflexivity|]. split; [repeat split; try assumption; apply H3|].
    split; [|reflexivity]. intros z. destruct (Z.eqb_spec z x) as [->|Hne]; [rewrite M|]; reflexivity.
  - exists (sadd x tbl), (ord ++ [x]). split; [reflexivity|].
    assert (Hnin : ~ In x ord).
    { intros Hin. apply H3 in Hin. apply sp_smem_In in Hin. congruence. }
    split; [|split; [intros z; apply sp_smem_sadd|reflexivity]].
    split; [apply sp_sadd_sorted; assumption|]. split.
    + apply (Permutation_NoDup (Permutation_cons_append ord x)). constructor; assumption.
    + intros z. rewrite sp_In_sadd, in_app_iff, H3. cbn [In]. intuition.
Qed.

Lemma lset_remove1_spec x tbl ord : lset_inv tbl ord ->
  exists tbl' ord', lset_remove1 x (tbl, ord) = (tbl', ord') /\ lset_inv tbl' ord' /\
    (forall z, smem z tbl' = negb (z =? x) && smem z tbl) /\
    ord' = order_step ord (ERem x).
Proof.
  intros Hinv. destruct Hinv as (H1 & H2 & H3).
  unfold lset_remove1. cbn [order_step]. fold (drop x ord).
  destruct (smem x tbl) eqn:M.
  - assert (Hin : In x ord) by (apply H3, sp_smem_In; assumption).
    exists (sdel x tbl), (drop x ord). rewrite sp_dll_remove_index by assumption.
    split; [reflexivity|]. split; [|split; [intros z; apply sp_smem_sdel; assumption|reflexivity]].
    split; [apply sp_sdel_sorted; assumption|]. split; [apply sp_NoDup_drop; assumption|].
    intros z. rewrite sp_In_sdel, sp_In_drop, H3 by assumption. reflexivity.
  - assert (Hnin : ~ In x ord).
    { intros Hin. apply H3 in Hin. apply sp_smem_In in Hin. congruence. }
    exists tbl, ord. split; [reflexivity|]. split; [repeat split; try assumption; apply H3|].
    split; [|symmetry; apply sp_drop_notin; assumption].
    intros z. destruct (Z.eqb_spec z x) as [->|Hne]; [rewrite M|]; reflexivity.
Qed.

Definition ls_adds (vs : list Z) (s : list Z * list Z) := fold_left (fun acc x => lset_add1 x acc) vs s.
Definition ls_dels (vs : list Z) (s : list Z * list Z) := fold_left (fun acc x => lset_remove1 x acc) vs s.

Lemma ls_adds_spec vs : forall tbl ord, lset_inv tbl ord ->
  exists tbl' ord', ls_adds vs (tbl, ord) = (tbl', ord') /\ lset_inv tbl' ord' /\
    (forall z, smem z tbl' = eqvb Z.compare z vs || smem z tbl) /\
    ord' = fold_left order_step (map EIns vs) ord.
Proof.
  unfold ls_adds. induction vs as [|v vs IH]; intros tbl ord Hinv.
  - exists tbl, ord. repeat split; try assumption; try apply Hinv.
  - cbn [fold_left map].
    destruct (lset_add1_spec v tbl ord Hinv) as (t1 & o1 & E1 & I1 & M1 & O1). rewrite E1.
    destruct (IH t1 o1 I1) as (t2 & o2 & E2 & I2 & M2 & O2).
    exists t2, o2. split; [assumption|]. split; [assumption|]. split; [|subst; reflexivity].
    intros z. rewrite M2, M1. unfold eqvb. cbn [existsb]. rewrite sp_is_eq_Zcompare.
    destruct (z =? v), (existsb (fun y => is_eq (z ?= y)) vs), (smem z tbl); reflexivity.
Qed.

Lemma ls_dels_spec vs : forall tbl ord, lset_inv tbl ord ->
  exists tbl' ord', ls_dels vs (tbl, ord) = (tbl', ord') /\ lset_inv tbl' ord' /\
    (forall z, smem z tbl' = negb (eqvb Z.compare z vs) && smem z tbl) /\
    ord' = fold_left order_step (map ERem vs) ord.
Proof.
  unfold ls_dels. induction vs as [|v vs IH]; intros tbl ord Hinv.
  - exists tbl, ord. repeat split; try assumption; try apply Hinv.
  - cbn [fold_left map].
    destruct (lset_remove1_spec v tbl ord Hinv) as (t1 & o1 & E1 & I1 & M1 & O1). rewrite E1.
    destruct (IH t1 o1 I1) as (t2 & o2 & E2 & I2 & M2 & O2).
    exists t2, o2. split; [assumption|]. split; [assumption|]. split; [|subst; reflexivity].
    intros z. rewrite M2, M1. unfold eqvb. cbn [existsb]. rewrite sp_is_eq_Zcompare.
    destruct (z =? v), (existsb (fun y => is_eq (z ?= y)) vs), (smem z tbl); reflexivity.
Qed.

(* ---------- TreeSet ---------- *)
Definition tmem (cmp : cmpf) (t : RB.tree) (x : Z) : bool := mem_list cmp x (RBTree.inorder t).

Lemma ts_adds_spec cmp vs : SWO cmp -> forall t n, tree_inv cmp t n ->
  exists t' n', rbs_puts cmp (map (fun x => (x, 0)) vs) (t, n) = Some (t', n') /\ tree_inv cmp t' n' /\
    forall z, tmem cmp t' z = eqvb cmp z vs || tmem cmp t z.
Proof.
  intros Hswo. induction vs as [|v vs IH]; intros t n Hinv.
  - exists t, n. split; [reflexivity|]. split; [assumption|]. intros z. reflexivity.
  - cbn [map rbs_puts].
    destruct (sp_rbs_put_spec cmp v 0 t n Hswo Hinv) as (t1 & n1 & E1 & I1 & O1 & _). rewrite E1.
    destruct (IH t1 n1 I1) as (t2 & n2 & E2 & I2 & M2).
    exists t2, n2. split; [assumption|]. split; [assumption|].
    intros z. rewrite M2. unfold tmem. rewrite O1, sp_mem_ins by assumption. unfold eqvb. cbn [existsb].
    destruct (is_eq (cmp z v)), (existsb (fun y => is_eq (cmp z y)) vs), (mem_list cmp z (RBTree.inorder t)); reflexivity.
Qed.

Lemma ts_dels_spec cmp vs : SWO cmp -> forall t n, tree_inv cmp t n ->
  exists t' n', rbs_removes cmp vs (t, n) = Some (t', n') /\ tree_inv cmp t' n' /\
    forall z, tmem cmp t' z = negb (eqvb cmp z vs) && tmem cmp t z.
Proof.
  intros Hswo. induction vs as [|v vs IH]; intros t n Hinv.
  - exists t, n. split; [reflexivity|]. split; [assumption|]. intros z. reflexivity.
  - cbn [rbs_removes].
    destruct (sp_rbs_remove_spec cmp v t n Hswo Hinv) as (t1 & n1 & E1 & I1 & O1 & _). rewrite E1.
    destruct (IH t1 n1 I1) as (t2 & n2 & E2 & I2 & M2).
    exists t2, n2. split; [assumption|]. split; [assumption|].
    intros z. rewrite M2. unfold tmem. rewrite O1, sp_mem_del by (try assumption; apply Hinv).
    unfold eqvb. cbn [existsb].
    destruct (is_eq (cmp z v)), (existsb (fun y => is_eq (cmp z y)) vs), (mem_list cmp z (RBTree.inorder t)); reflexivity.
Qed.

Lemma member_tree c t n x : bst (kc c) t -> member c (StRB t n) x = tmem (kc c) t x.
Proof.
  intros Hb. cbn [member]. unfold tmem, mem_list.
  assert (H : RBTree.lookup (kc c) x t = find_list (kc c) x (RBTree.inorder t)).
  { apply lookup_spec; [apply sp_kc_SWO|assumption]. }
  rewrite H. reflexivity.
Qed.

(* ---------- the machine's transition function on the three set kinds ---------- *)
Definition next (c : config) (s : state) (o : op) : state := fst (fst (step c s o)).

Lemma run_snoc c ops o : run c (ops ++ [o]) = next c (run c ops) o.
Proof. unfold run, run_from, next. rewrite fold_left_app. reflexivity. Qed.

Lemma hs_next c l o : ckind c = HashSet -> next c (StHSet l) o =
  match o with
  | Add vs => StHSet (hs_adds vs l)
  | RemoveVals vs => StHSet (hs_dels vs l)
  | Clear => StHSet []
  | FromJSON (DArr vs) => StHSet (hs_adds vs [])
  | FromJSON DNull => StHSet []
  | _ => StHSet l
  end.
Proof.
  intros K. assert (Hinit : init c = StHSet []) by (unfold init; rewrite K; reflexivity).
  unfold next. destruct o; cbn -[hs_adds hs_dels]; rewrite ?K; cbn; try reflexivity.
  all: try (destruct (each_of c (StHSet l)); reflexivity).
  - exact Hinit.
  - destruct d; try reflexivity; unfold load_array, add_values; rewrite K, Hinit; reflexivity.
Qed.

Lemma ls_next c tbl ord o : ckind c = LinkedHashSet -> next c (StLSet tbl ord) o =
  match o with
  | Add vs => let '(t, o') := ls_adds vs (tbl, ord) in StLSet t o'
  | RemoveVals vs => let '(t, o') := ls_dels vs (tbl, ord) in StLSet t o'
  | Clear => StLSet [] []
  | FromJSON (DArr vs) => let '(t, o') := ls_adds vs ([], []) in StLSet t o'
  | FromJSON DNull => StLSet [] []
  | _ => StLSet tbl ord
  end.
Proof.
  intros K. assert (Hinit : init c = StLSet [] []) by (unfold init; rewrite K; reflexivity).
  unfold next. destruct o; cbn -[ls_adds ls_dels each_of]; rewrite ?K; cbn -[ls_adds ls_dels each_of]; try reflexivity.
  all: try (destruct (each_of c (StLSet tbl ord)); reflexivity).
  - destruct (ls_dels vs (tbl, ord)) eqn:E; unfold ls_dels in E; rewrite E; reflexivity.
  - exact Hinit.
  - destruct d; try reflexivity; unfold load_array, add_values; rewrite K, Hinit; try reflexivity.
Qed.

Lemma ts_next c t n o : ckind c = TreeSet -> next c (StRB t n) o =
  match o with
  | Add vs => match rbs_puts (kc c) (map (fun x => (x, 0)) vs) (t, n) with Some (t', n') => StRB t' n' | None => StCrash end
  | RemoveVals vs => match rbs_removes (kc c) vs (t, n) with Some (t', n') => StRB t' n' | None => StCrash end
  | Clear => StRB RB.E 0
  | FromJSON (DArr vs) => match rbs_puts (kc c) (map (fun x => (x, 0)) vs) (RB.E, 0) with Some (t', n') => StRB t' n' | None => StCrash end
  | FromJSON DNull => StRB RB.E 0
  | _ => StRB t n
  end.
Proof.
  intros K. assert (Hinit : init c = StRB RB.E 0) by (unfold init; rewrite K; reflexivity).
  unfold next. destruct o; cbn -[rbs_puts rbs_removes each_of]; rewrite ?K; cbn -[rbs_puts rbs_removes each_of]; try reflexivity.
  all: try (destruct (each_of c (StRB t n)); reflexivity).
  - destruct (rbs_removes (kc c) vs (t, n)) as [[t' n']|]; reflexivity.
  - exact Hinit.
  - destruct d; try reflexivity; unfold load_array, add_values; rewrite K, Hinit; try reflexivity.
Qed.

(* ---------- the invariant of the three set kinds ---------- *)
Definition set_inv (c : config) (s : state) : Prop :=
  match ckind c, s with
  | HashSet, StHSet l => zasc l
  | LinkedHashSet, StLSet tbl ord => lset_inv tbl ord
  | TreeSet, StRB t n => tree_inv (kc c) t n
  | _, _ => False
  end.

Lemma set_inv_init c : is_set_kind (ckind c) = true -> set_inv c (init c).
Proof.
  unfold set_inv, init. destruct (ckind c); try discriminate; intros _.
  - constructor.
  - apply sp_tree_inv_E.
  - apply lset_inv_nil.
Qed.

Lemma member_init c x : is_set_kind (ckind c) = true -> member c (init c) x = false.
Proof. unfold init. destruct (ckind c); try discriminate; reflexivity. Qed.

(* one step: the invariant is kept and membership changes as the history scan says *)
Lemma set_step c s o : set_inv c s ->
  set_inv c (next c s o) /\
  forall x, member c (next c s o) x = live_from (set_cmp c) (rev (set_hist1 c o)) (member c s) x.
Proof.
  unfold set_inv, set_cmp. destruct (ckind c) eqn:K; try contradiction; destruct s; try contradiction; intros Hinv.
  - (* HashSet *)
    rewrite (hs_next c l o K).
    destruct o as [vs|vs|vs|i vs|i v|i|i j|ci res|vs|v|vs| |v| |k v|k| |d|cs| |p|p|p|p|f|b|b|b| | | | |ci res];
      try (split; [exact Hinv|intros x; reflexivity]).
    + destruct (hs_adds_spec vs l Hinv) as [H1 H2]. split; [exact H1|].
      intros x. cbn [set_hist1 rev app live_from member]. rewrite H2.
      destruct (eqvb Z.compare x vs); reflexivity.
    + destruct (hs_dels_spec vs l Hinv) as [H1 H2]. split; [exact H1|].
      intros x. cbn [set_hist1 rev app live_from member]. rewrite H2.
      destruct (eqvb Z.compare x vs); reflexivity.
    + split; [constructor|]. intros x. reflexivity.
    + destruct d as [| |vs|kvs]; try (split; [exact Hinv|intros x; reflexivity]).
      * split; [constructor|]. intros x. reflexivity.
      * destruct (hs_adds_spec vs [] (SSorted_nil _)) as [H1 H2]. split; [exact H1|].
        intros x. cbn [set_hist1 rev app live_from member]. rewrite H2.
        destruct (eqvb Z.compare x vs); reflexivity.
  - (* TreeSet *)
    rewrite (ts_next c t n o K).
    destruct o as [vs|vs|vs|i vs|i v|i|i j|ci res|vs|v|vs| |v| |k v|k| |d|cs| |p|p|p|p|f|b|b|b| | | | |ci res];
      try (split; [exact Hinv|intros x; reflexivity]).
    + destruct (ts_adds_spec (kc c) vs (sp_kc_SWO c) t n Hinv) as (t' & n' & E & I & M). rewrite E.
      split; [exact I|]. intros x. cbn [set_hist1 rev app live_from].
      rewrite !member_tree by (first [apply I|apply Hinv]). rewrite M. destruct (eqvb (kc c) x vs); reflexivity.
    + destruct (ts_dels_spec (kc c) vs (sp_kc_SWO c) t n Hinv) as (t' & n' & E & I & M). rewrite E.
      split; [exact I|]. intros x. cbn [set_hist1 rev app live_from].
      rewrite !member_tree by (first [apply I|apply Hinv]). rewrite M. destruct (eqvb (kc c) x vs); reflexivity.
    + split; [apply sp_tree_inv_E|]. intros x. reflexivity.
    + destruct d as [| |vs|kvs]; try (split; [exact Hinv|intros x; reflexivity]).
      * split; [apply sp_tree_inv_E|]. intros x. reflexivity.
      * destruct (ts_adds_spec (kc c) vs (sp_kc_SWO c) RB.E 0 (sp_tree_inv_E _)) as (t' & n' & E & I & M).
        rewrite E. split; [exact I|]. intros x. cbn [set_hist1 rev app live_from].
        rewrite member_tree by apply I. rewrite M. destruct (eqvb (kc c) x vs); reflexivity.
  - (* LinkedHashSet *)
    rewrite (ls_next c tbl ord o K).
    destruct o as [vs|vs|vs|i vs|i v|i|i j|ci res|vs|v|vs| |v| |k v|k| |d|cs| |p|p|p|p|f|b|b|b| | | | |ci res];
      try (split; [exact Hinv|intros x; reflexivity]).
    + destruct (ls_adds_spec vs tbl ord Hinv) as (t' & o' & E & I & M & _). rewrite E.
      split; [exact I|]. intros x. cbn [set_hist1 rev app live_from member]. rewrite M.
      destruct (eqvb Z.compare x vs); reflexivity.
    + destruct (ls_dels_spec vs tbl ord Hinv) as (t' & o' & E & I & M & _). rewrite E.
      split; [exact I|]. intros x. cbn [set_hist1 rev app live_from member]. rewrite M.
      destruct (eqvb Z.compare x vs); reflexivity.
    + split; [apply lset_inv_nil|]. intros x. reflexivity.
    + destruct d as [| |vs|kvs]; try (split; [exact Hinv|intros x; reflexivity]).
      * split; [apply lset_inv_nil|]. intros x. reflexivity.
      * destruct (ls_adds_spec vs [] [] lset_inv_nil) as (t' & o' & E & I & M & _). rewrite E.
        split; [exact I|]. intros x. cbn [set_hist1 rev app live_from member]. rewrite M.
        destruct (eqvb Z.compare x vs); reflexivity.
Qed.

Lemma live_from_ext cmp h b1 b2 x : (forall y, b1 y = b2 y) -> live_from cmp h b1 x = live_from cmp h b2 x.
Proof.
  intros Hb. induction h as [|o h IH]; [apply Hb|].
  destruct o as [vs|vs|]; cbn [live_from]; try rewrite IH; reflexivity.
Qed.

Theorem set_run c ops : is_set_kind (ckind c) = true ->
  set_inv c (run c ops) /\
  forall x, member c (run c ops) x = live (set_cmp c) (rev (set_hist c ops)) x.
Proof.
  intros K. induction ops as [|o ops IH] using rev_ind.
  - split; [apply set_inv_init; assumption|]. intros x. apply member_init. assumption.
  - rewrite run_snoc. destruct IH as [I M]. destruct (set_step c (run c ops) o I) as [I' M'].
    split; [assumption|]. intros z. rewrite M'.
    unfold set_hist. rewrite flat_map_app, rev_app_distr. cbn [flat_map]. rewrite app_nil_r.
    unfold live. rewrite live_from_app. apply live_from_ext. exact M.
Qed.

Lemma contains_member c s xs : set_inv c s -> contains_of c s xs = obool (forallb (member c s) xs).
Proof.
  unfold set_inv. destruct (ckind c) eqn:K; try contradiction; destruct s; try contradiction; intros _;
    cbn [contains_of member]; rewrite ?K; reflexivity.
Qed.

(* ---------- what Values() and Size() are, for any state satisfying the invariant ---------- *)
Lemma sp_InA_eq_Zcompare x l : InA (fun a b => (a ?= b) = Eq) x l <-> In x l.
Proof.
  rewrite InA_alt. split.
  - intros (y & Hy & Hin). apply Z.compare_eq in Hy. subst. assumption.
  - intros Hin. exists x. split; [apply Z.compare_refl|assumption].
Qed.

Lemma sp_NoDupA_eq_Zcompare l : NoDup l -> NoDupA (fun a b => (a ?= b) = Eq) l.
Proof.
  induction 1 as [|a l Hn Hnd IH]; constructor; [|assumption].
  rewrite sp_InA_eq_Zcompare. assumption.
Qed.

Lemma values_spec c s : set_inv c s ->
  NoDupA (sequiv c) (values_of c s) /\
  size_of c s = Z.of_nat (length (values_of c s)) /\
  forall x, InA (sequiv c) x (values_of c s) <-> member c s x = true.
Proof.
  unfold set_inv, sequiv, set_cmp. destruct (ckind c) eqn:K; try contradiction; destruct s; try contradiction; intros Hinv;
    cbn [values_of size_of member]; rewrite ?K.
  - (* HashSet *)
    split; [apply sp_NoDupA_eq_Zcompare, sp_zasc_NoDup; assumption|]. split; [reflexivity|].
    intros x. rewrite sp_InA_eq_Zcompare, sp_smem_In. reflexivity.
  - (* TreeSet *)
    destruct Hinv as (Hrb & Hbst & Hn). unfold RB.keys.
    split; [apply sp_sorted_NoDupA, sp_keys_sorted; exact Hbst|].
    split; [rewrite map_length, <- count_inorder; exact Hn|].
    intros x. rewrite (sp_InA_keys (kc c)).
    assert (H : RBTree.lookup (kc c) x t = find_list (kc c) x (RBTree.inorder t)).
    { apply lookup_spec; [apply sp_kc_SWO|assumption]. }
    rewrite H. unfold mem_list. reflexivity.
  - (* LinkedHashSet *)
    destruct Hinv as (H1 & H2 & H3).
    split; [apply sp_NoDupA_eq_Zcompare; assumption|]. split; [reflexivity|].
    intros x. rewrite sp_InA_eq_Zcompare, sp_smem_In. symmetry. apply H3.
Qed.

(* ================= the theorems of property C04 ================= *)

Theorem C04_member_proof : forall c ops x, is_set_kind (ckind c) = true ->
  contains_of c (run c ops) [x] = obool (live (set_cmp c) (rev (set_hist c ops)) x).
Proof.
  intros c ops x K. destruct (set_run c ops K) as [I M].
  rewrite (contains_member c _ [x] I). cbn [forallb]. rewrite andb_true_r, M. reflexivity.
Qed.

Theorem C04_contains_all_proof : forall c ops xs, is_set_kind (ckind c) = true ->
  contains_of c (run c ops) xs = obool (forallb (member c (run c ops)) xs) /\
  contains_of c (run c ops) xs = obool (forallb (live (set_cmp c) (rev (set_hist c ops))) xs) /\
  contains_of c (run c ops) [] = obool true.
Proof.
  intros c ops xs K. destruct (set_run c ops K) as [I M].
  rewrite !(contains_member c _ _ I). split; [reflexivity|]. split; [|reflexivity].
  f_equal. induction xs as [|y xs IHxs]; [reflexivity|]. cbn [forallb]. rewrite M, IHxs. reflexivity.
Qed.

Theorem C04_values_proof : forall c ops, is_set_kind (ckind c) = true ->
  let s := run c ops in
  NoDupA (sequiv c) (values_of c s) /\
  size_of c s = Z.of_nat (length (values_of c s)) /\
  (forall x, InA (sequiv c) x (values_of c s) <-> member c s x = true) /\
  (forall x, InA (sequiv c) x (values_of c s) <-> live (set_cmp c) (rev (set_hist c ops)) x = true).
Proof.
  intros c ops K s. destruct (set_run c ops K) as [I M].
  destruct (values_spec c s I) as (H1 & H2 & H3).
  split; [assumption|]. split; [assumption|]. split; [assumption|].
  intros x. rewrite H3. unfold s. rewrite M. reflexivity.
Qed.

Theorem C04_treeset_ascending_proof : forall c ops, ckind c = TreeSet ->
  StronglySorted (fun a b => kc c a b = Lt) (values_of c (run c ops)).
Proof.
  intros c ops K. assert (K' : is_set_kind (ckind c) = true) by (rewrite K; reflexivity).
  destruct (set_run c ops K') as [I _]. unfold set_inv in I. rewrite K in I.
  destruct (run c ops); try contradiction. cbn [values_of]. rewrite K.
  apply sp_keys_sorted. apply I.
Qed.

Theorem C04_linked_inv_proof : forall c ops, ckind c = LinkedHashSet ->
  exists tbl ord, run c ops = StLSet tbl ord /\
    StronglySorted Z.lt tbl /\ NoDup ord /\ Permutation tbl ord.
Proof.
  intros c ops K. assert (K' : is_set_kind (ckind c) = true) by (rewrite K; reflexivity).
  destruct (set_run c ops K') as [I _]. unfold set_inv in I. rewrite K in I.
  destruct (run c ops); try contradiction. exists tbl, ord.
  split; [reflexivity|]. split; [apply I|]. split; [apply I|]. apply lset_inv_perm. assumption.
Qed.

Theorem C04_no_crash_proof : forall c ops, is_set_kind (ckind c) = true -> run c ops <> StCrash.
Proof.
  intros c ops K. destruct (set_run c ops K) as [I _]. unfold set_inv in I.
  intros E. rewrite E in I. destruct (ckind c); contradiction.
Qed.

(* ---------- the same, with nothing but machine observables and the history scan ---------- *)
Lemma obool_true_iff b : obool b = obool true <-> b = true.
Proof. destruct b; cbn; split; intros H; try reflexivity; discriminate. Qed.

Lemma set_cmp_hash c : ckind c = HashSet \/ ckind c = LinkedHashSet -> set_cmp c = Z.compare.
Proof. unfold set_cmp. intros [K|K]; rewrite K; reflexivity. Qed.
Lemma set_cmp_tree c : ckind c = TreeSet -> set_cmp c = kc c.
Proof. unfold set_cmp. intros K; rewrite K; reflexivity. Qed.
Lemma is_set_kind_hash c : ckind c = HashSet \/ ckind c = LinkedHashSet -> is_set_kind (ckind c) = true.
Proof. intros [K|K]; rewrite K; reflexivity. Qed.
Lemma is_set_kind_tree c : ckind c = TreeSet -> is_set_kind (ckind c) = true.
Proof. intros K; rewrite K; reflexivity. Qed.

Theorem C04_member_hash_proof : forall c ops x, ckind c = HashSet \/ ckind c = LinkedHashSet ->
  contains_of c (run c ops) [x] = obool (live Z.compare (rev (set_hist c ops)) x).
Proof.
  intros c ops x K. rewrite <- (set_cmp_hash c K). apply C04_member_proof. apply is_set_kind_hash. assumption.
Qed.

Theorem C04_member_tree_proof : forall c ops x, ckind c = TreeSet ->
  contains_of c (run c ops) [x] = obool (live (kc c) (rev (set_hist c ops)) x).
Proof.
  intros c ops x K. rewrite <- (set_cmp_tree c K). apply C04_member_proof. apply is_set_kind_tree. assumption.
Qed.

(* Contains(xs...) holds exactly when every single x is a member *)
Theorem C04_contains_each_proof : forall c ops xs, is_set_kind (ckind c) = true ->
  (contains_of c (run c ops) xs = obool true <->
   forall x, In x xs -> contains_of c (run c ops) [x] = obool true).
Proof.
  intros c ops xs K. destruct (set_run c ops K) as [I _].
  rewrite (contains_member c _ xs I), obool_true_iff, forallb_forall.
  split; intros H x Hin.
  - rewrite (contains_member c _ [x] I), obool_true_iff. cbn [forallb]. rewrite andb_true_r. apply H. assumption.
  - specialize (H x Hin). rewrite (contains_member c _ [x] I), obool_true_iff in H.
    cbn [forallb] in H. rewrite andb_true_r in H. exact H.
Qed.

(* Values() and Size() against Contains: each member exactly once *)
Theorem C04_values_obs_proof : forall c ops, is_set_kind (ckind c) = true ->
  let s := run c ops in
  NoDupA (fun a b => set_cmp c a b = Eq) (values_of c s) /\
  size_of c s = Z.of_nat (length (values_of c s)) /\
  (forall x, InA (fun a b => set_cmp c a b = Eq) x (values_of c s) <-> contains_of c s [x] = obool true).
Proof.
  intros c ops K s. destruct (C04_values_proof c ops K) as (H1 & H2 & H3 & _).
  destruct (set_run c ops K) as [I _].
  split; [exact H1|]. split; [exact H2|]. intros x. fold s in I.
  rewrite (contains_member c s [x] I), obool_true_iff. cbn [forallb]. rewrite andb_true_r. apply H3.
Qed.


Print Assumptions C04_member_proof.
Print Assumptions C04_contains_all_proof.
Print Assumptions C04_values_proof.
Print Assumptions C04_treeset_ascending_proof.
Print Assumptions C04_linked_inv_proof.
Print Assumptions C04_no_crash_proof.
Print Assumptions C04_member_hash_proof.
Print Assumptions C04_member_tree_proof.
Print Assumptions C04_contains_each_proof.
Print Assumptions C04_values_obs_proof.
