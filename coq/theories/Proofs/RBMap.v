(* Red-black tree: BST ordering, refinement of put/remove to sorted association lists, observers.
   None of the results here needs the colour invariant: rotations and recolourings preserve the
   in-order sequence whatever the colours are, provided the operation returns [Some]. (That it does
   return [Some] on well-formed trees is [put_rbt]/[remove_rbt] in RBInv.v.) *)
From Coq Require Import ZArith List Lia Bool Arith Sorted.
From Gods Require Import Common.Cmp Common.ListAux Model.RBTree Spec.MapSpec.
Import ListNotations.
Local Open Scope Z_scope.

(* ---------- facts that need no comparator hypothesis ---------- *)

Lemma inorder_setcol c t : inorder (setcol c t) = inorder t.
Proof. destruct t; reflexivity. Qed.

Ltac list_norm := repeat (rewrite <- ?app_assoc; simpl); try reflexivity.

Ltac break_hyp H :=
  repeat match type of H with
         | context [match ?x with _ => _ end] => destruct x eqn:?; simpl in H; try discriminate H
         | context [if ?x then _ else _] => destruct x eqn:?; simpl in H; try discriminate H
         end.

Lemma ins_fix_g_inorder gc gl gk gv gr s d t' st :
  ins_fix_g gc gl gk gv gr s d = Some (t', st) ->
  inorder t' = inorder gl ++ (gk, gv) :: inorder gr.
Proof.
  intros H. unfold ins_fix_g in H.
  break_hyp H; inversion H; subst; simpl; rewrite ?inorder_setcol; list_norm.
Qed.

Lemma ins_up_inorder c l k v r s st t' st' :
  ins_up c l k v r s st = Some (t', st') ->
  inorder t' = inorder l ++ (k, v) :: inorder r.
Proof.
  intros H. destruct st as [| |d]; simpl in H.
  - inversion H; reflexivity.
  - destruct c; inversion H; reflexivity.
  - eapply ins_fix_g_inorder; eassumption.
Qed.

Lemma del_fix_3456_inorder pc l k v r s t' st :
  del_fix_3456 pc l k v r s = Some (t', st) ->
  inorder t' = inorder l ++ (k, v) :: inorder r.
Proof.
  intros H. unfold del_fix_3456 in H.
  destruct s.
  - destruct r as [|sc sl sk sv sr]; [discriminate|].
    destruct pc, sc; destruct (col sl) eqn:Csl; destruct (col sr) eqn:Csr; simpl in H;
      try (destruct sl as [|c1 a xk xv b]; [try discriminate|]; simpl in H);
      break_hyp H; inversion H; subst; simpl; rewrite ?inorder_setcol; list_norm.
  - destruct l as [|sc sl sk sv sr]; [discriminate|].
    destruct pc, sc; destruct (col sl) eqn:Csl; destruct (col sr) eqn:Csr; simpl in H;
      try (destruct sr as [|c1 a xk xv b]; [try discriminate|]; simpl in H);
      break_hyp H; inversion H; subst; simpl; rewrite ?inorder_setcol; list_norm.
Qed.

Lemma del_fix_inorder pc l k v r s t' st :
  del_fix pc l k v r s = Some (t', st) ->
  inorder t' = inorder l ++ (k, v) :: inorder r.
Proof.
  intros H. unfold del_fix in H.
  destruct s.
  - destruct r as [|[|] sl sk sv sr]; try (eapply del_fix_3456_inorder; eassumption).
    destruct (del_fix_3456 Red l k v sl L) as [[p' st1]|] eqn:E1; [|discriminate].
    inversion H; subst. apply del_fix_3456_inorder in E1. simpl. rewrite E1. list_norm.
  - destruct l as [|[|] sl sk sv sr]; try (eapply del_fix_3456_inorder; eassumption).
    destruct (del_fix_3456 Red sr k v r R) as [[p' st1]|] eqn:E1; [|discriminate].
    inversion H; subst. apply del_fix_3456_inorder in E1. simpl. rewrite E1. list_norm.
Qed.

Lemma del_up_inorder c l k v r s st t' st' :
  del_up c l k v r s st = Some (t', st') ->
  inorder t' = inorder l ++ (k, v) :: inorder r.
Proof.
  intros H. destruct st; simpl in H.
  - inversion H; reflexivity.
  - eapply del_fix_inorder; eassumption.
Qed.

Lemma delmax_inorder t t' mk mv st :
  delmax t = Some (t', mk, mv, st) -> inorder t = inorder t' ++ [(mk, mv)].
Proof.
  revert t' mk mv st.
  induction t as [|c l IHl k v r IHr]; intros t' mk mv st H; [discriminate|].
  destruct r as [|rc rl rk rv rr].
  - simpl in H. inversion H; subst. reflexivity.
  - change (delmax (T c l k v (T rc rl rk rv rr)))
      with (match delmax (T rc rl rk rv rr) with
            | None => None
            | Some (r', mk, mv, st) =>
                match del_up c l k v r' R st with
                | None => None | Some (t', st') => Some (t', mk, mv, st') end
            end) in H.
    destruct (delmax (T rc rl rk rv rr)) as [[[[r' mk1] mv1] st1]|] eqn:E1; [|discriminate].
    destruct (del_up c l k v r' R st1) as [[t1 st2]|] eqn:E2; [|discriminate].
    inversion H; subst.
    apply del_up_inorder in E2. rewrite E2.
    pose proof (IHr _ _ _ _ eq_refl) as IH'.
    cbn [inorder] in *. rewrite IH'. list_norm.
Qed.

Theorem count_inorder : forall t, count t = length (inorder t).
Proof.
  induction t as [|c l IHl k v r IHr]; simpl; [reflexivity|].
  rewrite app_length. simpl. lia.
Qed.

Theorem leftmost_spec : forall t, leftmost t = hd_error (inorder t).
Proof.
  induction t as [|c l IHl k v r IHr]; [reflexivity|].
  destruct l as [|lc ll lk lv lr]; [reflexivity|].
  change (leftmost (T c (T lc ll lk lv lr) k v r)) with (leftmost (T lc ll lk lv lr)).
  rewrite IHl. cbn [inorder].
  destruct (inorder ll ++ (lk, lv) :: inorder lr) eqn:E; [|reflexivity].
  destruct (inorder ll); discriminate.
Qed.

Lemma last_opt_cons {A} (x : A) l : l <> [] -> last_opt (x :: l) = last_opt l.
Proof.
  unfold last_opt. destruct l as [|y l']; [congruence|]. intros _.
  simpl length. replace (S (S (length l')) - 1)%nat with (S (length l')) by lia.
  replace (S (length l') - 1)%nat with (length l') by lia. reflexivity.
Qed.

Lemma last_opt_app {A} (l1 l2 : list A) : l2 <> [] -> last_opt (l1 ++ l2) = last_opt l2.
Proof.
  intros Hne. induction l1 as [|x l1 IH]; [reflexivity|].
  simpl. rewrite last_opt_cons; [assumption|].
  destruct l1; simpl; [assumption|discriminate].
Qed.

Theorem rightmost_spec : forall t, rightmost t = last_opt (inorder t).
Proof.
  induction t as [|c l IHl k v r IHr]; [reflexivity|].
  cbn [inorder]. rewrite last_opt_app by discriminate.
  destruct r as [|rc rl rk rv rr]; [reflexivity|].
  change (rightmost (T c l k v (T rc rl rk rv rr))) with (rightmost (T rc rl rk rv rr)).
  rewrite IHr. rewrite last_opt_cons; [reflexivity|].
  cbn [inorder]. destruct (inorder rl); discriminate.
Qed.

Section WithCmp.
Variable cmp : cmpf.
Hypothesis Hswo : SWO cmp.

Definition bst (t : tree) : Prop := ksorted cmp (inorder t).

(* ---------- comparator facts ---------- *)
Lemma cmp_gt_lt x y : cmp x y = Gt <-> cmp y x = Lt.
Proof.
  rewrite (swo_sym cmp Hswo y x). destruct (cmp y x); simpl; split; congruence.
Qed.

Lemma cmp_eq_sym x y : cmp x y = Eq -> cmp y x = Eq.
Proof. intros H. rewrite (swo_sym cmp Hswo x y), H. reflexivity. Qed.

(* a < k' and not (k < k')  ==>  k > a *)
Lemma gt_of_lt_nlt a k k' : cmp a k' = Lt -> cmp k k' <> Lt -> cmp k a = Gt.
Proof.
  intros Ha Hk. destruct (cmp k k') eqn:E; [| congruence |].
  - rewrite (swo_eq_l cmp Hswo _ _ a E). apply cmp_gt_lt. assumption.
  - apply cmp_gt_lt. apply cmp_gt_lt in E. eapply (swo_trans cmp Hswo); eassumption.
Qed.

(* k' < a and not (k > k')  ==>  k < a *)
Lemma lt_of_gt_ngt a k k' : cmp k' a = Lt -> cmp k k' <> Gt -> cmp k a = Lt.
Proof.
  intros Ha Hk. destruct (cmp k k') eqn:E; [| | congruence].
  - rewrite (swo_eq_l cmp Hswo _ _ a E). assumption.
  - eapply (swo_trans cmp Hswo); eassumption.
Qed.

(* ---------- sorted lists ---------- *)
Definition all_lt (l : list entry) (k : Z) : Prop := Forall (fun e => cmp (fst e) k = Lt) l.
Definition all_gt (l : list entry) (k : Z) : Prop := Forall (fun e => cmp k (fst e) = Lt) l.
(* every key of l is below the probe k *)
Definition below (k : Z) (l : list entry) : Prop := Forall (fun e => cmp k (fst e) = Gt) l.

Lemma ksorted_cons_inv x l : ksorted cmp (x :: l) -> ksorted cmp l /\ all_gt l (fst x).
Proof. intros H. inversion H; subst. split; assumption. Qed.

Lemma ksorted_cons x l : ksorted cmp l -> all_gt l (fst x) -> ksorted cmp (x :: l).
Proof. intros H1 H2. constructor; assumption. Qed.

Lemma ksorted_app_inv l1 x l2 :
  ksorted cmp (l1 ++ x :: l2) ->
  ksorted cmp l1 /\ ksorted cmp l2 /\ all_lt l1 (fst x) /\ all_gt l2 (fst x).
Proof.
  induction l1 as [|y l1 IH]; simpl; intros H.
  - apply ksorted_cons_inv in H. destruct H as [H1 H2].
    repeat split; try assumption; constructor.
  - apply ksorted_cons_inv in H. destruct H as [H1 H2].
    destruct (IH H1) as (S1 & S2 & A1 & A2).
    unfold all_gt in H2. rewrite Forall_app in H2. destruct H2 as [H2 H3].
    inversion H3 as [|? ? H4 H5]; subst.
    repeat split; try assumption.
    + apply ksorted_cons; assumption.
    + constructor; assumption.
Qed.

Lemma all_gt_trans l a b : all_gt l b -> cmp a b = Lt -> all_gt l a.
Proof.
  unfold all_gt. intros H Hab. eapply Forall_impl; [|exact H].
  intros e He. simpl in He. eapply (swo_trans cmp Hswo); eassumption.
Qed.

Lemma ksorted_app l1 x l2 :
  ksorted cmp l1 -> ksorted cmp l2 -> all_lt l1 (fst x) -> all_gt l2 (fst x) ->
  ksorted cmp (l1 ++ x :: l2).
Proof.
  intros S1 S2 A1 A2. induction l1 as [|y l1 IH]; simpl.
  - apply ksorted_cons; assumption.
  - apply ksorted_cons_inv in S1. destruct S1 as [S1 G1].
    inversion A1 as [|? ? Hy A1']; subst.
    apply ksorted_cons; [apply IH; assumption|].
    unfold all_gt. rewrite Forall_app. split; [assumption|].
    constructor; [assumption|]. eapply all_gt_trans; eassumption.
Qed.

Lemma all_lt_below l k k' : all_lt l k' -> cmp k k' <> Lt -> below k l.
Proof.
  unfold all_lt, below. intros H Hk. eapply Forall_impl; [|exact H].
  intros e He. simpl in He. eapply gt_of_lt_nlt; eassumption.
Qed.

(* every key of l is above the probe k *)
Definition above (k : Z) (l : list entry) : Prop := Forall (fun e => cmp k (fst e) = Lt) l.

Lemma all_gt_above l k k' : all_gt l k' -> cmp k k' <> Gt -> above k l.
Proof.
  unfold all_gt, above. intros H Hk. eapply Forall_impl; [|exact H].
  intros e He. simpl in He. eapply lt_of_gt_ngt; eassumption.
Qed.

(* ---------- ins_list ---------- *)
Lemma ins_list_below k v l1 l : below k l1 -> ins_list cmp k v (l1 ++ l) = l1 ++ ins_list cmp k v l.
Proof.
  induction 1 as [|[k1 v1] l1 H1 H2 IH]; simpl; [reflexivity|].
  simpl in H1. rewrite H1, IH. reflexivity.
Qed.

Lemma ins_list_app_lt k v l1 x l2 :
  cmp k (fst x) = Lt -> ins_list cmp k v (l1 ++ x :: l2) = ins_list cmp k v l1 ++ x :: l2.
Proof.
  intros Hlt. induction l1 as [|[k1 v1] l1 IH]; simpl.
  - destruct x as [kx vx]. simpl in Hlt. rewrite Hlt. reflexivity.
  - destruct (cmp k k1); [reflexivity|reflexivity|]. rewrite IH. reflexivity.
Qed.

Lemma ins_list_all_gt k v l a : all_gt l a -> cmp a k = Lt -> all_gt (ins_list cmp k v l) a.
Proof.
  unfold all_gt. intros H Hak. induction H as [|[k1 v1] l H1 H2 IH]; simpl.
  - constructor; [assumption|constructor].
  - destruct (cmp k k1); constructor; try assumption. constructor; assumption.
Qed.

Lemma ins_list_sorted k v l : ksorted cmp l -> ksorted cmp (ins_list cmp k v l).
Proof.
  induction l as [|[k1 v1] l IH]; simpl; intros H.
  - constructor; constructor.
  - apply ksorted_cons_inv in H. destruct H as [H1 H2]. simpl in H2.
    destruct (cmp k k1) eqn:E.
    + apply ksorted_cons; [assumption|]. simpl.
      eapply Forall_impl; [|exact H2]. intros e He. simpl in He.
      rewrite (swo_eq_l cmp Hswo _ _ _ E). assumption.
    + apply ksorted_cons.
      * apply ksorted_cons; assumption.
      * simpl. constructor; [assumption|]. eapply all_gt_trans; eassumption.
    + apply ksorted_cons; [apply IH; assumption|]. simpl.
      apply ins_list_all_gt; [assumption|]. apply cmp_gt_lt. assumption.
Qed.

(* ---------- del_list ---------- *)
Lemma del_list_below k l1 l : below k l1 -> del_list cmp k (l1 ++ l) = l1 ++ del_list cmp k l.
Proof.
  induction 1 as [|[k1 v1] l1 H1 H2 IH]; simpl; [reflexivity|].
  simpl in H1. rewrite H1, IH. reflexivity.
Qed.

Lemma del_list_app_lt k l1 x l2 :
  cmp k (fst x) = Lt -> del_list cmp k (l1 ++ x :: l2) = del_list cmp k l1 ++ x :: l2.
Proof.
  intros Hlt. induction l1 as [|[k1 v1] l1 IH]; simpl.
  - destruct x as [kx vx]. simpl in Hlt. rewrite Hlt. reflexivity.
  - destruct (cmp k k1); [reflexivity|reflexivity|]. rewrite IH. reflexivity.
Qed.

Lemma del_list_all_gt k l a : all_gt l a -> all_gt (del_list cmp k l) a.
Proof.
  unfold all_gt. intros H. induction H as [|[k1 v1] l H1 H2 IH]; simpl.
  - constructor.
  - destruct (cmp k k1); try assumption; constructor; assumption.
Qed.

Lemma del_list_sorted k l : ksorted cmp l -> ksorted cmp (del_list cmp k l).
Proof.
  induction l as [|[k1 v1] l IH]; simpl; intros H; [assumption|].
  pose proof H as H0.
  apply ksorted_cons_inv in H. destruct H as [H1 H2].
  destruct (cmp k k1); try assumption.
  apply ksorted_cons; [apply IH; assumption|]. apply del_list_all_gt. assumption.
Qed.

(* ---------- find_list / mem_list ---------- *)
Lemma find_list_app k l1 l2 :
  find_list cmp k (l1 ++ l2) =
  match find_list cmp k l1 with Some e => Some e | None => find_list cmp k l2 end.
Proof.
  unfold find_list. induction l1 as [|e l1 IH]; simpl; [reflexivity|].
  destruct (is_eq (cmp k (fst e))); [reflexivity|assumption].
Qed.

Lemma find_list_below k l : below k l -> find_list cmp k l = None.
Proof.
  unfold find_list. induction 1 as [|e l H1 H2 IH]; simpl; [reflexivity|].
  rewrite H1. simpl. assumption.
Qed.

Lemma find_list_above k l : above k l -> find_list cmp k l = None.
Proof.
  unfold find_list. induction 1 as [|e l H1 H2 IH]; simpl; [reflexivity|].
  rewrite H1. simpl. assumption.
Qed.

Lemma find_list_cons k e l :
  find_list cmp k (e :: l) = if is_eq (cmp k (fst e)) then Some e else find_list cmp k l.
Proof. reflexivity. Qed.

(* the three ways a probe relates to a sorted  l1 ++ x :: l2 *)
Lemma find_list_node_eq k l1 x l2 :
  all_lt l1 (fst x) -> cmp k (fst x) = Eq -> find_list cmp k (l1 ++ x :: l2) = Some x.
Proof.
  intros A1 E. rewrite find_list_app, find_list_below, find_list_cons, E; [reflexivity|].
  eapply all_lt_below; [eassumption|congruence].
Qed.

Lemma find_list_node_lt k l1 x l2 :
  all_gt l2 (fst x) -> cmp k (fst x) = Lt -> find_list cmp k (l1 ++ x :: l2) = find_list cmp k l1.
Proof.
  intros A2 E. rewrite find_list_app, find_list_cons, E. simpl.
  rewrite (find_list_above k l2); [destruct (find_list cmp k l1); reflexivity|].
  eapply all_gt_above; [eassumption|congruence].
Qed.

Lemma find_list_node_gt k l1 x l2 :
  all_lt l1 (fst x) -> cmp k (fst x) = Gt -> find_list cmp k (l1 ++ x :: l2) = find_list cmp k l2.
Proof.
  intros A1 E. rewrite find_list_app, find_list_below, find_list_cons, E; [reflexivity|].
  eapply all_lt_below; [eassumption|congruence].
Qed.

(* ---------- put ---------- *)
Lemma ins_inorder k v t t' st b :
  bst t -> ins cmp k v t = Some (t', st, b) ->
  inorder t' = ins_list cmp k v (inorder t) /\ b = negb (mem_list cmp k (inorder t)).
Proof.
  revert t' st b.
  induction t as [|c l IHl k' v' r IHr]; intros t' st b Hb H.
  - simpl in H. inversion H; subst. split; reflexivity.
  - unfold bst in Hb. cbn [inorder] in Hb.
    destruct (ksorted_app_inv _ _ _ Hb) as (Sl & Sr & Al & Ar). simpl in Al, Ar.
    cbn [ins] in H. cbn [inorder]. unfold mem_list.
    destruct (cmp k k') eqn:E.
    + inversion H; subst. simpl.
      assert (Hbel : below k (inorder l)) by (eapply all_lt_below; [eassumption|congruence]).
      rewrite ins_list_below by assumption.
      rewrite find_list_node_eq by assumption.
      simpl. rewrite E. split; reflexivity.
    + destruct (ins cmp k v l) as [[[l' st1] b1]|] eqn:E1; [|discriminate].
      destruct (ins_up c l' k' v' r L st1) as [[t1 st2]|] eqn:E2; [|discriminate].
      inversion H; subst.
      destruct (IHl _ _ _ Sl eq_refl) as [I1 I2].
      apply ins_up_inorder in E2. rewrite E2, I1.
      rewrite ins_list_app_lt by assumption.
      rewrite find_list_node_lt by assumption.
      split; [reflexivity|exact I2].
    + destruct (ins cmp k v r) as [[[r' st1] b1]|] eqn:E1; [|discriminate].
      destruct (ins_up c l k' v' r' R st1) as [[t1 st2]|] eqn:E2; [|discriminate].
      inversion H; subst.
      destruct (IHr _ _ _ Sr eq_refl) as [I1 I2].
      apply ins_up_inorder in E2. rewrite E2, I1.
      assert (Hbel : below k (inorder l)) by (eapply all_lt_below; [eassumption|congruence]).
      rewrite ins_list_below by assumption.
      rewrite find_list_node_gt by assumption.
      simpl. rewrite E. split; [reflexivity|exact I2].
Qed.

Theorem put_inorder : forall k v t t' b, bst t -> put cmp k v t = Some (t', b) ->
  inorder t' = ins_list cmp k v (inorder t) /\ bst t' /\ b = negb (mem_list cmp k (inorder t)).
Proof.
  intros k v t t' b Hb H. unfold put in H.
  destruct (ins cmp k v t) as [[[t1 st] b1]|] eqn:E1; [|discriminate].
  destruct (ins_inorder _ _ _ _ _ _ Hb E1) as [I1 I2].
  assert (Hin : inorder t' = ins_list cmp k v (inorder t) /\ b = b1).
  { destruct st; inversion H; subst; rewrite ?inorder_setcol; split; auto. }
  destruct Hin as [Hin ->].
  split; [assumption|]. split; [|assumption].
  unfold bst. rewrite Hin. apply ins_list_sorted. assumption.
Qed.

(* ---------- remove ---------- *)
Lemma del_list_node_eq k l1 x l2 :
  all_lt l1 (fst x) -> cmp k (fst x) = Eq -> del_list cmp k (l1 ++ x :: l2) = l1 ++ l2.
Proof.
  intros A1 E. rewrite del_list_below by (eapply all_lt_below; [eassumption|congruence]).
  destruct x as [kx vx]. simpl in *. rewrite E. reflexivity.
Qed.

Lemma del_list_node_gt k l1 x l2 :
  all_lt l1 (fst x) -> cmp k (fst x) = Gt ->
  del_list cmp k (l1 ++ x :: l2) = l1 ++ x :: del_list cmp k l2.
Proof.
  intros A1 E. rewrite del_list_below by (eapply all_lt_below; [eassumption|congruence]).
  destruct x as [kx vx]. simpl in *. rewrite E. reflexivity.
Qed.

Lemma del_inorder k t t' st b :
  bst t -> del cmp k t = Some (t', st, b) ->
  inorder t' = del_list cmp k (inorder t) /\ b = mem_list cmp k (inorder t).
Proof.
  revert t' st b.
  induction t as [|c l IHl k' v' r IHr]; intros t' st b Hb H.
  - simpl in H. inversion H; subst. split; reflexivity.
  - unfold bst in Hb. cbn [inorder] in Hb.
    destruct (ksorted_app_inv _ _ _ Hb) as (Sl & Sr & Al & Ar). simpl in Al, Ar.
    cbn [del] in H. unfold mem_list.
    destruct (cmp k k') eqn:E.
    + assert (Hin : inorder t' = inorder l ++ inorder r /\ b = true).
      { destruct l as [|lc ll lk lv lr].
        - destruct r; inversion H; subst; split; reflexivity.
        - destruct r as [|rc rl rk rv rr].
          + inversion H; subst. simpl. rewrite app_nil_r. split; reflexivity.
          + destruct (delmax (T lc ll lk lv lr)) as [[[[l' mk] mv] st1]|] eqn:E1; [|discriminate].
            destruct (del_up c l' mk mv (T rc rl rk rv rr) L st1) as [[t1 st2]|] eqn:E2; [|discriminate].
            inversion H; subst.
            apply del_up_inorder in E2. apply delmax_inorder in E1.
            rewrite E2, E1. split; [list_norm|reflexivity]. }
      destruct Hin as [Hin ->]. cbn [inorder].
      rewrite del_list_node_eq, find_list_node_eq by assumption.
      split; [assumption|reflexivity].
    + destruct (del cmp k l) as [[[l' st1] b1]|] eqn:E1; [|discriminate].
      destruct (del_up c l' k' v' r L st1) as [[t1 st2]|] eqn:E2; [|discriminate].
      inversion H; subst.
      destruct (IHl _ _ _ Sl eq_refl) as [I1 I2].
      apply del_up_inorder in E2. rewrite E2, I1. cbn [inorder].
      rewrite del_list_app_lt by assumption.
      rewrite find_list_node_lt by assumption.
      split; [reflexivity|exact I2].
    + destruct (del cmp k r) as [[[r' st1] b1]|] eqn:E1; [|discriminate].
      destruct (del_up c l k' v' r' R st1) as [[t1 st2]|] eqn:E2; [|discriminate].
      inversion H; subst.
      destruct (IHr _ _ _ Sr eq_refl) as [I1 I2].
      apply del_up_inorder in E2. rewrite E2, I1. cbn [inorder].
      rewrite del_list_node_gt by assumption.
      rewrite find_list_node_gt by assumption.
      split; [reflexivity|exact I2].
Qed.

Theorem remove_inorder : forall k t t' b, bst t -> remove cmp k t = Some (t', b) ->
  inorder t' = del_list cmp k (inorder t) /\ bst t' /\ b = mem_list cmp k (inorder t).
Proof.
  intros k t t' b Hb H.
  assert (Hin : inorder t' = del_list cmp k (inorder t) /\ b = mem_list cmp k (inorder t)).
  { destruct t as [|c l k' v' r].
    - simpl in H. inversion H; subst. split; reflexivity.
    - assert (Hdel : forall t1 st1 b1, del cmp k (T c l k' v' r) = Some (t1, st1, b1) ->
                       inorder t1 = del_list cmp k (inorder (T c l k' v' r)) /\
                       b1 = mem_list cmp k (inorder (T c l k' v' r))).
      { intros t1 st1 b1 Hd. eapply del_inorder; eassumption. }
      unfold remove in H.
      destruct (cmp k k') eqn:E.
      + destruct r as [|rc rl rk rv rr]; [|destruct l as [|lc ll lk lv lr]].
        * assert (H' : Some (setcol Black l, true) = Some (t', b)) by (destruct l; exact H).
          inversion H'; subst. rewrite inorder_setcol.
          apply (Hdel l (match c with Black => DDeficit | Red => DDone end) true).
          cbn [del]. rewrite E. destruct l; reflexivity.
        * inversion H; subst.
          apply (Hdel (T rc rl rk rv rr) (match c with Black => DDeficit | Red => DDone end) true).
          cbn [del]. rewrite E. reflexivity.
        * destruct (del cmp k (T c (T lc ll lk lv lr) k' v' (T rc rl rk rv rr)))
            as [[[t1 st1] b1]|] eqn:E1; [|discriminate].
          inversion H; subst. eapply Hdel; reflexivity.
      + destruct (del cmp k (T c l k' v' r)) as [[[t1 st1] b1]|] eqn:E1;
          [|destruct l, r; discriminate].
        assert (H' : Some (t1, b1) = Some (t', b)) by (destruct l, r; exact H).
        inversion H'; subst. eapply Hdel; reflexivity.
      + destruct (del cmp k (T c l k' v' r)) as [[[t1 st1] b1]|] eqn:E1;
          [|destruct l, r; discriminate].
        assert (H' : Some (t1, b1) = Some (t', b)) by (destruct l, r; exact H).
        inversion H'; subst. eapply Hdel; reflexivity. }
  destruct Hin as [Hin Hbb].
  split; [assumption|]. split; [|assumption].
  unfold bst. rewrite Hin. apply del_list_sorted. assumption.
Qed.

(* ---------- observers ---------- *)
Theorem lookup_spec : forall k t, bst t -> lookup cmp k t = find_list cmp k (inorder t).
Proof.
  intros k. induction t as [|c l IHl k' v' r IHr]; intros Hb; [reflexivity|].
  unfold bst in Hb. cbn [inorder] in Hb.
  destruct (ksorted_app_inv _ _ _ Hb) as (Sl & Sr & Al & Ar). simpl in Al, Ar.
  cbn [lookup inorder].
  destruct (cmp k k') eqn:E.
  - rewrite find_list_node_eq by assumption. reflexivity.
  - rewrite find_list_node_lt by assumption. apply IHl. assumption.
  - rewrite find_list_node_gt by assumption. apply IHr. assumption.
Qed.

Definition floor_keep (k : Z) (e : Z * Z) : bool := negb (is_lt (cmp k (fst e))).
Definition ceil_keep (k : Z) (e : Z * Z) : bool := negb (is_gt (cmp k (fst e))).

Lemma filter_all {A} (f : A -> bool) l : Forall (fun e => f e = true) l -> filter f l = l.
Proof.
  induction 1 as [|e l H1 H2 IH]; simpl; [reflexivity|]. rewrite H1, IH. reflexivity.
Qed.

Lemma filter_none {A} (f : A -> bool) l : Forall (fun e => f e = false) l -> filter f l = [].
Proof.
  induction 1 as [|e l H1 H2 IH]; simpl; [reflexivity|]. rewrite H1, IH. reflexivity.
Qed.

Lemma filter_cons {A} (f : A -> bool) x l :
  filter f (x :: l) = if f x then x :: filter f l else filter f l.
Proof. reflexivity. Qed.

Lemma floor_keep_below k (l : list (Z * Z)) : below k l -> @filter (Z * Z) (floor_keep k) l = l.
Proof.
  intros H. apply filter_all. eapply Forall_impl; [|exact H].
  intros e He. simpl in He. unfold floor_keep. rewrite He. reflexivity.
Qed.

Lemma floor_keep_above k (l : list (Z * Z)) : above k l -> @filter (Z * Z) (floor_keep k) l = [].
Proof.
  intros H. apply filter_none. eapply Forall_impl; [|exact H].
  intros e He. simpl in He. unfold floor_keep. rewrite He. reflexivity.
Qed.

Lemma ceil_keep_below k (l : list (Z * Z)) : below k l -> @filter (Z * Z) (ceil_keep k) l = [].
Proof.
  intros H. apply filter_none. eapply Forall_impl; [|exact H].
  intros e He. simpl in He. unfold ceil_keep. rewrite He. reflexivity.
Qed.

Lemma ceil_keep_above k (l : list (Z * Z)) : above k l -> @filter (Z * Z) (ceil_keep k) l = l.
Proof.
  intros H. apply filter_all. eapply Forall_impl; [|exact H].
  intros e He. simpl in He. unfold ceil_keep. rewrite He. reflexivity.
Qed.

Lemma last_app_cons {A} (l1 : list A) x l2 d : last (l1 ++ x :: l2) d = last l2 x.
Proof.
  induction l1 as [|y l1 IH]; simpl.
  - revert x. induction l2 as [|z l2 IH2]; intros x; [reflexivity|].
    simpl. destruct l2; [reflexivity|]. apply IH2.
  - destruct (l1 ++ x :: l2) eqn:E; [destruct l1; discriminate|]. exact IH.
Qed.

Lemma floor_from_spec k t cand :
  bst t ->
  floor_from cmp k t cand = last (map Some (filter (floor_keep k) (inorder t))) cand.
Proof.
  revert cand. induction t as [|c l IHl k' v' r IHr]; intros cand Hb; [reflexivity|].
  unfold bst in Hb. cbn [inorder] in Hb.
  destruct (ksorted_app_inv _ _ _ Hb) as (Sl & Sr & Al & Ar). simpl in Al, Ar.
  cbn [floor_from inorder]. rewrite filter_app, filter_cons.
  replace (floor_keep k (k', v')) with (negb (is_lt (cmp k k'))) by reflexivity.
  destruct (cmp k k') eqn:E; cbn [is_lt negb].
  - rewrite (floor_keep_above k (inorder r)) by (eapply all_gt_above; [eassumption|congruence]).
    rewrite map_app. cbn [map]. rewrite last_app_cons. reflexivity.
  - rewrite (floor_keep_above k (inorder r)) by (eapply all_gt_above; [eassumption|congruence]).
    rewrite app_nil_r. apply IHl. assumption.
  - rewrite map_app. cbn [map]. rewrite last_app_cons. apply IHr. assumption.
Qed.

Theorem floor_spec : forall k t, bst t -> floor cmp k t = floor_list cmp k (inorder t).
Proof. intros k t Hb. unfold floor, floor_list. apply floor_from_spec. assumption. Qed.

Lemma ceiling_from_spec k t cand :
  bst t ->
  ceiling_from cmp k t cand =
  match hd_error (filter (ceil_keep k) (inorder t)) with Some e => Some e | None => cand end.
Proof.
  revert cand. induction t as [|c l IHl k' v' r IHr]; intros cand Hb; [reflexivity|].
  unfold bst in Hb. cbn [inorder] in Hb.
  destruct (ksorted_app_inv _ _ _ Hb) as (Sl & Sr & Al & Ar). simpl in Al, Ar.
  cbn [ceiling_from inorder]. rewrite filter_app, filter_cons.
  replace (ceil_keep k (k', v')) with (negb (is_gt (cmp k k'))) by reflexivity.
  destruct (cmp k k') eqn:E; cbn [is_gt negb].
  - rewrite (ceil_keep_below k (inorder l)) by (eapply all_lt_below; [eassumption|congruence]).
    reflexivity.
  - rewrite IHl by assumption.
    destruct (filter (ceil_keep k) (inorder l)); reflexivity.
  - rewrite (ceil_keep_below k (inorder l)) by (eapply all_lt_below; [eassumption|congruence]).
    apply IHr. assumption.
Qed.

Theorem ceiling_spec : forall k t, bst t -> ceiling cmp k t = ceiling_list cmp k (inorder t).
Proof.
  intros k t Hb. unfold ceiling, ceiling_list. rewrite ceiling_from_spec by assumption.
  fold (ceil_keep k). destruct (hd_error (filter (ceil_keep k) (inorder t))); reflexivity.
Qed.

End WithCmp.

Print Assumptions put_inorder.
Print Assumptions remove_inorder.
Print Assumptions lookup_spec.
Print Assumptions floor_spec.
Print Assumptions ceiling_spec.
Print Assumptions leftmost_spec.
Print Assumptions rightmost_spec.
Print Assumptions count_inorder.
