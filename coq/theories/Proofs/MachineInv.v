(* A global invariant of the uniform machine, for ALL 21 container kinds, and what follows from it:
   property C15 (Size / Empty / Values / Keys / Clear agree on every container) and the model part
   of property C17 (no operation of any container panics, whatever its arguments; the only panics
   are the two documented constructor preconditions).

   [ginv c s] is assembled from the per-family invariants that already exist
     - Proofs/MachineMaps.v   ([minv]: HashMap, TreeMap, LinkedHashMap, RedBlackTree, AVLTree, BTree)
     - Proofs/SetsProofs.v    ([set_inv]: HashSet, TreeSet, LinkedHashSet)
     - Proofs/C05Proofs.v     ([R]: the two stacks, the two plain queues, the circular buffer)
     - Proofs/C06Proofs.v     ([heap_ok]: BinaryHeap, PriorityQueue)
     - Proofs/C03Proofs.v     (the three lists)
   and from the invariant of the two bidirectional maps, which is proved here (sections 1 and 2):
   forward and inverse map are canonical / search trees and mutually inverse, hence equally long.

   Statements are re-exported in Properties/C15.v and Properties/C17_model.v. *)
From Coq Require Import ZArith List Lia Bool Sorted SetoidList Permutation Arith FinFun.
From Gods Require Import Common.Cmp Common.ListAux Spec.SeqSpec Spec.MapSpec Spec.FifoSpec Spec.BagSpec
  Model.Ops Model.Lists Model.Iter Model.Machine.
From Gods Require Model.RBTree Model.AVLTree Model.BTree Model.Heap Model.Ring.
From Gods Require Proofs.RBInv Proofs.RBMap Proofs.RingProofs Proofs.HeapProofs Proofs.HeapValues.
From Gods Require Import Proofs.MapSpecProofs.
From Gods Require Proofs.MachineMaps Proofs.SetsProofs Proofs.C03Proofs Proofs.C05Proofs Proofs.C06Proofs.
From Gods Require Proofs.IterLinear Proofs.IterTreeRB Proofs.IterTreeAVL Proofs.IterTreeBT.
Import ListNotations.
Local Open Scope Z_scope.

Module MM := Proofs.MachineMaps.
Module SP := Proofs.SetsProofs.
Module C03 := Proofs.C03Proofs.
Module C05 := Proofs.C05Proofs.
Module C06 := Proofs.C06Proofs.

(* ================================================================================================ *)
(* 0. configurations                                                                                *)
(* ================================================================================================ *)
(* the two documented constructor preconditions: btree.NewWith panics for order < 3,
   circularbuffer.New panics for capacity < 1 *)
Definition config_ok (c : config) : Prop :=
  (ckind c = BTree -> 3 <= corder c) /\ (ckind c = CircularBuffer -> 1 <= ccap c).

Lemma kc_SWO : forall c, SWO (kc c).
Proof. intros c. apply cmp_of_SWO. Qed.
Lemma vc_SWO : forall c, SWO (vc c).
Proof. intros c. apply cmp_of_SWO. Qed.

(* ================================================================================================ *)
(* 1. two mutually inverse sorted association lists (the content of both bidirectional maps)        *)
(* ================================================================================================ *)
Lemma ksorted_NoDup : forall cmp, SWO cmp -> forall l, ksorted cmp l -> NoDup l.
Proof.
  intros cmp Hswo l. induction l as [|x l IH]; intros H; [constructor|].
  apply (ksorted_cons_iff cmp) in H. destruct H as [H1 H2]. constructor; [|apply IH; exact H1].
  intros Hin. rewrite Forall_forall in H2. specialize (H2 x Hin).
  rewrite (swo_refl cmp Hswo) in H2. discriminate.
Qed.

Lemma In_find : forall cmp, SWO cmp -> forall l e, ksorted cmp l ->
  (In e l <-> find_list cmp (fst e) l = Some e).
Proof.
  intros cmp Hswo l e Hs. split.
  - intros Hin. apply (find_list_In cmp Hswo); [exact Hs|exact Hin|apply (swo_refl cmp Hswo)].
  - intros Hf. apply (find_list_Some cmp) in Hf. apply Hf.
Qed.

Lemma In_ins : forall cmp, SWO cmp -> forall k v l e, ksorted cmp l ->
  (In e (ins_list cmp k v l) <-> e = (k, v) \/ (In e l /\ cmp k (fst e) <> Eq)).
Proof.
  intros cmp Hswo k v l e Hs.
  rewrite (In_find cmp Hswo) by (apply (ins_list_sorted cmp Hswo); exact Hs).
  rewrite (find_ins_list cmp Hswo) by exact Hs.
  rewrite (In_find cmp Hswo l e Hs).
  destruct (cmp (fst e) k) eqn:E.
  - pose proof (c_eq_sym cmp Hswo _ _ E) as E'. split.
    + intros H. left. inversion H; reflexivity.
    + intros [H|[_ H]]; [subst e; reflexivity|contradiction].
  - assert (N : cmp k (fst e) <> Eq).
    { intros E'. apply (c_eq_sym cmp Hswo) in E'. congruence. }
    split.
    + intros H. right. split; assumption.
    + intros [H|[H _]]; [|exact H]. subst e. cbn [fst] in E. rewrite (swo_refl cmp Hswo) in E. discriminate.
  - assert (N : cmp k (fst e) <> Eq).
    { intros E'. apply (c_eq_sym cmp Hswo) in E'. congruence. }
    split.
    + intros H. right. split; assumption.
    + intros [H|[H _]]; [|exact H]. subst e. cbn [fst] in E. rewrite (swo_refl cmp Hswo) in E. discriminate.
Qed.

Lemma In_del : forall cmp, SWO cmp -> forall k l e, ksorted cmp l ->
  (In e (del_list cmp k l) <-> In e l /\ cmp k (fst e) <> Eq).
Proof.
  intros cmp Hswo k l e Hs.
  rewrite (In_find cmp Hswo) by (apply (del_list_sorted cmp); exact Hs).
  rewrite (find_del_list cmp Hswo) by exact Hs.
  rewrite (In_find cmp Hswo l e Hs).
  destruct (cmp (fst e) k) eqn:E.
  - pose proof (c_eq_sym cmp Hswo _ _ E) as E'. split; [discriminate|]. intros [_ H]. contradiction.
  - assert (N : cmp k (fst e) <> Eq).
    { intros E'. apply (c_eq_sym cmp Hswo) in E'. congruence. }
    tauto.
  - assert (N : cmp k (fst e) <> Eq).
    { intros E'. apply (c_eq_sym cmp Hswo) in E'. congruence. }
    tauto.
Qed.

Section Bidi.
Variables cf ci : cmpf.
Hypothesis Hf : SWO cf.
Hypothesis Hi : SWO ci.

(* F: forward list (key, value) sorted by key under cf; I: inverse list (value, key) sorted by value
   under ci; each is the other with the components swapped *)
Definition binv (F J : list entry) : Prop :=
  ksorted cf F /\ ksorted ci J /\ forall a b, In (a, b) F <-> In (b, a) J.

Lemma binv_nil : binv [] [].
Proof. split; [constructor|]. split; [constructor|]. intros a b. reflexivity. Qed.

Definition eswap (e : entry) : entry := (snd e, fst e).

Lemma eswap_inj : Injective eswap.
Proof. intros [a b] [a' b'] H. unfold eswap in H. cbn [fst snd] in H. congruence. Qed.

Theorem binv_length : forall F J, binv F J -> length F = length J.
Proof.
  intros F J (HF & HI & Hb).
  pose proof (ksorted_NoDup cf Hf F HF) as NF. pose proof (ksorted_NoDup ci Hi J HI) as NI.
  assert (L1 : (length (map eswap F) <= length J)%nat).
  { apply NoDup_incl_length; [apply Injective_map_NoDup; [exact eswap_inj|exact NF]|].
    intros e He. apply in_map_iff in He. destruct He as ([a b] & <- & Hin). unfold eswap. cbn [fst snd].
    apply Hb. exact Hin. }
  assert (L2 : (length (map eswap J) <= length F)%nat).
  { apply NoDup_incl_length; [apply Injective_map_NoDup; [exact eswap_inj|exact NI]|].
    intros e He. apply in_map_iff in He. destruct He as ([b a] & <- & Hin). unfold eswap. cbn [fst snd].
    apply Hb. exact Hin. }
  rewrite map_length in L1, L2. lia.
Qed.

(* two entries of the forward list have equivalent keys iff they have equivalent values *)
Lemma binv_unique : forall F J x y a b, binv F J -> In (x, y) F -> In (a, b) F ->
  (cf x a = Eq <-> ci y b = Eq).
Proof.
  intros F J x y a b (HF & HI & Hb) H1 H2. split; intros E.
  - pose proof (ksorted_In_eq cf Hf F (x, y) (a, b) HF H1 H2 E) as Q. inversion Q; subst.
    apply (swo_refl ci Hi).
  - apply Hb in H1. apply Hb in H2.
    pose proof (ksorted_In_eq ci Hi J (y, x) (b, a) HI H1 H2 E) as Q. inversion Q; subst.
    apply (swo_refl cf Hf).
Qed.

(* Put(k, v) of both bidirectional maps on the two lists: drop the pair k currently belongs to from
   the inverse, drop the pair v currently belongs to from the forward map, insert (k, v) in both *)
Definition bput (k v : Z) (s : list entry * list entry) : list entry * list entry :=
  let '(F, J) := s in
  let I1 := match find_list cf k F with Some e => del_list ci (snd e) J | None => J end in
  let F1 := match find_list ci v I1 with Some e => del_list cf (snd e) F | None => F end in
  (ins_list cf k v F1, ins_list ci v k I1).

Definition bdel (k : Z) (s : list entry * list entry) : list entry * list entry :=
  let '(F, J) := s in
  match find_list cf k F with
  | Some e => (del_list cf k F, del_list ci (snd e) J)
  | None => s
  end.

Lemma neq_congr_l : forall cmp, SWO cmp -> forall x y z, cmp x y = Eq -> (cmp x z <> Eq <-> cmp y z <> Eq).
Proof. intros cmp H x y z E. rewrite (swo_eq_l cmp H x y z E). tauto. Qed.

Theorem bput_inv : forall k v F J, binv F J -> binv (fst (bput k v (F, J))) (snd (bput k v (F, J))).
Proof.
  intros k v F J HB. pose proof HB as (HF & HI & Hb). unfold bput.
  set (I1 := match find_list cf k F with Some e => del_list ci (snd e) J | None => J end).
  set (F1 := match find_list ci v I1 with Some e => del_list cf (snd e) F | None => F end).
  cbn [fst snd].
  assert (SI1 : ksorted ci I1).
  { unfold I1. destruct (find_list cf k F); [apply (del_list_sorted ci)|]; exact HI. }
  assert (SF1 : ksorted cf F1).
  { unfold F1. destruct (find_list ci v I1); [apply (del_list_sorted cf)|]; exact HF. }
  (* membership in I1 *)
  assert (MI1 : forall a b, In (b, a) I1 <->
            In (b, a) J /\ (forall e, find_list cf k F = Some e -> ci (snd e) b <> Eq)).
  { intros a b. unfold I1. destruct (find_list cf k F) as [e0|].
    - rewrite (In_del ci Hi) by exact HI. cbn [fst]. split.
      + intros [H1 H2]. split; [exact H1|]. intros e Q. inversion Q; subst. exact H2.
      + intros [H1 H2]. split; [exact H1|]. apply H2. reflexivity.
    - split; [intros H; split; [exact H|discriminate]|tauto]. }
  assert (MF1 : forall a b, In (a, b) F1 <->
            In (a, b) F /\ (forall e, find_list ci v I1 = Some e -> cf (snd e) a <> Eq)).
  { intros a b. unfold F1. destruct (find_list ci v I1) as [e0|].
    - rewrite (In_del cf Hf) by exact HF. cbn [fst]. split.
      + intros [H1 H2]. split; [exact H1|]. intros e Q. inversion Q; subst. exact H2.
      + intros [H1 H2]. split; [exact H1|]. apply H2. reflexivity.
    - split; [intros H; split; [exact H|discriminate]|tauto]. }
  split; [apply (ins_list_sorted cf Hf); exact SF1|].
  split; [apply (ins_list_sorted ci Hi); exact SI1|].
  intros a b. rewrite (In_ins cf Hf) by exact SF1. rewrite (In_ins ci Hi) by exact SI1. cbn [fst].
  rewrite MF1, MI1.
  (* the two side conditions correspond *)
  assert (A2B1 : In (a, b) F ->
            (cf k a <> Eq <-> (forall e, find_list cf k F = Some e -> ci (snd e) b <> Eq))).
  { intros Hin. destruct (find_list cf k F) as [[k' v0]|] eqn:Q.
    - apply (find_list_Some cf) in Q. destruct Q as [Q1 Q2]. cbn [fst] in Q2.
      rewrite (neq_congr_l cf Hf k k' a Q2).
      pose proof (binv_unique F J k' v0 a b HB Q1 Hin) as U. split.
      + intros N e Qe. inversion Qe; subst. cbn [snd]. tauto.
      + intros N. specialize (N _ eq_refl). cbn [snd] in N. tauto.
    - split; [intros _ e Qe; discriminate|]. intros _.
      rewrite (find_list_None cf) in Q. apply (Q (a, b) Hin). }
  assert (A1B2 : In (b, a) I1 ->
            ((forall e, find_list ci v I1 = Some e -> cf (snd e) a <> Eq) <-> ci v b <> Eq)).
  { intros Hin1. pose proof (proj1 (MI1 a b) Hin1) as [HinI _]. apply Hb in HinI.
    destruct (find_list ci v I1) as [[v' k0]|] eqn:Q.
    - apply (find_list_Some ci) in Q. destruct Q as [Q1 Q2]. cbn [fst] in Q2.
      rewrite (neq_congr_l ci Hi v v' b Q2).
      apply MI1 in Q1. destruct Q1 as [Q1 _]. apply Hb in Q1.
      pose proof (binv_unique F J k0 v' a b HB Q1 HinI) as U. split.
      + intros N. specialize (N _ eq_refl). cbn [snd] in N. tauto.
      + intros N e Qe. inversion Qe; subst. cbn [snd]. tauto.
    - split; [|intros _ e Qe; discriminate]. intros _.
      rewrite (find_list_None ci) in Q. apply (Q (b, a) Hin1). }
  split.
  - intros [E|[[H1 H2] H3]]; [left; congruence|]. right.
    pose proof (proj1 (A2B1 H1) H3) as B1.
    assert (Hin1 : In (b, a) I1) by (apply MI1; split; [apply Hb; exact H1|exact B1]).
    split; [split; [apply Hb; exact H1|exact B1]|]. apply (A1B2 Hin1). exact H2.
  - intros [E|[[H1 H2] H3]]; [left; congruence|]. right.
    assert (Hin1 : In (b, a) I1) by (apply MI1; split; assumption).
    apply Hb in H1. split; [split; [exact H1|]|].
    + apply (A1B2 Hin1). exact H3.
    + apply (A2B1 H1). exact H2.
Qed.

Theorem bdel_inv : forall k F J, binv F J -> binv (fst (bdel k (F, J))) (snd (bdel k (F, J))).
Proof.
  intros k F J HB. pose proof HB as (HF & HI & Hb). unfold bdel.
  destruct (find_list cf k F) as [[k' v0]|] eqn:Q; cbn [fst snd]; [|exact HB].
  apply (find_list_Some cf) in Q. destruct Q as [Q1 Q2]. cbn [fst] in Q2.
  split; [apply (del_list_sorted cf); exact HF|].
  split; [apply (del_list_sorted ci); exact HI|].
  intros a b. rewrite (In_del cf Hf) by exact HF. rewrite (In_del ci Hi) by exact HI. cbn [fst].
  rewrite (neq_congr_l cf Hf k k' a Q2). split.
  - intros [H1 H2]. split; [apply Hb; exact H1|].
    pose proof (binv_unique F J k' v0 a b HB Q1 H1) as U. tauto.
  - intros [H1 H2]. apply Hb in H1. split; [exact H1|].
    pose proof (binv_unique F J k' v0 a b HB Q1 H1) as U. tauto.
Qed.

Lemma bputs_inv : forall es F J, binv F J ->
  binv (fst (fold_left (fun acc e => bput (fst e) (snd e) acc) es (F, J)))
       (snd (fold_left (fun acc e => bput (fst e) (snd e) acc) es (F, J))).
Proof.
  induction es as [|[k v] es IH]; intros F J HB; [exact HB|].
  cbn [fold_left fst snd]. pose proof (bput_inv k v F J HB) as H.
  destruct (bput k v (F, J)) as [F' J']. apply IH. exact H.
Qed.
End Bidi.

(* ================================================================================================ *)
(* 2. the two bidirectional maps of the machine                                                     *)
(* ================================================================================================ *)
(* ---------- HashBidiMap: two canonical association lists ---------- *)
Lemma hbidi_put_bput : forall k v f i, hbidi_put k v (f, i) = bput Z.compare Z.compare k v (f, i).
Proof.
  intros k v f i. unfold hbidi_put, bput, hput, hdel. rewrite (SP.sp_hget_find k f).
  destruct (find_list Z.compare k f) as [e0|].
  - rewrite (SP.sp_hget_find v (del_list Z.compare (snd e0) i)).
    destruct (find_list Z.compare v (del_list Z.compare (snd e0) i)); reflexivity.
  - rewrite (SP.sp_hget_find v i). destruct (find_list Z.compare v i); reflexivity.
Qed.

Lemma hbidi_remove_bdel : forall k f i, hbidi_remove k (f, i) = bdel Z.compare Z.compare k (f, i).
Proof.
  intros k f i. unfold hbidi_remove, bdel, hdel. rewrite (SP.sp_hget_find k f).
  destruct (find_list Z.compare k f); reflexivity.
Qed.

Definition hbI (f i : list (Z * Z)) : Prop := binv Z.compare Z.compare f i.

Lemma hbidi_put_inv : forall k v f i, hbI f i ->
  hbI (fst (hbidi_put k v (f, i))) (snd (hbidi_put k v (f, i))).
Proof. intros k v f i H. rewrite hbidi_put_bput. apply bput_inv; try exact Zcompare_SWO. exact H. Qed.

Lemma hbidi_remove_inv : forall k f i, hbI f i ->
  hbI (fst (hbidi_remove k (f, i))) (snd (hbidi_remove k (f, i))).
Proof. intros k f i H. rewrite hbidi_remove_bdel. apply bdel_inv; try exact Zcompare_SWO. exact H. Qed.

Lemma hbidi_puts_inv : forall es f i, hbI f i ->
  hbI (fst (fold_left (fun acc e => hbidi_put (fst e) (snd e) acc) es (f, i)))
      (snd (fold_left (fun acc e => hbidi_put (fst e) (snd e) acc) es (f, i))).
Proof.
  induction es as [|[k v] es IH]; intros f i H; [exact H|].
  cbn [fold_left fst snd]. pose proof (hbidi_put_inv k v f i H) as H'.
  destruct (hbidi_put k v (f, i)) as [f' i']. apply IH. exact H'.
Qed.

(* ---------- TreeBidiMap: two red-black trees with cached sizes ---------- *)
Section TBidi.
Variables kcm vcm : cmpf.
Hypothesis Hk : SWO kcm.
Hypothesis Hv : SWO vcm.

Definition tbI (s : tbidi) : Prop :=
  MM.rbI kcm (fst s) /\ MM.rbI vcm (snd s) /\
  binv kcm vcm (RB.inorder (fst (fst s))) (RB.inorder (fst (snd s))).

Lemma tbI_empty : tbI (rbs_empty, rbs_empty).
Proof. split; [apply MM.rbI_empty|]. split; [apply MM.rbI_empty|]. apply binv_nil. Qed.

Lemma opt_remove_sim : forall cmp, SWO cmp -> forall (o : option Z) s, MM.rbI cmp s ->
  exists s', match o with Some x => rbs_remove cmp x s | None => Some s end = Some s' /\
             MM.rbI cmp s' /\
             RB.inorder (fst s') = match o with
                                   | Some x => del_list cmp x (RB.inorder (fst s))
                                   | None => RB.inorder (fst s)
                                   end.
Proof.
  intros cmp H o s Hs. destruct o as [x|].
  - apply (MM.rbs_remove_sim cmp H x s Hs).
  - exists s. split; [reflexivity|]. split; [exact Hs|reflexivity].
Qed.

Lemma rbs_get_find : forall cmp, SWO cmp -> forall k s, MM.rbI cmp s ->
  rbs_get cmp k s = option_map snd (find_list cmp k (RB.inorder (fst s))).
Proof. intros cmp H k [t n] (_ & Hb & _). apply (MM.rbs_get_spec cmp H). exact Hb. Qed.

Lemma tbidi_put_sim : forall k v s, tbI s ->
  exists s', tbidi_put kcm vcm k v s = Some s' /\ MM.rbI kcm (fst s') /\ MM.rbI vcm (snd s') /\
             (RB.inorder (fst (fst s')), RB.inorder (fst (snd s'))) =
             bput kcm vcm k v (RB.inorder (fst (fst s)), RB.inorder (fst (snd s))).
Proof.
  intros k v [f i] (HF & HI & _). cbn [fst snd] in *. unfold tbidi_put, bput. cbv beta iota zeta.
  rewrite (rbs_get_find kcm Hk k f HF).
  destruct (opt_remove_sim vcm Hv (option_map snd (find_list kcm k (RB.inorder (fst f)))) i HI)
    as (i1 & E1 & I1 & N1).
  rewrite E1. rewrite (rbs_get_find vcm Hv v i1 I1).
  destruct (opt_remove_sim kcm Hk (option_map snd (find_list vcm v (RB.inorder (fst i1)))) f HF)
    as (f1 & E2 & F1 & N2).
  rewrite E2.
  destruct (MM.rbs_put_sim kcm Hk k v f1 F1) as (f2 & E3 & F2 & N3).
  destruct (MM.rbs_put_sim vcm Hv v k i1 I1) as (i2 & E4 & I2 & N4).
  rewrite E3, E4. exists (f2, i2). cbn [fst snd]. split; [reflexivity|]. split; [exact F2|]. split; [exact I2|].
  rewrite N3, N4, N2.
  destruct (find_list kcm k (RB.inorder (fst f))) as [e|]; cbn [option_map] in N1; rewrite <- N1;
    destruct (find_list vcm v (RB.inorder (fst i1))); reflexivity.
Qed.

Lemma tbidi_put_tbI : forall k v s, tbI s -> exists s', tbidi_put kcm vcm k v s = Some s' /\ tbI s'.
Proof.
  intros k v s Hs. destruct (tbidi_put_sim k v s Hs) as (s' & E & F' & I' & Q).
  exists s'. split; [exact E|]. split; [exact F'|]. split; [exact I'|].
  destruct Hs as (_ & _ & HB). pose proof (bput_inv kcm vcm Hk Hv k v _ _ HB) as H.
  unfold entry in H. rewrite <- Q in H. exact H.
Qed.

Lemma tbidi_remove_tbI : forall k s, tbI s -> exists s', tbidi_remove kcm vcm k s = Some s' /\ tbI s'.
Proof.
  intros k [f i] Hs. pose proof Hs as (HF & HI & HB). cbn [fst snd] in *. unfold tbidi_remove.
  rewrite (rbs_get_find kcm Hk k f HF).
  pose proof (bdel_inv kcm vcm Hk Hv k _ _ HB) as HD. unfold bdel in HD.
  destruct (find_list kcm k (RB.inorder (fst f))) as [e|]; cbn [option_map].
  - destruct (MM.rbs_remove_sim kcm Hk k f HF) as (f' & E1 & F' & N1).
    destruct (MM.rbs_remove_sim vcm Hv (snd e) i HI) as (i' & E2 & I' & N2).
    rewrite E1, E2. exists (f', i'). split; [reflexivity|]. split; [exact F'|]. split; [exact I'|].
    cbn [fst snd] in *. rewrite N1, N2. exact HD.
  - exists (f, i). split; [reflexivity|exact Hs].
Qed.

Lemma tbidi_puts_tbI : forall es s, tbI s -> exists s', tbidi_puts kcm vcm es s = Some s' /\ tbI s'.
Proof.
  induction es as [|[k v] es IH]; intros s Hs.
  - exists s. split; [reflexivity|exact Hs].
  - destruct (tbidi_put_tbI k v s Hs) as (s1 & E1 & H1). cbn [tbidi_puts]. rewrite E1. apply IH. exact H1.
Qed.
End TBidi.

(* case analysis on the operation, with the argument names fixed once *)
Ltac destr_op o :=
  destruct o as [vs|vs|vs|ix vs|ix v|ix|ix jx|ci res|vs|v|vs| |v| |k v|k| |d|cs| |p|p|p|p|fm|b|b|b| | | | |ci res].

(* ---------- the transition function on the two bidirectional kinds, in closed form ---------- *)
Definition hb_puts (es : list (Z * Z)) (s : list (Z * Z) * list (Z * Z)) :=
  fold_left (fun acc e => hbidi_put (fst e) (snd e) acc) es s.

Lemma hb_next : forall c f i o, ckind c = HashBidiMap ->
  fst (fst (step c (StHBidi f i) o)) =
  match o with
  | Put k v => StHBidi (fst (hbidi_put k v (f, i))) (snd (hbidi_put k v (f, i)))
  | Remove k => StHBidi (fst (hbidi_remove k (f, i))) (snd (hbidi_remove k (f, i)))
  | Clear => StHBidi [] []
  | FromJSON (DObj kvs) => StHBidi (fst (hb_puts (sort_entries kvs) ([], []))) (snd (hb_puts (sort_entries kvs) ([], [])))
  | FromJSON DNull => StHBidi [] []
  | _ => StHBidi f i
  end.
Proof.
  intros c f i o K.
  assert (Hinit : init c = StHBidi [] []) by (unfold init; rewrite K; reflexivity).
  destr_op o; unfold step; rewrite ?K; cbn [fst snd pure has_enumerable negb]; try reflexivity.
  - destruct (hbidi_remove k (f, i)); reflexivity.
  - exact Hinit.
  - unfold from_json. rewrite K. cbn [is_kv]. destruct d; cbn [fst]; try reflexivity; rewrite ?Hinit; try reflexivity.
    cbn [put_entries]. unfold hb_puts. destruct (fold_left _ _ _); reflexivity.
Qed.

Lemma tb_next : forall c f fn i inn o, ckind c = TreeBidiMap ->
  fst (fst (step c (StTBidi f fn i inn) o)) =
  match o with
  | Put k v => match tbidi_put (kc c) (vc c) k v ((f, fn), (i, inn)) with
               | Some ((f', fn'), (i', inn')) => StTBidi f' fn' i' inn' | None => StCrash end
  | Remove k => match tbidi_remove (kc c) (vc c) k ((f, fn), (i, inn)) with
                | Some ((f', fn'), (i', inn')) => StTBidi f' fn' i' inn' | None => StCrash end
  | Clear => StTBidi RB.E 0 RB.E 0
  | FromJSON (DObj kvs) => match tbidi_puts (kc c) (vc c) (sort_entries kvs) (rbs_empty, rbs_empty) with
                           | Some ((f', fn'), (i', inn')) => StTBidi f' fn' i' inn' | None => StCrash end
  | FromJSON DNull => StTBidi RB.E 0 RB.E 0
  | _ => StTBidi f fn i inn
  end.
Proof.
  intros c f fn i inn o K.
  assert (Hinit : init c = StTBidi RB.E 0 RB.E 0) by (unfold init; rewrite K; reflexivity).
  destr_op o; unfold step; rewrite ?K; cbn [fst snd pure has_enumerable negb]; try reflexivity.
  - destruct (tbidi_put _ _ _ _ _) as [[[f' fn'] [i' inn']]|]; reflexivity.
  - destruct (tbidi_remove _ _ _ _) as [[[f' fn'] [i' inn']]|]; reflexivity.
  - exact Hinit.
  - unfold from_json. rewrite K. cbn [is_kv]. destruct d; cbn [fst]; try reflexivity; rewrite ?Hinit; try reflexivity.
  - destruct (each_of _ _); reflexivity.
  - destruct (each_of _ _); reflexivity.
  - destruct (each_of _ _); reflexivity.
  - destruct (each_of _ _); reflexivity.
  - destruct (each_of _ _); reflexivity.
  - destruct (each_of _ _); reflexivity.
Qed.

(* ================================================================================================ *)
(* 3. the global invariant                                                                          *)
(* ================================================================================================ *)
(* For every kind: the state has the constructor of the kind (never [StCrash]) and satisfies the
   structural invariant of its family:
     lists                         : a backing sequence
     stacks, plain queues          : a backing sequence (C05Proofs.R)
     CircularBuffer                : RingProofs.ring_inv (indices in range, cached size = calc, full flag
                                     consistent, slot array of length rmax) and rmax = the configured capacity
     HashSet                       : canonical (strictly ascending) member list
     LinkedHashSet                 : canonical table, duplicate-free ordering list with the same members
     TreeSet, TreeMap, RedBlackTree: red-black invariant, search-tree order, cached size = number of nodes
     AVLTree                       : AVL invariant, search-tree order, cached size
     BTree                         : B-tree shape invariant of order m, sortedness, cached size
     HashMap                       : canonical association list
     LinkedHashMap                 : canonical table; duplicate-free ordering list of the table's keys
     BinaryHeap, PriorityQueue     : the heap order on the backing array
     HashBidiMap                   : two canonical association lists, mutually inverse
     TreeBidiMap                   : two red-black trees (invariant, order, cached sizes), mutually inverse *)
Definition ginv (c : config) (s : state) : Prop :=
  match ckind c with
  | ArrayList | SinglyLinkedList | DoublyLinkedList => exists l, s = StSeq l
  | ArrayStack | LinkedListStack | ArrayQueue | LinkedListQueue | CircularBuffer => exists q, C05.R c s q
  | HashSet | TreeSet | LinkedHashSet => SP.set_inv c s
  | HashMap | TreeMap | LinkedHashMap | RedBlackTree | AVLTree | BTree => MM.minv c s
  | BinaryHeap | PriorityQueue => exists l, s = StHeap l /\ HeapProofs.heap_ok (kc c) l
  | HashBidiMap => exists f i, s = StHBidi f i /\ hbI f i
  | TreeBidiMap => exists f fn i inn, s = StTBidi f fn i inn /\ tbI (kc c) (vc c) ((f, fn), (i, inn))
  end.

Lemma valid_of : forall c, config_ok c -> MM.map_kind (ckind c) = true -> MM.valid c.
Proof. intros c [H _] K. split; assumption. Qed.

Lemma c05_of : forall c, config_ok c ->
  match ckind c with
  | ArrayStack | LinkedListStack | ArrayQueue | LinkedListQueue | CircularBuffer => True | _ => False
  end -> c05_config c.
Proof.
  intros c [_ H] K. unfold c05_config. destruct (ckind c); try contradiction; try exact I. apply H. reflexivity.
Qed.

Lemma ginv_init : forall c, config_ok c -> ginv c (init c).
Proof.
  intros c Hc. unfold ginv. destruct (ckind c) eqn:K.
  all: try (exists []; unfold init; rewrite K; reflexivity).
  all: try (apply SP.set_inv_init; rewrite K; reflexivity).
  all: try (exists []; apply C05.R_init; apply c05_of; [exact Hc|rewrite K; exact I]).
  all: try (apply (proj1 (MM.run_sim c [] (valid_of c Hc ltac:(rewrite K; reflexivity))))).
  all: try (exists []; split; [unfold init; rewrite K; reflexivity|apply C06.heap_ok_nil]).
  - exists [], []. split; [unfold init; rewrite K; reflexivity|apply binv_nil].
  - exists RB.E, 0, RB.E, 0. split; [unfold init; rewrite K; reflexivity|apply tbI_empty].
Qed.

Lemma step_c05 : forall c s o, config_ok c ->
  match ckind c with
  | ArrayStack | LinkedListStack | ArrayQueue | LinkedListQueue | CircularBuffer => True | _ => False
  end -> (exists q, C05.R c s q) -> exists q, C05.R c (fst (fst (step c s o))) q.
Proof.
  intros c s o Hc K [q H]. eexists. apply (proj1 (C05.R_step c s q o (c05_of c Hc K) H)).
Qed.

Lemma step_maps : forall c s o, config_ok c -> MM.map_kind (ckind c) = true ->
  MM.minv c s -> MM.minv c (fst (fst (step c s o))).
Proof. intros c s o Hc K H. exact (proj1 (MM.step_preserves c s o (valid_of c Hc K) H)). Qed.

Lemma step_heaps : forall c s o, is_heap_kind (ckind c) = true ->
  (exists l, s = StHeap l /\ HeapProofs.heap_ok (kc c) l) ->
  exists l, fst (fst (step c s o)) = StHeap l /\ HeapProofs.heap_ok (kc c) l.
Proof.
  intros c s o K (l & -> & Hok).
  destruct (C06.heap_step_sound c l o K Hok) as (l' & r & E & Hok' & _).
  rewrite E. exists l'. split; [reflexivity|exact Hok'].
Qed.

Lemma step_lists : forall c s o, C03.is_list_kind (ckind c) = true ->
  (exists l, s = StSeq l) -> exists l, fst (fst (step c s o)) = StSeq l.
Proof. intros c s o K [l ->]. rewrite C03.step_list by exact K. eexists; reflexivity. Qed.

Theorem step_ginv : forall c s o, config_ok c -> ginv c s -> ginv c (fst (fst (step c s o))).
Proof.
  intros c s o Hc H. unfold ginv in *. destruct (ckind c) eqn:K.
  all: try (apply step_lists; [rewrite K; reflexivity|exact H]).
  all: try exact (proj1 (SP.set_step c s o H)).
  all: try (apply step_c05; [exact Hc|rewrite K; exact I|exact H]).
  all: try (apply step_maps; [exact Hc|rewrite K; reflexivity|exact H]).
  all: try (apply step_heaps; [rewrite K; reflexivity|exact H]).
  - (* HashBidiMap *)
    destruct H as (f & i & -> & HB). rewrite (hb_next c f i o K).
    destr_op o; try (exists f, i; split; [reflexivity|exact HB]).
    + eexists _, _. split; [reflexivity|]. apply hbidi_put_inv. exact HB.
    + eexists _, _. split; [reflexivity|]. apply hbidi_remove_inv. exact HB.
    + exists [], []. split; [reflexivity|apply binv_nil].
    + destruct d as [| |vs|kvs]; try (exists f, i; split; [reflexivity|exact HB]).
      * exists [], []. split; [reflexivity|apply binv_nil].
      * eexists _, _. split; [reflexivity|]. apply hbidi_puts_inv. apply binv_nil.
  - (* TreeBidiMap *)
    destruct H as (f & fn & i & inn & -> & HB). rewrite (tb_next c f fn i inn o K).
    destr_op o; try (exists f, fn, i, inn; split; [reflexivity|exact HB]).
    + destruct (tbidi_put_tbI (kc c) (vc c) (kc_SWO c) (vc_SWO c) k v _ HB) as ([[f' fn'] [i' inn']] & E & HB').
      rewrite E. exists f', fn', i', inn'. split; [reflexivity|exact HB'].
    + destruct (tbidi_remove_tbI (kc c) (vc c) (kc_SWO c) (vc_SWO c) k _ HB) as ([[f' fn'] [i' inn']] & E & HB').
      rewrite E. exists f', fn', i', inn'. split; [reflexivity|exact HB'].
    + exists RB.E, 0, RB.E, 0. split; [reflexivity|apply tbI_empty].
    + destruct d as [| |vs|kvs]; try (exists f, fn, i, inn; split; [reflexivity|exact HB]).
      * exists RB.E, 0, RB.E, 0. split; [reflexivity|apply tbI_empty].
      * destruct (tbidi_puts_tbI (kc c) (vc c) (kc_SWO c) (vc_SWO c) (sort_entries kvs) _ (tbI_empty (kc c) (vc c)))
          as ([[f' fn'] [i' inn']] & E & HB').
        rewrite E. exists f', fn', i', inn'. split; [reflexivity|exact HB'].
Qed.

Lemma run_from_ginv : forall c ops s, config_ok c -> ginv c s -> ginv c (run_from c s ops).
Proof.
  intros c ops. induction ops as [|o ops IH]; intros s Hc H; [exact H|].
  change (run_from c s (o :: ops)) with (run_from c (fst (fst (step c s o))) ops).
  apply IH; [exact Hc|]. apply step_ginv; assumption.
Qed.

Theorem run_ginv : forall c ops, config_ok c -> ginv c (run c ops).
Proof. intros c ops Hc. unfold run. apply run_from_ginv; [exact Hc|]. apply ginv_init. exact Hc. Qed.

(* ================================================================================================ *)
(* 4. what the invariant says: shape, no crash, sizes                                               *)
(* ================================================================================================ *)
(* the state constructor of each kind *)
Definition shape_ok (k : kind) (s : state) : bool :=
  match k, s with
  | (ArrayList | SinglyLinkedList | DoublyLinkedList | ArrayStack | LinkedListStack
     | ArrayQueue | LinkedListQueue), StSeq _ => true
  | HashSet, StHSet _ => true
  | LinkedHashSet, StLSet _ _ => true
  | (TreeSet | TreeMap | RedBlackTree), StRB _ _ => true
  | AVLTree, StAVL _ _ => true
  | BTree, StBT _ _ => true
  | (BinaryHeap | PriorityQueue), StHeap _ => true
  | CircularBuffer, StRing _ => true
  | HashMap, StHMap _ => true
  | LinkedHashMap, StLMap _ _ => true
  | HashBidiMap, StHBidi _ _ => true
  | TreeBidiMap, StTBidi _ _ _ _ => true
  | _, _ => false
  end.

Ltac minv_cases H K :=
  unfold MM.minv, MM.Generic.inv in H; rewrite K in H;
  match type of H with match ?s with _ => _ end =>
    destruct s as [l|l|tbl ord|t n|t n|r n|h|r|m|tbl ord|f i|f fn i inn|]; try contradiction end.

Ltac sinv_cases H K :=
  unfold SP.set_inv in H; rewrite K in H;
  match type of H with match ?s with _ => _ end =>
    destruct s as [l|l|tbl ord|t n|t n|r n|h|r|m|tbl ord|f i|f fn i inn|]; try contradiction end.

Ltac r_cases s H K :=
  let q := fresh "q" in destruct H as [q H]; unfold C05.R in H; rewrite K in H;
  first [ subst s | let r := fresh "r" in destruct H as (r & -> & H) ].

Theorem ginv_shape : forall c s, ginv c s -> shape_ok (ckind c) s = true.
Proof.
  intros c s H. unfold ginv in H. destruct (ckind c) eqn:K.
  all: try (destruct H as [l ->]; reflexivity).
  all: try (sinv_cases H K; reflexivity).
  all: try (r_cases s H K; reflexivity).
  all: try (minv_cases H K; reflexivity).
  all: try (destruct H as (l & -> & _); reflexivity).
  - destruct H as (f & i & -> & _). reflexivity.
  - destruct H as (f & fn & i & inn & -> & _). reflexivity.
Qed.

Theorem ginv_not_crash : forall c s, ginv c s -> s <> StCrash.
Proof.
  intros c s H E. apply ginv_shape in H. subst s. destruct (ckind c); discriminate H.
Qed.

(* Size() is the length of Values() *)
Theorem ginv_size_values : forall c s, ginv c s -> size_of c s = Z.of_nat (length (values_of c s)).
Proof.
  intros c s H. unfold ginv in H. destruct (ckind c) eqn:K.
  all: try (destruct H as [l ->]; cbn [size_of values_of]; rewrite K; reflexivity).
  all: try (apply (SP.values_spec c s H)).
  all: try (destruct H as [q H]; rewrite (C05.R_values c s q H); apply (C05.R_size c s q H)).
  all: try (minv_cases H K; cbn [size_of values_of]; rewrite ?K; unfold zlen, RB.values, AVL.values;
            rewrite ?map_length; first [reflexivity | apply H]).
  all: try (destruct H as (l & -> & _); cbn [size_of values_of]; unfold zlen;
            rewrite HeapValues.values_length; reflexivity).
  - destruct H as (f & i & -> & HB). cbn [size_of values_of]. unfold zlen. rewrite map_length.
    f_equal. exact (binv_length Z.compare Z.compare Zcompare_SWO Zcompare_SWO f i HB).
  - destruct H as (f & fn & i & inn & -> & (HF & HI & HB)). cbn [size_of values_of fst snd] in *.
    unfold RB.keys. rewrite map_length.
    destruct HF as (_ & _ & HF). cbn [fst snd] in HF. rewrite HF. f_equal.
    exact (binv_length (kc c) (vc c) (kc_SWO c) (vc_SWO c) _ _ HB).
Qed.

(* ... and of Keys() on the key-value kinds *)
Theorem ginv_size_keys : forall c s, ginv c s -> is_kv (ckind c) = true ->
  size_of c s = Z.of_nat (length (keys_of c s)).
Proof.
  intros c s H Hkv. unfold ginv in H. destruct (ckind c) eqn:K; try discriminate Hkv.
  all: try (minv_cases H K; unfold keys_of; cbn [size_of entries_of]; unfold zlen, lmap_entries;
            rewrite ?map_length; first [reflexivity | apply H]).
  - destruct H as (f & i & -> & HB). unfold keys_of. cbn [size_of entries_of]. unfold zlen. rewrite map_length. reflexivity.
  - destruct H as (f & fn & i & inn & -> & (HF & HI & HB)). unfold keys_of. cbn [size_of entries_of fst snd] in *.
    rewrite map_length. apply HF.
Qed.

Theorem ginv_size_nonneg : forall c s, ginv c s -> 0 <= size_of c s.
Proof. intros c s H. rewrite (ginv_size_values c s H). lia. Qed.

(* the ring of a CircularBuffer has the configured capacity *)
Theorem ginv_ring : forall c s, ginv c s -> ckind c = CircularBuffer ->
  exists r, s = StRing r /\ RingProofs.ring_inv r /\ Ring.rmax r = Z.to_nat (ccap c).
Proof.
  intros c s H K. unfold ginv in H. rewrite K in H. destruct H as [q H]. unfold C05.R in H. rewrite K in H.
  destruct H as (r & -> & Hi & Hm & _). exists r. split; [reflexivity|]. split; [exact Hi|exact Hm].
Qed.

(* ================================================================================================ *)
(* 5. Clear, observers, the observation vector                                                      *)
(* ================================================================================================ *)
(* Clear() gives back the very state the constructor builds -- hidden fields included: the ring is
   re-allocated ([Ring.rclear r = Ring.rinit (rmax r)], slots zeroed, indices 0) with the capacity it
   was built with, the trees are dropped, comparators / order / capacity live in the configuration *)
Theorem ginv_clear_is_init : forall c s, config_ok c -> ginv c s -> fst (fst (step c s Clear)) = init c.
Proof.
  intros c s Hc H. pose proof (ginv_shape c s H) as Sh.
  destruct (ckind c) eqn:K; destruct s; try discriminate Sh; try reflexivity.
  destruct (ginv_ring c _ H K) as (r' & E & _ & Hm). inversion E; subst r'.
  destruct Hc as [_ Hcap]. specialize (Hcap K).
  cbn [step fst]. unfold init. rewrite K. unfold Ring.rclear. rewrite Hm.
  destruct (Z.ltb_spec (ccap c) 1) as [L|_]; [lia|reflexivity].
Qed.

Lemma run_from_app : forall c s ops1 ops2, run_from c s (ops1 ++ ops2) = run_from c (run_from c s ops1) ops2.
Proof. intros c s ops1 ops2. unfold run_from. apply fold_left_app. Qed.

Lemma run_app : forall c ops1 ops2, run c (ops1 ++ ops2) = run_from c (run c ops1) ops2.
Proof. intros c ops1 ops2. apply run_from_app. Qed.

(* the operations that are observers in the model *)
Definition is_observer (o : op) : bool :=
  match o with
  | Iter _ | Each | AnyP _ | AllP _ | FindP _ | SelectP _ | MapF _
  | Inter _ | Union _ | Diff _ | InterSelf | UnionSelf | DiffSelf
  | SortedValues | SortedValuesFunc _ _ => true
  | _ => false
  end.

(* ... leave EVERY state (reachable or not) exactly as it was *)
Theorem observers_pure : forall c s o, is_observer o = true -> fst (fst (step c s o)) = s.
Proof.
  intros c s o H.
  destruct s; destr_op o; try discriminate H; try reflexivity;
    unfold step; destruct (negb (has_enumerable (ckind c))); try reflexivity;
    destruct (each_of c _); reflexivity.
Qed.

(* the observation vector of a non-crashed state starts with Size, Empty, Values *)
Theorem observe_head : forall c s, s <> StCrash ->
  exists rest, observe c 1 s =
    (TSize, OZ (size_of c s)) :: (TEmpty, obool (size_of c s =? 0)) :: (TValues, ozs (values_of c s)) :: rest.
Proof. intros c s H. destruct s; try congruence; eexists; reflexivity. Qed.

Lemma size0_values_nil : forall c s, ginv c s -> ((size_of c s =? 0) = true <-> values_of c s = []).
Proof.
  intros c s H. rewrite (ginv_size_values c s H), Z.eqb_eq. destruct (values_of c s); cbn [length]; split; intros E;
    try reflexivity; try discriminate; lia.
Qed.

(* ... and TEmpty occurs nowhere else in it *)
Theorem observe_empty_unique : forall c s o, s <> StCrash ->
  In (TEmpty, o) (observe c 1 s) -> o = obool (size_of c s =? 0).
Proof.
  intros c s o Hs Hin.
  destruct s; try congruence; clear Hs; unfold observe in Hin;
    change (1 <=? 1) with true in Hin; cbn [andb] in Hin;
    destruct (ckind c); cbn [is_kv] in Hin;
    repeat match type of Hin with context [match ?x with _ => _ end] => destruct x end;
    cbn [app In] in Hin;
    repeat (destruct Hin as [Hin|Hin]; [first [discriminate Hin | inversion Hin; reflexivity]|]);
    try contradiction.
Qed.

(* ================================================================================================ *)
(* 6. no operation answers with a crash                                                             *)
(* ================================================================================================ *)
(* ---------- the containers built by Select / Map / the set algebra never crash ---------- *)
Lemma add_values_init_nc : forall c vs, config_ok c -> add_values c vs (init c) <> StCrash.
Proof.
  intros c vs Hc. pose proof (ginv_not_crash _ _ (ginv_init c Hc)) as Hn.
  unfold init in *. destruct (ckind c) eqn:K; cbn [add_values]; rewrite ?K; try discriminate; try exact Hn.
  all: try (destruct (_ <? _); [congruence|discriminate]).
  all: try (destruct (MM.rbs_puts_sim (kc c) (kc_SWO c) (map (fun x => (x, 0)) vs) (RB.E, 0) (MM.rbI_empty _))
              as ([t' n'] & E & _); rewrite E; discriminate).
  destruct (fold_left _ vs _). discriminate.
Qed.

Lemma put_entries_init_nc : forall c es, config_ok c -> is_kv (ckind c) = true ->
  put_entries c es (init c) <> StCrash.
Proof.
  intros c es Hc Hkv. pose proof (ginv_init c Hc) as H0.
  destruct (MM.map_kind (ckind c)) eqn:Hm.
  - apply (ginv_not_crash c). unfold ginv in *.
    assert (G : MM.minv c (put_entries c es (init c))).
    { apply (MM.Generic.put_entries_sim MM.btR MM.btR_put_total MM.btR_sorted c es (init c) (valid_of c Hc Hm)).
      destruct (ckind c); try discriminate Hm; exact H0. }
    destruct (ckind c); try discriminate Hm; exact G.
  - unfold ginv in H0. destruct (ckind c) eqn:K; try discriminate Hkv; try discriminate Hm.
    + destruct H0 as (f & i & -> & _). cbn [put_entries]. destruct (fold_left _ es _). discriminate.
    + destruct H0 as (f & fn & i & inn & -> & HB). cbn [put_entries].
      destruct (tbidi_puts_tbI (kc c) (vc c) (kc_SWO c) (vc_SWO c) es _ HB) as ([[f' fn'] [i' inn']] & E & _).
      rewrite E. discriminate.
Qed.

Lemma select_of_nc : forall c p es, config_ok c -> select_of c p es <> StCrash.
Proof.
  intros c p es Hc. unfold select_of. destruct (is_kv (ckind c)) eqn:Hkv.
  - apply put_entries_init_nc; assumption.
  - apply add_values_init_nc; assumption.
Qed.

Lemma map_of_nc : forall c f es, config_ok c -> map_of c f es <> StCrash.
Proof.
  intros c f es Hc. unfold map_of. destruct (is_kv (ckind c)) eqn:Hkv.
  - apply put_entries_init_nc; assumption.
  - apply add_values_init_nc; assumption.
Qed.

(* ---------- observations that are not the crash marker ---------- *)
Lemma ozs_nc : forall l, ozs l <> ocrash.
Proof. intros [|z l]; discriminate. Qed.
Lemma oopt_nc : forall o, oopt o <> ocrash.
Proof. intros [z|]; discriminate. Qed.
Lemma opairs_nc : forall l, opairs l <> ocrash.
Proof. intros [|e l]; discriminate. Qed.
Lemma content_obs_nc : forall c s, s <> StCrash -> content_obs c s <> ocrash.
Proof.
  intros c s H. destruct s; try congruence; cbn [content_obs]; destruct (is_kv (ckind c));
    try discriminate; apply ozs_nc.
Qed.

Lemma set_algebra_nc : forall c a s other, config_ok c -> set_algebra c a s other <> ocrash.
Proof.
  intros c a s other Hc. unfold set_algebra.
  destruct s; try discriminate; destruct other; try discriminate; try apply ozs_nc.
  apply content_obs_nc. destruct a; unfold ts_inter, ts_union, ts_diff.
  - destruct (_ <=? _); apply add_values_init_nc; exact Hc.
  - apply add_values_init_nc; exact Hc.
  - apply add_values_init_nc; exact Hc.
Qed.

(* an iterator script answers a list of per-call results; the list itself is never the crash marker *)
Section ScriptObs.
Variable St : Type.
Variable next prev : St -> option (St * bool).
Variable begin_ end_ : St -> St.
Variable cur : St -> option (Z * Z).
Variable has_prev : bool.

Lemma moved_obs : forall s b s' o, moved St cur s b = Some (s', o) -> o <> OL [OL []].
Proof.
  intros s b s' o H. unfold moved in H. destruct b.
  - destruct (cur s) as [[i v]|]; [|discriminate]. inversion H. discriminate.
  - inversion H. discriminate.
Qed.

Lemma run_call_obs : forall fuel s c s' o,
  run_call St next prev begin_ end_ cur has_prev fuel s c = Some (s', o) -> o <> OL [OL []].
Proof.
  intros fuel s c s' o H. unfold run_call in H.
  destruct c as [| | | | | |p|p]; try destruct has_prev;
    repeat match type of H with
           | match ?x with _ => _ end = _ => destruct x as [[? ?]|]; [|discriminate H]
           end;
    try (apply moved_obs in H; exact H);
    inversion H; discriminate.
Qed.

Lemma run_script_nc : forall fuel s cs,
  run_script St next prev begin_ end_ cur has_prev fuel s cs <> [OL [OL []]].
Proof.
  intros fuel s [|c cs]; cbn [run_script]; [discriminate|].
  destruct (run_call St next prev begin_ end_ cur has_prev fuel s c) as [[s' o]|] eqn:E; [|discriminate].
  intros Q. inversion Q. subst o. exact (run_call_obs _ _ _ _ _ E eq_refl).
Qed.
End ScriptObs.

Lemma run_iter_nc : forall c s cs, OL (run_iter c s cs) <> ocrash.
Proof.
  intros c s cs Q. assert (E : run_iter c s cs = [OL [OL []]]) by (inversion Q; reflexivity). clear Q.
  revert E. unfold run_iter. destruct s; try destruct (ckind c); try apply run_script_nc; discriminate.
Qed.

(* ---------- the enumerable functions: the walk over a reachable state never fails ---------- *)
Theorem ginv_each_of : forall c s, ginv c s -> has_enumerable (ckind c) = true -> each_of c s <> None.
Proof.
  intros c s H He. unfold ginv in H. destruct (ckind c) eqn:K; try discriminate He.
  all: try (destruct H as [l ->]; rewrite IterLinear.each_of_linear; [discriminate|rewrite K; discriminate|exact I]).
  - (* TreeSet *) sinv_cases H K. destruct H as (_ & _ & Hn).
    rewrite (IterTreeRB.each_of_treeset c t n K Hn). discriminate.
  - (* LinkedHashSet *) sinv_cases H K.
    rewrite IterLinear.each_of_linear; [discriminate|rewrite K; discriminate|exact I].
  - (* TreeMap *) minv_cases H K. destruct H as (_ & _ & Hn). cbn [fst snd] in Hn.
    rewrite (IterTreeRB.each_of_rb c t n); [discriminate|rewrite K; discriminate|].
    rewrite RBMap.count_inorder. exact Hn.
  - (* LinkedHashMap *) minv_cases H K.
    rewrite IterLinear.each_of_linear; [discriminate|rewrite K; discriminate|exact I].
  - (* TreeBidiMap *) destruct H as (f & fn & i & inn & -> & ((_ & _ & Hn) & _)). cbn [fst snd] in Hn.
    rewrite (IterTreeRB.each_of_treebidi c f fn i inn); [discriminate|].
    rewrite RBMap.count_inorder. exact Hn.
Qed.

(* ---------- one step: the result is the crash marker only if the new state is the crash state
              or the walk of an enumerable function fails ---------- *)
Ltac crunch_res :=
  repeat (cbn [fst snd pure] in *;
          match goal with
          | |- snd (fst (match ?x with _ => _ end)) <> _ => destruct x
          | |- snd (fst (if ?x then _ else _)) <> _ => destruct x
          end);
  cbn [fst snd pure] in *;
  first [ discriminate | congruence | apply ozs_nc | apply oopt_nc ].

Ltac enum_res c Hc Hen :=
  unfold step;
  (destruct (has_enumerable (ckind c)); cbn [negb]; [|discriminate]); specialize (Hen eq_refl);
  (match goal with |- context [each_of ?c0 ?s0] => destruct (each_of c0 s0) as [?|] end; [|congruence]);
  cbn [fst snd pure];
  first [ apply opairs_nc
        | apply content_obs_nc; first [apply select_of_nc | apply map_of_nc]; exact Hc
        | lazymatch goal with |- obool ?b <> _ => destruct b; discriminate end
        | (match goal with |- context [find_first ?p0 ?l0] => destruct (find_first p0 l0) as [[? ?]|] end;
           [|destruct (is_kv (ckind c))]); discriminate ].

Lemma step_result_ok : forall c s o, config_ok c -> s <> StCrash ->
  fst (fst (step c s o)) <> StCrash ->
  (has_enumerable (ckind c) = true -> each_of c s <> None) ->
  snd (fst (step c s o)) <> ocrash.
Proof.
  intros c s o Hc Hs Hns Hen.
  destruct s; try congruence; destr_op o.
  all: lazymatch goal with
       | |- snd (fst (step _ _ ?op)) <> _ =>
         lazymatch op with
         | Each => enum_res c Hc Hen
         | AnyP _ => enum_res c Hc Hen
         | AllP _ => enum_res c Hc Hen
         | FindP _ => enum_res c Hc Hen
         | SelectP _ => enum_res c Hc Hen
         | MapF _ => enum_res c Hc Hen
         | Inter _ => cbn [step fst snd pure]; apply set_algebra_nc; exact Hc
         | Union _ => cbn [step fst snd pure]; apply set_algebra_nc; exact Hc
         | Diff _ => cbn [step fst snd pure]; apply set_algebra_nc; exact Hc
         | InterSelf => cbn [step fst snd pure]; apply set_algebra_nc; exact Hc
         | UnionSelf => cbn [step fst snd pure]; apply set_algebra_nc; exact Hc
         | DiffSelf => cbn [step fst snd pure]; apply set_algebra_nc; exact Hc
         | Iter _ => cbn [step fst snd pure]; apply run_iter_nc
         | _ => unfold step in *; crunch_res
         end
       end.
Qed.

(* ================================================================================================ *)
(* 7. the theorems of property C15                                                                  *)
(* ================================================================================================ *)
Theorem C15_nonneg : forall c ops, config_ok c -> 0 <= size_of c (run c ops).
Proof. intros c ops Hc. apply ginv_size_nonneg. apply run_ginv. exact Hc. Qed.

Theorem C15_len_values : forall c ops, config_ok c ->
  size_of c (run c ops) = Z.of_nat (length (values_of c (run c ops))).
Proof. intros c ops Hc. apply ginv_size_values. apply run_ginv. exact Hc. Qed.

Theorem C15_len_keys : forall c ops, config_ok c -> is_kv (ckind c) = true ->
  size_of c (run c ops) = Z.of_nat (length (keys_of c (run c ops))).
Proof. intros c ops Hc Hkv. apply ginv_size_keys; [|exact Hkv]. apply run_ginv. exact Hc. Qed.

(* Empty(): the component tagged TEmpty of the observation vector is the second one, it is the only
   one with that tag, it is [size = 0], and it is true exactly when Values() is empty *)
Theorem C15_empty : forall c ops, config_ok c ->
  let s := run c ops in
  nth_error (observe c 1 s) 1 = Some (TEmpty, obool (size_of c s =? 0)) /\
  (forall o, In (TEmpty, o) (observe c 1 s) <-> o = obool (size_of c s =? 0)) /\
  ((size_of c s =? 0) = true <-> values_of c s = []) /\
  (is_kv (ckind c) = true -> ((size_of c s =? 0) = true <-> keys_of c s = [])).
Proof.
  intros c ops Hc s. pose proof (run_ginv c ops Hc) as H. fold s in H.
  pose proof (ginv_not_crash c s H) as Hn.
  destruct (observe_head c s Hn) as [rest E].
  split; [rewrite E; reflexivity|]. split; [|split].
  - intros o. split; [apply observe_empty_unique; exact Hn|].
    intros ->. rewrite E. right. left. reflexivity.
  - apply size0_values_nil. exact H.
  - intros Hkv. rewrite (ginv_size_keys c s H Hkv), Z.eqb_eq.
    destruct (keys_of c s); cbn [length]; split; intros Q; try reflexivity; try discriminate; lia.
Qed.

(* Clear() *)
Theorem C15_clear_is_init : forall c ops, config_ok c -> fst (fst (step c (run c ops) Clear)) = init c.
Proof. intros c ops Hc. apply ginv_clear_is_init; [exact Hc|]. apply run_ginv. exact Hc. Qed.

Theorem C15_clear_then : forall c ops more, config_ok c -> run c (ops ++ Clear :: more) = run c more.
Proof.
  intros c ops more Hc. rewrite run_app.
  change (run_from c (run c ops) (Clear :: more))
    with (run_from c (fst (fst (step c (run c ops) Clear))) more).
  rewrite (C15_clear_is_init c ops Hc). reflexivity.
Qed.

(* hence every later result, cost and observation is that of a freshly constructed container *)
Theorem C15_clear_then_behaves : forall c ops more, config_ok c ->
  (forall o, step c (run c (ops ++ Clear :: more)) o = step c (run c more) o) /\
  (forall lvl, observe c lvl (run c (ops ++ Clear :: more)) = observe c lvl (run c more)).
Proof. intros c ops more Hc. rewrite (C15_clear_then c ops more Hc). split; reflexivity. Qed.

Lemma init_empty : forall c, config_ok c ->
  size_of c (init c) = 0 /\ values_of c (init c) = [] /\ keys_of c (init c) = [].
Proof.
  intros c [Hbt Hcb]. unfold init. destruct (ckind c) eqn:K; unfold keys_of; cbn [size_of values_of entries_of];
    rewrite ?K; try (repeat split; reflexivity).
  - specialize (Hbt eq_refl). destruct (Z.ltb_spec (corder c) 3) as [L|_]; [lia|]. repeat split; reflexivity.
  - specialize (Hcb eq_refl). destruct (Z.ltb_spec (ccap c) 1) as [L|_]; [lia|]. repeat split; reflexivity.
Qed.

Theorem C15_clear_empty : forall c ops, config_ok c ->
  let s := run c (ops ++ [Clear]) in
  s = init c /\ size_of c s = 0 /\ values_of c s = [] /\ keys_of c s = [].
Proof.
  intros c ops Hc s. assert (E : s = init c) by (unfold s; apply (C15_clear_then c ops [] Hc)).
  split; [exact E|]. rewrite E. apply init_empty. exact Hc.
Qed.

(* observers *)
Theorem C15_observers_pure : forall c s o, is_observer o = true ->
  fst (fst (step c s o)) = s /\
  forall lvl, observe c lvl (fst (fst (step c s o))) = observe c lvl s.
Proof. intros c s o H. rewrite (observers_pure c s o H). split; reflexivity. Qed.

(* ================================================================================================ *)
(* 8. the theorems of property C17 (model part)                                                     *)
(* ================================================================================================ *)
Theorem C17_never_crash : forall c ops, config_ok c -> run c ops <> StCrash.
Proof. intros c ops Hc. apply (ginv_not_crash c). apply run_ginv. exact Hc. Qed.

Theorem C17_step_total : forall c ops o, config_ok c ->
  snd (fst (step c (run c ops) o)) <> ocrash /\ fst (fst (step c (run c ops) o)) <> StCrash.
Proof.
  intros c ops o Hc. pose proof (run_ginv c ops Hc) as H.
  pose proof (step_ginv c _ o Hc H) as H'.
  split; [|apply (ginv_not_crash c); exact H'].
  apply step_result_ok.
  - exact Hc.
  - apply (ginv_not_crash c). exact H.
  - apply (ginv_not_crash c). exact H'.
  - apply ginv_each_of. exact H.
Qed.

Theorem C17_constructor_preconditions : forall c,
  init c = StCrash <-> (ckind c = BTree /\ corder c < 3) \/ (ckind c = CircularBuffer /\ ccap c < 1).
Proof.
  intros c. unfold init. destruct (ckind c) eqn:K;
    try (split; [discriminate|intros [[Q _]|[Q _]]; discriminate Q]).
  - destruct (Z.ltb_spec (corder c) 3) as [L|L]; split; try discriminate; try reflexivity.
    + intros _. left. split; [reflexivity|exact L].
    + intros [[_ Q]|[Q _]]; [lia|discriminate Q].
  - destruct (Z.ltb_spec (ccap c) 1) as [L|L]; split; try discriminate; try reflexivity.
    + intros _. right. split; [reflexivity|exact L].
    + intros [[Q _]|[_ Q]]; [discriminate Q|lia].
Qed.

(* the hypothesis of all the theorems above is exactly "the constructor did not panic" *)
Theorem C17_config_ok_iff : forall c, config_ok c <-> init c <> StCrash.
Proof.
  intros c. rewrite C17_constructor_preconditions. unfold config_ok. split.
  - intros [H1 H2] [[K L]|[K L]]; [specialize (H1 K)|specialize (H2 K)]; lia.
  - intros H. split; intros K.
    + destruct (Z_lt_dec (corder c) 3) as [L|L]; [|lia]. exfalso. apply H. left. split; assumption.
    + destruct (Z_lt_dec (ccap c) 1) as [L|L]; [|lia]. exfalso. apply H. right. split; assumption.
Qed.

(* a container whose constructor panicked stays crashed: every operation reports the crash *)
Theorem C17_crash_absorbing : forall c o, step c StCrash o = (StCrash, ocrash, onone).
Proof. intros c o. reflexivity. Qed.

(* ---------- iterator scripts: no call inside a script crashes ---------- *)
(* [step] answers an [Iter] script with the list of the per-call results; a call that would
   dereference nil ends the list with the crash marker.  On reachable states this never happens. *)
Lemma lin_cursor_nc : forall l hp cs p, ~ In ocrash (IterLinear.cursor_script_from l hp p cs).
Proof.
  intros l hp cs. induction cs as [|c cs IH]; intros p; [intros []|].
  cbn [IterLinear.cursor_script_from]. intros [Q|Q]; [|exact (IH _ Q)].
  revert Q. unfold IterLinear.cursor_call, IterLinear.land, IterLinear.cur_obs.
  destruct c as [| | | | | |pr|pr]; try destruct hp; cbn [snd];
    try match goal with |- context [match ?x with _ => _ end] => destruct x as [[? ?]|] end; discriminate.
Qed.

Lemma tree_cursor_nc : forall l hp cs p, ~ In ocrash (IterTreeRB.cursor_run l hp p cs).
Proof.
  intros l hp cs. induction cs as [|c cs IH]; intros p; [intros []|].
  cbn [IterTreeRB.cursor_run]. intros [Q|Q]; [|exact (IH _ Q)].
  revert Q. unfold IterTreeRB.cursor_call, IterTreeRB.c_report.
  destruct c as [| | | | | |pr|pr]; try destruct hp; cbn [snd];
    try match goal with |- context [match ?x with _ => _ end] => destruct x as [[? ?]|] end; discriminate.
Qed.

Theorem ginv_iter_total : forall c s cs, config_ok c -> ginv c s ->
  ~ In ocrash (run_iter c s cs).
Proof.
  intros c s cs Hc H.
  destruct (IterLinear.linear_state c s) eqn:Hl.
  { rewrite (IterLinear.linear_iter_is_cursor c s cs Hl). apply lin_cursor_nc. }
  pose proof (ginv_shape c s H) as Sh. unfold ginv in H.
  destruct (ckind c) eqn:K; destruct s as [l|l|tbl ord|t n|t n|r n|h|r|m|tbl ord|f i|f fn i inn|];
    try discriminate Sh; try discriminate Hl;
    unfold IterLinear.linear_state in Hl; rewrite ?K in Hl; try discriminate Hl.
  - (* HashSet *) cbn. intros [Q|[]]. discriminate Q.
  - (* TreeSet *) unfold SP.set_inv in H. rewrite K in H. destruct H as (_ & _ & Hn).
    rewrite (IterTreeRB.run_iter_treeset c t n cs K Hn). apply tree_cursor_nc.
  - (* HashMap *) cbn. intros [Q|[]]. discriminate Q.
  - (* TreeMap *) unfold MM.minv, MM.Generic.inv in H. rewrite K in H. destruct H as (_ & _ & Hn). cbn [fst snd] in Hn.
    rewrite (IterTreeRB.run_iter_rb c t n cs); [apply tree_cursor_nc|right; exact K|].
    rewrite RBMap.count_inorder. exact Hn.
  - (* HashBidiMap *) cbn. intros [Q|[]]. discriminate Q.
  - (* TreeBidiMap *) destruct H as (f' & fn' & i' & inn' & E & ((_ & _ & Hn) & _)). inversion E; subst.
    cbn [fst snd] in Hn. rewrite (IterTreeRB.run_iter_treebidi c f' fn' i' inn' cs); [apply tree_cursor_nc|].
    rewrite RBMap.count_inorder. exact Hn.
  - (* RedBlackTree *) unfold MM.minv, MM.Generic.inv in H. rewrite K in H. destruct H as (_ & _ & Hn). cbn [fst snd] in Hn.
    rewrite (IterTreeRB.run_iter_rb c t n cs); [apply tree_cursor_nc|left; exact K|].
    rewrite RBMap.count_inorder. exact Hn.
  - (* AVLTree *) unfold MM.minv, MM.Generic.inv in H. rewrite K in H. destruct H as (_ & _ & Hn).
    rewrite (IterTreeAVL.run_iter_avl c t n cs); [apply tree_cursor_nc|].
    rewrite Proofs.AVLMap.count_inorder. exact Hn.
  - (* BTree *) unfold MM.minv, MM.Generic.inv in H. rewrite K in H. destruct H as ((Hinv & Hs) & Hn).
    assert (Hm : (3 <= bt_m c)%nat) by (destruct Hc as [Hc _]; specialize (Hc K); unfold bt_m; lia).
    rewrite (IterTreeBT.run_iter_bt c r n cs); [apply tree_cursor_nc| |exact Hn].
    apply (IterTreeBT.bt_good_of_inv (bt_m c) (kc c) r Hm Hinv Hs).
Qed.

Theorem C17_iter_total : forall c ops cs, config_ok c ->
  ~ In ocrash (run_iter c (run c ops) cs).
Proof. intros c ops cs Hc. apply ginv_iter_total; [exact Hc|apply run_ginv; exact Hc]. Qed.
