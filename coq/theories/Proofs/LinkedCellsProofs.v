(* The pointer-level models of Model/LinkedCells.v refine the sequence-level models of Model/Lists.v:
   under the representation predicate `repr` (a chain of pairwise distinct allocated cells carrying
   the sequence), every operation succeeds (no nil dereference is reachable) and its pointer surgery
   implements the corresponding sll_* / dll_* function. *)
From Coq Require Import ZArith List Bool Arith Lia Permutation.
From Gods Require Import Common.Cmp Spec.SeqSpec Model.Lists Model.Ops Model.LinkedCells Model.Machine.
From Gods Require Import Proofs.ListsProofs Proofs.C03Proofs.
Import ListNotations.
Local Open Scope Z_scope.

(* ---------- heap ---------- *)
Lemma hread_same : forall h a c, hread (hwrite h a c) a = Some c.
Proof. intros h a c. simpl. rewrite Nat.eqb_refl. reflexivity. Qed.
Lemma hread_other : forall h a c b, b <> a -> hread (hwrite h a c) b = hread h b.
Proof. intros h a c b Hne. simpl. destruct (Nat.eqb_spec b a) as [He|He]; [contradiction|reflexivity]. Qed.
Lemma store_some : forall h a c f, hread h a = Some c -> store h (Some a) f = Some (hwrite h a (f c)).
Proof. intros h a c f H. unfold store. rewrite H. reflexivity. Qed.

(* ---------- ends of an address list ---------- *)
Definition hd_or (al : list nat) (d : option nat) : option nat :=
  match al with [] => d | a :: _ => Some a end.
Fixpoint last_or (al : list nat) (d : option nat) : option nat :=
  match al with [] => d | a :: al' => last_or al' (Some a) end.

Lemma last_or_app : forall a1 a2 d, last_or (a1 ++ a2) d = last_or a2 (last_or a1 d).
Proof. induction a1 as [|a a1 IH]; intros a2 d; simpl; [reflexivity|apply IH]. Qed.
Lemma last_or_snoc : forall al b d, last_or (al ++ [b]) d = Some b.
Proof. intros al b d. rewrite last_or_app. reflexivity. Qed.
Lemma hd_or_app : forall a1 a2 d, hd_or (a1 ++ a2) d = hd_or a1 (hd_or a2 d).
Proof. intros [|a a1] a2 d; reflexivity. Qed.
Lemma hd_or_rev : forall al d, hd_or (rev al) d = last_or al d.
Proof.
  induction al as [|a al IH]; intros d; simpl; [reflexivity|].
  rewrite hd_or_app, IH. simpl. reflexivity.
Qed.
Lemma last_or_rev : forall al d, last_or (rev al) d = hd_or al d.
Proof. intros [|a al] d; simpl; [reflexivity|]. apply last_or_snoc. Qed.
Lemma last_or_In : forall al d, al <> [] -> exists b, last_or al d = Some b /\ In b al.
Proof.
  induction al as [|a al IH]; intros d Hne; [congruence|].
  destruct al as [|a' al'].
  - exists a. simpl. auto.
  - destruct (IH (Some a)) as (b & Hb & Hin); [congruence|].
    exists b. split; [exact Hb|right; exact Hin].
Qed.
Lemma list_snoc_cases : forall A (al : list A), al = [] \/ exists a0 b, al = a0 ++ [b].
Proof.
  intros A al. destruct al as [|a al]; [left; reflexivity|right].
  destruct (exists_last (l := a :: al)) as (a0 & b & H); [congruence|].
  exists a0, b. exact H.
Qed.

Lemma NoDup_mid : forall (a1 : list nat) x a2, NoDup (a1 ++ x :: a2) ->
  ~ In x a1 /\ ~ In x a2 /\ NoDup a1 /\ NoDup a2 /\ (forall y, In y a1 -> ~ In y a2).
Proof.
  induction a1 as [|a a1 IH]; intros x a2 H; simpl in H.
  - inversion H as [|x' l' Hnin Hnd]; subst. repeat split; auto. constructor.
  - inversion H as [|a' l' Hnin Hnd]; subst.
    destruct (IH _ _ Hnd) as (H1 & H2 & H3 & H4 & H5).
    repeat split.
    + intros [He|Hin]; [|contradiction]. subst. apply Hnin. apply in_or_app. right. left. reflexivity.
    + exact H2.
    + constructor; [|exact H3]. intro Hin. apply Hnin. apply in_or_app. left. exact Hin.
    + exact H4.
    + intros y [->|Hy] Hy2.
      * apply Hnin. apply in_or_app. right. right. exact Hy2.
      * exact (H5 y Hy Hy2).
Qed.

Lemma NoDup_app_intro : forall (a1 a2 : list nat), NoDup a1 -> NoDup a2 ->
  (forall y, In y a1 -> ~ In y a2) -> NoDup (a1 ++ a2).
Proof.
  induction a1 as [|a a1 IH]; intros a2 H1 H2 Hd; simpl; [exact H2|].
  inversion H1 as [|a' l' Hnin Hnd]; subst.
  constructor.
  - intro Hin. apply in_app_or in Hin. destruct Hin as [Hin|Hin]; [contradiction|].
    exact (Hd a (or_introl eq_refl) Hin).
  - apply IH; [exact Hnd|exact H2|]. intros y Hy. apply Hd. right. exact Hy.
Qed.

(* ---------- positional splitting ---------- *)
Lemma firstn_exact : forall A (l1 l2 : list A) k, length l1 = k -> firstn k (l1 ++ l2) = l1.
Proof.
  intros A l1 l2 k Hk. subst k. rewrite firstn_app, Nat.sub_diag, firstn_all. simpl. apply app_nil_r.
Qed.
Lemma skipn_exact : forall A (l1 l2 : list A) k, length l1 = k -> skipn k (l1 ++ l2) = l2.
Proof.
  intros A l1 l2 k Hk. subst k. rewrite skipn_app, Nat.sub_diag, skipn_all. reflexivity.
Qed.
Lemma skipn_S_exact : forall A (l1 : list A) v l2 k, length l1 = k -> skipn (S k) (l1 ++ v :: l2) = l2.
Proof.
  intros A l1 v l2 k Hk.
  replace (l1 ++ v :: l2) with ((l1 ++ [v]) ++ l2) by (rewrite <- app_assoc; reflexivity).
  apply skipn_exact. rewrite app_length. simpl. lia.
Qed.
Lemma nth_exact : forall (l1 : list Z) v l2 k d, length l1 = k -> nth k (l1 ++ v :: l2) d = v.
Proof. intros l1 v l2 k d Hk. subst k. rewrite app_nth2, Nat.sub_diag; [reflexivity|lia]. Qed.
Lemma nth_error_exact : forall A (l1 : list A) v l2 k, length l1 = k -> nth_error (l1 ++ v :: l2) k = Some v.
Proof. intros A l1 v l2 k Hk. subst k. rewrite nth_error_app2, Nat.sub_diag; [reflexivity|lia]. Qed.
Lemma upd_exact : forall (l1 : list Z) v0 l2 k v, length l1 = k -> upd k v (l1 ++ v0 :: l2) = l1 ++ v :: l2.
Proof.
  intros l1 v0 l2 k v Hk. unfold upd. rewrite firstn_exact by exact Hk.
  rewrite skipn_S_exact by exact Hk. reflexivity.
Qed.

(* ---------- sequence-level facts ---------- *)
Lemma zlen_app' : forall A (a b : list A), zlen (a ++ b) = zlen a + zlen b.
Proof. intros A a b. unfold zlen. rewrite app_length. lia. Qed.
Lemma zlen_cons' : forall A (x : A) l, zlen (x :: l) = zlen l + 1.
Proof. intros A x l. unfold zlen. simpl length. lia. Qed.
Lemma within_spec : forall A i (l : list A), within i l = true <-> 0 <= i < zlen l.
Proof. intros A i l. unfold within. rewrite andb_true_iff, Z.leb_le, Z.ltb_lt. tauto. Qed.
Lemma sll_add_app : forall vs l, sll_add vs l = l ++ vs.
Proof.
  unfold sll_add. induction vs as [|v vs IH]; intros l; simpl; [symmetry; apply app_nil_r|].
  rewrite IH, <- app_assoc. reflexivity.
Qed.
Lemma sll_prepend_app : forall vs l, sll_prepend vs l = vs ++ l.
Proof.
  unfold sll_prepend. intros vs l. rewrite <- (rev_involutive vs) at 2.
  generalize (rev vs) as r. intros r. revert l.
  induction r as [|v r IH]; intros l; simpl; [reflexivity|].
  rewrite IH, <- app_assoc. reflexivity.
Qed.

(* ================= chains of cells ================= *)
Section Chain.
  Variable dbl : bool.                          (* are the backward links part of the structure *)
  Variables nx pv : cell -> option nat.         (* forward / backward link *)

  Definition cell_ok (h : heap) (prev : option nat) (a : nat) (v : Z) (nxt : option nat) : Prop :=
    exists c, hread h a = Some c /\ cval c = v /\ nx c = nxt /\ (dbl = true -> pv c = prev).

  (* the cells at addresses al carry the values l; the first one's backward link is prev, the last
     one's forward link is nxt *)
  Fixpoint chain (h : heap) (prev : option nat) (al : list nat) (l : list Z) (nxt : option nat) : Prop :=
    match al, l with
    | [], [] => True
    | a :: al', v :: l' => cell_ok h prev a v (hd_or al' nxt) /\ chain h (Some a) al' l' nxt
    | _, _ => False
    end.

  Lemma chain_length : forall h al p l n, chain h p al l n -> length al = length l.
  Proof.
    induction al as [|a al IH]; intros p [|v l] n H; simpl in H; try contradiction; [reflexivity|].
    destruct H as [_ H]. simpl. f_equal. exact (IH _ _ _ H).
  Qed.

  Lemma chain_app : forall h a1 a2 l1 l2 p n, length a1 = length l1 ->
    (chain h p (a1 ++ a2) (l1 ++ l2) n <->
     chain h p a1 l1 (hd_or a2 n) /\ chain h (last_or a1 p) a2 l2 n).
  Proof.
    induction a1 as [|a a1 IH]; intros a2 [|v l1] l2 p n Hlen; simpl in Hlen; try discriminate.
    - simpl. tauto.
    - simpl app. cbn [chain last_or]. rewrite (IH a2 l1 l2 (Some a) n) by lia.
      rewrite hd_or_app. tauto.
  Qed.

  Lemma cell_ok_frame : forall h h' p a v n, hread h' a = hread h a -> cell_ok h p a v n -> cell_ok h' p a v n.
  Proof. intros h h' p a v n He (c & Hc & Hr). exists c. rewrite He. auto. Qed.

  Lemma chain_frame : forall h h' al p l n, (forall a, In a al -> hread h' a = hread h a) ->
    chain h p al l n -> chain h' p al l n.
  Proof.
    induction al as [|a al IH]; intros p [|v l] n Hf H; simpl in H |- *; try contradiction; [exact I|].
    destruct H as [Hc H]. split.
    - apply (cell_ok_frame h); [apply Hf; left; reflexivity|exact Hc].
    - apply IH; [|exact H]. intros b Hb. apply Hf. right. exact Hb.
  Qed.

  Lemma chain_split_at : forall h p al l n k, chain h p al l n -> (k < length al)%nat ->
    exists a1 x a2 l1 v l2, al = a1 ++ x :: a2 /\ l = l1 ++ v :: l2 /\ length a1 = k /\ length l1 = k.
  Proof.
    intros h p al l n k H Hk.
    pose proof (chain_length _ _ _ _ _ H) as Hlen.
    destruct (nth_error al k) as [x|] eqn:Ex; [|apply nth_error_None in Ex; lia].
    destruct (nth_error l k) as [v|] eqn:Ev; [|apply nth_error_None in Ev; lia].
    apply nth_error_split in Ex. destruct Ex as (a1 & a2 & -> & H1).
    apply nth_error_split in Ev. destruct Ev as (l1 & l2 & -> & H2).
    exists a1, x, a2, l1, v, l2. auto.
  Qed.

  (* n iterations of `element = element.next` *)
  Lemma chain_walk : forall h a1 a2 p l n, chain h p (a1 ++ a2) l n ->
    walk nx h (hd_or (a1 ++ a2) n) (length a1) = Some (hd_or a2 n).
  Proof.
    induction a1 as [|a a1 IH]; intros a2 p l n H; [reflexivity|].
    destruct l as [|v l]; simpl in H; [contradiction|].
    destruct H as [(c & Hc & _ & Hn & _) H].
    simpl. rewrite Hc, Hn. exact (IH _ _ _ _ H).
  Qed.

  Lemma chain_walk_cells : forall h al p l seen, chain h p al l None ->
    walk_cells nx h (hd_or al None) seen (length al) = Some (l, last_or al seen).
  Proof.
    induction al as [|a al IH]; intros p [|v l] seen H; simpl in H; try contradiction; [reflexivity|].
    destruct H as [(c & Hc & Hv & Hn & _) H].
    simpl. rewrite Hc, Hn. rewrite (IH _ _ (Some a) H). simpl. rewrite Hv. reflexivity.
  Qed.
End Chain.

(* a doubly linked chain read backwards is a doubly linked chain *)
Lemma chain_rev : forall nx pv h al p l n, chain true nx pv h p al l n ->
  chain true pv nx h n (rev al) (rev l) p.
Proof.
  intros nx pv h. induction al as [|a al IH]; intros p [|v l] n H; simpl in H; try contradiction; [exact I|].
  destruct H as [(c & Hc & Hv & Hn & Hp) H].
  simpl rev. apply chain_app; [rewrite !rev_length; exact (chain_length _ _ _ _ _ _ _ _ H)|].
  split.
  - simpl. exact (IH _ _ _ H).
  - simpl. split; [|exact I]. exists c. rewrite last_or_rev.
    repeat split; auto.
Qed.

Lemma chain_weaken : forall dbl nx pv h al p l n, chain dbl nx pv h p al l n -> chain false nx pv h p al l n.
Proof.
  intros dbl nx pv h. induction al as [|a al IH]; intros p [|v l] n H; simpl in H |- *; try contradiction; [exact I|].
  destruct H as [(c & Hc & Hv & Hn & _) H]. split; [|exact (IH _ _ _ H)].
  exists c. repeat split; auto. discriminate.
Qed.

Notation fchain dbl := (chain dbl cnext cprev).

(* `for e := 0; e != index; ... { beforeElement = element }` *)
Lemma chain_walk_track : forall dbl h a1 a2 p l n b0, fchain dbl h p (a1 ++ a2) l n ->
  walk_track h b0 (hd_or (a1 ++ a2) n) (length a1) = Some (last_or a1 b0, hd_or a2 n).
Proof.
  intros dbl h. induction a1 as [|a a1 IH]; intros a2 p l n b0 H; [reflexivity|].
  destruct l as [|v l]; simpl in H; [contradiction|].
  destruct H as [(c & Hc & _ & Hn & _) H].
  simpl. rewrite Hc, Hn. exact (IH _ _ _ _ _ H).
Qed.

Lemma chain_values : forall dbl h al p l, fchain dbl h p al l None ->
  values_from h (hd_or al None) (length al) = Some l.
Proof.
  intros dbl h. induction al as [|a al IH]; intros p [|v l] H; simpl in H; try contradiction; [reflexivity|].
  destruct H as [(c & Hc & Hv & Hn & _) H].
  simpl. rewrite Hc, Hn, (IH _ _ H), Hv. reflexivity.
Qed.

Lemma chain_find : forall dbl h v al p l fuel, fchain dbl h p al l None -> (length al < fuel)%nat ->
  find_from h (hd_or al None) v fuel = Some (existsb (fun x => x =? v) l).
Proof.
  intros dbl h v. induction al as [|a al IH]; intros p [|w l] fuel H Hf; simpl in H; try contradiction.
  - destruct fuel; reflexivity.
  - destruct H as [(c & Hc & Hv & Hn & _) H].
    destruct fuel as [|fuel]; [simpl in Hf; lia|].
    simpl. rewrite Hc, Hv, Hn. destruct (w =? v); [reflexivity|].
    apply (IH _ _ _ H). simpl in Hf. lia.
Qed.

Lemma chain_contains : forall dbl h al p l fuel vs, fchain dbl h p al l None -> (length al < fuel)%nat ->
  contains_loop h (hd_or al None) vs fuel = Some (forallb (fun v => existsb (fun x => x =? v) l) vs).
Proof.
  intros dbl h al p l fuel vs H Hf. induction vs as [|v vs IH]; [reflexivity|].
  simpl. rewrite (chain_find _ _ _ _ _ _ _ H Hf).
  destruct (existsb (fun x => x =? v) l); [exact IH|reflexivity].
Qed.

(* ---------- single-cell updates ---------- *)
Lemma chain_frame_write : forall dbl h al p l n x c, ~ In x al ->
  fchain dbl h p al l n -> fchain dbl (hwrite h x c) p al l n.
Proof.
  intros dbl h al p l n x c Hnin H. apply (chain_frame _ _ _ h); [|exact H].
  intros a Ha. apply hread_other. intro He. subst. contradiction.
Qed.

(* value of one cell *)
Lemma chain_set_val : forall dbl h p a1 x a2 l1 v0 l2 n c v,
  fchain dbl h p (a1 ++ x :: a2) (l1 ++ v0 :: l2) n -> length a1 = length l1 ->
  NoDup (a1 ++ x :: a2) -> hread h x = Some c ->
  fchain dbl (hwrite h x (with_val v c)) p (a1 ++ x :: a2) (l1 ++ v :: l2) n.
Proof.
  intros dbl h p a1 x a2 l1 v0 l2 n c v H Hlen Hnd Hc.
  destruct (NoDup_mid _ _ _ Hnd) as (Hx1 & Hx2 & _).
  apply chain_app in H; [|exact Hlen]. destruct H as [H1 H2].
  apply chain_app; [exact Hlen|]. split.
  - apply chain_frame_write; assumption.
  - simpl in H2 |- *. destruct H2 as [(c' & Hc' & Hv & Hn & Hp) H2]. split.
    + exists (with_val v c). rewrite hread_same. rewrite Hc in Hc'. inversion Hc'; subst c'.
      repeat split; auto.
    + apply chain_frame_write; assumption.
Qed.

(* forward link of the last cell of a segment *)
Lemma chain_relink_next : forall dbl h p a0 b l n c n',
  fchain dbl h p (a0 ++ [b]) l n -> NoDup (a0 ++ [b]) -> hread h b = Some c ->
  fchain dbl (hwrite h b (with_next n' c)) p (a0 ++ [b]) l n'.
Proof.
  intros dbl h p a0 b l n c n' H Hnd Hc.
  destruct (NoDup_mid _ _ _ Hnd) as (Hb & _).
  pose proof (chain_length _ _ _ _ _ _ _ _ H) as Hlen. rewrite app_length in Hlen. simpl in Hlen.
  destruct (list_snoc_cases _ l) as [->|(l0 & v & ->)]; [simpl in Hlen; lia|].
  rewrite app_length in Hlen. simpl in Hlen.
  apply chain_app in H; [|lia]. destruct H as [H1 H2].
  apply chain_app; [lia|]. split.
  - apply chain_frame_write; assumption.
  - simpl in H2 |- *. destruct H2 as [(c' & Hc' & Hv & Hn & Hp) _]. split; [|exact I].
    exists (with_next n' c). rewrite hread_same. rewrite Hc in Hc'. inversion Hc'; subst c'.
    repeat split; auto.
Qed.

(* backward link of the first cell of a segment *)
Lemma chain_relink_prev : forall dbl h p y a2 l n c p',
  fchain dbl h p (y :: a2) l n -> NoDup (y :: a2) -> hread h y = Some c ->
  fchain dbl (hwrite h y (with_prev p' c)) p' (y :: a2) l n.
Proof.
  intros dbl h p y a2 l n c p' H Hnd Hc.
  inversion Hnd as [|y' l' Hnin Hnd']; subst.
  destruct l as [|v l]; simpl in H; [contradiction|].
  destruct H as [(c' & Hc' & Hv & Hn & Hp) H]. simpl. split.
  - exists (with_prev p' c). rewrite hread_same. rewrite Hc in Hc'. inversion Hc'; subst c'.
    repeat split; auto.
  - apply chain_frame_write; assumption.
Qed.

(* without backward links the `prev` parameter is irrelevant *)
Lemma chain_false_prev : forall h p p' al l n, fchain false h p al l n -> fchain false h p' al l n.
Proof.
  intros h p p' [|a al] [|v l] n H; simpl in H |- *; try contradiction; [exact I|].
  destruct H as [(c & Hc & Hv & Hn & _) H]. split; [|exact H].
  exists c. repeat split; auto. discriminate.
Qed.

(* a new cell linked behind the last cell of a segment *)
Lemma chain_snoc : forall dbl h h1 p a0 b l nxt0 cb n cn v,
  fchain dbl h p (a0 ++ [b]) l nxt0 -> NoDup (a0 ++ [b]) -> ~ In n (a0 ++ [b]) ->
  hread h b = Some cb ->
  (forall a, a <> n -> hread h1 a = hread h a) ->
  hread h1 n = Some cn -> cval cn = v -> cnext cn = None -> (dbl = true -> cprev cn = Some b) ->
  fchain dbl (hwrite h1 b (with_next (Some n) cb)) p ((a0 ++ [b]) ++ [n]) (l ++ [v]) None.
Proof.
  intros dbl h h1 p a0 b l nxt0 cb n cn v H Hnd Hn Hcb Hfr Hcn Hv Hnx Hpv.
  assert (Hbn : b <> n). { intro He. subst. apply Hn. apply in_or_app. right. left. reflexivity. }
  assert (H1 : fchain dbl h1 p (a0 ++ [b]) l nxt0).
  { apply (chain_frame _ _ _ h); [|exact H]. intros a Ha. apply Hfr. intro He. subst. contradiction. }
  apply chain_app; [exact (chain_length _ _ _ _ _ _ _ _ H)|]. split.
  - simpl hd_or. apply (chain_relink_next _ _ _ _ _ _ nxt0); [exact H1|exact Hnd|].
    rewrite Hfr by exact Hbn. exact Hcb.
  - rewrite last_or_snoc. simpl. split; [|exact I].
    exists cn. rewrite hread_other by congruence. repeat split; auto.
Qed.

(* ================= the representation predicate ================= *)
Definition repr (dbl : bool) (d : llist) (l : list Z) : Prop :=
  exists al, NoDup al /\ Forall (fun a => (a < lnext_addr d)%nat) al /\
    fchain dbl (lheap d) None al l None /\
    lfirst d = hd_or al None /\ llast d = last_or al None /\ lsize d = zlen l.
Definition repr_sll := repr false.
Definition repr_dll := repr true.

Ltac lsimpl := cbn [lheap lfirst llast lsize lnext_addr set_heap set_first set_last set_size alloc c_clear fst snd].
Ltac lsimpl_in H := cbn [lheap lfirst llast lsize lnext_addr set_heap set_first set_last set_size alloc c_clear fst snd] in H.

Lemma repr_dll_sll : forall d l, repr_dll d l -> repr_sll d l.
Proof.
  intros d l (al & Hnd & Hlt & Hch & Hr). exists al. repeat split; try tauto.
  exact (chain_weaken _ _ _ _ _ _ _ _ Hch).
Qed.

Lemma repr_empty : forall dbl, repr dbl empty_llist [].
Proof. intros dbl. exists []. simpl. repeat split; constructor. Qed.

Lemma repr_clear : forall dbl d, repr dbl (c_clear d) [].
Proof. intros dbl d. exists []. simpl. repeat split; constructor. Qed.

Lemma c_within_eq : forall d (l : list Z) i, lsize d = zlen l -> c_within d i = within i l.
Proof. intros d l i Hs. unfold c_within, within. rewrite Hs. reflexivity. Qed.

Lemma Forall_lt_S : forall al n, Forall (fun a => (a < n)%nat) al -> Forall (fun a => (a < S n)%nat) al.
Proof. intros al n H. eapply Forall_impl; [|exact H]. simpl. intros a Ha. lia. Qed.
Lemma Forall_lt_notin : forall al n, Forall (fun a => (a < n)%nat) al -> ~ In n al.
Proof. intros al n H Hin. rewrite Forall_forall in H. specialize (H _ Hin). lia. Qed.

Lemma foldM_ok : forall (R : llist -> list Z -> Prop) (f : llist -> Z -> option llist) (g : list Z -> Z -> list Z),
  (forall d l v, R d l -> exists d', f d v = Some d' /\ R d' (g l v)) ->
  forall vs d l, R d l -> exists d', foldM f vs d = Some d' /\ R d' (fold_left g vs l).
Proof.
  intros R f g Hstep. induction vs as [|v vs IH]; intros d l HR; simpl.
  - exists d. auto.
  - destruct (Hstep d l v HR) as (d1 & -> & HR1). exact (IH _ _ HR1).
Qed.

(* ---------- Add ---------- *)
Definition gadd1 (pvn : option nat) (d : llist) (v : Z) : option llist :=
  let '(d1, ne) := alloc d {| cval := v; cnext := None; cprev := pvn |} in
  if lsize d1 =? 0 then Some (set_size (set_last (set_first d1 ne) ne) (lsize d1 + 1))
  else match store (lheap d1) (llast d1) (with_next ne) with
       | Some h => Some (set_size (set_last (set_heap d1 h) ne) (lsize d1 + 1))
       | None => None
       end.

Lemma gadd1_ok : forall dbl pvn d l v, repr dbl d l -> (dbl = true -> pvn = llast d) ->
  exists d', gadd1 pvn d v = Some d' /\ repr dbl d' (l ++ [v]).
Proof.
  intros dbl pvn d l v (al & Hnd & Hlt & Hch & Hf & Hl & Hs) Hp.
  unfold gadd1. lsimpl. rewrite Hs.
  destruct (list_snoc_cases _ al) as [->|(a0 & b & ->)].
  - destruct l as [|w l]; [|simpl in Hch; contradiction].
    change (zlen (@nil Z)) with 0. simpl (0 =? 0).
    eexists. split; [reflexivity|].
    exists [lnext_addr d]. lsimpl. repeat split.
    + constructor; [intros []|constructor].
    + constructor; [lia|constructor].
    + eexists. rewrite hread_same. repeat split. simpl. intro Hd. rewrite (Hp Hd), Hl. reflexivity.
  - pose proof (chain_length _ _ _ _ _ _ _ _ Hch) as Hlen.
    rewrite app_length in Hlen. simpl in Hlen.
    assert (Hz : zlen l =? 0 = false). { apply Z.eqb_neq. unfold zlen. lia. }
    rewrite Hz. rewrite Hl, last_or_snoc.
    assert (Hb : exists cb, hread (lheap d) b = Some cb).
    { destruct (list_snoc_cases _ l) as [->|(l0 & w & ->)]; [simpl in Hlen; lia|].
      rewrite app_length in Hlen. simpl in Hlen.
      apply chain_app in Hch; [|lia]. destruct Hch as [_ [(cb & Hcb & _) _]]. exists cb. exact Hcb. }
    destruct Hb as (cb & Hcb).
    pose proof (Forall_lt_notin _ _ Hlt) as Hfresh.
    assert (Hbn : b <> lnext_addr d).
    { intro He. apply Hfresh. rewrite <- He. apply in_or_app. right. left. reflexivity. }
    rewrite (store_some _ _ cb); [|rewrite hread_other by exact Hbn; exact Hcb].
    eexists. split; [reflexivity|].
    exists ((a0 ++ [b]) ++ [lnext_addr d]). lsimpl. repeat split.
    + apply NoDup_app_intro; [exact Hnd|constructor; [intros []|constructor]|].
      intros y Hy [He|[]]. subst. contradiction.
    + apply Forall_app. split; [apply Forall_lt_S; exact Hlt|constructor; [lia|constructor]].
    + eapply chain_snoc; try eassumption.
      * intros a Ha. apply hread_other. exact Ha.
      * apply hread_same.
      * reflexivity.
      * reflexivity.
      * simpl. intro Hd. rewrite (Hp Hd), Hl, last_or_snoc. reflexivity.
    + rewrite Hf, !hd_or_app. reflexivity.
    + rewrite last_or_snoc. reflexivity.
    + rewrite zlen_app'. reflexivity.
Qed.

Lemma csll_add1_eq : forall d v, csll_add1 d v = gadd1 None d v.
Proof. reflexivity. Qed.
Lemma cdll_add1_eq : forall d v, cdll_add1 d v = gadd1 (llast d) d v.
Proof. reflexivity. Qed.

Theorem csll_add_ok : forall d l vs, repr_sll d l ->
  exists d', csll_add d vs = Some d' /\ repr_sll d' (sll_add vs l).
Proof.
  intros d l vs H. unfold csll_add, sll_add.
  apply (foldM_ok (repr false) csll_add1 (fun acc v => acc ++ [v])); [|exact H].
  intros d0 l0 v H0. rewrite csll_add1_eq. apply gadd1_ok; [exact H0|discriminate].
Qed.

Theorem cdll_add_ok : forall d l vs, repr_dll d l ->
  exists d', cdll_add d vs = Some d' /\ repr_dll d' (dll_add vs l).
Proof.
  intros d l vs H. unfold cdll_add, dll_add, sll_add.
  apply (foldM_ok (repr true) cdll_add1 (fun acc v => acc ++ [v])); [|exact H].
  intros d0 l0 v H0. rewrite cdll_add1_eq. apply gadd1_ok; [exact H0|reflexivity].
Qed.

(* ---------- Prepend ---------- *)
Lemma chain_cases : forall dbl h p al l n, fchain dbl h p al l n ->
  (al = [] /\ l = []) \/ (exists a al' v l', al = a :: al' /\ l = v :: l').
Proof.
  intros dbl h p [|a al] [|v l] n H; simpl in H; try contradiction.
  - left. auto.
  - right. exists a, al, v, l. auto.
Qed.

Lemma zlen_nil' : forall A, zlen (@nil A) = 0.
Proof. reflexivity. Qed.
Lemma zlen_cons_nz : forall A (x : A) l, zlen (x :: l) =? 0 = false.
Proof. intros A x l. apply Z.eqb_neq. rewrite zlen_cons'. unfold zlen. lia. Qed.

Ltac rsplit := split; [|split; [|split; [|split; [|split]]]].

Lemma csll_prepend1_ok : forall d l v, repr false d l ->
  exists d', csll_prepend1 d v = Some d' /\ repr false d' (v :: l).
Proof.
  intros d l v (al & Hnd & Hlt & Hch & Hf & Hl & Hs).
  unfold csll_prepend1. lsimpl. eexists. split; [reflexivity|].
  pose proof (Forall_lt_notin _ _ Hlt) as Hfresh.
  exists (lnext_addr d :: al).
  assert (Hc : fchain false (hwrite (lheap d) (lnext_addr d) {| cval := v; cnext := lfirst d; cprev := None |})
                 None (lnext_addr d :: al) (v :: l) None).
  { simpl. split.
    - eexists. rewrite hread_same. repeat split; auto; discriminate.
    - apply chain_frame_write; [exact Hfresh|]. exact (chain_false_prev _ _ _ _ _ _ Hch). }
  destruct (chain_cases _ _ _ _ _ _ Hch) as [[-> ->]|(a & al' & w & l' & -> & ->)].
  - rewrite Hs. change (zlen (@nil Z) =? 0) with true. lsimpl. rsplit.
    + constructor; [exact Hfresh|exact Hnd].
    + constructor; [lia|constructor].
    + exact Hc.
    + reflexivity.
    + reflexivity.
    + reflexivity.
  - rewrite Hs, zlen_cons_nz. lsimpl. rsplit.
    + constructor; [exact Hfresh|exact Hnd].
    + constructor; [lia|apply Forall_lt_S; exact Hlt].
    + exact Hc.
    + reflexivity.
    + exact Hl.
    + rewrite (zlen_cons' _ v). reflexivity.
Qed.

Theorem csll_prepend_ok : forall d l vs, repr_sll d l ->
  exists d', csll_prepend d vs = Some d' /\ repr_sll d' (sll_prepend vs l).
Proof.
  intros d l vs H. unfold csll_prepend, sll_prepend.
  apply (foldM_ok (repr false) csll_prepend1 (fun acc v => v :: acc)); [|exact H].
  intros d0 l0 v H0. apply csll_prepend1_ok. exact H0.
Qed.

Lemma cdll_prepend1_ok : forall d l v, repr true d l ->
  exists d', cdll_prepend1 d v = Some d' /\ repr true d' (v :: l).
Proof.
  intros d l v (al & Hnd & Hlt & Hch & Hf & Hl & Hs).
  unfold cdll_prepend1. lsimpl.
  pose proof (Forall_lt_notin _ _ Hlt) as Hfresh.
  destruct (chain_cases _ _ _ _ _ _ Hch) as [[-> ->]|(a & al' & w & l' & -> & ->)].
  - rewrite Hs. change (zlen (@nil Z) =? 0) with true. lsimpl.
    eexists. split; [reflexivity|].
    exists [lnext_addr d]. lsimpl. rsplit.
    + constructor; [exact Hfresh|exact Hnd].
    + constructor; [lia|constructor].
    + simpl. split; [|exact I]. eexists. rewrite hread_same. repeat split; auto.
    + reflexivity.
    + reflexivity.
    + reflexivity.
  - rewrite Hs, zlen_cons_nz. rewrite Hf. simpl hd_or.
    assert (Han : a <> lnext_addr d). { intro He. apply Hfresh. left. exact He. }
    pose proof Hch as Hch0. simpl in Hch0. destruct Hch0 as [(ca & Hca & _) _].
    rewrite (store_some _ _ ca); [|rewrite hread_other by exact Han; exact Hca].
    eexists. split; [reflexivity|].
    exists (lnext_addr d :: a :: al'). lsimpl. rsplit.
    + constructor; [exact Hfresh|exact Hnd].
    + constructor; [lia|apply Forall_lt_S; exact Hlt].
    + change (cell_ok true cnext cprev
               (hwrite (hwrite (lheap d) (lnext_addr d) {| cval := v; cnext := Some a; cprev := None |})
                  a (with_prev (Some (lnext_addr d)) ca)) None (lnext_addr d) v (Some a) /\
              fchain true (hwrite (hwrite (lheap d) (lnext_addr d) {| cval := v; cnext := Some a; cprev := None |})
                  a (with_prev (Some (lnext_addr d)) ca)) (Some (lnext_addr d)) (a :: al') (w :: l') None).
      split.
      * eexists. rewrite hread_other by congruence. rewrite hread_same. repeat split; auto.
      * apply (chain_relink_prev _ _ None); [|exact Hnd|rewrite hread_other by exact Han; exact Hca].
        apply chain_frame_write; [exact Hfresh|exact Hch].
    + reflexivity.
    + exact Hl.
    + rewrite (zlen_cons' _ v). reflexivity.
Qed.

Theorem cdll_prepend_ok : forall d l vs, repr_dll d l ->
  exists d', cdll_prepend d vs = Some d' /\ repr_dll d' (dll_prepend vs l).
Proof.
  intros d l vs H. unfold cdll_prepend, dll_prepend, sll_prepend.
  apply (foldM_ok (repr true) cdll_prepend1 (fun acc v => v :: acc)); [|exact H].
  intros d0 l0 v H0. apply cdll_prepend1_ok. exact H0.
Qed.

(* ---------- observers shared by the two lists ---------- *)
Lemma to_nat_zlen : forall A (l : list A), Z.to_nat (zlen l) = length l.
Proof. intros A l. unfold zlen. apply Nat2Z.id. Qed.
Lemma zlen_ltb0 : forall A (l : list A), zlen l <? 0 = false.
Proof. intros A l. apply Z.ltb_ge. unfold zlen. lia. Qed.

Lemma ptr_eqb_refl : forall p, ptr_eqb p p = true.
Proof. intros [a|]; simpl; [apply Nat.eqb_refl|reflexivity]. Qed.
Lemma ptr_eqb_notin : forall x z (al : list nat), In z al -> ~ In x al -> ptr_eqb (Some x) (Some z) = false.
Proof. intros x z al Hz Hx. simpl. apply Nat.eqb_neq. intro He. subst. contradiction. Qed.
Lemma ptr_eqb_hd_false : forall x a1 d, a1 <> [] -> ~ In x a1 -> ptr_eqb (Some x) (hd_or a1 d) = false.
Proof.
  intros x [|a a1] d Hne Hx; [congruence|]. simpl hd_or.
  apply (ptr_eqb_notin _ _ (a :: a1)); [left; reflexivity|exact Hx].
Qed.
Lemma ptr_eqb_last_false : forall x a2 d, a2 <> [] -> ~ In x a2 -> ptr_eqb (Some x) (last_or a2 d) = false.
Proof.
  intros x a2 d Hne Hx. destruct (last_or_In a2 d Hne) as (b & -> & Hb).
  exact (ptr_eqb_notin _ _ _ Hb Hx).
Qed.

Lemma NoDup_lt_length : forall al n, NoDup al -> Forall (fun a => (a < n)%nat) al -> (length al <= n)%nat.
Proof.
  intros al n Hnd Hlt. rewrite <- (seq_length n 0).
  apply NoDup_incl_length; [exact Hnd|].
  intros a Ha. rewrite Forall_forall in Hlt. apply in_seq. specialize (Hlt _ Ha). lia.
Qed.

Theorem c_values_ok : forall dbl d l, repr dbl d l -> c_values d = Some l.
Proof.
  intros dbl d l (al & Hnd & Hlt & Hch & Hf & Hl & Hs).
  unfold c_values. rewrite Hs, zlen_ltb0, to_nat_zlen, Hf.
  rewrite <- (chain_length _ _ _ _ _ _ _ _ Hch). exact (chain_values _ _ _ _ _ Hch).
Qed.

Theorem c_contains_ok : forall dbl d l vs, repr dbl d l -> c_contains d vs = Some (sll_contains vs l).
Proof.
  intros dbl d l vs (al & Hnd & Hlt & Hch & Hf & Hl & Hs).
  unfold c_contains, sll_contains. destruct vs as [|v vs]; [reflexivity|].
  rewrite Hs. destruct l as [|w l]; [reflexivity|]. rewrite zlen_cons_nz, Hf.
  apply (chain_contains _ _ _ _ _ _ _ Hch).
  pose proof (NoDup_lt_length _ _ Hnd Hlt). lia.
Qed.

Theorem c_index_of_ok : forall dbl d l v, repr dbl d l -> c_index_of d v = Some (sll_index_of v l).
Proof.
  intros dbl d l v H. unfold c_index_of, sll_index_of.
  rewrite (c_values_ok _ _ _ H). destruct H as (al & _ & _ & _ & _ & _ & Hs). rewrite Hs.
  destruct l as [|w l]; [reflexivity|]. rewrite zlen_cons_nz. reflexivity.
Qed.

Theorem walk_fwd_ok : forall dbl d l, repr dbl d l -> walk_fwd d = Some l.
Proof.
  intros dbl d l (al & Hnd & Hlt & Hch & Hf & Hl & Hs).
  unfold walk_fwd. rewrite Hs, zlen_ltb0, to_nat_zlen, Hf, Hl.
  rewrite <- (chain_length _ _ _ _ _ _ _ _ Hch).
  rewrite (chain_walk_cells _ _ _ _ _ _ _ None Hch). simpl fst. simpl snd.
  rewrite ptr_eqb_refl. reflexivity.
Qed.

Theorem walk_bwd_ok : forall d l, repr_dll d l -> walk_bwd d = Some (rev l).
Proof.
  intros d l (al & Hnd & Hlt & Hch & Hf & Hl & Hs).
  unfold walk_bwd. rewrite Hs, zlen_ltb0, to_nat_zlen, Hf, Hl.
  rewrite <- (chain_length _ _ _ _ _ _ _ _ Hch).
  apply chain_rev in Hch.
  rewrite <- hd_or_rev, <- (rev_length al).
  rewrite (chain_walk_cells _ _ _ _ _ _ _ None Hch). simpl fst. simpl snd.
  rewrite last_or_rev, ptr_eqb_refl. reflexivity.
Qed.

(* ---------- locating the cell of a valid index ---------- *)
Lemma chain_mid_cell : forall dbl h p a1 x a2 l1 v l2 n,
  fchain dbl h p (a1 ++ x :: a2) (l1 ++ v :: l2) n -> length a1 = length l1 ->
  cell_ok dbl cnext cprev h (last_or a1 p) x v (hd_or a2 n).
Proof.
  intros dbl h p a1 x a2 l1 v l2 n H Hlen. apply chain_app in H; [|exact Hlen].
  destruct H as [_ H]. simpl in H. tauto.
Qed.

Lemma chain_split_within : forall dbl h p al l n i, fchain dbl h p al l n -> within i l = true ->
  exists a1 x a2 l1 v l2, al = a1 ++ x :: a2 /\ l = l1 ++ v :: l2 /\
    length a1 = Z.to_nat i /\ length l1 = Z.to_nat i.
Proof.
  intros dbl h p al l n i H W. apply within_spec in W.
  apply (chain_split_at _ _ _ _ _ _ _ _ (Z.to_nat i) H).
  rewrite (chain_length _ _ _ _ _ _ _ _ H). unfold zlen in W. lia.
Qed.

(* ---------- Get, Set (singly linked) ---------- *)
Theorem csll_get_ok : forall d l i, repr_sll d l -> csll_get d i = Some (sll_get i l).
Proof.
  intros d l i (al & Hnd & Hlt & Hch & Hf & Hl & Hs).
  unfold csll_get, sll_get. rewrite (c_within_eq _ l) by exact Hs.
  destruct (within i l) eqn:W; simpl negb; cbv iota; [|reflexivity].
  destruct (chain_split_within _ _ _ _ _ _ _ Hch W) as (a1 & x & a2 & l1 & v & l2 & -> & -> & Ha1 & Hl1).
  rewrite Hf, <- Ha1, (chain_walk _ _ _ _ _ _ _ _ _ Hch).
  destruct (chain_mid_cell _ _ _ _ _ _ _ _ _ _ Hch) as (c & Hc & Hv & _); [lia|].
  simpl. rewrite Hc, Hv. rewrite nth_error_exact by lia. reflexivity.
Qed.

Lemma repr_set_val : forall dbl d a1 x a2 l1 v0 l2 v,
  NoDup (a1 ++ x :: a2) -> Forall (fun a => (a < lnext_addr d)%nat) (a1 ++ x :: a2) ->
  fchain dbl (lheap d) None (a1 ++ x :: a2) (l1 ++ v0 :: l2) None ->
  lfirst d = hd_or (a1 ++ x :: a2) None -> llast d = last_or (a1 ++ x :: a2) None ->
  lsize d = zlen (l1 ++ v0 :: l2) -> length a1 = length l1 ->
  exists h, store (lheap d) (Some x) (with_val v) = Some h /\ repr dbl (set_heap d h) (l1 ++ v :: l2).
Proof.
  intros dbl d a1 x a2 l1 v0 l2 v Hnd Hlt Hch Hf Hl Hs Hlen.
  destruct (chain_mid_cell _ _ _ _ _ _ _ _ _ _ Hch Hlen) as (c & Hc & _).
  rewrite (store_some _ _ c _ Hc). eexists. split; [reflexivity|].
  exists (a1 ++ x :: a2). lsimpl. rsplit; try assumption.
  - apply (chain_set_val _ _ _ _ _ _ _ v0); assumption.
  - rewrite Hs, !zlen_app', !zlen_cons'. reflexivity.
Qed.

Theorem csll_set_ok : forall d l i v, repr_sll d l ->
  exists d', csll_set d i v = Some d' /\ repr_sll d' (sll_set i v l).
Proof.
  intros d l i v H. pose proof H as (al & Hnd & Hlt & Hch & Hf & Hl & Hs).
  unfold csll_set, sll_set. rewrite (c_within_eq _ l) by exact Hs.
  destruct (within i l) eqn:W; simpl negb; cbv iota.
  - destruct (chain_split_within _ _ _ _ _ _ _ Hch W) as (a1 & x & a2 & l1 & v0 & l2 & -> & -> & Ha1 & Hl1).
    rewrite Hf, <- Ha1, (chain_walk _ _ _ _ _ _ _ _ _ Hch). simpl hd_or.
    destruct (repr_set_val _ _ _ _ _ _ _ _ v Hnd Hlt Hch Hf Hl Hs) as (h & -> & Hr); [lia|].
    eexists. split; [reflexivity|]. rewrite Ha1, upd_exact by lia. exact Hr.
  - rewrite Hs. destruct (i =? zlen l).
    + apply csll_add_ok. exact H.
    + exists d. split; [reflexivity|exact H].
Qed.

(* ---------- Remove (singly linked) ---------- *)
Lemma last_or_nonempty : forall al d d', al <> [] -> last_or al d = last_or al d'.
Proof. intros [|a al] d d' Hne; [congruence|reflexivity]. Qed.
Lemma snoc_not_nil : forall A (a0 : list A) b, a0 ++ [b] <> [].
Proof. intros A [|a a0] b; discriminate. Qed.

Lemma chain_last_cell : forall dbl h p a0 b l n, fchain dbl h p (a0 ++ [b]) l n ->
  exists cb, hread h b = Some cb /\ cnext cb = n.
Proof.
  intros dbl h p a0 b l n H.
  pose proof (chain_length _ _ _ _ _ _ _ _ H) as Hlen. rewrite app_length in Hlen. simpl in Hlen.
  destruct (list_snoc_cases _ l) as [->|(l0 & w & ->)]; [simpl in Hlen; lia|].
  rewrite app_length in Hlen. simpl in Hlen.
  apply chain_app in H; [|lia]. destruct H as [_ [(cb & Hcb & _ & Hn & _) _]].
  exists cb. auto.
Qed.

Lemma relink_next_opt : forall dbl h p a1 l1 n n', fchain dbl h p a1 l1 n -> NoDup a1 ->
  exists h', (if is_nil (last_or a1 None) then Some h else store h (last_or a1 None) (with_next n')) = Some h' /\
    fchain dbl h' p a1 l1 n' /\ (forall a, ~ In a a1 -> hread h' a = hread h a).
Proof.
  intros dbl h p a1 l1 n n' H Hnd.
  destruct (list_snoc_cases _ a1) as [->|(a0 & b & ->)].
  - simpl. exists h. split; [reflexivity|]. split; [|auto].
    destruct l1; simpl in H |- *; tauto.
  - rewrite last_or_snoc. simpl is_nil. cbv iota.
    destruct (chain_last_cell _ _ _ _ _ _ _ H) as (cb & Hcb & _).
    rewrite (store_some _ _ cb _ Hcb). eexists. split; [reflexivity|]. split.
    + apply (chain_relink_next _ _ _ _ _ _ n); assumption.
    + intros a Ha. apply hread_other. intro He. subst. apply Ha. apply in_or_app. right. left. reflexivity.
Qed.

Lemma relink_prev_opt : forall dbl h p a2 l2 n p', fchain dbl h p a2 l2 n -> NoDup a2 ->
  exists h', (if is_nil (hd_or a2 None) then Some h else store h (hd_or a2 None) (with_prev p')) = Some h' /\
    fchain dbl h' p' a2 l2 n /\ (forall a, ~ In a a2 -> hread h' a = hread h a).
Proof.
  intros dbl h p a2 l2 n p' H Hnd.
  destruct a2 as [|y a2].
  - simpl. exists h. split; [reflexivity|]. split; [|auto].
    destruct l2; simpl in H |- *; tauto.
  - simpl hd_or. simpl is_nil. cbv iota.
    assert (Hy : exists cy, hread h y = Some cy).
    { destruct l2 as [|w l2]; simpl in H; [contradiction|]. destruct H as [(cy & Hcy & _) _]. exists cy. exact Hcy. }
    destruct Hy as (cy & Hcy).
    rewrite (store_some _ _ cy _ Hcy). eexists. split; [reflexivity|]. split.
    + apply (chain_relink_prev _ _ p); assumption.
    + intros a Ha. apply hread_other. intro He. subst. apply Ha. left. reflexivity.
Qed.

Lemma zlen_mid_minus : forall (l1 : list Z) v l2, zlen (l1 ++ v :: l2) - 1 = zlen (l1 ++ l2).
Proof. intros l1 v l2. rewrite !zlen_app', zlen_cons'. lia. Qed.

Lemma Forall_mid_remove : forall (P : nat -> Prop) a1 x a2, Forall P (a1 ++ x :: a2) -> Forall P (a1 ++ a2).
Proof.
  intros P a1 x a2 H. apply Forall_app in H. destruct H as [H1 H2].
  apply Forall_app. split; [exact H1|]. inversion H2; assumption.
Qed.
Lemma NoDup_mid_remove : forall (a1 : list nat) x a2, NoDup (a1 ++ x :: a2) -> NoDup (a1 ++ a2).
Proof. intros a1 x a2 H. exact (NoDup_remove_1 _ _ _ H). Qed.

Theorem csll_remove_ok : forall d l i, repr_sll d l ->
  exists d', csll_remove d i = Some d' /\ repr_sll d' (sll_remove i l).
Proof.
  intros d l i H. pose proof H as (al & Hnd & Hlt & Hch & Hf & Hl & Hs).
  unfold csll_remove, sll_remove. rewrite (c_within_eq _ l) by exact Hs.
  destruct (within i l) eqn:W; simpl negb; cbv iota.
  2: { exists d. split; [reflexivity|exact H]. }
  rewrite Hs. destruct (zlen l =? 1) eqn:E1.
  { eexists. split; [reflexivity|]. apply repr_clear. }
  destruct (chain_split_within _ _ _ _ _ _ _ Hch W) as (a1 & x & a2 & l1 & v & l2 & -> & -> & Ha1 & Hl1).
  rewrite firstn_exact, skipn_S_exact by lia.
  rewrite Hf, <- Ha1. rewrite (chain_walk_track _ _ _ _ _ _ _ None Hch). simpl hd_or.
  destruct (NoDup_mid _ _ _ Hnd) as (Hx1 & Hx2 & Hnd1 & Hnd2 & Hdisj).
  pose proof Hch as Hch'. apply chain_app in Hch'; [|lia]. destruct Hch' as [Hc1 Hc2].
  simpl in Hc2. destruct Hc2 as [(cx & Hcx & Hvx & Hnx & _) Hc2].
  pose proof (chain_length _ _ _ _ _ _ _ _ Hc2) as Hlen2.
  destruct (relink_next_opt _ _ _ _ _ _ (hd_or a2 None) Hc1 Hnd1) as (h' & Hh' & Hc1' & Hfr).
  assert (Hc2' : fchain false h' (last_or a1 None) a2 l2 None).
  { apply (chain_false_prev _ (Some x)). apply (chain_frame _ _ _ (lheap d)); [|exact Hc2].
    intros a Ha. apply Hfr. intro Ha1'. exact (Hdisj a Ha1' Ha). }
  assert (Hjoin : fchain false h' None (a1 ++ a2) (l1 ++ l2) None).
  { apply chain_app; [lia|]. split; assumption. }
  cbn [deref]. rewrite hd_or_app. rewrite last_or_app in Hl. simpl last_or in Hl.
  destruct a1 as [|a a1'].
  - (* the first element *)
    simpl hd_or. rewrite ptr_eqb_refl, Hcx. lsimpl. simpl is_nil. cbv iota.
    assert (Hne2 : a2 <> []).
    { intro He. subst a2. destruct l2; [|discriminate Hlen2].
      destruct l1; [|simpl in Ha1, Hl1; lia].
      unfold zlen in E1. simpl in E1. discriminate E1. }
    rewrite Hl, ptr_eqb_last_false by assumption.
    simpl in Hh'. inversion Hh'; subst h'.
    eexists. split; [reflexivity|]. exists a2. lsimpl. rsplit.
    + exact Hnd2.
    + apply Forall_app in Hlt. destruct Hlt as [_ Hlt]. inversion Hlt; assumption.
    + exact Hjoin.
    + exact Hnx.
    + rewrite Hl. apply last_or_nonempty. exact Hne2.
    + rewrite Hs. apply zlen_mid_minus.
  - (* not the first element *)
    rewrite ptr_eqb_hd_false; [|discriminate|exact Hx1].
    destruct (last_or_In (a :: a1') None) as (b & Hb & Hbin); [discriminate|].
    rewrite Hb in Hh' |- *. simpl is_nil in Hh' |- *. cbv iota in Hh'.
    destruct a2 as [|y a2'].
    + rewrite Hl. simpl last_or. rewrite ptr_eqb_refl. lsimpl. rewrite Hcx, Hnx, Hh'.
      eexists. split; [reflexivity|]. exists ((a :: a1') ++ []). lsimpl. rsplit.
      * exact (NoDup_mid_remove _ _ _ Hnd).
      * exact (Forall_mid_remove _ _ _ _ Hlt).
      * exact Hjoin.
      * rewrite Hf. reflexivity.
      * rewrite app_nil_r. symmetry. exact Hb.
      * rewrite Hs. apply zlen_mid_minus.
    + rewrite Hl, ptr_eqb_last_false; [|discriminate|exact Hx2]. lsimpl. rewrite Hcx, Hnx, Hh'.
      eexists. split; [reflexivity|]. exists ((a :: a1') ++ y :: a2'). lsimpl. rsplit.
      * exact (NoDup_mid_remove _ _ _ Hnd).
      * exact (Forall_mid_remove _ _ _ _ Hlt).
      * exact Hjoin.
      * rewrite Hf. reflexivity.
      * rewrite Hl, last_or_app. reflexivity.
      * rewrite Hs. apply zlen_mid_minus.
Qed.

(* ================= the representation with the addresses exposed ================= *)
Definition repr_al (dbl : bool) (d : llist) (al : list nat) (l : list Z) : Prop :=
  NoDup al /\ Forall (fun a => (a < lnext_addr d)%nat) al /\
  fchain dbl (lheap d) None al l None /\
  lfirst d = hd_or al None /\ llast d = last_or al None /\ lsize d = zlen l.

Lemma repr_al_intro : forall dbl d al l, repr_al dbl d al l -> repr dbl d l.
Proof. intros dbl d al l H. exists al. exact H. Qed.

Lemma nth_error_split_len : forall A (al : list A) (B : Type) (l : list B) k x, length al = length l ->
  nth_error al k = Some x ->
  exists a1 a2 l1 v l2, al = a1 ++ x :: a2 /\ l = l1 ++ v :: l2 /\ length a1 = k /\ length l1 = k.
Proof.
  intros A al B l k x Hlen Hx.
  assert (Hk : (k < length al)%nat). { apply nth_error_Some. congruence. }
  destruct (nth_error l k) as [v|] eqn:Ev; [|apply nth_error_None in Ev; lia].
  apply nth_error_split in Hx. destruct Hx as (a1 & a2 & -> & H1).
  apply nth_error_split in Ev. destruct Ev as (l1 & l2 & -> & H2).
  exists a1, a2, l1, v, l2. auto.
Qed.

Lemma app_eq_len : forall A (a1 a2 b1 b2 : list A), a1 ++ a2 = b1 ++ b2 -> length a1 = length b1 ->
  a1 = b1 /\ a2 = b2.
Proof.
  intros A. induction a1 as [|a a1 IH]; intros a2 [|b b1] b2 He Hl; simpl in Hl; try discriminate.
  - auto.
  - simpl in He. inversion He; subst. destruct (IH _ _ _ H1) as [-> ->]; [lia|]. auto.
Qed.

(* overwrite the value of the cell at a given position *)
Lemma repr_al_set_val : forall dbl d al l k x v, repr_al dbl d al l -> nth_error al k = Some x ->
  exists h c, hread (lheap d) x = Some c /\ nth_error l k = Some (cval c) /\
    store (lheap d) (Some x) (with_val v) = Some h /\ repr_al dbl (set_heap d h) al (upd k v l).
Proof.
  intros dbl d al l k x v (Hnd & Hlt & Hch & Hf & Hl & Hs) Hx.
  destruct (nth_error_split_len _ al _ l k x (chain_length _ _ _ _ _ _ _ _ Hch) Hx)
    as (a1 & a2 & l1 & v0 & l2 & -> & -> & Ha1 & Hl1).
  destruct (chain_mid_cell _ _ _ _ _ _ _ _ _ _ Hch) as (c & Hc & Hv & _); [lia|].
  exists (hwrite (lheap d) x (with_val v c)), c. split; [exact Hc|]. split.
  - rewrite nth_error_exact by exact Hl1. rewrite Hv. reflexivity.
  - split; [apply store_some; exact Hc|].
    rewrite upd_exact by exact Hl1. unfold repr_al. lsimpl. rsplit; try assumption.
    + apply (chain_set_val _ _ _ _ _ _ _ v0); try assumption. lia.
    + rewrite Hs, !zlen_app', !zlen_cons'. reflexivity.
Qed.

(* ---------- Swap ---------- *)
Lemma swap_loop_S : forall h i j e cur e1 e2 f,
  swap_loop h i j e cur e1 e2 (S f) =
  if is_nil e1 || is_nil e2 then
    match deref h cur with
    | Some c => swap_loop h i j (e + 1) (cnext c) (if e =? i then cur else e1)
                  (if e =? i then e2 else if e =? j then cur else e2) f
    | None => None
    end
  else Some (e1, e2).
Proof. reflexivity. Qed.

Lemma swap_loop_done : forall h i j e cur x y fuel,
  swap_loop h i j e cur (Some x) (Some y) fuel = Some (Some x, Some y).
Proof. intros h i j e cur x y [|f]; reflexivity. Qed.

Lemma nth_error_in_range : forall A (l : list A) i, 0 <= i < zlen l -> exists x, nth_error l (Z.to_nat i) = Some x.
Proof.
  intros A l i Hi. destruct (nth_error l (Z.to_nat i)) as [x|] eqn:E; [exists x; reflexivity|].
  apply nth_error_None in E. unfold zlen in Hi. lia.
Qed.

Lemma swap_loop_ok : forall dbl h i j post pre p l fuel e1 e2,
  fchain dbl h p (pre ++ post) l None ->
  0 <= i < zlen (pre ++ post) -> 0 <= j < zlen (pre ++ post) -> i <> j ->
  e1 = (if i <? zlen pre then nth_error (pre ++ post) (Z.to_nat i) else None) ->
  e2 = (if j <? zlen pre then nth_error (pre ++ post) (Z.to_nat j) else None) ->
  (length post < fuel)%nat ->
  swap_loop h i j (zlen pre) (hd_or post None) e1 e2 fuel =
    Some (nth_error (pre ++ post) (Z.to_nat i), nth_error (pre ++ post) (Z.to_nat j)).
Proof.
  intros dbl h i j. induction post as [|c post IH]; intros pre p l fuel e1 e2 Hch Hi Hj Hij He1 He2 Hfuel.
  - destruct (nth_error_in_range _ _ _ Hi) as (x & Hx). destruct (nth_error_in_range _ _ _ Hj) as (y & Hy).
    rewrite app_nil_r in Hi, Hj.
    assert (Ei : i <? zlen pre = true) by (apply Z.ltb_lt; lia).
    assert (Ej : j <? zlen pre = true) by (apply Z.ltb_lt; lia).
    rewrite Ei, Hx in He1. rewrite Ej, Hy in He2. subst e1 e2. rewrite Hx, Hy. apply swap_loop_done.
  - destruct (nth_error_in_range _ _ _ Hi) as (x & Hx). destruct (nth_error_in_range _ _ _ Hj) as (y & Hy).
    destruct fuel as [|f]; [simpl in Hfuel; lia|].
    rewrite swap_loop_S.
    assert (Hcell : exists cc, hread h c = Some cc /\ cnext cc = hd_or post None).
    { pose proof (chain_length _ _ _ _ _ _ _ _ Hch) as Hlen.
      destruct (nth_error_split_len _ (pre ++ c :: post) _ l (length pre) c Hlen (nth_error_exact _ _ _ _ _ eq_refl))
        as (a1 & a2 & l1 & v & l2 & Ha & -> & Ha1 & Hl1).
      apply app_eq_len in Ha; [|lia]. destruct Ha as [<- Ha]. inversion Ha; subst a2.
      destruct (chain_mid_cell _ _ _ _ _ _ _ _ _ _ Hch) as (cc & Hcc & _ & Hn & _); [lia|].
      exists cc. auto. }
    destruct Hcell as (cc & Hcc & Hn).
    assert (Hcond : is_nil e1 || is_nil e2 = true \/ (i <? zlen pre = true /\ j <? zlen pre = true)).
    { subst e1 e2. destruct (i <? zlen pre); [|left; reflexivity].
      destruct (j <? zlen pre); [right; auto|left; apply orb_true_r]. }
    destruct Hcond as [Hc|[Ei Ej]].
    + rewrite Hc. simpl deref. rewrite Hcc, Hn.
      specialize (IH (pre ++ [c]) p l f (if zlen pre =? i then Some c else e1)
                     (if zlen pre =? i then e2 else if zlen pre =? j then Some c else e2)).
      rewrite <- app_assoc in IH. simpl app in IH. rewrite (zlen_app' _ pre [c]) in IH. change (zlen [c]) with 1 in IH.
      apply IH; try assumption.
      * subst e1. destruct (Z.eqb_spec (zlen pre) i) as [E|E].
        -- subst i. replace (zlen pre <? zlen pre + 1) with true by (symmetry; apply Z.ltb_lt; lia).
           rewrite to_nat_zlen. symmetry. apply nth_error_exact. reflexivity.
        -- destruct (Z.ltb_spec i (zlen pre)); destruct (Z.ltb_spec i (zlen pre + 1)); try lia; reflexivity.
      * subst e2. destruct (Z.eqb_spec (zlen pre) i) as [E|E].
        -- destruct (Z.ltb_spec j (zlen pre)); destruct (Z.ltb_spec j (zlen pre + 1)); try lia; reflexivity.
        -- destruct (Z.eqb_spec (zlen pre) j) as [E'|E'].
           ++ subst j. replace (zlen pre <? zlen pre + 1) with true by (symmetry; apply Z.ltb_lt; lia).
              rewrite to_nat_zlen. symmetry. apply nth_error_exact. reflexivity.
           ++ destruct (Z.ltb_spec j (zlen pre)); destruct (Z.ltb_spec j (zlen pre + 1)); try lia; reflexivity.
      * simpl in Hfuel. lia.
    + rewrite Ei, Hx in He1. rewrite Ej, Hy in He2. subst e1 e2. simpl is_nil. simpl orb. cbv iota.
      rewrite Hx, Hy. reflexivity.
Qed.

Theorem c_swap_ok : forall dbl d l i j, repr dbl d l ->
  exists d', c_swap d i j = Some d' /\ repr dbl d' (sll_swap i j l).
Proof.
  intros dbl d l i j H. pose proof H as (al & Hal). pose proof Hal as (Hnd & Hlt & Hch & Hf & Hl & Hs).
  unfold c_swap, sll_swap. rewrite !(c_within_eq _ l) by exact Hs.
  destruct (within i l && within j l && negb (i =? j)) eqn:E; [|exists d; auto].
  apply andb_true_iff in E. destruct E as [E Eij]. apply andb_true_iff in E. destruct E as [Wi Wj].
  apply within_spec in Wi. apply within_spec in Wj. apply negb_true_iff, Z.eqb_neq in Eij.
  pose proof (chain_length _ _ _ _ _ _ _ _ Hch) as Hlen.
  assert (Hzl : zlen al = zlen l) by (unfold zlen; lia).
  rewrite <- Hzl in Wi, Wj.
  destruct (nth_error_in_range _ _ _ Wi) as (x & Hx). destruct (nth_error_in_range _ _ _ Wj) as (y & Hy).
  rewrite Hf, Hs.
  assert (Ei0 : i <? zlen (@nil nat) = false) by (apply Z.ltb_ge; change (zlen (@nil nat)) with 0; lia).
  assert (Ej0 : j <? zlen (@nil nat) = false) by (apply Z.ltb_ge; change (zlen (@nil nat)) with 0; lia).
  change 0 with (zlen (@nil nat)) at 1.
  rewrite (swap_loop_ok dbl (lheap d) i j al [] None l _ None None Hch Wi Wj Eij);
    [|rewrite Ei0; reflexivity|rewrite Ej0; reflexivity|rewrite to_nat_zlen; lia].
  simpl app. rewrite Hx, Hy. simpl deref.
  destruct (repr_al_set_val _ _ _ _ _ _ 0 Hal Hx) as (_ & c1 & Hc1 & Hv1 & _).
  destruct (repr_al_set_val _ _ _ _ _ _ 0 Hal Hy) as (_ & c2 & Hc2 & Hv2 & _).
  rewrite Hc1, Hc2.
  destruct (repr_al_set_val _ _ _ _ _ _ (cval c2) Hal Hx) as (h1 & _ & _ & _ & -> & Hal1).
  destruct (repr_al_set_val _ _ _ _ _ _ (cval c1) Hal1 Hy) as (h2 & _ & _ & _ & Hst2 & Hal2).
  lsimpl_in Hst2. rewrite Hst2.
  eexists. split; [reflexivity|].
  rewrite (nth_error_nth _ _ 0 Hv1), (nth_error_nth _ _ 0 Hv2).
  exact (repr_al_intro _ _ _ _ Hal2).
Qed.

(* ================= Insert: linking fresh cells behind `before` ================= *)
Definition sll_link (d : llist) (v : Z) (before : option nat) : option (llist * option nat) :=
  let '(d1, ne) := alloc d {| cval := v; cnext := None; cprev := None |} in
  match store (lheap d1) before (with_next ne) with
  | Some h => Some (set_heap d1 h, ne)
  | None => None
  end.
Definition dll_link (d : llist) (v : Z) (before : option nat) : option (llist * option nat) :=
  let '(d1, ne) := alloc d {| cval := v; cnext := None; cprev := None |} in
  match store (lheap d1) ne (with_prev before) with
  | Some h1 => match store h1 before (with_next ne) with
               | Some h2 => Some (set_heap d1 h2, ne)
               | None => None
               end
  | None => None
  end.
Fixpoint link_loop (lk : llist -> Z -> option nat -> option (llist * option nat))
    (vs : list Z) (d : llist) (before : option nat) : option (llist * option nat) :=
  match vs with
  | [] => Some (d, before)
  | v :: vs' => match lk d v before with
                | Some (d2, ne) => link_loop lk vs' d2 ne
                | None => None
                end
  end.

Lemma csll_ins_mid_loop_eq : forall vs d b, csll_ins_mid_loop vs d b = link_loop sll_link vs d b.
Proof.
  induction vs as [|v vs IH]; intros d b; [reflexivity|].
  cbn [csll_ins_mid_loop link_loop]. unfold sll_link. cbn [alloc].
  destruct (store _ b _) as [h|]; [apply IH|reflexivity].
Qed.
Lemma csll_ins_head_loop_S : forall vs i d b, csll_ins_head_loop vs (S i) d b = link_loop sll_link vs d b.
Proof.
  induction vs as [|v vs IH]; intros i d b; [reflexivity|].
  cbn [csll_ins_head_loop link_loop]. unfold sll_link. cbn [alloc].
  destruct (store _ b _) as [h|]; [apply IH|reflexivity].
Qed.
Lemma cdll_ins_mid_loop_eq : forall vs d b, cdll_ins_mid_loop vs d b = link_loop dll_link vs d b.
Proof.
  induction vs as [|v vs IH]; intros d b; [reflexivity|].
  cbn [cdll_ins_mid_loop link_loop]. unfold dll_link. cbn [alloc].
  destruct (store _ (Some (lnext_addr d)) _) as [h1|]; [|reflexivity].
  destruct (store h1 b _) as [h2|]; [apply IH|reflexivity].
Qed.
Lemma cdll_ins_head_loop_S : forall vs i d b, cdll_ins_head_loop vs (S i) d b = link_loop dll_link vs d b.
Proof.
  induction vs as [|v vs IH]; intros i d b; [reflexivity|].
  cbn [cdll_ins_head_loop link_loop]. unfold dll_link. cbn [alloc].
  destruct (store _ (Some (lnext_addr d)) _) as [h1|]; [|reflexivity].
  destruct (store h1 b _) as [h2|]; [apply IH|reflexivity].
Qed.

Definition link_spec (dbl : bool) (lk : llist -> Z -> option nat -> option (llist * option nat)) : Prop :=
  forall d p a0 b l nxt v,
  fchain dbl (lheap d) p (a0 ++ [b]) l nxt -> NoDup (a0 ++ [b]) ->
  Forall (fun a => (a < lnext_addr d)%nat) (a0 ++ [b]) ->
  exists d', lk d v (Some b) = Some (d', Some (lnext_addr d)) /\
    lfirst d' = lfirst d /\ llast d' = llast d /\ lsize d' = lsize d /\ lnext_addr d' = S (lnext_addr d) /\
    fchain dbl (lheap d') p ((a0 ++ [b]) ++ [lnext_addr d]) (l ++ [v]) None /\
    (forall a, a <> b -> (a < lnext_addr d)%nat -> hread (lheap d') a = hread (lheap d) a).

Lemma sll_link_ok : link_spec false sll_link.
Proof.
  intros d p a0 b l nxt v Hch Hnd Hlt.
  pose proof (Forall_lt_notin _ _ Hlt) as Hfresh.
  assert (Hbn : b <> lnext_addr d).
  { intro He. apply Hfresh. rewrite <- He. apply in_or_app. right. left. reflexivity. }
  destruct (chain_last_cell _ _ _ _ _ _ _ Hch) as (cb & Hcb & _).
  unfold sll_link. cbn [alloc]. lsimpl.
  rewrite (store_some _ _ cb); [|rewrite hread_other by exact Hbn; exact Hcb].
  eexists. split; [reflexivity|]. lsimpl. repeat (split; [reflexivity|]). split.
  - eapply chain_snoc; try eassumption.
    + intros a Ha. apply hread_other. exact Ha.
    + apply hread_same.
    + reflexivity.
    + reflexivity.
    + discriminate.
  - intros a Hab Han. rewrite !hread_other by lia. reflexivity.
Qed.

Lemma dll_link_ok : link_spec true dll_link.
Proof.
  intros d p a0 b l nxt v Hch Hnd Hlt.
  pose proof (Forall_lt_notin _ _ Hlt) as Hfresh.
  assert (Hbn : b <> lnext_addr d).
  { intro He. apply Hfresh. rewrite <- He. apply in_or_app. right. left. reflexivity. }
  destruct (chain_last_cell _ _ _ _ _ _ _ Hch) as (cb & Hcb & _).
  unfold dll_link. cbn [alloc]. lsimpl.
  rewrite (store_some _ _ _ _ (hread_same _ _ _)).
  rewrite (store_some _ _ cb); [|rewrite !hread_other by exact Hbn; exact Hcb].
  eexists. split; [reflexivity|]. lsimpl. repeat (split; [reflexivity|]). split.
  - eapply chain_snoc; try eassumption.
    + intros a Ha. rewrite !hread_other by exact Ha. reflexivity.
    + apply hread_same.
    + reflexivity.
    + reflexivity.
    + reflexivity.
  - intros a Hab Han. rewrite !hread_other by lia. reflexivity.
Qed.

Lemma link_loop_ok : forall dbl lk, link_spec dbl lk -> forall vs d p a0 b l nxt,
  fchain dbl (lheap d) p (a0 ++ [b]) l nxt -> NoDup (a0 ++ [b]) ->
  Forall (fun a => (a < lnext_addr d)%nat) (a0 ++ [b]) ->
  exists d' nxt',
    link_loop lk vs d (Some b) = Some (d', last_or (seq (lnext_addr d) (length vs)) (Some b)) /\
    lfirst d' = lfirst d /\ llast d' = llast d /\ lsize d' = lsize d /\
    lnext_addr d' = (lnext_addr d + length vs)%nat /\
    fchain dbl (lheap d') p ((a0 ++ [b]) ++ seq (lnext_addr d) (length vs)) (l ++ vs) nxt' /\
    (forall a, a <> b -> (a < lnext_addr d)%nat -> hread (lheap d') a = hread (lheap d) a).
Proof.
  intros dbl lk Hlk. induction vs as [|v vs IH]; intros d p a0 b l nxt Hch Hnd Hlt.
  - exists d, nxt. simpl. rewrite !app_nil_r. repeat split; auto.
  - destruct (Hlk d p a0 b l nxt v Hch Hnd Hlt) as (d1 & E1 & Hf1 & Hl1 & Hs1 & Hn1 & Hch1 & Hfr1).
    pose proof (Forall_lt_notin _ _ Hlt) as Hfresh.
    destruct (IH d1 p (a0 ++ [b]) (lnext_addr d) (l ++ [v]) None Hch1) as
      (d' & nxt' & E & Hf' & Hl' & Hs' & Hn' & Hch' & Hfr').
    + apply NoDup_app_intro; [exact Hnd|constructor; [intros []|constructor]|].
      intros y Hy [He|[]]. subst. contradiction.
    + rewrite Hn1. apply Forall_app. split; [apply Forall_lt_S; exact Hlt|constructor; [lia|constructor]].
    + exists d', nxt'. cbn [link_loop]. rewrite E1, E, Hn1. cbn [length seq last_or].
      split; [reflexivity|]. rewrite Hf', Hl', Hs', Hn', Hn1. repeat (split; [congruence || lia|]). split.
      * rewrite Hn1, <- !app_assoc in Hch'. rewrite <- !app_assoc. exact Hch'.
      * intros a Hab Han. rewrite Hfr' by lia. apply Hfr1; assumption.
Qed.

Lemma NoDup_app_disj : forall (a b : list nat), NoDup (a ++ b) ->
  NoDup a /\ NoDup b /\ (forall y, In y a -> ~ In y b).
Proof.
  induction a as [|x a IH]; intros b H; simpl in H.
  - repeat split; [constructor|exact H|intros y []].
  - inversion H as [|x' l' Hnin Hnd]; subst. destruct (IH _ Hnd) as (H1 & H2 & H3).
    repeat split.
    + constructor; [|exact H1]. intro Hin. apply Hnin. apply in_or_app. left. exact Hin.
    + exact H2.
    + intros y [->|Hy] Hyb; [apply Hnin; apply in_or_app; right; exact Hyb|exact (H3 y Hy Hyb)].
Qed.

Lemma NoDup_insert_seq : forall (a1 a2 : list nat) n k, NoDup (a1 ++ a2) ->
  Forall (fun a => (a < n)%nat) (a1 ++ a2) -> NoDup ((a1 ++ seq n k) ++ a2).
Proof.
  intros a1 a2 n k Hnd Hlt. apply (Permutation_NoDup (l := seq n k ++ (a1 ++ a2))).
  - rewrite app_assoc. apply Permutation_app_tail. apply Permutation_app_comm.
  - apply NoDup_app_intro; [apply seq_NoDup|exact Hnd|].
    intros y Hy Hin. apply in_seq in Hy. rewrite Forall_forall in Hlt. specialize (Hlt _ Hin). lia.
Qed.

Lemma Forall_insert_seq : forall (a1 a2 : list nat) n k, Forall (fun a => (a < n)%nat) (a1 ++ a2) ->
  Forall (fun a => (a < n + k)%nat) ((a1 ++ seq n k) ++ a2).
Proof.
  intros a1 a2 n k H. apply Forall_app in H. destruct H as [H1 H2].
  assert (Hw : forall al, Forall (fun a => (a < n)%nat) al -> Forall (fun a => (a < n + k)%nat) al).
  { intros al Hal. eapply Forall_impl; [|exact Hal]. simpl. intros a Ha. lia. }
  apply Forall_app. split; [apply Forall_app; split|]; auto.
  apply Forall_forall. intros y Hy. apply in_seq in Hy. lia.
Qed.

(* the last fresh cell is linked to the old successor *)
Lemma sll_finish : forall h p A LA nA x a2 l2 q m, last_or A None = Some m ->
  fchain false h p A LA nA -> fchain false h q (x :: a2) l2 None -> NoDup (A ++ x :: a2) ->
  exists h2, store h (Some m) (with_next (Some x)) = Some h2 /\
    fchain false h2 p (A ++ x :: a2) (LA ++ l2) None.
Proof.
  intros h p A LA nA x a2 l2 q m Hm HA H2 Hnd.
  destruct (list_snoc_cases _ A) as [->|(A0 & m' & ->)]; [discriminate Hm|].
  rewrite last_or_snoc in Hm. inversion Hm; subst m'.
  destruct (chain_last_cell _ _ _ _ _ _ _ HA) as (cm & Hcm & _).
  rewrite (store_some _ _ cm _ Hcm). eexists. split; [reflexivity|].
  destruct (NoDup_app_disj _ _ Hnd) as (HndA & _ & Hdisj).
  assert (Hm2 : ~ In m (x :: a2)). { apply Hdisj. apply in_or_app. right. left. reflexivity. }
  apply chain_app; [exact (chain_length _ _ _ _ _ _ _ _ HA)|]. split.
  - apply (chain_relink_next _ _ _ _ _ _ nA); assumption.
  - apply (chain_false_prev _ q). apply chain_frame_write; assumption.
Qed.

Lemma dll_finish : forall h p A LA nA x a2 l2 q m, last_or A None = Some m ->
  fchain true h p A LA nA -> fchain true h q (x :: a2) l2 None -> NoDup (A ++ x :: a2) ->
  exists h1 h2, store h (Some x) (with_prev (Some m)) = Some h1 /\
    store h1 (Some m) (with_next (Some x)) = Some h2 /\
    fchain true h2 p (A ++ x :: a2) (LA ++ l2) None.
Proof.
  intros h p A LA nA x a2 l2 q m Hm HA H2 Hnd.
  destruct (list_snoc_cases _ A) as [->|(A0 & m' & ->)]; [discriminate Hm|].
  rewrite last_or_snoc in Hm. inversion Hm; subst m'.
  destruct (chain_last_cell _ _ _ _ _ _ _ HA) as (cm & Hcm & _).
  destruct (NoDup_app_disj _ _ Hnd) as (HndA & Hnd2 & Hdisj).
  assert (Hm2 : ~ In m (x :: a2)). { apply Hdisj. apply in_or_app. right. left. reflexivity. }
  assert (HxA : ~ In x (A0 ++ [m])). { intros Hin. apply (Hdisj x Hin). left. reflexivity. }
  assert (Hxm : m <> x). { intro He. apply Hm2. left. symmetry. exact He. }
  assert (Hx : exists cx, hread h x = Some cx).
  { destruct l2 as [|w l2]; simpl in H2; [contradiction|]. destruct H2 as [(cx & Hcx & _) _]. exists cx. exact Hcx. }
  destruct Hx as (cx & Hcx).
  exists (hwrite h x (with_prev (Some m) cx)).
  exists (hwrite (hwrite h x (with_prev (Some m) cx)) m (with_next (Some x) cm)).
  split; [apply store_some; exact Hcx|].
  split; [apply store_some; rewrite hread_other by exact Hxm; exact Hcm|].
  apply chain_app; [exact (chain_length _ _ _ _ _ _ _ _ HA)|]. split.
  - apply (chain_relink_next _ _ _ _ _ _ nA); [|exact HndA|rewrite hread_other by exact Hxm; exact Hcm].
    apply chain_frame_write; assumption.
  - rewrite last_or_snoc. apply chain_frame_write; [exact Hm2|].
    apply (chain_relink_prev _ _ q); assumption.
Qed.

Theorem csll_insert_ok : forall d l i vs, repr_sll d l ->
  exists d', csll_insert d i vs = Some d' /\ repr_sll d' (sll_insert i vs l).
Proof.
  intros d l i vs H. pose proof H as (al & Hnd & Hlt & Hch & Hf & Hl & Hs).
  unfold csll_insert, sll_insert. rewrite (c_within_eq _ l) by exact Hs.
  destruct (within i l) eqn:W; simpl negb; cbv iota.
  2: { rewrite Hs. destruct (i =? zlen l); [apply csll_add_ok; exact H|exists d; auto]. }
  destruct vs as [|v0 vs']; [exists d; auto|].
  destruct (chain_split_within _ _ _ _ _ _ _ Hch W) as (a1 & x & a2 & l1 & v & l2 & -> & -> & Ha1 & Hl1).
  lsimpl. rewrite Hf, <- Ha1, (chain_walk_track _ _ _ _ _ _ _ None Hch).
  rewrite firstn_exact, skipn_exact by lia.
  destruct (list_snoc_cases _ a1) as [->|(a0 & b & ->)].
  - 
    (* the head case: foundElement == list.first *)
    destruct l1 as [|w l1]; [|simpl in Ha1, Hl1; lia].
    assert (Ei : i =? 0 = true). { apply within_spec in W. apply Z.eqb_eq. simpl in Ha1. lia. }
    rewrite Ei. simpl app. simpl app in Hch, Hnd, Hlt, Hf, Hl, Hs. simpl hd_or. rewrite ptr_eqb_refl.
    cbn [csll_ins_head_loop alloc]. lsimpl. rewrite csll_ins_head_loop_S.
    set (n0 := lnext_addr d).
    set (d2 := set_first _ _).
    pose proof (Forall_lt_notin _ _ Hlt) as Hfresh. fold n0 in Hfresh.
    destruct (link_loop_ok false sll_link sll_link_ok vs' d2 None [] n0 [v0] None) as
      (d' & nxt' & E & Hf' & Hl' & Hs' & Hn' & Hch' & Hfr').
    { subst d2. lsimpl. simpl. split; [|exact I]. eexists. rewrite hread_same. repeat split; auto. }
    { constructor; [intros []|constructor]. }
    { subst d2. lsimpl. constructor; [lia|constructor]. }
    subst d2. lsimpl_in E. lsimpl_in Hf'. lsimpl_in Hl'. lsimpl_in Hs'. lsimpl_in Hn'. lsimpl_in Hch'. lsimpl_in Hfr'.
    rewrite E.
    assert (Hc2 : fchain false (lheap d') None (x :: a2) (v :: l2) None).
    { apply (chain_frame _ _ _ (lheap d)); [|exact Hch]. intros a Ha.
      assert (Han : (a < n0)%nat). { rewrite Forall_forall in Hlt. exact (Hlt _ Ha). }
      rewrite Hfr' by lia. apply hread_other. lia. }
    destruct (last_or_In ([] ++ [n0] ++ seq (S n0) (length vs')) None) as (m & Hm & _); [discriminate|].
    simpl app in Hm. simpl last_or in Hm. simpl app in Hch'.
    destruct (sll_finish _ _ (n0 :: seq (S n0) (length vs')) _ _ x a2 _ None m Hm Hch' Hc2) as (h2 & Hst & Hfin).
    { apply (NoDup_insert_seq [] (x :: a2) n0 (S (length vs'))); [exact Hnd|exact Hlt]. }
    rewrite Hm, Hst. eexists. split; [reflexivity|].
    exists ((n0 :: seq (S n0) (length vs')) ++ x :: a2). lsimpl. rsplit.
    + apply (NoDup_insert_seq [] (x :: a2) n0 (S (length vs'))); [exact Hnd|exact Hlt].
    + rewrite Hn'. replace (S n0 + length vs')%nat with (n0 + S (length vs'))%nat by lia.
      apply (Forall_insert_seq [] (x :: a2) n0 (S (length vs'))). exact Hlt.
    + exact Hfin.
    + exact Hf'.
    + rewrite Hl', Hl, last_or_app. reflexivity.
    + rewrite Hs', Hs. change (v0 :: vs' ++ v :: l2) with ((v0 :: vs') ++ v :: l2).
      rewrite (zlen_app' _ (v0 :: vs')). lia.
  - 
    (* the middle case *)
    assert (Ei : i =? 0 = false). { apply Z.eqb_neq. rewrite app_length in Ha1. simpl in Ha1. lia. }
    rewrite Ei. destruct (NoDup_mid _ _ _ Hnd) as (Hx1 & Hx2 & Hnd1 & Hnd2 & Hdisj).
    simpl hd_or at 1. rewrite hd_or_app, ptr_eqb_hd_false; [|apply snoc_not_nil|exact Hx1].
    rewrite last_or_snoc. simpl deref.
    pose proof Hch as Hch0. apply chain_app in Hch0; [|lia]. destruct Hch0 as [Hc1 Hc2].
    simpl hd_or in Hc1. rewrite last_or_snoc in Hc2.
    destruct (chain_last_cell _ _ _ _ _ _ _ Hc1) as (cb & Hcb & Hnb). rewrite Hcb, Hnb.
    rewrite csll_ins_mid_loop_eq.
    set (n0 := lnext_addr d).
    set (d2 := set_size _ _).
    destruct (link_loop_ok false sll_link sll_link_ok (v0 :: vs') d2 None a0 b l1 (Some x)) as
      (d' & nxt' & E & Hf' & Hl' & Hs' & Hn' & Hch' & Hfr').
    { exact Hc1. }
    { exact Hnd1. }
    { subst d2. lsimpl. apply Forall_app in Hlt. tauto. }
    subst d2. lsimpl_in E. lsimpl_in Hf'. lsimpl_in Hl'. lsimpl_in Hs'. lsimpl_in Hn'. lsimpl_in Hch'. lsimpl_in Hfr'.
    fold n0 in E, Hn', Hch', Hfr', Hlt. rewrite E.
    assert (Hc2' : fchain false (lheap d') (Some b) (x :: a2) (v :: l2) None).
    { apply (chain_frame _ _ _ (lheap d)); [|exact Hc2]. intros a Ha.
      assert (Han : (a < n0)%nat).
      { rewrite Forall_forall in Hlt. apply Hlt. apply in_or_app. right. exact Ha. }
      apply Hfr'; [|exact Han]. intro He. subst a.
      apply (Hdisj b); [apply in_or_app; right; left; reflexivity|].
      destruct Ha as [Ha|Ha]; [|exact Ha]. exfalso. apply Hx1. subst x. apply in_or_app. right. left. reflexivity. }
    destruct (last_or_In ((a0 ++ [b]) ++ seq n0 (length (v0 :: vs'))) None) as (m & Hm & _).
    { simpl. intro He. apply app_eq_nil in He. destruct He as [_ He]. discriminate He. }
    assert (Hm' : last_or (seq n0 (length (v0 :: vs'))) (Some b) = Some m).
    { rewrite last_or_app, last_or_snoc in Hm. exact Hm. }
    destruct (sll_finish _ _ _ _ _ x a2 _ (Some b) m Hm Hch' Hc2') as (h2 & Hst & Hfin).
    { apply NoDup_insert_seq; [exact Hnd|exact Hlt]. }
    rewrite Hm', Hst. eexists. split; [reflexivity|].
    exists (((a0 ++ [b]) ++ seq n0 (length (v0 :: vs'))) ++ x :: a2). lsimpl. rsplit.
    + apply NoDup_insert_seq; [exact Hnd|exact Hlt].
    + rewrite Hn'. apply Forall_insert_seq. exact Hlt.
    + rewrite <- (app_assoc l1) in Hfin. exact Hfin.
    + rewrite Hf', Hf, !hd_or_app. destruct a0; reflexivity.
    + rewrite Hl', Hl, !last_or_app. reflexivity.
    + rewrite Hs', Hs, !zlen_app'. lia.
Qed.

(* ================= doubly linked list ================= *)
Lemma chain_rev_split : forall h a1 x a2 l p n, fchain true h p (a1 ++ x :: a2) l n ->
  chain true cprev cnext h n (rev a2 ++ x :: rev a1) (rev l) p.
Proof.
  intros h a1 x a2 l p n H. apply chain_rev in H.
  rewrite rev_app_distr in H. simpl rev in H. rewrite <- app_assoc in H. exact H.
Qed.

Lemma hd_or_rev_split : forall a1 (x : nat) a2 d, last_or (a1 ++ x :: a2) d = hd_or (rev a2 ++ x :: rev a1) d.
Proof.
  intros a1 x a2 d. rewrite <- hd_or_rev, rev_app_distr. simpl rev. rewrite <- app_assoc. reflexivity.
Qed.

(* the element at a valid index, from the nearer end *)
Lemma cdll_locate_ok : forall d a1 x a2 l i,
  fchain true (lheap d) None (a1 ++ x :: a2) l None ->
  lfirst d = hd_or (a1 ++ x :: a2) None -> llast d = last_or (a1 ++ x :: a2) None ->
  lsize d = zlen l -> length a1 = Z.to_nat i -> 0 <= i ->
  cdll_locate d i = Some (Some x).
Proof.
  intros d a1 x a2 l i Hch Hf Hl Hs Ha1 Hi. unfold cdll_locate.
  destruct (lsize d - i <? i).
  - pose proof (chain_length _ _ _ _ _ _ _ _ Hch) as Hlen. rewrite app_length in Hlen. simpl in Hlen.
    replace (Z.to_nat (lsize d - 1 - i)) with (length (rev a2)).
    2: { rewrite rev_length, Hs. unfold zlen. lia. }
    rewrite Hl, hd_or_rev_split.
    exact (chain_walk true cprev cnext _ _ _ _ _ _ (chain_rev_split _ _ _ _ _ _ _ Hch)).
  - rewrite Hf, <- Ha1. exact (chain_walk _ _ _ _ _ _ _ _ _ Hch).
Qed.

Theorem cdll_get_ok : forall d l i, repr_dll d l -> cdll_get d i = Some (dll_get i l).
Proof.
  intros d l i (al & Hnd & Hlt & Hch & Hf & Hl & Hs).
  unfold cdll_get, dll_get. rewrite (c_within_eq _ l) by exact Hs.
  destruct (within i l) eqn:W; simpl negb; cbv iota; [|reflexivity].
  destruct (chain_split_within _ _ _ _ _ _ _ Hch W) as (a1 & x & a2 & l1 & v & l2 & -> & -> & Ha1 & Hl1).
  apply within_spec in W.
  rewrite (cdll_locate_ok _ _ _ _ _ _ Hch Hf Hl Hs Ha1) by lia.
  destruct (chain_mid_cell _ _ _ _ _ _ _ _ _ _ Hch) as (c & Hc & Hv & _); [lia|].
  simpl. rewrite Hc, Hv.
  destruct (zlen (l1 ++ v :: l2) - i <? i).
  - rewrite rev_app_distr. simpl rev. rewrite <- app_assoc. simpl app.
    rewrite nth_error_exact; [reflexivity|].
    rewrite rev_length. unfold zlen. rewrite app_length. simpl length. lia.
  - rewrite nth_error_exact by lia. reflexivity.
Qed.

Theorem cdll_set_ok : forall d l i v, repr_dll d l ->
  exists d', cdll_set d i v = Some d' /\ repr_dll d' (dll_set i v l).
Proof.
  intros d l i v H. pose proof H as (al & Hnd & Hlt & Hch & Hf & Hl & Hs).
  unfold cdll_set, dll_set, sll_set. rewrite (c_within_eq _ l) by exact Hs.
  destruct (within i l) eqn:W; simpl negb; cbv iota.
  - destruct (chain_split_within _ _ _ _ _ _ _ Hch W) as (a1 & x & a2 & l1 & v0 & l2 & -> & -> & Ha1 & Hl1).
    apply within_spec in W.
    rewrite (cdll_locate_ok _ _ _ _ _ _ Hch Hf Hl Hs Ha1) by lia.
    destruct (repr_set_val _ _ _ _ _ _ _ _ v Hnd Hlt Hch Hf Hl Hs) as (h & -> & Hr); [lia|].
    eexists. split; [reflexivity|]. rewrite upd_exact by lia. exact Hr.
  - rewrite Hs. destruct (i =? zlen l).
    + apply cdll_add_ok. exact H.
    + exists d. split; [reflexivity|exact H].
Qed.

(* ---------- Remove (doubly linked) ---------- *)
Lemma ptr_eqb_first : forall a1 (x : nat) a2, NoDup (a1 ++ x :: a2) ->
  ptr_eqb (Some x) (hd_or (a1 ++ x :: a2) None) = match a1 with [] => true | _ => false end.
Proof.
  intros a1 x a2 Hnd. destruct a1 as [|a a1]; [simpl; apply Nat.eqb_refl|].
  destruct (NoDup_mid _ _ _ Hnd) as (Hx1 & _).
  simpl. apply Nat.eqb_neq. intro He. apply Hx1. left. symmetry. exact He.
Qed.
Lemma ptr_eqb_last : forall a1 (x : nat) a2, NoDup (a1 ++ x :: a2) ->
  ptr_eqb (Some x) (last_or (a1 ++ x :: a2) None) = match a2 with [] => true | _ => false end.
Proof.
  intros a1 x a2 Hnd. rewrite last_or_app. simpl last_or.
  destruct a2 as [|y a2]; [simpl; apply Nat.eqb_refl|].
  destruct (NoDup_mid _ _ _ Hnd) as (_ & Hx2 & _).
  apply ptr_eqb_last_false; [discriminate|exact Hx2].
Qed.

Lemma store_opt_ok : forall d p f h',
  (if is_nil p then Some (lheap d) else store (lheap d) p f) = Some h' ->
  exists d', (if is_nil p then Some d
              else match store (lheap d) p f with Some h => Some (set_heap d h) | None => None end) = Some d' /\
    lheap d' = h' /\ lfirst d' = lfirst d /\ llast d' = llast d /\ lsize d' = lsize d /\
    lnext_addr d' = lnext_addr d.
Proof.
  intros d p f h' H. destruct (is_nil p).
  - inversion H; subst. exists d. repeat split; reflexivity.
  - destruct (store (lheap d) p f) as [h|]; inversion H; subst.
    eexists. split; [reflexivity|]. lsimpl. repeat split; reflexivity.
Qed.

Theorem cdll_remove_ok : forall d l i, repr_dll d l ->
  exists d', cdll_remove d i = Some d' /\ repr_dll d' (dll_remove i l).
Proof.
  intros d l i H. pose proof H as (al & Hnd & Hlt & Hch & Hf & Hl & Hs).
  unfold cdll_remove, dll_remove, sll_remove. rewrite (c_within_eq _ l) by exact Hs.
  destruct (within i l) eqn:W; simpl negb; cbv iota.
  2: { exists d. split; [reflexivity|exact H]. }
  rewrite Hs. destruct (zlen l =? 1) eqn:E1.
  { eexists. split; [reflexivity|]. apply repr_clear. }
  destruct (chain_split_within _ _ _ _ _ _ _ Hch W) as (a1 & x & a2 & l1 & v & l2 & -> & -> & Ha1 & Hl1).
  rewrite firstn_exact, skipn_S_exact by lia.
  apply within_spec in W.
  rewrite (cdll_locate_ok _ _ _ _ _ _ Hch Hf Hl Hs Ha1) by lia.
  destruct (NoDup_mid _ _ _ Hnd) as (Hx1 & Hx2 & Hnd1 & Hnd2 & Hdisj).
  pose proof Hch as Hch'. apply chain_app in Hch'; [|lia]. destruct Hch' as [Hc1 Hc2].
  simpl in Hc2. destruct Hc2 as [(cx & Hcx & Hvx & Hnx & Hpx) Hc2]. specialize (Hpx eq_refl).
  rewrite Hf, ptr_eqb_first by exact Hnd.
  assert (Hd1 : exists d1, (if match a1 with [] => true | _ :: _ => false end
            then match deref (lheap d) (Some x) with Some c => Some (set_first d (cnext c)) | None => None end
            else Some d) = Some d1 /\ lheap d1 = lheap d /\ lfirst d1 = hd_or (a1 ++ a2) None /\
            llast d1 = llast d /\ lsize d1 = lsize d /\ lnext_addr d1 = lnext_addr d).
  { destruct a1 as [|a a1'].
    - simpl deref. rewrite Hcx. eexists. split; [reflexivity|]. lsimpl. rewrite Hnx. repeat split; reflexivity.
    - exists d. rewrite Hf. repeat split; reflexivity. }
  destruct Hd1 as (d1 & -> & Hh1 & Hf1 & Hl1' & Hs1 & Hn1).
  rewrite Hl1', Hl, ptr_eqb_last by exact Hnd.
  assert (Hd2 : exists d2, (if match a2 with [] => true | _ :: _ => false end
            then match deref (lheap d1) (Some x) with Some c => Some (set_last d1 (cprev c)) | None => None end
            else Some d1) = Some d2 /\ lheap d2 = lheap d /\ lfirst d2 = hd_or (a1 ++ a2) None /\
            llast d2 = last_or (a1 ++ a2) None /\ lsize d2 = lsize d /\ lnext_addr d2 = lnext_addr d).
  { destruct a2 as [|y a2'].
    - rewrite Hh1. simpl deref. rewrite Hcx. eexists. split; [reflexivity|]. lsimpl.
      rewrite Hpx, app_nil_r. rewrite app_nil_r in Hf1. repeat split; auto.
    - exists d1. rewrite Hl1', Hl, !last_or_app. repeat split; auto. }
  destruct Hd2 as (d2 & -> & Hh2 & Hf2 & Hl2 & Hs2 & Hn2).
  rewrite Hh2. simpl deref. rewrite Hcx, Hpx, Hnx.
  destruct (relink_next_opt _ _ _ _ _ _ (hd_or a2 None) Hc1 Hnd1) as (h' & Hh' & Hc1' & Hfr).
  rewrite <- Hh2 in Hh'.
  destruct (store_opt_ok _ _ _ _ Hh') as (d3 & E3 & Hh3 & Hf3 & Hl3 & Hs3 & Hn3).
  rewrite Hh2 in E3. rewrite E3. rewrite Hh3.
  assert (Hx' : hread h' x = Some cx). { rewrite Hfr by exact Hx1. exact Hcx. }
  rewrite Hx', Hpx, Hnx.
  assert (Hc2' : fchain true h' (Some x) a2 l2 None).
  { apply (chain_frame _ _ _ (lheap d)); [|exact Hc2].
    intros a Ha. apply Hfr. intro Ha1'. exact (Hdisj a Ha1' Ha). }
  destruct (relink_prev_opt _ _ _ _ _ _ (last_or a1 None) Hc2' Hnd2) as (h'' & Hh'' & Hc2'' & Hfr2).
  rewrite <- Hh3 in Hh''.
  destruct (store_opt_ok _ _ _ _ Hh'') as (d4 & E4 & Hh4 & Hf4 & Hl4 & Hs4 & Hn4).
  rewrite Hh3 in E4. rewrite E4.
  eexists. split; [reflexivity|].
  exists (a1 ++ a2). lsimpl. rsplit.
  - exact (NoDup_mid_remove _ _ _ Hnd).
  - rewrite Hn4, Hn3, Hn2. exact (Forall_mid_remove _ _ _ _ Hlt).
  - rewrite Hh4. apply chain_app; [lia|]. split; [|exact Hc2''].
    apply (chain_frame _ _ _ h'); [|exact Hc1'].
    intros a Ha. apply Hfr2. intro Ha2. exact (Hdisj a Ha Ha2).
  - rewrite Hf4, Hf3. exact Hf2.
  - rewrite Hl4, Hl3. exact Hl2.
  - rewrite Hs4, Hs3, Hs2, Hs. apply zlen_mid_minus.
Qed.

(* ---------- Insert (doubly linked) ---------- *)
(* the walk from the tail that keeps `before` one cell behind `found` *)
Lemma chain_walk_back2 : forall dbl pv h b1 b2 q lr p, b2 <> [] ->
  chain dbl cprev pv h q (b1 ++ b2) lr p ->
  walk_back2 h (hd_or (tl (b1 ++ b2)) p) (hd_or (b1 ++ b2) p) (length b1) = Some (hd_or (tl b2) p, hd_or b2 p).
Proof.
  intros dbl pv h. induction b1 as [|r b1 IH]; intros b2 q lr p Hne H; [reflexivity|].
  destruct lr as [|w lr]; simpl in H; [contradiction|].
  destruct H as [(cr & Hcr & _ & Hnr & _) H].
  assert (Hz : exists z rest, b1 ++ b2 = z :: rest).
  { destruct b1 as [|z b1']; [destruct b2 as [|z b2']; [congruence|]|]; eexists; eexists; reflexivity. }
  destruct Hz as (z & rest & Hz).
  simpl app. simpl tl. simpl hd_or at 2. cbn [length walk_back2].
  rewrite Hz in H, Hnr |- *. destruct lr as [|w' lr]; simpl in H; [contradiction|].
  pose proof H as [(cz & Hcz & _ & Hnz & _) _].
  simpl hd_or. simpl deref. rewrite Hcz, Hcr, Hnz, Hnr.
  specialize (IH b2 (Some r) (w' :: lr) p Hne). rewrite Hz in IH. simpl hd_or in IH. simpl tl in IH.
  apply IH. simpl. exact H.
Qed.

Lemma cdll_insert_locate : forall d a1 x a2 l i,
  fchain true (lheap d) None (a1 ++ x :: a2) l None ->
  lfirst d = hd_or (a1 ++ x :: a2) None -> llast d = last_or (a1 ++ x :: a2) None ->
  lsize d = zlen l -> length a1 = Z.to_nat i -> 0 <= i ->
  (if lsize d - i <? i then
     match deref (lheap d) (llast d) with
     | Some cl => walk_back2 (lheap d) (cprev cl) (llast d) (Z.to_nat (lsize d - 1 - i))
     | None => None
     end
   else walk_track (lheap d) None (lfirst d) (Z.to_nat i)) = Some (last_or a1 None, Some x).
Proof.
  intros d a1 x a2 l i Hch Hf Hl Hs Ha1 Hi.
  destruct (lsize d - i <? i).
  - pose proof (chain_length _ _ _ _ _ _ _ _ Hch) as Hlen. rewrite app_length in Hlen. simpl in Hlen.
    replace (Z.to_nat (lsize d - 1 - i)) with (length (rev a2)).
    2: { rewrite rev_length, Hs. unfold zlen. lia. }
    pose proof (chain_rev_split _ _ _ _ _ _ _ Hch) as Hr.
    rewrite Hl, hd_or_rev_split.
    pose proof (chain_walk_back2 true cnext _ (rev a2) (x :: rev a1) _ _ _ ltac:(discriminate) Hr) as Hw.
    simpl tl at 2 in Hw. simpl hd_or at 4 in Hw. rewrite hd_or_rev in Hw.
    destruct (rev a2 ++ x :: rev a1) as [|z R] eqn:ER.
    { destruct (rev a2); discriminate ER. }
    destruct (rev l) as [|w lr]; simpl in Hr; [contradiction|].
    destruct Hr as [(cz & Hcz & _ & Hnz & _) _].
    simpl hd_or. simpl deref. rewrite Hcz, Hnz. simpl tl in Hw. simpl hd_or in Hw. exact Hw.
  - rewrite Hf, <- Ha1. exact (chain_walk_track _ _ _ _ _ _ _ None Hch).
Qed.

Theorem cdll_insert_ok : forall d l i vs, repr_dll d l ->
  exists d', cdll_insert d i vs = Some d' /\ repr_dll d' (dll_insert i vs l).
Proof.
  intros d l i vs H. pose proof H as (al & Hnd & Hlt & Hch & Hf & Hl & Hs).
  unfold cdll_insert, dll_insert. rewrite (c_within_eq _ l) by exact Hs.
  destruct (within i l) eqn:W; simpl negb; cbv iota.
  2: { rewrite Hs. destruct (i =? zlen l); [apply cdll_add_ok; exact H|exists d; auto]. }
  destruct vs as [|v0 vs']; [exists d; auto|].
  destruct (chain_split_within _ _ _ _ _ _ _ Hch W) as (a1 & x & a2 & l1 & v & l2 & -> & -> & Ha1 & Hl1).
  pose proof W as W'. apply within_spec in W'.
  rewrite (cdll_insert_locate _ _ _ _ _ _ Hch Hf Hl Hs Ha1) by lia.
  rewrite firstn_exact, skipn_exact by lia.
  set (n0 := lnext_addr d).
  destruct (list_snoc_cases _ a1) as [->|(a0 & b & ->)].
  - 
    (* the head case *)
    destruct l1 as [|w l1]; [|simpl in Ha1, Hl1; lia].
    assert (Ei : i =? 0 = true). { apply Z.eqb_eq. simpl in Ha1. lia. }
    rewrite Ei. simpl app. simpl app in Hch, Hnd, Hlt, Hf, Hl, Hs. simpl hd_or in Hf. rewrite Hf, ptr_eqb_refl.
    cbn [cdll_ins_head_loop alloc]. lsimpl. rewrite cdll_ins_head_loop_S. fold n0.
    set (d2 := set_first _ _).
    pose proof (Forall_lt_notin _ _ Hlt) as Hfresh. fold n0 in Hfresh, Hlt.
    destruct (link_loop_ok true dll_link dll_link_ok vs' d2 None [] n0 [v0] None) as
      (d' & nxt' & E & Hf' & Hl' & Hs' & Hn' & Hch' & Hfr').
    { subst d2. lsimpl. simpl. split; [|exact I]. eexists. rewrite hread_same. repeat split; auto. }
    { constructor; [intros []|constructor]. }
    { subst d2. lsimpl. constructor; [lia|constructor]. }
    subst d2. lsimpl_in E. lsimpl_in Hf'. lsimpl_in Hl'. lsimpl_in Hs'. lsimpl_in Hn'. lsimpl_in Hch'. lsimpl_in Hfr'.
    fold n0 in E, Hn', Hch', Hfr'. rewrite E.
    assert (Hc2 : fchain true (lheap d') None (x :: a2) (v :: l2) None).
    { apply (chain_frame _ _ _ (lheap d)); [|exact Hch]. intros a Ha.
      assert (Han : (a < n0)%nat). { rewrite Forall_forall in Hlt. exact (Hlt _ Ha). }
      rewrite Hfr' by lia. apply hread_other. lia. }
    destruct (last_or_In ([] ++ [n0] ++ seq (S n0) (length vs')) None) as (m & Hm & _); [discriminate|].
    simpl app in Hm. simpl last_or in Hm. simpl app in Hch'.
    destruct (dll_finish _ _ (n0 :: seq (S n0) (length vs')) _ _ x a2 _ None m Hm Hch' Hc2) as (h1 & h2 & Hst1 & Hst2 & Hfin).
    { apply (NoDup_insert_seq [] (x :: a2) n0 (S (length vs'))); [exact Hnd|exact Hlt]. }
    rewrite Hm, Hst1, Hst2. eexists. split; [reflexivity|].
    exists ((n0 :: seq (S n0) (length vs')) ++ x :: a2). lsimpl. rsplit.
    + apply (NoDup_insert_seq [] (x :: a2) n0 (S (length vs'))); [exact Hnd|exact Hlt].
    + rewrite Hn'. replace (S n0 + length vs')%nat with (n0 + S (length vs'))%nat by lia.
      apply (Forall_insert_seq [] (x :: a2) n0 (S (length vs'))). exact Hlt.
    + exact Hfin.
    + exact Hf'.
    + rewrite Hl', Hl, last_or_app. reflexivity.
    + rewrite Hs', Hs. change (v0 :: vs' ++ v :: l2) with ((v0 :: vs') ++ v :: l2).
      rewrite (zlen_app' _ (v0 :: vs')). lia.
  - (* the middle case *)
    assert (Ei : i =? 0 = false). { apply Z.eqb_neq. rewrite app_length in Ha1. simpl in Ha1. lia. }
    rewrite Ei. destruct (NoDup_mid _ _ _ Hnd) as (Hx1 & Hx2 & Hnd1 & Hnd2 & Hdisj).
    rewrite Hf, hd_or_app, ptr_eqb_hd_false; [|apply snoc_not_nil|exact Hx1].
    rewrite last_or_snoc. simpl deref.
    pose proof Hch as Hch0. apply chain_app in Hch0; [|lia]. destruct Hch0 as [Hc1 Hc2].
    simpl hd_or in Hc1. rewrite last_or_snoc in Hc2.
    destruct (chain_last_cell _ _ _ _ _ _ _ Hc1) as (cb & Hcb & Hnb). rewrite Hcb, Hnb.
    rewrite cdll_ins_mid_loop_eq.
    destruct (link_loop_ok true dll_link dll_link_ok (v0 :: vs') d None a0 b l1 (Some x)) as
      (d' & nxt' & E & Hf' & Hl' & Hs' & Hn' & Hch' & Hfr').
    { exact Hc1. }
    { exact Hnd1. }
    { apply Forall_app in Hlt. tauto. }
    fold n0 in E, Hn', Hch', Hfr', Hlt. rewrite E.
    assert (Hc2' : fchain true (lheap d') (Some b) (x :: a2) (v :: l2) None).
    { apply (chain_frame _ _ _ (lheap d)); [|exact Hc2]. intros a Ha.
      assert (Han : (a < n0)%nat).
      { rewrite Forall_forall in Hlt. apply Hlt. apply in_or_app. right. exact Ha. }
      apply Hfr'; [|exact Han]. intro He. subst a.
      apply (Hdisj b); [apply in_or_app; right; left; reflexivity|].
      destruct Ha as [Ha|Ha]; [|exact Ha]. exfalso. apply Hx1. subst x. apply in_or_app. right. left. reflexivity. }
    destruct (last_or_In ((a0 ++ [b]) ++ seq n0 (length (v0 :: vs'))) None) as (m & Hm & _).
    { simpl. intro He. apply app_eq_nil in He. destruct He as [_ He]. discriminate He. }
    assert (Hm' : last_or (seq n0 (length (v0 :: vs'))) (Some b) = Some m).
    { rewrite last_or_app, last_or_snoc in Hm. exact Hm. }
    destruct (dll_finish _ _ _ _ _ x a2 _ (Some b) m Hm Hch' Hc2') as (h1 & h2 & Hst1 & Hst2 & Hfin).
    { apply NoDup_insert_seq; [exact Hnd|exact Hlt]. }
    rewrite Hm', Hst1, Hst2. eexists. split; [reflexivity|].
    exists (((a0 ++ [b]) ++ seq n0 (length (v0 :: vs'))) ++ x :: a2). lsimpl. rsplit.
    + apply NoDup_insert_seq; [exact Hnd|exact Hlt].
    + rewrite Hn'. apply Forall_insert_seq. exact Hlt.
    + rewrite <- (app_assoc l1) in Hfin. exact Hfin.
    + rewrite Hf', Hf, !hd_or_app. destruct a0; reflexivity.
    + rewrite Hl', Hl, !last_or_app. reflexivity.
    + rewrite Hs', Hs, !zlen_app'. lia.
Qed.

(* ================= Clear, Sort ================= *)
Theorem c_clear_ok : forall dbl d, repr dbl (c_clear d) [].
Proof. exact repr_clear. Qed.

Theorem csll_clear_ok : forall d l, repr_sll d l -> exists d', csll_clear d = Some d' /\ repr_sll d' [].
Proof. intros d l _. eexists. split; [reflexivity|]. apply repr_clear. Qed.
Theorem cdll_clear_ok : forall d l, repr_dll d l -> exists d', cdll_clear d = Some d' /\ repr_dll d' [].
Proof. intros d l _. eexists. split; [reflexivity|]. apply repr_clear. Qed.

(* Sort: Values(), Clear(), Add(sorted values...) *)
Theorem csll_sort_ok : forall d l res, repr_sll d l ->
  exists d', csll_sort d res = Some d' /\ repr_sll d' (if zlen l <? 2 then l else res).
Proof.
  intros d l res H. unfold csll_sort. rewrite (c_values_ok _ _ _ H).
  pose proof H as (al & _ & _ & _ & _ & _ & Hs). rewrite Hs.
  destruct (zlen l <? 2); [exists d; auto|].
  destruct (csll_add_ok (c_clear d) [] res (repr_clear _ _)) as (d' & E & Hr).
  rewrite sll_add_app in Hr. exists d'. auto.
Qed.
Theorem cdll_sort_ok : forall d l res, repr_dll d l ->
  exists d', cdll_sort d res = Some d' /\ repr_dll d' (if zlen l <? 2 then l else res).
Proof.
  intros d l res H. unfold cdll_sort. rewrite (c_values_ok _ _ _ H).
  pose proof H as (al & _ & _ & _ & _ & _ & Hs). rewrite Hs.
  destruct (zlen l <? 2); [exists d; auto|].
  destruct (cdll_add_ok (c_clear d) [] res (repr_clear _ _)) as (d' & E & Hr).
  unfold dll_add in Hr. rewrite sll_add_app in Hr. exists d'. auto.
Qed.

(* ================= every machine operation, every history ================= *)
Theorem sll_cells_step_ok : forall d l o, repr_sll d l ->
  exists d', sll_cells_step d o = Some d' /\ repr_sll d' (seq_of_op l o).
Proof.
  intros d l o H.
  destruct o as [vs|vs|vs|i vs|i v|i|i j|ci res|vs|v|vs| |v| |k v|k| |dd|cs| |p|p|p|p|f|b|b|b| | | | |ci res];
    cbn [sll_cells_step seq_of_op]; try (exists d; split; [reflexivity|exact H]).
  - rewrite <- sll_add_seq. apply csll_add_ok. exact H.
  - rewrite <- sll_add_seq. apply csll_add_ok. exact H.
  - rewrite <- sll_prepend_seq. apply csll_prepend_ok. exact H.
  - rewrite <- sll_insert_eq. apply csll_insert_ok. exact H.
  - rewrite <- sll_set_eq. apply csll_set_ok. exact H.
  - rewrite <- sll_remove_eq. apply csll_remove_ok. exact H.
  - rewrite <- sll_swap_eq. apply c_swap_ok. exact H.
  - unfold cells_sort. rewrite (walk_fwd_ok _ _ _ H).
    destruct (csll_sort_ok d l (if sort_okb (cmp_of ci) l res then res else isort (cmp_of ci) l) H) as (d' & E & Hr).
    exists d'. split; [exact E|].
    destruct (zlen l <? 2); [exact Hr|]. destruct (sort_okb (cmp_of ci) l res); exact Hr.
  - apply (csll_clear_ok d l H).
  - destruct dd as [| |vs|kvs]; try (exists d; split; [reflexivity|exact H]).
    + exact (csll_add_ok (c_clear d) [] [] (repr_clear _ _)).
    + destruct (csll_add_ok (c_clear d) [] vs (repr_clear _ _)) as (d' & E & Hr).
      rewrite sll_add_app in Hr. exists d'. auto.
Qed.

Theorem dll_cells_step_ok : forall d l o, repr_dll d l ->
  exists d', dll_cells_step d o = Some d' /\ repr_dll d' (seq_of_op l o).
Proof.
  intros d l o H.
  destruct o as [vs|vs|vs|i vs|i v|i|i j|ci res|vs|v|vs| |v| |k v|k| |dd|cs| |p|p|p|p|f|b|b|b| | | | |ci res];
    cbn [dll_cells_step seq_of_op]; try (exists d; split; [reflexivity|exact H]).
  - rewrite <- dll_add_seq. apply cdll_add_ok. exact H.
  - rewrite <- dll_add_seq. apply cdll_add_ok. exact H.
  - rewrite <- dll_prepend_seq. apply cdll_prepend_ok. exact H.
  - rewrite <- dll_insert_eq. apply cdll_insert_ok. exact H.
  - rewrite <- dll_set_eq. apply cdll_set_ok. exact H.
  - rewrite <- dll_remove_eq. apply cdll_remove_ok. exact H.
  - rewrite <- dll_swap_eq. apply c_swap_ok. exact H.
  - unfold cells_sort. rewrite (walk_fwd_ok _ _ _ H).
    destruct (cdll_sort_ok d l (if sort_okb (cmp_of ci) l res then res else isort (cmp_of ci) l) H) as (d' & E & Hr).
    exists d'. split; [exact E|].
    destruct (zlen l <? 2); [exact Hr|]. destruct (sort_okb (cmp_of ci) l res); exact Hr.
  - apply (cdll_clear_ok d l H).
  - destruct dd as [| |vs|kvs]; try (exists d; split; [reflexivity|exact H]).
    + exact (cdll_add_ok (c_clear d) [] [] (repr_clear _ _)).
    + destruct (cdll_add_ok (c_clear d) [] vs (repr_clear _ _)) as (d' & E & Hr).
      unfold dll_add in Hr. rewrite sll_add_app in Hr. exists d'. auto.
Qed.

(* which representation a kind uses (cells_step: the singly linked cells for SinglyLinkedList, the
   doubly linked ones otherwise) *)
Definition repr_kind (k : kind) : llist -> list Z -> Prop :=
  match k with SinglyLinkedList => repr_sll | _ => repr_dll end.

Theorem cells_step_ok : forall k d l o, repr_kind k d l ->
  exists d', cells_step k d o = Some d' /\ repr_kind k d' (seq_of_op l o).
Proof.
  intros k d l o H. destruct k; cbn [cells_step repr_kind] in *;
    first [apply sll_cells_step_ok; exact H | apply dll_cells_step_ok; exact H].
Qed.

Theorem cells_run_from_ok : forall k ops d l, repr_kind k d l ->
  exists d', cells_run_from k d ops = Some d' /\ repr_kind k d' (fold_left seq_of_op ops l).
Proof.
  intros k. induction ops as [|o ops IH]; intros d l H.
  - exists d. split; [reflexivity|exact H].
  - destruct (cells_step_ok k d l o H) as (d1 & E1 & H1).
    unfold cells_run_from in *. cbn [foldM fold_left]. rewrite E1. exact (IH _ _ H1).
Qed.

Lemma repr_kind_empty : forall k, repr_kind k empty_llist [].
Proof. intros k. destruct k; apply repr_empty. Qed.

(* the run-level refinement: no history makes the pointer code dereference nil, and the final heap
   represents the sequence computed by the sequence-level model *)
Theorem cells_run_ok : forall k ops,
  exists d, cells_run k ops = Some d /\ repr_kind k d (seq_run ops).
Proof. intros k ops. exact (cells_run_from_ok k ops empty_llist [] (repr_kind_empty k)). Qed.

Theorem cells_run_never_nil : forall k ops, cells_run k ops <> None.
Proof. intros k ops. destruct (cells_run_ok k ops) as (d & E & _). rewrite E. discriminate. Qed.

(* ... and that sequence is the state of the executable machine *)
Lemma has_append_list : forall k, has_append k = true -> is_list_kind k = true.
Proof. intros k H. destruct k; try discriminate H; reflexivity. Qed.
Lemma offered_all : forall k ops, has_append k = true -> forallb (offered k) ops = true.
Proof. intros k ops H. apply forallb_forall. intros o _. destruct o; cbn [offered]; auto. Qed.

Theorem cells_run_machine : forall c ops, has_append (ckind c) = true ->
  exists d, cells_run (ckind c) ops = Some d /\
    run c ops = StSeq (seq_run ops) /\
    repr_kind (ckind c) d (values_of c (run c ops)).
Proof.
  intros c ops Hk. destruct (cells_run_ok (ckind c) ops) as (d & E & Hr).
  pose proof (has_append_list _ Hk) as Hlk.
  assert (Hrun : run c ops = StSeq (seq_run ops)).
  { rewrite (C03_refines c ops Hlk). rewrite (abs_run_offered c ops (offered_all _ ops Hk)). reflexivity. }
  exists d. split; [exact E|]. split; [exact Hrun|].
  rewrite Hrun, (values_of_list c _ Hlk). exact Hr.
Qed.

(* the observers of the pointer code on any reachable heap *)
Theorem cells_run_observers : forall k ops,
  exists d, cells_run k ops = Some d /\
    let l := seq_run ops in
    lsize d = zlen l /\
    c_values d = Some l /\
    walk_fwd d = Some l /\
    (forall vs, c_contains d vs = Some (seq_contains vs l)) /\
    (forall v, c_index_of d v = Some (seq_index_of v l)) /\
    (forall i, (if match k with SinglyLinkedList => true | _ => false end then csll_get d i else cdll_get d i)
               = Some (seq_get i l)) /\
    (k <> SinglyLinkedList -> walk_bwd d = Some (rev l)).
Proof.
  intros k ops. destruct (cells_run_ok k ops) as (d & E & Hr). exists d. split; [exact E|].
  assert (Hs : repr_sll d (seq_run ops)).
  { destruct k; cbn [repr_kind] in Hr; first [exact Hr|apply repr_dll_sll; exact Hr]. }
  cbv zeta. split; [destruct Hs as (al & _ & _ & _ & _ & _ & Hsz); exact Hsz|].
  split; [exact (c_values_ok _ _ _ Hs)|]. split; [exact (walk_fwd_ok _ _ _ Hs)|].
  split; [intros vs; rewrite <- sll_contains_eq; exact (c_contains_ok _ _ _ vs Hs)|].
  split; [intros v; rewrite <- sll_index_of_eq; exact (c_index_of_ok _ _ _ v Hs)|].
  split.
  - intros i. destruct k; cbn [repr_kind] in Hr;
      first [rewrite <- sll_get_eq; exact (csll_get_ok _ _ i Hr) | rewrite <- dll_get_eq; exact (cdll_get_ok _ _ i Hr)].
  - intros Hne. destruct k; cbn [repr_kind] in Hr; first [congruence | exact (walk_bwd_ok _ _ Hr)].
Qed.

(* ================= what `repr` says about the list header ================= *)
Theorem repr_header : forall dbl d l, repr dbl d l ->
  lsize d = zlen l /\
  (lfirst d = None <-> l = []) /\ (llast d = None <-> l = []) /\
  (forall c, deref (lheap d) (llast d) = Some c -> cnext c = None) /\
  (dbl = true -> forall c, deref (lheap d) (lfirst d) = Some c -> cprev c = None) /\
  (forall v, l = [v] -> lfirst d = llast d).
Proof.
  intros dbl d l (al & Hnd & Hlt & Hch & Hf & Hl & Hs).
  split; [exact Hs|].
  destruct (chain_cases _ _ _ _ _ _ Hch) as [[-> ->]|(a & al' & w & l' & -> & ->)].
  - simpl in Hf, Hl. rewrite Hf, Hl. repeat split; auto; try discriminate.
  - split; [rewrite Hf; split; discriminate|].
    destruct (last_or_In (a :: al') None) as (z & Hz & _); [discriminate|].
    split; [rewrite Hl, Hz; split; discriminate|]. split; [|split].
    + intros c Hc. rewrite Hl in Hc.
      destruct (list_snoc_cases _ (a :: al')) as [He|(a0 & b & He)]; [discriminate He|].
      rewrite He in Hch, Hc. rewrite last_or_snoc in Hc. simpl in Hc.
      destruct (chain_last_cell _ _ _ _ _ _ _ Hch) as (cb & Hcb & Hn). congruence.
    + intros Hd c Hc. rewrite Hf in Hc. simpl in Hc, Hch.
      destruct Hch as [(c' & Hc' & _ & _ & Hp) _]. rewrite Hc' in Hc. inversion Hc as [Hcc]. rewrite <- Hcc. exact (Hp Hd).
    + intros v Hv. inversion Hv; subst. simpl in Hch. destruct al'; [|destruct Hch as [_ []]].
      rewrite Hf, Hl. reflexivity.
Qed.
