(* The pointer-level models of Model/LinkedCells.v refine the sequence-level models of Model/Lists.v:
   under the representation predicate `repr` (a chain of pairwise distinct allocated cells carrying
   the sequence), every operation succeeds (no nil dereference is reachable) and its pointer surgery
   implements the corresponding sll_* / dll_* function. *)
From Coq Require Import ZArith List Bool Arith Lia.
From Gods Require Import Common.Cmp Spec.SeqSpec Model.Lists Model.Ops Model.LinkedCells Model.Machine.
Import ListNotations.
Local Open Scope Z_scope.

(* ---------- heap ---------- *)
Lemma hread_same : forall h a c, hread (hwrite h a c) a = Some c.
Proof. intros h a c. simpl. rewrite Nat.eqb_refl. reflexivity. Qed.
Lemma hread_other : forall h a c b, b <> a -> hread (hwrite h a c) b = hread h b.
Proof. intros h a c b Hne. simpl. destruct (Nat.eqb_spec b a) as [He|He]; [contradiction|reflexivity]. Qed.
Lemma store_some : forall h a c f, hread h a = Some c -> store h (Some a) f = Some (hwrite h a (f c)).
Proof. intros h a c f H. unfold store. rewrite H. reflexivity. Qed.

(* ---------- ends of an address list ---------- *)
Definition hd_or (al : list nat) (d : option nat) : option nat :=
  match al with [] => d | a :: _ => Some a end.
Fixpoint last_or (al : list nat) (d : option nat) : option nat :=
  match al with [] => d | a :: al' => last_or al' (Some a) end.

Lemma last_or_app : forall a1 a2 d, last_or (a1 ++ a2) d = last_or a2 (last_or a1 d).
Proof. induction a1 as [|a a1 IH]; intros a2 d; simpl; [reflexivity|apply IH]. Qed.
Lemma last_or_snoc : forall al b d, last_or (al ++ [b]) d = Some b.
Proof. intros al b d. rewrite last_or_app. reflexivity. Qed.
Lemma hd_or_app : forall a1 a2 d, hd_or (a1 ++ a2) d = hd_or a1 (hd_or a2 d).
Proof. intros [|a a1] a2 d; reflexivity. Qed.
Lemma hd_or_rev : forall al d, hd_or (rev al) d = last_or al d.
Proof.
  induction al as [|a al IH]; intros d; simpl; [reflexivity|].
  rewrite hd_or_app, IH. simpl. reflexivity.
Qed.
Lemma last_or_rev : forall al d, last_or (rev al) d = hd_or al d.
Proof. intros [|a al] d; simpl; [reflexivity|]. apply last_or_snoc. Qed.
Lemma last_or_In : forall al d, al <> [] -> exists b, last_or al d = Some b /\ In b al.
Proof.
  induction al as [|a al IH]; intros d Hne; [congruence|].
  destruct al as [|a' al'].
  - exists a. simpl. auto.
  - destruct (IH (Some a)) as (b & Hb & Hin); [congruence|].
    exists b. split; [exact Hb|right; exact Hin].
Qed.
Lemma list_snoc_cases : forall A (al : list A), al = [] \/ exists a0 b, al = a0 ++ [b].
Proof.
  intros A al. destruct al as [|a al]; [left; reflexivity|right].
  destruct (exists_last (l := a :: al)) as (a0 & b & H); [congruence|].
  exists a0, b. exact H.
Qed.

Lemma NoDup_mid : forall (a1 : list nat) x a2, NoDup (a1 ++ x :: a2) ->
  ~ In x a1 /\ ~ In x a2 /\ NoDup a1 /\ NoDup a2 /\ (forall y, In y a1 -> ~ In y a2).
Proof.
  induction a1 as [|a a1 IH]; intros x a2 H; simpl in H.
  - inversion H as [|x' l' Hnin Hnd]; subst. repeat split; auto. constructor.
  - inversion H as [|a' l' Hnin Hnd]; subst.
    destruct (IH _ _ Hnd) as (H1 & H2 & H3 & H4 & H5).
    repeat split.
    + intros [He|Hin]; [|contradiction]. subst. apply Hnin. apply in_or_app. right. left. reflexivity.
    + exact H2.
    + constructor; [|exact H3]. intro Hin. apply Hnin. apply in_or_app. left. exact Hin.
    + exact H4.
    + intros y [->|Hy] Hy2.
      * apply Hnin. apply in_or_app. right. right. exact Hy2.
      * exact (H5 y Hy Hy2).
Qed.

Lemma NoDup_app_intro : forall (a1 a2 : list nat), NoDup a1 -> NoDup a2 ->
  (forall y, In y a1 -> ~ In y a2) -> NoDup (a1 ++ a2).
Proof.
  induction a1 as [|a a1 IH]; intros a2 H1 H2 Hd; simpl; [exact H2|].
  inversion H1 as [|a' l' Hnin Hnd]; subst.
  constructor.
  - intro Hin. apply in_app_or in Hin. destruct Hin as [Hin|Hin]; [contradiction|].
    exact (Hd a (or_introl eq_refl) Hin).
  - apply IH; [exact Hnd|exact H2|]. intros y Hy. apply Hd. right. exact Hy.
Qed.

(* ---------- positional splitting ---------- *)
Lemma firstn_exact : forall A (l1 l2 : list A) k, length l1 = k -> firstn k (l1 ++ l2) = l1.
Proof.
  intros A l1 l2 k Hk. subst k. rewrite firstn_app, Nat.sub_diag, firstn_all. simpl. apply app_nil_r.
Qed.
Lemma skipn_exact : forall A (l1 l2 : list A) k, length l1 = k -> skipn k (l1 ++ l2) = l2.
Proof.
  intros A l1 l2 k Hk. subst k. rewrite skipn_app, Nat.sub_diag, skipn_all. reflexivity.
Qed.
Lemma skipn_S_exact : forall A (l1 : list A) v l2 k, length l1 = k -> skipn (S k) (l1 ++ v :: l2) = l2.
Proof.
  intros A l1 v l2 k Hk.
  replace (l1 ++ v :: l2) with ((l1 ++ [v]) ++ l2) by (rewrite <- app_assoc; reflexivity).
  apply skipn_exact. rewrite app_length. simpl. lia.
Qed.
Lemma nth_exact : forall (l1 : list Z) v l2 k d, length l1 = k -> nth k (l1 ++ v :: l2) d = v.
Proof. intros l1 v l2 k d Hk. subst k. rewrite app_nth2, Nat.sub_diag; [reflexivity|lia]. Qed.
Lemma nth_error_exact : forall A (l1 : list A) v l2 k, length l1 = k -> nth_error (l1 ++ v :: l2) k = Some v.
Proof. intros A l1 v l2 k Hk. subst k. rewrite nth_error_app2, Nat.sub_diag; [reflexivity|lia]. Qed.
Lemma upd_exact : forall (l1 : list Z) v0 l2 k v, length l1 = k -> upd k v (l1 ++ v0 :: l2) = l1 ++ v :: l2.
Proof.
  intros l1 v0 l2 k v Hk. unfold upd. rewrite firstn_exact by exact Hk.
  rewrite skipn_S_exact by exact Hk. reflexivity.
Qed.

(* ---------- sequence-level facts ---------- *)
Lemma zlen_app' : forall A (a b : list A), zlen (a ++ b) = zlen a + zlen b.
Proof. intros A a b. unfold zlen. rewrite app_length. lia. Qed.
Lemma zlen_cons' : forall A (x : A) l, zlen (x :: l) = zlen l + 1.
Proof. intros A x l. unfold zlen. simpl length. lia. Qed.
Lemma within_spec : forall A i (l : list A), within i l = true <-> 0 <= i < zlen l.
Proof. intros A i l. unfold within. rewrite andb_true_iff, Z.leb_le, Z.ltb_lt. tauto. Qed.
Lemma sll_add_app : forall vs l, sll_add vs l = l ++ vs.
Proof.
  unfold sll_add. induction vs as [|v vs IH]; intros l; simpl; [symmetry; apply app_nil_r|].
  rewrite IH, <- app_assoc. reflexivity.
Qed.
Lemma sll_prepend_app : forall vs l, sll_prepend vs l = vs ++ l.
Proof.
  unfold sll_prepend. intros vs l. rewrite <- (rev_involutive vs) at 2.
  generalize (rev vs) as r. intros r. revert l.
  induction r as [|v r IH]; intros l; simpl; [reflexivity|].
  rewrite IH, <- app_assoc. reflexivity.
Qed.

(* ================= chains of cells ================= *)
Section Chain.
  Variable dbl : bool.                          (* are the backward links part of the structure *)
  Variables nx pv : cell -> option nat.         (* forward / backward link *)

  Definition cell_ok (h : heap) (prev : option nat) (a : nat) (v : Z) (nxt : option nat) : Prop :=
    exists c, hread h a = Some c /\ cval c = v /\ nx c = nxt /\ (dbl = true -> pv c = prev).

  (* the cells at addresses al carry the values l; the first one's backward link is prev, the last
     one's forward link is nxt *)
  Fixpoint chain (h : heap) (prev : option nat) (al : list nat) (l : list Z) (nxt : option nat) : Prop :=
    match al, l with
    | [], [] => True
    | a :: al', v :: l' => cell_ok h prev a v (hd_or al' nxt) /\ chain h (Some a) al' l' nxt
    | _, _ => False
    end.

  Lemma chain_length : forall h al p l n, chain h p al l n -> length al = length l.
  Proof.
    induction al as [|a al IH]; intros p [|v l] n H; simpl in H; try contradiction; [reflexivity|].
    destruct H as [_ H]. simpl. f_equal. exact (IH _ _ _ H).
  Qed.

  Lemma chain_app : forall h a1 a2 l1 l2 p n, length a1 = length l1 ->
    (chain h p (a1 ++ a2) (l1 ++ l2) n <->
     chain h p a1 l1 (hd_or a2 n) /\ chain h (last_or a1 p) a2 l2 n).
  Proof.
    induction a1 as [|a a1 IH]; intros a2 [|v l1] l2 p n Hlen; simpl in Hlen; try discriminate.
    - simpl. tauto.
    - simpl app. cbn [chain last_or]. rewrite (IH a2 l1 l2 (Some a) n) by lia.
      rewrite hd_or_app. tauto.
  Qed.

  Lemma cell_ok_frame : forall h h' p a v n, hread h' a = hread h a -> cell_ok h p a v n -> cell_ok h' p a v n.
  Proof. intros h h' p a v n He (c & Hc & Hr). exists c. rewrite He. auto. Qed.

  Lemma chain_frame : forall h h' al p l n, (forall a, In a al -> hread h' a = hread h a) ->
    chain h p al l n -> chain h' p al l n.
  Proof.
    induction al as [|a al IH]; intros p [|v l] n Hf H; simpl in H |- *; try contradiction; [exact I|].
    destruct H as [Hc H]. split.
    - apply (cell_ok_frame h); [apply Hf; left; reflexivity|exact Hc].
    - apply IH; [|exact H]. intros b Hb. apply Hf. right. exact Hb.
  Qed.

  Lemma chain_split_at : forall h p al l n k, chain h p al l n -> (k < length al)%nat ->
    exists a1 x a2 l1 v l2, al = a1 ++ x :: a2 /\ l = l1 ++ v :: l2 /\ length a1 = k /\ length l1 = k.
  Proof.
    intros h p al l n k H Hk.
    pose proof (chain_length _ _ _ _ _ H) as Hlen.
    destruct (nth_error al k) as [x|] eqn:Ex; [|apply nth_error_None in Ex; lia].
    destruct (nth_error l k) as [v|] eqn:Ev; [|apply nth_error_None in Ev; lia].
    apply nth_error_split in Ex. destruct Ex as (a1 & a2 & -> & H1).
    apply nth_error_split in Ev. destruct Ev as (l1 & l2 & -> & H2).
    exists a1, x, a2, l1, v, l2. auto.
  Qed.

  (* n iterations of `element = element.next` *)
  Lemma chain_walk : forall h a1 a2 p l n, chain h p (a1 ++ a2) l n ->
    walk nx h (hd_or (a1 ++ a2) n) (length a1) = Some (hd_or a2 n).
  Proof.
    induction a1 as [|a a1 IH]; intros a2 p l n H; [reflexivity|].
    destruct l as [|v l]; simpl in H; [contradiction|].
    destruct H as [(c & Hc & _ & Hn & _) H].
    simpl. rewrite Hc, Hn. exact (IH _ _ _ _ H).
  Qed.

  Lemma chain_walk_cells : forall h al p l seen, chain h p al l None ->
    walk_cells nx h (hd_or al None) seen (length al) = Some (l, last_or al seen).
  Proof.
    induction al as [|a al IH]; intros p [|v l] seen H; simpl in H; try contradiction; [reflexivity|].
    destruct H as [(c & Hc & Hv & Hn & _) H].
    simpl. rewrite Hc, Hn. rewrite (IH _ _ (Some a) H). simpl. rewrite Hv. reflexivity.
  Qed.
End Chain.

(* a doubly linked chain read backwards is a doubly linked chain *)
Lemma chain_rev : forall nx pv h al p l n, chain true nx pv h p al l n ->
  chain true pv nx h n (rev al) (rev l) p.
Proof.
  intros nx pv h. induction al as [|a al IH]; intros p [|v l] n H; simpl in H; try contradiction; [exact I|].
  destruct H as [(c & Hc & Hv & Hn & Hp) H].
  simpl rev. apply chain_app; [rewrite !rev_length; exact (chain_length _ _ _ _ _ _ _ _ H)|].
  split.
  - simpl. exact (IH _ _ _ H).
  - simpl. split; [|exact I]. exists c. rewrite last_or_rev.
    repeat split; auto.
Qed.

Lemma chain_weaken : forall dbl nx pv h al p l n, chain dbl nx pv h p al l n -> chain false nx pv h p al l n.
Proof.
  intros dbl nx pv h. induction al as [|a al IH]; intros p [|v l] n H; simpl in H |- *; try contradiction; [exact I|].
  destruct H as [(c & Hc & Hv & Hn & _) H]. split; [|exact (IH _ _ _ H)].
  exists c. repeat split; auto. discriminate.
Qed.

Notation fchain dbl := (chain dbl cnext cprev).

(* `for e := 0; e != index; ... { beforeElement = element }` *)
Lemma chain_walk_track : forall dbl h a1 a2 p l n b0, fchain dbl h p (a1 ++ a2) l n ->
  walk_track h b0 (hd_or (a1 ++ a2) n) (length a1) = Some (last_or a1 b0, hd_or a2 n).
Proof.
  intros dbl h. induction a1 as [|a a1 IH]; intros a2 p l n b0 H; [reflexivity|].
  destruct l as [|v l]; simpl in H; [contradiction|].
  destruct H as [(c & Hc & _ & Hn & _) H].
  simpl. rewrite Hc, Hn. exact (IH _ _ _ _ _ H).
Qed.

Lemma chain_values : forall dbl h al p l, fchain dbl h p al l None ->
  values_from h (hd_or al None) (length al) = Some l.
Proof.
  intros dbl h. induction al as [|a al IH]; intros p [|v l] H; simpl in H; try contradiction; [reflexivity|].
  destruct H as [(c & Hc & Hv & Hn & _) H].
  simpl. rewrite Hc, Hn, (IH _ _ H), Hv. reflexivity.
Qed.

Lemma chain_find : forall dbl h v al p l fuel, fchain dbl h p al l None -> (length al < fuel)%nat ->
  find_from h (hd_or al None) v fuel = Some (existsb (fun x => x =? v) l).
Proof.
  intros dbl h v. induction al as [|a al IH]; intros p [|w l] fuel H Hf; simpl in H; try contradiction.
  - destruct fuel; reflexivity.
  - destruct H as [(c & Hc & Hv & Hn & _) H].
    destruct fuel as [|fuel]; [simpl in Hf; lia|].
    simpl. rewrite Hc, Hv, Hn. destruct (w =? v); [reflexivity|].
    apply (IH _ _ _ H). simpl in Hf. lia.
Qed.

Lemma chain_contains : forall dbl h al p l fuel vs, fchain dbl h p al l None -> (length al < fuel)%nat ->
  contains_loop h (hd_or al None) vs fuel = Some (forallb (fun v => existsb (fun x => x =? v) l) vs).
Proof.
  intros dbl h al p l fuel vs H Hf. induction vs as [|v vs IH]; [reflexivity|].
  simpl. rewrite (chain_find _ _ _ _ _ _ _ H Hf).
  destruct (existsb (fun x => x =? v) l); [exact IH|reflexivity].
Qed.

(* ---------- single-cell updates ---------- *)
Lemma chain_frame_write : forall dbl h al p l n x c, ~ In x al ->
  fchain dbl h p al l n -> fchain dbl (hwrite h x c) p al l n.
Proof.
  intros dbl h al p l n x c Hnin H. apply (chain_frame _ _ _ h); [|exact H].
  intros a Ha. apply hread_other. intro He. subst. contradiction.
Qed.

(* value of one cell *)
Lemma chain_set_val : forall dbl h p a1 x a2 l1 v0 l2 n c v,
  fchain dbl h p (a1 ++ x :: a2) (l1 ++ v0 :: l2) n -> length a1 = length l1 ->
  NoDup (a1 ++ x :: a2) -> hread h x = Some c ->
  fchain dbl (hwrite h x (with_val v c)) p (a1 ++ x :: a2) (l1 ++ v :: l2) n.
Proof.
  intros dbl h p a1 x a2 l1 v0 l2 n c v H Hlen Hnd Hc.
  destruct (NoDup_mid _ _ _ Hnd) as (Hx1 & Hx2 & _).
  apply chain_app in H; [|exact Hlen]. destruct H as [H1 H2].
  apply chain_app; [exact Hlen|]. split.
  - apply chain_frame_write; assumption.
  - simpl in H2 |- *. destruct H2 as [(c' & Hc' & Hv & Hn & Hp) H2]. split.
    + exists (with_val v c). rewrite hread_same. rewrite Hc in Hc'. inversion Hc'; subst c'.
      repeat split; auto.
    + apply chain_frame_write; assumption.
Qed.

(* forward link of the last cell of a segment *)
Lemma chain_relink_next : forall dbl h p a0 b l n c n',
  fchain dbl h p (a0 ++ [b]) l n -> NoDup (a0 ++ [b]) -> hread h b = Some c ->
  fchain dbl (hwrite h b (with_next n' c)) p (a0 ++ [b]) l n'.
Proof.
  intros dbl h p a0 b l n c n' H Hnd Hc.
  destruct (NoDup_mid _ _ _ Hnd) as (Hb & _).
  pose proof (chain_length _ _ _ _ _ _ _ _ H) as Hlen. rewrite app_length in Hlen. simpl in Hlen.
  destruct (list_snoc_cases _ l) as [->|(l0 & v & ->)]; [simpl in Hlen; lia|].
  rewrite app_length in Hlen. simpl in Hlen.
  apply chain_app in H; [|lia]. destruct H as [H1 H2].
  apply chain_app; [lia|]. split.
  - apply chain_frame_write; assumption.
  - simpl in H2 |- *. destruct H2 as [(c' & Hc' & Hv & Hn & Hp) _]. split; [|exact I].
    exists (with_next n' c). rewrite hread_same. rewrite Hc in Hc'. inversion Hc'; subst c'.
    repeat split; auto.
Qed.

(* backward link of the first cell of a segment *)
Lemma chain_relink_prev : forall dbl h p y a2 l n c p',
  fchain dbl h p (y :: a2) l n -> NoDup (y :: a2) -> hread h y = Some c ->
  fchain dbl (hwrite h y (with_prev p' c)) p' (y :: a2) l n.
Proof.
  intros dbl h p y a2 l n c p' H Hnd Hc.
  inversion Hnd as [|y' l' Hnin Hnd']; subst.
  destruct l as [|v l]; simpl in H; [contradiction|].
  destruct H as [(c' & Hc' & Hv & Hn & Hp) H]. simpl. split.
  - exists (with_prev p' c). rewrite hread_same. rewrite Hc in Hc'. inversion Hc'; subst c'.
    repeat split; auto.
  - apply chain_frame_write; assumption.
Qed.

(* without backward links the `prev` parameter is irrelevant *)
Lemma chain_false_prev : forall h p p' al l n, fchain false h p al l n -> fchain false h p' al l n.
Proof.
  intros h p p' [|a al] [|v l] n H; simpl in H |- *; try contradiction; [exact I|].
  destruct H as [(c & Hc & Hv & Hn & _) H]. split; [|exact H].
  exists c. repeat split; auto. discriminate.
Qed.

(* a new cell linked behind the last cell of a segment *)
Lemma chain_snoc : forall dbl h h1 p a0 b l nxt0 cb n cn v,
  fchain dbl h p (a0 ++ [b]) l nxt0 -> NoDup (a0 ++ [b]) -> ~ In n (a0 ++ [b]) ->
  hread h b = Some cb ->
  (forall a, a <> n -> hread h1 a = hread h a) ->
  hread h1 n = Some cn -> cval cn = v -> cnext cn = None -> (dbl = true -> cprev cn = Some b) ->
  fchain dbl (hwrite h1 b (with_next (Some n) cb)) p ((a0 ++ [b]) ++ [n]) (l ++ [v]) None.
Proof.
  intros dbl h h1 p a0 b l nxt0 cb n cn v H Hnd Hn Hcb Hfr Hcn Hv Hnx Hpv.
  assert (Hbn : b <> n). { intro He. subst. apply Hn. apply in_or_app. right. left. reflexivity. }
  assert (H1 : fchain dbl h1 p (a0 ++ [b]) l nxt0).
  { apply (chain_frame _ _ _ h); [|exact H]. intros a Ha. apply Hfr. intro He. subst. contradiction. }
  apply chain_app; [exact (chain_length _ _ _ _ _ _ _ _ H)|]. split.
  - simpl hd_or. apply (chain_relink_next _ _ _ _ _ _ nxt0); [exact H1|exact Hnd|].
    rewrite Hfr by exact Hbn. exact Hcb.
  - rewrite last_or_snoc. simpl. split; [|exact I].
    exists cn. rewrite hread_other by congruence. repeat split; auto.
Qed.

(* ================= the representation predicate ================= *)
Definition repr (dbl : bool) (d : llist) (l : list Z) : Prop :=
  exists al, NoDup al /\ Forall (fun a => (a < lnext_addr d)%nat) al /\
    fchain dbl (lheap d) None al l None /\
    lfirst d = hd_or al None /\ llast d = last_or al None /\ lsize d = zlen l.
Definition repr_sll := repr false.
Definition repr_dll := repr true.

Ltac lsimpl := cbn [lheap lfirst llast lsize lnext_addr set_heap set_first set_last set_size alloc c_clear fst snd].
Ltac lsimpl_in H := cbn [lheap lfirst llast lsize lnext_addr set_heap set_first set_last set_size alloc c_clear fst snd] in H.

Lemma repr_dll_sll : forall d l, repr_dll d l -> repr_sll d l.
Proof.
  intros d l (al & Hnd & Hlt & Hch & Hr). exists al. repeat split; try tauto.
  exact (chain_weaken _ _ _ _ _ _ _ _ Hch).
Qed.

Lemma repr_empty : forall dbl, repr dbl empty_llist [].
Proof. intros dbl. exists []. simpl. repeat split; constructor. Qed.

Lemma repr_clear : forall dbl d, repr dbl (c_clear d) [].
Proof. intros dbl d. exists []. simpl. repeat split; constructor. Qed.

Lemma c_within_eq : forall d (l : list Z) i, lsize d = zlen l -> c_within d i = within i l.
Proof. intros d l i Hs. unfold c_within, within. rewrite Hs. reflexivity. Qed.

Lemma Forall_lt_S : forall al n, Forall (fun a => (a < n)%nat) al -> Forall (fun a => (a < S n)%nat) al.
Proof. intros al n H. eapply Forall_impl; [|exact H]. simpl. intros a Ha. lia. Qed.
Lemma Forall_lt_notin : forall al n, Forall (fun a => (a < n)%nat) al -> ~ In n al.
Proof. intros al n H Hin. rewrite Forall_forall in H. specialize (H _ Hin). lia. Qed.

Lemma foldM_ok : forall (R : llist -> list Z -> Prop) (f : llist -> Z -> option llist) (g : list Z -> Z -> list Z),
  (forall d l v, R d l -> exists d', f d v = Some d' /\ R d' (g l v)) ->
  forall vs d l, R d l -> exists d', foldM f vs d = Some d' /\ R d' (fold_left g vs l).
Proof.
  intros R f g Hstep. induction vs as [|v vs IH]; intros d l HR; simpl.
  - exists d. auto.
  - destruct (Hstep d l v HR) as (d1 & -> & HR1). exact (IH _ _ HR1).
Qed.

(* ---------- Add ---------- *)
Definition gadd1 (pvn : option nat) (d : llist) (v : Z) : option llist :=
  let '(d1, ne) := alloc d {| cval := v; cnext := None; cprev := pvn |} in
  if lsize d1 =? 0 then Some (set_size (set_last (set_first d1 ne) ne) (lsize d1 + 1))
  else match store (lheap d1) (llast d1) (with_next ne) with
       | Some h => Some (set_size (set_last (set_heap d1 h) ne) (lsize d1 + 1))
       | None => None
       end.

Lemma gadd1_ok : forall dbl pvn d l v, repr dbl d l -> (dbl = true -> pvn = llast d) ->
  exists d', gadd1 pvn d v = Some d' /\ repr dbl d' (l ++ [v]).
Proof.
  intros dbl pvn d l v (al & Hnd & Hlt & Hch & Hf & Hl & Hs) Hp.
  unfold gadd1. lsimpl. rewrite Hs.
  destruct (list_snoc_cases _ al) as [->|(a0 & b & ->)].
  - destruct l as [|w l]; [|simpl in Hch; contradiction].
    change (zlen (@nil Z)) with 0. simpl (0 =? 0).
    eexists. split; [reflexivity|].
    exists [lnext_addr d]. lsimpl. repeat split.
    + constructor; [intros []|constructor].
    + constructor; [lia|constructor].
    + eexists. rewrite hread_same. repeat split. simpl. intro Hd. rewrite (Hp Hd), Hl. reflexivity.
  - pose proof (chain_length _ _ _ _ _ _ _ _ Hch) as Hlen.
    rewrite app_length in Hlen. simpl in Hlen.
    assert (Hz : zlen l =? 0 = false). { apply Z.eqb_neq. unfold zlen. lia. }
    rewrite Hz. rewrite Hl, last_or_snoc.
    assert (Hb : exists cb, hread (lheap d) b = Some cb).
    { destruct (list_snoc_cases _ l) as [->|(l0 & w & ->)]; [simpl in Hlen; lia|].
      rewrite app_length in Hlen. simpl in Hlen.
      apply chain_app in Hch; [|lia]. destruct Hch as [_ [(cb & Hcb & _) _]]. exists cb. exact Hcb. }
    destruct Hb as (cb & Hcb).
    pose proof (Forall_lt_notin _ _ Hlt) as Hfresh.
    assert (Hbn : b <> lnext_addr d).
    { intro He. apply Hfresh. rewrite <- He. apply in_or_app. right. left. reflexivity. }
    rewrite (store_some _ _ cb); [|rewrite hread_other by exact Hbn; exact Hcb].
    eexists. split; [reflexivity|].
    exists ((a0 ++ [b]) ++ [lnext_addr d]). lsimpl. repeat split.
    + apply NoDup_app_intro; [exact Hnd|constructor; [intros []|constructor]|].
      intros y Hy [He|[]]. subst. contradiction.
    + apply Forall_app. split; [apply Forall_lt_S; exact Hlt|constructor; [lia|constructor]].
    + eapply chain_snoc; try eassumption.
      * intros a Ha. apply hread_other. exact Ha.
      * apply hread_same.
      * reflexivity.
      * reflexivity.
      * simpl. intro Hd. rewrite (Hp Hd), Hl, last_or_snoc. reflexivity.
    + rewrite Hf, !hd_or_app. reflexivity.
    + rewrite last_or_snoc. reflexivity.
    + rewrite zlen_app'. reflexivity.
Qed.

Lemma csll_add1_eq : forall d v, csll_add1 d v = gadd1 None d v.
Proof. reflexivity. Qed.
Lemma cdll_add1_eq : forall d v, cdll_add1 d v = gadd1 (llast d) d v.
Proof. reflexivity. Qed.

Theorem csll_add_ok : forall d l vs, repr_sll d l ->
  exists d', csll_add d vs = Some d' /\ repr_sll d' (sll_add vs l).
Proof.
  intros d l vs H. unfold csll_add, sll_add.
  apply (foldM_ok (repr false) csll_add1 (fun acc v => acc ++ [v])); [|exact H].
  intros d0 l0 v H0. rewrite csll_add1_eq. apply gadd1_ok; [exact H0|discriminate].
Qed.

Theorem cdll_add_ok : forall d l vs, repr_dll d l ->
  exists d', cdll_add d vs = Some d' /\ repr_dll d' (dll_add vs l).
Proof.
  intros d l vs H. unfold cdll_add, dll_add, sll_add.
  apply (foldM_ok (repr true) cdll_add1 (fun acc v => acc ++ [v])); [|exact H].
  intros d0 l0 v H0. rewrite cdll_add1_eq. apply gadd1_ok; [exact H0|reflexivity].
Qed.

(* ---------- Prepend ---------- *)
Lemma chain_cases : forall dbl h p al l n, fchain dbl h p al l n ->
  (al = [] /\ l = []) \/ (exists a al' v l', al = a :: al' /\ l = v :: l').
Proof.
  intros dbl h p [|a al] [|v l] n H; simpl in H; try contradiction.
  - left. auto.
  - right. exists a, al, v, l. auto.
Qed.

Lemma zlen_nil' : forall A, zlen (@nil A) = 0.
Proof. reflexivity. Qed.
Lemma zlen_cons_nz : forall A (x : A) l, zlen (x :: l) =? 0 = false.
Proof. intros A x l. apply Z.eqb_neq. rewrite zlen_cons'. unfold zlen. lia. Qed.

Ltac rsplit := split; [|split; [|split; [|split; [|split]]]].

Lemma csll_prepend1_ok : forall d l v, repr false d l ->
  exists d', csll_prepend1 d v = Some d' /\ repr false d' (v :: l).
Proof.
  intros d l v (al & Hnd & Hlt & Hch & Hf & Hl & Hs).
  unfold csll_prepend1. lsimpl. eexists. split; [reflexivity|].
  pose proof (Forall_lt_notin _ _ Hlt) as Hfresh.
  exists (lnext_addr d :: al).
  assert (Hc : fchain false (hwrite (lheap d) (lnext_addr d) {| cval := v; cnext := lfirst d; cprev := None |})
                 None (lnext_addr d :: al) (v :: l) None).
  { simpl. split.
    - eexists. rewrite hread_same. repeat split; auto; discriminate.
    - apply chain_frame_write; [exact Hfresh|]. exact (chain_false_prev _ _ _ _ _ _ Hch). }
  destruct (chain_cases _ _ _ _ _ _ Hch) as [[-> ->]|(a & al' & w & l' & -> & ->)].
  - rewrite Hs. change (zlen (@nil Z) =? 0) with true. lsimpl. rsplit.
    + constructor; [exact Hfresh|exact Hnd].
    + constructor; [lia|constructor].
    + exact Hc.
    + reflexivity.
    + reflexivity.
    + reflexivity.
  - rewrite Hs, zlen_cons_nz. lsimpl. rsplit.
    + constructor; [exact Hfresh|exact Hnd].
    + constructor; [lia|apply Forall_lt_S; exact Hlt].
    + exact Hc.
    + reflexivity.
    + exact Hl.
    + rewrite (zlen_cons' _ v). reflexivity.
Qed.

Theorem csll_prepend_ok : forall d l vs, repr_sll d l ->
  exists d', csll_prepend d vs = Some d' /\ repr_sll d' (sll_prepend vs l).
Proof.
  intros d l vs H. unfold csll_prepend, sll_prepend.
  apply (foldM_ok (repr false) csll_prepend1 (fun acc v => v :: acc)); [|exact H].
  intros d0 l0 v H0. apply csll_prepend1_ok. exact H0.
Qed.

Lemma cdll_prepend1_ok : forall d l v, repr true d l ->
  exists d', cdll_prepend1 d v = Some d' /\ repr true d' (v :: l).
Proof.
  intros d l v (al & Hnd & Hlt & Hch & Hf & Hl & Hs).
  unfold cdll_prepend1. lsimpl.
  pose proof (Forall_lt_notin _ _ Hlt) as Hfresh.
  destruct (chain_cases _ _ _ _ _ _ Hch) as [[-> ->]|(a & al' & w & l' & -> & ->)].
  - rewrite Hs. change (zlen (@nil Z) =? 0) with true. lsimpl.
    eexists. split; [reflexivity|].
    exists [lnext_addr d]. lsimpl. rsplit.
    + constructor; [exact Hfresh|exact Hnd].
    + constructor; [lia|constructor].
    + simpl. split; [|exact I]. eexists. rewrite hread_same. repeat split; auto.
    + reflexivity.
    + reflexivity.
    + reflexivity.
  - rewrite Hs, zlen_cons_nz. rewrite Hf. simpl hd_or.
    assert (Han : a <> lnext_addr d). { intro He. apply Hfresh. left. exact He. }
    pose proof Hch as Hch0. simpl in Hch0. destruct Hch0 as [(ca & Hca & _) _].
    rewrite (store_some _ _ ca); [|rewrite hread_other by exact Han; exact Hca].
    eexists. split; [reflexivity|].
    exists (lnext_addr d :: a :: al'). lsimpl. rsplit.
    + constructor; [exact Hfresh|exact Hnd].
    + constructor; [lia|apply Forall_lt_S; exact Hlt].
    + change (cell_ok true cnext cprev
               (hwrite (hwrite (lheap d) (lnext_addr d) {| cval := v; cnext := Some a; cprev := None |})
                  a (with_prev (Some (lnext_addr d)) ca)) None (lnext_addr d) v (Some a) /\
              fchain true (hwrite (hwrite (lheap d) (lnext_addr d) {| cval := v; cnext := Some a; cprev := None |})
                  a (with_prev (Some (lnext_addr d)) ca)) (Some (lnext_addr d)) (a :: al') (w :: l') None).
      split.
      * eexists. rewrite hread_other by congruence. rewrite hread_same. repeat split; auto.
      * apply (chain_relink_prev _ _ None); [|exact Hnd|rewrite hread_other by exact Han; exact Hca].
        apply chain_frame_write; [exact Hfresh|exact Hch].
    + reflexivity.
    + exact Hl.
    + rewrite (zlen_cons' _ v). reflexivity.
Qed.

Theorem cdll_prepend_ok : forall d l vs, repr_dll d l ->
  exists d', cdll_prepend d vs = Some d' /\ repr_dll d' (dll_prepend vs l).
Proof.
  intros d l vs H. unfold cdll_prepend, dll_prepend, sll_prepend.
  apply (foldM_ok (repr true) cdll_prepend1 (fun acc v => v :: acc)); [|exact H].
  intros d0 l0 v H0. apply cdll_prepend1_ok. exact H0.
Qed.

(* ---------- observers shared by the two lists ---------- *)
Lemma to_nat_zlen : forall A (l : list A), Z.to_nat (zlen l) = length l.
Proof. intros A l. unfold zlen. apply Nat2Z.id. Qed.
Lemma zlen_ltb0 : forall A (l : list A), zlen l <? 0 = false.
Proof. intros A l. apply Z.ltb_ge. unfold zlen. lia. Qed.

Lemma ptr_eqb_refl : forall p, ptr_eqb p p = true.
Proof. intros [a|]; simpl; [apply Nat.eqb_refl|reflexivity]. Qed.
Lemma ptr_eqb_notin : forall x z (al : list nat), In z al -> ~ In x al -> ptr_eqb (Some x) (Some z) = false.
Proof. intros x z al Hz Hx. simpl. apply Nat.eqb_neq. intro He. subst. contradiction. Qed.
Lemma ptr_eqb_hd_false : forall x a1 d, a1 <> [] -> ~ In x a1 -> ptr_eqb (Some x) (hd_or a1 d) = false.
Proof.
  intros x [|a a1] d Hne Hx; [congruence|]. simpl hd_or.
  apply (ptr_eqb_notin _ _ (a :: a1)); [left; reflexivity|exact Hx].
Qed.
Lemma ptr_eqb_last_false : forall x a2 d, a2 <> [] -> ~ In x a2 -> ptr_eqb (Some x) (last_or a2 d) = false.
Proof.
  intros x a2 d Hne Hx. destruct (last_or_In a2 d Hne) as (b & -> & Hb).
  exact (ptr_eqb_notin _ _ _ Hb Hx).
Qed.

Lemma NoDup_lt_length : forall al n, NoDup al -> Forall (fun a => (a < n)%nat) al -> (length al <= n)%nat.
Proof.
  intros al n Hnd Hlt. rewrite <- (seq_length n 0).
  apply NoDup_incl_length; [exact Hnd|].
  intros a Ha. rewrite Forall_forall in Hlt. apply in_seq. specialize (Hlt _ Ha). lia.
Qed.

Theorem c_values_ok : forall dbl d l, repr dbl d l -> c_values d = Some l.
Proof.
  intros dbl d l (al & Hnd & Hlt & Hch & Hf & Hl & Hs).
  unfold c_values. rewrite Hs, zlen_ltb0, to_nat_zlen, Hf.
  rewrite <- (chain_length _ _ _ _ _ _ _ _ Hch). exact (chain_values _ _ _ _ _ Hch).
Qed.

Theorem c_contains_ok : forall dbl d l vs, repr dbl d l -> c_contains d vs = Some (sll_contains vs l).
Proof.
  intros dbl d l vs (al & Hnd & Hlt & Hch & Hf & Hl & Hs).
  unfold c_contains, sll_contains. destruct vs as [|v vs]; [reflexivity|].
  rewrite Hs. destruct l as [|w l]; [reflexivity|]. rewrite zlen_cons_nz, Hf.
  apply (chain_contains _ _ _ _ _ _ _ Hch).
  pose proof (NoDup_lt_length _ _ Hnd Hlt). lia.
Qed.

Theorem c_index_of_ok : forall dbl d l v, repr dbl d l -> c_index_of d v = Some (sll_index_of v l).
Proof.
  intros dbl d l v H. unfold c_index_of, sll_index_of.
  rewrite (c_values_ok _ _ _ H). destruct H as (al & _ & _ & _ & _ & _ & Hs). rewrite Hs.
  destruct l as [|w l]; [reflexivity|]. rewrite zlen_cons_nz. reflexivity.
Qed.

Theorem walk_fwd_ok : forall dbl d l, repr dbl d l -> walk_fwd d = Some l.
Proof.
  intros dbl d l (al & Hnd & Hlt & Hch & Hf & Hl & Hs).
  unfold walk_fwd. rewrite Hs, zlen_ltb0, to_nat_zlen, Hf, Hl.
  rewrite <- (chain_length _ _ _ _ _ _ _ _ Hch).
  rewrite (chain_walk_cells _ _ _ _ _ _ _ None Hch). simpl fst. simpl snd.
  rewrite ptr_eqb_refl. reflexivity.
Qed.

Theorem walk_bwd_ok : forall d l, repr_dll d l -> walk_bwd d = Some (rev l).
Proof.
  intros d l (al & Hnd & Hlt & Hch & Hf & Hl & Hs).
  unfold walk_bwd. rewrite Hs, zlen_ltb0, to_nat_zlen, Hf, Hl.
  rewrite <- (chain_length _ _ _ _ _ _ _ _ Hch).
  apply chain_rev in Hch.
  rewrite <- hd_or_rev, <- (rev_length al).
  rewrite (chain_walk_cells _ _ _ _ _ _ _ None Hch). simpl fst. simpl snd.
  rewrite last_or_rev, ptr_eqb_refl. reflexivity.
Qed.

(* ---------- locating the cell of a valid index ---------- *)
Lemma chain_mid_cell : forall dbl h p a1 x a2 l1 v l2 n,
  fchain dbl h p (a1 ++ x :: a2) (l1 ++ v :: l2) n -> length a1 = length l1 ->
  cell_ok dbl cnext cprev h (last_or a1 p) x v (hd_or a2 n).
Proof.
  intros dbl h p a1 x a2 l1 v l2 n H Hlen. apply chain_app in H; [|exact Hlen].
  destruct H as [_ H]. simpl in H. tauto.
Qed.

Lemma chain_split_within : forall dbl h p al l n i, fchain dbl h p al l n -> within i l = true ->
  exists a1 x a2 l1 v l2, al = a1 ++ x :: a2 /\ l = l1 ++ v :: l2 /\
    length a1 = Z.to_nat i /\ length l1 = Z.to_nat i.
Proof.
  intros dbl h p al l n i H W. apply within_spec in W.
  apply (chain_split_at _ _ _ _ _ _ _ _ (Z.to_nat i) H).
  rewrite (chain_length _ _ _ _ _ _ _ _ H). unfold zlen in W. lia.
Qed.

(* ---------- Get, Set (singly linked) ---------- *)
Theorem csll_get_ok : forall d l i, repr_sll d l -> csll_get d i = Some (sll_get i l).
Proof.
  intros d l i (al & Hnd & Hlt & Hch & Hf & Hl & Hs).
  unfold csll_get, sll_get. rewrite (c_within_eq _ l) by exact Hs.
  destruct (within i l) eqn:W; simpl negb; cbv iota; [|reflexivity].
  destruct (chain_split_within _ _ _ _ _ _ _ Hch W) as (a1 & x & a2 & l1 & v & l2 & -> & -> & Ha1 & Hl1).
  rewrite Hf, <- Ha1, (chain_walk _ _ _ _ _ _ _ _ _ Hch).
  destruct (chain_mid_cell _ _ _ _ _ _ _ _ _ _ Hch) as (c & Hc & Hv & _); [lia|].
  simpl. rewrite Hc, Hv. rewrite nth_error_exact by lia. reflexivity.
Qed.

Lemma repr_set_val : forall dbl d a1 x a2 l1 v0 l2 v,
  NoDup (a1 ++ x :: a2) -> Forall (fun a => (a < lnext_addr d)%nat) (a1 ++ x :: a2) ->
  fchain dbl (lheap d) None (a1 ++ x :: a2) (l1 ++ v0 :: l2) None ->
  lfirst d = hd_or (a1 ++ x :: a2) None -> llast d = last_or (a1 ++ x :: a2) None ->
  lsize d = zlen (l1 ++ v0 :: l2) -> length a1 = length l1 ->
  exists h, store (lheap d) (Some x) (with_val v) = Some h /\ repr dbl (set_heap d h) (l1 ++ v :: l2).
Proof.
  intros dbl d a1 x a2 l1 v0 l2 v Hnd Hlt Hch Hf Hl Hs Hlen.
  destruct (chain_mid_cell _ _ _ _ _ _ _ _ _ _ Hch Hlen) as (c & Hc & _).
  rewrite (store_some _ _ c _ Hc). eexists. split; [reflexivity|].
  exists (a1 ++ x :: a2). lsimpl. rsplit; try assumption.
  - apply (chain_set_val _ _ _ _ _ _ _ v0); assumption.
  - rewrite Hs, !zlen_app', !zlen_cons'. reflexivity.
Qed.

Theorem csll_set_ok : forall d l i v, repr_sll d l ->
  exists d', csll_set d i v = Some d' /\ repr_sll d' (sll_set i v l).
Proof.
  intros d l i v H. pose proof H as (al & Hnd & Hlt & Hch & Hf & Hl & Hs).
  unfold csll_set, sll_set. rewrite (c_within_eq _ l) by exact Hs.
  destruct (within i l) eqn:W; simpl negb; cbv iota.
  - destruct (chain_split_within _ _ _ _ _ _ _ Hch W) as (a1 & x & a2 & l1 & v0 & l2 & -> & -> & Ha1 & Hl1).
    rewrite Hf, <- Ha1, (chain_walk _ _ _ _ _ _ _ _ _ Hch). simpl hd_or.
    destruct (repr_set_val _ _ _ _ _ _ _ _ v Hnd Hlt Hch Hf Hl Hs) as (h & -> & Hr); [lia|].
    eexists. split; [reflexivity|]. rewrite Ha1, upd_exact by lia. exact Hr.
  - rewrite Hs. destruct (i =? zlen l).
    + apply csll_add_ok. exact H.
    + exists d. split; [reflexivity|exact H].
Qed.

(* ---------- Remove (singly linked) ---------- *)
Lemma last_or_nonempty : forall al d d', al <> [] -> last_or al d = last_or al d'.
Proof. intros [|a al] d d' Hne; [congruence|reflexivity]. Qed.
Lemma snoc_not_nil : forall A (a0 : list A) b, a0 ++ [b] <> [].
Proof. intros A [|a a0] b; discriminate. Qed.

Lemma chain_last_cell : forall dbl h p a0 b l n, fchain dbl h p (a0 ++ [b]) l n ->
  exists cb, hread h b = Some cb /\ cnext cb = n.
Proof.
  intros dbl h p a0 b l n H.
  pose proof (chain_length _ _ _ _ _ _ _ _ H) as Hlen. rewrite app_length in Hlen. simpl in Hlen.
  destruct (list_snoc_cases _ l) as [->|(l0 & w & ->)]; [simpl in Hlen; lia|].
  rewrite app_length in Hlen. simpl in Hlen.
  apply chain_app in H; [|lia]. destruct H as [_ [(cb & Hcb & _ & Hn & _) _]].
  exists cb. auto.
Qed.

Lemma relink_next_opt : forall dbl h p a1 l1 n n', fchain dbl h p a1 l1 n -> NoDup a1 ->
  exists h', (if is_nil (last_or a1 None) then Some h else store h (last_or a1 None) (with_next n')) = Some h' /\
    fchain dbl h' p a1 l1 n' /\ (forall a, ~ In a a1 -> hread h' a = hread h a).
Proof.
  intros dbl h p a1 l1 n n' H Hnd.
  destruct (list_snoc_cases _ a1) as [->|(a0 & b & ->)].
  - simpl. exists h. split; [reflexivity|]. split; [|auto].
    destruct l1; simpl in H |- *; tauto.
  - rewrite last_or_snoc. simpl is_nil. cbv iota.
    destruct (chain_last_cell _ _ _ _ _ _ _ H) as (cb & Hcb & _).
    rewrite (store_some _ _ cb _ Hcb). eexists. split; [reflexivity|]. split.
    + apply (chain_relink_next _ _ _ _ _ _ n); assumption.
    + intros a Ha. apply hread_other. intro He. subst. apply Ha. apply in_or_app. right. left. reflexivity.
Qed.

Lemma relink_prev_opt : forall dbl h p a2 l2 n p', fchain dbl h p a2 l2 n -> NoDup a2 ->
  exists h', (if is_nil (hd_or a2 None) then Some h else store h (hd_or a2 None) (with_prev p')) = Some h' /\
    fchain dbl h' p' a2 l2 n /\ (forall a, ~ In a a2 -> hread h' a = hread h a).
Proof.
  intros dbl h p a2 l2 n p' H Hnd.
  destruct a2 as [|y a2].
  - simpl. exists h. split; [reflexivity|]. split; [|auto].
    destruct l2; simpl in H |- *; tauto.
  - simpl hd_or. simpl is_nil. cbv iota.
    assert (Hy : exists cy, hread h y = Some cy).
    { destruct l2 as [|w l2]; simpl in H; [contradiction|]. destruct H as [(cy & Hcy & _) _]. exists cy. exact Hcy. }
    destruct Hy as (cy & Hcy).
    rewrite (store_some _ _ cy _ Hcy). eexists. split; [reflexivity|]. split.
    + apply (chain_relink_prev _ _ p); assumption.
    + intros a Ha. apply hread_other. intro He. subst. apply Ha. left. reflexivity.
Qed.

Lemma zlen_mid_minus : forall (l1 : list Z) v l2, zlen (l1 ++ v :: l2) - 1 = zlen (l1 ++ l2).
Proof. intros l1 v l2. rewrite !zlen_app', zlen_cons'. lia. Qed.

Lemma Forall_mid_remove : forall (P : nat -> Prop) a1 x a2, Forall P (a1 ++ x :: a2) -> Forall P (a1 ++ a2).
Proof.
  intros P a1 x a2 H. apply Forall_app in H. destruct H as [H1 H2].
  apply Forall_app. split; [exact H1|]. inversion H2; assumption.
Qed.
Lemma NoDup_mid_remove : forall (a1 : list nat) x a2, NoDup (a1 ++ x :: a2) -> NoDup (a1 ++ a2).
Proof. intros a1 x a2 H. exact (NoDup_remove_1 _ _ _ H). Qed.

Theorem csll_remove_ok : forall d l i, repr_sll d l ->
  exists d', csll_remove d i = Some d' /\ repr_sll d' (sll_remove i l).
Proof.
  intros d l i H. pose proof H as (al & Hnd & Hlt & Hch & Hf & Hl & Hs).
  unfold csll_remove, sll_remove. rewrite (c_within_eq _ l) by exact Hs.
  destruct (within i l) eqn:W; simpl negb; cbv iota.
  2: { exists d. split; [reflexivity|exact H]. }
  rewrite Hs. destruct (zlen l =? 1) eqn:E1.
  { eexists. split; [reflexivity|]. apply repr_clear. }
  destruct (chain_split_within _ _ _ _ _ _ _ Hch W) as (a1 & x & a2 & l1 & v & l2 & -> & -> & Ha1 & Hl1).
  rewrite firstn_exact, skipn_S_exact by lia.
  rewrite Hf, Hl. rewrite <- Ha1. rewrite (chain_walk_track _ _ _ _ _ _ _ None Hch). simpl hd_or.
  destruct (NoDup_mid _ _ _ Hnd) as (Hx1 & Hx2 & Hnd1 & Hnd2 & Hdisj).
  pose proof Hch as Hch'. apply chain_app in Hch'; [|lia]. destruct Hch' as [Hc1 Hc2].
  simpl in Hc2. destruct Hc2 as [(cx & Hcx & Hvx & Hnx & _) Hc2].
  pose proof (chain_length _ _ _ _ _ _ _ _ Hc2) as Hlen2.
  destruct (relink_next_opt _ _ _ _ _ _ (hd_or a2 None) Hc1 Hnd1) as (h' & Hh' & Hc1' & Hfr).
  assert (Hc2' : fchain false h' (last_or a1 None) a2 l2 None).
  { apply (chain_false_prev _ (Some x)). apply (chain_frame _ _ _ (lheap d)); [|exact Hc2].
    intros a Ha. apply Hfr. intro Ha1'. exact (Hdisj a Ha1' Ha). }
  assert (Hjoin : fchain false h' None (a1 ++ a2) (l1 ++ l2) None).
  { apply chain_app; [lia|]. split; assumption. }
  cbn [deref]. rewrite hd_or_app, last_or_app. simpl last_or.
  destruct a1 as [|a a1'].
  - (* the first element *) Show.
    simpl hd_or. rewrite ptr_eqb_refl, Hcx. lsimpl. simpl is_nil. cbv iota.
    assert (Hne2 : a2 <> []).
    { intro He. subst a2. destruct l2; [|discriminate]. destruct l1; [|discriminate].
      unfold zlen in E1. simpl in E1. discriminate. }
    rewrite ptr_eqb_last_false by assumption.
    simpl in Hh'. inversion Hh'; subst h'.
    eexists. split; [reflexivity|]. exists a2. lsimpl. rsplit.
    + exact Hnd2.
    + apply Forall_app in Hlt. destruct Hlt as [_ Hlt]. inversion Hlt; assumption.
    + exact Hjoin.
    + exact Hnx.
    + rewrite Hl. simpl. apply last_or_nonempty. exact Hne2.
    + rewrite Hs. apply zlen_mid_minus.
  - (* not the first element *)
    rewrite ptr_eqb_hd_false; [|discriminate|exact Hx1].
    destruct (last_or_In (a :: a1') None) as (b & Hb & Hbin); [discriminate|].
    rewrite Hb in Hh' |- *. simpl is_nil in Hh' |- *. cbv iota in Hh'.
    destruct a2 as [|y a2'].
    + simpl last_or. rewrite ptr_eqb_refl. lsimpl. rewrite Hcx, Hnx, Hh'.
      eexists. split; [reflexivity|]. exists ((a :: a1') ++ []). lsimpl. rsplit.
      * exact (NoDup_mid_remove _ _ _ Hnd).
      * exact (Forall_mid_remove _ _ _ _ Hlt).
      * exact Hjoin.
      * rewrite Hf. reflexivity.
      * rewrite app_nil_r. symmetry. exact Hb.
      * rewrite Hs. apply zlen_mid_minus.
    + rewrite ptr_eqb_last_false; [|discriminate|exact Hx2]. lsimpl. rewrite Hcx, Hnx, Hh'.
      eexists. split; [reflexivity|]. exists ((a :: a1') ++ y :: a2'). lsimpl. rsplit.
      * exact (NoDup_mid_remove _ _ _ Hnd).
      * exact (Forall_mid_remove _ _ _ _ Hlt).
      * exact Hjoin.
      * rewrite Hf. reflexivity.
      * rewrite Hl, !last_or_app. reflexivity.
      * rewrite Hs. apply zlen_mid_minus.
Qed.
