(* Rebuilding a container from its own Values(): the model side of the harness's "variadic constructor"
   conjunct of sane bit 7.  For the three list kinds and the three set kinds the Go constructor
   New(values...) is "construct empty, then one Add(values...) call"; at machine level that is the
   one-operation history [Add vs].  For every configuration of those kinds and EVERY history [ops],
   with s := run c ops and r := run c [Add (values_of c s)]:

   - lists, HashSet, LinkedHashSet: r = s (the whole machine state, hence every observer);
   - TreeSet: r is a well-formed tree state with the same Values() (ascending under the comparator,
     the same representative of every comparator class), the same cached size, the same answer to
     every Contains probe, and the same observation vector except the TShape entry; the exact tree
     shape may differ ([rebuild_treeset_state_refuted]). *)
From Coq Require Import ZArith List Bool Lia Sorted Permutation.
From Gods Require Import Common.Cmp Spec.MapSpec Spec.SetSpec Model.Ops Model.Lists Model.Machine.
From Gods Require Import Proofs.RBInv Proofs.RBMap Proofs.ListsProofs Proofs.C03Proofs Proofs.SetsProofs Proofs.LinkedProofs.
Import ListNotations.
Local Open Scope Z_scope.

(* the history of the variadic constructor *)
Definition rebuilt (c : config) (s : state) : state := run c [Add (values_of c s)].

Lemma rebuilt_next c s : rebuilt c s = next c (init c) (Add (values_of c s)).
Proof. reflexivity. Qed.

(* ================================================================================== *)
(* lists                                                                                *)
(* ================================================================================== *)

Theorem rebuild_list : forall c ops, is_list_kind (ckind c) = true ->
  rebuilt c (run c ops) = run c ops.
Proof.
  intros c ops K. rewrite rebuilt_next. rewrite (C03_refines c ops K).
  rewrite (values_of_list c _ K), (init_list c K). unfold next. rewrite (step_list c [] _ K).
  cbn [abs_of_op]. reflexivity.
Qed.

(* ================================================================================== *)
(* strictly ascending lists are determined by their members                             *)
(* ================================================================================== *)

Lemma zasc_ext : forall l1 l2, zasc l1 -> zasc l2 -> (forall z, In z l1 <-> In z l2) -> l1 = l2.
Proof.
  unfold zasc. induction l1 as [|a l1 IH]; intros l2 H1 H2 Hm.
  - destruct l2 as [|b l2]; [reflexivity|]. exfalso. apply (proj2 (Hm b)). left; reflexivity.
  - destruct l2 as [|b l2]; [exfalso; apply (proj1 (Hm a)); left; reflexivity|].
    apply StronglySorted_inv in H1. destruct H1 as [S1 F1].
    apply StronglySorted_inv in H2. destruct H2 as [S2 F2].
    rewrite Forall_forall in F1, F2.
    assert (Hab : a = b).
    { destruct (proj1 (Hm a) (or_introl eq_refl)) as [E|Ia]; [symmetry; exact E|].
      destruct (proj2 (Hm b) (or_introl eq_refl)) as [E|Ib]; [exact E|].
      specialize (F1 b Ib). specialize (F2 a Ia). lia. }
    subst b. f_equal. apply IH; [assumption|assumption|].
    intros z. split; intros Hz.
    + destruct (proj1 (Hm z) (or_intror Hz)) as [E|I]; [|exact I].
      subst z. specialize (F1 a Hz). lia.
    + destruct (proj2 (Hm z) (or_intror Hz)) as [E|I]; [|exact I].
      subst z. specialize (F2 a Hz). lia.
Qed.

Lemma zasc_ext_smem l1 l2 : zasc l1 -> zasc l2 -> (forall z, smem z l1 = smem z l2) -> l1 = l2.
Proof.
  intros H1 H2 Hm. apply zasc_ext; try assumption.
  intros z. rewrite <- !sp_smem_In, Hm. reflexivity.
Qed.

(* ================================================================================== *)
(* HashSet                                                                              *)
(* ================================================================================== *)

Lemma hs_adds_self l : zasc l -> hs_adds l [] = l.
Proof.
  intros Hs. destruct (hs_adds_spec l [] (SSorted_nil _)) as [H1 H2].
  apply zasc_ext_smem; try assumption.
  intros z. rewrite H2, <- sp_smem_eqvb. cbn [smem existsb]. apply orb_false_r.
Qed.

Theorem rebuild_hashset : forall c ops, ckind c = HashSet -> rebuilt c (run c ops) = run c ops.
Proof.
  intros c ops K. assert (K' : is_set_kind (ckind c) = true) by (rewrite K; reflexivity).
  destruct (set_run c ops K') as [I _]. unfold set_inv in I. rewrite K in I.
  rewrite rebuilt_next. destruct (run c ops) as [| l | | | | | | | | | | |]; try contradiction.
  cbn [values_of]. unfold init. rewrite K. rewrite (hs_next c [] _ K).
  rewrite (hs_adds_self l I). reflexivity.
Qed.

(* ================================================================================== *)
(* LinkedHashSet                                                                        *)
(* ================================================================================== *)

Lemma order_ins_fresh l : forall acc, NoDup (acc ++ l) ->
  fold_left order_step (map EIns l) acc = acc ++ l.
Proof.
  induction l as [|x l IH]; intros acc Hnd; [cbn; rewrite app_nil_r; reflexivity|].
  cbn [map fold_left].
  assert (Hx : ~ In x acc).
  { intros Hin. apply NoDup_remove_2 in Hnd. apply Hnd. apply in_or_app. left. exact Hin. }
  rewrite (order_ins_absent x acc Hx).
  rewrite IH; rewrite <- app_assoc; cbn [app]; [reflexivity|exact Hnd].
Qed.

Lemma ls_adds_self tbl ord : lset_inv tbl ord -> ls_adds ord ([], []) = (tbl, ord).
Proof.
  intros Hinv.
  destruct (ls_adds_spec ord [] [] lset_inv_nil) as (t' & o' & E & I' & M & O).
  rewrite E. f_equal.
  - apply zasc_ext_smem; [apply I'|apply Hinv|].
    intros z. rewrite M, <- sp_smem_eqvb, (lset_inv_smem tbl ord z Hinv). cbn [smem existsb]. apply orb_false_r.
  - rewrite O. apply (order_ins_fresh ord []). cbn [app]. apply Hinv.
Qed.

Theorem rebuild_linkedhashset : forall c ops, ckind c = LinkedHashSet -> rebuilt c (run c ops) = run c ops.
Proof.
  intros c ops K. assert (K' : is_set_kind (ckind c) = true) by (rewrite K; reflexivity).
  destruct (set_run c ops K') as [I _]. unfold set_inv in I. rewrite K in I.
  rewrite rebuilt_next. destruct (run c ops) as [| | tbl ord | | | | | | | | | |]; try contradiction.
  cbn [values_of]. unfold init. rewrite K. rewrite (ls_next c [] [] _ K).
  rewrite (ls_adds_self tbl ord I). reflexivity.
Qed.

(* ================================================================================== *)
(* TreeSet                                                                              *)
(* ================================================================================== *)

Section TS.
Variable cmp : cmpf.
Hypothesis Hswo : SWO cmp.

Definition ins_keys (ks : list Z) (l : list (Z * Z)) : list (Z * Z) :=
  fold_left (fun acc x => ins_list cmp x 0 acc) ks l.

(* the in-order sequence after Add(ks...) *)
Lemma rbs_puts_inorder ks : forall t n, tree_inv cmp t n ->
  exists t' n', rbs_puts cmp (map (fun x => (x, 0)) ks) (t, n) = Some (t', n') /\ tree_inv cmp t' n' /\
    RBTree.inorder t' = ins_keys ks (RBTree.inorder t).
Proof.
  induction ks as [|k ks IH]; intros t n Hinv.
  - exists t, n. split; [reflexivity|]. split; [assumption|reflexivity].
  - cbn [map rbs_puts].
    destruct (sp_rbs_put_spec cmp k 0 t n Hswo Hinv) as (t1 & n1 & E1 & I1 & O1 & _). rewrite E1.
    destruct (IH t1 n1 I1) as (t2 & n2 & E2 & I2 & O2).
    exists t2, n2. split; [assumption|]. split; [assumption|].
    rewrite O2, O1. reflexivity.
Qed.

(* a key above every stored key goes to the end *)
Lemma ins_list_last k v : forall l, (forall e, In e l -> cmp (fst e) k = Lt) ->
  ins_list cmp k v l = l ++ [(k, v)].
Proof.
  induction l as [|[k' v'] l IH]; intros Hlt; [reflexivity|].
  cbn [ins_list app].
  assert (Hk : cmp k k' = Gt).
  { rewrite (swo_sym cmp Hswo k' k). assert (H := Hlt (k', v') (or_introl eq_refl)). cbn [fst] in H.
    rewrite H. reflexivity. }
  rewrite Hk. f_equal. apply IH. intros e He. apply Hlt. right. exact He.
Qed.

(* re-inserting a strictly ascending key sequence, one key at a time, rebuilds it *)
Lemma ins_keys_sorted ks : forall acc,
  StronglySorted (fun a b => cmp a b = Lt) (map fst acc ++ ks) ->
  ins_keys ks acc = acc ++ map (fun x => (x, 0)) ks.
Proof.
  unfold ins_keys. induction ks as [|k ks IH]; intros acc Hs; [cbn; rewrite app_nil_r; reflexivity|].
  cbn [fold_left map].
  assert (Hlast : ins_list cmp k 0 acc = acc ++ [(k, 0)]).
  { apply ins_list_last. intros e He.
    assert (Hin : In (fst e) (map fst acc)) by (apply in_map; exact He).
    clear IH. induction (map fst acc) as [|a m IHm]; [contradiction|].
    cbn [app] in Hs. apply StronglySorted_inv in Hs. destruct Hs as [Hs' Hf].
    destruct Hin as [->|Hin].
    - rewrite Forall_forall in Hf. apply Hf. apply in_or_app. right. left. reflexivity.
    - apply IHm; assumption. }
  rewrite Hlast, IH.
  - rewrite <- app_assoc. reflexivity.
  - rewrite map_app. cbn [map fst]. rewrite <- app_assoc. exact Hs.
Qed.

Lemma map_fst_emb0 (ks : list Z) : map fst (map (fun x : Z => (x, 0)) ks) = ks.
Proof. induction ks as [|k ks IH]; [reflexivity|]. cbn [map fst]. rewrite IH. reflexivity. Qed.

Lemma mem_list_keys x (l1 l2 : list (Z * Z)) : map fst l1 = map fst l2 -> mem_list cmp x l1 = mem_list cmp x l2.
Proof.
  rewrite !sp_mem_existsb. revert l2. induction l1 as [|e1 l1 IH]; intros [|e2 l2] E; try discriminate E; [reflexivity|].
  cbn [map] in E. injection E as E1 E2. cbn [existsb]. rewrite E1, (IH l2 E2). reflexivity.
Qed.

(* Add(Keys()...) on the empty tree *)
Lemma ts_rebuild t n : tree_inv cmp t n ->
  exists t', rbs_puts cmp (map (fun x => (x, 0)) (RB.keys t)) (RB.E, 0) = Some (t', n) /\
    tree_inv cmp t' n /\ RB.keys t' = RB.keys t /\ forall x, tmem cmp t' x = tmem cmp t x.
Proof.
  intros Hinv.
  destruct (rbs_puts_inorder (RB.keys t) RB.E 0 (sp_tree_inv_E cmp)) as (t' & n' & E & I & O).
  assert (Hio : RBTree.inorder t' = map (fun x => (x, 0)) (RB.keys t)).
  { rewrite O. cbn [RBTree.inorder]. rewrite (ins_keys_sorted (RB.keys t) []); [reflexivity|].
    cbn [map app]. unfold RB.keys. apply sp_keys_sorted. apply Hinv. }
  assert (Hk : RB.keys t' = RB.keys t).
  { unfold RB.keys at 1. rewrite Hio. apply map_fst_emb0. }
  assert (Hn : n' = n).
  { destruct I as (_ & _ & En'). destruct Hinv as (_ & _ & En).
    rewrite En', En, !count_inorder.
    rewrite <- (map_length fst (RBTree.inorder t')), <- (map_length fst (RBTree.inorder t)).
    change (map fst (RBTree.inorder t')) with (RB.keys t'). change (map fst (RBTree.inorder t)) with (RB.keys t).
    rewrite Hk. reflexivity. }
  subst n'. exists t'. split; [exact E|]. split; [exact I|]. split; [exact Hk|].
  intros x. unfold tmem. apply mem_list_keys. exact Hk.
Qed.
End TS.

Lemma rb_forallb_ext (f g : Z -> bool) (l : list Z) : (forall x, f x = g x) -> forallb f l = forallb g l.
Proof. intros H. induction l as [|a l IH]; [reflexivity|]. cbn [forallb]. rewrite H, IH. reflexivity. Qed.

(* the observation vector without its tree-shape entry *)
Definition is_shape (t : tag) : bool := match t with TShape => true | _ => false end.
Definition drop_shape (v : list (tag * obs)) : list (tag * obs) := filter (fun p => negb (is_shape (fst p))) v.

Lemma observe_treeset c lvl t n : ckind c = TreeSet ->
  drop_shape (observe c lvl (StRB t n)) =
  [(TSize, OZ n)] ++
  (if 1 <=? lvl then [(TEmpty, obool (n =? 0)); (TValues, ozs (RB.keys t));
                      (TContains, OL (map (contains_of c (StRB t n)) (contains_probes c)));
                      (TJson, OL [OZ 0; ozs (RB.keys t)])] else []) ++
  [(TSane, all_sane)].
Proof.
  intros K. unfold observe, to_json. rewrite K. cbn [is_kv size_of values_of andb]. rewrite K.
  rewrite andb_false_r.
  destruct (1 <=? lvl).
  - destruct (each_of c (StRB t n)), (each_back c (StRB t n)); reflexivity.
  - reflexivity.
Qed.

Theorem rebuild_treeset : forall c ops, ckind c = TreeSet ->
  let s := run c ops in
  let r := rebuilt c s in
  r <> StCrash /\ set_inv c r /\
  values_of c r = values_of c s /\
  size_of c r = size_of c s /\
  (forall x, member c r x = member c s x) /\
  (forall vs, contains_of c r vs = contains_of c s vs) /\
  (forall lvl, drop_shape (observe c lvl r) = drop_shape (observe c lvl s)).
Proof.
  intros c ops K s r. assert (K' : is_set_kind (ckind c) = true) by (rewrite K; reflexivity).
  destruct (set_run c ops K') as [I _]. fold s in I.
  assert (I0 := I). unfold set_inv in I0. rewrite K in I0.
  unfold r. rewrite rebuilt_next. destruct s as [| | | t n | | | | | | | | |]; try contradiction.
  cbn [values_of]. rewrite K. unfold init. rewrite K. rewrite (ts_next c RB.E 0 _ K).
  destruct (ts_rebuild (kc c) (sp_kc_SWO c) t n I0) as (t' & E & I' & Hk & Hm). rewrite E.
  assert (Ir : set_inv c (StRB t' n)) by (unfold set_inv; rewrite K; exact I').
  assert (Hmem : forall x, member c (StRB t' n) x = member c (StRB t n) x).
  { intros x. rewrite !member_tree by (first [apply I'|apply I0]). apply Hm. }
  assert (Hcont : forall vs, contains_of c (StRB t' n) vs = contains_of c (StRB t n) vs).
  { intros vs. rewrite (contains_member c _ vs Ir), (contains_member c _ vs I). f_equal.
    apply rb_forallb_ext. exact Hmem. }
  split; [discriminate|]. split; [exact Ir|].
  split; [cbn [values_of]; rewrite K; exact Hk|].
  split; [reflexivity|]. split; [exact Hmem|]. split; [exact Hcont|].
  intros lvl. rewrite !(observe_treeset c lvl _ _ K). rewrite Hk.
  rewrite (map_ext _ _ Hcont). reflexivity.
Qed.

(* the exact tree is NOT reproduced in general: descending insertion and ascending re-insertion of
   1..4 give different red-black trees *)
Definition rebuild_cfg (k : kind) (kc : cmp_id) : config :=
  {| ckind := k; kcmp := kc; vcmp := CNat; ccap := 0; corder := 3; cuni := 8 |}.

Theorem rebuild_treeset_state_refuted : exists c ops, ckind c = TreeSet /\
  rebuilt c (run c ops) <> run c ops /\
  observe c 1 (rebuilt c (run c ops)) <> observe c 1 (run c ops).
Proof.
  exists (rebuild_cfg TreeSet CNat), [Add [4; 3; 2; 1]]. split; [reflexivity|].
  split; vm_compute; discriminate.
Qed.

(* ================================================================================== *)
(* all six kinds, one statement                                                         *)
(* ================================================================================== *)

Definition has_variadic_ctor (k : kind) : bool := is_list_kind k || is_set_kind k.

(* the five kinds whose whole state is reproduced *)
Theorem rebuild_state : forall c ops, has_variadic_ctor (ckind c) = true -> ckind c <> TreeSet ->
  rebuilt c (run c ops) = run c ops.
Proof.
  intros c ops K NT. destruct (ckind c) eqn:E; try discriminate K.
  - apply rebuild_list. rewrite E. reflexivity.
  - apply rebuild_list. rewrite E. reflexivity.
  - apply rebuild_list. rewrite E. reflexivity.
  - apply rebuild_hashset. exact E.
  - exfalso. apply NT. reflexivity.
  - apply rebuild_linkedhashset. exact E.
Qed.

Theorem rebuild_from_values : forall c ops, has_variadic_ctor (ckind c) = true ->
  let s := run c ops in
  let r := run c [Add (values_of c s)] in
  s <> StCrash /\ r <> StCrash /\
  values_of c r = values_of c s /\
  size_of c r = size_of c s /\
  (forall vs, contains_of c r vs = contains_of c s vs) /\
  (forall lvl, drop_shape (observe c lvl r) = drop_shape (observe c lvl s)) /\
  (ckind c <> TreeSet -> r = s /\ forall lvl, observe c lvl r = observe c lvl s).
Proof.
  intros c ops K s r.
  assert (Hs : s <> StCrash).
  { unfold has_variadic_ctor in K. apply orb_true_iff in K. destruct K as [K|K].
    - apply C03_never_crashes. exact K.
    - apply C04_no_crash_proof. exact K. }
  split; [exact Hs|].
  destruct (ckind c) eqn:E; try discriminate K.
  5: { destruct (rebuild_treeset c ops E) as (H1 & _ & H3 & H4 & _ & H6 & H7).
       split; [exact H1|]. split; [exact H3|]. split; [exact H4|]. split; [exact H6|]. split; [exact H7|].
       intros NT. exfalso. apply NT. reflexivity. }
  all: assert (Hr : r = s) by (apply rebuild_state; [rewrite E; reflexivity|rewrite E; discriminate]).
  all: clearbody r; clearbody s; subst r; split; [exact Hs|].
  all: split; [reflexivity|]; split; [reflexivity|]; split; [reflexivity|]; split; [reflexivity|].
  all: intros _; split; reflexivity.
Qed.

(* ---------- the per-property forms quoted by Properties/C03.v and C04.v ---------- *)
Theorem rebuild_list_full : forall c ops, is_list_kind (ckind c) = true ->
  let s := run c ops in
  let r := run c [Add (values_of c s)] in
  r <> StCrash /\ r = s /\ forall lvl, observe c lvl r = observe c lvl s.
Proof.
  intros c ops K s r. assert (Hr : r = s) by (apply rebuild_list; exact K).
  assert (Hs : s <> StCrash) by (apply C03_never_crashes; exact K).
  clearbody r; clearbody s; subst r. split; [exact Hs|]. split; [reflexivity|]. intros lvl. reflexivity.
Qed.

Theorem rebuild_hash_full : forall c ops, ckind c = HashSet \/ ckind c = LinkedHashSet ->
  let s := run c ops in
  let r := run c [Add (values_of c s)] in
  r <> StCrash /\ r = s /\ forall lvl, observe c lvl r = observe c lvl s.
Proof.
  intros c ops K s r.
  assert (Hr : r = s) by (destruct K as [K|K]; [apply rebuild_hashset|apply rebuild_linkedhashset]; exact K).
  assert (Hs : s <> StCrash) by (apply C04_no_crash_proof, is_set_kind_hash; exact K).
  clearbody r; clearbody s; subst r. split; [exact Hs|]. split; [reflexivity|]. intros lvl. reflexivity.
Qed.

Print Assumptions rebuild_from_values.
Print Assumptions rebuild_treeset.
Print Assumptions rebuild_treeset_state_refuted.
Print Assumptions rebuild_list_full.
Print Assumptions rebuild_hash_full.
