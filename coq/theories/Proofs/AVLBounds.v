(* AVL tree (Model/AVLTree.v): height / Fibonacci / comparator-call bounds (property C07).

   Summary (n = count t, h = height t, t satisfying the AVL invariant of AVLInv.v):
     avl_fib        : fib (h + 2) <= n + 1
     C07_avl_cost   : every Get / Put / Remove makes at most c comparator calls with
                      fib (c + 2) <= n + 1
     fib_pow        : 2 ^ (20 * h) <= fib (h + 2) ^ 29 * 2 ^ 29        (for every h)
     avl_height_log : 2 ^ (20 * h) <= (n + 1) ^ 29 * 2 ^ 29

   Reading of the last line: taking log2 on both sides, 20 * h <= 29 * log2 (n + 1) + 29, i.e.

        h <= 1.45 * log2 (n + 1) + 1.45

   (the classical constant is 1/log2(phi) = 1.4404...; 29/20 = 1.45 is the rational upper
   approximation used here: phi^29 = 1149851.0... > 2^20 = 1048576).  Everything is over nat,
   axiom-free; large numbers are only ever evaluated in binary (Z) with vm_compute. *)
From Coq Require Import ZArith List Lia Bool Arith.
From Gods Require Import Common.Cmp Model.AVLTree Proofs.AVLInv.
Import ListNotations.
Local Open Scope nat_scope.

Fixpoint fib (n : nat) : nat :=
  match n with
  | 0 => 0
  | S m => match m with 0 => 1 | S p => fib m + fib p end
  end.

Lemma fib_SS : forall n, fib (S (S n)) = fib (S n) + fib n.
Proof. reflexivity. Qed.

Lemma fib_mono_S : forall n, fib n <= fib (S n).
Proof.
  intros [|n]; [cbn; lia|]. rewrite fib_SS. lia.
Qed.

Lemma fib_mono : forall n m, n <= m -> fib n <= fib m.
Proof.
  intros n m H. induction H as [|m H IH]; [lia|].
  pose proof (fib_mono_S m). lia.
Qed.

(* ---------- size of an AVL tree of height h is at least fib (h+2) - 1 ---------- *)
Lemma avl_fib_aux : forall t, avl t -> fib (S (S (height t))) <= S (count t).
Proof.
  induction t as [|b l IHl k v r IHr]; intros Ht.
  - cbn. lia.
  - cbn [avl] in Ht. destruct Ht as (Hl & Hr & Hb & Hrange).
    specialize (IHl Hl). specialize (IHr Hr).
    cbn [height count].
    remember (height l) as hl eqn:Ehl. remember (height r) as hr eqn:Ehr.
    clear Ehl Ehr.
    assert (Hc : hl = hr \/ hr = S hl \/ hl = S hr) by lia.
    destruct Hc as [Hc|[Hc|Hc]].
    + subst hl. rewrite Nat.max_id. rewrite (fib_SS (S hr)).
      pose proof (fib_mono_S (S hr)). lia.
    + subst hr. replace (Nat.max hl (S hl)) with (S hl) by lia.
      rewrite (fib_SS (S (S hl))). lia.
    + subst hl. replace (Nat.max (S hr) hr) with (S hr) by lia.
      rewrite (fib_SS (S (S hr))). lia.
Qed.

Theorem avl_fib : forall t, avl t -> (fib (height t + 2) <= count t + 1)%nat.
Proof.
  intros t Ht. replace (height t + 2) with (S (S (height t))) by lia.
  pose proof (avl_fib_aux t Ht). lia.
Qed.
Print Assumptions avl_fib.

(* ---------- comparator calls ---------- *)
Theorem lookup_cost_height : forall cmp k t, (lookup_cost cmp k t <= height t)%nat.
Proof.
  intros cmp key t. induction t as [|b l IHl k v r IHr]; [cbn; lia|].
  cbn [lookup_cost height]. destruct (cmp key k); lia.
Qed.
Print Assumptions lookup_cost_height.

Theorem C07_avl_cost : forall cmp k t, avl t ->
  (fib (get_cost cmp k t + 2) <= count t + 1)%nat /\
  (fib (put_cost cmp k t + 2) <= count t + 1)%nat /\
  (fib (remove_cost cmp k t + 2) <= count t + 1)%nat.
Proof.
  intros cmp k t Ht. unfold get_cost, put_cost, remove_cost.
  assert (H : fib (lookup_cost cmp k t + 2) <= count t + 1).
  { pose proof (lookup_cost_height cmp k t) as Hc.
    pose proof (avl_fib t Ht) as Hf.
    pose proof (fib_mono (lookup_cost cmp k t + 2) (height t + 2)). lia. }
  auto.
Qed.
Print Assumptions C07_avl_cost.

(* ---------- fib grows at least like 2^(20/29 * h) ---------- *)
(* addition formula *)
Lemma fib_add : forall m n, fib (n + S m) = fib (S m) * fib (S n) + fib m * fib n.
Proof.
  induction m as [|m IH]; intros n.
  - replace (n + 1) with (S n) by lia. cbn [fib]. lia.
  - replace (n + S (S m)) with (S n + S m) by lia. rewrite IH.
    rewrite (fib_SS m), (fib_SS n). lia.
Qed.

(* from 2 on, consecutive Fibonacci numbers have ratio at least 3/2 *)
Lemma fib_ratio : forall n, 2 <= n -> 3 * fib n <= 2 * fib (S n).
Proof.
  intros n Hn. destruct n as [|[|m]]; try lia.
  rewrite (fib_SS (S m)), (fib_SS m). pose proof (fib_mono_S m). lia.
Qed.

(* Fibonacci numbers computed in binary *)
Fixpoint fibp (n : nat) : Z * Z :=
  match n with
  | 0 => (0%Z, 1%Z)
  | S m => let '(a, b) := fibp m in (b, (a + b)%Z)
  end.
Definition fibZ (n : nat) : Z := fst (fibp n).

Lemma fibp_spec : forall n, fibp n = (Z.of_nat (fib n), Z.of_nat (fib (S n))).
Proof.
  induction n as [|n IH]; [reflexivity|].
  cbn [fibp]. rewrite IH. rewrite (fib_SS n). f_equal. lia.
Qed.

Lemma fib_Z : forall n, Z.of_nat (fib n) = fibZ n.
Proof. intros n. unfold fibZ. rewrite fibp_spec. reflexivity. Qed.

Lemma fib_step29_Z : forall n, 2 <= n ->
  (1048576 * Z.of_nat (fib n) <= Z.of_nat (fib (n + 29)))%Z.
Proof.
  intros n Hn. rewrite (fib_add 28 n).
  rewrite Nat2Z.inj_add, !Nat2Z.inj_mul, (fib_Z 29), (fib_Z 28).
  replace (fibZ 29) with 514229%Z by (vm_compute; reflexivity).
  replace (fibZ 28) with 317811%Z by (vm_compute; reflexivity).
  pose proof (fib_ratio n Hn) as Hr.
  apply Nat2Z.inj_le in Hr. rewrite !Nat2Z.inj_mul in Hr.
  change (Z.of_nat 3) with 3%Z in Hr. change (Z.of_nat 2) with 2%Z in Hr.
  lia.
Qed.

(* phi^29 > 2^20; false for n = 1 (fib 30 = 832040 < 2^20), true for n = 0 and n >= 2 *)
Lemma fib_step29 : forall n, 2 <= n -> 2 ^ 20 * fib n <= fib (n + 29).
Proof.
  intros n Hn. apply Nat2Z.inj_le.
  rewrite Nat2Z.inj_mul, Nat2Z.inj_pow.
  change (Z.of_nat 2 ^ Z.of_nat 20)%Z with 1048576%Z.
  apply fib_step29_Z. exact Hn.
Qed.

Definition fib_pow_stmt (h : nat) : Prop := 2 ^ (20 * h) <= fib (h + 2) ^ 29 * 2 ^ 29.

Lemma fib_pow_check : forall h,
  (2 ^ Z.of_nat (20 * h) <=? fibZ (h + 2) ^ 29 * 2 ^ 29)%Z = true -> fib_pow_stmt h.
Proof.
  intros h H. apply Z.leb_le in H. unfold fib_pow_stmt.
  apply Nat2Z.inj_le. rewrite Nat2Z.inj_mul, !Nat2Z.inj_pow, fib_Z.
  change (Z.of_nat 2) with 2%Z. change (Z.of_nat 29) with 29%Z. exact H.
Qed.

Lemma fib_pow_base : forall h, h < 29 -> fib_pow_stmt h.
Proof.
  intros h Hh. apply fib_pow_check.
  do 29 (destruct h as [|h]; [vm_compute; reflexivity|]). lia.
Qed.

Lemma fib_pow_step : forall h, fib_pow_stmt h -> fib_pow_stmt (h + 29).
Proof.
  unfold fib_pow_stmt. intros h H.
  replace (20 * (h + 29)) with (20 * h + 20 * 29) by lia.
  rewrite Nat.pow_add_r, (Nat.pow_mul_r 2 20 29).
  replace (h + 29 + 2) with (h + 2 + 29) by lia.
  assert (Hs : 2 ^ 20 * fib (h + 2) <= fib (h + 2 + 29)) by (apply fib_step29; lia).
  apply (Nat.pow_le_mono_l _ _ 29) in Hs. rewrite Nat.pow_mul_l in Hs.
  remember (2 ^ (20 * h)) as A eqn:EA. remember ((2 ^ 20) ^ 29) as B eqn:EB.
  remember (fib (h + 2) ^ 29) as C eqn:EC. remember (2 ^ 29) as D eqn:ED.
  remember (fib (h + 2 + 29) ^ 29) as F eqn:EF.
  clear EA EB EC ED EF.
  apply Nat.le_trans with (C * D * B).
  - apply Nat.mul_le_mono_r. exact H.
  - replace (C * D * B) with (B * C * D) by lia.
    apply Nat.mul_le_mono_r. exact Hs.
Qed.

Theorem fib_pow : forall h, (2 ^ (20 * h) <= (fib (h + 2)) ^ 29 * 2 ^ 29)%nat.
Proof.
  intros h. change (fib_pow_stmt h).
  induction h as [h IH] using lt_wf_ind.
  destruct (Nat.lt_ge_cases h 29) as [Hlt|Hge].
  - apply fib_pow_base. exact Hlt.
  - replace h with (h - 29 + 29) by lia. apply fib_pow_step. apply IH. lia.
Qed.
Print Assumptions fib_pow.

(* height <= 1.45 * log2 (count + 1) + 1.45, stated over nat *)
Theorem avl_height_log : forall t, avl t ->
  (2 ^ (20 * height t) <= (count t + 1) ^ 29 * 2 ^ 29)%nat.
Proof.
  intros t Ht. apply Nat.le_trans with (fib (height t + 2) ^ 29 * 2 ^ 29).
  - apply fib_pow.
  - apply Nat.mul_le_mono_r. apply Nat.pow_le_mono_l. apply avl_fib. exact Ht.
Qed.
Print Assumptions avl_height_log.

(* the same for the comparator-call counts of Get / Put / Remove *)
Theorem C07_avl_cost_log : forall cmp k t, avl t ->
  (2 ^ (20 * lookup_cost cmp k t) <= (count t + 1) ^ 29 * 2 ^ 29)%nat.
Proof.
  intros cmp k t Ht. apply Nat.le_trans with (2 ^ (20 * height t)).
  - apply Nat.pow_le_mono_r; [lia|]. pose proof (lookup_cost_height cmp k t). lia.
  - apply avl_height_log. exact Ht.
Qed.
Print Assumptions C07_avl_cost_log.
