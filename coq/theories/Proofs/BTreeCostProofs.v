(* B-tree: number of comparator calls of Get / Put / Remove (property C07, B-tree part).

   Model.BTreeCost counts every comparator call of the Go code.  Here:
   - a binary search over w entries makes at most [lg w] = floor(log2 w) + 1 calls;
   - every search of Get/Put/Remove is performed on the entry list of a node of the ORIGINAL tree
     (or a same-length copy of it): descent searches happen before the insertion/deletion, the search
     of splitNonRoot is done in the parent before the middle entry is inserted, and the searches of
     leftSibling/rightSibling are done in the parent before a merge removes a separator.  Hence every
     search sees at most m - 1 entries and costs at most [per_node m] = log2 (m - 1) + 1;
   - Get does one search per level, Put at most two (descent + split), Remove at most three
     (descent + leftSibling + rightSibling). *)
From Coq Require Import ZArith List Lia Bool Arith.
From Gods Require Import Common.Cmp Model.BTree Model.BTreeCost Proofs.BTreeInd Proofs.BTreeMap Proofs.BTreeInv
  Proofs.BTreeBounds.
Import ListNotations.

Local Arguments rebalance_child : simpl never.
Local Arguments maybe_split : simpl never.

(* ---------- one binary search ---------- *)

(* number of iterations of a binary search over an interval of width w *)
Definition lg (w : nat) : nat := match w with O => 0 | S _ => Nat.log2 w + 1 end.

Lemma lg_pos : forall w, (1 <= w)%nat -> (1 <= lg w)%nat.
Proof. intros w Hw. destruct w as [|w]; [lia|]. unfold lg. lia. Qed.

Lemma lg_le_log2 : forall w, (lg w <= Nat.log2 w + 1)%nat.
Proof. intros w. destruct w as [|w]; unfold lg; lia. Qed.

Lemma lg_mono : forall a b, (a <= b)%nat -> (lg a <= lg b)%nat.
Proof.
  intros a b Hab. destruct a as [|a]; [unfold lg at 1; lia|].
  destruct b as [|b]; [lia|]. unfold lg.
  assert (Hl : (Nat.log2 (S a) <= Nat.log2 (S b))%nat) by (apply Nat.log2_le_mono; exact Hab). lia.
Qed.

(* halving the interval saves one iteration *)
Lemma lg_half : forall a w, (2 * a <= w)%nat -> (1 <= w)%nat -> (lg a + 1 <= lg w)%nat.
Proof.
  intros a w Haw Hw. destruct a as [|a].
  - assert (H1 := lg_pos w Hw). unfold lg at 1. lia.
  - assert (Hd : Nat.log2 (2 * S a) = S (Nat.log2 (S a))) by (apply Nat.log2_double; lia).
    assert (Hm : (Nat.log2 (2 * S a) <= Nat.log2 w)%nat) by (apply Nat.log2_le_mono; exact Haw).
    destruct w as [|w]; [lia|]. unfold lg. lia.
Qed.

Lemma bsearch_c_bound : forall cmp key es fuel low high,
  (bsearch_c cmp key es low high fuel <= lg (Z.to_nat (high - low + 1)))%nat.
Proof.
  intros cmp key es fuel. induction fuel as [|f IH]; intros low high; cbn [bsearch_c]; [lia|].
  destruct (low <=? high)%Z eqn:E; [|lia].
  apply Z.leb_le in E.
  assert (Hdm : (high + low = 2 * ((high + low) / 2) + (high + low) mod 2)%Z) by (apply Z.div_mod; lia).
  assert (Hmod : (0 <= (high + low) mod 2 < 2)%Z) by (apply Z.mod_pos_bound; lia).
  remember ((high + low) / 2)%Z as mid eqn:Emid.
  destruct (nth_error es (Z.to_nat mid)) as [[k v]|]; [|lia].
  destruct (cmp key k).
  - apply lg_pos. lia.
  - specialize (IH low (mid - 1)%Z).
    assert (Hh : (lg (Z.to_nat (mid - 1 - low + 1)) + 1 <= lg (Z.to_nat (high - low + 1)))%nat)
      by (apply lg_half; lia).
    lia.
  - specialize (IH (mid + 1)%Z high).
    assert (Hh : (lg (Z.to_nat (high - (mid + 1) + 1)) + 1 <= lg (Z.to_nat (high - low + 1)))%nat)
      by (apply lg_half; lia).
    lia.
Qed.

(* the sharp form: 0 on an empty list, at most floor(log2 k) + 1 on k >= 1 entries *)
Lemma search_c_lg : forall cmp key es, (search_c cmp key es <= lg (length es))%nat.
Proof.
  intros cmp key es. unfold search_c.
  eapply Nat.le_trans; [apply bsearch_c_bound|].
  apply lg_mono. lia.
Qed.

Theorem search_c_bound : forall cmp key es, (search_c cmp key es <= Nat.log2 (length es) + 1)%nat.
Proof.
  intros cmp key es. eapply Nat.le_trans; [apply search_c_lg|apply lg_le_log2].
Qed.

Lemma search_c_nil : forall cmp key, search_c cmp key [] = 0%nat.
Proof. intros cmp key. reflexivity. Qed.

(* ---------- nodes with at most m - 1 entries ---------- *)

Inductive node_le (m : nat) : node -> Prop :=
| node_le_N : forall es cs, (length es <= m - 1)%nat -> Forall (node_le m) cs -> node_le m (N es cs).

Lemma node_le_entries : forall m es cs, node_le m (N es cs) -> (length es <= m - 1)%nat.
Proof. intros m es cs H. inversion H; subst; assumption. Qed.

Lemma node_le_child : forall m es cs i c, node_le m (N es cs) -> nth_error cs i = Some c -> node_le m c.
Proof.
  intros m es cs i c H Hn. inversion H as [es' cs' Hl Hf]; subst.
  rewrite Forall_forall in Hf. apply Hf. eapply nth_error_In. exact Hn.
Qed.

(* the count part of the documented invariant implies node_le *)
Lemma cnt_node_le : forall m n lo, cnt m lo n -> node_le m n.
Proof.
  intros m n. induction n as [es cs IH] using node_ind2. intros lo H.
  apply cnt_inv in H. destruct H as [Hl Hf]. unfold maxEntries in Hl. constructor; [lia|].
  rewrite Forall_forall in *. intros c Hc. apply (IH c Hc (minEntries m)). apply Hf. exact Hc.
Qed.

Definition per_node (m : nat) : nat := (Nat.log2 (m - 1) + 1)%nat.

Lemma per_node_le : forall m, (per_node m <= Nat.log2 m + 1)%nat.
Proof.
  intros m. unfold per_node.
  assert (H : (Nat.log2 (m - 1) <= Nat.log2 m)%nat) by (apply Nat.log2_le_mono; lia). lia.
Qed.

Lemma search_c_node : forall m cmp key es, (length es <= m - 1)%nat -> (search_c cmp key es <= per_node m)%nat.
Proof.
  intros m cmp key es Hl. eapply Nat.le_trans; [apply search_c_bound|]. unfold per_node.
  assert (H : (Nat.log2 (length es) <= Nat.log2 (m - 1))%nat) by (apply Nat.log2_le_mono; exact Hl). lia.
Qed.

Lemma mh_child : forall es cs i c, nth_error cs i = Some c -> (S (maxheight c) <= maxheight (N es cs))%nat.
Proof. intros es cs i c H. apply maxheight_child. eapply nth_error_In. exact H. Qed.

Lemma mh_pos : forall n, (1 <= maxheight n)%nat.
Proof. intros [es cs]. cbn [maxheight]. lia. Qed.

(* ---------- Get ---------- *)
Section Cost.
Variable m : nat.
Variable cmp : cmpf.
Notation P := (per_node m).

Lemma get_c_bound_aux : forall fuel key n, node_le m n -> (get_c cmp fuel key n <= P * maxheight n)%nat.
Proof.
  induction fuel as [|f IH]; intros key [es cs] Hn; cbn [get_c]; [lia|].
  destruct (search cmp key es) as [pos found].
  assert (Hs := search_c_node m cmp key es (node_le_entries _ _ _ Hn)).
  assert (Hp := mh_pos (N es cs)).
  destruct found; [nia|].
  destruct (nth_error cs pos) as [c|] eqn:En; [|nia].
  assert (Hc := mh_child es cs pos c En).
  specialize (IH key c (node_le_child _ _ _ _ _ Hn En)).
  nia.
Qed.

(* ---------- Put ---------- *)
(* sharp form: k <= P * (2 * H - 1) *)
Lemma ins_c_bound : forall fuel e n r b k, node_le m n ->
  ins_c m cmp fuel e n = Some (r, b, k) -> (k + P <= 2 * P * maxheight n)%nat.
Proof.
  induction fuel as [|f IH]; intros e [es cs] r b k Hn H; cbn [ins_c] in H; [discriminate|].
  destruct (search cmp (fst e) es) as [pos found].
  assert (Hs := search_c_node m cmp (fst e) es (node_le_entries _ _ _ Hn)).
  assert (Hp := mh_pos (N es cs)).
  destruct found.
  { injection H as _ _ <-. nia. }
  destruct cs as [|c0 cs'].
  { injection H as _ _ <-. nia. }
  destruct (nth_error (c0 :: cs') pos) as [c|] eqn:En; [|discriminate].
  assert (Hc := mh_child es (c0 :: cs') pos c En).
  destruct (ins_c m cmp f e c) as [[[r' b'] k']|] eqn:Ei; [|discriminate].
  specialize (IH e c r' b' k' (node_le_child _ _ _ _ _ Hn En) Ei).
  destruct r' as [c'|l mid rr].
  - injection H as _ _ <-. nia.
  - injection H as _ _ <-.
    assert (Hs2 := search_c_node m cmp (fst mid) es (node_le_entries _ _ _ Hn)).
    nia.
Qed.

(* ---------- Remove ---------- *)
Lemma rebalance_child_c_bound : forall es cs i key b n' k ok,
  rebalance_child_c m cmp es cs i key b = Some (n', k, ok) -> (k <= 2 * search_c cmp key es)%nat.
Proof.
  intros es cs i key b n' k ok H. unfold rebalance_child_c in H.
  destruct (nth_error cs i) as [[ces ccs]|]; [|discriminate].
  destruct (minEntries m <=? length ces)%nat.
  { injection H as _ <- _. lia. }
  destruct (rebalance_child m es cs i) as [n0|]; [|discriminate].
  match type of H with (if ?c then _ else _) = _ => destruct c end.
  { injection H as _ <- _. lia. }
  match type of H with (if ?c then _ else _) = _ => destruct c end.
  { injection H as _ <- _. lia. }
  injection H as _ <- _. lia.
Qed.

(* delmax does no search on the way down; at most two sibling searches per level on the way up.
   sharp form: k <= 2 * P * (H - 1) *)
Lemma delmax_c_bound : forall fuel n n' e k ok, node_le m n ->
  delmax_c m cmp fuel n = Some (n', e, k, ok) -> (k + 2 * P <= 2 * P * maxheight n)%nat.
Proof.
  induction fuel as [|f IH]; intros [es cs] n' e k ok Hn H; cbn [delmax_c] in H; [discriminate|].
  assert (Hp := mh_pos (N es cs)).
  destruct cs as [|c0 cs'].
  { destruct (last_opt es) as [le|]; [|discriminate]. injection H as _ _ <- _. nia. }
  remember (c0 :: cs') as cs eqn:Ecs.
  cbv beta iota zeta in H.
  destruct (nth_error cs (length cs - 1)) as [c|] eqn:En; [|discriminate].
  assert (Hc := mh_child es cs _ c En).
  destruct (delmax_c m cmp f c) as [[[[c' e'] k'] ok']|] eqn:Ed; [|discriminate].
  specialize (IH c c' e' k' ok' (node_le_child _ _ _ _ _ Hn En) Ed).
  destruct ok' as [rk|].
  - destruct (rebalance_child_c m cmp es (replace_at (length cs - 1) c' cs) (length cs - 1) rk false)
      as [[[n'' k2] ok'']|] eqn:Er; [|discriminate].
    injection H as _ _ <- _.
    apply rebalance_child_c_bound in Er.
    assert (Hs := search_c_node m cmp rk es (node_le_entries _ _ _ Hn)).
    nia.
  - injection H as _ _ <- _. nia.
Qed.

(* sharp form: k <= P * (3 * H - 2) *)
Lemma del_c_bound : forall fuel key n n' b k ok, node_le m n ->
  del_c m cmp fuel key n = Some (n', b, k, ok) -> (k + 2 * P <= 3 * P * maxheight n)%nat.
Proof.
  induction fuel as [|f IH]; intros key [es cs] n' b k ok Hn H; cbn [del_c] in H; [discriminate|].
  destruct (search cmp key es) as [pos found] eqn:Es.
  assert (Hle := node_le_entries _ _ _ Hn).
  assert (Hs := search_c_node m cmp key es Hle).
  assert (Hp := mh_pos (N es cs)).
  destruct cs as [|c0 cs'].
  { destruct found; injection H as _ _ <- _; nia. }
  remember (c0 :: cs') as cs eqn:Ecs.
  cbv beta iota zeta in H.
  destruct (nth_error cs pos) as [c|] eqn:En; [|discriminate].
  assert (Hc := mh_child es cs pos c En).
  assert (Hnc := node_le_child _ _ _ _ _ Hn En).
  destruct found.
  - (* key found in an internal node: delete the predecessor, then rebalance *)
    destruct (delmax_c m cmp f c) as [[[[c' pred] k'] ok']|] eqn:Ed; [|discriminate].
    apply delmax_c_bound in Ed; [|exact Hnc].
    destruct ok' as [rk|].
    + destruct (rebalance_child_c m cmp (replace_at pos pred es) (replace_at pos c' cs) pos rk false)
        as [[[n'' k2] ok'']|] eqn:Er; [|discriminate].
      injection H as _ _ <- _.
      apply rebalance_child_c_bound in Er.
      assert (Hpos : (pos < length es)%nat) by (apply (search_bound _ _ _ _ _ Es); reflexivity).
      assert (Hs2 : (search_c cmp rk (replace_at pos pred es) <= P)%nat).
      { apply search_c_node. rewrite replace_at_length by exact Hpos. exact Hle. }
      nia.
    + injection H as _ _ <- _. nia.
  - destruct (del_c m cmp f key c) as [[[[c' b'] k'] ok']|] eqn:Ed; [|discriminate].
    specialize (IH key c c' b' k' ok' Hnc Ed).
    destruct b'.
    + destruct ok' as [rk|].
      * destruct (rebalance_child_c m cmp es (replace_at pos c' cs) pos rk false)
          as [[[n'' k2] ok'']|] eqn:Er; [|discriminate].
        injection H as _ _ <- _.
        apply rebalance_child_c_bound in Er.
        assert (Hs2 := search_c_node m cmp rk es Hle).
        nia.
      * injection H as _ _ <- _. nia.
    + injection H as _ _ <- _. nia.
Qed.

(* ---------- the three operations, in terms of the number of levels ---------- *)
Theorem get_c_bound : forall fuel key n, node_le m n ->
  (get_c cmp fuel key n <= per_node m * maxheight n)%nat.
Proof. exact get_c_bound_aux. Qed.

Theorem put_c_bound_sharp : forall fuel e n, node_le m n ->
  (put_c m cmp fuel e (Some n) <= per_node m * (2 * maxheight n - 1))%nat.
Proof.
  intros fuel e n Hn. unfold put_c.
  assert (Hp := mh_pos n).
  destruct (ins_c m cmp fuel e n) as [[[r b] k]|] eqn:E; [|apply Nat.le_0_l].
  apply ins_c_bound in E; [|exact Hn].
  destruct (maxheight n) as [|h]; [lia|].
  replace (2 * S h - 1)%nat with (2 * h + 1)%nat by lia. nia.
Qed.

Theorem put_c_bound : forall fuel e n, node_le m n ->
  (put_c m cmp fuel e (Some n) <= 2 * per_node m * maxheight n)%nat.
Proof.
  intros fuel e n Hn. assert (H := put_c_bound_sharp fuel e n Hn).
  eapply Nat.le_trans; [exact H|].
  replace (2 * per_node m * maxheight n)%nat with (per_node m * (2 * maxheight n))%nat by ring.
  apply Nat.mul_le_mono_l. lia.
Qed.

Theorem remove_c_bound_sharp : forall fuel key n, node_le m n ->
  (remove_c m cmp fuel key (Some n) <= per_node m * (3 * maxheight n - 2))%nat.
Proof.
  intros fuel key n Hn. unfold remove_c.
  assert (Hp := mh_pos n).
  destruct (del_c m cmp fuel key n) as [[[[n' b] k] ok]|] eqn:E; [|apply Nat.le_0_l].
  apply del_c_bound in E; [|exact Hn].
  destruct (maxheight n) as [|h]; [lia|].
  replace (3 * S h - 2)%nat with (3 * h + 1)%nat by lia. nia.
Qed.

Theorem remove_c_bound : forall fuel key n, node_le m n ->
  (remove_c m cmp fuel key (Some n) <= 3 * per_node m * maxheight n)%nat.
Proof.
  intros fuel key n Hn. assert (H := remove_c_bound_sharp fuel key n Hn).
  eapply Nat.le_trans; [exact H|].
  replace (3 * per_node m * maxheight n)%nat with (per_node m * (3 * maxheight n))%nat by ring.
  apply Nat.mul_le_mono_l. lia.
Qed.
End Cost.

(* the empty tree: no comparator call at all *)
Lemma put_c_empty : forall m cmp fuel e, put_c m cmp fuel e None = 0%nat.
Proof. reflexivity. Qed.
Lemma remove_c_empty : forall m cmp fuel key, remove_c m cmp fuel key None = 0%nat.
Proof. reflexivity. Qed.

(* ---------- C07, B-tree part ---------- *)
(* [maxheight root] = number of levels of the tree.  (3 <= m) is the constructor's precondition; the
   bound itself does not need it. *)
Theorem C07_bt_cost : forall m cmp fuel key e root, (3 <= m)%nat -> node_le m root ->
  let H := maxheight root in
  (get_c cmp fuel key root <= 4 * (Nat.log2 m + 1) * H)%nat /\
  (put_c m cmp fuel e (Some root) <= 4 * (Nat.log2 m + 1) * H)%nat /\
  (remove_c m cmp fuel key (Some root) <= 4 * (Nat.log2 m + 1) * H)%nat.
Proof.
  intros m cmp fuel key e root _ Hn H.
  assert (Hg := get_c_bound m cmp fuel key root Hn).
  assert (Hpu := put_c_bound m cmp fuel e root Hn).
  assert (Hr := remove_c_bound m cmp fuel key root Hn).
  assert (Hpn := per_node_le m).
  fold H in Hg, Hpu, Hr.
  assert (HP : (per_node m * H <= (Nat.log2 m + 1) * H)%nat) by (apply Nat.mul_le_mono_r; exact Hpn).
  repeat split; nia.
Qed.

(* under the documented invariant, all leaves are at the same depth, so the number of levels is what
   Height() returns *)
Theorem C07_bt_cost_inv : forall m cmp fuel key e root, (3 <= m)%nat -> btree_inv m (Some root) ->
  let H := height root in
  (get_c cmp fuel key root <= 4 * (Nat.log2 m + 1) * H)%nat /\
  (put_c m cmp fuel e (Some root) <= 4 * (Nat.log2 m + 1) * H)%nat /\
  (remove_c m cmp fuel key (Some root) <= 4 * (Nat.log2 m + 1) * H)%nat.
Proof.
  intros m cmp fuel key e root Hm (h & Hb & Hc) H.
  assert (E : maxheight root = H).
  { unfold H. rewrite (bal_maxheight _ _ Hb), (bal_height _ _ Hb). reflexivity. }
  rewrite <- E. apply C07_bt_cost; [exact Hm|]. eapply cnt_node_le. exact Hc.
Qed.

(* ---------- in terms of the number n of keys ---------- *)
(* BTreeBounds.bt_height: 2 * ceil(m/2)^(h-1) <= n + 1.  Hence h <= L + 1 for every L with
   n + 1 < ceil(m/2)^(L+1), in particular for L = floor(log_ceil(m/2) (n + 1)): this is the bound
   4 * (log2 m + 1) * (log_ceil(m/2) (n+1) + 1) of the property. *)
Lemma half_order_ge2 : forall m, (3 <= m)%nat -> (2 <= (m + 1) / 2)%nat.
Proof. intros m Hm. apply Nat.div_le_lower_bound; lia. Qed.

Lemma inv_levels_le : forall m root L, (3 <= m)%nat -> btree_inv m (Some root) ->
  (count root + 1 < ((m + 1) / 2) ^ (L + 1))%nat -> (height root <= L + 1)%nat.
Proof.
  intros m root L Hm Hinv HL.
  assert (Hb := bt_height m Hm root (height root) Hinv eq_refl).
  rewrite (minE_ceil m Hm) in Hb.
  assert (Hc := half_order_ge2 m Hm).
  destruct (Nat.le_gt_cases (height root) (L + 1)) as [Hle|Hgt]; [exact Hle|exfalso].
  assert (Hpow : (((m + 1) / 2) ^ (L + 1) <= ((m + 1) / 2) ^ (height root - 1))%nat)
    by (apply Nat.pow_le_mono_r; lia).
  lia.
Qed.

Lemma inv_levels_log2 : forall m root, (3 <= m)%nat -> btree_inv m (Some root) ->
  (height root <= Nat.log2 (count root + 1))%nat.
Proof.
  intros m root Hm Hinv.
  assert (Hb := bt_height m Hm root (height root) Hinv eq_refl).
  rewrite (minE_ceil m Hm) in Hb.
  assert (Hc := half_order_ge2 m Hm).
  apply Nat.log2_le_pow2; [lia|].
  assert (Hh : (1 <= height root)%nat) by (destruct root as [es cs]; cbn [height]; lia).
  assert (Hpow : (2 ^ (height root - 1) <= ((m + 1) / 2) ^ (height root - 1))%nat)
    by (apply Nat.pow_le_mono_l; exact Hc).
  replace (height root) with (S (height root - 1)) at 1 by lia.
  rewrite Nat.pow_succ_r'. lia.
Qed.

Theorem C07_bt_cost_n : forall m cmp fuel key e root L, (3 <= m)%nat -> btree_inv m (Some root) ->
  (count root + 1 < ((m + 1) / 2) ^ (L + 1))%nat ->
  (get_c cmp fuel key root <= 4 * (Nat.log2 m + 1) * (L + 1))%nat /\
  (put_c m cmp fuel e (Some root) <= 4 * (Nat.log2 m + 1) * (L + 1))%nat /\
  (remove_c m cmp fuel key (Some root) <= 4 * (Nat.log2 m + 1) * (L + 1))%nat.
Proof.
  intros m cmp fuel key e root L Hm Hinv HL.
  assert (Hh := inv_levels_le m root L Hm Hinv HL).
  destruct (C07_bt_cost_inv m cmp fuel key e root Hm Hinv) as (Hg & Hp & Hr).
  assert (Hmul : (4 * (Nat.log2 m + 1) * height root <= 4 * (Nat.log2 m + 1) * (L + 1))%nat)
    by (apply Nat.mul_le_mono_l; exact Hh).
  repeat split; lia.
Qed.

(* a closed form with the standard library's log2 only (ceil(m/2) >= 2) *)
Theorem C07_bt_cost_log2 : forall m cmp fuel key e root, (3 <= m)%nat -> btree_inv m (Some root) ->
  let B := (4 * (Nat.log2 m + 1) * Nat.log2 (count root + 1))%nat in
  (get_c cmp fuel key root <= B)%nat /\
  (put_c m cmp fuel e (Some root) <= B)%nat /\
  (remove_c m cmp fuel key (Some root) <= B)%nat.
Proof.
  intros m cmp fuel key e root Hm Hinv B.
  assert (Hh := inv_levels_log2 m root Hm Hinv).
  destruct (C07_bt_cost_inv m cmp fuel key e root Hm Hinv) as (Hg & Hp & Hr).
  assert (Hmul : (4 * (Nat.log2 m + 1) * height root <= B)%nat)
    by (apply Nat.mul_le_mono_l; exact Hh).
  repeat split; lia.
Qed.

Print Assumptions search_c_bound.
Print Assumptions get_c_bound.
Print Assumptions put_c_bound_sharp.
Print Assumptions remove_c_bound_sharp.
Print Assumptions C07_bt_cost.
Print Assumptions C07_bt_cost_inv.
Print Assumptions C07_bt_cost_n.
Print Assumptions C07_bt_cost_log2.
