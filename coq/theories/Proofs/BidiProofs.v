(* Bidirectional maps (HashBidiMap, TreeBidiMap): property C10.

   Both kinds keep two dictionaries, forward (key -> value) and inverse (value -> key); the hash kind
   as two canonical association lists over Z.compare, the tree kind as two red-black trees ordered by
   the key comparator [kc c] and the value comparator [vc c].  Both are handled at once on the level
   of two sorted association lists (the in-order entry lists for the tree kind, through
   MachineMaps.rbs_put_sim / rbs_remove_sim / rbs_get_spec - no tree fact is re-proved here).

   The specification is a plain list of pairs [P] (no order, no comparator-specific structure):
     put k v    =  (k, v) :: the pairs whose key is not equivalent to k and whose value is not
                   equivalent to v
     remove k   =  the pairs whose key is not equivalent to k
     clear      =  []
   folded over the history of mutating operations ([MachineMaps.hist]: FromJSON of an object is a
   clear followed by the puts of [sort_entries kvs] in that order).

   Main results (all for every op list, both kinds, every comparator pair):
     bidi_run            simulation: the state after [ops] is related ([brel]) to [spec c ops]
     C10_invariant_proof reachable states are not StCrash; both dictionaries sorted / red-black /
                         cached sizes right; (k, v) in forward <-> (v, k) in inverse, EXACTLY
     C10_get_getkey_*    Get / GetKey round trips
     C10_injective_*     one key class per value class and conversely
     C10_put_* / C10_remove_*   what Put / Remove change and what they leave alone
     C10_size_proof      Size = len Keys = len Values = number of pairs; both enumerations strictly ascending
     C10_history_proof   Get / GetKey / Size are the answers of the pair-list specification *)
From Coq Require Import ZArith List Lia Bool Sorted SetoidList Permutation.
From Gods Require Import Common.Cmp Common.ListAux Spec.SeqSpec Spec.MapSpec Model.Ops Model.Lists Model.Machine.
From Gods Require Model.RBTree.
From Gods Require Proofs.RBInv Proofs.RBMap.
From Gods Require Import Proofs.MapSpecProofs Proofs.MachineMaps.
Import ListNotations.
Local Open Scope Z_scope.

(* ================================================================================================ *)
(* 0. sorted association lists: membership after ins / del, lookup                                  *)
(* ================================================================================================ *)
Definition lget (cmp : cmpf) (k : Z) (l : list entry) : option Z := option_map snd (find_list cmp k l).

(* one entry per key class *)
Definition uniq (cmp : cmpf) (l : list entry) : Prop :=
  forall e e', In e l -> In e' l -> cmp (fst e) (fst e') = Eq -> e = e'.

Definition neqb (cmp : cmpf) (x y : Z) : bool := negb (is_eq (cmp x y)).

Lemma neqb_true : forall cmp x y, neqb cmp x y = true <-> cmp x y <> Eq.
Proof.
  intros cmp x y. unfold neqb. destruct (cmp x y); cbn [is_eq negb]; split; congruence.
Qed.

Section OneCmp.
Variable cmp : cmpf.
Hypothesis Hswo : SWO cmp.

Lemma ksorted_uniq : forall l, ksorted cmp l -> uniq cmp l.
Proof. intros l Hs e e' He He' E. exact (ksorted_In_eq cmp Hswo l e e' Hs He He' E). Qed.

Lemma ksorted_NoDup : forall l, ksorted cmp l -> NoDup l.
Proof.
  induction l as [|x l IH]; intros Hs; [constructor|].
  constructor; [|apply IH; eapply ksorted_tail; exact Hs].
  intros Hin. pose proof (ksorted_hd_lt cmp x l x Hs Hin) as Hlt.
  rewrite (c_refl cmp Hswo) in Hlt. discriminate.
Qed.

Lemma In_find : forall l e, ksorted cmp l -> (In e l <-> find_list cmp (fst e) l = Some e).
Proof.
  intros l e Hs. split.
  - intros He. apply (find_list_In cmp Hswo); [exact Hs|exact He|apply (c_refl cmp Hswo)].
  - intros H. apply (find_list_Some cmp) in H. tauto.
Qed.

Lemma In_ins : forall k v l e, ksorted cmp l ->
  (In e (ins_list cmp k v l) <-> e = (k, v) \/ (In e l /\ cmp (fst e) k <> Eq)).
Proof.
  intros k v l e Hs.
  rewrite (In_find (ins_list cmp k v l) e (ins_list_sorted cmp Hswo k v l Hs)).
  rewrite (find_ins_list cmp Hswo) by exact Hs.
  rewrite (In_find l e Hs).
  destruct (cmp (fst e) k) eqn:E.
  - split.
    + intros H. inversion H. left. reflexivity.
    + intros [H|[_ H]]; [subst e; reflexivity|congruence].
  - split.
    + intros H. right. split; [exact H|discriminate].
    + intros [H|[H _]]; [|exact H]. subst e. cbn [fst] in E. rewrite (c_refl cmp Hswo) in E. discriminate.
  - split.
    + intros H. right. split; [exact H|discriminate].
    + intros [H|[H _]]; [|exact H]. subst e. cbn [fst] in E. rewrite (c_refl cmp Hswo) in E. discriminate.
Qed.

Lemma In_del : forall k l e, ksorted cmp l ->
  (In e (del_list cmp k l) <-> In e l /\ cmp (fst e) k <> Eq).
Proof.
  intros k l e Hs.
  rewrite (In_find (del_list cmp k l) e (del_list_sorted cmp k l Hs)).
  rewrite (find_del_list cmp Hswo) by exact Hs.
  rewrite (In_find l e Hs).
  destruct (cmp (fst e) k) eqn:E.
  - split; [discriminate|]. intros [_ H]. congruence.
  - split; [intros H; split; [exact H|discriminate]|tauto].
  - split; [intros H; split; [exact H|discriminate]|tauto].
Qed.

(* lookup in a list with one entry per key class *)
Lemma find_uniq : forall k l e, uniq cmp l -> In e l -> cmp k (fst e) = Eq -> find_list cmp k l = Some e.
Proof.
  intros k l e Hu He E. destruct (find_list cmp k l) as [e'|] eqn:F.
  - apply (find_list_Some cmp) in F. destruct F as [F1 F2].
    f_equal. apply Hu; try assumption.
    apply (c_eq_sym cmp Hswo) in F2. eapply (c_eq_trans cmp Hswo); eassumption.
  - exfalso. rewrite (find_list_None cmp) in F. exact (F e He E).
Qed.

Lemma lget_Some : forall k l v, uniq cmp l ->
  (lget cmp k l = Some v <-> exists k0, In (k0, v) l /\ cmp k k0 = Eq).
Proof.
  intros k l v Hu. unfold lget. split.
  - destruct (find_list cmp k l) as [[k0 v0]|] eqn:F; [|discriminate].
    cbn [option_map snd]. intros H. inversion H. subst v0.
    apply (find_list_Some cmp) in F. exists k0. exact F.
  - intros (k0 & Hin & E). rewrite (find_uniq k l (k0, v) Hu Hin E). reflexivity.
Qed.

Lemma lget_None : forall k l, lget cmp k l = None <-> (forall a b, In (a, b) l -> cmp k a <> Eq).
Proof.
  intros k l. unfold lget. split.
  - destruct (find_list cmp k l) as [e|] eqn:F; [discriminate|]. intros _ a b Hin.
    rewrite (find_list_None cmp) in F. exact (F (a, b) Hin).
  - intros H. destruct (find_list cmp k l) as [[a b]|] eqn:F; [|reflexivity].
    apply (find_list_Some cmp) in F. destruct F as [F1 F2]. exfalso. exact (H a b F1 F2).
Qed.

(* lookup depends on the set of entries only *)
Lemma lget_ext : forall k l1 l2, uniq cmp l1 -> uniq cmp l2 -> (forall e, In e l1 <-> In e l2) ->
  lget cmp k l1 = lget cmp k l2.
Proof.
  intros k l1 l2 H1 H2 Hin.
  destruct (lget cmp k l2) as [v|] eqn:E2.
  - apply (lget_Some k l2 v H2) in E2. destruct E2 as (k0 & Hk0 & E).
    apply (lget_Some k l1 v H1). exists k0. split; [apply Hin; exact Hk0|exact E].
  - apply lget_None. intros a b Hab. rewrite lget_None in E2. apply (E2 a b). apply Hin. exact Hab.
Qed.

Lemma lget_eq_probe : forall k k' l, cmp k k' = Eq -> lget cmp k l = lget cmp k' l.
Proof. intros k k' l E. unfold lget. rewrite (find_list_eq_probe cmp Hswo k k' l E). reflexivity. Qed.

Lemma ksorted_keys_sorted : forall l, ksorted cmp l -> StronglySorted (fun a b => cmp a b = Lt) (map fst l).
Proof.
  intros l H. induction H as [|x l Hs IH Hx]; cbn [map]; constructor; [exact IH|].
  rewrite Forall_forall in *. intros y Hy. apply in_map_iff in Hy. destruct Hy as (e & <- & He).
  exact (Hx e He).
Qed.
End OneCmp.

(* ================================================================================================ *)
(* 1. the pair-list specification and the two-dictionary implementation on sorted lists             *)
(* ================================================================================================ *)
Definition flip (e : entry) : entry := (snd e, fst e).

Lemma flip_flip : forall e, flip (flip e) = e.
Proof. intros [a b]. reflexivity. Qed.

Lemma In_flip : forall a b l, In (b, a) (map flip l) <-> In (a, b) l.
Proof.
  intros a b l. rewrite in_map_iff. split.
  - intros ([x y] & E & H). unfold flip in E. cbn [fst snd] in E. inversion E. subst. exact H.
  - intros H. exists (a, b). split; [reflexivity|exact H].
Qed.

Section Bidi.
Variables ck cv : cmpf.
Hypothesis Hk : SWO ck.
Hypothesis Hv : SWO cv.

(* ---------- specification ---------- *)
Definition sput (k v : Z) (P : list entry) : list entry :=
  (k, v) :: filter (fun e => neqb ck (fst e) k && neqb cv (snd e) v) P.
Definition sremove (k : Z) (P : list entry) : list entry :=
  filter (fun e => neqb ck (fst e) k) P.
Definition bstep (P : list entry) (o : mop) : list entry :=
  match o with
  | MPut k v => sput k v P
  | MRemove k => sremove k P
  | MClear => []
  end.
Definition brun (h : list mop) : list entry := fold_left bstep h [].
(* the answers of the specification *)
Definition sget (P : list entry) (k : Z) : option Z := lget ck k P.
Definition sgetkey (P : list entry) (v : Z) : option Z := lget cv v (map flip P).

Lemma In_sput : forall k v P e,
  In e (sput k v P) <-> e = (k, v) \/ (In e P /\ ck (fst e) k <> Eq /\ cv (snd e) v <> Eq).
Proof.
  intros k v P e. unfold sput. cbn [In]. rewrite filter_In, andb_true_iff, !neqb_true.
  split; (intros [H|H]; [left; congruence|right; exact H]).
Qed.

Lemma In_sremove : forall k P e, In e (sremove k P) <-> In e P /\ ck (fst e) k <> Eq.
Proof. intros k P e. unfold sremove. rewrite filter_In, neqb_true. reflexivity. Qed.

(* ---------- implementation on two sorted lists ---------- *)
Definition gI1 (k : Z) (F J : list entry) : list entry :=
  match lget ck k F with Some v0 => del_list cv v0 J | None => J end.
Definition gF1 (v : Z) (F I1 : list entry) : list entry :=
  match lget cv v I1 with Some k0 => del_list ck k0 F | None => F end.
Definition gput (k v : Z) (s : list entry * list entry) : list entry * list entry :=
  let '(F, J) := s in
  let I1 := gI1 k F J in
  let F1 := gF1 v F I1 in
  (ins_list ck k v F1, ins_list cv v k I1).
Definition gremove (k : Z) (s : list entry * list entry) : list entry * list entry :=
  let '(F, J) := s in
  match lget ck k F with Some v => (del_list ck k F, del_list cv v J) | None => s end.

(* ---------- the relation: P is the set of pairs, F lists it by key, J lists the flipped pairs by value ---------- *)
Definition R (P F J : list entry) : Prop :=
  ksorted ck F /\ ksorted cv J /\ NoDup P /\
  (forall a b, In (a, b) P <-> In (a, b) F) /\
  (forall a b, In (a, b) P <-> In (b, a) J).

Lemma R_nil : R [] [] [].
Proof.
  split; [constructor|]. split; [constructor|]. split; [constructor|].
  split; intros a b; reflexivity.
Qed.

Lemma R_key_uniq : forall P F J a b a' b', R P F J -> In (a, b) P -> In (a', b') P ->
  ck a a' = Eq -> a = a' /\ b = b'.
Proof.
  intros P F J a b a' b' (HsF & _ & _ & HF & _) H1 H2 E.
  apply HF in H1. apply HF in H2.
  pose proof (ksorted_In_eq ck Hk F (a, b) (a', b') HsF H1 H2 E) as Heq. inversion Heq. tauto.
Qed.

Lemma R_val_uniq : forall P F J a b a' b', R P F J -> In (a, b) P -> In (a', b') P ->
  cv b b' = Eq -> a = a' /\ b = b'.
Proof.
  intros P F J a b a' b' (_ & HsI & _ & _ & HI) H1 H2 E.
  apply HI in H1. apply HI in H2.
  pose proof (ksorted_In_eq cv Hv J (b, a) (b', a') HsI H1 H2 E) as Heq. inversion Heq. tauto.
Qed.

Lemma R_uniq_P : forall P F J, R P F J -> uniq ck P.
Proof.
  intros P F J HR [a b] [a' b'] H1 H2 E. cbn [fst] in E.
  destruct (R_key_uniq P F J a b a' b' HR H1 H2 E). congruence.
Qed.

Lemma R_uniq_flipP : forall P F J, R P F J -> uniq cv (map flip P).
Proof.
  intros P F J HR [b a] [b' a'] H1 H2 E. cbn [fst] in E.
  apply (proj1 (In_flip a b P)) in H1. apply (proj1 (In_flip a' b' P)) in H2.
  destruct (R_val_uniq P F J a b a' b' HR H1 H2 E). congruence.
Qed.

(* the inverse dictionary after "drop the pair held by k" *)
Lemma gI1_spec : forall P F J k, R P F J ->
  ksorted cv (gI1 k F J) /\
  (forall a b, In (b, a) (gI1 k F J) <-> In (a, b) P /\ ck a k <> Eq).
Proof.
  intros P F J k HR. pose proof HR as (HsF & HsI & Hnd & HF & HI). unfold gI1.
  destruct (lget ck k F) as [v0|] eqn:G.
  - apply (lget_Some ck Hk k F v0 (ksorted_uniq ck Hk F HsF)) in G. destruct G as (k0 & Hin0 & E0).
    apply HF in Hin0.
    split; [apply (del_list_sorted cv); exact HsI|].
    intros a b. rewrite (In_del cv Hv) by exact HsI. cbn [fst]. rewrite <- HI. split.
    + intros [Hab Hne]. split; [exact Hab|]. intros E.
      assert (E' : ck a k0 = Eq) by (eapply (c_eq_trans ck Hk); eassumption).
      destruct (R_key_uniq P F J a b k0 v0 HR Hab Hin0 E') as [_ ->].
      apply Hne. apply (c_refl cv Hv).
    + intros [Hab Hne]. split; [exact Hab|]. intros E.
      destruct (R_val_uniq P F J a b k0 v0 HR Hab Hin0 E) as [-> _].
      apply Hne. apply (c_eq_sym ck Hk). exact E0.
  - split; [exact HsI|]. intros a b. rewrite <- HI. split; [|tauto].
    intros Hab. split; [exact Hab|]. intros E.
    rewrite (lget_None ck) in G. apply HF in Hab. apply (G a b Hab). apply (c_eq_sym ck Hk). exact E.
Qed.

(* the forward dictionary after "drop the pair holding v" (looked up in the already reduced inverse) *)
Lemma gF1_spec : forall P F J k v, R P F J ->
  ksorted ck (gF1 v F (gI1 k F J)) /\
  (forall a b, ck a k <> Eq -> (In (a, b) (gF1 v F (gI1 k F J)) <-> In (a, b) P /\ cv b v <> Eq)).
Proof.
  intros P F J k v HR. pose proof HR as (HsF & HsI & Hnd & HF & HI).
  destruct (gI1_spec P F J k HR) as [HsI1 HI1]. unfold gF1.
  destruct (lget cv v (gI1 k F J)) as [k1|] eqn:G.
  - apply (lget_Some cv Hv v _ k1 (ksorted_uniq cv Hv _ HsI1)) in G. destruct G as (v1 & Hin1 & E1).
    apply HI1 in Hin1. destruct Hin1 as [Hin1 Hne1].
    split; [apply (del_list_sorted ck); exact HsF|].
    intros a b _. rewrite (In_del ck Hk) by exact HsF. cbn [fst]. rewrite <- HF. split.
    + intros [Hab Hne]. split; [exact Hab|]. intros E.
      assert (E' : cv b v1 = Eq) by (eapply (c_eq_trans cv Hv); eassumption).
      destruct (R_val_uniq P F J a b k1 v1 HR Hab Hin1 E') as [-> _].
      apply Hne. apply (c_refl ck Hk).
    + intros [Hab Hne]. split; [exact Hab|]. intros E.
      destruct (R_key_uniq P F J a b k1 v1 HR Hab Hin1 E) as [_ ->].
      apply Hne. apply (c_eq_sym cv Hv). exact E1.
  - split; [exact HsF|]. intros a b Hak. rewrite <- HF. split; [|tauto].
    intros Hab. split; [exact Hab|]. intros E.
    rewrite (lget_None cv) in G. apply (G b a); [apply HI1; split; assumption|].
    apply (c_eq_sym cv Hv). exact E.
Qed.

Lemma NoDup_filter' : forall (f : entry -> bool) l, NoDup l -> NoDup (filter f l).
Proof.
  intros f l H. induction H as [|x l Hx Hnd IH]; cbn [filter]; [constructor|].
  destruct (f x); [|exact IH]. constructor; [|exact IH]. rewrite filter_In. tauto.
Qed.

Theorem gput_R : forall P F J k v, R P F J ->
  R (sput k v P) (fst (gput k v (F, J))) (snd (gput k v (F, J))).
Proof.
  intros P F J k v HR. pose proof HR as (HsF & HsI & Hnd & HF & HI).
  destruct (gI1_spec P F J k HR) as [HsI1 HI1].
  destruct (gF1_spec P F J k v HR) as [HsF1 HF1].
  cbn [gput fst snd].
  split; [apply (ins_list_sorted ck Hk); exact HsF1|].
  split; [apply (ins_list_sorted cv Hv); exact HsI1|].
  split.
  { unfold sput. constructor; [|apply NoDup_filter'; exact Hnd].
    rewrite filter_In, andb_true_iff, !neqb_true. cbn [fst snd]. intros [_ [H _]].
    apply H. apply (c_refl ck Hk). }
  split; intros a b; rewrite In_sput; cbn [fst snd].
  - rewrite (In_ins ck Hk) by exact HsF1. cbn [fst]. split.
    + intros [H|(Hab & Hak & Hbv)]; [left; exact H|]. right. split; [|exact Hak].
      apply (HF1 a b Hak). tauto.
    + intros [H|[Hab Hak]]; [left; exact H|]. right. apply (HF1 a b Hak) in Hab. tauto.
  - rewrite (In_ins cv Hv) by exact HsI1. cbn [fst]. split.
    + intros [H|(Hab & Hak & Hbv)]; [left; congruence|]. right. split; [|exact Hbv].
      apply HI1. tauto.
    + intros [H|[Hab Hbv]]; [left; congruence|]. right. apply HI1 in Hab. tauto.
Qed.

Theorem gremove_R : forall P F J k, R P F J ->
  R (sremove k P) (fst (gremove k (F, J))) (snd (gremove k (F, J))).
Proof.
  intros P F J k HR. pose proof HR as (HsF & HsI & Hnd & HF & HI).
  destruct (gI1_spec P F J k HR) as [HsI1 HI1]. unfold gI1 in HsI1, HI1.
  cbn [gremove]. destruct (lget ck k F) as [v0|] eqn:G; cbn [fst snd].
  - split; [apply (del_list_sorted ck); exact HsF|].
    split; [exact HsI1|].
    split; [apply NoDup_filter'; exact Hnd|].
    split; intros a b; rewrite In_sremove; cbn [fst].
    + rewrite (In_del ck Hk) by exact HsF. cbn [fst]. rewrite HF. reflexivity.
    + rewrite HI1. reflexivity.
  - split; [exact HsF|]. split; [exact HsI|].
    split; [apply NoDup_filter'; exact Hnd|].
    split; intros a b; rewrite In_sremove; cbn [fst].
    + rewrite <- HF. specialize (HI1 a b). rewrite <- HI in HI1. tauto.
    + rewrite HI1. reflexivity.
Qed.

(* removing an absent key changes nothing *)
Lemma gremove_absent : forall F J k, lget ck k F = None -> gremove k (F, J) = (F, J).
Proof. intros F J k G. cbn [gremove]. rewrite G. reflexivity. Qed.

(* ---------- what R says about the observers ---------- *)
Lemma R_get : forall P F J k, R P F J -> lget ck k F = sget P k.
Proof.
  intros P F J k HR. pose proof HR as (HsF & HsI & Hnd & HF & HI). unfold sget.
  apply (lget_ext ck Hk); [apply (ksorted_uniq ck Hk); exact HsF|eapply R_uniq_P; exact HR|].
  intros [a b]. symmetry. apply HF.
Qed.

Lemma R_getkey : forall P F J v, R P F J -> lget cv v J = sgetkey P v.
Proof.
  intros P F J v HR. pose proof HR as (HsF & HsI & Hnd & HF & HI). unfold sgetkey.
  apply (lget_ext cv Hv); [apply (ksorted_uniq cv Hv); exact HsI|eapply R_uniq_flipP; exact HR|].
  intros [b a]. rewrite In_flip. symmetry. apply HI.
Qed.

Lemma flip_inj : forall e e', flip e = flip e' -> e = e'.
Proof. intros [a b] [a' b'] H. unfold flip in H. cbn [fst snd] in H. congruence. Qed.

Lemma NoDup_map_flip : forall l, NoDup l -> NoDup (map flip l).
Proof.
  intros l H. induction H as [|x l Hx Hnd IH]; cbn [map]; constructor; [|exact IH].
  rewrite in_map_iff. intros (y & E & Hy). apply flip_inj in E. subst y. exact (Hx Hy).
Qed.

Lemma R_length : forall P F J, R P F J -> length F = length P /\ length J = length P.
Proof.
  intros P F J (HsF & HsI & Hnd & HF & HI). split.
  - apply Permutation_length. apply NoDup_Permutation; [apply (ksorted_NoDup ck Hk); exact HsF|exact Hnd|].
    intros [a b]. symmetry. apply HF.
  - rewrite <- (map_length flip P). apply Permutation_length.
    apply NoDup_Permutation; [apply (ksorted_NoDup cv Hv); exact HsI|apply NoDup_map_flip; exact Hnd|].
    intros [b a]. rewrite In_flip. symmetry. apply HI.
Qed.

(* ---------- the specification on its own: every reachable pair list is one-to-one ---------- *)
Definition one_to_one (P : list entry) : Prop :=
  NoDup P /\
  (forall a b a' b', In (a, b) P -> In (a', b') P -> ck a a' = Eq -> a = a' /\ b = b') /\
  (forall a b a' b', In (a, b) P -> In (a', b') P -> cv b b' = Eq -> a = a' /\ b = b').

Lemma R_one_to_one : forall P F J, R P F J -> one_to_one P.
Proof.
  intros P F J HR. split; [apply HR|]. split.
  - intros a b a' b'. apply (R_key_uniq P F J a b a' b' HR).
  - intros a b a' b'. apply (R_val_uniq P F J a b a' b' HR).
Qed.

(* scanning the history newest-first: the pair e is live iff it was put and since then neither a
   Put of an equivalent key, nor a Put of an equivalent value, nor a Remove of an equivalent key,
   nor a Clear happened.  No state at all. *)
Fixpoint live (h : list mop) (e : entry) : Prop :=
  match h with
  | [] => False
  | MPut k v :: h' => e = (k, v) \/ (ck (fst e) k <> Eq /\ cv (snd e) v <> Eq /\ live h' e)
  | MRemove k :: h' => ck (fst e) k <> Eq /\ live h' e
  | MClear :: _ => False
  end.

Lemma brun_snoc : forall h o, brun (h ++ [o]) = bstep (brun h) o.
Proof. intros h o. unfold brun. rewrite fold_left_app. reflexivity. Qed.

Theorem brun_live : forall h e, In e (brun h) <-> live (rev h) e.
Proof.
  intros h e. induction h as [|o h IH] using rev_ind; [reflexivity|].
  rewrite brun_snoc, rev_app_distr. cbn [rev app].
  destruct o as [k v|k|]; cbn [bstep live].
  - rewrite In_sput, IH. tauto.
  - rewrite In_sremove, IH. tauto.
  - reflexivity.
Qed.
End Bidi.

(* ---------- consequences for lookups, on pair lists alone (used for both directions by flipping) ---------- *)
Lemma one_to_one_flip : forall ck cv P, one_to_one ck cv P -> one_to_one cv ck (map flip P).
Proof.
  intros ck cv P (Hnd & Hku & Hvu). split; [apply NoDup_map_flip; exact Hnd|]. split.
  - intros b a b' a' H1 H2 E. apply (proj1 (In_flip a b P)) in H1. apply (proj1 (In_flip a' b' P)) in H2.
    destruct (Hvu a b a' b' H1 H2 E). tauto.
  - intros b a b' a' H1 H2 E. apply (proj1 (In_flip a b P)) in H1. apply (proj1 (In_flip a' b' P)) in H2.
    destruct (Hku a b a' b' H1 H2 E). tauto.
Qed.

Lemma one_to_one_uniq : forall ck cv P, one_to_one ck cv P -> uniq ck P.
Proof.
  intros ck cv P (_ & Hku & _) [a b] [a' b'] H1 H2 E. cbn [fst] in E.
  destruct (Hku a b a' b' H1 H2 E). congruence.
Qed.

Section PairLookups.
Variables c1 c2 : cmpf.
Hypothesis H1 : SWO c1.
Hypothesis H2 : SWO c2.

Lemma put_lookup : forall P P' k v, one_to_one c1 c2 P -> one_to_one c1 c2 P' ->
  (forall a b, In (a, b) P' <-> (a, b) = (k, v) \/ (In (a, b) P /\ c1 a k <> Eq /\ c2 b v <> Eq)) ->
  (forall k', c1 k' k = Eq -> lget c1 k' P' = Some v) /\
  (forall k' v', c1 k' k <> Eq -> lget c1 k' P = Some v' -> c2 v' v = Eq -> lget c1 k' P' = None) /\
  (forall k' v', c1 k' k <> Eq -> lget c1 k' P = Some v' -> c2 v' v <> Eq -> lget c1 k' P' = Some v') /\
  (forall k', c1 k' k <> Eq -> lget c1 k' P = None -> lget c1 k' P' = None).
Proof.
  intros P P' k v O O' HP'.
  pose proof (one_to_one_uniq c1 c2 P O) as U. pose proof (one_to_one_uniq c1 c2 P' O') as U'.
  destruct O as (_ & Hku & Hvu).
  split; [|split; [|split]].
  - intros k' E. apply (lget_Some c1 H1 k' P' v U'). exists k. split; [|exact E].
    apply HP'. left. reflexivity.
  - intros k' v' Hne G Ev. apply (lget_Some c1 H1 k' P v' U) in G. destruct G as (k0 & Hin0 & E0).
    apply lget_None. intros a b Hab E. apply HP' in Hab. destruct Hab as [Hab|(Hab & Hak & Hbv)].
    + inversion Hab. subst. exact (Hne E).
    + assert (E' : c1 a k0 = Eq).
      { eapply (c_eq_trans c1 H1); [apply (c_eq_sym c1 H1); exact E|exact E0]. }
      destruct (Hku a b k0 v' Hab Hin0 E') as [_ ->]. exact (Hbv Ev).
  - intros k' v' Hne G Ev. apply (lget_Some c1 H1 k' P v' U) in G. destruct G as (k0 & Hin0 & E0).
    apply (lget_Some c1 H1 k' P' v' U'). exists k0. split; [|exact E0].
    apply HP'. right. split; [exact Hin0|]. split; [|exact Ev].
    intros E. apply Hne. eapply (c_eq_trans c1 H1); eassumption.
  - intros k' Hne G. rewrite lget_None in G. apply lget_None.
    intros a b Hab E. apply HP' in Hab. destruct Hab as [Hab|(Hab & _)].
    + inversion Hab. subst. exact (Hne E).
    + exact (G a b Hab E).
Qed.

Lemma remove_lookup : forall P P' k, one_to_one c1 c2 P -> one_to_one c1 c2 P' ->
  (forall a b, In (a, b) P' <-> In (a, b) P /\ c1 a k <> Eq) ->
  (forall k', c1 k' k = Eq -> lget c1 k' P' = None) /\
  (forall k', c1 k' k <> Eq -> lget c1 k' P' = lget c1 k' P).
Proof.
  intros P P' k O O' HP'.
  pose proof (one_to_one_uniq c1 c2 P O) as U. pose proof (one_to_one_uniq c1 c2 P' O') as U'.
  split.
  - intros k' E. apply lget_None. intros a b Hab E'. apply HP' in Hab. destruct Hab as [_ Hne].
    apply Hne. eapply (c_eq_trans c1 H1); [apply (c_eq_sym c1 H1); exact E'|exact E].
  - intros k' Hne. destruct (lget c1 k' P) as [v'|] eqn:G.
    + apply (lget_Some c1 H1 k' P v' U) in G. destruct G as (k0 & Hin0 & E0).
      apply (lget_Some c1 H1 k' P' v' U'). exists k0. split; [|exact E0].
      apply HP'. split; [exact Hin0|]. intros E. apply Hne. eapply (c_eq_trans c1 H1); eassumption.
    + rewrite lget_None in G. apply lget_None. intros a b Hab. apply HP' in Hab. apply (G a b). tauto.
Qed.

(* the other direction after a removal by key: only the value class of the removed pair disappears *)
Lemma remove_lookup_inv : forall P P' k, one_to_one c1 c2 P -> one_to_one c1 c2 P' ->
  (forall a b, In (a, b) P' <-> In (a, b) P /\ c1 a k <> Eq) ->
  (forall v0 v', lget c1 k P = Some v0 -> c2 v' v0 = Eq -> lget c2 v' (map flip P') = None) /\
  (forall v', (forall v0, lget c1 k P = Some v0 -> c2 v' v0 <> Eq) ->
              lget c2 v' (map flip P') = lget c2 v' (map flip P)).
Proof.
  intros P P' k O O' HP'.
  pose proof (one_to_one_uniq c1 c2 P O) as U.
  pose proof (one_to_one_uniq c2 c1 _ (one_to_one_flip c1 c2 P O)) as Uf.
  pose proof (one_to_one_uniq c2 c1 _ (one_to_one_flip c1 c2 P' O')) as Uf'.
  destruct O as (_ & Hku & Hvu).
  split.
  - intros v0 v' G Ev. apply (lget_Some c1 H1 k P v0 U) in G. destruct G as (k0 & Hin0 & E0).
    apply lget_None. intros b a Hba E. apply (proj1 (In_flip a b P')) in Hba.
    apply HP' in Hba. destruct Hba as [Hab Hne].
    assert (E' : c2 b v0 = Eq).
    { eapply (c_eq_trans c2 H2); [apply (c_eq_sym c2 H2); exact E|exact Ev]. }
    destruct (Hvu a b k0 v0 Hab Hin0 E') as [-> _]. apply Hne. apply (c_eq_sym c1 H1). exact E0.
  - intros v' Hno. destruct (lget c2 v' (map flip P)) as [k'|] eqn:G.
    + apply (lget_Some c2 H2 v' _ k' Uf) in G. destruct G as (v1 & Hin1 & E1).
      apply (proj1 (In_flip k' v1 P)) in Hin1.
      apply (lget_Some c2 H2 v' _ k' Uf'). exists v1. split; [|exact E1].
      apply In_flip. apply HP'. split; [exact Hin1|]. intros E.
      apply (Hno v1); [|exact E1].
      apply (lget_Some c1 H1 k P v1 U). exists k'. split; [exact Hin1|]. apply (c_eq_sym c1 H1). exact E.
    + rewrite lget_None in G. apply lget_None. intros b a Hba.
      apply (proj1 (In_flip a b P')) in Hba. apply HP' in Hba. apply (G b a). apply In_flip. tauto.
Qed.
End PairLookups.

(* ================================================================================================ *)
(* 2. the machine                                                                                   *)
(* ================================================================================================ *)
Definition bidi (c : config) : Prop := ckind c = HashBidiMap \/ ckind c = TreeBidiMap.
(* "the same key" / "the same value": == for the hash kind, the comparators for the tree kind *)
Definition bk (c : config) : cmpf := match ckind c with TreeBidiMap => kc c | _ => Z.compare end.
Definition bv (c : config) : cmpf := match ckind c with TreeBidiMap => vc c | _ => Z.compare end.

Lemma bk_SWO : forall c, SWO (bk c).
Proof. intros c. unfold bk. destruct (ckind c); try apply Zcompare_SWO; apply cmp_of_SWO. Qed.
Lemma bv_SWO : forall c, SWO (bv c).
Proof. intros c. unfold bv. destruct (ckind c); try apply Zcompare_SWO; apply cmp_of_SWO. Qed.
Lemma bk_hash : forall c, ckind c = HashBidiMap -> bk c = Z.compare.
Proof. intros c K. unfold bk. rewrite K. reflexivity. Qed.
Lemma bv_hash : forall c, ckind c = HashBidiMap -> bv c = Z.compare.
Proof. intros c K. unfold bv. rewrite K. reflexivity. Qed.
Lemma bk_tree : forall c, ckind c = TreeBidiMap -> bk c = kc c.
Proof. intros c K. unfold bk. rewrite K. reflexivity. Qed.
Lemma bv_tree : forall c, ckind c = TreeBidiMap -> bv c = vc c.
Proof. intros c K. unfold bv. rewrite K. reflexivity. Qed.
Lemma bk_hash_eq : forall c a b, ckind c = HashBidiMap -> (bk c a b = Eq <-> a = b).
Proof. intros c a b K. rewrite (bk_hash c K). apply Z.compare_eq_iff. Qed.
Lemma bv_hash_eq : forall c a b, ckind c = HashBidiMap -> (bv c a b = Eq <-> a = b).
Proof. intros c a b K. rewrite (bv_hash c K). apply Z.compare_eq_iff. Qed.

(* forward and inverse dictionaries as entry lists *)
Definition fwd (s : state) : list entry :=
  match s with StHBidi f _ => f | StTBidi f _ _ _ => RB.inorder f | _ => [] end.
Definition bwd (s : state) : list entry :=
  match s with StHBidi _ i => i | StTBidi _ _ i _ => RB.inorder i | _ => [] end.

Definition shape (c : config) (s : state) : Prop :=
  match s with
  | StHBidi _ _ => ckind c = HashBidiMap
  | StTBidi f fn i inn => ckind c = TreeBidiMap /\ rbI (kc c) (f, fn) /\ rbI (vc c) (i, inn)
  | _ => False
  end.

Definition brel (c : config) (P : list entry) (s : state) : Prop :=
  shape c s /\ R (bk c) (bv c) P (fwd s) (bwd s).

Definition spec (c : config) (ops : list op) : list entry := brun (bk c) (bv c) (hist c ops).

Definition nxt (c : config) (s : state) (o : op) : state := fst (fst (step c s o)).

Lemma run_snoc : forall c ops o, run c (ops ++ [o]) = nxt c (run c ops) o.
Proof. intros c ops o. unfold run, run_from. rewrite fold_left_app. reflexivity. Qed.

(* ---------- the two implementations are gput / gremove ---------- *)
Lemma hbidi_put_g : forall k v (f i : list entry), hbidi_put k v (f, i) = gput Z.compare Z.compare k v (f, i).
Proof.
  intros k v f i. unfold hbidi_put, gput, gI1, gF1, hput, hdel. rewrite !hget_find. reflexivity.
Qed.

Lemma hbidi_remove_g : forall k (f i : list entry), hbidi_remove k (f, i) = gremove Z.compare Z.compare k (f, i).
Proof.
  intros k f i. unfold hbidi_remove, gremove, hdel. rewrite !hget_find. reflexivity.
Qed.

Section TreePair.
Variables ck cv : cmpf.
Hypothesis Hk : SWO ck.
Hypothesis Hv : SWO cv.

Lemma tb_puts_sim : forall k v f1 i1, rbI ck f1 -> rbI cv i1 ->
  exists f2 i2,
    match rbs_put ck k v f1, rbs_put cv v k i1 with
    | Some f2, Some i2 => Some (f2, i2)
    | _, _ => None
    end = Some (f2, i2) /\ rbI ck f2 /\ rbI cv i2 /\
    RB.inorder (fst f2) = ins_list ck k v (RB.inorder (fst f1)) /\
    RB.inorder (fst i2) = ins_list cv v k (RB.inorder (fst i1)).
Proof.
  intros k v f1 i1 Hf1 Hi1.
  destruct (rbs_put_sim ck Hk k v f1 Hf1) as (f2 & E3 & Hf2 & In3).
  destruct (rbs_put_sim cv Hv v k i1 Hi1) as (i2 & E4 & Hi2 & In4).
  exists f2, i2. rewrite E3, E4. tauto.
Qed.

Lemma tb_tail_sim : forall k v f i1, rbI ck f -> rbI cv i1 ->
  exists f2 i2,
    match (match rbs_get cv v i1 with Some k0 => rbs_remove ck k0 f | None => Some f end) with
    | None => None
    | Some f1 =>
      match rbs_put ck k v f1, rbs_put cv v k i1 with
      | Some f2, Some i2 => Some (f2, i2)
      | _, _ => None
      end
    end = Some (f2, i2) /\ rbI ck f2 /\ rbI cv i2 /\
    RB.inorder (fst f2) = ins_list ck k v (gF1 ck cv v (RB.inorder (fst f)) (RB.inorder (fst i1))) /\
    RB.inorder (fst i2) = ins_list cv v k (RB.inorder (fst i1)).
Proof.
  intros k v [tf nf] [ti1 ni1] Hf Hi1. cbn [fst].
  rewrite (rbs_get_spec cv Hv v ti1 ni1 (proj1 (proj2 Hi1))). unfold gF1, lget.
  destruct (option_map snd (find_list cv v (RB.inorder ti1))) as [k0|].
  - destruct (rbs_remove_sim ck Hk k0 (tf, nf) Hf) as (f1 & E & Hf1 & In2). rewrite E.
    cbn [fst] in In2. rewrite <- In2. exact (tb_puts_sim k v f1 (ti1, ni1) Hf1 Hi1).
  - exact (tb_puts_sim k v (tf, nf) (ti1, ni1) Hf Hi1).
Qed.

Lemma tbidi_put_sim : forall k v f i, rbI ck f -> rbI cv i ->
  exists f' i', tbidi_put ck cv k v (f, i) = Some (f', i') /\ rbI ck f' /\ rbI cv i' /\
    (RB.inorder (fst f'), RB.inorder (fst i')) = gput ck cv k v (RB.inorder (fst f), RB.inorder (fst i)).
Proof.
  intros k v [tf nf] [ti ni] Hf Hi. cbn [fst]. unfold tbidi_put. cbn [gput].
  rewrite (rbs_get_spec ck Hk k tf nf (proj1 (proj2 Hf))). unfold gI1, lget.
  destruct (option_map snd (find_list ck k (RB.inorder tf))) as [v0|].
  - destruct (rbs_remove_sim cv Hv v0 (ti, ni) Hi) as (i1 & E & Hi1 & In1). rewrite E.
    cbn [fst] in In1. rewrite <- In1.
    destruct (tb_tail_sim k v (tf, nf) i1 Hf Hi1) as (f2 & i2 & E' & Hf2 & Hi2 & Ia & Ib).
    exists f2, i2. split; [exact E'|]. cbn [fst] in Ia. rewrite Ia, Ib. tauto.
  - destruct (tb_tail_sim k v (tf, nf) (ti, ni) Hf Hi) as (f2 & i2 & E' & Hf2 & Hi2 & Ia & Ib).
    exists f2, i2. split; [exact E'|]. cbn [fst] in Ia, Ib. rewrite Ia, Ib. tauto.
Qed.

Lemma tbidi_remove_sim : forall k f i, rbI ck f -> rbI cv i ->
  exists f' i', tbidi_remove ck cv k (f, i) = Some (f', i') /\ rbI ck f' /\ rbI cv i' /\
    (RB.inorder (fst f'), RB.inorder (fst i')) = gremove ck cv k (RB.inorder (fst f), RB.inorder (fst i)) /\
    (lget ck k (RB.inorder (fst f)) = None -> f' = f /\ i' = i).
Proof.
  intros k [tf nf] [ti ni] Hf Hi. cbn [fst]. unfold tbidi_remove.
  rewrite (rbs_get_spec ck Hk k tf nf (proj1 (proj2 Hf))). cbn [gremove]. unfold lget.
  destruct (option_map snd (find_list ck k (RB.inorder tf))) as [v0|].
  - destruct (rbs_remove_sim ck Hk k (tf, nf) Hf) as (f1 & E1 & Hf1 & In1).
    destruct (rbs_remove_sim cv Hv v0 (ti, ni) Hi) as (i1 & E2 & Hi1 & In2).
    cbn [fst] in In1, In2.
    exists f1, i1. rewrite E1, E2. split; [reflexivity|]. split; [exact Hf1|]. split; [exact Hi1|].
    split; [rewrite In1, In2; reflexivity|discriminate].
  - exists (tf, nf), (ti, ni). split; [reflexivity|]. split; [exact Hf|]. split; [exact Hi|].
    split; [reflexivity|]. intros _. split; reflexivity.
Qed.

(* the same with the pairs spelled as in Machine.step (so that the equations rewrite there) *)
Lemma tbidi_put_sim' : forall k v tf nf ti ni, rbI ck (tf, nf) -> rbI cv (ti, ni) ->
  exists tf' nf' ti' ni',
    tbidi_put ck cv k v ((tf, nf), (ti, ni)) = Some ((tf', nf'), (ti', ni')) /\
    rbI ck (tf', nf') /\ rbI cv (ti', ni') /\
    RB.inorder tf' = fst (gput ck cv k v (RB.inorder tf, RB.inorder ti)) /\
    RB.inorder ti' = snd (gput ck cv k v (RB.inorder tf, RB.inorder ti)).
Proof.
  intros k v tf nf ti ni Hf Hi.
  destruct (tbidi_put_sim k v (tf, nf) (ti, ni) Hf Hi) as ([tf' nf'] & [ti' ni'] & E & Hf' & Hi' & Hio).
  exists tf', nf', ti', ni'. split; [exact E|]. split; [exact Hf'|]. split; [exact Hi'|].
  cbn [fst] in Hio. rewrite <- Hio. split; reflexivity.
Qed.

Lemma tbidi_remove_sim' : forall k tf nf ti ni, rbI ck (tf, nf) -> rbI cv (ti, ni) ->
  exists tf' nf' ti' ni',
    tbidi_remove ck cv k ((tf, nf), (ti, ni)) = Some ((tf', nf'), (ti', ni')) /\
    rbI ck (tf', nf') /\ rbI cv (ti', ni') /\
    RB.inorder tf' = fst (gremove ck cv k (RB.inorder tf, RB.inorder ti)) /\
    RB.inorder ti' = snd (gremove ck cv k (RB.inorder tf, RB.inorder ti)) /\
    (lget ck k (RB.inorder tf) = None -> tf' = tf /\ nf' = nf /\ ti' = ti /\ ni' = ni).
Proof.
  intros k tf nf ti ni Hf Hi.
  destruct (tbidi_remove_sim k (tf, nf) (ti, ni) Hf Hi)
    as ([tf' nf'] & [ti' ni'] & E & Hf' & Hi' & Hio & Hsame).
  exists tf', nf', ti', ni'. split; [exact E|]. split; [exact Hf'|]. split; [exact Hi'|].
  cbn [fst] in Hio, Hsame. rewrite <- Hio. split; [reflexivity|]. split; [reflexivity|].
  intros G. destruct (Hsame G) as [A B]. inversion A. inversion B. tauto.
Qed.
End TreePair.

(* ---------- one step ---------- *)
Lemma brel_init : forall c, bidi c -> brel c [] (init c).
Proof.
  intros c [K|K]; unfold brel, init; rewrite K; cbn [shape fwd bwd RB.inorder].
  - split; [exact K|apply R_nil].
  - split; [|apply R_nil]. split; [exact K|]. split; apply rbI_empty.
Qed.

Lemma step_put : forall c P s k v, brel c P s -> brel c (sput (bk c) (bv c) k v P) (nxt c s (Put k v)).
Proof.
  intros c P s k v [Hsh HR]. unfold brel. destruct s; try contradiction; cbn [shape] in Hsh.
  - rewrite (bk_hash c Hsh), (bv_hash c Hsh) in *. cbn [fwd bwd] in HR.
    pose proof (gput_R Z.compare Z.compare Zcompare_SWO Zcompare_SWO P f i k v HR) as HR'.
    unfold nxt, step. rewrite hbidi_put_g.
    match goal with |- context [gput ?a ?b ?x ?y ?d] => destruct (gput a b x y d) as [f' i'] eqn:G end.
    pose proof (f_equal fst G) as A. pose proof (f_equal snd G) as B. cbn [fst snd] in A, B.
    cbn [fst shape fwd bwd]. split; [exact Hsh|]. first [exact HR' | rewrite <- A, <- B; exact HR'].
  - destruct Hsh as (K & Hf & Hi). rewrite (bk_tree c K), (bv_tree c K) in *. cbn [fwd bwd] in HR.
    pose proof (gput_R (kc c) (vc c) (cmp_of_SWO _) (cmp_of_SWO _) P _ _ k v HR) as HR'.
    destruct (tbidi_put_sim' (kc c) (vc c) (cmp_of_SWO _) (cmp_of_SWO _) k v f fn i inn Hf Hi)
      as (f' & fn' & i' & inn' & E & Hf' & Hi' & A & B).
    unfold nxt, step. rewrite E. cbn [fst shape fwd bwd]. split; [tauto|].
    rewrite A, B. exact HR'.
Qed.

Lemma step_remove : forall c P s k, brel c P s -> brel c (sremove (bk c) k P) (nxt c s (Remove k)).
Proof.
  intros c P s k [Hsh HR]. unfold brel. destruct s; try contradiction; cbn [shape] in Hsh.
  - rewrite (bk_hash c Hsh), (bv_hash c Hsh) in *. cbn [fwd bwd] in HR.
    pose proof (gremove_R Z.compare Z.compare Zcompare_SWO Zcompare_SWO P f i k HR) as HR'.
    unfold nxt, step. rewrite hbidi_remove_g.
    match goal with |- context [gremove ?a ?b ?x ?d] => destruct (gremove a b x d) as [f' i'] eqn:G end.
    pose proof (f_equal fst G) as A. pose proof (f_equal snd G) as B. cbn [fst snd] in A, B.
    cbn [fst shape fwd bwd]. split; [exact Hsh|]. first [exact HR' | rewrite <- A, <- B; exact HR'].
  - destruct Hsh as (K & Hf & Hi). rewrite (bk_tree c K), (bv_tree c K) in *. cbn [fwd bwd] in HR.
    pose proof (gremove_R (kc c) (vc c) (cmp_of_SWO _) (cmp_of_SWO _) P _ _ k HR) as HR'.
    destruct (tbidi_remove_sim' (kc c) (vc c) (cmp_of_SWO _) (cmp_of_SWO _) k f fn i inn Hf Hi)
      as (f' & fn' & i' & inn' & E & Hf' & Hi' & A & B & _).
    unfold nxt, step. rewrite E. cbn [fst shape fwd bwd]. split; [tauto|].
    rewrite A, B. exact HR'.
Qed.

(* removing an absent key: the very same state *)
Lemma step_remove_absent : forall c P s k, brel c P s -> lget (bk c) k (fwd s) = None ->
  nxt c s (Remove k) = s.
Proof.
  intros c P s k [Hsh HR] G. destruct s; try contradiction; cbn [shape] in Hsh.
  - rewrite (bk_hash c Hsh) in G. cbn [fwd] in G.
    unfold nxt, step. rewrite hbidi_remove_g, (gremove_absent _ _ _ _ _ G). reflexivity.
  - destruct Hsh as (K & Hf & Hi). rewrite (bk_tree c K) in G. cbn [fwd] in G.
    destruct (tbidi_remove_sim' (kc c) (vc c) (cmp_of_SWO _) (cmp_of_SWO _) k f fn i inn Hf Hi)
      as (f' & fn' & i' & inn' & E & _ & _ & _ & _ & Hsame).
    destruct (Hsame G) as (-> & -> & -> & ->). unfold nxt, step. rewrite E. reflexivity.
Qed.

Lemma shape_not_crash : forall c s, shape c s -> s <> StCrash.
Proof. intros c s H E. subst s. exact H. Qed.

Lemma put_entries_cons : forall c k v es s, shape c s ->
  put_entries c ((k, v) :: es) s = put_entries c es (nxt c s (Put k v)).
Proof.
  intros c k v es s Hsh. destruct s; try contradiction.
  - unfold nxt, step. cbn [put_entries fold_left fst snd].
    destruct (hbidi_put k v (f, i)) as [f1 i1]. reflexivity.
  - unfold nxt, step. cbn [put_entries tbidi_puts].
    destruct (tbidi_put (kc c) (vc c) k v (f, fn, (i, inn))) as [[[f1 fn1] [i1 inn1]]|]; reflexivity.
Qed.

Lemma put_entries_nil : forall c s, shape c s -> put_entries c [] s = s.
Proof. intros c s Hsh. destruct s; try contradiction; reflexivity. Qed.

Lemma put_entries_brel : forall c es P s, brel c P s ->
  brel c (fold_left (bstep (bk c) (bv c)) (puts es) P) (put_entries c es s).
Proof.
  intros c es. induction es as [|[k v] es IH]; intros P s HR.
  - rewrite (put_entries_nil c s (proj1 HR)). exact HR.
  - rewrite (put_entries_cons c k v es s (proj1 HR)). cbn [puts map fold_left bstep fst snd].
    apply IH. apply step_put. exact HR.
Qed.

Definition mutator (o : op) : bool :=
  match o with Put _ _ | Remove _ | Clear | FromJSON _ => true | _ => false end.

(* observers and operations the bidirectional maps do not offer leave the state alone *)
Lemma step_other : forall c s o, shape c s -> mutator o = false -> nxt c s o = s.
Proof.
  intros c s o Hsh Hmu. unfold nxt.
  destruct s; try contradiction; cbn [shape] in Hsh; [|destruct Hsh as [Hsh _]];
    destruct o; try discriminate Hmu; unfold step; rewrite ?Hsh;
    try reflexivity; cbn [has_enumerable negb]; try reflexivity;
    destruct (each_of _ _); reflexivity.
Qed.

Lemma bidi_is_kv : forall c, bidi c -> is_kv (ckind c) = true.
Proof. intros c [K|K]; rewrite K; reflexivity. Qed.

Lemma bidi_json_entries : forall c kvs, bidi c -> json_entries c kvs = sort_entries kvs.
Proof. intros c kvs [K|K]; unfold json_entries; rewrite K; reflexivity. Qed.

Lemma step_from_json : forall c s d, bidi c -> shape c s ->
  nxt c s (FromJSON d) =
  match d with
  | DObj kvs => put_entries c (sort_entries kvs) (init c)
  | DNull => init c
  | _ => s
  end.
Proof.
  intros c s d Hb Hsh. pose proof (bidi_is_kv c Hb) as Hkv.
  assert (E : from_json c d s =
              match d with
              | DObj kvs => (put_entries c (sort_entries kvs) (init c), true)
              | DNull => (init c, true)
              | _ => (s, false)
              end).
  { unfold from_json. rewrite Hkv.
    destruct Hb as [K|K]; rewrite K; destruct s; try contradiction; destruct d; reflexivity. }
  assert (S : step c s (FromJSON d) = let '(s', ok) := from_json c d s in (s', obool ok, onone)).
  { destruct s; try contradiction; reflexivity. }
  unfold nxt. rewrite S, E. destruct d; reflexivity.
Qed.

Lemma step_clear : forall c s, shape c s -> nxt c s Clear = init c.
Proof. intros c s Hsh. destruct s; try contradiction; reflexivity. Qed.

Lemma step_brel : forall c P s o, bidi c -> brel c P s ->
  brel c (fold_left (bstep (bk c) (bv c)) (hist1 c o) P) (nxt c s o).
Proof.
  intros c P s o Hb HR. pose proof (proj1 HR) as Hsh.
  destruct (mutator o) eqn:Hmu.
  2:{ rewrite (step_other c s o Hsh Hmu). destruct o; try discriminate Hmu; exact HR. }
  destruct o; try discriminate Hmu; cbn [hist1 fold_left bstep].
  - apply step_put. exact HR.
  - apply step_remove. exact HR.
  - rewrite (step_clear c s Hsh). apply brel_init. exact Hb.
  - rewrite (step_from_json c s d Hb Hsh).
    destruct d as [| |vs|kvs]; cbn [hist1 fold_left bstep].
    + exact HR.
    + apply brel_init. exact Hb.
    + exact HR.
    + rewrite (bidi_json_entries c kvs Hb). apply put_entries_brel. apply brel_init. exact Hb.
Qed.

Lemma run_from_brel : forall c ops P s, bidi c -> brel c P s ->
  brel c (fold_left (bstep (bk c) (bv c)) (hist c ops) P) (run_from c s ops).
Proof.
  intros c ops. induction ops as [|o ops IH]; intros P s Hb HR; [exact HR|].
  unfold run_from, hist. cbn [fold_left flat_map]. rewrite fold_left_app.
  apply (IH _ _ Hb). apply step_brel; assumption.
Qed.

(* THE simulation: after any operation list the state is related to the pair-list specification *)
Theorem bidi_run : forall c ops, bidi c -> brel c (spec c ops) (run c ops).
Proof. intros c ops Hb. unfold spec, brun, run. apply run_from_brel; [exact Hb|apply brel_init; exact Hb]. Qed.

Lemma spec_snoc : forall c ops o,
  spec c (ops ++ [o]) = fold_left (bstep (bk c) (bv c)) (hist1 c o) (spec c ops).
Proof.
  intros c ops o. unfold spec, brun, hist. rewrite flat_map_app, fold_left_app.
  cbn [flat_map]. rewrite app_nil_r. reflexivity.
Qed.

(* ================================================================================================ *)
(* 3. what the observers return                                                                     *)
(* ================================================================================================ *)
Lemma oopt_inj : forall a b, oopt a = oopt b -> a = b.
Proof. intros [a|] [b|] H; unfold oopt in H; congruence. Qed.

Lemma shape_entries : forall c s, shape c s -> entries_of c s = fwd s.
Proof. intros c s Hsh. destruct s; try contradiction; reflexivity. Qed.

Lemma get_fwd : forall c s k, shape c s -> get_of c s k = oopt (lget (bk c) k (fwd s)).
Proof.
  intros c s k Hsh. destruct s; try contradiction; cbn [shape] in Hsh.
  - cbn [get_of fwd]. rewrite hget_find, (bk_hash c Hsh). reflexivity.
  - destruct Hsh as (K & Hf & Hi). cbn [get_of fwd].
    rewrite (rbs_get_spec (kc c) (cmp_of_SWO _) k f 0 (proj1 (proj2 Hf))), (bk_tree c K). reflexivity.
Qed.

Lemma getkey_bwd : forall c s v, shape c s -> getkey_of c s v = oopt (lget (bv c) v (bwd s)).
Proof.
  intros c s v Hsh. destruct s; try contradiction; cbn [shape] in Hsh.
  - cbn [getkey_of bwd]. rewrite hget_find, (bv_hash c Hsh). reflexivity.
  - destruct Hsh as (K & Hf & Hi). cbn [getkey_of bwd].
    rewrite (rbs_get_spec (vc c) (cmp_of_SWO _) v i 0 (proj1 (proj2 Hi))), (bv_tree c K). reflexivity.
Qed.

Lemma get_brel : forall c P s k, brel c P s -> get_of c s k = oopt (sget (bk c) P k).
Proof.
  intros c P s k [Hsh HR]. rewrite (get_fwd c s k Hsh). f_equal.
  exact (R_get (bk c) (bv c) (bk_SWO c) P _ _ k HR).
Qed.

Lemma getkey_brel : forall c P s v, brel c P s -> getkey_of c s v = oopt (sgetkey (bv c) P v).
Proof.
  intros c P s v [Hsh HR]. rewrite (getkey_bwd c s v Hsh). f_equal.
  exact (R_getkey (bk c) (bv c) (bv_SWO c) P _ _ v HR).
Qed.

Lemma brel_oto : forall c P s, brel c P s -> one_to_one (bk c) (bv c) P.
Proof. intros c P s [_ HR]. exact (R_one_to_one (bk c) (bv c) (bk_SWO c) (bv_SWO c) P _ _ HR). Qed.

Lemma brel_entries : forall c P s e, brel c P s -> (In e (entries_of c s) <-> In e P).
Proof.
  intros c P s [a b] [Hsh HR]. rewrite (shape_entries c s Hsh).
  destruct HR as (_ & _ & _ & HF & _). symmetry. apply HF.
Qed.

Lemma brel_sizes : forall c P s, brel c P s ->
  size_of c s = zlen P /\ keys_of c s = map fst (fwd s) /\ values_of c s = map fst (bwd s) /\
  length (fwd s) = length P /\ length (bwd s) = length P.
Proof.
  intros c P s [Hsh HR].
  destruct (R_length (bk c) (bv c) (bk_SWO c) (bv_SWO c) P _ _ HR) as [LF LI].
  destruct s; try contradiction; cbn [shape] in Hsh.
  - cbn [size_of keys_of entries_of values_of fwd bwd] in *. unfold zlen. split; [f_equal; exact LF|]. split; [reflexivity|]. split; [reflexivity|]. split; [exact LF|exact LI].
  - destruct Hsh as (K & (_ & _ & Hfn) & _). cbn [fst snd] in Hfn.
    cbn [size_of keys_of entries_of values_of fwd bwd] in *. unfold zlen, RB.keys.
    rewrite Hfn. split; [f_equal; exact LF|]. split; [reflexivity|]. split; [reflexivity|]. split; [exact LF|exact LI].
Qed.

Lemma get_Some_iff : forall c P s k v, brel c P s ->
  (get_of c s k = oopt (Some v) <-> exists k0, In (k0, v) P /\ bk c k k0 = Eq).
Proof.
  intros c P s k v HR. rewrite (get_brel c P s k HR). unfold sget.
  rewrite <- (lget_Some (bk c) (bk_SWO c) k P v (one_to_one_uniq _ _ _ (brel_oto c P s HR))).
  split; [apply oopt_inj|intros ->; reflexivity].
Qed.

Lemma get_None_iff : forall c P s k, brel c P s ->
  (get_of c s k = oopt None <-> forall a b, In (a, b) P -> bk c k a <> Eq).
Proof.
  intros c P s k HR. rewrite (get_brel c P s k HR). unfold sget. rewrite <- lget_None.
  split; [apply oopt_inj|intros ->; reflexivity].
Qed.

Lemma getkey_Some_iff : forall c P s v k, brel c P s ->
  (getkey_of c s v = oopt (Some k) <-> exists v0, In (k, v0) P /\ bv c v v0 = Eq).
Proof.
  intros c P s v k HR. rewrite (getkey_brel c P s v HR). unfold sgetkey.
  pose proof (one_to_one_uniq _ _ _ (one_to_one_flip _ _ _ (brel_oto c P s HR))) as U.
  split.
  - intros H. apply oopt_inj in H. apply (lget_Some (bv c) (bv_SWO c) v _ k U) in H.
    destruct H as (v0 & Hin & E). exists v0. split; [apply In_flip; exact Hin|exact E].
  - intros (v0 & Hin & E). f_equal. apply (lget_Some (bv c) (bv_SWO c) v _ k U).
    exists v0. split; [apply In_flip; exact Hin|exact E].
Qed.

Lemma getkey_None_iff : forall c P s v, brel c P s ->
  (getkey_of c s v = oopt None <-> forall a b, In (a, b) P -> bv c v b <> Eq).
Proof.
  intros c P s v HR. rewrite (getkey_brel c P s v HR). unfold sgetkey. split.
  - intros H. apply oopt_inj in H. rewrite lget_None in H. intros a b Hab. apply (H b a).
    apply In_flip. exact Hab.
  - intros H. f_equal. apply lget_None. intros b a Hba. apply (H a b). apply In_flip. exact Hba.
Qed.

(* ================================================================================================ *)
(* 4. property C10                                                                                  *)
(* ================================================================================================ *)

(* ---------- 4.1 the invariant of every reachable state ---------- *)
Definition bidi_inv (c : config) (s : state) : Prop :=
  match s with
  | StHBidi f i =>
    ckind c = HashBidiMap /\ ksorted Z.compare f /\ ksorted Z.compare i /\
    (forall k v, In (k, v) f <-> In (v, k) i)
  | StTBidi f fn i inn =>
    ckind c = TreeBidiMap /\
    RBInv.rbt f /\ RBInv.rbt i /\ RBMap.bst (kc c) f /\ RBMap.bst (vc c) i /\
    fn = Z.of_nat (RB.count f) /\ inn = Z.of_nat (RB.count i) /\
    (forall k v, In (k, v) (RB.inorder f) <-> In (v, k) (RB.inorder i))
  | _ => False
  end.

Lemma brel_inv : forall c P s, brel c P s -> bidi_inv c s.
Proof.
  intros c P s [Hsh HR]. destruct s; try contradiction; cbn [shape] in Hsh.
  - rewrite (bk_hash c Hsh), (bv_hash c Hsh) in HR. cbn [fwd bwd] in HR.
    destruct HR as (HsF & HsI & _ & HF & HI). cbn [bidi_inv].
    split; [exact Hsh|]. split; [exact HsF|]. split; [exact HsI|].
    intros k v. rewrite <- HF. apply HI.
  - destruct Hsh as (K & (Hrf & Hbf & Hfn) & (Hri & Hbi & Hin)). cbn [fst snd] in *.
    rewrite (bk_tree c K), (bv_tree c K) in HR. cbn [fwd bwd] in HR.
    destruct HR as (_ & _ & _ & HF & HI). cbn [bidi_inv].
    rewrite !RBMap.count_inorder.
    repeat (split; [assumption|]). intros k v. rewrite <- HF. apply HI.
Qed.

Theorem C10_invariant_proof : forall c ops, bidi c ->
  run c ops <> StCrash /\ bidi_inv c (run c ops).
Proof.
  intros c ops Hb. pose proof (bidi_run c ops Hb) as HR. split.
  - apply (shape_not_crash c). apply HR.
  - eapply brel_inv. exact HR.
Qed.

(* ---------- 4.2 Get / GetKey ---------- *)
(* a lookup answers with the stored pair of the probe's class *)
Theorem C10_pairs_get_proof : forall c ops k v, bidi c ->
  let s := run c ops in
  get_of c s k = oopt (Some v) <-> exists k0, In (k0, v) (entries_of c s) /\ bk c k k0 = Eq.
Proof.
  intros c ops k v Hb s. pose proof (bidi_run c ops Hb) as HR. fold s in HR.
  rewrite (get_Some_iff c _ s k v HR). split; intros (k0 & Hin & E); exists k0; split; try exact E;
    apply (brel_entries c _ s (k0, v) HR); exact Hin.
Qed.

Theorem C10_pairs_getkey_proof : forall c ops v k, bidi c ->
  let s := run c ops in
  getkey_of c s v = oopt (Some k) <-> exists v0, In (k, v0) (entries_of c s) /\ bv c v v0 = Eq.
Proof.
  intros c ops v k Hb s. pose proof (bidi_run c ops Hb) as HR. fold s in HR.
  rewrite (getkey_Some_iff c _ s v k HR). split; intros (v0 & Hin & E); exists v0; split; try exact E;
    apply (brel_entries c _ s (k, v0) HR); exact Hin.
Qed.

Theorem C10_pairs_get_none_proof : forall c ops k, bidi c ->
  let s := run c ops in
  get_of c s k = oopt None <-> forall a b, In (a, b) (entries_of c s) -> bk c k a <> Eq.
Proof.
  intros c ops k Hb s. pose proof (bidi_run c ops Hb) as HR. fold s in HR.
  rewrite (get_None_iff c _ s k HR). split; intros H a b Hab; apply (H a b);
    apply (brel_entries c _ s (a, b) HR); exact Hab.
Qed.

Theorem C10_pairs_getkey_none_proof : forall c ops v, bidi c ->
  let s := run c ops in
  getkey_of c s v = oopt None <-> forall a b, In (a, b) (entries_of c s) -> bv c v b <> Eq.
Proof.
  intros c ops v Hb s. pose proof (bidi_run c ops Hb) as HR. fold s in HR.
  rewrite (getkey_None_iff c _ s v HR). split; intros H a b Hab; apply (H a b);
    apply (brel_entries c _ s (a, b) HR); exact Hab.
Qed.

(* Get(k) answers a value of v's class exactly when GetKey(v) answers a key of k's class *)
Theorem C10_get_getkey_proof : forall c ops k v, bidi c ->
  let s := run c ops in
  (exists v', bv c v v' = Eq /\ get_of c s k = oopt (Some v')) <->
  (exists k', bk c k k' = Eq /\ getkey_of c s v = oopt (Some k')).
Proof.
  intros c ops k v Hb s. pose proof (bidi_run c ops Hb) as HR. fold s in HR. split.
  - intros (v' & Ev & G). apply (get_Some_iff c _ s k v' HR) in G. destruct G as (k0 & Hin & Ek).
    exists k0. split; [exact Ek|]. apply (getkey_Some_iff c _ s v k0 HR). exists v'. tauto.
  - intros (k' & Ek & G). apply (getkey_Some_iff c _ s v k' HR) in G. destruct G as (v0 & Hin & Ev).
    exists v0. split; [exact Ev|]. apply (get_Some_iff c _ s k v0 HR). exists k'. tauto.
Qed.

(* the sharp round trips: the answers are the stored representatives, and they point at each other *)
Theorem C10_get_then_getkey_proof : forall c ops k v, bidi c ->
  let s := run c ops in
  get_of c s k = oopt (Some v) ->
  exists k0, bk c k k0 = Eq /\ getkey_of c s v = oopt (Some k0) /\ get_of c s k0 = oopt (Some v).
Proof.
  intros c ops k v Hb s G. pose proof (bidi_run c ops Hb) as HR. fold s in HR.
  apply (get_Some_iff c _ s k v HR) in G. destruct G as (k0 & Hin & Ek).
  exists k0. split; [exact Ek|]. split.
  - apply (getkey_Some_iff c _ s v k0 HR). exists v. split; [exact Hin|apply (c_refl _ (bv_SWO c))].
  - apply (get_Some_iff c _ s k0 v HR). exists k0. split; [exact Hin|apply (c_refl _ (bk_SWO c))].
Qed.

Theorem C10_getkey_then_get_proof : forall c ops v k, bidi c ->
  let s := run c ops in
  getkey_of c s v = oopt (Some k) ->
  exists v0, bv c v v0 = Eq /\ get_of c s k = oopt (Some v0) /\ getkey_of c s v0 = oopt (Some k).
Proof.
  intros c ops v k Hb s G. pose proof (bidi_run c ops Hb) as HR. fold s in HR.
  apply (getkey_Some_iff c _ s v k HR) in G. destruct G as (v0 & Hin & Ev).
  exists v0. split; [exact Ev|]. split.
  - apply (get_Some_iff c _ s k v0 HR). exists k. split; [exact Hin|apply (c_refl _ (bk_SWO c))].
  - apply (getkey_Some_iff c _ s v0 k HR). exists v0. split; [exact Hin|apply (c_refl _ (bv_SWO c))].
Qed.

(* HashBidiMap (keys and values compared with ==): exactly *)
Theorem C10_get_getkey_hash_proof : forall c ops k v, ckind c = HashBidiMap ->
  let s := run c ops in
  get_of c s k = oopt (Some v) <-> getkey_of c s v = oopt (Some k).
Proof.
  intros c ops k v K s. pose proof (bidi_run c ops (or_introl K)) as HR. fold s in HR.
  rewrite (get_Some_iff c _ s k v HR), (getkey_Some_iff c _ s v k HR). split.
  - intros (k0 & Hin & E). apply (bk_hash_eq c _ _ K) in E. subst k0.
    exists v. split; [exact Hin|apply (c_refl _ (bv_SWO c))].
  - intros (v0 & Hin & E). apply (bv_hash_eq c _ _ K) in E. subst v0.
    exists k. split; [exact Hin|apply (c_refl _ (bk_SWO c))].
Qed.

(* equivalent probes get the same answer *)
Theorem C10_probe_congruence_proof : forall c ops, bidi c ->
  let s := run c ops in
  (forall k k', bk c k k' = Eq -> get_of c s k = get_of c s k') /\
  (forall v v', bv c v v' = Eq -> getkey_of c s v = getkey_of c s v').
Proof.
  intros c ops Hb s. pose proof (bidi_run c ops Hb) as HR. fold s in HR. split.
  - intros k k' E. rewrite !(get_brel c _ s _ HR). unfold sget.
    rewrite (lget_eq_probe (bk c) (bk_SWO c) k k' _ E). reflexivity.
  - intros v v' E. rewrite !(getkey_brel c _ s _ HR). unfold sgetkey.
    rewrite (lget_eq_probe (bv c) (bv_SWO c) v v' _ E). reflexivity.
Qed.

(* ---------- 4.3 one-to-one ---------- *)
Theorem C10_injective_proof : forall c ops k1 k2 v1 v2, bidi c ->
  let s := run c ops in
  get_of c s k1 = oopt (Some v1) -> get_of c s k2 = oopt (Some v2) ->
  bv c v1 v2 = Eq -> bk c k1 k2 = Eq /\ v1 = v2.
Proof.
  intros c ops k1 k2 v1 v2 Hb s G1 G2 E. pose proof (bidi_run c ops Hb) as HR. fold s in HR.
  apply (get_Some_iff c _ s _ _ HR) in G1. destruct G1 as (a1 & Hin1 & E1).
  apply (get_Some_iff c _ s _ _ HR) in G2. destruct G2 as (a2 & Hin2 & E2).
  destruct (brel_oto c _ s HR) as (_ & _ & Hvu).
  destruct (Hvu a1 v1 a2 v2 Hin1 Hin2 E) as [-> ->]. split; [|reflexivity].
  eapply (c_eq_trans _ (bk_SWO c)); [exact E1|]. apply (c_eq_sym _ (bk_SWO c)). exact E2.
Qed.

Theorem C10_injective_inv_proof : forall c ops v1 v2 k1 k2, bidi c ->
  let s := run c ops in
  getkey_of c s v1 = oopt (Some k1) -> getkey_of c s v2 = oopt (Some k2) ->
  bk c k1 k2 = Eq -> bv c v1 v2 = Eq /\ k1 = k2.
Proof.
  intros c ops v1 v2 k1 k2 Hb s G1 G2 E. pose proof (bidi_run c ops Hb) as HR. fold s in HR.
  apply (getkey_Some_iff c _ s _ _ HR) in G1. destruct G1 as (b1 & Hin1 & E1).
  apply (getkey_Some_iff c _ s _ _ HR) in G2. destruct G2 as (b2 & Hin2 & E2).
  destruct (brel_oto c _ s HR) as (_ & Hku & _).
  destruct (Hku k1 b1 k2 b2 Hin1 Hin2 E) as [-> ->]. split; [|reflexivity].
  eapply (c_eq_trans _ (bv_SWO c)); [exact E1|]. apply (c_eq_sym _ (bv_SWO c)). exact E2.
Qed.

(* the stored pairs themselves: one pair per key class and one pair per value class *)
Theorem C10_pairs_one_to_one_proof : forall c ops, bidi c ->
  one_to_one (bk c) (bv c) (entries_of c (run c ops)).
Proof.
  intros c ops Hb. pose proof (bidi_run c ops Hb) as HR.
  destruct HR as [Hsh HR]. rewrite (shape_entries c _ Hsh).
  pose proof (R_one_to_one (bk c) (bv c) (bk_SWO c) (bv_SWO c) _ _ _ HR) as (_ & Hku & Hvu).
  pose proof HR as (HsF & _ & _ & HF & _).
  split; [apply (ksorted_NoDup (bk c) (bk_SWO c)); exact HsF|]. split.
  - intros a b a' b' H1 H2. apply Hku; apply HF; assumption.
  - intros a b a' b' H1 H2. apply Hvu; apply HF; assumption.
Qed.

(* ---------- 4.4 Put and Remove ---------- *)
Lemma spec_put : forall c ops k v,
  spec c (ops ++ [Put k v]) = sput (bk c) (bv c) k v (spec c ops).
Proof. intros c ops k v. rewrite spec_snoc. reflexivity. Qed.

Lemma spec_remove : forall c ops k,
  spec c (ops ++ [Remove k]) = sremove (bk c) k (spec c ops).
Proof. intros c ops k. rewrite spec_snoc. reflexivity. Qed.

(* the new pair set, exactly *)
Theorem C10_put_pairs_proof : forall c ops k v a b, bidi c ->
  In (a, b) (entries_of c (run c (ops ++ [Put k v]))) <->
  (a, b) = (k, v) \/
  (In (a, b) (entries_of c (run c ops)) /\ bk c a k <> Eq /\ bv c b v <> Eq).
Proof.
  intros c ops k v a b Hb.
  rewrite (brel_entries c _ _ (a, b) (bidi_run c (ops ++ [Put k v]) Hb)).
  rewrite (brel_entries c _ _ (a, b) (bidi_run c ops Hb)).
  rewrite spec_put, In_sput. reflexivity.
Qed.

Theorem C10_put_get_proof : forall c ops k v, bidi c ->
  let s := run c ops in
  let s' := run c (ops ++ [Put k v]) in
  (forall k', bk c k' k = Eq -> get_of c s' k' = oopt (Some v)) /\
  (forall k' v', bk c k' k <> Eq -> get_of c s k' = oopt (Some v') -> bv c v' v = Eq ->
                 get_of c s' k' = oopt None) /\
  (forall k' v', bk c k' k <> Eq -> get_of c s k' = oopt (Some v') -> bv c v' v <> Eq ->
                 get_of c s' k' = oopt (Some v')) /\
  (forall k', bk c k' k <> Eq -> get_of c s k' = oopt None -> get_of c s' k' = oopt None).
Proof.
  intros c ops k v Hb s s'.
  pose proof (bidi_run c ops Hb) as HR. fold s in HR.
  pose proof (bidi_run c (ops ++ [Put k v]) Hb) as HR'. fold s' in HR'. rewrite spec_put in HR'.
  destruct (put_lookup (bk c) (bv c) (bk_SWO c) (spec c ops) _ k v (brel_oto c _ s HR) (brel_oto c _ s' HR'))
    as (A & B & C & D).
  { intros a b. rewrite In_sput. reflexivity. }
  split; [|split; [|split]].
  - intros k' E. rewrite (get_brel c _ s' k' HR'). f_equal. exact (A k' E).
  - intros k' v' Hne G Ev. rewrite (get_brel c _ s k' HR) in G. apply oopt_inj in G.
    rewrite (get_brel c _ s' k' HR'). f_equal. exact (B k' v' Hne G Ev).
  - intros k' v' Hne G Ev. rewrite (get_brel c _ s k' HR) in G. apply oopt_inj in G.
    rewrite (get_brel c _ s' k' HR'). f_equal. exact (C k' v' Hne G Ev).
  - intros k' Hne G. rewrite (get_brel c _ s k' HR) in G. apply oopt_inj in G.
    rewrite (get_brel c _ s' k' HR'). f_equal. exact (D k' Hne G).
Qed.

Theorem C10_put_getkey_proof : forall c ops k v, bidi c ->
  let s := run c ops in
  let s' := run c (ops ++ [Put k v]) in
  (forall v', bv c v' v = Eq -> getkey_of c s' v' = oopt (Some k)) /\
  (forall v' k', bv c v' v <> Eq -> getkey_of c s v' = oopt (Some k') -> bk c k' k = Eq ->
                 getkey_of c s' v' = oopt None) /\
  (forall v' k', bv c v' v <> Eq -> getkey_of c s v' = oopt (Some k') -> bk c k' k <> Eq ->
                 getkey_of c s' v' = oopt (Some k')) /\
  (forall v', bv c v' v <> Eq -> getkey_of c s v' = oopt None -> getkey_of c s' v' = oopt None).
Proof.
  intros c ops k v Hb s s'.
  pose proof (bidi_run c ops Hb) as HR. fold s in HR.
  pose proof (bidi_run c (ops ++ [Put k v]) Hb) as HR'. fold s' in HR'. rewrite spec_put in HR'.
  destruct (put_lookup (bv c) (bk c) (bv_SWO c) (map flip (spec c ops)) _ v k
              (one_to_one_flip _ _ _ (brel_oto c _ s HR)) (one_to_one_flip _ _ _ (brel_oto c _ s' HR')))
    as (A & B & C & D).
  { intros b a. rewrite !In_flip, In_sput. cbn [fst snd]. split.
    - intros [H|H]; [left; congruence|right; tauto].
    - intros [H|H]; [left; congruence|right; tauto]. }
  split; [|split; [|split]].
  - intros v' E. rewrite (getkey_brel c _ s' v' HR'). f_equal. exact (A v' E).
  - intros v' k' Hne G Ek. rewrite (getkey_brel c _ s v' HR) in G. apply oopt_inj in G.
    rewrite (getkey_brel c _ s' v' HR'). f_equal. exact (B v' k' Hne G Ek).
  - intros v' k' Hne G Ek. rewrite (getkey_brel c _ s v' HR) in G. apply oopt_inj in G.
    rewrite (getkey_brel c _ s' v' HR'). f_equal. exact (C v' k' Hne G Ek).
  - intros v' Hne G. rewrite (getkey_brel c _ s v' HR) in G. apply oopt_inj in G.
    rewrite (getkey_brel c _ s' v' HR'). f_equal. exact (D v' Hne G).
Qed.

Theorem C10_remove_pairs_proof : forall c ops k a b, bidi c ->
  In (a, b) (entries_of c (run c (ops ++ [Remove k]))) <->
  In (a, b) (entries_of c (run c ops)) /\ bk c a k <> Eq.
Proof.
  intros c ops k a b Hb.
  rewrite (brel_entries c _ _ (a, b) (bidi_run c (ops ++ [Remove k]) Hb)).
  rewrite (brel_entries c _ _ (a, b) (bidi_run c ops Hb)).
  rewrite spec_remove, In_sremove. reflexivity.
Qed.

Theorem C10_remove_get_proof : forall c ops k, bidi c ->
  let s := run c ops in
  let s' := run c (ops ++ [Remove k]) in
  (forall k', bk c k' k = Eq -> get_of c s' k' = oopt None) /\
  (forall k', bk c k' k <> Eq -> get_of c s' k' = get_of c s k').
Proof.
  intros c ops k Hb s s'.
  pose proof (bidi_run c ops Hb) as HR. fold s in HR.
  pose proof (bidi_run c (ops ++ [Remove k]) Hb) as HR'. fold s' in HR'. rewrite spec_remove in HR'.
  destruct (remove_lookup (bk c) (bv c) (bk_SWO c) (spec c ops) _ k (brel_oto c _ s HR) (brel_oto c _ s' HR'))
    as (A & B).
  { intros a b. rewrite In_sremove. reflexivity. }
  split.
  - intros k' E. rewrite (get_brel c _ s' k' HR'). f_equal. exact (A k' E).
  - intros k' Hne. rewrite (get_brel c _ s' k' HR'), (get_brel c _ s k' HR). f_equal. exact (B k' Hne).
Qed.

Theorem C10_remove_getkey_proof : forall c ops k, bidi c ->
  let s := run c ops in
  let s' := run c (ops ++ [Remove k]) in
  (forall v0 v', get_of c s k = oopt (Some v0) -> bv c v' v0 = Eq -> getkey_of c s' v' = oopt None) /\
  (forall v', (forall v0, get_of c s k = oopt (Some v0) -> bv c v' v0 <> Eq) ->
              getkey_of c s' v' = getkey_of c s v').
Proof.
  intros c ops k Hb s s'.
  pose proof (bidi_run c ops Hb) as HR. fold s in HR.
  pose proof (bidi_run c (ops ++ [Remove k]) Hb) as HR'. fold s' in HR'. rewrite spec_remove in HR'.
  destruct (remove_lookup_inv (bk c) (bv c) (bk_SWO c) (bv_SWO c) (spec c ops) _ k
              (brel_oto c _ s HR) (brel_oto c _ s' HR')) as (A & B).
  { intros a b. rewrite In_sremove. reflexivity. }
  split.
  - intros v0 v' G E. rewrite (get_brel c _ s k HR) in G. apply oopt_inj in G.
    rewrite (getkey_brel c _ s' v' HR'). f_equal. exact (A v0 v' G E).
  - intros v' Hno. rewrite (getkey_brel c _ s' v' HR'), (getkey_brel c _ s v' HR). f_equal.
    apply B. intros v0 G. apply Hno. rewrite (get_brel c _ s k HR). f_equal. exact G.
Qed.

(* removing an absent key: the very same state (no rebalancing, no recolouring, sizes untouched) *)
Theorem C10_remove_absent_proof : forall c ops k, bidi c ->
  get_of c (run c ops) k = oopt None -> run c (ops ++ [Remove k]) = run c ops.
Proof.
  intros c ops k Hb G. pose proof (bidi_run c ops Hb) as HR.
  rewrite run_snoc. apply (step_remove_absent c _ _ k HR).
  rewrite (get_fwd c _ k (proj1 HR)) in G. apply oopt_inj in G. exact G.
Qed.

(* ---------- 4.5 sizes and enumerations ---------- *)
Theorem C10_size_proof : forall c ops, bidi c ->
  let s := run c ops in
  size_of c s = zlen (entries_of c s) /\
  zlen (keys_of c s) = size_of c s /\
  zlen (values_of c s) = size_of c s /\
  StronglySorted (fun a b => bk c a b = Lt) (keys_of c s) /\
  StronglySorted (fun a b => bv c a b = Lt) (values_of c s) /\
  (forall k, In k (keys_of c s) <-> exists v, In (k, v) (entries_of c s)) /\
  (forall v, In v (values_of c s) <-> exists k, In (k, v) (entries_of c s)).
Proof.
  intros c ops Hb s. pose proof (bidi_run c ops Hb) as HR. fold s in HR.
  destruct (brel_sizes c _ s HR) as (Hsz & Hks & Hvs & LF & LI).
  pose proof HR as [Hsh (HsF & HsI & _ & HF & HI)].
  rewrite (shape_entries c s Hsh), Hks, Hvs, Hsz. unfold zlen. rewrite !map_length.
  split; [f_equal; symmetry; exact LF|]. split; [f_equal; exact LF|]. split; [f_equal; exact LI|].
  split; [apply ksorted_keys_sorted; exact HsF|].
  split; [apply ksorted_keys_sorted; exact HsI|].
  split.
  - intros k. rewrite in_map_iff. split.
    + intros ([a b] & <- & Hin). exists b. exact Hin.
    + intros (v & Hin). exists (k, v). split; [reflexivity|exact Hin].
  - intros v. rewrite in_map_iff. split.
    + intros ([b a] & <- & Hin). exists a. cbn [fst]. apply HF. apply HI. exact Hin.
    + intros (k & Hin). exists (v, k). split; [reflexivity|]. apply HI. apply HF. exact Hin.
Qed.

(* ---------- 4.6 the history-based reading ---------- *)
Theorem C10_history_proof : forall c ops, bidi c ->
  let s := run c ops in
  let P := spec c ops in
  (forall k, get_of c s k = oopt (sget (bk c) P k)) /\
  (forall v, getkey_of c s v = oopt (sgetkey (bv c) P v)) /\
  size_of c s = zlen P /\
  (forall e, In e (entries_of c s) <-> In e P) /\
  one_to_one (bk c) (bv c) P.
Proof.
  intros c ops Hb s P. pose proof (bidi_run c ops Hb) as HR. fold s P in HR.
  split; [intros k; apply get_brel; exact HR|].
  split; [intros v; apply getkey_brel; exact HR|].
  split; [apply (brel_sizes c P s HR)|].
  split; [intros e; apply brel_entries; exact HR|].
  eapply brel_oto. exact HR.
Qed.

(* a pair is stored iff it is live in the history: no state on the right-hand side at all *)
Theorem C10_live_proof : forall c ops e, bidi c ->
  In e (entries_of c (run c ops)) <-> live (bk c) (bv c) (rev (hist c ops)) e.
Proof.
  intros c ops e Hb. rewrite (brel_entries c _ _ e (bidi_run c ops Hb)). apply brun_live.
Qed.

(* how to read [bk] / [bv] *)
Lemma bidi_eq_hash : forall c a b, ckind c = HashBidiMap ->
  (bk c a b = Eq <-> a = b) /\ (bv c a b = Eq <-> a = b).
Proof. intros c a b K. split; [apply bk_hash_eq|apply bv_hash_eq]; exact K. Qed.

Lemma bidi_eq_tree : forall c, ckind c = TreeBidiMap -> bk c = kc c /\ bv c = vc c.
Proof. intros c K. split; [apply bk_tree|apply bv_tree]; exact K. Qed.
