(* AVL tree (Model/AVLTree.v): the balance invariant is preserved by put / remove, and the
   operations never return None (= the Go code never dereferences nil).

   No hypothesis on the comparator: balance does not depend on ordering. *)
From Coq Require Import ZArith List Lia Bool.
From Gods Require Import Common.Cmp Model.AVLTree.
Import ListNotations.
Local Open Scope Z_scope.

(* every stored balance factor is the real height difference and lies in {-1,0,1} *)
Fixpoint avl (t : tree) : Prop :=
  match t with
  | E => True
  | T b l _ _ r =>
    avl l /\ avl r /\ b = Z.of_nat (height r) - Z.of_nat (height l) /\ (-1 <= b <= 1)%Z
  end.

(* ---------- boolean checker ---------- *)
Fixpoint avl_okb (t : tree) : bool :=
  match t with
  | E => true
  | T b l _ _ r =>
    avl_okb l && avl_okb r && (b =? Z.of_nat (height r) - Z.of_nat (height l))
    && (-1 <=? b) && (b <=? 1)
  end.

Theorem avl_okb_spec : forall t, avl_okb t = true <-> avl t.
Proof.
  induction t as [|b l IHl k v r IHr]; cbn [avl_okb avl].
  - tauto.
  - rewrite !andb_true_iff, Z.eqb_eq, !Z.leb_le, IHl, IHr. tauto.
Qed.

(* ---------- tactics ---------- *)
(* split a balance factor known to be in [-1,1] into its three concrete values *)
Ltac bcases b :=
  let H := fresh "Hb" in
  assert (H : b = -1 \/ b = 0 \/ b = 1) by lia;
  destruct H as [ -> | [ -> | -> ] ].

(* once the operation has been computed: close the structural goal *)
Ltac avl_close :=
  cbn [avl height bal] in *; repeat split; try tauto; try lia; try discriminate.

Ltac fix_done :=
  do 2 eexists; split; [cbn; reflexivity|]; avl_close.

(* ---------- putFix ---------- *)
(* c = 1: the right subtree r has just grown by one; b is the balance factor before the growth *)
Lemma putFix_avl_R : forall b l k v r,
  avl l -> avl r -> (1 <= height r)%nat ->
  b = Z.of_nat (height r) - 1 - Z.of_nat (height l) -> -1 <= b <= 1 ->
  (bal r <> 0 \/ height r = 1%nat) ->
  exists t' f, putFix 1 (T b l k v r) = Some (t', f) /\ avl t' /\
    height t' = (if f then S (S (Nat.max (height l) (height r - 1)))
                 else S (Nat.max (height l) (height r - 1))) /\
    (f = true -> bal t' <> 0).
Proof.
  intros b l k v r Hl Hr Hh Hb Hrange Hnz.
  bcases b.
  - fix_done.
  - fix_done.
  - destruct r as [|rb rl rk rv rr]; [cbn in Hh; lia|].
    cbn [avl] in Hr. destruct Hr as (Hrl & Hrr & Hrb & Hrbr).
    bcases rb.
    + (* double rotation *)
      destruct rl as [|pb pl pk pv pr]; [cbn [height] in *; lia|].
      cbn [avl] in Hrl. destruct Hrl as (Hpl & Hpr & Hpb & Hpbr).
      bcases pb; fix_done.
    + cbn [height bal] in *. lia.
    + fix_done.
Qed.

(* c = -1: the left subtree l has just grown by one *)
Lemma putFix_avl_L : forall b l k v r,
  avl l -> avl r -> (1 <= height l)%nat ->
  b = Z.of_nat (height r) - (Z.of_nat (height l) - 1) -> -1 <= b <= 1 ->
  (bal l <> 0 \/ height l = 1%nat) ->
  exists t' f, putFix (-1) (T b l k v r) = Some (t', f) /\ avl t' /\
    height t' = (if f then S (S (Nat.max (height l - 1) (height r)))
                 else S (Nat.max (height l - 1) (height r))) /\
    (f = true -> bal t' <> 0).
Proof.
  intros b l k v r Hl Hr Hh Hb Hrange Hnz.
  bcases b.
  - destruct l as [|lb ll lk lv lr]; [cbn in Hh; lia|].
    cbn [avl] in Hl. destruct Hl as (Hll & Hlr & Hlb & Hlbr).
    bcases lb.
    + fix_done.
    + cbn [height bal] in *. lia.
    + destruct lr as [|pb pl pk pv pr]; [cbn [height] in *; lia|].
      cbn [avl] in Hlr. destruct Hlr as (Hpl & Hpr & Hpb & Hpbr).
      bcases pb; fix_done.
  - fix_done.
  - fix_done.
Qed.

(* ---------- put ---------- *)
Lemma put_avl_strong : forall cmp k v t, avl t ->
  exists t' fx ins, put cmp k v t = Some (t', fx, ins) /\ avl t' /\
    height t' = (if fx then S (height t) else height t) /\
    (fx = true -> bal t' <> 0 \/ height t' = 1%nat).
Proof.
  intros cmp key val t. induction t as [|b l IHl k v r IHr]; intros Ht.
  - cbn. do 3 eexists. split; [reflexivity|]. avl_close.
  - cbn [avl] in Ht. destruct Ht as (Hl & Hr & Hb & Hrange).
    cbn [put]. destruct (cmp key k).
    + do 3 eexists. split; [reflexivity|]. avl_close.
    + destruct (IHl Hl) as (l' & fx & ins & Hput & Hl' & Hh & Hnz). rewrite Hput.
      destruct fx.
      * destruct (putFix_avl_L b l' k v r) as (t' & f & Hfix & Ht' & Hht' & Hf);
          try assumption; try lia; try (apply Hnz; reflexivity).
        rewrite Hfix. exists t', f, ins. split; [reflexivity|]. split; [assumption|].
        rewrite Hht', Hh. cbn [height]. split; [destruct f; lia|]. intros ->. left. tauto.
      * do 3 eexists. split; [reflexivity|]. rewrite Hh in *. avl_close.
    + destruct (IHr Hr) as (r' & fx & ins & Hput & Hr' & Hh & Hnz). rewrite Hput.
      destruct fx.
      * destruct (putFix_avl_R b l k v r') as (t' & f & Hfix & Ht' & Hht' & Hf);
          try assumption; try lia; try (apply Hnz; reflexivity).
        rewrite Hfix. exists t', f, ins. split; [reflexivity|]. split; [assumption|].
        rewrite Hht', Hh. cbn [height]. split; [destruct f; lia|]. intros ->. left. tauto.
      * do 3 eexists. split; [reflexivity|]. rewrite Hh in *. avl_close.
Qed.

Theorem put_avl : forall cmp k v t, avl t ->
  exists t' fx ins, put cmp k v t = Some (t', fx, ins) /\ avl t' /\
    height t' = (if fx then S (height t) else height t).
Proof.
  intros cmp k v t Ht.
  destruct (put_avl_strong cmp k v t Ht) as (t' & fx & ins & H1 & H2 & H3 & _).
  exists t', fx, ins. auto.
Qed.
Print Assumptions put_avl.

(* ---------- removeFix ---------- *)
(* c = 1: the left subtree has just shrunk by one; b is the balance factor before the shrink *)
Lemma removeFix_avl_R : forall b l k v r,
  avl l -> avl r ->
  b = Z.of_nat (height r) - (Z.of_nat (height l) + 1) -> -1 <= b <= 1 ->
  exists t' f, removeFix 1 (T b l k v r) = Some (t', f) /\ avl t' /\
    S (Nat.max (S (height l)) (height r)) = (if f then S (height t') else height t').
Proof.
  intros b l k v r Hl Hr Hb Hrange.
  bcases b.
  - fix_done.
  - fix_done.
  - destruct r as [|rb rl rk rv rr]; [cbn [height] in *; lia|].
    cbn [avl] in Hr. destruct Hr as (Hrl & Hrr & Hrb & Hrbr).
    bcases rb.
    + destruct rl as [|pb pl pk pv pr]; [cbn [height] in *; lia|].
      cbn [avl] in Hrl. destruct Hrl as (Hpl & Hpr & Hpb & Hpbr).
      bcases pb; fix_done.
    + fix_done.
    + fix_done.
Qed.

(* c = -1: the right subtree has just shrunk by one *)
Lemma removeFix_avl_L : forall b l k v r,
  avl l -> avl r ->
  b = (Z.of_nat (height r) + 1) - Z.of_nat (height l) -> -1 <= b <= 1 ->
  exists t' f, removeFix (-1) (T b l k v r) = Some (t', f) /\ avl t' /\
    S (Nat.max (height l) (S (height r))) = (if f then S (height t') else height t').
Proof.
  intros b l k v r Hl Hr Hb Hrange.
  bcases b.
  - destruct l as [|lb ll lk lv lr]; [cbn [height] in *; lia|].
    cbn [avl] in Hl. destruct Hl as (Hll & Hlr & Hlb & Hlbr).
    bcases lb.
    + fix_done.
    + fix_done.
    + destruct lr as [|pb pl pk pv pr]; [cbn [height] in *; lia|].
      cbn [avl] in Hlr. destruct Hlr as (Hpl & Hpr & Hpb & Hpbr).
      bcases pb; fix_done.
  - fix_done.
  - fix_done.
Qed.

(* ---------- removeMin ---------- *)
Lemma removeMin_avl : forall t, avl t -> t <> E ->
  exists t' mk mv fx, removeMin t = Some (t', mk, mv, fx) /\ avl t' /\
    height t = (if fx then S (height t') else height t').
Proof.
  induction t as [|b l IHl k v r _]; intros Ht Hne; [congruence|].
  cbn [avl] in Ht. destruct Ht as (Hl & Hr & Hb & Hrange).
  destruct l as [|lb ll lk lv lr].
  - cbn [removeMin]. do 4 eexists. split; [reflexivity|]. split; [assumption|].
    cbn [height] in *. lia.
  - destruct IHl as (l' & mk & mv & fx & Hrm & Hl' & Hh); [assumption|congruence|].
    remember (T lb ll lk lv lr) as l eqn:El.
    assert (Hred : removeMin (T b l k v r) =
                   match removeMin l with
                   | None => None
                   | Some (l', mk, mv, fx) =>
                     if fx then match removeFix 1 (T b l' k v r) with
                                | None => None
                                | Some (t', f) => Some (t', mk, mv, f)
                                end
                     else Some (T b l' k v r, mk, mv, false)
                   end) by (subst l; reflexivity).
    rewrite Hred, Hrm. clear Hred.
    destruct fx.
    + destruct (removeFix_avl_R b l' k v r) as (t' & f & Hfix & Ht' & Hht');
        try assumption; try lia.
      rewrite Hfix. exists t', mk, mv, f. split; [reflexivity|]. split; [assumption|].
      cbn [height]. rewrite Hh. exact Hht'.
    + do 4 eexists. split; [reflexivity|]. rewrite Hh in *. avl_close.
Qed.

(* ---------- remove ---------- *)
Theorem remove_avl : forall cmp k t, avl t ->
  exists t' fx rem, remove cmp k t = Some (t', fx, rem) /\ avl t' /\
    height t = (if fx then S (height t') else height t').
Proof.
  intros cmp key t. induction t as [|b l IHl k v r IHr]; intros Ht.
  - cbn. do 3 eexists. split; [reflexivity|]. avl_close.
  - cbn [avl] in Ht. destruct Ht as (Hl & Hr & Hb & Hrange).
    cbn [remove]. destruct (cmp key k).
    + destruct r as [|rb rl rk rv rr].
      * do 3 eexists. split; [reflexivity|]. split; [assumption|]. cbn [height]. lia.
      * remember (T rb rl rk rv rr) as r eqn:Er.
        destruct (removeMin_avl r Hr) as (r' & mk & mv & fx & Hrm & Hr' & Hh);
          [subst r; congruence|].
        rewrite Hrm. destruct fx.
        -- destruct (removeFix_avl_L b l mk mv r') as (t' & f & Hfix & Ht' & Hht');
             try assumption; try lia.
           rewrite Hfix. exists t', f, true. split; [reflexivity|]. split; [assumption|].
           cbn [height]. rewrite Hh. exact Hht'.
        -- do 3 eexists. split; [reflexivity|]. rewrite Hh in *. avl_close.
    + destruct (IHl Hl) as (l' & fx & rem & Hrm & Hl' & Hh). rewrite Hrm.
      destruct fx.
      * destruct (removeFix_avl_R b l' k v r) as (t' & f & Hfix & Ht' & Hht');
          try assumption; try lia.
        rewrite Hfix. exists t', f, rem. split; [reflexivity|]. split; [assumption|].
        cbn [height]. rewrite Hh. exact Hht'.
      * do 3 eexists. split; [reflexivity|]. rewrite Hh in *. avl_close.
    + destruct (IHr Hr) as (r' & fx & rem & Hrm & Hr' & Hh). rewrite Hrm.
      destruct fx.
      * destruct (removeFix_avl_L b l k v r') as (t' & f & Hfix & Ht' & Hht');
          try assumption; try lia.
        rewrite Hfix. exists t', f, rem. split; [reflexivity|]. split; [assumption|].
        cbn [height]. rewrite Hh. exact Hht'.
      * do 3 eexists. split; [reflexivity|]. rewrite Hh in *. avl_close.
Qed.
Print Assumptions remove_avl.

(* ---------- sanity run of the checker on a concrete history (rule 7) ---------- *)
Example avl_okb_run :
  let step t k := match put Z.compare k k t with Some (t', _, _) => t' | None => E end in
  let del t k := match remove Z.compare k t with Some (t', _, _) => t' | None => E end in
  let t := fold_left step [5; 3; 8; 1; 4; 7; 9; 2; 6; 10; 11; 12; 13] E in
  let t2 := fold_left del [1; 2; 3; 13; 7] t in
  (avl_okb t, count t, height t, avl_okb t2, count t2) = (true, 13%nat, 5%nat, true, 8%nat).
Proof. vm_compute. reflexivity. Qed.
