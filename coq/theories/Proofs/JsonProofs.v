(* Properties C11 and C12: JSON serialization round-trips every reachable container state, and
   deserializing replaces the content, keeps the container sound and is atomic on error.

   The byte level (Go's encoding/json) is a trusted oracle outside the model: [to_json c s] is the
   CONTENT of the document ToJSON writes (an array of elements / an object as a member list) and
   [from_json c d s] consumes what a document DENOTES ([decoded]).  [decode_of] below is the
   denotation of a document the model itself printed; the round trip is
   [from_json c (decode_of (to_json c s)) (init c)].

   Contents
     1. decode_of, to_json in closed form
     2. sorted association lists are determined by their members; re-inserting the members
     3. from_json in closed form; C12_atomic, C12_replaces, C12_null_empty
     4. bidirectional maps (list level, HashBidiMap, TreeBidiMap): the one-to-one invariant
     5. the invariant of every reachable state of all 21 kinds ([jinv], [jinv_run])
     6. observers as functions of the abstract content; [equivalent]
     7. C11: round trip
     8. C11: same future (ring simulation)
     9. C12: null/[]/{}; the loaded state is reachable without FromJSON; what the loaded content is
    10. the ring in detail; refuted statements (state equality of trees / ring, PriorityQueue order)
    11. the invariant [jinv] is preserved by every step
    12. C11, same future for ALL kinds: the observational equivalence [oeq] preserved by [step]
    13. C11 round trip, strongest unconditional form *)
From Coq Require Import ZArith List Lia Bool Arith Sorted SetoidList Permutation.
From Gods Require Import Common.Cmp Common.ListAux Spec.SeqSpec Spec.MapSpec Spec.SetSpec Spec.FifoSpec Spec.BagSpec
  Model.Ops Model.Lists Model.Iter Model.Machine.
From Gods Require Model.RBTree Model.AVLTree Model.BTree Model.Heap Model.Ring.
From Gods Require Import Proofs.MapSpecProofs.
From Gods Require Proofs.RBInv Proofs.RBMap Proofs.AVLInv Proofs.AVLMap Proofs.HeapProofs Proofs.HeapValues Proofs.RingProofs
  Proofs.MachineMaps Proofs.SetsProofs Proofs.LinkedProofs Proofs.C03Proofs Proofs.C05Proofs Proofs.C06Proofs
  Proofs.IterLinear Proofs.IterTreeRB Proofs.IterTreeAVL.
Import ListNotations.
Local Open Scope Z_scope.

Module MM := MachineMaps.
Module SP := SetsProofs.
Module LP := LinkedProofs.
Module RP := RingProofs.
Module HP := HeapProofs.

(* ================================================================================================ *)
(* 1. what a printed document denotes                                                               *)
(* ================================================================================================ *)
Fixpoint unozs (l : list obs) : option (list Z) :=
  match l with
  | [] => Some []
  | OZ z :: l' => match unozs l' with Some r => Some (z :: r) | None => None end
  | _ => None
  end.
Fixpoint unopairs (l : list obs) : option (list (Z * Z)) :=
  match l with
  | [] => Some []
  | OL [OZ a; OZ b] :: l' => match unopairs l' with Some r => Some ((a, b) :: r) | None => None end
  | _ => None
  end.

(* [OL [OZ 0; ozs vs]] is the array vs, [OL [OZ 1; opairs es]] the object with members es (in document
   order); anything else is not a document the model prints *)
Definition decode_of (o : obs) : decoded :=
  match o with
  | OL [OZ 0; OL l] => match unozs l with Some vs => DArr vs | None => DErr end
  | OL [OZ 1; OL l] => match unopairs l with Some es => DObj es | None => DErr end
  | _ => DErr
  end.

Lemma unozs_map : forall l, unozs (map OZ l) = Some l.
Proof. induction l as [|x l IH]; [reflexivity|]. cbn [map unozs]. rewrite IH. reflexivity. Qed.

Lemma unopairs_map : forall l, unopairs (map (fun e => opair (fst e) (snd e)) l) = Some l.
Proof.
  induction l as [|[a b] l IH]; [reflexivity|]. cbn [map unopairs opair fst snd]. rewrite IH. reflexivity.
Qed.

Lemma decode_array : forall vs, decode_of (OL [OZ 0; ozs vs]) = DArr vs.
Proof. intros vs. unfold decode_of, ozs. rewrite unozs_map. reflexivity. Qed.

Lemma decode_object : forall es, decode_of (OL [OZ 1; opairs es]) = DObj es.
Proof. intros es. unfold decode_of, opairs. rewrite unopairs_map. reflexivity. Qed.

(* the elements / members ToJSON writes *)
Definition json_values (c : config) (s : state) : list Z :=
  match s with StSeq l => l | StHeap l => l | _ => values_of c s end.
Definition json_members (c : config) (s : state) : list (Z * Z) :=
  match s with StLMap tbl ord => lmap_entries tbl ord | _ => sort_entries (entries_of c s) end.

Lemma to_json_eq : forall c s,
  to_json c s = if is_kv (ckind c) then OL [OZ 1; opairs (json_members c s)]
                else OL [OZ 0; ozs (json_values c s)].
Proof. intros c s. unfold to_json, json_members, json_values. destruct (is_kv (ckind c)); destruct s; reflexivity. Qed.

Lemma decode_to_json : forall c s,
  decode_of (to_json c s) = if is_kv (ckind c) then DObj (json_members c s) else DArr (json_values c s).
Proof.
  intros c s. rewrite to_json_eq. destruct (is_kv (ckind c)); [apply decode_object|apply decode_array].
Qed.

(* "an array for value containers, an object for key-value containers" *)
Lemma to_json_shape : forall c s,
  ((exists vs, to_json c s = OL [OZ 0; ozs vs]) <-> is_kv (ckind c) = false) /\
  ((exists es, to_json c s = OL [OZ 1; opairs es]) <-> is_kv (ckind c) = true).
Proof.
  intros c s. rewrite to_json_eq. destruct (is_kv (ckind c)); split; split;
    try (intros _; reflexivity); try (intros _; eexists; reflexivity); try discriminate.
  - intros [vs H]. discriminate H.
  - intros [es H]. discriminate H.
Qed.

(* ================================================================================================ *)
(* 2. sorted association lists                                                                      *)
(* ================================================================================================ *)
Section Sorted.
Variable cmp : cmpf.
Hypothesis Hswo : SWO cmp.

(* a strictly sorted list is determined by the set of its entries *)
Lemma ksorted_ext : forall l1 l2, ksorted cmp l1 -> ksorted cmp l2 ->
  (forall e, In e l1 <-> In e l2) -> l1 = l2.
Proof.
  induction l1 as [|x l1 IH]; intros l2 H1 H2 Hm.
  - destruct l2 as [|y l2]; [reflexivity|]. exfalso. apply (proj2 (Hm y)). left. reflexivity.
  - destruct l2 as [|y l2]; [exfalso; apply (proj1 (Hm x)); left; reflexivity|].
    assert (Hirr : forall z, cmp z z <> Lt).
    { intros z Hz. rewrite (swo_refl _ Hswo) in Hz. discriminate. }
    assert (Exy : x = y).
    { destruct (proj1 (Hm x) (or_introl eq_refl)) as [E|Hx]; [symmetry; exact E|].
      destruct (proj2 (Hm y) (or_introl eq_refl)) as [E|Hy]; [exact E|]. exfalso.
      pose proof (ksorted_hd_lt cmp x l1 y H1 Hy) as A.
      pose proof (ksorted_hd_lt cmp y l2 x H2 Hx) as B.
      apply (Hirr (fst x)). exact (swo_trans _ Hswo _ _ _ A B). }
    subst y. f_equal. apply IH.
    + eapply ksorted_tail. exact H1.
    + eapply ksorted_tail. exact H2.
    + intros e. split; intros He.
      * destruct (proj1 (Hm e) (or_intror He)) as [E|H]; [|exact H]. subst e. exfalso.
        apply (Hirr (fst x)). exact (ksorted_hd_lt cmp x l1 x H1 He).
      * destruct (proj2 (Hm e) (or_intror He)) as [E|H]; [|exact H]. subst e. exfalso.
        apply (Hirr (fst x)). exact (ksorted_hd_lt cmp x l2 x H2 He).
Qed.

(* entries with equivalent keys are the same entry *)
Definition kinj (P : entry -> Prop) : Prop :=
  forall e1 e2, P e1 -> P e2 -> cmp (fst e1) (fst e2) = Eq -> e1 = e2.

Lemma ksorted_kinj : forall l, ksorted cmp l -> kinj (fun e => In e l).
Proof. intros l Hs e1 e2 H1 H2 E. exact (ksorted_In_eq cmp Hswo l e1 e2 Hs H1 H2 E). Qed.

Definition inss (es : list entry) (acc : list entry) : list entry :=
  fold_left (fun a e => ins_list cmp (fst e) (snd e) a) es acc.

Lemma inss_sorted : forall es acc, ksorted cmp acc -> ksorted cmp (inss es acc).
Proof.
  induction es as [|e es IH]; intros acc Hs; [exact Hs|]. cbn [inss fold_left]. apply IH.
  apply (ins_list_sorted cmp Hswo). exact Hs.
Qed.

(* inserting pairwise inequivalent entries: nothing is overwritten *)
Lemma inss_In : forall es acc, ksorted cmp acc -> kinj (fun e => In e acc \/ In e es) ->
  forall e, In e (inss es acc) <-> In e acc \/ In e es.
Proof.
  induction es as [|[k v] es IH]; intros acc Hs Hk e.
  - cbn [inss fold_left In]. tauto.
  - cbn [inss fold_left fst snd]. fold (inss es (ins_list cmp k v acc)).
    assert (Hone : forall x, In x (ins_list cmp k v acc) <-> x = (k, v) \/ In x acc).
    { intros x. rewrite (SP.sp_In_ins cmp Hswo x k v acc Hs). split.
      - intros [E|[H _]]; [left; exact E|right; exact H].
      - intros [E|H]; [left; exact E|].
        destruct (cmp (fst x) k) eqn:C.
        + left. apply Hk; [left; exact H|right; left; reflexivity|exact C].
        + right. split; [exact H|discriminate].
        + right. split; [exact H|discriminate]. }
    rewrite IH.
    + rewrite Hone. cbn [In]. split.
      * intros [[E|H]|H]; [right; left; symmetry; exact E|left; exact H|right; right; exact H].
      * intros [H|[E|H]]; [left; right; exact H|left; left; symmetry; exact E|right; exact H].
    + apply (ins_list_sorted cmp Hswo). exact Hs.
    + intros e1 e2 H1 H2 E. apply Hk; [| |exact E].
      * destruct H1 as [H1|H1]; [apply Hone in H1; destruct H1 as [->|H1]; [right; left; reflexivity|left; exact H1]
                                |right; right; exact H1].
      * destruct H2 as [H2|H2]; [apply Hone in H2; destruct H2 as [->|H2]; [right; left; reflexivity|left; exact H2]
                                |right; right; exact H2].
Qed.

(* re-inserting, in ANY order, the entries of a sorted list rebuilds that list *)
Lemma inss_rebuild : forall L es, ksorted cmp L -> (forall e, In e es <-> In e L) -> inss es [] = L.
Proof.
  intros L es HL Hm. apply ksorted_ext; [apply inss_sorted; constructor|exact HL|].
  intros e. rewrite inss_In.
  - cbn [In]. rewrite Hm. tauto.
  - constructor.
  - intros e1 e2 H1 H2 E. apply (ksorted_kinj L HL); [| |exact E].
    + destruct H1 as [[]|H1]. apply Hm. exact H1.
    + destruct H2 as [[]|H2]. apply Hm. exact H2.
Qed.

Lemma inss_mstep : forall es acc, inss es acc = fold_left (mstep cmp) (MM.puts es) acc.
Proof. intros es acc. symmetry. apply MM.fold_puts. Qed.

End Sorted.

(* ---------- sort_entries: Go map semantics (keys compared with ==) ---------- *)
Lemma sort_entries_inss : forall es, sort_entries es = inss Z.compare es [].
Proof. reflexivity. Qed.

Lemma sort_entries_sorted : forall es, ksorted Z.compare (sort_entries es).
Proof. intros es. rewrite sort_entries_inss. apply inss_sorted; [apply Zcompare_SWO|constructor]. Qed.

(* entries sorted under ANY comparator have pairwise different keys *)
Lemma ksorted_kinjZ : forall cmp, SWO cmp -> forall l, ksorted cmp l -> kinj Z.compare (fun e => In e l).
Proof.
  intros cmp Hswo l Hs e1 e2 H1 H2 E. apply Z.compare_eq in E.
  apply (ksorted_In_eq cmp Hswo l e1 e2 Hs H1 H2). rewrite E. apply (swo_refl _ Hswo).
Qed.

Lemma sort_entries_In : forall es, kinj Z.compare (fun e => In e es) ->
  forall e, In e (sort_entries es) <-> In e es.
Proof.
  intros es Hk e. rewrite sort_entries_inss, (inss_In Z.compare Zcompare_SWO).
  - cbn [In]. tauto.
  - constructor.
  - intros e1 e2 [[]|H1] [[]|H2]. apply Hk; assumption.
Qed.

Lemma sort_entries_id : forall l, ksorted Z.compare l -> sort_entries l = l.
Proof.
  intros l Hs. rewrite sort_entries_inss. apply (inss_rebuild Z.compare Zcompare_SWO); [exact Hs|tauto].
Qed.

Lemma sort_entries_idem : forall es, sort_entries (sort_entries es) = sort_entries es.
Proof. intros es. apply sort_entries_id, sort_entries_sorted. Qed.

(* the members of a sorted entry list, printed (ascending by ==) and re-inserted under the
   container's comparator, rebuild that list *)
Lemma reinsert_sorted : forall cmp, SWO cmp -> forall L, ksorted cmp L ->
  inss cmp (sort_entries L) [] = L.
Proof.
  intros cmp Hswo L HL. apply (inss_rebuild cmp Hswo); [exact HL|].
  apply sort_entries_In. apply (ksorted_kinjZ cmp Hswo). exact HL.
Qed.

(* ---------- ascending integer lists (Go map used as a set) ---------- *)
Lemma zasc_ext : forall l1 l2, SP.zasc l1 -> SP.zasc l2 -> (forall z, In z l1 <-> In z l2) -> l1 = l2.
Proof.
  intros l1 l2 H1 H2 Hm.
  assert (E : SP.emb l1 = SP.emb l2).
  { apply (ksorted_ext Z.compare Zcompare_SWO).
    - apply SP.sp_emb_sorted. exact H1.
    - apply SP.sp_emb_sorted. exact H2.
    - intros e. unfold SP.emb. rewrite !in_map_iff. split; intros (y & <- & Hy); exists y; (split; [reflexivity|]);
        apply Hm; exact Hy. }
  rewrite <- (SP.sp_map_fst_emb l1), <- (SP.sp_map_fst_emb l2), E. reflexivity.
Qed.

Lemma hs_adds_rebuild : forall l, SP.zasc l -> fold_left (fun acc x => sadd x acc) l [] = l.
Proof.
  intros l Hs. destruct (SP.hs_adds_spec l [] (SSorted_nil _)) as [H1 H2]. unfold SP.hs_adds in *.
  apply zasc_ext; [exact H1|exact Hs|]. intros z.
  rewrite <- !SP.sp_smem_In, H2, <- SP.sp_smem_eqvb. cbn [smem existsb]. rewrite orb_false_r. reflexivity.
Qed.

(* ================================================================================================ *)
(* 3. from_json in closed form                                                                      *)
(* ================================================================================================ *)
Definition from_json_body (c : config) (d : decoded) (s : state) : state * bool :=
  if is_kv (ckind c) then
    match d with
    | DObj kvs => (put_entries c (MM.json_entries c kvs) (init c), true)
    | DNull => (init c, true)
    | _ => (s, false)
    end
  else
    match d with
    | DArr vs => (load_array c vs, true)
    | DNull => (load_array c [], true)
    | _ => (s, false)
    end.

Lemma from_json_body_eq : forall c d s, s <> StCrash -> from_json c d s = from_json_body c d s.
Proof.
  intros c d s Hs. unfold from_json, from_json_body, MM.json_entries.
  destruct s; try congruence; destruct (is_kv (ckind c)); destruct d; try reflexivity;
    destruct (ckind c); reflexivity.
Qed.

Lemma from_json_crash : forall c d, from_json c d StCrash = (StCrash, false).
Proof. reflexivity. Qed.

(* the decoded documents FromJSON accepts *)
Definition accepts (c : config) (d : decoded) : bool :=
  if is_kv (ckind c) then match d with DObj _ | DNull => true | _ => false end
  else match d with DArr _ | DNull => true | _ => false end.

Lemma from_json_ok_iff : forall c d s, s <> StCrash -> snd (from_json c d s) = accepts c d.
Proof.
  intros c d s Hs. rewrite (from_json_body_eq c d s Hs). unfold from_json_body, accepts.
  destruct (is_kv (ckind c)); destruct d; reflexivity.
Qed.

(* ---------- C12: atomic on error ---------- *)
Theorem C12_atomic_proof : forall c s d, snd (from_json c d s) = false -> fst (from_json c d s) = s.
Proof.
  intros c s d H. destruct s; try reflexivity;
    (rewrite from_json_body_eq in * by discriminate; unfold from_json_body in *;
     destruct (is_kv (ckind c)); destruct d; try discriminate H; reflexivity).
Qed.

Theorem C12_atomic_step_proof : forall c s d,
  snd (fst (step c s (FromJSON d))) = obool false -> fst (fst (step c s (FromJSON d))) = s.
Proof.
  intros c s d H.
  assert (E : s <> StCrash -> step c s (FromJSON d) = (fst (from_json c d s), obool (snd (from_json c d s)), onone)).
  { intros Hs. destruct s; try congruence; cbn [step]; destruct (from_json c d _); reflexivity. }
  destruct s; try reflexivity; rewrite E in * by discriminate; cbn [fst snd] in *;
    apply C12_atomic_proof; destruct (snd (from_json c d _)); try reflexivity; discriminate H.
Qed.

(* the other direction: the call answers true exactly when the document is accepted, and false
   leaves every observation unchanged because the state is unchanged *)
Theorem C12_step_result_proof : forall c s d, s <> StCrash ->
  snd (fst (step c s (FromJSON d))) = obool (accepts c d).
Proof.
  intros c s d Hs. rewrite <- (from_json_ok_iff c d s Hs).
  destruct s; try congruence; cbn [step]; destruct (from_json c d _); reflexivity.
Qed.

(* ---------- C12: the result does not depend on the prior content ---------- *)
Theorem C12_replaces_proof : forall c s d, s <> StCrash -> snd (from_json c d s) = true ->
  init c <> StCrash ->
  fst (from_json c d s) = fst (from_json c d (init c)).
Proof.
  intros c s d Hs H Hi. rewrite (from_json_body_eq c d s Hs) in *. rewrite (from_json_body_eq c d (init c) Hi).
  unfold from_json_body in *. destruct (is_kv (ckind c)); destruct d; try discriminate H; reflexivity.
Qed.

(* configurations whose constructor does not panic *)
Definition config_ok (c : config) : Prop :=
  (ckind c = BTree -> 3 <= corder c) /\ (ckind c = CircularBuffer -> 1 <= ccap c).

Lemma init_not_crash : forall c, config_ok c -> init c <> StCrash.
Proof.
  intros c [Hb Hr]. unfold init. destruct (ckind c) eqn:K; try discriminate.
  - specialize (Hb eq_refl). destruct (Z.ltb_spec (corder c) 3); [lia|discriminate].
  - specialize (Hr eq_refl). destruct (Z.ltb_spec (ccap c) 1); [lia|discriminate].
Qed.

(* ================================================================================================ *)
(* 4. bidirectional maps                                                                            *)
(* ================================================================================================ *)
(* list level: a forward list sorted under ck, an inverse list sorted under cv, the inverse list holds
   exactly the swapped forward entries.  Both being strictly sorted, this makes the map one-to-one up
   to the two comparators. *)
Section LB.
Variables ck cv : cmpf.
Hypothesis Hk : SWO ck.
Hypothesis Hv : SWO cv.

Definition lbI (f i : list entry) : Prop :=
  ksorted ck f /\ ksorted cv i /\ forall k v, In (k, v) f <-> In (v, k) i.

Definition lb_put (k v : Z) (f i : list entry) : list entry * list entry :=
  let i1 := match find_list ck k f with Some e => del_list cv (snd e) i | None => i end in
  let f1 := match find_list cv v i1 with Some e => del_list ck (snd e) f | None => f end in
  (ins_list ck k v f1, ins_list cv v k i1).

Definition lb_remove (k : Z) (f i : list entry) : list entry * list entry :=
  match find_list ck k f with
  | Some e => (del_list ck k f, del_list cv (snd e) i)
  | None => (f, i)
  end.

Lemma lbI_nil : lbI [] [].
Proof. split; [constructor|]. split; [constructor|]. intros k v. tauto. Qed.

(* the inverse list without the value stored under (a key equivalent to) k *)
Lemma lb_inv_minus : forall k f i, lbI f i ->
  let i1 := match find_list ck k f with Some e => del_list cv (snd e) i | None => i end in
  ksorted cv i1 /\ forall a b, In (a, b) i1 <-> In (a, b) i /\ ck b k <> Eq.
Proof.
  intros k f i (Hf & Hi & Hm). destruct (find_list ck k f) as [[k' v0]|] eqn:F; cbn zeta; cbn [snd].
  - apply (find_list_Some ck) in F. destruct F as [Fin Fk]. cbn [fst] in Fk.
    split; [apply (del_list_sorted cv); exact Hi|].
    intros a b. rewrite (SP.sp_In_del cv Hv (a, b) v0 i Hi). cbn [fst].
    split; intros [Hin Hne]; (split; [exact Hin|]); intros E; apply Hne.
    + (* ck b k = Eq -> (b,a) is the entry (k',v0) *)
      assert (Hb : In (b, a) f) by (apply Hm; exact Hin).
      assert (Ek : ck b k' = Eq) by (eapply (c_eq_trans ck Hk); eassumption).
      pose proof (ksorted_In_eq ck Hk f (b, a) (k', v0) Hf Hb Fin Ek) as EE. inversion EE. subst.
      apply (swo_refl _ Hv).
    + assert (Hb : In (v0, k') i) by (apply Hm; exact Fin).
      pose proof (ksorted_In_eq cv Hv i (a, b) (v0, k') Hi Hin Hb E) as EE. inversion EE. subst.
      apply (c_eq_sym ck Hk). exact Fk.
  - split; [exact Hi|]. intros a b. split; [|tauto]. intros Hin. split; [exact Hin|].
    rewrite (find_list_None ck) in F. intros E. apply (F (b, a)); [apply Hm; exact Hin|].
    apply (c_eq_sym ck Hk). exact E.
Qed.

Lemma lb_put_spec : forall k v f i, lbI f i ->
  lbI (fst (lb_put k v f i)) (snd (lb_put k v f i)) /\
  forall a b, In (a, b) (fst (lb_put k v f i)) <->
              (a, b) = (k, v) \/ (In (a, b) f /\ ck a k <> Eq /\ cv b v <> Eq).
Proof.
  intros k v f i HI. pose proof HI as (Hf & Hi & Hm).
  destruct (lb_inv_minus k f i HI) as [Hs1 Hm1]. unfold lb_put.
  set (i1 := match find_list ck k f with Some e => del_list cv (snd e) i | None => i end) in *.
  set (f1 := match find_list cv v i1 with Some e => del_list ck (snd e) f | None => f end).
  assert (H1 : ksorted ck f1 /\ forall a b, In (a, b) f1 <-> In (a, b) f /\ (cv b v <> Eq \/ ck a k = Eq)).
  { unfold f1. destruct (find_list cv v i1) as [[v' k0]|] eqn:F; cbn [snd].
    - apply (find_list_Some cv) in F. destruct F as [Fin Fv]. cbn [fst] in Fv.
      pose proof (proj1 (Hm1 v' k0) Fin) as [Fin0 Fk0].
      split; [apply (del_list_sorted ck); exact Hf|].
      intros a b. rewrite (SP.sp_In_del ck Hk (a, b) k0 f Hf). cbn [fst].
      split; intros [Hin H]; (split; [exact Hin|]).
      + destruct (cv b v) eqn:Cb; try (left; discriminate).
        destruct (ck a k) eqn:Ca; try (right; reflexivity); exfalso; apply H.
        * assert (Hb : In (b, a) i1) by (apply Hm1; split; [apply Hm; exact Hin|rewrite Ca; discriminate]).
          assert (Ev : cv b v' = Eq) by (eapply (c_eq_trans cv Hv); eassumption).
          pose proof (ksorted_In_eq cv Hv i1 (b, a) (v', k0) Hs1 Hb Fin Ev) as EE. inversion EE. subst.
          apply (swo_refl _ Hk).
        * assert (Hb : In (b, a) i1) by (apply Hm1; split; [apply Hm; exact Hin|rewrite Ca; discriminate]).
          assert (Ev : cv b v' = Eq) by (eapply (c_eq_trans cv Hv); eassumption).
          pose proof (ksorted_In_eq cv Hv i1 (b, a) (v', k0) Hs1 Hb Fin Ev) as EE. inversion EE. subst.
          apply (swo_refl _ Hk).
      + intros E. assert (Hb : In (k0, v') f) by (apply Hm; exact Fin0).
        pose proof (ksorted_In_eq ck Hk f (a, b) (k0, v') Hf Hin Hb E) as EE. inversion EE. subst.
        destruct H as [H|H]; [apply H; apply (c_eq_sym cv Hv); exact Fv|apply Fk0; exact H].
    - split; [exact Hf|]. intros a b. split; [|tauto]. intros Hin. split; [exact Hin|].
      rewrite (find_list_None cv) in F.
      destruct (ck a k) eqn:Ca; [right; reflexivity| |]; left; intros E;
        apply (F (b, a)); try (apply (c_eq_sym cv Hv); exact E);
        apply Hm1; (split; [apply Hm; exact Hin|rewrite Ca; discriminate]). }
  destruct H1 as [Hs2 Hm2]. cbn [fst snd].
  assert (Cf : forall a b, In (a, b) (ins_list ck k v f1) <->
                           (a, b) = (k, v) \/ (In (a, b) f /\ ck a k <> Eq /\ cv b v <> Eq)).
  { intros a b. rewrite (SP.sp_In_ins ck Hk (a, b) k v f1 Hs2), Hm2. cbn [fst]. split.
    - intros [E|[[Hin [H|H]] Hne]]; [left; exact E|right; tauto|contradiction].
    - intros [E|(Hin & Hne & Hnv)]; [left; exact E|right; tauto]. }
  assert (Ci : forall a b, In (b, a) (ins_list cv v k i1) <->
                           (b, a) = (v, k) \/ (In (b, a) i /\ ck a k <> Eq /\ cv b v <> Eq)).
  { intros a b. rewrite (SP.sp_In_ins cv Hv (b, a) v k i1 Hs1), Hm1. cbn [fst]. tauto. }
  split; [|exact Cf].
  split; [apply (ins_list_sorted ck Hk); exact Hs2|]. split; [apply (ins_list_sorted cv Hv); exact Hs1|].
  intros a b. rewrite Cf, Ci, Hm. split; (intros [E|H]; [left; inversion E; reflexivity|right; exact H]).
Qed.

Lemma lb_remove_spec : forall k f i, lbI f i ->
  lbI (fst (lb_remove k f i)) (snd (lb_remove k f i)) /\
  forall a b, In (a, b) (fst (lb_remove k f i)) <-> In (a, b) f /\ ck a k <> Eq.
Proof.
  intros k f i HI. pose proof HI as (Hf & Hi & Hm).
  destruct (lb_inv_minus k f i HI) as [Hs1 Hm1]. unfold lb_remove.
  destruct (find_list ck k f) as [e0|] eqn:F; cbn [fst snd].
  - assert (Cf : forall a b, In (a, b) (del_list ck k f) <-> In (a, b) f /\ ck a k <> Eq).
    { intros a b. rewrite (SP.sp_In_del ck Hk (a, b) k f Hf). reflexivity. }
    split; [|exact Cf].
    split; [apply (del_list_sorted ck); exact Hf|]. split; [exact Hs1|].
    intros a b. rewrite Cf, Hm1, Hm. reflexivity.
  - split; [exact HI|]. intros a b. split; [|tauto]. intros Hin. split; [exact Hin|].
    rewrite (find_list_None ck) in F. intros E. apply (F (a, b) Hin). apply (c_eq_sym ck Hk). exact E.
Qed.

Definition lb_puts (es : list entry) (s : list entry * list entry) : list entry * list entry :=
  fold_left (fun acc e => lb_put (fst e) (snd e) (fst acc) (snd acc)) es s.

Lemma lb_puts_inv : forall es s, lbI (fst s) (snd s) -> lbI (fst (lb_puts es s)) (snd (lb_puts es s)).
Proof.
  induction es as [|e es IH]; intros s Hs; [exact Hs|]. cbn [lb_puts fold_left]. apply IH.
  apply lb_put_spec. exact Hs.
Qed.

(* inserting the entries of a one-to-one list, in any order, into the empty map: every entry goes in,
   nothing is evicted *)
Lemma lb_puts_In : forall es s, lbI (fst s) (snd s) ->
  (forall e1 e2, (In e1 (fst s) \/ In e1 es) -> (In e2 (fst s) \/ In e2 es) ->
                 ck (fst e1) (fst e2) = Eq \/ cv (snd e1) (snd e2) = Eq -> e1 = e2) ->
  forall e, In e (fst (lb_puts es s)) <-> In e (fst s) \/ In e es.
Proof.
  induction es as [|[k v] es IH]; intros [f i] Hs Hinj e; cbn [fst snd] in *.
  - cbn [lb_puts fold_left fst In]. tauto.
  - cbn [lb_puts fold_left fst snd]. fold (lb_puts es (lb_put k v f i)).
    destruct (lb_put_spec k v f i Hs) as [HI' Hm'].
    assert (Hone : forall x, In x (fst (lb_put k v f i)) <-> x = (k, v) \/ In x f).
    { intros [a b]. rewrite Hm'. split.
      - intros [E|[H _]]; [left; exact E|right; exact H].
      - intros [E|H]; [left; exact E|].
        destruct (ck a k) eqn:Ca.
        + left. apply (Hinj (a, b) (k, v)); [left; exact H|right; left; reflexivity|left; exact Ca].
        + destruct (cv b v) eqn:Cb; try (right; split; [exact H|split; discriminate]).
          left. apply (Hinj (a, b) (k, v)); [left; exact H|right; left; reflexivity|right; exact Cb].
        + destruct (cv b v) eqn:Cb; try (right; split; [exact H|split; discriminate]).
          left. apply (Hinj (a, b) (k, v)); [left; exact H|right; left; reflexivity|right; exact Cb]. }
    rewrite IH.
    + rewrite Hone. cbn [In]. split.
      * intros [[E|H]|H]; [right; left; symmetry; exact E|left; exact H|right; right; exact H].
      * intros [H|[E|H]]; [left; right; exact H|left; left; symmetry; exact E|right; exact H].
    + exact HI'.
    + intros e1 e2 H1 H2 E. apply Hinj; [| |exact E].
      * destruct H1 as [H1|H1]; [apply Hone in H1; destruct H1 as [->|H1]; [right; left; reflexivity|left; exact H1]
                                |right; right; exact H1].
      * destruct H2 as [H2|H2]; [apply Hone in H2; destruct H2 as [->|H2]; [right; left; reflexivity|left; exact H2]
                                |right; right; exact H2].
Qed.

(* a one-to-one map is injective in both directions *)
Lemma lbI_inj : forall f i, lbI f i -> forall e1 e2, In e1 f -> In e2 f ->
  ck (fst e1) (fst e2) = Eq \/ cv (snd e1) (snd e2) = Eq -> e1 = e2.
Proof.
  intros f i (Hf & Hi & Hm) [a1 b1] [a2 b2] H1 H2 [E|E]; cbn [fst snd] in E.
  - apply (ksorted_In_eq ck Hk f _ _ Hf H1 H2). exact E.
  - apply Hm in H1. apply Hm in H2.
    pose proof (ksorted_In_eq cv Hv i (b1, a1) (b2, a2) Hi H1 H2 E) as EE. inversion EE. reflexivity.
Qed.

(* the inverse list is determined by the forward list *)
Lemma lbI_inverse_unique : forall f i i', lbI f i -> lbI f i' -> i = i'.
Proof.
  intros f i i' (Hf & Hi & Hm) (_ & Hi' & Hm'). apply (ksorted_ext cv Hv); [exact Hi|exact Hi'|].
  intros [b a]. rewrite <- Hm, <- Hm'. reflexivity.
Qed.

(* re-inserting the forward entries of a one-to-one map, in ANY order, rebuilds both lists *)
Lemma lb_puts_rebuild : forall f i es, lbI f i -> (forall e, In e es <-> In e f) ->
  lb_puts es ([], []) = (f, i).
Proof.
  intros f i es HI Hes. pose proof HI as (Hf & Hi & Hm).
  pose proof (lb_puts_inv es ([], []) lbI_nil) as HI'.
  assert (Ef : fst (lb_puts es ([], [])) = f).
  { apply (ksorted_ext ck Hk); [apply HI'|exact Hf|]. intros e.
    rewrite lb_puts_In; [cbn [fst In]; rewrite Hes; tauto|exact lbI_nil|].
    cbn [fst]. intros e1 e2 [[]|H1] [[]|H2] E. apply (lbI_inj f i HI); [apply Hes; exact H1|apply Hes; exact H2|exact E]. }
  destruct (lb_puts es ([], [])) as [f' i'] eqn:EE. cbn [fst snd] in *. subst f'.
  f_equal. apply (lbI_inverse_unique f); assumption.
Qed.

End LB.

(* ---------- HashBidiMap is the instance (==, ==) ---------- *)
Lemma hbidi_put_lb : forall k v f i, hbidi_put k v (f, i) = lb_put Z.compare Z.compare k v f i.
Proof.
  intros k v f i. unfold hbidi_put, lb_put. cbv zeta. rewrite (MM.hget_find k f).
  destruct (find_list Z.compare k f) as [e0|]; cbn [option_map].
  - rewrite (MM.hget_find v (hdel (snd e0) i)). unfold hdel, hput.
    destruct (find_list Z.compare v (del_list Z.compare (snd e0) i)) as [e1|]; reflexivity.
  - rewrite (MM.hget_find v i). unfold hdel, hput.
    destruct (find_list Z.compare v i) as [e1|]; reflexivity.
Qed.

Lemma hbidi_remove_lb : forall k f i, hbidi_remove k (f, i) = lb_remove Z.compare Z.compare k f i.
Proof.
  intros k f i. unfold hbidi_remove, lb_remove. rewrite MM.hget_find.
  destruct (find_list Z.compare k f) as [e0|]; cbn [option_map]; [|reflexivity].
  (* the entry found under k has key k *)
  reflexivity.
Qed.

Lemma hbidi_puts_lb : forall es s,
  fold_left (fun acc e => hbidi_put (fst e) (snd e) acc) es s = lb_puts Z.compare Z.compare es s.
Proof.
  induction es as [|e es IH]; intros [f i]; [reflexivity|].
  cbn [fold_left lb_puts fst snd]. rewrite hbidi_put_lb. apply IH.
Qed.

(* ---------- TreeBidiMap: two red-black trees simulate the two lists ---------- *)
Definition tb_lists (s : tbidi) : list entry * list entry :=
  (RB.inorder (fst (fst s)), RB.inorder (fst (snd s))).

Definition tbI (ck cv : cmpf) (s : tbidi) : Prop :=
  MM.rbI ck (fst s) /\ MM.rbI cv (snd s) /\ lbI ck cv (fst (tb_lists s)) (snd (tb_lists s)).

Section TB.
Variables ck cv : cmpf.
Hypothesis Hk : SWO ck.
Hypothesis Hv : SWO cv.

Lemma tbI_lists : forall s, MM.rbI ck (fst s) -> MM.rbI cv (snd s) ->
  (forall k v, In (k, v) (fst (tb_lists s)) <-> In (v, k) (snd (tb_lists s))) -> tbI ck cv s.
Proof.
  intros s H1 H2 H3. split; [exact H1|]. split; [exact H2|].
  split; [apply H1|]. split; [apply H2|exact H3].
Qed.

Definition tb_tail (k v : Z) (f i1 : rbs) : option tbidi :=
  match (match rbs_get cv v i1 with Some k0 => rbs_remove ck k0 f | None => Some f end) with
  | None => None
  | Some f1 =>
    match rbs_put ck k v f1, rbs_put cv v k i1 with
    | Some f2, Some i2 => Some (f2, i2)
    | _, _ => None
    end
  end.

Lemma tbidi_put_unfold : forall k v f i,
  tbidi_put ck cv k v (f, i) =
  match (match rbs_get ck k f with Some v0 => rbs_remove cv v0 i | None => Some i end) with
  | None => None
  | Some i1 => tb_tail k v f i1
  end.
Proof. reflexivity. Qed.

Lemma tb_tail_sim : forall k v f i1, MM.rbI ck f -> MM.rbI cv i1 ->
  exists f2 i2, tb_tail k v f i1 = Some (f2, i2) /\ MM.rbI ck f2 /\ MM.rbI cv i2 /\
    RB.inorder (fst f2) = ins_list ck k v (match find_list cv v (RB.inorder (fst i1)) with
                                           | Some e => del_list ck (snd e) (RB.inorder (fst f))
                                           | None => RB.inorder (fst f) end) /\
    RB.inorder (fst i2) = ins_list cv v k (RB.inorder (fst i1)).
Proof.
  intros k v f [t1 n1] Hf H1. unfold tb_tail.
  rewrite (MM.rbs_get_spec cv Hv v t1 n1) by apply H1. cbn [fst].
  destruct (MM.rbs_put_sim cv Hv v k (t1, n1) H1) as (i2 & E4 & H4 & I4).
  destruct (find_list cv v (RB.inorder t1)) as [e1|]; cbn [option_map].
  - destruct (MM.rbs_remove_sim ck Hk (snd e1) f Hf) as (f1 & E2 & H2 & I2). rewrite E2.
    destruct (MM.rbs_put_sim ck Hk k v f1 H2) as (f2 & E3 & H3 & I3). rewrite E3, E4.
    exists f2, i2. split; [reflexivity|]. split; [exact H3|]. split; [exact H4|].
    split; [rewrite I3, I2; reflexivity|exact I4].
  - destruct (MM.rbs_put_sim ck Hk k v f Hf) as (f2 & E3 & H3 & I3). rewrite E3, E4.
    exists f2, i2. split; [reflexivity|]. split; [exact H3|]. split; [exact H4|].
    split; [exact I3|exact I4].
Qed.

Lemma tbidi_put_sim : forall k v s, tbI ck cv s ->
  exists s', tbidi_put ck cv k v s = Some s' /\ tbI ck cv s' /\
             tb_lists s' = lb_put ck cv k v (fst (tb_lists s)) (snd (tb_lists s)).
Proof.
  intros k v [[f fn] [i inn]] (Hf & Hi & HL). unfold tb_lists in *. cbn [fst snd] in *.
  rewrite tbidi_put_unfold. rewrite (MM.rbs_get_spec ck Hk k f fn) by apply Hf.
  assert (Fin : forall f2 i2 : rbs, MM.rbI ck f2 -> MM.rbI cv i2 ->
                (RB.inorder (fst f2), RB.inorder (fst i2)) = lb_put ck cv k v (RB.inorder f) (RB.inorder i) ->
                tbI ck cv (f2, i2)).
  { intros f2 i2 H3 H4 EL. split; [exact H3|]. split; [exact H4|]. unfold tb_lists. cbn [fst snd].
    pose proof (lb_put_spec ck cv Hk Hv k v _ _ HL) as [HL' _]. rewrite <- EL in HL'. exact HL'. }
  unfold lb_put in *.
  destruct (find_list ck k (RB.inorder f)) as [e0|]; cbn [option_map].
  - destruct (MM.rbs_remove_sim cv Hv (snd e0) (i, inn) Hi) as (i1 & E1 & H1 & I1). rewrite E1.
    destruct (tb_tail_sim k v (f, fn) i1 Hf H1) as (f2 & i2 & E & H3 & H4 & I3 & I4). rewrite E.
    cbn [fst] in I1, I3. rewrite I1 in I3, I4.
    exists (f2, i2). split; [reflexivity|]. cbn [fst snd].
    assert (EL : (RB.inorder (fst f2), RB.inorder (fst i2)) =
                 (ins_list ck k v match find_list cv v (del_list cv (snd e0) (RB.inorder i)) with
                                  | Some e => del_list ck (snd e) (RB.inorder f)
                                  | None => RB.inorder f end,
                  ins_list cv v k (del_list cv (snd e0) (RB.inorder i)))) by (rewrite I3, I4; reflexivity).
    split; [apply Fin; assumption|exact EL].
  - destruct (tb_tail_sim k v (f, fn) (i, inn) Hf Hi) as (f2 & i2 & E & H3 & H4 & I3 & I4). rewrite E.
    cbn [fst] in I3, I4.
    exists (f2, i2). split; [reflexivity|]. cbn [fst snd].
    assert (EL : (RB.inorder (fst f2), RB.inorder (fst i2)) =
                 (ins_list ck k v match find_list cv v (RB.inorder i) with
                                  | Some e => del_list ck (snd e) (RB.inorder f)
                                  | None => RB.inorder f end,
                  ins_list cv v k (RB.inorder i))) by (rewrite I3, I4; reflexivity).
    split; [apply Fin; assumption|exact EL].
Qed.

Lemma tbidi_remove_sim : forall k s, tbI ck cv s ->
  exists s', tbidi_remove ck cv k s = Some s' /\ tbI ck cv s' /\
             tb_lists s' = lb_remove ck cv k (fst (tb_lists s)) (snd (tb_lists s)).
Proof.
  intros k [[f fn] [i inn]] (Hf & Hi & HL). unfold tb_lists in *. cbn [fst snd] in *.
  unfold tbidi_remove, lb_remove.
  rewrite (MM.rbs_get_spec ck Hk k f fn) by apply Hf.
  destruct (find_list ck k (RB.inorder f)) as [e0|] eqn:F; cbn [option_map].
  - destruct (MM.rbs_remove_sim ck Hk k (f, fn) Hf) as (f1 & E1 & H1 & I1).
    destruct (MM.rbs_remove_sim cv Hv (snd e0) (i, inn) Hi) as (i1 & E2 & H2 & I2).
    rewrite E1, E2. exists (f1, i1). split; [reflexivity|]. cbn [fst snd] in *.
    assert (EL : (RB.inorder (fst f1), RB.inorder (fst i1)) = lb_remove ck cv k (RB.inorder f) (RB.inorder i)).
    { unfold lb_remove. rewrite F, I1, I2. reflexivity. }
    split; [|rewrite EL; unfold lb_remove; rewrite F; reflexivity].
    split; [exact H1|]. split; [exact H2|]. unfold tb_lists. cbn [fst snd].
    pose proof (lb_remove_spec ck cv Hk Hv k _ _ HL) as [HL' _]. rewrite <- EL in HL'. exact HL'.
  - exists ((f, fn), (i, inn)). split; [reflexivity|]. split; [|reflexivity].
    split; [exact Hf|]. split; [exact Hi|exact HL].
Qed.

Lemma tbidi_puts_sim : forall es s, tbI ck cv s ->
  exists s', tbidi_puts ck cv es s = Some s' /\ tbI ck cv s' /\
             tb_lists s' = lb_puts ck cv es (tb_lists s).
Proof.
  induction es as [|[k v] es IH]; intros s Hs.
  - exists s. split; [reflexivity|]. split; [exact Hs|reflexivity].
  - destruct (tbidi_put_sim k v s Hs) as (s1 & E1 & H1 & L1).
    destruct (IH s1 H1) as (s2 & E2 & H2 & L2).
    exists s2. cbn [tbidi_puts]. rewrite E1. split; [exact E2|]. split; [exact H2|].
    rewrite L2, L1. reflexivity.
Qed.

Lemma tbI_empty : tbI ck cv (rbs_empty, rbs_empty).
Proof. split; [apply MM.rbI_empty|]. split; [apply MM.rbI_empty|]. apply lbI_nil. Qed.

End TB.

(* ---------- the two bidirectional kinds in the machine ---------- *)
Definition bidi_kind (k : kind) : bool := match k with HashBidiMap | TreeBidiMap => true | _ => false end.

Definition bidi_inv (c : config) (s : state) : Prop :=
  match ckind c, s with
  | HashBidiMap, StHBidi f i => lbI Z.compare Z.compare f i
  | TreeBidiMap, StTBidi f fn i inn => tbI (kc c) (vc c) ((f, fn), (i, inn))
  | _, _ => False
  end.

Lemma vc_SWO : forall c, SWO (vc c).
Proof. intros c. apply cmp_of_SWO. Qed.

Lemma bidi_inv_init : forall c, bidi_kind (ckind c) = true -> bidi_inv c (init c).
Proof.
  intros c K. unfold bidi_inv, init. destruct (ckind c); try discriminate K.
  - apply lbI_nil.
  - apply tbI_empty.
Qed.

Ltac bidi_cases c s Hi K :=
  unfold bidi_inv in Hi; destruct (ckind c) eqn:K; try contradiction; destruct s; try contradiction.

Lemma bidi_put_entries : forall c es s, bidi_inv c s -> bidi_inv c (put_entries c es s).
Proof.
  intros c es s Hi. bidi_cases c s Hi K; unfold bidi_inv; rewrite K; cbn [put_entries].
  - rewrite hbidi_puts_lb.
    pose proof (lb_puts_inv Z.compare Z.compare Zcompare_SWO Zcompare_SWO es (f, i) Hi) as H.
    destruct (lb_puts Z.compare Z.compare es (f, i)) as [f' i']. exact H.
  - destruct (tbidi_puts_sim (kc c) (vc c) (MM.kc_SWO c) (vc_SWO c) es _ Hi) as ([[f' fn'] [i' inn']] & E & H & _).
    rewrite E. exact H.
Qed.

Definition mutator (o : op) : bool :=
  match o with Put _ _ | Remove _ | Clear | FromJSON _ => true | _ => false end.

Lemma bidi_step_observer : forall c s o, bidi_inv c s -> mutator o = false -> fst (fst (step c s o)) = s.
Proof.
  intros c s o Hi Hmu.
  bidi_cases c s Hi K; destruct o; try discriminate Hmu; unfold step; rewrite ?K;
    try reflexivity; cbn [has_enumerable negb]; try reflexivity;
    destruct (each_of _ _); reflexivity.
Qed.

Lemma step_from_json_gen : forall c s d, s <> StCrash ->
  step c s (FromJSON d) = (fst (from_json c d s), obool (snd (from_json c d s)), onone).
Proof. intros c s d Hs. destruct s; try congruence; cbn [step]; destruct (from_json c d _); reflexivity. Qed.

Lemma bidi_step : forall c s o, bidi_inv c s -> bidi_inv c (fst (fst (step c s o))).
Proof.
  intros c s o Hi. destruct (mutator o) eqn:Hmu.
  2:{ rewrite (bidi_step_observer c s o Hi Hmu). exact Hi. }
  assert (Kb : bidi_kind (ckind c) = true).
  { unfold bidi_inv in Hi. destruct (ckind c); try contradiction; reflexivity. }
  destruct o; try discriminate Hmu.
  - (* Put *)
    bidi_cases c s Hi K; unfold bidi_inv; rewrite K; unfold step.
    + rewrite hbidi_put_lb.
      pose proof (lb_put_spec Z.compare Z.compare Zcompare_SWO Zcompare_SWO k v f i Hi) as [H _].
      destruct (lb_put Z.compare Z.compare k v f i) as [f' i']. exact H.
    + destruct (tbidi_put_sim (kc c) (vc c) (MM.kc_SWO c) (vc_SWO c) k v _ Hi) as ([[f' fn'] [i' inn']] & E & H & _).
      rewrite E. exact H.
  - (* Remove *)
    bidi_cases c s Hi K; unfold bidi_inv; rewrite K; unfold step.
    + rewrite hbidi_remove_lb.
      pose proof (lb_remove_spec Z.compare Z.compare Zcompare_SWO Zcompare_SWO k f i Hi) as [H _].
      destruct (lb_remove Z.compare Z.compare k f i) as [f' i']. exact H.
    + destruct (tbidi_remove_sim (kc c) (vc c) (MM.kc_SWO c) (vc_SWO c) k _ Hi) as ([[f' fn'] [i' inn']] & E & H & _).
      rewrite E. exact H.
  - (* Clear *)
    assert (E : fst (fst (step c s Clear)) = init c) by (bidi_cases c s Hi K; reflexivity).
    rewrite E. apply bidi_inv_init. exact Kb.
  - (* FromJSON *)
    assert (Hs : s <> StCrash) by (intros ->; unfold bidi_inv in Hi; destruct (ckind c); contradiction).
    rewrite (step_from_json_gen c s d Hs). cbn [fst]. rewrite (from_json_body_eq c d s Hs).
    unfold from_json_body. assert (Hkv : is_kv (ckind c) = true) by (destruct (ckind c); try discriminate Kb; reflexivity).
    rewrite Hkv. destruct d; cbn [fst]; try exact Hi.
    + apply bidi_inv_init. exact Kb.
    + apply bidi_put_entries. apply bidi_inv_init. exact Kb.
Qed.

Lemma bidi_run_from : forall c ops s, bidi_inv c s -> bidi_inv c (run_from c s ops).
Proof.
  intros c ops. induction ops as [|o ops IH]; intros s Hi; [exact Hi|].
  change (run_from c s (o :: ops)) with (run_from c (fst (fst (step c s o))) ops).
  apply IH. apply bidi_step. exact Hi.
Qed.

Theorem bidi_run : forall c ops, bidi_kind (ckind c) = true -> bidi_inv c (run c ops).
Proof. intros c ops K. apply bidi_run_from. apply bidi_inv_init. exact K. Qed.

(* ================================================================================================ *)
(* 5. the invariant of every reachable state                                                        *)
(* ================================================================================================ *)
Definition seq_kind (k : kind) : bool :=
  match k with
  | ArrayList | SinglyLinkedList | DoublyLinkedList | ArrayStack | LinkedListStack | ArrayQueue | LinkedListQueue => true
  | _ => false
  end.

(* every value stored in the tree of a TreeSet is 0 *)
Definition ts_zero (s : state) : Prop :=
  match s with StRB t _ => forall e, In e (RB.inorder t) -> snd e = 0 | _ => False end.

Definition jinv (c : config) (s : state) : Prop :=
  match ckind c with
  | ArrayList | SinglyLinkedList | DoublyLinkedList | ArrayStack | LinkedListStack | ArrayQueue | LinkedListQueue =>
    exists l, s = StSeq l
  | HashSet | LinkedHashSet => SP.set_inv c s
  | TreeSet => SP.set_inv c s /\ MM.tsinv c s /\ ts_zero s
  | BinaryHeap | PriorityQueue => exists l, s = StHeap l /\ HP.heap_ok (kc c) l
  | CircularBuffer => exists r, s = StRing r /\ RP.ring_inv r /\ Ring.rmax r = cap_of c
  | HashMap | TreeMap | LinkedHashMap | RedBlackTree | AVLTree | BTree => MM.minv c s
  | HashBidiMap | TreeBidiMap => bidi_inv c s
  end.

Lemma config_ok_valid : forall c, config_ok c -> MM.map_kind (ckind c) = true -> MM.valid c.
Proof. intros c [Hb _] K. split; [exact K|exact Hb]. Qed.

Lemma puts_zero : forall cmp h l,
  (forall e, In e l -> snd e = 0) ->
  (forall o, In o h -> match o with MPut _ v => v = 0 | _ => True end) ->
  forall e, In e (fold_left (mstep cmp) h l) -> snd e = 0.
Proof.
  intros cmp. induction h as [|o h IH]; intros l Hl Hh e He; [apply Hl; exact He|].
  cbn [fold_left] in He. apply (IH (mstep cmp l o)); [| |exact He].
  - intros e1 He1. destruct o as [k1 v1|k1|]; cbn [mstep] in He1.
    + apply ins_list_In in He1. destruct He1 as [->|He1]; [|apply Hl; exact He1].
      cbn [snd]. exact (Hh (MPut k1 v1) (or_introl eq_refl)).
    + apply del_list_In in He1. apply Hl. exact He1.
    + destruct He1.
  - intros o' Ho'. apply Hh. right. exact Ho'.
Qed.

Lemma set_hist_zero : forall ops o, In o (MM.set_hist ops) -> match o with MPut _ v => v = 0 | _ => True end.
Proof.
  intros ops o Ho. unfold MM.set_hist in Ho. apply in_flat_map in Ho. destruct Ho as (op0 & _ & Ho).
  destruct op0; cbn [MM.set_hist1] in Ho; try contradiction.
  - unfold MM.puts in Ho. rewrite map_map in Ho. apply in_map_iff in Ho. destruct Ho as (y & <- & _). reflexivity.
  - apply in_map_iff in Ho. destruct Ho as (y & <- & _). exact I.
  - destruct Ho as [<-|[]]. exact I.
  - destruct d; cbn in Ho; try contradiction.
    + destruct Ho as [<-|[]]. exact I.
    + destruct Ho as [<-|Ho]; [exact I|]. unfold MM.puts in Ho. rewrite map_map in Ho.
      apply in_map_iff in Ho. destruct Ho as (y & <- & _). reflexivity.
Qed.

Theorem jinv_run : forall c ops, config_ok c -> jinv c (run c ops).
Proof.
  intros c ops Hc. unfold jinv.
  assert (Hseq : seq_kind (ckind c) = true -> exists l, run c ops = StSeq l).
  { intros K.
    assert (L : IterLinear.linear_state c (run c ops) = true).
    { apply IterLinear.run_linear; [destruct (ckind c); try discriminate K; reflexivity|].
      unfold IterLinear.ring_ok. destruct (ckind c); try discriminate K; reflexivity. }
    unfold IterLinear.linear_state in L. destruct (run c ops); try discriminate L;
      try (destruct (ckind c); discriminate). eexists. reflexivity. }
  assert (Hset : SP.is_set_kind (ckind c) = true -> SP.set_inv c (run c ops)).
  { intros K. apply SP.set_run. exact K. }
  assert (Hheap : is_heap_kind (ckind c) = true -> exists l, run c ops = StHeap l /\ HP.heap_ok (kc c) l).
  { intros K. apply C06Proofs.C06_heap_inv. exact K. }
  assert (Hmap : MM.map_kind (ckind c) = true -> MM.minv c (run c ops)).
  { intros K. apply MM.run_sim. apply config_ok_valid; assumption. }
  destruct (ckind c) eqn:K; try (apply Hseq; reflexivity); try (apply Hset; reflexivity);
    try (apply Hheap; reflexivity); try (apply Hmap; reflexivity);
    try (apply bidi_run; rewrite K; reflexivity).
  - (* TreeSet *)
    split; [apply Hset; reflexivity|].
    destruct (MM.treeset_refines c ops K) as [Hi E]. split; [exact Hi|].
    unfold MM.tsinv in Hi. destruct (run c ops); try contradiction. cbn [ts_zero entries_of] in *.
    rewrite E. unfold mrun. apply puts_zero; [intros e []|apply set_hist_zero].
  - (* CircularBuffer *)
    destruct Hc as [_ Hr]. destruct (C05Proofs.ring_run c K (Hr K) ops) as (r & E & H1 & H2 & _).
    exists r. auto.
Qed.

Lemma jinv_not_crash : forall c s, jinv c s -> s <> StCrash.
Proof.
  intros c s H E. subst s. unfold jinv in H.
  destruct (ckind c) eqn:K; try (destruct H as (l & H); discriminate H);
    try (destruct H as (l & H & _); discriminate H);
    try (unfold SP.set_inv in H; rewrite K in H; exact H);
    try (unfold bidi_inv in H; rewrite K in H; exact H);
    try (apply (MM.Generic.inv_not_crash _ c StCrash H); reflexivity).
  destruct H as (H & _). unfold SP.set_inv in H. rewrite K in H. exact H.
Qed.

Theorem run_not_crash : forall c ops, config_ok c -> run c ops <> StCrash.
Proof. intros c ops Hc. eapply jinv_not_crash. apply jinv_run. exact Hc. Qed.

(* ================================================================================================ *)
(* 6. observers as functions of the abstract content; equivalence of two states                     *)
(* ================================================================================================ *)
(* Full() of the circular buffer (printed inline by [observe]) *)
Definition full_of (s : state) : obs :=
  match s with StRing r => obool (Ring.rfullb r) | _ => ounsupported end.

(* everything a client can read off a container without iterating *)
Definition equiv_content (c : config) (s s' : state) : Prop :=
  size_of c s = size_of c s' /\
  values_of c s = values_of c s' /\
  keys_of c s = keys_of c s' /\
  entries_of c s = entries_of c s' /\
  to_json c s = to_json c s' /\
  (forall k, get_of c s k = get_of c s' k) /\
  (forall v, getkey_of c s v = getkey_of c s' v) /\
  (forall vs, contains_of c s vs = contains_of c s' vs) /\
  peek_of c s = peek_of c s' /\
  full_of s = full_of s'.
(* iteration order: the forward walk of a fresh iterator (what Each & co. range over), and the backward walk *)
Definition equiv_iter (c : config) (s s' : state) : Prop :=
  each_of c s = each_of c s' /\ each_back c s = each_back c s'.
Definition equivalent (c : config) (s s' : state) : Prop := equiv_content c s s' /\ equiv_iter c s s'.

Lemma equiv_content_refl : forall c s, equiv_content c s s.
Proof. intros c s. repeat split. Qed.
Lemma equivalent_refl : forall c s, equivalent c s s.
Proof. intros c s. repeat split. Qed.

(* ---------- the Generic lemmas of MachineMaps, instantiated ---------- *)
Lemma m_get_abs : forall c s k, MM.valid c -> MM.minv c s ->
  get_of c s k = oopt (option_map snd (find_list (MM.cmp_for c) k (MM.mabs c s))).
Proof. intros c s k Hv Hi. apply (MM.Generic.get_abs MM.btR); solve [MM.bt_hyp | assumption]. Qed.

Lemma m_size_abs : forall c s, MM.valid c -> MM.minv c s -> size_of c s = Z.of_nat (length (MM.mabs c s)).
Proof. intros c s Hv Hi. apply (MM.Generic.size_abs MM.btR); solve [MM.bt_hyp | assumption]. Qed.

Lemma m_values_entries : forall c s, MM.minv c s -> values_of c s = map snd (entries_of c s).
Proof. intros c s Hi. apply (MM.Generic.values_entries MM.btR). exact Hi. Qed.

Lemma m_abs_sorted : forall c s, MM.valid c -> MM.minv c s -> ksorted (MM.cmp_for c) (MM.mabs c s).
Proof. intros c s Hv Hi. apply (MM.Generic.abs_sorted MM.btR); solve [MM.bt_hyp | assumption]. Qed.

Lemma m_abs_entries : forall c s, MM.minv c s -> ckind c <> LinkedHashMap -> MM.mabs c s = entries_of c s.
Proof. intros c s Hi K. apply (MM.Generic.abs_entries MM.btR); assumption. Qed.

Lemma m_inv_init : forall c, MM.valid c -> MM.minv c (init c) /\ MM.mabs c (init c) = [].
Proof. intros c Hv. apply (MM.Generic.inv_init MM.btR); solve [MM.bt_hyp | assumption]. Qed.

Lemma m_put_entries_sim : forall c es s, MM.valid c -> MM.minv c s ->
  MM.minv c (put_entries c es s) /\
  MM.mabs c (put_entries c es s) = fold_left (mstep (MM.cmp_for c)) (MM.puts es) (MM.mabs c s).
Proof. intros c es s Hv Hi. apply (MM.Generic.put_entries_sim MM.btR); solve [MM.bt_hyp | assumption]. Qed.

(* ---------- the four search-tree kinds: same entries => same observations ---------- *)
Definition tree_kind (k : kind) : bool :=
  match k with TreeMap | RedBlackTree | AVLTree | BTree => true | _ => false end.

Lemma tree_kind_valid : forall c, config_ok c -> tree_kind (ckind c) = true -> MM.valid c.
Proof. intros c Hc K. apply config_ok_valid; [exact Hc|]. destruct (ckind c); try discriminate K; reflexivity. Qed.

Lemma tree_equiv_content : forall c s s', config_ok c -> tree_kind (ckind c) = true ->
  MM.minv c s -> MM.minv c s' -> entries_of c s = entries_of c s' -> equiv_content c s s'.
Proof.
  intros c s s' Hc K Hi Hi' E.
  pose proof (tree_kind_valid c Hc K) as Hv.
  assert (Kl : ckind c <> LinkedHashMap) by (intros F; rewrite F in K; discriminate K).
  assert (Ea : MM.mabs c s = MM.mabs c s') by (rewrite !m_abs_entries by assumption; exact E).
  assert (Hkv : is_kv (ckind c) = true) by (destruct (ckind c); try discriminate K; reflexivity).
  split; [rewrite !m_size_abs by assumption; rewrite Ea; reflexivity|].
  split; [rewrite !m_values_entries by assumption; rewrite E; reflexivity|].
  split; [unfold keys_of; rewrite E; reflexivity|].
  split; [exact E|].
  split.
  { rewrite !to_json_eq, Hkv. unfold json_members.
    unfold MM.minv, MM.Generic.inv in Hi, Hi'.
    destruct (ckind c) eqn:Kc; try discriminate K; destruct s; try contradiction; destruct s'; try contradiction;
      rewrite E; reflexivity. }
  split; [intros k; rewrite !m_get_abs by assumption; rewrite Ea; reflexivity|].
  unfold MM.minv, MM.Generic.inv in Hi, Hi'.
  destruct (ckind c) eqn:Kc; try discriminate K; destruct s; try contradiction; destruct s'; try contradiction;
    (split; [reflexivity|]); (split; [intros vs; unfold contains_of; rewrite ?Kc; reflexivity|]);
    (split; [unfold peek_of; rewrite ?Kc; reflexivity|reflexivity]).
Qed.

(* iteration order of the red-black and AVL kinds is the entry sequence *)
Lemma rb_avl_equiv_iter : forall c s s', ckind c = TreeMap \/ ckind c = RedBlackTree \/ ckind c = AVLTree ->
  MM.minv c s -> MM.minv c s' -> entries_of c s = entries_of c s' -> equiv_iter c s s'.
Proof.
  intros c s s' K Hi Hi' E. unfold MM.minv, MM.Generic.inv in Hi, Hi'. unfold equiv_iter.
  destruct K as [K|[K|K]]; rewrite K in Hi, Hi'; destruct s; try contradiction; destruct s'; try contradiction;
    cbn [entries_of] in E.
  - destruct Hi as (_ & _ & Hn). destruct Hi' as (_ & _ & Hn'). cbn [fst snd] in Hn, Hn'.
    rewrite <- RBMap.count_inorder in Hn, Hn'.
    rewrite !IterTreeRB.each_of_rb, !IterTreeRB.each_back_rb by (try assumption; rewrite K; discriminate).
    rewrite E. split; reflexivity.
  - destruct Hi as (_ & _ & Hn). destruct Hi' as (_ & _ & Hn'). cbn [fst snd] in Hn, Hn'.
    rewrite <- RBMap.count_inorder in Hn, Hn'.
    rewrite !IterTreeRB.each_of_rb, !IterTreeRB.each_back_rb by (try assumption; rewrite K; discriminate).
    rewrite E. split; reflexivity.
  - destruct Hi as (_ & _ & Hn). destruct Hi' as (_ & _ & Hn').
    rewrite <- AVLMap.count_inorder in Hn, Hn'.
    rewrite !IterTreeAVL.each_of_avl, !IterTreeAVL.each_back_avl by assumption.
    rewrite E. split; reflexivity.
Qed.

Lemma forallb_ext_eq : forall (A : Type) (f g : A -> bool) l, (forall x, f x = g x) -> forallb f l = forallb g l.
Proof. intros A f g l H. induction l as [|x l IH]; [reflexivity|]. cbn [forallb]. rewrite H, IH. reflexivity. Qed.

(* ---------- TreeSet ---------- *)
Lemma treeset_equivalent : forall c s s', ckind c = TreeSet -> jinv c s -> jinv c s' ->
  entries_of c s = entries_of c s' -> equivalent c s s'.
Proof.
  intros c s s' K Hj Hj' E. unfold jinv in Hj, Hj'. rewrite K in Hj, Hj'.
  destruct Hj as (Hs & _ & _). destruct Hj' as (Hs' & _ & _).
  unfold SP.set_inv in Hs, Hs'. rewrite K in Hs, Hs'.
  destruct s; try contradiction; destruct s'; try contradiction. cbn [entries_of] in E.
  destruct Hs as (_ & Hb & Hn). destruct Hs' as (_ & Hb' & Hn').
  assert (En : n = n0) by (rewrite Hn, Hn', !RBMap.count_inorder, E; reflexivity).
  assert (Ek : RB.keys t = RB.keys t0) by (unfold RB.keys; rewrite E; reflexivity).
  assert (El : forall x, RB.lookup (kc c) x t = RB.lookup (kc c) x t0).
  { intros x. rewrite !(RBMap.lookup_spec (kc c) (MM.kc_SWO c)) by assumption. rewrite E. reflexivity. }
  split.
  - split; [exact En|]. split; [cbn [values_of]; rewrite K; exact Ek|].
    split; [unfold keys_of; cbn [entries_of]; rewrite E; reflexivity|]. split; [exact E|].
    split; [unfold to_json; rewrite K; cbn [is_kv values_of]; rewrite K, Ek; reflexivity|].
    split; [intros k; cbn [get_of]; unfold rbs_get; cbn [fst]; rewrite El; reflexivity|].
    split; [reflexivity|].
    split; [intros vs; unfold contains_of; rewrite K; f_equal; apply forallb_ext_eq; intros x; rewrite El; reflexivity|].
    split; [unfold peek_of; rewrite ?K; reflexivity|reflexivity].
  - split.
    + rewrite !IterTreeRB.each_of_treeset by assumption. rewrite Ek. reflexivity.
    + rewrite !IterTreeRB.each_back_rb by assumption. rewrite E. reflexivity.
Qed.

(* ---------- TreeBidiMap ---------- *)
Lemma treebidi_equivalent : forall c s s', ckind c = TreeBidiMap -> bidi_inv c s -> bidi_inv c s' ->
  entries_of c s = entries_of c s' -> equivalent c s s'.
Proof.
  intros c s s' K Hi Hi' E. unfold bidi_inv in Hi, Hi'. rewrite K in Hi, Hi'.
  destruct s; try contradiction; destruct s'; try contradiction. cbn [entries_of] in E.
  destruct Hi as (Hf & Hv & HL). destruct Hi' as (Hf' & Hv' & HL').
  unfold tb_lists in HL, HL'. cbn [fst snd] in HL, HL'. rewrite <- E in HL'.
  pose proof (lbI_inverse_unique (kc c) (vc c) (vc_SWO c) _ _ _ HL HL') as Ei.
  destruct Hf as (_ & Hb & Hn). destruct Hf' as (_ & Hb' & Hn'). cbn [fst snd] in *.
  destruct Hv as (_ & Hbi & Hni). destruct Hv' as (_ & Hbi' & Hni'). cbn [fst snd] in *.
  assert (En : fn = fn0) by (rewrite Hn, Hn', E; reflexivity).
  assert (Eg : forall k, rbs_get (kc c) k (f, 0) = rbs_get (kc c) k (f0, 0)).
  { intros k. rewrite !(MM.rbs_get_spec (kc c) (MM.kc_SWO c)) by assumption. rewrite E. reflexivity. }
  assert (Egi : forall v, rbs_get (vc c) v (i, 0) = rbs_get (vc c) v (i0, 0)).
  { intros v. rewrite !(MM.rbs_get_spec (vc c) (vc_SWO c)) by assumption. rewrite Ei. reflexivity. }
  split.
  - split; [exact En|]. split; [cbn [values_of]; unfold RB.keys; rewrite Ei; reflexivity|].
    split; [unfold keys_of; cbn [entries_of]; rewrite E; reflexivity|]. split; [exact E|].
    split; [unfold to_json; rewrite K; cbn [is_kv entries_of]; rewrite E; reflexivity|].
    split; [intros k; cbn [get_of]; rewrite Eg; reflexivity|].
    split; [intros v; cbn [getkey_of]; rewrite Egi; reflexivity|].
    split; [intros vs; unfold contains_of; rewrite ?K; reflexivity|].
    split; [unfold peek_of; rewrite ?K; reflexivity|reflexivity].
  - rewrite <- RBMap.count_inorder in Hn, Hn'. split.
    + rewrite !IterTreeRB.each_of_treebidi by assumption. rewrite E. reflexivity.
    + rewrite !IterTreeRB.each_back_treebidi by assumption. rewrite E. reflexivity.
Qed.

(* ---------- CircularBuffer: same logical content => same observations ---------- *)
Definition ring_equiv (r1 r2 : Ring.ring) : Prop :=
  RP.ring_inv r1 /\ RP.ring_inv r2 /\ Ring.rmax r1 = Ring.rmax r2 /\ Ring.rvalues r1 = Ring.rvalues r2.

Lemma ring_equiv_size : forall r1 r2, ring_equiv r1 r2 -> Ring.rsize r1 = Ring.rsize r2.
Proof. intros r1 r2 (_ & _ & _ & E). rewrite !RP.rsize_abs, E. reflexivity. Qed.

Lemma ring_equivalent : forall c r1 r2, ckind c = CircularBuffer -> ring_equiv r1 r2 ->
  equivalent c (StRing r1) (StRing r2).
Proof.
  intros c r1 r2 K HR. pose proof (ring_equiv_size r1 r2 HR) as Es. destruct HR as (H1 & H2 & Em & Ev).
  split.
  - split; [cbn [size_of]; rewrite Es; reflexivity|]. split; [exact Ev|].
    split; [reflexivity|]. split; [reflexivity|].
    split; [unfold to_json; rewrite K; cbn [is_kv values_of]; rewrite Ev; reflexivity|].
    split; [reflexivity|]. split; [reflexivity|].
    split; [intros vs; unfold contains_of; rewrite ?K; reflexivity|].
    split; [cbn [peek_of]; rewrite !RP.rpeek_abs by assumption; rewrite Ev; reflexivity|].
    cbn [full_of]. rewrite !RP.rfull_abs by assumption. rewrite Ev, Em. reflexivity.
  - split; reflexivity.
Qed.

(* ================================================================================================ *)
(* 7. C11: the round trip                                                                           *)
(* ================================================================================================ *)
(* print the state, decode the document, load it into a fresh container of the same configuration *)
Definition reload (c : config) (s : state) : state * bool :=
  from_json c (decode_of (to_json c s)) (init c).

Lemma reload_eq : forall c s, config_ok c ->
  reload c s = if is_kv (ckind c)
               then (put_entries c (MM.json_entries c (json_members c s)) (init c), true)
               else (load_array c (json_values c s), true).
Proof.
  intros c s Hc. unfold reload. rewrite from_json_body_eq by (apply init_not_crash; exact Hc).
  unfold from_json_body. rewrite decode_to_json. destruct (is_kv (ckind c)); reflexivity.
Qed.

Lemma reload_ok : forall c s, config_ok c -> snd (reload c s) = true.
Proof. intros c s Hc. rewrite reload_eq by exact Hc. destruct (is_kv (ckind c)); reflexivity. Qed.

(* the reloaded container is itself a reachable state: every invariant holds of it *)
Lemma reload_reachable : forall c s, config_ok c ->
  fst (reload c s) = run c [FromJSON (decode_of (to_json c s))].
Proof.
  intros c s Hc. unfold run, run_from. cbn [fold_left].
  rewrite step_from_json_gen by (apply init_not_crash; exact Hc). reflexivity.
Qed.

Lemma reload_jinv : forall c s, config_ok c -> jinv c (fst (reload c s)).
Proof. intros c s Hc. rewrite reload_reachable by exact Hc. apply jinv_run. exact Hc. Qed.

(* ---------- helper lemmas for the linked kinds ---------- *)
Lemma order_ins_nodup : forall l acc, NoDup (acc ++ l) ->
  fold_left order_step (map EIns l) acc = acc ++ l.
Proof.
  induction l as [|k l IH]; intros acc Hnd; [rewrite app_nil_r; reflexivity|].
  cbn [map fold_left]. rewrite LP.order_ins_absent.
  - rewrite IH; rewrite <- app_assoc; [reflexivity|exact Hnd].
  - apply NoDup_remove_2 in Hnd. intros Hin. apply Hnd. apply in_or_app. left. exact Hin.
Qed.

Lemma lset_rebuild : forall tbl ord, SP.lset_inv tbl ord ->
  fold_left (fun acc x => lset_add1 x acc) ord ([], []) = (tbl, ord).
Proof.
  intros tbl ord (Hs & Hnd & Hm).
  destruct (SP.ls_adds_spec ord [] [] SP.lset_inv_nil) as (t' & o' & E & (Hs' & _ & _) & M & O).
  unfold SP.ls_adds in E. rewrite E. f_equal.
  - apply zasc_ext; [exact Hs'|exact Hs|]. intros z.
    rewrite <- SP.sp_smem_In, M, <- SP.sp_smem_eqvb. cbn [smem existsb]. rewrite orb_false_r.
    fold (smem z ord). rewrite SP.sp_smem_In. symmetry. apply Hm.
  - rewrite O. apply (order_ins_nodup ord []). exact Hnd.
Qed.

Lemma dedup_last_id : forall all es seen, NoDup (map fst es) ->
  (forall e, In e es -> ~ In (fst e) seen) ->
  (forall e, In e es -> hget (fst e) (sort_entries all) = Some (snd e)) ->
  dedup_last es seen all = es.
Proof.
  intros all. induction es as [|[k v] es IH]; intros seen Hnd Hs Hg; [reflexivity|].
  cbn [dedup_last]. destruct (existsb (Z.eqb k) seen) eqn:X.
  - exfalso. apply existsb_exists in X. destruct X as (y & Hy & He). apply Z.eqb_eq in He. subst y.
    exact (Hs (k, v) (or_introl eq_refl) Hy).
  - pose proof (Hg (k, v) (or_introl eq_refl)) as Hgk. cbn [fst snd] in Hgk. rewrite Hgk. f_equal. cbn [map fst] in Hnd. apply IH.
    + inversion Hnd; assumption.
    + intros e He [E|Hin].
      * apply NoDup_cons_iff in Hnd. destruct Hnd as [Hx _]. apply Hx. rewrite E. apply in_map. exact He.
      * exact (Hs e (or_intror He) Hin).
    + intros e He. apply Hg. right. exact He.
Qed.

Lemma lmap_entries_keys : forall tbl ord, map fst (lmap_entries tbl ord) = ord.
Proof. intros tbl ord. unfold lmap_entries. rewrite map_map. cbn [fst]. apply map_id. Qed.

Lemma lmap_rebuild : forall tbl ord, MM.lmI (tbl, ord) ->
  let es := lmap_entries tbl ord in
  dedup_last es [] es = es /\
  fold_left (fun acc e => lmap_put (fst e) (snd e) acc) es ([], []) = (tbl, ord).
Proof.
  intros tbl ord HI es. pose proof HI as (Hs & Hnd & Hk). cbn [fst snd] in *.
  assert (Hm : forall e, In e es <-> In e tbl).
  { intros e. pose proof (MM.lmap_entries_perm tbl ord HI) as P. split; intros H.
    - eapply Permutation_in; [exact P|exact H].
    - eapply Permutation_in; [apply Permutation_sym; exact P|exact H]. }
  assert (Et : sort_entries es = tbl).
  { rewrite sort_entries_inss. apply (inss_rebuild Z.compare Zcompare_SWO); assumption. }
  assert (Ek : map fst es = ord) by apply lmap_entries_keys.
  split.
  - apply dedup_last_id.
    + rewrite Ek. exact Hnd.
    + intros e _ [].
    + intros [k v] He. rewrite Et. cbn [fst snd]. apply SP.sp_hget_In; [exact Hs|]. apply Hm. exact He.
  - destruct (LP.lm_puts_spec es [] [] LP.lmap_inv_nil) as (t' & E & _ & T).
    unfold LP.lm_puts in E. rewrite E. f_equal.
    + rewrite T. exact Et.
    + rewrite Ek. apply (order_ins_nodup ord []). exact Hnd.
Qed.

(* ---------- the kinds whose reloaded STATE is the very same state ---------- *)
Definition state_equal_kind (k : kind) : bool :=
  match k with
  | TreeSet | TreeMap | RedBlackTree | AVLTree | BTree | TreeBidiMap | CircularBuffer => false
  | _ => true
  end.

Lemma sll_add_nil : forall vs, sll_add vs [] = vs.
Proof. intros vs. rewrite C05Proofs.sll_add_app. reflexivity. Qed.

Theorem reload_state_equal : forall c s, config_ok c -> state_equal_kind (ckind c) = true -> jinv c s ->
  reload c s = (s, true).
Proof.
  intros c s Hc K Hj. rewrite reload_eq by exact Hc. unfold jinv in Hj.
  destruct (ckind c) eqn:Kc; try discriminate K; cbn [is_kv].
  - (* ArrayList *) destruct Hj as (l & ->). unfold load_array. rewrite Kc. reflexivity.
  - (* SinglyLinkedList *) destruct Hj as (l & ->). unfold load_array, add_values, init. rewrite Kc.
    cbn [json_values]. rewrite sll_add_nil. reflexivity.
  - (* DoublyLinkedList *) destruct Hj as (l & ->). unfold load_array, add_values, init. rewrite Kc.
    cbn [json_values]. unfold dll_add. rewrite sll_add_nil. reflexivity.
  - (* HashSet *)
    unfold SP.set_inv in Hj. rewrite Kc in Hj. destruct s; try contradiction.
    unfold load_array, add_values, init. rewrite Kc. cbn [json_values values_of].
    rewrite hs_adds_rebuild by exact Hj. reflexivity.
  - (* LinkedHashSet *)
    unfold SP.set_inv in Hj. rewrite Kc in Hj. destruct s; try contradiction.
    unfold load_array, add_values, init. rewrite Kc. cbn [json_values values_of].
    rewrite (lset_rebuild tbl ord Hj). reflexivity.
  - (* ArrayStack *) destruct Hj as (l & ->). unfold load_array. rewrite Kc. reflexivity.
  - (* LinkedListStack *) destruct Hj as (l & ->). unfold load_array, add_values, init. rewrite Kc.
    cbn [json_values]. rewrite sll_add_nil. reflexivity.
  - (* HashMap *)
    unfold MM.minv, MM.Generic.inv in Hj. rewrite Kc in Hj. destruct s; try contradiction.
    unfold MM.json_entries, put_entries, init. rewrite Kc. cbn [json_members entries_of].
    rewrite !(sort_entries_id l Hj). f_equal. f_equal. exact (sort_entries_id l Hj).
  - (* LinkedHashMap *)
    unfold MM.minv, MM.Generic.inv in Hj. rewrite Kc in Hj. destruct s; try contradiction.
    unfold MM.json_entries, put_entries, init. rewrite Kc. cbn [json_members].
    destruct (lmap_rebuild tbl ord Hj) as [E1 E2]. cbv zeta in E1, E2. rewrite E1, E2. reflexivity.
  - (* HashBidiMap *)
    unfold bidi_inv in Hj. rewrite Kc in Hj. destruct s; try contradiction.
    unfold MM.json_entries, put_entries, init. rewrite Kc. cbn [json_members entries_of].
    destruct Hj as (Hf & Hi & Hm).
    rewrite !(sort_entries_id f Hf). rewrite hbidi_puts_lb.
    match goal with |- context [lb_puts ?a ?b ?d ?e] => replace (lb_puts a b d e) with (f, i) end; [reflexivity|].
    symmetry. apply (lb_puts_rebuild Z.compare Z.compare Zcompare_SWO Zcompare_SWO f i f); [|tauto].
    split; [exact Hf|]. split; [exact Hi|exact Hm].
  - (* BinaryHeap *)
    destruct Hj as (l & -> & Hok). unfold load_array. rewrite Kc. cbn [json_values].
    rewrite HP.heapify_id by exact Hok. reflexivity.
  - (* ArrayQueue *) destruct Hj as (l & ->). unfold load_array. rewrite Kc. reflexivity.
  - (* LinkedListQueue *) destruct Hj as (l & ->). unfold load_array, add_values, init. rewrite Kc.
    cbn [json_values]. rewrite sll_add_nil. reflexivity.
  - (* PriorityQueue *)
    destruct Hj as (l & -> & Hok). unfold load_array. rewrite Kc. cbn [json_values].
    rewrite HP.heapify_id by exact Hok. reflexivity.
Qed.

(* ---------- the search trees: the reloaded tree has the same entries ---------- *)
Lemma reload_tree_entries : forall c s, config_ok c -> tree_kind (ckind c) = true -> MM.minv c s ->
  entries_of c (fst (reload c s)) = entries_of c s /\ MM.minv c (fst (reload c s)).
Proof.
  intros c s Hc K Hi. pose proof (tree_kind_valid c Hc K) as Hv.
  assert (Kl : ckind c <> LinkedHashMap) by (intros F; rewrite F in K; discriminate K).
  assert (Hkv : is_kv (ckind c) = true) by (destruct (ckind c); try discriminate K; reflexivity).
  assert (Ej : MM.json_entries c (json_members c s) = sort_entries (entries_of c s)).
  { unfold MM.json_entries, json_members. unfold MM.minv, MM.Generic.inv in Hi.
    destruct (ckind c); try discriminate K; destruct s; try contradiction; apply sort_entries_idem. }
  rewrite reload_eq by exact Hc. rewrite Hkv. cbn [fst]. rewrite Ej.
  destruct (m_inv_init c Hv) as [Hi0 Ha0].
  destruct (m_put_entries_sim c (sort_entries (entries_of c s)) (init c) Hv Hi0) as [Hi' Ha'].
  split; [|exact Hi'].
  rewrite <- (m_abs_entries c _ Hi' Kl), Ha', Ha0, <- inss_mstep.
  rewrite <- (m_abs_entries c s Hi Kl).
  apply reinsert_sorted; [apply MM.cmp_for_SWO|]. apply m_abs_sorted; assumption.
Qed.

(* ---------- TreeSet ---------- *)
Lemma reload_treeset_entries : forall c s, ckind c = TreeSet -> jinv c s -> config_ok c ->
  entries_of c (fst (reload c s)) = entries_of c s.
Proof.
  intros c s K Hj Hc. rewrite reload_eq by exact Hc. rewrite K. cbn [is_kv fst].
  unfold jinv in Hj. rewrite K in Hj. destruct Hj as (_ & Hi & Hz).
  unfold MM.tsinv in Hi. destruct s; try contradiction. cbn [ts_zero] in Hz.
  unfold load_array, add_values, init. rewrite K. cbn [json_values values_of]. rewrite K.
  assert (Ees : map (fun x => (x, 0)) (RB.keys t) = RB.inorder t).
  { unfold RB.keys. rewrite map_map. rewrite <- (map_id (RB.inorder t)) at 2. apply map_ext_in.
    intros [k v] He. cbn [fst]. rewrite <- (Hz (k, v) He). reflexivity. }
  rewrite Ees.
  destruct (MM.rbs_puts_sim (kc c) (MM.kc_SWO c) (RB.inorder t) rbs_empty (MM.rbI_empty (kc c)))
    as ([t' n'] & E & _ & I). unfold rbs_empty in E. rewrite E. cbn [entries_of fst] in *.
  rewrite I. cbn [RB.inorder]. rewrite <- inss_mstep.
  apply (inss_rebuild (kc c) (MM.kc_SWO c)); [apply Hi|tauto].
Qed.

(* ---------- TreeBidiMap ---------- *)
Lemma reload_treebidi_entries : forall c s, ckind c = TreeBidiMap -> bidi_inv c s -> config_ok c ->
  entries_of c (fst (reload c s)) = entries_of c s.
Proof.
  intros c s K Hi Hc. rewrite reload_eq by exact Hc. rewrite K. cbn [is_kv fst].
  unfold bidi_inv in Hi. rewrite K in Hi. destruct s; try contradiction.
  unfold MM.json_entries, put_entries, init. rewrite K. cbn [json_members entries_of].
  rewrite sort_entries_idem.
  destruct (tbidi_puts_sim (kc c) (vc c) (MM.kc_SWO c) (vc_SWO c) (sort_entries (RB.inorder f))
              (rbs_empty, rbs_empty) (tbI_empty (kc c) (vc c))) as ([[f' fn'] [i' inn']] & E & _ & L).
  match goal with |- context [tbidi_puts ?a ?b ?d ?e] =>
    replace (tbidi_puts a b d e) with (Some (f', fn', (i', inn'))) by (symmetry; exact E) end.
  cbn [entries_of].
  destruct Hi as (Hf & _ & HL). unfold tb_lists in HL, L. cbn [fst snd RB.inorder] in HL, L.
  rewrite (lb_puts_rebuild (kc c) (vc c) (MM.kc_SWO c) (vc_SWO c) (RB.inorder f) (RB.inorder i)) in L.
  - inversion L. reflexivity.
  - exact HL.
  - apply sort_entries_In. apply (ksorted_kinjZ (kc c) (MM.kc_SWO c)). apply Hf.
Qed.

(* ---------- CircularBuffer: the reloaded ring starts at 0 and has the same logical content ---------- *)
Lemma reload_ring : forall c r, ckind c = CircularBuffer -> config_ok c ->
  RP.ring_inv r -> Ring.rmax r = cap_of c ->
  exists r', reload c (StRing r) = (StRing r', true) /\ ring_equiv r r' /\ Ring.rstart r' = 0%nat.
Proof.
  intros c r K Hc Hi Hm. rewrite reload_eq by exact Hc. rewrite K. cbn [is_kv].
  destruct Hc as [_ Hr]. specialize (Hr K).
  assert (H05 : c05_config c) by (apply C05Proofs.ring_config; assumption).
  unfold load_array. rewrite K, (C05Proofs.init_ring c K H05). cbn [json_values values_of].
  rewrite C05Proofs.ring_enqs_renqs.
  pose proof (RP.rinit_inv (cap_of c) (C05Proofs.cap_pos c K H05)) as Hi0.
  exists (RP.renqs (Ring.rvalues r) (Ring.rinit (cap_of c))). split; [reflexivity|]. split.
  - split; [exact Hi|]. split; [apply RP.renqs_inv; exact Hi0|].
    split; [rewrite RP.renqs_max; exact Hm|].
    rewrite RP.renqs_abs by exact Hi0. rewrite RP.rinit_abs. cbn [app Ring.rmax Ring.rinit].
    symmetry. apply RP.lastn_all. rewrite <- Hm. apply RP.rvalues_bounded. exact Hi.
  - (* enqueueing never moves the start of a ring that is not full, and a ring of at most cap
       elements never becomes over-full: stated via the closed form below *)
    assert (G : forall vs r0, RP.ring_inv r0 -> Ring.rstart r0 = 0%nat ->
                (length (Ring.rvalues r0) + length vs <= Ring.rmax r0)%nat ->
                Ring.rstart (RP.renqs vs r0) = 0%nat).
    { induction vs as [|v vs IH]; intros r0 H0 S0 L0; [exact S0|].
      cbn [RP.renqs]. cbn [length] in L0. apply IH.
      - apply RP.renq_inv. exact H0.
      - unfold Ring.renq. rewrite (RP.rsize_abs r0).
        destruct (Nat.eqb_spec (length (Ring.rvalues r0)) (Ring.rmax r0)) as [Efull|_]; [lia|].
        cbn [Ring.rstart]. exact S0.
      - rewrite RP.renq_abs by exact H0. rewrite RP.lastn_all by (rewrite app_length; cbn [length]; lia).
        rewrite app_length, RP.renq_max. cbn [length]. lia. }
    apply G; [exact Hi0|reflexivity|].
    rewrite RP.rinit_abs. cbn [length Ring.rmax Ring.rinit]. rewrite <- Hm.
    pose proof (RP.rvalues_bounded r Hi). lia.
Qed.

(* ---------- all kinds ---------- *)
Lemma reload_equiv : forall c s, config_ok c -> jinv c s ->
  equiv_content c s (fst (reload c s)) /\ (ckind c <> BTree -> equiv_iter c s (fst (reload c s))).
Proof.
  intros c s Hc Hj. pose proof (reload_jinv c s Hc) as Hj'.
  destruct (state_equal_kind (ckind c)) eqn:Kse.
  { rewrite (reload_state_equal c s Hc Kse Hj). cbn [fst]. split; [apply equiv_content_refl|].
    intros _. split; reflexivity. }
  destruct (tree_kind (ckind c)) eqn:Kt.
  { assert (Hm : MM.minv c s) by (unfold jinv in Hj; destruct (ckind c); try discriminate Kt; exact Hj).
    destruct (reload_tree_entries c s Hc Kt Hm) as [E Hm']. symmetry in E.
    split; [apply tree_equiv_content; assumption|]. intros Kb.
    apply rb_avl_equiv_iter; try assumption.
    destruct (ckind c); try discriminate Kt; tauto. }
  destruct (ckind c) eqn:K; try discriminate Kse; try discriminate Kt.
  - (* TreeSet *)
    pose proof (reload_treeset_entries c s K) as E. unfold jinv in E. rewrite K in E.
    unfold jinv in Hj, Hj'. rewrite K in Hj, Hj'. specialize (E Hj Hc). symmetry in E.
    assert (HE : equivalent c s (fst (reload c s))).
    { apply treeset_equivalent; [exact K| | |exact E]; unfold jinv; rewrite K; assumption. }
    split; [apply HE|intros _; apply HE].
  - (* TreeBidiMap *)
    unfold jinv in Hj, Hj'. rewrite K in Hj, Hj'.
    pose proof (reload_treebidi_entries c s K Hj Hc) as E. symmetry in E.
    assert (HE : equivalent c s (fst (reload c s))) by (apply treebidi_equivalent; assumption).
    split; [apply HE|intros _; apply HE].
  - (* CircularBuffer *)
    unfold jinv in Hj. rewrite K in Hj. destruct Hj as (r & -> & Hi & Hm).
    destruct (reload_ring c r K Hc Hi Hm) as (r' & E & HR & _). rewrite E. cbn [fst].
    assert (HE : equivalent c (StRing r) (StRing r')) by (apply ring_equivalent; assumption).
    split; [apply HE|intros _; apply HE].
Qed.

(* the iteration clause for BTree as an explicit premise; it is a theorem ([bt_iter_ok_proof], section 14,
   from Proofs/IterTreeMachine.v), which gives [C11_roundtrip_all_proof] *)
Definition bt_iter_ok : Prop :=
  forall c ops, ckind c = BTree -> 3 <= corder c ->
    each_of c (run c ops) = Some (entries_of c (run c ops)) /\
    each_back c (run c ops) = Some (rev (entries_of c (run c ops))).

(* C11, state equality where it holds *)
Theorem C11_state_equal_proof : forall c ops, config_ok c -> state_equal_kind (ckind c) = true ->
  reload c (run c ops) = (run c ops, true).
Proof. intros c ops Hc K. apply reload_state_equal; [exact Hc|exact K|apply jinv_run; exact Hc]. Qed.

(* C11 for all 21 kinds, without the iteration clause *)
Theorem C11_roundtrip_content_proof : forall c ops, config_ok c ->
  let s := run c ops in
  let '(s', ok) := reload c s in
  ok = true /\ equiv_content c s s'.
Proof.
  intros c ops Hc s. pose proof (reload_ok c s Hc) as Hok.
  destruct (reload_equiv c s Hc (jinv_run c ops Hc)) as [H _].
  destruct (reload c s) as [s' ok]. cbn [fst snd] in *. split; assumption.
Qed.

(* C11 with the iteration clause: all kinds except BTree *)
Theorem C11_roundtrip_proof : forall c ops, config_ok c -> ckind c <> BTree ->
  let s := run c ops in
  let '(s', ok) := reload c s in
  ok = true /\ equivalent c s s'.
Proof.
  intros c ops Hc Kb s. pose proof (reload_ok c s Hc) as Hok.
  destruct (reload_equiv c s Hc (jinv_run c ops Hc)) as [H1 H2]. specialize (H2 Kb).
  destruct (reload c s) as [s' ok]. cbn [fst snd] in *. split; [assumption|]. split; assumption.
Qed.

(* C11 in full for every kind, given the B-tree iterator theorem *)
Theorem C11_roundtrip_full_proof : bt_iter_ok -> forall c ops, config_ok c ->
  let s := run c ops in
  let '(s', ok) := reload c s in
  ok = true /\ equivalent c s s'.
Proof.
  intros Hbt c ops Hc s. pose proof (reload_ok c s Hc) as Hok.
  destruct (reload_equiv c s Hc (jinv_run c ops Hc)) as [H1 H2].
  pose proof (reload_reachable c s Hc) as Hr.
  destruct (reload c s) as [s' ok]. cbn [fst snd] in *. split; [assumption|]. split; [assumption|].
  assert (D : {ckind c = BTree} + {ckind c <> BTree}) by (destruct (ckind c); (left; reflexivity) || (right; discriminate)).
  destruct D as [K|K]; [|apply H2; exact K].
  destruct Hc as [Hb _]. specialize (Hb K).
  destruct (Hbt c ops K Hb) as [F1 B1].
  destruct (Hbt c [FromJSON (decode_of (to_json c s))] K Hb) as [F2 B2].
  rewrite <- Hr in F2, B2. fold s in F1, B1.
  destruct H1 as (_ & _ & _ & E & _). unfold equiv_iter. rewrite F1, B1, F2, B2, E. split; reflexivity.
Qed.

(* ================================================================================================ *)
(* 8. C11: the reloaded container behaves the same from then on                                     *)
(* ================================================================================================ *)
(* the answers of a sequence of further operations *)
Fixpoint results_from (c : config) (s : state) (ops : list op) : list obs :=
  match ops with
  | [] => []
  | o :: ops' => snd (fst (step c s o)) :: results_from c (fst (fst (step c s o))) ops'
  end.

Lemma run_from_cons : forall c s o ops, run_from c s (o :: ops) = run_from c (fst (fst (step c s o))) ops.
Proof. reflexivity. Qed.

(* two ring states with the same logical content (C05's simulation relation [R] with the same
   abstract queue) answer every operation alike and stay related *)
Lemma ring_step_sim : forall c s1 s2 q o, ckind c = CircularBuffer -> c05_config c ->
  C05Proofs.R c s1 q -> C05Proofs.R c s2 q ->
  snd (fst (step c s1 o)) = snd (fst (step c s2 o)) /\
  exists q', C05Proofs.R c (fst (fst (step c s1 o))) q' /\ C05Proofs.R c (fst (fst (step c s2 o))) q'.
Proof.
  intros c s1 s2 q o K Hc R1 R2.
  destruct (C05Proofs.R_step c s1 q o Hc R1) as (N1 & S1 & _).
  destruct (C05Proofs.R_step c s2 q o Hc R2) as (N2 & S2 & _).
  split; [|eexists; split; eassumption].
  destruct (c05_specified o) eqn:Sp; [rewrite S1, S2 by reflexivity; reflexivity|].
  destruct o; try discriminate Sp.
  pose proof (C05Proofs.R_values c s1 q R1) as V1. pose proof (C05Proofs.R_values c s2 q R2) as V2.
  unfold C05Proofs.R in R1, R2. rewrite K in R1, R2.
  destruct R1 as (r1 & -> & _). destruct R2 as (r2 & -> & _).
  cbn [step pure fst snd]. rewrite !IterLinear.iter_CircularBuffer, V1, V2. reflexivity.
Qed.

Lemma ring_results_sim : forall c more s1 s2 q, ckind c = CircularBuffer -> c05_config c ->
  C05Proofs.R c s1 q -> C05Proofs.R c s2 q ->
  results_from c s1 more = results_from c s2 more /\
  exists q', C05Proofs.R c (run_from c s1 more) q' /\ C05Proofs.R c (run_from c s2 more) q'.
Proof.
  intros c more. induction more as [|o more IH]; intros s1 s2 q K Hc R1 R2.
  - split; [reflexivity|]. exists q. split; assumption.
  - destruct (ring_step_sim c s1 s2 q o K Hc R1 R2) as (E & q' & R1' & R2').
    cbn [results_from]. rewrite !run_from_cons. rewrite E.
    destruct (IH _ _ q' K Hc R1' R2') as (E' & Q). rewrite E'. split; [reflexivity|exact Q].
Qed.

Lemma R_ring_equiv : forall c s1 s2 q, ckind c = CircularBuffer ->
  C05Proofs.R c s1 q -> C05Proofs.R c s2 q ->
  exists r1 r2, s1 = StRing r1 /\ s2 = StRing r2 /\ ring_equiv r1 r2.
Proof.
  intros c s1 s2 q K R1 R2. unfold C05Proofs.R in R1, R2. rewrite K in R1, R2.
  destruct R1 as (r1 & -> & I1 & M1 & V1). destruct R2 as (r2 & -> & I2 & M2 & V2).
  exists r1, r2. split; [reflexivity|]. split; [reflexivity|].
  split; [exact I1|]. split; [exact I2|]. split; congruence.
Qed.

(* the kinds C11's "same subsequent Pop/Dequeue sequence" is about are among these *)
Definition future_kind (k : kind) : bool := state_equal_kind k || match k with CircularBuffer => true | _ => false end.

(* C11: ANY further operation sequence gets the same answers from the reloaded container as from the
   original, and the two containers stay equivalent *)
Theorem C11_same_future_proof : forall c ops more, config_ok c -> future_kind (ckind c) = true ->
  let s := run c ops in
  let s' := fst (reload c s) in
  results_from c s' more = results_from c s more /\
  equivalent c (run_from c s more) (run_from c s' more).
Proof.
  intros c ops more Hc K s s'. pose proof (jinv_run c ops Hc) as Hj. fold s in Hj.
  destruct (state_equal_kind (ckind c)) eqn:Kse.
  - unfold s'. rewrite (reload_state_equal c s Hc Kse Hj). cbn [fst]. split; [reflexivity|apply equivalent_refl].
  - unfold future_kind in K. rewrite Kse in K. cbn [orb] in K.
    assert (Kr : ckind c = CircularBuffer) by (destruct (ckind c); try discriminate K; reflexivity).
    unfold jinv in Hj. rewrite Kr in Hj. destruct Hj as (r & Es & Hi & Hm).
    destruct (reload_ring c r Kr Hc Hi Hm) as (r' & E & (_ & Hi' & Hm' & Hv') & _).
    unfold s'. rewrite Es, E. cbn [fst].
    assert (H05 : c05_config c) by (apply C05Proofs.ring_config; [exact Kr|apply Hc; exact Kr]).
    assert (R1 : C05Proofs.R c (StRing r) (Ring.rvalues r)) by (apply C05Proofs.R_ring_intro; auto).
    assert (R2 : C05Proofs.R c (StRing r') (Ring.rvalues r)).
    { apply C05Proofs.R_ring_intro; auto. congruence. }
    destruct (ring_results_sim c more _ _ _ Kr H05 R1 R2) as (Er & q' & Q1 & Q2).
    split; [symmetry; exact Er|].
    destruct (R_ring_equiv c _ _ q' Kr Q1 Q2) as (r1 & r2 & -> & -> & HR).
    apply ring_equivalent; assumption.
Qed.

(* in particular: the next n removals hand out the same elements in the same order *)
Definition remove_op_of (k : kind) : op :=
  match k with ArrayStack | LinkedListStack | BinaryHeap => Pop | _ => Dequeue end.

Theorem C11_same_removals_proof : forall c ops n, config_ok c -> future_kind (ckind c) = true ->
  let s := run c ops in
  results_from c (fst (reload c s)) (repeat (remove_op_of (ckind c)) n) =
  results_from c s (repeat (remove_op_of (ckind c)) n).
Proof. intros c ops n Hc K s. apply (C11_same_future_proof c ops _ Hc K). Qed.

(* ================================================================================================ *)
(* 9. C12                                                                                           *)
(* ================================================================================================ *)
(* ---------- null, [] and {} ---------- *)
Lemma load_array_nil : forall c, load_array c [] = init c.
Proof.
  intros c. unfold load_array, add_values, init.
  destruct (ckind c); try reflexivity; destruct (_ <? _); reflexivity.
Qed.

Lemma put_entries_nil : forall c s, put_entries c [] s = s.
Proof. intros c s. destruct s; reflexivity. Qed.

Lemma json_entries_nil : forall c, MM.json_entries c [] = [].
Proof. intros c. unfold MM.json_entries. destruct (ckind c); reflexivity. Qed.

Theorem C12_null_empty_proof : forall c s, s <> StCrash ->
  from_json c DNull s = (init c, true) /\
  (is_kv (ckind c) = false -> from_json c (DArr []) s = (init c, true)) /\
  (is_kv (ckind c) = true -> from_json c (DObj []) s = (init c, true)).
Proof.
  intros c s Hs. rewrite !(from_json_body_eq c _ s Hs). unfold from_json_body.
  destruct (is_kv (ckind c)).
  - split; [reflexivity|]. split; [discriminate|]. intros _.
    rewrite json_entries_nil, put_entries_nil. reflexivity.
  - rewrite load_array_nil. split; [reflexivity|]. split; [reflexivity|discriminate].
Qed.

(* ---------- the loaded state is reachable without FromJSON ---------- *)
Definition is_from_json (o : op) : bool := match o with FromJSON _ => true | _ => false end.

Definition put_ops (es : list (Z * Z)) : list op := map (fun e => Put (fst e) (snd e)) es.

(* the insert operations that rebuild the loaded state from the empty container *)
Definition load_ops (c : config) (d : decoded) : list op :=
  match d with
  | DArr vs =>
    match ckind c with
    | ArrayList | SinglyLinkedList | DoublyLinkedList | HashSet | TreeSet | LinkedHashSet => [Add vs]
    | ArrayStack => map Push vs
    | LinkedListStack => map Push (rev vs)
    | ArrayQueue | LinkedListQueue | CircularBuffer => map Enqueue vs
    | BinaryHeap => [PushAll vs]
    | PriorityQueue => map Enqueue (Heap.heapify_from (kc c) vs (length vs / 2 + 1))
    | _ => []
    end
  | DObj kvs => put_ops (MM.json_entries c kvs)
  | _ => []
  end.

Lemma load_ops_no_from_json : forall c d o, In o (load_ops c d) -> is_from_json o = false.
Proof.
  intros c d o H. unfold load_ops, put_ops in H. destruct d; try contradiction.
  - destruct (ckind c); try contradiction;
      try (destruct H as [<-|[]]; reflexivity);
      try (apply in_map_iff in H; destruct H as (x & <- & _); reflexivity).
  - apply in_map_iff in H. destruct H as (x & <- & _). reflexivity.
Qed.

Lemma run_from_crash : forall c ops, run_from c StCrash ops = StCrash.
Proof. intros c ops. induction ops as [|o ops IH]; [reflexivity|]. rewrite run_from_cons. exact IH. Qed.

(* loading the members one Put at a time *)
Lemma put_entries_run : forall c, is_kv (ckind c) = true -> forall es s,
  put_entries c es s = run_from c s (put_ops es).
Proof.
  intros c Hkv. induction es as [|[k v] es IH]; intros s; [apply put_entries_nil|].
  unfold put_ops. cbn [map fst snd]. rewrite run_from_cons. fold (put_ops es). rewrite <- IH.
  destruct s; try reflexivity; cbn [put_entries step fst].
  - (* StRB *)
    destruct (ckind c) eqn:K; try discriminate Hkv; cbn [rbs_puts];
      (destruct (rbs_put (kc c) k v (t, n)) as [[t' n']|]; reflexivity).
  - (* StAVL *)
    cbn [avl_puts]. destruct (avl_put (kc c) k v t n) as [[t' n']|]; reflexivity.
  - (* StBT *)
    cbn [bt_puts]. destruct (bt_put (bt_m c) (kc c) k v r n) as [[r' n']|]; reflexivity.
  - (* StLMap *)
    cbn [fold_left fst snd]. destruct (lmap_put k v (tbl, ord)) as [t' o']. reflexivity.
  - (* StTBidi *)
    cbn [tbidi_puts]. destruct (tbidi_put (kc c) (vc c) k v (f, fn, (i, inn))) as [[[f' fn'] [i' inn']]|]; reflexivity.
Qed.

(* pushing the elements of a valid heap array in array order rebuilds that array: no element moves *)
Lemma pushes_in_order : forall cmp suf pre, HP.heap_ok cmp (pre ++ suf) ->
  fold_left (fun h v => Heap.push cmp [v] h) suf pre = pre ++ suf.
Proof.
  intros cmp. induction suf as [|v suf IH]; intros pre Hok; [rewrite app_nil_r; reflexivity|].
  cbn [fold_left].
  assert (E : Heap.push cmp [v] pre = pre ++ [v]).
  { unfold Heap.push. cbv zeta. rewrite app_length. cbn [length].
    replace (length pre + 1 - 1)%nat with (length pre) by lia.
    replace (length pre + 1)%nat with (S (length pre)) by lia.
    rewrite HP.bubble_up_S. destruct (Nat.ltb_spec 0 (length pre)) as [Hpos|_]; [|reflexivity].
    assert (G : Heap.gt cmp (get (pre ++ [v]) ((length pre - 1) / 2)) (get (pre ++ [v]) (length pre)) = false).
    { apply HP.gt_false.
      assert (Hlen : (length pre < length (pre ++ v :: suf))%nat) by (rewrite app_length; cbn [length]; lia).
      pose proof (Hok (length pre) (conj Hpos Hlen)) as H.
      replace (pre ++ v :: suf) with ((pre ++ [v]) ++ suf) in H by (rewrite <- app_assoc; reflexivity).
      assert (Hd : ((length pre - 1) / 2 < length pre)%nat).
      { apply Nat.div_lt_upper_bound; lia. }
      assert (Hl1 : (length (pre ++ [v]) = length pre + 1)%nat) by (rewrite app_length; reflexivity).
      rewrite (HP.get_app_l (pre ++ [v]) suf ((length pre - 1) / 2)) in H by lia.
      rewrite (HP.get_app_l (pre ++ [v]) suf (length pre)) in H by lia. exact H. }
    rewrite G. reflexivity. }
  rewrite E. rewrite IH; rewrite <- app_assoc; [reflexivity|exact Hok].
Qed.

(* one-step facts, by kind *)
Lemma step_push_astack : forall c l v, ckind c = ArrayStack -> fst (fst (step c (StSeq l) (Push v))) = StSeq (l ++ [v]).
Proof. intros c l v K. unfold step. rewrite K. reflexivity. Qed.
Lemma step_push_lstack : forall c l v, ckind c = LinkedListStack -> fst (fst (step c (StSeq l) (Push v))) = StSeq (v :: l).
Proof. intros c l v K. unfold step. rewrite K. reflexivity. Qed.
Lemma step_enq_aq : forall c l v, ckind c = ArrayQueue -> fst (fst (step c (StSeq l) (Enqueue v))) = StSeq (l ++ [v]).
Proof. intros c l v K. unfold step. rewrite K. reflexivity. Qed.
Lemma step_enq_lq : forall c l v, ckind c = LinkedListQueue -> fst (fst (step c (StSeq l) (Enqueue v))) = StSeq (l ++ [v]).
Proof. intros c l v K. unfold step. rewrite K. reflexivity. Qed.
Lemma step_enq_ring : forall c r v, ckind c = CircularBuffer -> fst (fst (step c (StRing r) (Enqueue v))) = StRing (Ring.renq v r).
Proof. intros c r v K. unfold step. rewrite K. reflexivity. Qed.
Lemma step_enq_pq : forall c l v, ckind c = PriorityQueue ->
  fst (fst (step c (StHeap l) (Enqueue v))) = StHeap (Heap.push (kc c) [v] l).
Proof. intros c l v K. unfold step. rewrite K. reflexivity. Qed.

Lemma run_app_ops : forall c (f : Z -> op) (g : list Z -> Z -> list Z) (mk : list Z -> state),
  (forall l v, fst (fst (step c (mk l) (f v))) = mk (g l v)) ->
  forall vs l, run_from c (mk l) (map f vs) = mk (fold_left g vs l).
Proof.
  intros c f g mk H. induction vs as [|v vs IH]; intros l; [reflexivity|].
  cbn [map fold_left]. rewrite run_from_cons, H. apply IH.
Qed.

Lemma fold_snoc : forall vs l, fold_left (fun (a : list Z) v => a ++ [v]) vs l = l ++ vs.
Proof.
  induction vs as [|v vs IH]; intros l; cbn [fold_left]; [rewrite app_nil_r; reflexivity|].
  rewrite IH, <- app_assoc. reflexivity.
Qed.

Lemma fold_cons_rev : forall ws l, fold_left (fun (a : list Z) v => v :: a) ws l = rev ws ++ l.
Proof.
  induction ws as [|w ws IH]; intros l; cbn [fold_left rev]; [reflexivity|].
  rewrite IH, <- app_assoc. reflexivity.
Qed.

(* C12: a successful load from the empty container is the run of the insert operations [load_ops] *)
Lemma load_is_run : forall c d, config_ok c -> accepts c d = true ->
  fst (from_json c d (init c)) = run c (load_ops c d).
Proof.
  intros c d Hc Ha. pose proof (init_not_crash c Hc) as Hi.
  rewrite (from_json_body_eq c d _ Hi). unfold from_json_body, accepts in *.
  destruct (is_kv (ckind c)) eqn:Hkv.
  - destruct d; try discriminate Ha; cbn [fst load_ops]; [reflexivity|].
    unfold run. apply put_entries_run. exact Hkv.
  - destruct d as [| |vs|kvs]; try discriminate Ha; cbn [fst load_ops]; [rewrite load_array_nil; reflexivity|].
    unfold run, load_array. destruct (ckind c) eqn:K; try discriminate Hkv.
    + (* ArrayList *)
      unfold init. rewrite K. unfold run_from. cbn [fold_left]. unfold step. rewrite K. cbn [fst add_values].
      rewrite K. reflexivity.
    + (* SinglyLinkedList *) unfold run_from. cbn [fold_left]. unfold init, step. rewrite K. reflexivity.
    + (* DoublyLinkedList *) unfold run_from. cbn [fold_left]. unfold init, step. rewrite K. reflexivity.
    + (* HashSet *) unfold run_from. cbn [fold_left]. unfold init, step. rewrite K. reflexivity.
    + (* TreeSet *) unfold run_from. cbn [fold_left]. unfold init, step. rewrite K. reflexivity.
    + (* LinkedHashSet *) unfold run_from. cbn [fold_left]. unfold init, step. rewrite K. reflexivity.
    + (* ArrayStack *)
      unfold init. rewrite K.
      rewrite (run_app_ops c Push (fun a v => a ++ [v]) StSeq (fun l v => step_push_astack c l v K)).
      rewrite fold_snoc. reflexivity.
    + (* LinkedListStack *)
      unfold init, add_values. rewrite K.
      rewrite (run_app_ops c Push (fun a v => v :: a) StSeq (fun l v => step_push_lstack c l v K)).
      rewrite fold_cons_rev, rev_involutive, app_nil_r, sll_add_nil. reflexivity.
    + (* BinaryHeap *)
      unfold init. rewrite K. unfold run_from. cbn [fold_left]. unfold step. rewrite K. cbn [fst].
      unfold Heap.push. destruct vs as [|v [|w vs]]; reflexivity.
    + (* ArrayQueue *)
      unfold init. rewrite K.
      rewrite (run_app_ops c Enqueue (fun a v => a ++ [v]) StSeq (fun l v => step_enq_aq c l v K)).
      rewrite fold_snoc. reflexivity.
    + (* LinkedListQueue *)
      unfold init, add_values. rewrite K.
      rewrite (run_app_ops c Enqueue (fun a v => a ++ [v]) StSeq (fun l v => step_enq_lq c l v K)).
      rewrite fold_snoc, sll_add_nil. reflexivity.
    + (* CircularBuffer *)
      destruct Hc as [_ Hr]. specialize (Hr K).
      assert (H05 : c05_config c) by (apply C05Proofs.ring_config; assumption).
      rewrite (C05Proofs.init_ring c K H05).
      generalize (Ring.rinit (cap_of c)). induction vs as [|v vs IH]; intros r; [reflexivity|].
      cbn [map ring_enqs]. rewrite run_from_cons, (step_enq_ring c r v K). apply IH.
    + (* PriorityQueue *)
      unfold init. rewrite K.
      rewrite (run_app_ops c Enqueue (fun h v => Heap.push (kc c) [v] h) StHeap (fun l v => step_enq_pq c l v K)).
      rewrite (pushes_in_order (kc c) _ []); [reflexivity|].
      cbn [app]. apply HP.heapify_ok. apply MM.kc_SWO.
Qed.

Lemma accepts_of_ok : forall c d s, s <> StCrash -> snd (from_json c d s) = true -> accepts c d = true.
Proof. intros c d s Hs H. rewrite <- (from_json_ok_iff c d s Hs). exact H. Qed.

(* the loaded state, whatever the prior content, is the state of a fresh container after the one call *)
Lemma loaded_is_run1 : forall c s d, config_ok c -> s <> StCrash -> snd (from_json c d s) = true ->
  fst (from_json c d s) = run c [FromJSON d].
Proof.
  intros c s d Hc Hs H. pose proof (init_not_crash c Hc) as Hi.
  rewrite (C12_replaces_proof c s d Hs H Hi).
  unfold run, run_from. cbn [fold_left]. rewrite (step_from_json_gen c _ d Hi). reflexivity.
Qed.

Theorem C12_reachable_proof : forall c ops d, config_ok c ->
  snd (from_json c d (run c ops)) = true ->
  exists ops', (forall o, In o ops' -> is_from_json o = false) /\
               fst (from_json c d (run c ops)) = run c ops'.
Proof.
  intros c ops d Hc H. pose proof (run_not_crash c ops Hc) as Hs.
  exists (load_ops c d). split; [apply load_ops_no_from_json|].
  rewrite (C12_replaces_proof c _ d Hs H (init_not_crash c Hc)).
  apply load_is_run; [exact Hc|]. exact (accepts_of_ok c d _ Hs H).
Qed.

Lemma run_app : forall c ops1 ops2, run c (ops1 ++ ops2) = run_from c (run c ops1) ops2.
Proof. intros c ops1 ops2. unfold run, run_from. apply fold_left_app. Qed.

(* ... and so is every continuation: a history with a successful FromJSON in the middle reaches the
   same state as the FromJSON-free history that starts with the inserts; a failing FromJSON can be
   dropped from the history *)
Theorem C12_continues_proof : forall c ops d more, config_ok c ->
  run c (ops ++ FromJSON d :: more) =
  if accepts c d then run c (load_ops c d ++ more) else run c (ops ++ more).
Proof.
  intros c ops d more Hc. pose proof (run_not_crash c ops Hc) as Hs.
  rewrite !run_app, run_from_cons. rewrite (step_from_json_gen c _ d Hs). cbn [fst].
  pose proof (from_json_ok_iff c d _ Hs) as Ho.
  destruct (accepts c d) eqn:A.
  - rewrite (C12_replaces_proof c _ d Hs Ho (init_not_crash c Hc)).
    rewrite (load_is_run c d Hc A). reflexivity.
  - rewrite (C12_atomic_proof c _ d Ho). reflexivity.
Qed.

(* the loaded state satisfies the invariant of the reachable states of its kind *)
Theorem C12_sound_proof : forall c s d, config_ok c -> s <> StCrash -> snd (from_json c d s) = true ->
  jinv c (fst (from_json c d s)).
Proof. intros c s d Hc Hs H. rewrite (loaded_is_run1 c s d Hc Hs H). apply jinv_run. exact Hc. Qed.

(* ---------- what the loaded content is ---------- *)
(* lists, stacks, queues: the backing sequence IS the array; the array stack lists it top first *)
Theorem C12_denotes_seq_proof : forall c s vs, seq_kind (ckind c) = true -> s <> StCrash ->
  from_json c (DArr vs) s = (StSeq vs, true) /\ values_of c (StSeq vs) = abs_load c vs.
Proof.
  intros c s vs K Hs. rewrite (from_json_body_eq c _ s Hs). unfold from_json_body, load_array, add_values, init, abs_load, values_of.
  destruct (ckind c); try discriminate K; cbn [is_kv]; rewrite ?sll_add_nil;
    try (unfold dll_add; rewrite sll_add_nil); split; reflexivity.
Qed.

(* sets: the members are exactly the elements of the array, each once *)
Theorem C12_denotes_set_proof : forall c s vs, SP.is_set_kind (ckind c) = true -> s <> StCrash ->
  let s' := fst (from_json c (DArr vs) s) in
  snd (from_json c (DArr vs) s) = true /\
  (forall x, SP.member c s' x = eqvb (SP.set_cmp c) x vs) /\
  NoDupA (SP.sequiv c) (values_of c s') /\
  (forall x, InA (SP.sequiv c) x (values_of c s') <-> eqvb (SP.set_cmp c) x vs = true) /\
  size_of c s' = Z.of_nat (length (values_of c s')) /\
  (ckind c = HashSet -> StronglySorted Z.lt (values_of c s')) /\
  (ckind c = TreeSet -> StronglySorted (fun a b => kc c a b = Lt) (values_of c s')) /\
  (ckind c = LinkedHashSet -> values_of c s' = fold_left order_step (map EIns vs) []).
Proof.
  intros c s vs K Hs s'.
  assert (Hc : config_ok c) by (split; intros F; rewrite F in K; discriminate K).
  assert (Hok : snd (from_json c (DArr vs) s) = true).
  { rewrite (from_json_ok_iff c _ s Hs). unfold accepts. destruct (ckind c); try discriminate K; reflexivity. }
  split; [exact Hok|].
  assert (Es : s' = run c [FromJSON (DArr vs)]) by (apply loaded_is_run1; assumption).
  destruct (SP.set_run c [FromJSON (DArr vs)] K) as [I M]. rewrite <- Es in I, M.
  assert (Hm : forall x, SP.member c s' x = eqvb (SP.set_cmp c) x vs).
  { intros x. rewrite M. unfold set_hist, live. cbn [flat_map set_hist1 app rev live_from].
    destruct (eqvb (SP.set_cmp c) x vs); reflexivity. }
  split; [exact Hm|].
  destruct (SP.values_spec c s' I) as (V1 & V2 & V3).
  split; [exact V1|]. split; [intros x; rewrite V3, Hm; reflexivity|]. split; [exact V2|].
  split; [|split].
  - intros Kh. unfold SP.set_inv in I. rewrite Kh in I. destruct s'; try contradiction. exact I.
  - intros Kt. rewrite Es. apply SP.C04_treeset_ascending_proof. exact Kt.
  - intros Kl. assert (Kl' : LP.is_linked_kind (ckind c) = true) by (rewrite Kl; reflexivity).
    destruct (LP.linked_run c [FromJSON (DArr vs)] Kl') as [Il O]. rewrite <- Es in Il, O.
    unfold LP.linked_inv in Il. rewrite Kl in Il. destruct s'; try contradiction.
    cbn [values_of LP.ord_of] in *. rewrite O. unfold events, order_spec. cbn [flat_map]. unfold events1. rewrite Kl.
    rewrite app_nil_r. reflexivity.
Qed.

(* heap, priority queue: a valid heap holding exactly the elements of the array *)
Theorem C12_denotes_heap_proof : forall c s vs, is_heap_kind (ckind c) = true -> s <> StCrash ->
  exists l', from_json c (DArr vs) s = (StHeap l', true) /\ HP.heap_ok (kc c) l' /\ Permutation l' vs.
Proof.
  intros c s vs K Hs. rewrite (from_json_body_eq c _ s Hs). unfold from_json_body.
  destruct (C06Proofs.C06_load_array_heap c vs K) as (l' & E & H1 & H2).
  assert (Hkv : is_kv (ckind c) = false) by (destruct (ckind c); try discriminate K; reflexivity).
  rewrite Hkv, E. exists l'. auto.
Qed.

(* circular buffer: the last capacity-many values of the array *)
Theorem C12_denotes_ring_proof : forall c s vs, ckind c = CircularBuffer -> 1 <= ccap c -> s <> StCrash ->
  exists r', from_json c (DArr vs) s = (StRing r', true) /\ RP.ring_inv r' /\ Ring.rmax r' = cap_of c /\
             values_of c (StRing r') = lastn (cap_of c) vs.
Proof.
  intros c s vs K Hr Hs. rewrite (from_json_body_eq c _ s Hs). unfold from_json_body, load_array. rewrite K. cbn [is_kv].
  assert (H05 : c05_config c) by (apply C05Proofs.ring_config; assumption).
  rewrite (C05Proofs.init_ring c K H05), C05Proofs.ring_enqs_renqs.
  pose proof (RP.rinit_inv (cap_of c) (C05Proofs.cap_pos c K H05)) as Hi0.
  eexists. split; [reflexivity|]. split; [apply RP.renqs_inv; exact Hi0|].
  split; [rewrite RP.renqs_max; reflexivity|].
  cbn [values_of]. rewrite RP.renqs_abs by exact Hi0. rewrite RP.rinit_abs. reflexivity.
Qed.

(* maps and search trees: the abstract map after putting the members one by one (keys equal under
   the container's comparator are one key, the last member wins), sorted by that comparator *)
Theorem C12_denotes_map_proof : forall c s kvs, config_ok c -> MM.map_kind (ckind c) = true -> s <> StCrash ->
  let s' := fst (from_json c (DObj kvs) s) in
  let h := MM.puts (MM.json_entries c kvs) in
  snd (from_json c (DObj kvs) s) = true /\
  MM.minv c s' /\
  MM.mabs c s' = mrun (MM.cmp_for c) h /\
  ksorted (MM.cmp_for c) (MM.mabs c s') /\
  (forall k, get_of c s' k = oopt (option_map snd (last_live (MM.cmp_for c) (rev h) k))) /\
  size_of c s' = Z.of_nat (length (mrun (MM.cmp_for c) h)) /\
  (ckind c <> LinkedHashMap -> entries_of c s' = mrun (MM.cmp_for c) h) /\
  (ckind c = HashMap -> entries_of c s' = sort_entries kvs).
Proof.
  intros c s kvs Hc K Hs s' h. pose proof (config_ok_valid c Hc K) as Hv.
  assert (Hkv : is_kv (ckind c) = true) by (apply MM.Generic.is_kv_map_kind; exact K).
  assert (Es : from_json c (DObj kvs) s = (put_entries c (MM.json_entries c kvs) (init c), true)).
  { rewrite (from_json_body_eq c _ s Hs). unfold from_json_body. rewrite Hkv. reflexivity. }
  unfold s'. rewrite Es. cbn [fst snd]. split; [reflexivity|].
  destruct (m_inv_init c Hv) as [Hi0 Ha0].
  destruct (m_put_entries_sim c (MM.json_entries c kvs) (init c) Hv Hi0) as [Hi' Ha'].
  rewrite Ha0 in Ha'. fold h in Ha'. change (fold_left (mstep (MM.cmp_for c)) h []) with (mrun (MM.cmp_for c) h) in Ha'.
  split; [exact Hi'|]. split; [exact Ha'|].
  split; [apply m_abs_sorted; assumption|].
  split; [intros k; rewrite (m_get_abs c _ k Hv Hi'), Ha', (mrun_last_live (MM.cmp_for c) (MM.cmp_for_SWO c)); reflexivity|].
  split; [rewrite (m_size_abs c _ Hv Hi'), Ha'; reflexivity|].
  split; [intros Kl; rewrite <- (m_abs_entries c _ Hi' Kl); exact Ha'|].
  intros Kh. assert (Kl : ckind c <> LinkedHashMap) by (rewrite Kh; discriminate).
  rewrite <- (m_abs_entries c _ Hi' Kl), Ha'. unfold h, MM.json_entries, MM.cmp_for, mrun. rewrite Kh.
  rewrite <- (inss_mstep Z.compare). rewrite <- sort_entries_inss. apply sort_entries_idem.
Qed.

(* ---------- LinkedHashMap: first position, last value ---------- *)
Lemma inss_keys : forall es acc k, ksorted Z.compare acc ->
  (In k (map fst (inss Z.compare es acc)) <-> In k (map fst acc) \/ In k (map fst es)).
Proof.
  induction es as [|[k0 v0] es IH]; intros acc k Hs; [cbn [inss fold_left map In]; tauto|].
  cbn [inss fold_left fst snd]. fold (inss Z.compare es (ins_list Z.compare k0 v0 acc)).
  rewrite IH by (apply (ins_list_sorted Z.compare Zcompare_SWO); exact Hs).
  change (ins_list Z.compare k0 v0 acc) with (hput k0 v0 acc). rewrite (MM.keys_hput k0 v0 acc k Hs).
  cbn [map fst In]. split; [intros [[E|H]|H]|intros [H|[E|H]]]; auto.
Qed.

Lemma sort_entries_keys : forall es k, In k (map fst (sort_entries es)) <-> In k (map fst es).
Proof.
  intros es k. rewrite sort_entries_inss, inss_keys by constructor. cbn [map In]. tauto.
Qed.

Lemma hget_some_iff_key : forall k l, (exists v, hget k l = Some v) <-> In k (map fst l).
Proof.
  intros k l. rewrite <- SP.sp_hmem_In, SP.sp_hmem_hget. destruct (hget k l) as [v|]; split.
  - reflexivity.
  - intros _. exists v. reflexivity.
  - intros [v H]. discriminate H.
  - discriminate.
Qed.

Definition last_value (all : list (Z * Z)) (k : Z) : Z :=
  match hget k (sort_entries all) with Some v => v | None => 0 end.

Lemma dedup_last_In : forall all es seen k v, In (k, v) (dedup_last es seen all) ->
  In k (map fst es) /\ ~ In k seen /\ v = last_value all k.
Proof.
  intros all. induction es as [|[k0 v0] es IH]; intros seen k v H; [destruct H|].
  cbn [dedup_last] in H. destruct (existsb (Z.eqb k0) seen) eqn:X.
  - destruct (IH seen k v H) as (H1 & H2 & H3). split; [right; exact H1|]. split; assumption.
  - destruct H as [E|H].
    + inversion E. subst. split; [left; reflexivity|]. split; [|reflexivity].
      intros Hin. assert (existsb (Z.eqb k) seen = true); [|congruence].
      apply existsb_exists. exists k. split; [exact Hin|apply Z.eqb_refl].
    + destruct (IH (k0 :: seen) k v H) as (H1 & H2 & H3). split; [right; exact H1|].
      split; [|exact H3]. intros Hin. apply H2. right. exact Hin.
Qed.

Lemma dedup_last_keys : forall all es seen k, In k (map fst es) -> ~ In k seen ->
  In k (map fst (dedup_last es seen all)).
Proof.
  intros all. induction es as [|[k0 v0] es IH]; intros seen k H Hn; [destruct H|].
  cbn [dedup_last]. destruct (existsb (Z.eqb k0) seen) eqn:X.
  - destruct H as [E|H]; [|apply IH; assumption]. cbn [fst] in E. subst k0. exfalso. apply Hn.
    apply existsb_exists in X. destruct X as (y & Hy & He). apply Z.eqb_eq in He. subst y. exact Hy.
  - cbn [map fst]. destruct (Z.eq_dec k0 k) as [E|Ne]; [left; exact E|]. right.
    destruct H as [E|H]; [contradiction|]. apply IH; [exact H|]. intros [E|Hin]; contradiction.
Qed.

Lemma dedup_last_nodup : forall all es seen, NoDup (map fst (dedup_last es seen all)).
Proof.
  intros all. induction es as [|[k0 v0] es IH]; intros seen; [constructor|].
  cbn [dedup_last]. destruct (existsb (Z.eqb k0) seen); [apply IH|].
  cbn [map fst]. constructor; [|apply IH].
  intros Hin. apply in_map_iff in Hin. destruct Hin as ([k v] & E & H). cbn [fst] in E. subst k.
  apply dedup_last_In in H. destruct H as (_ & Hn & _). apply Hn. left. reflexivity.
Qed.

Lemma NoDup_keys_kinj : forall l : list (Z * Z), NoDup (map fst l) -> kinj Z.compare (fun e => In e l).
Proof.
  induction l as [|x l IH]; intros Hnd e1 e2 H1 H2 E; [destruct H1|].
  apply Z.compare_eq in E. cbn [map] in Hnd. apply NoDup_cons_iff in Hnd. destruct Hnd as [Hx Hnd].
  destruct H1 as [<-|H1], H2 as [<-|H2].
  - reflexivity.
  - exfalso. apply Hx. rewrite E. apply in_map. exact H2.
  - exfalso. apply Hx. rewrite <- E. apply in_map. exact H1.
  - apply (IH Hnd); [exact H1|exact H2|]. rewrite E. apply Z.compare_refl.
Qed.

(* the table built from dedup_last answers every key with its LAST value in the document *)
Lemma hget_dedup_last : forall kvs k,
  hget k (sort_entries (dedup_last kvs [] kvs)) = hget k (sort_entries kvs).
Proof.
  intros kvs k. set (D := dedup_last kvs [] kvs).
  assert (HD : forall e, In e (sort_entries D) <-> In e D).
  { apply sort_entries_In. apply NoDup_keys_kinj. apply dedup_last_nodup. }
  pose proof (sort_entries_sorted D) as HsD.
  destruct (hget k (sort_entries kvs)) as [v0|] eqn:G.
  - apply SP.sp_hget_In; [exact HsD|]. apply HD.
    assert (Hk : In k (map fst kvs)).
    { apply sort_entries_keys. apply hget_some_iff_key. exists v0. exact G. }
    pose proof (dedup_last_keys kvs kvs [] k Hk (fun F => F)) as Hin.
    apply in_map_iff in Hin. destruct Hin as ([k' v'] & E & H). cbn [fst] in E. subst k'.
    pose proof (dedup_last_In kvs kvs [] k v' H) as (_ & _ & Ev). unfold last_value in Ev. rewrite G in Ev.
    subst v'. exact H.
  - destruct (hget k (sort_entries D)) as [v|] eqn:G'; [|reflexivity]. exfalso.
    apply SP.sp_hget_In in G'; [|exact HsD]. apply HD in G'.
    apply dedup_last_In in G'. destruct G' as (Hk & _ & _).
    apply sort_entries_keys in Hk. apply hget_some_iff_key in Hk. destruct Hk as [v1 Hv1]. congruence.
Qed.

Theorem C12_denotes_linkedmap_proof : forall c s kvs, ckind c = LinkedHashMap -> s <> StCrash ->
  let s' := fst (from_json c (DObj kvs) s) in
  keys_of c s' = fold_left order_step (map EIns (map fst kvs)) [] /\
  (forall k, get_of c s' k = oopt (hget k (sort_entries kvs))).
Proof.
  intros c s kvs K Hs s'.
  assert (Hc : config_ok c) by (split; intros F; rewrite F in K; discriminate K).
  assert (Hok : snd (from_json c (DObj kvs) s) = true).
  { rewrite (from_json_ok_iff c _ s Hs). unfold accepts. rewrite K. reflexivity. }
  assert (Es : s' = run c [FromJSON (DObj kvs)]) by (apply loaded_is_run1; assumption).
  split.
  - assert (Kl : LP.is_linked_kind (ckind c) = true) by (rewrite K; reflexivity).
    destruct (LP.linked_run c [FromJSON (DObj kvs)] Kl) as [Il O]. rewrite <- Es in Il, O.
    unfold LP.linked_inv in Il. rewrite K in Il. destruct s'; try contradiction.
    rewrite LP.keys_of_lmap. cbn [LP.ord_of] in O. rewrite O. unfold events, order_spec. cbn [flat_map].
    unfold events1. rewrite K. rewrite app_nil_r. reflexivity.
  - intros k. unfold s'. rewrite (from_json_body_eq c _ s Hs). unfold from_json_body, MM.json_entries, put_entries, init.
    rewrite K. cbn [is_kv fst].
    destruct (LP.lm_puts_spec (dedup_last kvs [] kvs) [] [] LP.lmap_inv_nil) as (t' & E & _ & T).
    unfold LP.lm_puts in E. rewrite E. cbn [get_of]. rewrite T.
    change (fold_left (fun acc e => hput (fst e) (snd e) acc) (dedup_last kvs [] kvs) [])
      with (sort_entries (dedup_last kvs [] kvs)).
    rewrite hget_dedup_last. reflexivity.
Qed.

(* ---------- bidirectional maps: successive Puts; the result is one-to-one ---------- *)
Lemma bidi_inv_lookup : forall c s k v, bidi_inv c s -> In (k, v) (entries_of c s) ->
  get_of c s k = oopt (Some v) /\ getkey_of c s v = oopt (Some k).
Proof.
  intros c s k v Hi Hin. unfold bidi_inv in Hi.
  destruct (ckind c) eqn:K; try contradiction; destruct s; try contradiction; cbn [entries_of get_of getkey_of] in *.
  - destruct Hi as (Hf & Hiv & Hm). split; f_equal.
    + apply SP.sp_hget_In; assumption.
    + apply SP.sp_hget_In; [exact Hiv|]. apply Hm. exact Hin.
  - destruct Hi as (Hf & Hiv & (Hsf & Hsi & Hm)). unfold tb_lists in *. cbn [fst snd] in *. split; f_equal.
    + rewrite (MM.rbs_get_spec (kc c) (MM.kc_SWO c)) by apply Hf.
      rewrite (find_list_In (kc c) (MM.kc_SWO c) k _ (k, v) Hsf Hin (swo_refl _ (MM.kc_SWO c) k)). reflexivity.
    + rewrite (MM.rbs_get_spec (vc c) (vc_SWO c)) by apply Hiv.
      rewrite (find_list_In (vc c) (vc_SWO c) v _ (v, k) Hsi (proj1 (Hm k v) Hin) (swo_refl _ (vc_SWO c) v)).
      reflexivity.
Qed.

Definition bidi_lists (s : state) : list (Z * Z) * list (Z * Z) :=
  match s with
  | StHBidi f i => (f, i)
  | StTBidi f _ i _ => (RB.inorder f, RB.inorder i)
  | _ => ([], [])
  end.
Definition bidi_kcmp (c : config) : cmpf := match ckind c with TreeBidiMap => kc c | _ => Z.compare end.
Definition bidi_vcmp (c : config) : cmpf := match ckind c with TreeBidiMap => vc c | _ => Z.compare end.

Theorem C12_denotes_bidi_proof : forall c s kvs, bidi_kind (ckind c) = true -> s <> StCrash ->
  let s' := fst (from_json c (DObj kvs) s) in
  snd (from_json c (DObj kvs) s) = true /\
  bidi_inv c s' /\
  bidi_lists s' = lb_puts (bidi_kcmp c) (bidi_vcmp c) (sort_entries kvs) ([], []) /\
  lbI (bidi_kcmp c) (bidi_vcmp c) (fst (bidi_lists s')) (snd (bidi_lists s')) /\
  (forall k v, In (k, v) (entries_of c s') ->
     get_of c s' k = oopt (Some v) /\ getkey_of c s' v = oopt (Some k)).
Proof.
  intros c s kvs K Hs s'.
  assert (Hkv : is_kv (ckind c) = true) by (destruct (ckind c); try discriminate K; reflexivity).
  assert (Es : from_json c (DObj kvs) s = (put_entries c (sort_entries kvs) (init c), true)).
  { rewrite (from_json_body_eq c _ s Hs). unfold from_json_body, MM.json_entries. rewrite Hkv.
    destruct (ckind c); try discriminate K; reflexivity. }
  unfold s'. rewrite Es. cbn [fst snd]. split; [reflexivity|].
  assert (Hi' : bidi_inv c (put_entries c (sort_entries kvs) (init c))).
  { apply bidi_put_entries. apply bidi_inv_init. exact K. }
  split; [exact Hi'|].
  assert (EL : bidi_lists (put_entries c (sort_entries kvs) (init c)) =
               lb_puts (bidi_kcmp c) (bidi_vcmp c) (sort_entries kvs) ([], [])).
  { unfold bidi_kcmp, bidi_vcmp, init, put_entries. destruct (ckind c) eqn:Kc; try discriminate K.
    - rewrite hbidi_puts_lb.
      match goal with |- bidi_lists (let '(f0, i0) := ?X in _) = ?Y => change Y with X; destruct X as [f' i'] end.
      reflexivity.
    - destruct (tbidi_puts_sim (kc c) (vc c) (MM.kc_SWO c) (vc_SWO c) (sort_entries kvs)
                  (rbs_empty, rbs_empty) (tbI_empty (kc c) (vc c))) as ([[f' fn'] [i' inn']] & E & _ & L).
      match goal with |- context [tbidi_puts ?a ?b ?d ?e] =>
        replace (tbidi_puts a b d e) with (Some (f', fn', (i', inn'))) by (symmetry; exact E) end.
      cbn [bidi_lists]. exact L. }
  split; [exact EL|]. split; [|intros k v; apply bidi_inv_lookup; exact Hi'].
  rewrite EL. apply (lb_puts_inv (bidi_kcmp c) (bidi_vcmp c)).
  - unfold bidi_kcmp. destruct (ckind c); try apply Zcompare_SWO. apply MM.kc_SWO.
  - unfold bidi_vcmp. destruct (ckind c); try apply Zcompare_SWO. apply vc_SWO.
  - apply lbI_nil.
Qed.

(* ================================================================================================ *)
(* 10. the ring in detail; what is NOT true                                                         *)
(* ================================================================================================ *)
Theorem C11_ring_proof : forall c ops, ckind c = CircularBuffer -> 1 <= ccap c ->
  exists r r', run c ops = StRing r /\ reload c (run c ops) = (StRing r', true) /\
    Ring.rvalues r' = Ring.rvalues r /\ Ring.rsize r' = Ring.rsize r /\ Ring.rmax r' = Ring.rmax r /\
    Ring.rfullb r' = Ring.rfullb r /\ Ring.rpeek r' = Ring.rpeek r /\ Ring.rstart r' = 0%nat.
Proof.
  intros c ops K Hr.
  assert (Hc : config_ok c) by (split; [intros F; rewrite F in K; discriminate K|intros _; exact Hr]).
  pose proof (jinv_run c ops Hc) as Hj. unfold jinv in Hj. rewrite K in Hj. destruct Hj as (r & E & Hi & Hm).
  destruct (reload_ring c r K Hc Hi Hm) as (r' & E' & HR & S0).
  exists r, r'. rewrite E. split; [reflexivity|]. split; [exact E'|].
  pose proof (ring_equiv_size r r' HR) as Es. destruct HR as (_ & Hi' & Em & Ev).
  split; [symmetry; exact Ev|]. split; [symmetry; exact Es|]. split; [symmetry; exact Em|].
  split; [rewrite !RP.rfull_abs by assumption; rewrite Ev, Em; reflexivity|].
  split; [rewrite !RP.rpeek_abs by assumption; rewrite Ev; reflexivity|exact S0].
Qed.

Definition mkc (k : kind) (kcm vcm : cmp_id) (cap ord : Z) : config :=
  {| ckind := k; kcmp := kcm; vcmp := vcm; ccap := cap; corder := ord; cuni := 6 |}.

(* state equality is FALSE for the search trees and the ring: the reloaded tree is built by
   inserting the keys in ascending order and generally has another shape; a wrapped ring is
   reloaded unwrapped *)
Theorem C11_state_equal_tree_refuted : exists c ops, config_ok c /\ ckind c = RedBlackTree /\
  fst (reload c (run c ops)) <> run c ops.
Proof.
  exists (mkc RedBlackTree CNat CNat 3 3), (map (fun k => Put k (k * k)) [5; 3; 9; 1; 7]).
  split; [split; discriminate|]. split; [reflexivity|]. vm_compute. discriminate.
Qed.

Theorem C11_state_equal_ring_refuted : exists c ops, config_ok c /\ ckind c = CircularBuffer /\
  fst (reload c (run c ops)) <> run c ops.
Proof.
  exists (mkc CircularBuffer CNat CNat 3 3), (map Enqueue [1; 2; 3; 4; 5] ++ [Dequeue]).
  split; [split; [discriminate|intros _; vm_compute; discriminate]|]. split; [reflexivity|]. vm_compute. discriminate.
Qed.

(* the PriorityQueue loaded from an array is NOT the queue obtained by enqueueing the array's
   elements in array order (Floyd's heapify vs successive sift-ups); it IS the queue obtained by
   enqueueing the heapified array in order ([load_ops]) *)
Theorem C12_pq_array_order_refuted : exists c vs, ckind c = PriorityQueue /\
  fst (from_json c (DArr vs) (init c)) <> run c (map Enqueue vs).
Proof.
  exists (mkc PriorityQueue CNat CNat 3 3), [3; 2; 1]. split; [reflexivity|]. vm_compute. discriminate.
Qed.

(* ================================================================================================ *)
(* 11. the invariant is preserved by EVERY operation from ANY state satisfying it                   *)
(* ================================================================================================ *)
Lemma set_hist1_zero : forall o m, In m (MM.set_hist1 o) -> match m with MPut _ v => v = 0 | _ => True end.
Proof.
  intros o m H. apply (set_hist_zero [o]). unfold MM.set_hist. cbn [flat_map]. rewrite app_nil_r. exact H.
Qed.

Theorem jinv_step : forall c s o, config_ok c -> jinv c s -> jinv c (fst (fst (step c s o))).
Proof.
  intros c s o Hc Hj. unfold jinv in *.
  assert (Hseq : seq_kind (ckind c) = true -> (exists l, s = StSeq l) ->
                 exists l', fst (fst (step c s o)) = StSeq l').
  { intros K (l & ->).
    assert (L : IterLinear.linear_state c (StSeq l) = true).
    { unfold IterLinear.linear_state. destruct (ckind c); try discriminate K; reflexivity. }
    assert (Rk : IterLinear.ring_ok c = true).
    { unfold IterLinear.ring_ok. destruct (ckind c); try discriminate K; reflexivity. }
    pose proof (IterLinear.step_linear c (StSeq l) o Rk L) as L'.
    unfold IterLinear.linear_state in L'. destruct (fst (fst (step c (StSeq l) o))); try discriminate L';
      try (destruct (ckind c); discriminate). eexists. reflexivity. }
  assert (Hheap : is_heap_kind (ckind c) = true -> (exists l, s = StHeap l /\ HP.heap_ok (kc c) l) ->
                  exists l', fst (fst (step c s o)) = StHeap l' /\ HP.heap_ok (kc c) l').
  { intros K (l & -> & Hok). destruct (C06Proofs.heap_step_sound c l o K Hok) as (l' & r & E & Hok' & _).
    rewrite E. exists l'. split; [reflexivity|exact Hok']. }
  assert (Hmap : MM.map_kind (ckind c) = true -> MM.minv c s -> MM.minv c (fst (fst (step c s o)))).
  { intros K Hi. apply MM.step_preserves; [apply config_ok_valid; assumption|exact Hi]. }
  destruct (ckind c) eqn:K; try (apply Hseq; [reflexivity|exact Hj]); try (apply Hheap; [reflexivity|exact Hj]);
    try (apply Hmap; [reflexivity|exact Hj]); try (apply bidi_step; exact Hj);
    try (apply (SP.set_step c s o Hj)).
  - (* TreeSet *)
    destruct Hj as (Hs & Ht & Hz). split; [apply (SP.set_step c s o Hs)|].
    destruct (MM.ts_step_sim c s o K Ht) as [Ht' E]. split; [exact Ht'|].
    unfold MM.tsinv in Ht, Ht'. destruct s; try contradiction.
    destruct (fst (fst (step c (StRB t n) o))); try contradiction. cbn [ts_zero entries_of] in *.
    rewrite E. apply puts_zero; [exact Hz|apply set_hist1_zero].
  - (* CircularBuffer *)
    destruct Hj as (r & -> & Hi & Hm). destruct Hc as [_ Hr]. specialize (Hr K).
    assert (H05 : c05_config c) by (apply C05Proofs.ring_config; assumption).
    assert (R0 : C05Proofs.R c (StRing r) (Ring.rvalues r)) by (apply C05Proofs.R_ring_intro; auto).
    destruct (C05Proofs.R_step c _ _ o H05 R0) as (R1 & _).
    unfold C05Proofs.R in R1. rewrite K in R1. destruct R1 as (r' & E & Hi' & Hm' & _).
    exists r'. auto.
Qed.

Lemma jinv_run_from : forall c ops s, config_ok c -> jinv c s -> jinv c (run_from c s ops).
Proof.
  intros c ops. induction ops as [|o ops IH]; intros s Hc Hj; [exact Hj|].
  rewrite run_from_cons. apply IH; [exact Hc|]. apply jinv_step; assumption.
Qed.

(* ================================================================================================ *)
(* 12. C11, same future, for ALL kinds: an observational equivalence preserved by every step        *)
(* ================================================================================================ *)
Definition content_kind (k : kind) : bool :=
  match k with TreeSet | TreeMap | RedBlackTree | AVLTree | BTree | TreeBidiMap => true | _ => false end.

(* two states that no client can tell apart, now or later:
   the same state for the 14 state-equal kinds; the same logical queue for the ring; the same
   entries for the search trees (the shapes may differ) *)
Definition oeq (c : config) (s1 s2 : state) : Prop :=
  jinv c s1 /\ jinv c s2 /\
  match ckind c with
  | CircularBuffer => exists q, C05Proofs.R c s1 q /\ C05Proofs.R c s2 q
  | TreeSet | TreeMap | RedBlackTree | AVLTree | BTree | TreeBidiMap => entries_of c s1 = entries_of c s2
  | _ => s1 = s2
  end.

Definition iter_eq (c : config) (s1 s2 : state) : Prop := forall cs, run_iter c s1 cs = run_iter c s2 cs.

Lemma oeq_refl : forall c s, jinv c s -> oeq c s s.
Proof.
  intros c s Hj. split; [exact Hj|]. split; [exact Hj|].
  destruct (ckind c) eqn:K; try reflexivity.
  unfold jinv in Hj. rewrite K in Hj. destruct Hj as (r & -> & Hi & Hm).
  exists (Ring.rvalues r). split; apply C05Proofs.R_ring_intro; auto.
Qed.

(* facts about the red-black tree of the three StRB kinds *)
Lemma strb_facts : forall c t n, ckind c = RedBlackTree \/ ckind c = TreeMap \/ ckind c = TreeSet ->
  jinv c (StRB t n) -> RBMap.bst (kc c) t /\ n = Z.of_nat (RB.count t).
Proof.
  intros c t n K Hj. unfold jinv in Hj. destruct K as [K|[K|K]]; rewrite K in Hj.
  - unfold MM.minv, MM.Generic.inv in Hj. rewrite K in Hj. destruct Hj as (_ & Hb & Hn). cbn [fst snd] in *.
    split; [exact Hb|]. rewrite RBMap.count_inorder. exact Hn.
  - unfold MM.minv, MM.Generic.inv in Hj. rewrite K in Hj. destruct Hj as (_ & Hb & Hn). cbn [fst snd] in *.
    split; [exact Hb|]. rewrite RBMap.count_inorder. exact Hn.
  - destruct Hj as (Hs & _ & _). unfold SP.set_inv in Hs. rewrite K in Hs. destruct Hs as (_ & Hb & Hn).
    split; assumption.
Qed.

Lemma content_kind_cases : forall c, content_kind (ckind c) = true ->
  tree_kind (ckind c) = true \/ ckind c = TreeSet \/ ckind c = TreeBidiMap.
Proof. intros c K. destruct (ckind c); try discriminate K; auto. Qed.

Lemma jinv_tree_minv : forall c s, tree_kind (ckind c) = true -> jinv c s -> MM.minv c s.
Proof. intros c s K Hj. unfold jinv in Hj. destruct (ckind c); try discriminate K; exact Hj. Qed.

(* what [equivalent] gives for the content kinds *)
Lemma content_oeq_equiv : forall c s1 s2, config_ok c -> content_kind (ckind c) = true -> oeq c s1 s2 ->
  equiv_content c s1 s2 /\ (ckind c <> BTree -> equiv_iter c s1 s2).
Proof.
  intros c s1 s2 Hc K (J1 & J2 & E).
  destruct (content_kind_cases c K) as [Kt|[Ks|Kb]].
  - assert (E' : entries_of c s1 = entries_of c s2) by (destruct (ckind c); try discriminate Kt; exact E).
    pose proof (jinv_tree_minv c s1 Kt J1) as M1. pose proof (jinv_tree_minv c s2 Kt J2) as M2.
    split; [apply tree_equiv_content; assumption|]. intros Kb. apply rb_avl_equiv_iter; try assumption.
    destruct (ckind c); try discriminate Kt; tauto.
  - rewrite Ks in E. assert (HE : equivalent c s1 s2) by (apply treeset_equivalent; assumption).
    split; [apply HE|intros _; apply HE].
  - rewrite Kb in E. unfold jinv in J1, J2. rewrite Kb in J1, J2.
    assert (HE : equivalent c s1 s2) by (apply treebidi_equivalent; assumption).
    split; [apply HE|intros _; apply HE].
Qed.

(* iterator scripts answer alike (all kinds but BTree, whose iterator theorem is pending) *)
Lemma oeq_iter_eq : forall c s1 s2, config_ok c -> ckind c <> BTree -> oeq c s1 s2 -> iter_eq c s1 s2.
Proof.
  intros c s1 s2 Hc Kb H cs. pose proof H as (J1 & J2 & E).
  destruct (content_kind (ckind c)) eqn:Kc.
  - destruct (content_oeq_equiv c s1 s2 Hc Kc H) as [(_ & Hv & _ & He & _) _].
    destruct (ckind c) eqn:K; try discriminate Kc; try congruence.
    + (* TreeSet *)
      unfold jinv in J1, J2. rewrite K in J1, J2. destruct J1 as (_ & T1 & _). destruct J2 as (_ & T2 & _).
      unfold MM.tsinv in T1, T2. destruct s1; try contradiction. destruct s2; try contradiction.
      assert (F1 : jinv c (StRB t n)) by (destruct H as (F & _); exact F).
      assert (F2 : jinv c (StRB t0 n0)) by (destruct H as (_ & F & _); exact F).
      destruct (strb_facts c t n (or_intror (or_intror K)) F1) as [_ N1].
      destruct (strb_facts c t0 n0 (or_intror (or_intror K)) F2) as [_ N2].
      rewrite !IterTreeRB.run_iter_treeset by assumption.
      cbn [values_of] in Hv. rewrite K in Hv. rewrite Hv. reflexivity.
    + (* TreeMap *)
      unfold jinv in J1, J2. rewrite K in J1, J2. unfold MM.minv, MM.Generic.inv in J1, J2. rewrite K in J1, J2.
      destruct s1; try contradiction. destruct s2; try contradiction.
      destruct J1 as (_ & _ & N1). destruct J2 as (_ & _ & N2). cbn [fst snd] in N1, N2.
      rewrite <- RBMap.count_inorder in N1, N2.
      rewrite !IterTreeRB.run_iter_rb by (try assumption; right; exact K).
      cbn [entries_of] in He. rewrite He. reflexivity.
    + (* TreeBidiMap *)
      unfold jinv in J1, J2. rewrite K in J1, J2. unfold bidi_inv in J1, J2. rewrite K in J1, J2.
      destruct s1; try contradiction. destruct s2; try contradiction.
      destruct J1 as ((_ & _ & N1) & _). destruct J2 as ((_ & _ & N2) & _). cbn [fst snd] in N1, N2.
      rewrite <- RBMap.count_inorder in N1, N2.
      rewrite !IterTreeRB.run_iter_treebidi by assumption.
      cbn [entries_of] in He. rewrite He. reflexivity.
    + (* RedBlackTree *)
      unfold jinv in J1, J2. rewrite K in J1, J2. unfold MM.minv, MM.Generic.inv in J1, J2. rewrite K in J1, J2.
      destruct s1; try contradiction. destruct s2; try contradiction.
      destruct J1 as (_ & _ & N1). destruct J2 as (_ & _ & N2). cbn [fst snd] in N1, N2.
      rewrite <- RBMap.count_inorder in N1, N2.
      rewrite !IterTreeRB.run_iter_rb by (try assumption; left; exact K).
      cbn [entries_of] in He. rewrite He. reflexivity.
    + (* AVLTree *)
      unfold jinv in J1, J2. rewrite K in J1, J2. unfold MM.minv, MM.Generic.inv in J1, J2. rewrite K in J1, J2.
      destruct s1; try contradiction. destruct s2; try contradiction.
      destruct J1 as (_ & _ & N1). destruct J2 as (_ & _ & N2).
      rewrite <- AVLMap.count_inorder in N1, N2.
      rewrite !IterTreeAVL.run_iter_avl by assumption.
      cbn [entries_of] in He. rewrite He. reflexivity.
  - destruct (ckind c) eqn:K; try discriminate Kc; try (rewrite E; reflexivity).
    (* CircularBuffer *)
    destruct E as (q & R1 & R2).
    pose proof (C05Proofs.R_values c s1 q R1) as V1. pose proof (C05Proofs.R_values c s2 q R2) as V2.
    unfold C05Proofs.R in R1, R2. rewrite K in R1, R2.
    destruct R1 as (r1 & -> & _). destruct R2 as (r2 & -> & _).
    rewrite !IterLinear.iter_CircularBuffer, V1, V2. reflexivity.
Qed.

(* ---------- one step on the content kinds: the answers ---------- *)
Lemma kv_put_result : forall c s k v, is_kv (ckind c) = true -> s <> StCrash ->
  fst (fst (step c s (Put k v))) <> StCrash ->
  snd (fst (step c s (Put k v))) = match s with
                                   | StRB _ _ | StAVL _ _ | StBT _ _ | StHMap _ | StLMap _ _ | StHBidi _ _
                                   | StTBidi _ _ _ _ => ounit
                                   | _ => ounsupported end.
Proof.
  intros c s k v Hkv Hs Hn. destruct s; try congruence; try reflexivity; unfold step in *.
  - destruct (ckind c); try discriminate Hkv; destruct (rbs_put _ _ _ _) as [[t' n']|]; cbn [fst snd] in *; congruence.
  - destruct (avl_put _ _ _ _ _) as [[t' n']|]; cbn [fst snd] in *; congruence.
  - destruct (bt_put _ _ _ _ _ _) as [[t' n']|]; cbn [fst snd] in *; congruence.
  - destruct (lmap_put k v (tbl, ord)). reflexivity.
  - destruct (tbidi_put _ _ _ _ _) as [[[f' fn'] [i' inn']]|]; cbn [fst snd] in *; congruence.
Qed.

Lemma kv_remove_result : forall c s k, is_kv (ckind c) = true -> s <> StCrash ->
  fst (fst (step c s (Remove k))) <> StCrash ->
  snd (fst (step c s (Remove k))) = match s with
                                    | StRB _ _ | StAVL _ _ | StBT _ _ | StHMap _ | StLMap _ _ | StHBidi _ _
                                    | StTBidi _ _ _ _ => ounit
                                    | _ => ounsupported end.
Proof.
  intros c s k Hkv Hs Hn. destruct s; try congruence; try reflexivity; unfold step in *.
  - destruct (ckind c); try discriminate Hkv; destruct (rbs_remove _ _ _) as [[t' n']|]; cbn [fst snd] in *; congruence.
  - destruct (avl_remove _ _ _ _) as [[t' n']|]; cbn [fst snd] in *; congruence.
  - destruct (bt_remove _ _ _ _ _) as [[t' n']|]; cbn [fst snd] in *; congruence.
  - destruct (lmap_remove k (tbl, ord)). reflexivity.
  - destruct (hbidi_remove k (f, i)). reflexivity.
  - destruct (tbidi_remove _ _ _ _) as [[[f' fn'] [i' inn']]|]; cbn [fst snd] in *; congruence.
Qed.

(* the set-algebra results of a red-black tree depend on its keys, lookups and size only *)
Definition rb_same (cmp : cmpf) (a b : rbs) : Prop :=
  snd a = snd b /\ RB.keys (fst a) = RB.keys (fst b) /\ forall k, RB.lookup cmp k (fst a) = RB.lookup cmp k (fst b).

Lemma ts_ops_same : forall c a1 a2 b1 b2, rb_same (kc c) a1 a2 -> rb_same (kc c) b1 b2 ->
  ts_inter c a1 b1 = ts_inter c a2 b2 /\ ts_union c a1 b1 = ts_union c a2 b2 /\ ts_diff c a1 b1 = ts_diff c a2 b2.
Proof.
  intros c [ta1 na1] [ta2 na2] [tb1 nb1] [tb2 nb2] (Ea & Eka & Ela) (Eb & Ekb & Elb). cbn [fst snd] in *. subst.
  unfold ts_inter, ts_union, ts_diff. cbn [fst snd]. split; [|split].
  - destruct (na2 <=? nb2); cbn [fst snd].
    + rewrite Eka. f_equal. apply filter_ext. intros k. rewrite Elb. reflexivity.
    + rewrite Ekb. f_equal. apply filter_ext. intros k. rewrite Ela. reflexivity.
  - rewrite Eka, Ekb. reflexivity.
  - rewrite Eka. f_equal. apply filter_ext. intros k. rewrite Elb. reflexivity.
Qed.

Lemma rb_same_refl : forall cmp a, rb_same cmp a a.
Proof. intros cmp a. repeat split. Qed.

Lemma set_algebra_same : forall c o t1 n1 t2 n2 other, rb_same (kc c) (t1, n1) (t2, n2) ->
  set_algebra c o (StRB t1 n1) other = set_algebra c o (StRB t2 n2) other /\
  set_algebra c o (StRB t1 n1) (StRB t1 n1) = set_algebra c o (StRB t2 n2) (StRB t2 n2).
Proof.
  intros c o t1 n1 t2 n2 other H. split.
  - destruct other; try reflexivity. cbn [set_algebra].
    destruct (ts_ops_same c (t1, n1) (t2, n2) (t, n) (t, n) H (rb_same_refl _ _)) as (A & B & D).
    destruct o; [rewrite A|rewrite B|rewrite D]; reflexivity.
  - cbn [set_algebra].
    destruct (ts_ops_same c (t1, n1) (t2, n2) (t1, n1) (t2, n2) H H) as (A & B & D).
    destruct o; [rewrite A|rewrite B|rewrite D]; reflexivity.
Qed.

Lemma strb_same : forall c t1 n1 t2 n2, ckind c = RedBlackTree \/ ckind c = TreeMap \/ ckind c = TreeSet ->
  jinv c (StRB t1 n1) -> jinv c (StRB t2 n2) -> RB.inorder t1 = RB.inorder t2 ->
  rb_same (kc c) (t1, n1) (t2, n2).
Proof.
  intros c t1 n1 t2 n2 K J1 J2 E.
  destruct (strb_facts c t1 n1 K J1) as [B1 N1]. destruct (strb_facts c t2 n2 K J2) as [B2 N2].
  split; [cbn [snd]; rewrite N1, N2, !RBMap.count_inorder, E; reflexivity|].
  split; [cbn [fst]; unfold RB.keys; rewrite E; reflexivity|].
  intros k. cbn [fst]. rewrite !(RBMap.lookup_spec (kc c) (MM.kc_SWO c)) by assumption. rewrite E. reflexivity.
Qed.

Lemma step_iter_result : forall c s cs, s <> StCrash -> snd (fst (step c s (Iter cs))) = OL (run_iter c s cs).
Proof. intros c s cs Hs. destruct s; try congruence; reflexivity. Qed.
Lemma step_sorted_result : forall c s, s <> StCrash ->
  snd (fst (step c s SortedValues)) = ozs (isort Z.compare (values_of c s)).
Proof. intros c s Hs. destruct s; try congruence; reflexivity. Qed.
Lemma step_sortedf_result : forall c s ci res, s <> StCrash ->
  snd (fst (step c s (SortedValuesFunc ci res))) = obool (sort_okb (cmp_of ci) (values_of c s) res).
Proof. intros c s ci res Hs. destruct s; try congruence; reflexivity. Qed.
Lemma step_clear_result : forall c s, s <> StCrash -> snd (fst (step c s Clear)) = ounit.
Proof. intros c s Hs. destruct s; try congruence; reflexivity. Qed.

(* the states of a content kind have the shape of that kind *)
Definition shape_of (c : config) (s : state) : Prop :=
  match ckind c, s with
  | (TreeSet | TreeMap | RedBlackTree), StRB _ _ => True
  | AVLTree, StAVL _ _ => True
  | BTree, StBT _ _ => True
  | TreeBidiMap, StTBidi _ _ _ _ => True
  | _, _ => False
  end.

Lemma jinv_shape : forall c s, content_kind (ckind c) = true -> jinv c s -> shape_of c s.
Proof.
  intros c s K Hj. unfold jinv, shape_of in *.
  destruct (ckind c) eqn:Kc; try discriminate K.
  - destruct Hj as (_ & Ht & _). unfold MM.tsinv in Ht. destruct s; try contradiction. exact I.
  - unfold MM.minv, MM.Generic.inv in Hj. rewrite Kc in Hj. destruct s; try contradiction. exact I.
  - unfold bidi_inv in Hj. rewrite Kc in Hj. destruct s; try contradiction. exact I.
  - unfold MM.minv, MM.Generic.inv in Hj. rewrite Kc in Hj. destruct s; try contradiction. exact I.
  - unfold MM.minv, MM.Generic.inv in Hj. rewrite Kc in Hj. destruct s; try contradiction. exact I.
  - unfold MM.minv, MM.Generic.inv in Hj. rewrite Kc in Hj. destruct s; try contradiction. exact I.
Qed.

Lemma content_step_result : forall c s1 s2 o, config_ok c -> content_kind (ckind c) = true ->
  oeq c s1 s2 -> iter_eq c s1 s2 ->
  snd (fst (step c s1 o)) = snd (fst (step c s2 o)).
Proof.
  intros c s1 s2 o Hc Kc H Hit. pose proof H as (J1 & J2 & E).
  pose proof (jinv_not_crash c _ (jinv_step c s1 o Hc J1)) as N1.
  pose proof (jinv_not_crash c _ (jinv_step c s2 o Hc J2)) as N2.
  pose proof (jinv_not_crash c _ J1) as C1. pose proof (jinv_not_crash c _ J2) as C2.
  destruct (content_oeq_equiv c s1 s2 Hc Kc H) as [(_ & Hv & _ & He & _) Heach].
  pose proof (jinv_shape c s1 Kc J1) as Sh1. pose proof (jinv_shape c s2 Kc J2) as Sh2.
  (* the red-black facts, when the state is a red-black tree *)
  assert (Hrb : forall t1 n1 t2 n2, s1 = StRB t1 n1 -> s2 = StRB t2 n2 -> rb_same (kc c) (t1, n1) (t2, n2)).
  { intros t1 n1 t2 n2 -> ->. unfold shape_of in Sh1. apply strb_same; try assumption.
    destruct (ckind c); try contradiction; auto. }
  assert (Heach' : has_enumerable (ckind c) = true -> each_of c s1 = each_of c s2).
  { intros Hen. apply Heach. intros F. rewrite F in Hen. discriminate Hen. }
  destruct o.
  18:{ (* FromJSON *) rewrite !C12_step_result_proof by assumption. reflexivity. }
  18:{ (* Iter *) rewrite !step_iter_result by assumption. rewrite (Hit script). reflexivity. }
  17:{ (* Clear *) rewrite !step_clear_result by assumption. reflexivity. }
  30:{ rewrite !step_sortedf_result by assumption. rewrite Hv. reflexivity. }
  29:{ rewrite !step_sorted_result by assumption. rewrite Hv. reflexivity. }
  15:{ (* Put *)
    destruct (is_kv (ckind c)) eqn:Hkv.
    - rewrite !kv_put_result by assumption. unfold shape_of in Sh1, Sh2.
      destruct (ckind c); try discriminate Kc; destruct s1; try contradiction; destruct s2; try contradiction; reflexivity.
    - unfold shape_of in Sh1, Sh2.
      destruct (ckind c) eqn:K; try discriminate Kc; try discriminate Hkv.
      destruct s1; try contradiction; destruct s2; try contradiction. unfold step. rewrite K. reflexivity. }
  15:{ (* Remove *)
    destruct (is_kv (ckind c)) eqn:Hkv.
    - rewrite !kv_remove_result by assumption. unfold shape_of in Sh1, Sh2.
      destruct (ckind c); try discriminate Kc; destruct s1; try contradiction; destruct s2; try contradiction; reflexivity.
    - unfold shape_of in Sh1, Sh2.
      destruct (ckind c) eqn:K; try discriminate Kc; try discriminate Hkv.
      destruct s1; try contradiction; destruct s2; try contradiction. unfold step. rewrite K. reflexivity. }
  all: unfold shape_of in Sh1, Sh2;
    destruct (ckind c) eqn:K; try discriminate Kc;
    destruct s1; try contradiction; destruct s2; try contradiction;
    unfold step; rewrite ?K; cbn [has_enumerable negb pure fst snd]; try reflexivity.
  all: try (rewrite (Heach' eq_refl); match goal with |- context [each_of ?cc ?ss] => destruct (each_of cc ss) end; reflexivity).
  all: try (match goal with |- set_algebra ?cc ?o _ ?other = _ =>
              destruct (set_algebra_same cc o _ _ _ _ other (Hrb _ _ _ _ eq_refl eq_refl)) as [A B];
              first [exact A|exact B] end).
  (* RemoveVals on a TreeSet *)
  unfold step in N1, N2. rewrite K in N1, N2.
  destruct (rbs_removes (kc c) vs (t, n)) as [[t' n']|]; destruct (rbs_removes (kc c) vs (t0, n0)) as [[t0' n0']|];
    cbn [fst snd] in *; congruence.
Qed.

(* ---------- one step on the content kinds: the entries ---------- *)
Lemma tbidi_lists_eq : forall c f1 fn1 i1 inn1 f2 fn2 i2 inn2,
  tbI (kc c) (vc c) ((f1, fn1), (i1, inn1)) -> tbI (kc c) (vc c) ((f2, fn2), (i2, inn2)) ->
  RB.inorder f1 = RB.inorder f2 ->
  tb_lists ((f1, fn1), (i1, inn1)) = tb_lists ((f2, fn2), (i2, inn2)).
Proof.
  intros c f1 fn1 i1 inn1 f2 fn2 i2 inn2 (_ & _ & L1) (_ & _ & L2) E. unfold tb_lists in *. cbn [fst snd] in *.
  rewrite <- E in L2. rewrite (lbI_inverse_unique (kc c) (vc c) (vc_SWO c) _ _ _ L1 L2), E. reflexivity.
Qed.

Lemma tbidi_step_entries : forall c s1 s2 o, ckind c = TreeBidiMap -> bidi_inv c s1 -> bidi_inv c s2 ->
  entries_of c s1 = entries_of c s2 ->
  entries_of c (fst (fst (step c s1 o))) = entries_of c (fst (fst (step c s2 o))).
Proof.
  intros c s1 s2 o K H1 H2 E. destruct (mutator o) eqn:Hmu.
  2:{ rewrite (bidi_step_observer c s1 o H1 Hmu), (bidi_step_observer c s2 o H2 Hmu). exact E. }
  assert (C1 : s1 <> StCrash) by (intros ->; unfold bidi_inv in H1; rewrite K in H1; exact H1).
  assert (C2 : s2 <> StCrash) by (intros ->; unfold bidi_inv in H2; rewrite K in H2; exact H2).
  destruct o; try discriminate Hmu.
  - (* Put *)
    unfold bidi_inv in H1, H2. rewrite K in H1, H2. destruct s1; try contradiction. destruct s2; try contradiction.
    cbn [entries_of] in E. pose proof (tbidi_lists_eq c _ _ _ _ _ _ _ _ H1 H2 E) as EL.
    destruct (tbidi_put_sim (kc c) (vc c) (MM.kc_SWO c) (vc_SWO c) k v _ H1) as ([[f' fn'] [i' inn']] & E1 & _ & L1).
    destruct (tbidi_put_sim (kc c) (vc c) (MM.kc_SWO c) (vc_SWO c) k v _ H2) as ([[g' gn'] [j' jnn']] & E2 & _ & L2).
    unfold step. rewrite E1, E2. cbn [fst entries_of]. rewrite <- EL in L2. rewrite <- L2 in L1.
    unfold tb_lists in L1. cbn [fst snd] in L1. inversion L1. reflexivity.
  - (* Remove *)
    unfold bidi_inv in H1, H2. rewrite K in H1, H2. destruct s1; try contradiction. destruct s2; try contradiction.
    cbn [entries_of] in E. pose proof (tbidi_lists_eq c _ _ _ _ _ _ _ _ H1 H2 E) as EL.
    destruct (tbidi_remove_sim (kc c) (vc c) (MM.kc_SWO c) (vc_SWO c) k _ H1) as ([[f' fn'] [i' inn']] & E1 & _ & L1).
    destruct (tbidi_remove_sim (kc c) (vc c) (MM.kc_SWO c) (vc_SWO c) k _ H2) as ([[g' gn'] [j' jnn']] & E2 & _ & L2).
    unfold step. rewrite E1, E2. cbn [fst entries_of]. rewrite <- EL in L2. rewrite <- L2 in L1.
    unfold tb_lists in L1. cbn [fst snd] in L1. inversion L1. reflexivity.
  - (* Clear *)
    unfold bidi_inv in H1, H2. rewrite K in H1, H2. destruct s1; try contradiction. destruct s2; try contradiction.
    reflexivity.
  - (* FromJSON *)
    rewrite !step_from_json_gen by assumption. cbn [fst]. rewrite !from_json_body_eq by assumption.
    unfold from_json_body. rewrite K. cbn [is_kv]. destruct d; cbn [fst]; try exact E; reflexivity.
Qed.

Lemma content_step_entries : forall c s1 s2 o, config_ok c -> content_kind (ckind c) = true -> oeq c s1 s2 ->
  entries_of c (fst (fst (step c s1 o))) = entries_of c (fst (fst (step c s2 o))).
Proof.
  intros c s1 s2 o Hc Kc (J1 & J2 & E).
  pose proof (jinv_step c s1 o Hc J1) as N1. pose proof (jinv_step c s2 o Hc J2) as N2.
  destruct (content_kind_cases c Kc) as [Kt|[Ks|Kb]].
  - assert (E' : entries_of c s1 = entries_of c s2) by (destruct (ckind c); try discriminate Kt; exact E).
    pose proof (tree_kind_valid c Hc Kt) as Hv.
    assert (Kl : ckind c <> LinkedHashMap) by (intros F; rewrite F in Kt; discriminate Kt).
    pose proof (jinv_tree_minv c s1 Kt J1) as M1. pose proof (jinv_tree_minv c s2 Kt J2) as M2.
    destruct (MM.step_preserves c s1 o Hv M1) as [M1' A1]. destruct (MM.step_preserves c s2 o Hv M2) as [M2' A2].
    rewrite <- (m_abs_entries c _ M1' Kl), <- (m_abs_entries c _ M2' Kl), A1, A2.
    rewrite (m_abs_entries c s1 M1 Kl), (m_abs_entries c s2 M2 Kl), E'. reflexivity.
  - rewrite Ks in E. unfold jinv in J1, J2. rewrite Ks in J1, J2.
    destruct J1 as (_ & T1 & _). destruct J2 as (_ & T2 & _).
    destruct (MM.ts_step_sim c s1 o Ks T1) as [_ A1]. destruct (MM.ts_step_sim c s2 o Ks T2) as [_ A2].
    rewrite A1, A2, E. reflexivity.
  - rewrite Kb in E. unfold jinv in J1, J2. rewrite Kb in J1, J2. apply tbidi_step_entries; assumption.
Qed.

(* ---------- the equivalence is preserved by every step, with equal answers ---------- *)
Lemma oeq_step : forall c s1 s2 o, config_ok c -> oeq c s1 s2 -> iter_eq c s1 s2 ->
  snd (fst (step c s1 o)) = snd (fst (step c s2 o)) /\
  oeq c (fst (fst (step c s1 o))) (fst (fst (step c s2 o))).
Proof.
  intros c s1 s2 o Hc H Hit. pose proof H as (J1 & J2 & E).
  pose proof (jinv_step c s1 o Hc J1) as N1. pose proof (jinv_step c s2 o Hc J2) as N2.
  destruct (content_kind (ckind c)) eqn:Kc.
  - split; [apply content_step_result; assumption|].
    split; [exact N1|]. split; [exact N2|].
    pose proof (content_step_entries c s1 s2 o Hc Kc H) as E'.
    destruct (ckind c); try discriminate Kc; exact E'.
  - destruct (ckind c) eqn:K; try discriminate Kc; cbv iota in E;
      try (subst s2; split; [reflexivity|]; unfold oeq; rewrite K; split; [exact N1|]; split; [exact N1|reflexivity]).
    (* CircularBuffer *)
    destruct E as (q & R1 & R2).
    assert (H05 : c05_config c) by (apply C05Proofs.ring_config; [exact K|apply Hc; exact K]).
    destruct (ring_step_sim c s1 s2 q o K H05 R1 R2) as (Er & q' & R1' & R2').
    split; [exact Er|]. unfold oeq. rewrite K. split; [exact N1|]. split; [exact N2|]. exists q'. split; assumption.
Qed.

(* the B-tree iterator: the answers of a script depend on the entries only ([bt_script_ok_proof], section 14) *)
Definition bt_script_ok : Prop :=
  forall c ops1 ops2 cs, ckind c = BTree -> 3 <= corder c ->
    entries_of c (run c ops1) = entries_of c (run c ops2) ->
    run_iter c (run c ops1) cs = run_iter c (run c ops2) cs.

Lemma run_snoc1 : forall c ops o, run c (ops ++ [o]) = fst (fst (step c (run c ops) o)).
Proof. intros c ops o. rewrite run_app. reflexivity. Qed.

Theorem oeq_future : forall c, config_ok c -> (ckind c <> BTree \/ bt_script_ok) ->
  forall more ops1 ops2, oeq c (run c ops1) (run c ops2) ->
  results_from c (run c ops1) more = results_from c (run c ops2) more /\
  oeq c (run_from c (run c ops1) more) (run_from c (run c ops2) more).
Proof.
  intros c Hc Hbt. induction more as [|o more IH]; intros ops1 ops2 H; [split; [reflexivity|exact H]|].
  assert (Hit : iter_eq c (run c ops1) (run c ops2)).
  { assert (D : {ckind c = BTree} + {ckind c <> BTree})
      by (destruct (ckind c); (left; reflexivity) || (right; discriminate)).
    destruct D as [K|K]; [|apply oeq_iter_eq; assumption].
    destruct Hbt as [F|Hbt]; [contradiction|]. intros cs. apply Hbt; [exact K|apply Hc; exact K|].
    destruct H as (_ & _ & E). rewrite K in E. exact E. }
  destruct (oeq_step c _ _ o Hc H Hit) as [Er H'].
  cbn [results_from]. rewrite !run_from_cons. rewrite <- !run_snoc1 in *.
  destruct (IH _ _ H') as [Er' H'']. rewrite Er, Er'. split; [reflexivity|exact H''].
Qed.

(* the reloaded container is observationally equivalent to the original *)
Lemma reload_oeq : forall c s, config_ok c -> jinv c s -> oeq c s (fst (reload c s)).
Proof.
  intros c s Hc Hj. pose proof (reload_jinv c s Hc) as Hj'.
  destruct (state_equal_kind (ckind c)) eqn:Kse.
  { rewrite (reload_state_equal c s Hc Kse Hj). cbn [fst]. apply oeq_refl. exact Hj. }
  split; [exact Hj|]. split; [exact Hj'|].
  destruct (ckind c) eqn:K; try discriminate Kse.
  - pose proof (reload_treeset_entries c s K) as E. unfold jinv in E. rewrite K in E.
    unfold jinv in Hj. rewrite K in Hj. symmetry. apply E; assumption.
  - assert (Kt : tree_kind (ckind c) = true) by (rewrite K; reflexivity).
    symmetry. apply reload_tree_entries; [exact Hc|exact Kt|]. apply jinv_tree_minv; [exact Kt|exact Hj].
  - unfold jinv in Hj. rewrite K in Hj. symmetry. apply reload_treebidi_entries; assumption.
  - assert (Kt : tree_kind (ckind c) = true) by (rewrite K; reflexivity).
    symmetry. apply reload_tree_entries; [exact Hc|exact Kt|]. apply jinv_tree_minv; [exact Kt|exact Hj].
  - assert (Kt : tree_kind (ckind c) = true) by (rewrite K; reflexivity).
    symmetry. apply reload_tree_entries; [exact Hc|exact Kt|]. apply jinv_tree_minv; [exact Kt|exact Hj].
  - assert (Kt : tree_kind (ckind c) = true) by (rewrite K; reflexivity).
    symmetry. apply reload_tree_entries; [exact Hc|exact Kt|]. apply jinv_tree_minv; [exact Kt|exact Hj].
  - unfold jinv in Hj. rewrite K in Hj. destruct Hj as (r & -> & Hi & Hm).
    destruct (reload_ring c r K Hc Hi Hm) as (r' & E & (_ & Hi' & Hm' & Hv') & _). rewrite E. cbn [fst].
    exists (Ring.rvalues r). split; apply C05Proofs.R_ring_intro; auto; congruence.
Qed.

(* equivalent states look alike *)
Lemma oeq_equivalent : forall c s1 s2, config_ok c -> oeq c s1 s2 ->
  equiv_content c s1 s2 /\ (ckind c <> BTree -> equiv_iter c s1 s2).
Proof.
  intros c s1 s2 Hc H. destruct (content_kind (ckind c)) eqn:Kc; [apply content_oeq_equiv; assumption|].
  destruct H as (J1 & J2 & E).
  destruct (ckind c) eqn:K; try discriminate Kc; cbv iota in E;
    try (subst s2; split; [apply equiv_content_refl|intros _; split; reflexivity]).
  destruct E as (q & R1 & R2). destruct (R_ring_equiv c s1 s2 q K R1 R2) as (r1 & r2 & -> & -> & HR).
  assert (HE : equivalent c (StRing r1) (StRing r2)) by (apply ring_equivalent; assumption).
  split; [apply HE|intros _; apply HE].
Qed.

(* C11, same future, every kind (BTree: given [bt_script_ok]) *)
Theorem C11_same_future_all_proof : forall c ops more, config_ok c -> (ckind c <> BTree \/ bt_script_ok) ->
  let s := run c ops in
  let s' := fst (reload c s) in
  results_from c s' more = results_from c s more /\
  oeq c (run_from c s more) (run_from c s' more) /\
  equiv_content c (run_from c s more) (run_from c s' more) /\
  (ckind c <> BTree -> equiv_iter c (run_from c s more) (run_from c s' more)).
Proof.
  intros c ops more Hc Hbt s s'.
  pose proof (reload_oeq c s Hc (jinv_run c ops Hc)) as H. fold s' in H.
  unfold s' in *. rewrite (reload_reachable c s Hc) in *. unfold s in *.
  destruct (oeq_future c Hc Hbt more _ _ H) as [Er H'].
  split; [symmetry; exact Er|]. split; [exact H'|]. apply oeq_equivalent; assumption.
Qed.

(* ================================================================================================ *)
(* 13. C11 round trip: the strongest unconditional form                                             *)
(* ================================================================================================ *)
(* FULL statement (proved as [C11_roundtrip_all_proof] in section 14; this section keeps the form
   that does not need the B-tree iterator theorem):
     forall c ops, config_ok c ->
       let s := run c ops in
       let '(s', ok) := from_json c (decode_of (to_json c s)) (init c) in
       ok = true /\ equivalent c s s'.
   [equiv_iter] for ckind c = BTree needs the machine-level theorem that the B-tree iterator
   walks [entries_of] ([bt_iter_ok]); see [C11_roundtrip_full_proof] and section 14. *)
Theorem C11_roundtrip_partial_proof : forall c ops, config_ok c ->
  let s := run c ops in
  let '(s', ok) := reload c s in
  ok = true /\ equiv_content c s s' /\ (ckind c <> BTree -> equiv_iter c s s').
Proof.
  intros c ops Hc s. pose proof (reload_ok c s Hc) as Hok.
  destruct (reload_equiv c s Hc (jinv_run c ops Hc)) as [H1 H2].
  destruct (reload c s) as [s' ok]. cbn [fst snd] in *. split; [assumption|]. split; assumption.
Qed.

Print Assumptions C11_roundtrip_partial_proof.
Print Assumptions C11_roundtrip_full_proof.
Print Assumptions C11_state_equal_proof.
Print Assumptions C11_same_future_proof.
Print Assumptions C11_same_future_all_proof.
Print Assumptions oeq_step.
Print Assumptions jinv_step.
Print Assumptions C12_atomic_proof.
Print Assumptions C12_replaces_proof.
Print Assumptions C12_reachable_proof.
Print Assumptions C12_continues_proof.
Print Assumptions C12_null_empty_proof.
Print Assumptions C12_denotes_map_proof.
Print Assumptions C12_denotes_bidi_proof.
Print Assumptions C12_denotes_set_proof.
Print Assumptions C12_denotes_linkedmap_proof.

(* ================================================================================================ *)
(* 14. the B-tree iterator premises discharged (Proofs/IterTreeMachine.v): C11 for all 21 kinds      *)
(* ================================================================================================ *)
From Gods Require Proofs.IterTreeMachine.

Lemma btree_tree_cfg : forall c, ckind c = BTree -> 3 <= corder c ->
  IterTreeMachine.is_tree_iter_kind (ckind c) = true /\ IterTreeMachine.btree_ok c = true.
Proof.
  intros c K Hb. unfold IterTreeMachine.btree_ok. rewrite K. split; [reflexivity|]. apply Z.leb_le. exact Hb.
Qed.

Lemma btree_iter_seq : forall c s, ckind c = BTree -> IterTreeMachine.tree_iter_seq c s = entries_of c s.
Proof. intros c s K. unfold IterTreeMachine.tree_iter_seq. rewrite K. reflexivity. Qed.

(* the B-tree iterator walks [entries_of], forwards and backwards, after every history *)
Theorem bt_iter_ok_proof : bt_iter_ok.
Proof.
  intros c ops K Hb. destruct (btree_tree_cfg c K Hb) as [Hk Ho]. split.
  - rewrite (IterTreeMachine.each_of_tree_machine c ops Hk Ho), (btree_iter_seq c _ K). reflexivity.
  - exact (IterTreeMachine.each_back_tree_machine c ops Hk Ho).
Qed.

(* the answers of a script depend on the entries only *)
Theorem bt_script_ok_proof : bt_script_ok.
Proof.
  intros c ops1 ops2 cs K Hb E. destruct (btree_tree_cfg c K Hb) as [Hk Ho].
  apply IterTreeMachine.tree_iter_seq_only; [exact Hk|exact Ho|]. rewrite !(btree_iter_seq c _ K). exact E.
Qed.

(* C11 round trip, every kind, iteration clause included *)
Theorem C11_roundtrip_all_proof : forall c ops, config_ok c ->
  let s := run c ops in
  let '(s', ok) := reload c s in
  ok = true /\ equivalent c s s'.
Proof. exact (C11_roundtrip_full_proof bt_iter_ok_proof). Qed.

(* C11 same future, every kind: equal answers to every further operation sequence, and the two
   containers stay equivalent (iteration order included) *)
Theorem C11_same_future_unconditional_proof : forall c ops more, config_ok c ->
  let s := run c ops in
  let s' := fst (reload c s) in
  results_from c s' more = results_from c s more /\
  oeq c (run_from c s more) (run_from c s' more) /\
  equivalent c (run_from c s more) (run_from c s' more).
Proof.
  intros c ops more Hc s s'.
  destruct (C11_same_future_all_proof c ops more Hc (or_intror bt_script_ok_proof)) as (Hr & Ho & Hcont & Hit).
  fold s in Hr, Ho, Hcont, Hit. fold s' in Hr, Ho, Hcont, Hit.
  split; [exact Hr|]. split; [exact Ho|]. split; [exact Hcont|].
  assert (D : {ckind c = BTree} + {ckind c <> BTree}) by (destruct (ckind c); (left; reflexivity) || (right; discriminate)).
  destruct D as [K|K]; [|apply Hit; exact K].
  destruct Hc as [Hb Hring]. specialize (Hb K).
  assert (E1 : run_from c s more = run c (ops ++ more)) by (unfold s; rewrite run_app; reflexivity).
  assert (E2 : run_from c s' more = run c ([FromJSON (decode_of (to_json c s))] ++ more)).
  { unfold s'. rewrite (reload_reachable c s (conj (fun _ => Hb) Hring)), run_app. reflexivity. }
  destruct Hcont as (_ & _ & _ & E & _). rewrite E1, E2 in *.
  destruct (bt_iter_ok_proof c (ops ++ more) K Hb) as [F1 B1].
  destruct (bt_iter_ok_proof c ([FromJSON (decode_of (to_json c s))] ++ more) K Hb) as [F2 B2].
  unfold equiv_iter. rewrite F1, B1, F2, B2, E. split; reflexivity.
Qed.

Print Assumptions bt_iter_ok_proof.
Print Assumptions bt_script_ok_proof.
Print Assumptions C11_roundtrip_all_proof.
Print Assumptions C11_same_future_unconditional_proof.
