(* C08 for the B-tree iterator.  The iterator state is (path of child indices, key of the entry); the Go
   code re-finds the entry in its node, and the separator in every ancestor while climbing, with
   tree.search, so the statements need the tree to be ordered (bst) under a strict weak order, the
   shape invariant (wf_shape) and non-empty nodes (ne_entries).  The descent / climb fuel of the model,
   [fuel_of r] = S (maxheight r), always suffices: no node is deeper than the height of the root. *)
From Coq Require Import ZArith List Bool Lia Arith.
From Gods Require Import Common.Cmp Spec.MapSpec Model.Ops Model.Iter Model.Machine.
From Gods Require Import Model.BTree Model.BTreeIter Proofs.BTreeInd Proofs.BTreeMap Proofs.IterTreeRB.
From Gods Require Proofs.BTreeInv Proofs.MapSpecProofs.
Import ListNotations.

Notation entry := BTree.entry.

(* ---------- sums of counts, offsets ---------- *)
Definition csum (cs : list node) : nat := list_sum (map count cs).

Lemma csum_app : forall a b, csum (a ++ b) = (csum a + csum b)%nat.
Proof. intros a b. unfold csum. rewrite map_app, list_sum_app. reflexivity. Qed.

Lemma csum_firstn_S : forall cs i c, nth_error cs i = Some c ->
  csum (firstn (S i) cs) = (csum (firstn i cs) + count c)%nat.
Proof.
  intros cs i c H. rewrite (firstn_S_nth _ _ _ _ H), csum_app. unfold csum at 2. cbn. lia.
Qed.

Lemma map_len_inorder : forall cs, map (@length entry) (map inorder cs) = map count cs.
Proof.
  intros cs. rewrite map_map. apply map_ext. intros c. symmetry. apply count_inorder_gen.
Qed.

(* number of entries of (N es cs) that precede its child number i *)
Definition off (cs : list node) (i : nat) : nat := (i + csum (firstn i cs))%nat.
(* number of entries of the subtree n that precede its own entry number e *)
Definition erank (n : node) (e : nat) : nat := (e + csum (firstn (S e) (children n)))%nat.
(* number of entries of the tree n that precede the subtree at [path] *)
Fixpoint lo (n : node) (path : list nat) : nat :=
  match path with
  | [] => 0
  | i :: p => match nth_error (children n) i with
              | Some c => off (children n) i + lo c p
              | None => 0
              end
  end.

Lemma node_at_app : forall p q r n, node_at r p = Some n -> node_at r (p ++ q) = node_at n q.
Proof.
  induction p as [|i p IH]; intros q r n H; cbn [node_at app] in *.
  - inversion H; reflexivity.
  - destruct (nth_error (children r) i) as [c|]; [|discriminate]. apply IH. exact H.
Qed.

Lemma lo_app : forall p q r n, node_at r p = Some n -> lo r (p ++ q) = (lo r p + lo n q)%nat.
Proof.
  induction p as [|i p IH]; intros q r n H; cbn [node_at app lo] in *.
  - inversion H; reflexivity.
  - destruct (nth_error (children r) i) as [c|]; [|discriminate]. rewrite (IH q c n H). lia.
Qed.

(* ---------- decompositions of the in-order sequence ---------- *)
Lemma length_pre : forall cs (es : list entry), length cs = length es ->
  length (pre (map inorder cs) es) = (length es + csum cs)%nat.
Proof.
  induction cs as [|c cs IH]; intros es Hl; destruct es as [|e es]; try discriminate; [reflexivity|].
  cbn in Hl. injection Hl as Hl. unfold pre. cbn [map combine concat fst snd].
  fold (pre (map inorder cs) es). rewrite !app_length, (IH es Hl). cbn [length].
  change (csum (c :: cs)) with (count c + csum cs)%nat. rewrite (count_inorder_gen c). lia.
Qed.

Lemma In_pre : forall cs (es : list entry) a, length cs = length es -> In a es -> In a (pre cs es).
Proof.
  induction cs as [|c cs IH]; intros es a Hl Ha; destruct es as [|e es]; try discriminate; [exact Ha|].
  cbn in Hl. injection Hl as Hl. unfold pre. cbn [map combine concat fst snd]. fold (pre cs es).
  apply in_or_app. destruct Ha as [<-|Ha].
  - left. apply in_or_app. right. left. reflexivity.
  - right. apply IH; assumption.
Qed.

Lemma In_post : forall cs (es : list entry) a, length cs = length es -> In a es -> In a (post cs es).
Proof.
  induction cs as [|c cs IH]; intros es a Hl Ha; destruct es as [|e es]; try discriminate; [exact Ha|].
  cbn in Hl. injection Hl as Hl. rewrite post_cons. destruct Ha as [<-|Ha].
  - left. reflexivity.
  - right. apply in_or_app. right. apply IH; assumption.
Qed.

Lemma wf_internal : forall es cs i (c : node), wf_shape (N es cs) -> nth_error cs i = Some c ->
  length cs = S (length es).
Proof.
  intros es cs i c Hwf Hc. apply wf_shape_inv in Hwf. destruct Hwf as [[->|Hl] _]; [|exact Hl].
  destruct i; discriminate.
Qed.

Lemma inorder_child : forall es cs i c, wf_shape (N es cs) -> nth_error cs i = Some c ->
  exists A B, inorder (N es cs) = A ++ inorder c ++ B /\ length A = off cs i /\
    (forall j a, nth_error es j = Some a -> (j < i)%nat -> In a A) /\
    (forall j a, nth_error es j = Some a -> (i <= j)%nat -> In a B).
Proof.
  intros es cs i c Hwf Hc. pose proof (wf_internal _ _ _ _ Hwf Hc) as Hl.
  destruct (split_nth _ _ _ _ Hc) as (cs1 & cs2 & -> & Hl1).
  rewrite app_length in Hl. cbn [length] in Hl.
  destruct (split_at _ es i) as (es1 & es2 & -> & Hl2); [rewrite <- Hl1; lia|].
  rewrite app_length in Hl.
  exists (pre (map inorder cs1) es1), (post (map inorder cs2) es2).
  split; [apply inorder_child_split; lia|]. split; [|split].
  - rewrite length_pre by lia. unfold off. rewrite <- Hl1 at 2. rewrite firstn_app_exact. lia.
  - intros j a Hj Hlt. apply In_pre; [rewrite map_length; lia|].
    rewrite nth_error_app1 in Hj by lia. eapply nth_error_In; exact Hj.
  - intros j a Hj Hle. apply In_post; [rewrite map_length; lia|].
    rewrite nth_error_app2 in Hj by lia. eapply nth_error_In; exact Hj.
Qed.

Lemma inorder_entry : forall es cs e x, wf_shape (N es cs) -> nth_error es e = Some x ->
  exists A B, inorder (N es cs) = A ++ x :: B /\ length A = erank (N es cs) e.
Proof.
  intros es cs e x Hwf Hx. apply wf_shape_inv in Hwf. destruct Hwf as [[->|Hl] _].
  - destruct (split_nth _ _ _ _ Hx) as (es1 & es2 & -> & Hl1).
    exists es1, es2. split; [reflexivity|]. unfold erank. cbn [children]. rewrite firstn_nil.
    unfold csum. cbn. lia.
  - destruct (split_nth _ _ _ _ Hx) as (es1 & es2 & -> & Hl1).
    rewrite app_length in Hl. cbn [length] in Hl.
    destruct (split_at _ cs (S e)) as (csL & csR & -> & HlL); [lia|].
    exists (interleave (map inorder csL) es1), (interleave (map inorder csR) es2). split.
    + cbn [inorder]. rewrite map_app. apply interleave_app_entry'. rewrite map_length. lia.
    + rewrite interleave_length, map_len_inorder. unfold erank. cbn [children].
      rewrite <- HlL, firstn_app_exact. unfold csum. lia.
Qed.

Lemma nth_error_mid : forall (A : Type) (l1 l2 : list A) x k, length l1 = k -> nth_error (l1 ++ x :: l2) k = Some x.
Proof. intros A l1 l2 x k <-. apply nth_error_app_mid. Qed.

(* the entry number e of the node at [path] is the element number lo + erank of the in-order sequence *)
Theorem nth_brank : forall path r n e x, wf_shape r -> node_at r path = Some n ->
  nth_error (entries n) e = Some x ->
  nth_error (inorder r) (lo r path + erank n e) = Some x.
Proof.
  induction path as [|i p IH]; intros r n e x Hwf Hn Hx.
  - cbn [node_at] in Hn. inversion Hn; subst n. cbn [lo]. destruct r as [es cs]. cbn [entries] in Hx.
    destruct (inorder_entry es cs e x Hwf Hx) as (A & B & -> & HA).
    apply nth_error_mid. exact HA.
  - destruct r as [es cs]. cbn [node_at lo children] in *.
    destruct (nth_error cs i) as [c|] eqn:Hc; [|discriminate].
    destruct (inorder_child es cs i c Hwf Hc) as (A & B & -> & HA & _ & _).
    assert (Hwc : wf_shape c).
    { apply wf_shape_inv in Hwf. destruct Hwf as [_ Hf]. rewrite Forall_forall in Hf.
      apply Hf. eapply nth_error_In; exact Hc. }
    pose proof (IH c n e x Hwc Hn Hx) as Hi.
    rewrite nth_error_app2 by lia.
    replace (off cs i + lo c p + erank n e - length A)%nat with (lo c p + erank n e)%nat by lia.
    rewrite nth_error_app1; [exact Hi|]. apply nth_error_Some. rewrite Hi. discriminate.
Qed.

(* ---------- invariants go down to the children ---------- *)
Lemma wf_child : forall es cs i c, wf_shape (N es cs) -> nth_error cs i = Some c -> wf_shape c.
Proof.
  intros es cs i c Hwf Hc. apply wf_shape_inv in Hwf. destruct Hwf as [_ Hf].
  rewrite Forall_forall in Hf. apply Hf. eapply nth_error_In; exact Hc.
Qed.

Lemma ne_child : forall es cs i c, ne_entries (N es cs) -> nth_error cs i = Some c -> ne_entries c.
Proof.
  intros es cs i c Hne Hc. inversion Hne as [es' cs' _ Hf]; subst.
  rewrite Forall_forall in Hf. apply Hf. eapply nth_error_In; exact Hc.
Qed.

Lemma mh_child : forall es cs i c, nth_error cs i = Some c -> (S (maxheight c) <= maxheight (N es cs))%nat.
Proof. intros es cs i c Hc. apply maxheight_child. eapply nth_error_In; exact Hc. Qed.

Lemma maxheight_pos : forall n, (1 <= maxheight n)%nat.
Proof. intros [es cs]. cbn [maxheight]. lia. Qed.

Lemma mh_leaf : forall es cs, (maxheight (N es cs) <= 1)%nat -> cs = [].
Proof.
  intros es [|c cs] H; [reflexivity|]. exfalso.
  pose proof (mh_child es (c :: cs) 0 c eq_refl). pose proof (maxheight_pos c). lia.
Qed.

(* ---------- leftmost / rightmost leaf ---------- *)
Lemma leftmost_spec : forall f c, (maxheight c <= S f)%nat -> wf_shape c -> ne_entries c ->
  exists n' x rest, node_at c (leftmost f c) = Some n' /\ children n' = [] /\
                    entries n' = x :: rest /\ lo c (leftmost f c) = 0.
Proof.
  assert (Hleaf : forall es, ne_entries (N es []) ->
            exists n' x rest, node_at (N es []) [] = Some n' /\ children n' = [] /\
                              entries n' = x :: rest /\ lo (N es []) [] = 0).
  { intros es Hne. inversion Hne as [es' cs' Hes _]; subst. destruct es as [|x rest]; [congruence|].
    exists (N (x :: rest) []), x, rest. repeat split. }
  induction f as [|f IH]; intros [es cs] Hh Hwf Hne.
  - apply mh_leaf in Hh. subst cs. cbn [leftmost]. apply Hleaf. exact Hne.
  - cbn [leftmost children]. destruct cs as [|c0 cs'].
    + apply Hleaf. exact Hne.
    + pose proof (mh_child es (c0 :: cs') 0 c0 eq_refl) as Hm.
      destruct (IH c0) as (n' & x & rest & H1 & H2 & H3 & H4).
      * lia.
      * exact (wf_child _ _ 0 _ Hwf eq_refl).
      * exact (ne_child _ _ 0 _ Hne eq_refl).
      * exists n', x, rest. cbn [node_at lo children nth_error]. rewrite H4.
        repeat split; assumption.
Qed.

Lemma rightmost_S : forall f es cs,
  rightmost (S f) (N es cs) =
  match nth_error cs (length cs - 1) with
  | Some c => (length cs - 1)%nat :: rightmost f c
  | None => []
  end.
Proof. intros f es cs. destruct cs; reflexivity. Qed.

Lemma rightmost_spec : forall f c, (maxheight c <= S f)%nat -> wf_shape c -> ne_entries c ->
  exists n' x, node_at c (rightmost f c) = Some n' /\ children n' = [] /\
               nth_error (entries n') (length (entries n') - 1) = Some x /\
               S (lo c (rightmost f c) + (length (entries n') - 1)) = count c.
Proof.
  assert (Hleaf : forall es, ne_entries (N es []) ->
            exists n' x, node_at (N es []) [] = Some n' /\ children n' = [] /\
                         nth_error (entries n') (length (entries n') - 1) = Some x /\
                         S (lo (N es []) [] + (length (entries n') - 1)) = count (N es [])).
  { intros es Hne. inversion Hne as [es' cs' Hes _]; subst.
    assert (Hl : (0 < length es)%nat) by (destruct es; [congruence|cbn; lia]).
    destruct (nth_error es (length es - 1)) as [x|] eqn:Hx; [|apply nth_error_None in Hx; lia].
    exists (N es []), x. cbn [node_at children entries lo count map].
    split; [reflexivity|]. split; [reflexivity|]. split; [exact Hx|]. cbn. lia. }
  induction f as [|f IH]; intros [es cs] Hh Hwf Hne.
  - apply mh_leaf in Hh. subst cs. cbn [rightmost]. apply Hleaf. exact Hne.
  - rewrite rightmost_S. destruct (nth_error cs (length cs - 1)) as [c0|] eqn:Hc.
    + pose proof (mh_child es cs _ c0 Hc) as Hm.
      pose proof (wf_internal _ _ _ _ Hwf Hc) as Hl.
      destruct (IH c0) as (n' & x & H1 & H2 & H3 & H4).
      * lia.
      * exact (wf_child _ _ _ _ Hwf Hc).
      * exact (ne_child _ _ _ _ Hne Hc).
      * exists n', x. cbn [node_at lo children]. rewrite Hc.
        split; [exact H1|]. split; [exact H2|]. split; [exact H3|].
        cbn [count]. fold (csum cs).
        assert (Hcs : csum cs = (csum (firstn (length cs - 1) cs) + count c0)%nat).
        { rewrite <- (csum_firstn_S cs _ c0 Hc). f_equal. symmetry. apply firstn_all2. lia. }
        unfold off. lia.
    + assert (cs = []) as -> by (destruct cs as [|c1 cs1]; [reflexivity|apply nth_error_None in Hc; cbn [length] in Hc; lia]).
      apply Hleaf. exact Hne.
Qed.

Lemma erank_leaf : forall n e, children n = [] -> erank n e = e.
Proof. intros n e H. unfold erank. rewrite H, firstn_nil. unfold csum. cbn. lia. Qed.

Lemma node_at_prefix : forall p q r n, node_at r (p ++ q) = Some n -> exists n1, node_at r p = Some n1.
Proof.
  induction p as [|i p IH]; intros q r n H; cbn [node_at app] in *.
  - exists r. reflexivity.
  - destruct (nth_error (children r) i) as [c|]; [|discriminate]. eapply IH. exact H.
Qed.

Lemma node_at_removelast : forall p r n, node_at r p = Some n -> exists n1, node_at r (removelast p) = Some n1.
Proof.
  intros p r n H. destruct p as [|i p]; [exists r; reflexivity|].
  rewrite (app_removelast_last 0 (l := i :: p)) in H by discriminate.
  eapply node_at_prefix. exact H.
Qed.

Lemma removelast_cons2 : forall (A : Type) (i j : A) p, removelast (i :: j :: p) = i :: removelast (j :: p).
Proof. reflexivity. Qed.

Lemma length_removelast : forall (A : Type) (p : list A), length (removelast p) = (length p - 1)%nat.
Proof.
  intros A p. induction p as [|i p IH]; [reflexivity|].
  destruct p as [|j p]; [reflexivity|]. rewrite removelast_cons2. cbn [length] in *. lia.
Qed.

Lemma nth_In_firstn : forall (A : Type) (l : list A) i k b, nth_error l i = Some b -> (i < k)%nat -> In b (firstn k l).
Proof.
  intros A l i k b H Hik. assert (Hi : (i < length l)%nat) by (apply nth_error_Some; congruence).
  rewrite <- (firstn_skipn k l) in H. rewrite nth_error_app1 in H by (rewrite firstn_length; lia).
  eapply nth_error_In; exact H.
Qed.

(* ====================================================================================== *)
Section WithCmp.
Variable cmp : cmpf.
Hypothesis Hswo : SWO cmp.

Notation bst := (bst cmp).

Lemma bst_child : forall es cs i c, wf_shape (N es cs) -> bst (N es cs) -> nth_error cs i = Some c -> bst c.
Proof using Hswo.
  intros es cs i c Hwf Hb Hc. unfold BTreeMap.bst in *.
  destruct (inorder_child es cs i c Hwf Hc) as (A & B & E & _). rewrite E in Hb.
  apply ksorted_app in Hb. destruct Hb as (_ & Hb & _).
  apply ksorted_app in Hb. destruct Hb as (Hb & _ & _). exact Hb.
Qed.

(* everything about the node reached by a valid path *)
Lemma node_at_inv : forall p r n, wf_shape r -> ne_entries r -> bst r -> node_at r p = Some n ->
  wf_shape n /\ ne_entries n /\ bst n /\ (length p + maxheight n <= maxheight r)%nat.
Proof using Hswo.
  induction p as [|i p IH]; intros r n Hwf Hne Hb Hn; cbn [node_at] in Hn.
  - inversion Hn; subst. cbn [length]. repeat split; try assumption. lia.
  - destruct r as [es cs]. cbn [children] in Hn. destruct (nth_error cs i) as [c|] eqn:Hc; [|discriminate].
    destruct (IH c n (wf_child _ _ _ _ Hwf Hc) (ne_child _ _ _ _ Hne Hc) (bst_child _ _ _ _ Hwf Hb Hc) Hn)
      as (H1 & H2 & H3 & H4).
    pose proof (mh_child es cs i c Hc). cbn [length]. repeat split; try assumption. lia.
Qed.

Lemma node_at_In : forall p r n x, wf_shape r -> node_at r p = Some n -> In x (inorder n) -> In x (inorder r).
Proof.
  induction p as [|i p IH]; intros r n x Hwf Hn Hx; cbn [node_at] in Hn.
  - inversion Hn; subst. exact Hx.
  - destruct r as [es cs]. cbn [children] in Hn. destruct (nth_error cs i) as [c|] eqn:Hc; [|discriminate].
    destruct (inorder_child es cs i c Hwf Hc) as (A & B & -> & _).
    apply in_or_app. right. apply in_or_app. left.
    exact (IH c n x (wf_child _ _ _ _ Hwf Hc) Hn Hx).
Qed.

(* ---------- tree.search finds the position again ---------- *)
Lemma search_pos : forall key (es : list entry) i, ksorted cmp es -> (i <= length es)%nat ->
  (forall j a, nth_error es j = Some a -> (j < i)%nat -> cmp key (fst a) = Gt) ->
  (forall j a, nth_error es j = Some a -> (i <= j)%nat -> cmp key (fst a) <> Gt) ->
  fst (search cmp key es) = i.
Proof.
  intros key es i Hs Hi H1 H2. pose proof (search_spec cmp Hswo key es Hs) as H.
  destruct (search cmp key es) as [pos found]. destruct H as (Hb & HG & HF). cbn [fst].
  destruct (lt_eq_lt_dec pos i) as [[Hlt|Heq]|Hgt]; [exfalso|exact Heq|exfalso].
  - destruct (nth_error es pos) as [a|] eqn:Ha; [|apply nth_error_None in Ha; lia].
    pose proof (H1 pos a Ha Hlt) as Hg. destruct found.
    + destruct HF as (e0 & He0 & Heq). congruence.
    + assert (Hin : In a (skipn pos es)) by (rewrite (skipn_nth_cons _ _ _ _ Ha); left; reflexivity).
      specialize (HF a Hin). congruence.
  - destruct (nth_error es i) as [b|] eqn:Hb'; [|apply nth_error_None in Hb'; lia].
    exact (H2 i b Hb' (le_n _) (HG b (nth_In_firstn _ _ _ _ _ Hb' Hgt))).
Qed.

Lemma search_entry : forall (es : list entry) e x, ksorted cmp es -> nth_error es e = Some x ->
  fst (search cmp (fst x) es) = e.
Proof.
  intros es e x Hs Hx. apply search_pos; [exact Hs| | |].
  - assert (e < length es)%nat by (apply nth_error_Some; congruence). lia.
  - intros j a Ha Hj. apply (cmp_gt_lt cmp Hswo).
    eapply ksorted_nth with (i := j) (j := e); eassumption.
  - intros j a Ha Hj. destruct (Nat.eq_dec j e) as [->|Hne].
    + assert (a = x) by congruence. subst a. rewrite (swo_refl cmp Hswo). discriminate.
    + assert (Hlt : cmp (fst x) (fst a) = Lt).
      { eapply ksorted_nth with (i := e) (j := j); try eassumption. lia. }
      rewrite Hlt. discriminate.
Qed.

Lemma search_child : forall es cs i c x, wf_shape (N es cs) -> bst (N es cs) ->
  nth_error cs i = Some c -> In x (inorder c) -> fst (search cmp (fst x) es) = i.
Proof.
  intros es cs i c x Hwf Hb Hc Hx.
  pose proof (wf_internal _ _ _ _ Hwf Hc) as Hl.
  assert (Hi : (i < length cs)%nat) by (apply nth_error_Some; congruence).
  assert (Hes : ksorted cmp es) by (eapply bst_entries; eassumption).
  destruct (inorder_child es cs i c Hwf Hc) as (A & B & E & _ & HA & HB).
  unfold BTreeMap.bst in Hb. rewrite E in Hb.
  apply ksorted_app in Hb. destruct Hb as (_ & Hb2 & HAB).
  apply ksorted_app in Hb2. destruct Hb2 as (_ & _ & HcB).
  apply search_pos; [exact Hes|lia| |].
  - intros j a Ha Hj. apply (cmp_gt_lt cmp Hswo). apply HAB; [exact (HA j a Ha Hj)|].
    apply in_or_app. left. exact Hx.
  - intros j a Ha Hj. rewrite (HcB x a Hx (HB j a Ha Hj)). discriminate.
Qed.

Lemma find_key : forall (es : list entry) e k v, ksorted cmp es -> nth_error es e = Some (k, v) ->
  find (fun x => Z.eqb (fst x) k) es = Some (k, v).
Proof.
  induction es as [|a es IH]; intros e k v Hs He; [destruct e; discriminate|].
  apply ksorted_cons in Hs. destruct Hs as [Hs Ha].
  destruct e as [|e]; cbn [nth_error find] in *.
  - inversion He; subst. cbn [fst]. rewrite Z.eqb_refl. reflexivity.
  - destruct (Z.eqb (fst a) k) eqn:E.
    + exfalso. apply Z.eqb_eq in E. pose proof (Ha (k, v) (nth_error_In _ _ He)) as Hlt.
      cbn [fst] in Hlt. rewrite E, (swo_refl cmp Hswo) in Hlt. discriminate.
    + exact (IH e k v Hs He).
Qed.
End WithCmp.

(* ====================================================================================== *)
Section Steps.
Variable cmp : cmpf.
Hypothesis Hswo : SWO cmp.
Notation bst := (bst cmp).

(* ---------- climbing, expressed from the root downwards ---------- *)
Lemma climb_next_S : forall root f path key, path <> [] ->
  climb_next cmp root (S f) path key =
  match node_at root (removelast path) with
  | None => IEnd
  | Some n =>
    match key_at_idx n (fst (search cmp key (entries n))) with
    | Some k => IBetween (removelast path) k
    | None => climb_next cmp root f (removelast path) key
    end
  end.
Proof. intros root f path key H. destruct path; [congruence|reflexivity]. Qed.

Lemma climb_next_nil : forall root f key, climb_next cmp root f [] key = IEnd.
Proof. intros root f key. destruct f; reflexivity. Qed.

Lemma climb_prev_S : forall root f path key, path <> [] ->
  climb_prev cmp root (S f) path key =
  match node_at root (removelast path) with
  | None => IBegin
  | Some n =>
    let e := fst (search cmp key (entries n)) in
    if (1 <=? e)%nat then
      match key_at_idx n (e - 1) with Some k => IBetween (removelast path) k | None => IBegin end
    else climb_prev cmp root f (removelast path) key
  end.
Proof. intros root f path key H. destruct path; [congruence|reflexivity]. Qed.

Lemma climb_prev_nil : forall root f key, climb_prev cmp root f [] key = IBegin.
Proof. intros root f key. destruct f; reflexivity. Qed.

Lemma climb_next_cons : forall f es cs i c p n key,
  nth_error cs i = Some c -> node_at c p = Some n -> (length p < f)%nat ->
  climb_next cmp (N es cs) f (i :: p) key =
  match climb_next cmp c f p key with
  | IBetween q k => IBetween (i :: q) k
  | IEnd => match key_at_idx (N es cs) (fst (search cmp key es)) with
            | Some k => IBetween [] k
            | None => IEnd
            end
  | IBegin => IBegin
  end.
Proof.
  induction f as [|f IH]; intros es cs i c p n key Hc Hn Hlen; [lia|].
  destruct p as [|j p'].
  - rewrite climb_next_S by discriminate. cbn [removelast node_at entries].
    rewrite !climb_next_nil. reflexivity.
  - rewrite (climb_next_S (N es cs)) by discriminate. rewrite (climb_next_S c) by discriminate.
    rewrite removelast_cons2. cbn [node_at children]. rewrite Hc.
    destruct (node_at_removelast _ _ _ Hn) as (n1 & Hn1). rewrite Hn1.
    destruct (key_at_idx n1 (fst (search cmp key (entries n1)))) as [k|]; [reflexivity|].
    apply (IH es cs i c _ n1 key Hc Hn1).
    rewrite length_removelast. cbn [length] in *. lia.
Qed.

Lemma key_at_idx_None : forall n e, key_at_idx n e = None -> (length (entries n) <= e)%nat.
Proof.
  intros n e H. unfold key_at_idx in H.
  destruct (nth_error (entries n) e) as [[k v]|] eqn:E; [discriminate|]. apply nth_error_None. exact E.
Qed.

Lemma climb_prev_cons : forall f es cs i c p n key,
  nth_error cs i = Some c -> node_at c p = Some n -> (length p < f)%nat ->
  climb_prev cmp (N es cs) f (i :: p) key =
  match climb_prev cmp c f p key with
  | IBetween q k => IBetween (i :: q) k
  | IBegin => if (1 <=? fst (search cmp key es))%nat
              then match key_at_idx (N es cs) (fst (search cmp key es) - 1) with
                   | Some k => IBetween [] k
                   | None => IBegin
                   end
              else IBegin
  | IEnd => IEnd
  end.
Proof.
  induction f as [|f IH]; intros es cs i c p n key Hc Hn Hlen; [lia|].
  destruct p as [|j p'].
  - rewrite climb_prev_S by discriminate. cbn [removelast node_at entries].
    rewrite !climb_prev_nil. reflexivity.
  - rewrite (climb_prev_S (N es cs)) by discriminate. rewrite (climb_prev_S c) by discriminate.
    rewrite removelast_cons2. cbn [node_at children]. rewrite Hc.
    destruct (node_at_removelast _ _ _ Hn) as (n1 & Hn1). rewrite Hn1. cbv zeta.
    destruct (search cmp key (entries n1)) as [e1 found] eqn:Es. cbn [fst].
    destruct (1 <=? e1)%nat eqn:E1.
    + destruct (key_at_idx n1 (e1 - 1)) as [k|] eqn:Ek; [reflexivity|].
      exfalso. apply key_at_idx_None in Ek. apply Nat.leb_le in E1.
      pose proof (search_bound _ _ _ _ _ Es) as [Hb _]. lia.
    + apply (IH es cs i c _ n1 key Hc Hn1).
      rewrite length_removelast. cbn [length] in *. lia.
Qed.

(* the entry the iterator is on: node n at [path], entry number e, key [key] *)
Definition at_entry (r : node) (path : list nat) (key : Z) (n : node) (e : nat) : Prop :=
  node_at r path = Some n /\ exists v, nth_error (entries n) e = Some (key, v).

Lemma climb_next_spec : forall p r n f key v, wf_shape r -> bst r -> node_at r p = Some n ->
  In (key, v) (inorder n) -> (length p <= f)%nat ->
  match climb_next cmp r f p key with
  | IBetween q k => exists n' e', at_entry r q k n' e' /\ (lo r q + erank n' e' = lo r p + count n)%nat
  | IEnd => (lo r p + count n = count r)%nat
  | IBegin => False
  end.
Proof.
  induction p as [|i p IH]; intros r n f key v Hwf Hb Hn Hin Hlen.
  - rewrite climb_next_nil. cbn [node_at] in Hn. inversion Hn; subst. reflexivity.
  - destruct r as [es cs]. cbn [node_at children] in Hn.
    destruct (nth_error cs i) as [c|] eqn:Hc; [|discriminate].
    cbn [length] in Hlen. rewrite (climb_next_cons f es cs i c p n key Hc Hn) by lia.
    pose proof (wf_child _ _ _ _ Hwf Hc) as Hwc. pose proof (bst_child cmp Hswo _ _ _ _ Hwf Hb Hc) as Hbc.
    specialize (IH c n f key v Hwc Hbc Hn Hin). 
    assert (Hlo : lo (N es cs) (i :: p) = (off cs i + lo c p)%nat) by (cbn [lo children]; rewrite Hc; reflexivity).
    rewrite Hlo.
    destruct (climb_next cmp c f p key) as [| |q k].
    + apply IH. lia.
    + assert (IH' : (lo c p + count n = count c)%nat) by (apply IH; lia). clear IH.
      pose proof (search_child cmp Hswo es cs i c (key, v) Hwf Hb Hc (node_at_In p c n _ Hwc Hn Hin)) as Hs.
      cbn [fst] in Hs. rewrite Hs.
      pose proof (wf_internal _ _ _ _ Hwf Hc) as Hl.
      assert (Hi : (i < length cs)%nat) by (apply nth_error_Some; congruence).
      pose proof (csum_firstn_S cs i c Hc) as Hsum.
      destruct (key_at_idx (N es cs) i) as [k|] eqn:Ek.
      * unfold key_at_idx in Ek. cbn [entries] in Ek.
        destruct (nth_error es i) as [[k' v']|] eqn:Ee; [|discriminate]. inversion Ek; subst k'.
        exists (N es cs), i. split.
        -- split; [reflexivity|]. exists v'. exact Ee.
        -- cbn [lo]. unfold erank, off. cbn [children]. lia.
      * apply key_at_idx_None in Ek. cbn [entries] in Ek. cbn [count]. fold (csum cs).
        assert (Hall : firstn (S i) cs = cs) by (apply firstn_all2; lia).
        rewrite Hall in Hsum. unfold off. lia.
    + destruct IH as (n' & e' & [Hq He] & Hr); [lia|].
      exists n', e'. split.
      * split; [|exact He]. cbn [node_at children]. rewrite Hc. exact Hq.
      * cbn [lo children]. rewrite Hc. lia.
Qed.

Lemma climb_prev_spec : forall p r n f key v, wf_shape r -> bst r -> node_at r p = Some n ->
  In (key, v) (inorder n) -> (length p <= f)%nat ->
  match climb_prev cmp r f p key with
  | IBetween q k => exists n' e', at_entry r q k n' e' /\ S (lo r q + erank n' e') = lo r p
  | IBegin => lo r p = 0%nat
  | IEnd => False
  end.
Proof.
  induction p as [|i p IH]; intros r n f key v Hwf Hb Hn Hin Hlen.
  - rewrite climb_prev_nil. reflexivity.
  - destruct r as [es cs]. cbn [node_at children] in Hn.
    destruct (nth_error cs i) as [c|] eqn:Hc; [|discriminate].
    cbn [length] in Hlen. rewrite (climb_prev_cons f es cs i c p n key Hc Hn) by lia.
    pose proof (wf_child _ _ _ _ Hwf Hc) as Hwc. pose proof (bst_child cmp Hswo _ _ _ _ Hwf Hb Hc) as Hbc.
    specialize (IH c n f key v Hwc Hbc Hn Hin).
    assert (Hlo : lo (N es cs) (i :: p) = (off cs i + lo c p)%nat) by (cbn [lo children]; rewrite Hc; reflexivity).
    rewrite Hlo.
    destruct (climb_prev cmp c f p key) as [| |q k].
    + assert (IH' : lo c p = 0%nat) by (apply IH; lia). clear IH.
      pose proof (search_child cmp Hswo es cs i c (key, v) Hwf Hb Hc (node_at_In p c n _ Hwc Hn Hin)) as Hs.
      cbn [fst] in Hs. rewrite Hs.
      pose proof (wf_internal _ _ _ _ Hwf Hc) as Hl.
      assert (Hi : (i < length cs)%nat) by (apply nth_error_Some; congruence).
      destruct (1 <=? i)%nat eqn:E1.
      * apply Nat.leb_le in E1.
        destruct (key_at_idx (N es cs) (i - 1)) as [k|] eqn:Ek.
        -- unfold key_at_idx in Ek. cbn [entries] in Ek.
           destruct (nth_error es (i - 1)) as [[k' v']|] eqn:Ee; [|discriminate]. inversion Ek; subst k'.
           exists (N es cs), (i - 1)%nat. split.
           ++ split; [reflexivity|]. exists v'. exact Ee.
           ++ cbn [lo]. unfold erank, off. cbn [children].
              replace (S (i - 1)) with i by lia. lia.
        -- apply key_at_idx_None in Ek. cbn [entries] in Ek. lia.
      * apply Nat.leb_gt in E1. assert (i = 0)%nat as -> by lia. unfold off. cbn [firstn]. unfold csum. cbn. lia.
    + apply IH. lia.
    + destruct IH as (n' & e' & [Hq He] & Hr); [lia|].
      exists n', e'. split.
      * split; [|exact He]. cbn [node_at children]. rewrite Hc. exact Hq.
      * cbn [lo children]. rewrite Hc. lia.
Qed.
End Steps.

(* ====================================================================================== *)
Section Iterator.
Variable cmp : cmpf.
Hypothesis Hswo : SWO cmp.
Notation bst := (bst cmp).

(* the invariants of a (non-nil) root under which the iterator is a cursor *)
Definition good (r : node) : Prop :=
  wf_shape r /\ ne_entries r /\ bst r.

Lemma fuel_root : forall r, (maxheight r <= S (fuel_of r))%nat.
Proof. intros r. unfold fuel_of. lia. Qed.

Lemma first_key_cons : forall n x rest, entries n = x :: rest -> first_key n = Some (fst x).
Proof. intros n [k v] rest H. unfold first_key. rewrite H. reflexivity. Qed.

Lemma last_key_nth : forall n x, nth_error (entries n) (length (entries n) - 1) = Some x ->
  last_key n = Some (fst x).
Proof. intros n [k v] H. unfold last_key, last_opt. rewrite H. reflexivity. Qed.

(* (1)+(2): the first / last position *)
Theorem bt_inext_begin : forall r, good r ->
  exists q k n' e', inext cmp (Some r) IBegin = IBetween q k /\ at_entry r q k n' e' /\
                    (lo r q + erank n' e' = 0)%nat.
Proof.
  intros r (Hwf & Hne & Hb).
  destruct (leftmost_spec (fuel_of r) r (fuel_root r) Hwf Hne) as (n' & x & rest & H1 & H2 & H3 & H4).
  exists (leftmost (fuel_of r) r), (fst x), n', 0%nat. cbn [inext]. rewrite H1, (first_key_cons _ _ _ H3).
  split; [reflexivity|]. split.
  - split; [exact H1|]. exists (snd x). rewrite H3. destruct x; reflexivity.
  - rewrite H4, (erank_leaf _ _ H2). reflexivity.
Qed.

Theorem bt_iprev_end : forall r, good r ->
  exists q k n' e', iprev cmp (Some r) IEnd = IBetween q k /\ at_entry r q k n' e' /\
                    S (lo r q + erank n' e') = count r.
Proof.
  intros r (Hwf & Hne & Hb).
  destruct (rightmost_spec (fuel_of r) r (fuel_root r) Hwf Hne) as (n' & x & H1 & H2 & H3 & H4).
  exists (rightmost (fuel_of r) r), (fst x), n', (length (entries n') - 1)%nat. cbn [iprev].
  rewrite H1, (last_key_nth _ _ H3).
  split; [reflexivity|]. split.
  - split; [exact H1|]. exists (snd x). rewrite H3. destruct x; reflexivity.
  - rewrite (erank_leaf _ _ H2). exact H4.
Qed.

(* (3)+(4): the successor step *)
Theorem bt_inext_spec : forall r path key n e, good r -> at_entry r path key n e ->
  match inext cmp (Some r) (IBetween path key) with
  | IBetween q k => exists n' e', at_entry r q k n' e' /\ (lo r q + erank n' e' = S (lo r path + erank n e))%nat
  | IEnd => S (lo r path + erank n e) = count r
  | IBegin => False
  end.
Proof.
  intros r path key n e (Hwf & Hne & Hb) [Hn [v He]].
  destruct (node_at_inv cmp Hswo path r n Hwf Hne Hb Hn) as (Hwn & Hnn & Hbn & Hhn).
  cbn [inext]. rewrite Hn. destruct n as [es cs]. cbn [entries children] in *.
  assert (Hes : ksorted cmp es) by (eapply bst_entries; eassumption).
  pose proof (search_entry cmp Hswo es e (key, v) Hes He) as Hs. cbn [fst] in Hs. rewrite Hs.
  assert (Hel : (e < length es)%nat) by (apply nth_error_Some; congruence).
  replace (e + 1)%nat with (S e) by lia.
  destruct (nth_error cs (S e)) as [c|] eqn:Hc.
  - (* internal node: leftmost leaf of the child after the entry *)
    pose proof (mh_child es cs _ c Hc) as Hm.
    destruct (leftmost_spec (fuel_of r) c) as (n' & x & rest & H1 & H2 & H3 & H4);
      [unfold fuel_of; lia|exact (wf_child _ _ _ _ Hwn Hc)|exact (ne_child _ _ _ _ Hnn Hc)|].
    assert (Hp : node_at r (path ++ S e :: leftmost (fuel_of r) c) = Some n').
    { rewrite (node_at_app _ _ _ _ Hn). cbn [node_at children]. rewrite Hc. exact H1. }
    rewrite Hp, (first_key_cons _ _ _ H3).
    exists n', 0%nat. split.
    + split; [exact Hp|]. exists (snd x). rewrite H3. destruct x; reflexivity.
    + rewrite (lo_app _ _ _ _ Hn). cbn [lo children]. rewrite Hc, H4, (erank_leaf _ _ H2).
      unfold erank, off. cbn [children]. lia.
  - (* leaf *)
    assert (cs = []) as ->.
    { apply wf_shape_inv in Hwn. destruct Hwn as [[->|Hl] _]; [reflexivity|].
      apply nth_error_None in Hc. lia. }
    unfold key_at_idx. cbn [entries].
    destruct (nth_error es (S e)) as [[k v']|] eqn:Hk.
    + (* (3) next entry of the same leaf *)
      exists (N es []), (S e). split.
      * split; [exact Hn|]. exists v'. exact Hk.
      * rewrite !erank_leaf by reflexivity. lia.
    + (* (4) climb *)
      apply nth_error_None in Hk.
      pose proof (maxheight_pos (N es [])) as Hpos.
      assert (Hin : In (key, v) (inorder (N es []))) by (cbn; eapply nth_error_In; exact He).
      pose proof (climb_next_spec cmp Hswo path r (N es []) (fuel_of r) key v Hwf Hb Hn Hin) as Hcl.
      assert (Hfl : (length path <= fuel_of r)%nat) by (unfold fuel_of; lia).
      rewrite erank_leaf by reflexivity.
      assert (Hcount : count (N es []) = S e) by (cbn; lia).
      rewrite Hcount in Hcl.
      destruct (climb_next cmp r (fuel_of r) path key) as [| |q k].
      * apply Hcl. lia.
      * rewrite <- Hcl by lia. lia.
      * destruct Hcl as (n' & e' & Ha & Hr); [lia|]. exists n', e'. split; [exact Ha|lia].
Qed.

Theorem bt_iprev_spec : forall r path key n e, good r -> at_entry r path key n e ->
  match iprev cmp (Some r) (IBetween path key) with
  | IBetween q k => exists n' e', at_entry r q k n' e' /\ S (lo r q + erank n' e') = (lo r path + erank n e)%nat
  | IBegin => (lo r path + erank n e = 0)%nat
  | IEnd => False
  end.
Proof.
  intros r path key n e (Hwf & Hne & Hb) [Hn [v He]].
  destruct (node_at_inv cmp Hswo path r n Hwf Hne Hb Hn) as (Hwn & Hnn & Hbn & Hhn).
  cbn [iprev]. rewrite Hn. destruct n as [es cs]. cbn [entries children] in *.
  assert (Hes : ksorted cmp es) by (eapply bst_entries; eassumption).
  pose proof (search_entry cmp Hswo es e (key, v) Hes He) as Hs. cbn [fst] in Hs. rewrite Hs.
  assert (Hel : (e < length es)%nat) by (apply nth_error_Some; congruence).
  destruct (nth_error cs e) as [c|] eqn:Hc.
  - (* internal node: rightmost leaf of the child before the entry *)
    pose proof (mh_child es cs _ c Hc) as Hm.
    destruct (rightmost_spec (fuel_of r) c) as (n' & x & H1 & H2 & H3 & H4);
      [unfold fuel_of; lia|exact (wf_child _ _ _ _ Hwn Hc)|exact (ne_child _ _ _ _ Hnn Hc)|].
    assert (Hp : node_at r (path ++ e :: rightmost (fuel_of r) c) = Some n').
    { rewrite (node_at_app _ _ _ _ Hn). cbn [node_at children]. rewrite Hc. exact H1. }
    rewrite Hp, (last_key_nth _ _ H3).
    exists n', (length (entries n') - 1)%nat. split.
    + split; [exact Hp|]. exists (snd x). rewrite H3. destruct x; reflexivity.
    + rewrite (lo_app _ _ _ _ Hn). cbn [lo children]. rewrite Hc, (erank_leaf _ _ H2).
      unfold erank. cbn [children]. rewrite (csum_firstn_S cs e c Hc). unfold off. lia.
  - (* leaf *)
    assert (cs = []) as ->.
    { apply wf_shape_inv in Hwn. destruct Hwn as [[->|Hl] _]; [reflexivity|].
      apply nth_error_None in Hc. lia. }
    destruct (1 <=? e)%nat eqn:E1.
    + apply Nat.leb_le in E1. unfold key_at_idx. cbn [entries].
      destruct (nth_error es (e - 1)) as [[k v']|] eqn:Hk.
      * exists (N es []), (e - 1)%nat. split.
        -- split; [exact Hn|]. exists v'. exact Hk.
        -- rewrite !erank_leaf by reflexivity. lia.
      * apply nth_error_None in Hk. lia.
    + apply Nat.leb_gt in E1. assert (e = 0)%nat as -> by lia.
      pose proof (maxheight_pos (N es [])) as Hpos.
      assert (Hin : In (key, v) (inorder (N es []))) by (cbn; eapply nth_error_In; exact He).
      pose proof (climb_prev_spec cmp Hswo path r (N es []) (fuel_of r) key v Hwf Hb Hn Hin) as Hcl.
      assert (Hfl : (length path <= fuel_of r)%nat) by (unfold fuel_of; lia).
      rewrite erank_leaf by reflexivity.
      destruct (climb_prev cmp r (fuel_of r) path key) as [| |q k].
      * rewrite Hcl by lia. reflexivity.
      * apply Hcl. lia.
      * destruct Hcl as (n' & e' & Ha & Hr); [lia|]. exists n', e'. split; [exact Ha|lia].
Qed.
End Iterator.

(* ====================================================================================== *)
(* abstraction to cursor positions and the simulation                                       *)
(* ====================================================================================== *)
Section BTSim.
Local Open Scope Z_scope.
Variable cmp : cmpf.
Hypothesis Hswo : SWO cmp.

Definition bt_good (r : option node) : Prop := match r with Some rt => good cmp rt | None => True end.

Definition bt_valid (r : option node) (it : ipos) : Prop :=
  match it with
  | IBetween path key => match r with
                         | Some rt => exists n e, at_entry rt path key n e
                         | None => False
                         end
  | _ => True
  end.

Definition bt_pos (r : option node) (it : ipos) : Z :=
  match it with
  | IBegin => -1
  | IEnd => Z.of_nat (length (bt_inorder r))
  | IBetween path key =>
    match r with
    | Some rt => match node_at rt path with
                 | Some n => Z.of_nat (lo rt path + erank n (fst (search cmp key (entries n))))
                 | None => -1
                 end
    | None => -1
    end
  end.

Definition bt_between (it : ipos) : bool := match it with IBetween _ _ => true | _ => false end.

Lemma at_entry_facts : forall rt path key n e, good cmp rt -> at_entry rt path key n e ->
  bt_pos (Some rt) (IBetween path key) = Z.of_nat (lo rt path + erank n e) /\
  (lo rt path + erank n e < length (inorder rt))%nat /\
  ientry (Some rt) (IBetween path key) = nth_error (inorder rt) (lo rt path + erank n e).
Proof.
  intros rt path key n e (Hwf & Hne & Hb) [Hn [v He]].
  destruct (node_at_inv cmp Hswo path rt n Hwf Hne Hb Hn) as (Hwn & Hnn & Hbn & Hhn).
  assert (Hes : ksorted cmp (entries n)) by (destruct n as [es cs]; eapply bst_entries; eassumption).
  pose proof (search_entry cmp Hswo _ e (key, v) Hes He) as Hs. cbn [fst] in Hs.
  pose proof (nth_brank path rt n e (key, v) Hwf Hn He) as Hnth.
  split; [|split].
  - unfold bt_pos. rewrite Hn, Hs. reflexivity.
  - apply nth_error_Some. rewrite Hnth. discriminate.
  - rewrite Hnth. cbn [ientry]. rewrite Hn. exact (find_key cmp Hswo _ e key v Hes He).
Qed.

Lemma cn_bt : forall r, cn (bt_inorder r) = Z.of_nat (length (bt_inorder r)).
Proof. reflexivity. Qed.

Lemma bt_pos_range : forall r, bt_good r -> forall it, bt_valid r it -> -1 <= bt_pos r it <= cn (bt_inorder r).
Proof.
  intros r Hg it Hv. rewrite cn_bt. destruct it as [| |path key]; [cbn [bt_pos]; lia|cbn [bt_pos]; lia|].
  cbn [bt_valid] in Hv. destruct r as [rt|]; [|contradiction].
  destruct Hv as (n & e & Ha). destruct (at_entry_facts rt path key n e Hg Ha) as (Hp & Hlt & _).
  rewrite Hp. cbn [bt_inorder]. unfold BTree.entry in *. lia.
Qed.

Lemma bt_between_in : forall r, bt_good r -> forall it, bt_valid r it ->
  bt_between it = c_in (bt_inorder r) (bt_pos r it).
Proof.
  intros r Hg it Hv. unfold c_in. rewrite cn_bt. destruct it as [| |path key]; cbn [bt_between].
  - reflexivity.
  - cbn [bt_pos]. rewrite Z.ltb_irrefl. symmetry. apply andb_false_r.
  - cbn [bt_valid] in Hv. destruct r as [rt|]; [|contradiction].
    destruct Hv as (n & e & Ha). destruct (at_entry_facts rt path key n e Hg Ha) as (Hp & Hlt & _).
    rewrite Hp. cbn [bt_inorder]. unfold BTree.entry in *. symmetry. apply andb_true_iff. split.
    + apply Z.leb_le. lia.
    + apply Z.ltb_lt. lia.
Qed.

Lemma bt_inext_pos : forall r, bt_good r -> forall it, bt_valid r it ->
  bt_valid r (inext cmp r it) /\ bt_pos r (inext cmp r it) = c_next (bt_inorder r) (bt_pos r it).
Proof.
  intros r Hg it Hv. unfold c_next. rewrite cn_bt.
  destruct r as [rt|].
  - cbn [bt_good] in Hg.
    destruct it as [| |path key].
    + destruct (bt_inext_begin cmp rt Hg) as (q & k & n' & e' & Hi & Ha & H0).
      rewrite Hi. split; [exists n', e'; exact Ha|].
      destruct (at_entry_facts rt q k n' e' Hg Ha) as (Hp & _ & _). rewrite Hp, H0.
      cbn [bt_pos]. destruct (-1 <? Z.of_nat (length (bt_inorder (Some rt)))) eqn:E;
        [reflexivity|apply Z.ltb_ge in E; lia].
    + cbn [inext bt_pos]. rewrite Z.ltb_irrefl. split; [exact I|reflexivity].
    + cbn [bt_valid] in Hv. destruct Hv as (n & e & Ha).
      destruct (at_entry_facts rt path key n e Hg Ha) as (Hp & Hlt & _).
      pose proof (bt_inext_spec cmp Hswo rt path key n e Hg Ha) as Hs.
      rewrite Hp. cbn [bt_inorder] in *. unfold BTree.entry in *.
      replace (Z.of_nat (lo rt path + erank n e) <? Z.of_nat (@length (Z * Z) (inorder rt))) with true
        by (symmetry; apply Z.ltb_lt; lia).
      destruct (inext cmp (Some rt) (IBetween path key)) as [| |q k]; [contradiction| |].
      * split; [exact I|]. cbn [bt_pos bt_inorder]. pose proof (count_inorder_gen rt) as Hci.
        unfold BTree.entry in *. lia.
      * destruct Hs as (n' & e' & Ha' & Hr'). split; [exists n', e'; exact Ha'|].
        destruct (at_entry_facts rt q k n' e' Hg Ha') as (Hp' & _ & _). rewrite Hp'. lia.
  - destruct it as [| |path key]; [| |contradiction]; cbn; split; (exact I || reflexivity).
Qed.

Lemma bt_iprev_pos : forall r, bt_good r -> forall it, bt_valid r it ->
  bt_valid r (iprev cmp r it) /\ bt_pos r (iprev cmp r it) = c_prev (bt_pos r it).
Proof.
  intros r Hg it Hv. unfold c_prev.
  destruct r as [rt|].
  - cbn [bt_good] in Hg.
    destruct it as [| |path key].
    + cbn [iprev bt_pos]. split; [exact I|reflexivity].
    + destruct (bt_iprev_end cmp rt Hg) as (q & k & n' & e' & Hi & Ha & H0).
      rewrite Hi. split; [exists n', e'; exact Ha|].
      destruct (at_entry_facts rt q k n' e' Hg Ha) as (Hp & _ & _). rewrite Hp.
      cbn [bt_pos bt_inorder]. rewrite <- count_inorder_gen.
      destruct (0 <=? Z.of_nat (count rt)) eqn:E; [lia|apply Z.leb_gt in E; lia].
    + cbn [bt_valid] in Hv. destruct Hv as (n & e & Ha).
      destruct (at_entry_facts rt path key n e Hg Ha) as (Hp & Hlt & _).
      pose proof (bt_iprev_spec cmp Hswo rt path key n e Hg Ha) as Hs.
      rewrite Hp.
      destruct (0 <=? Z.of_nat (lo rt path + erank n e)) eqn:E; [|apply Z.leb_gt in E; lia].
      destruct (iprev cmp (Some rt) (IBetween path key)) as [| |q k]; [|contradiction|].
      * split; [exact I|]. cbn [bt_pos]. lia.
      * destruct Hs as (n' & e' & Ha' & Hr'). split; [exists n', e'; exact Ha'|].
        destruct (at_entry_facts rt q k n' e' Hg Ha') as (Hp' & _ & _). rewrite Hp'. lia.
  - destruct it as [| |path key]; [| |contradiction]; cbn; split; (exact I || reflexivity).
Qed.

Lemma bt_next_ok : forall r, bt_good r -> forall it, bt_valid r it ->
  exists it', bt_next cmp r it = Some (it', c_in (bt_inorder r) (c_next (bt_inorder r) (bt_pos r it))) /\
              bt_valid r it' /\ bt_pos r it' = c_next (bt_inorder r) (bt_pos r it).
Proof.
  intros r Hg it H. destruct (bt_inext_pos r Hg it H) as [Hv Hp].
  exists (inext cmp r it). split; [|split; assumption].
  unfold bt_next. fold (bt_between (inext cmp r it)). rewrite (bt_between_in r Hg _ Hv), Hp. reflexivity.
Qed.

Lemma bt_prev_ok : forall r, bt_good r -> forall it, bt_valid r it ->
  exists it', bt_prev cmp r it = Some (it', c_in (bt_inorder r) (c_prev (bt_pos r it))) /\
              bt_valid r it' /\ bt_pos r it' = c_prev (bt_pos r it).
Proof.
  intros r Hg it H. destruct (bt_iprev_pos r Hg it H) as [Hv Hp].
  exists (iprev cmp r it). split; [|split; assumption].
  unfold bt_prev. fold (bt_between (iprev cmp r it)). rewrite (bt_between_in r Hg _ Hv), Hp. reflexivity.
Qed.

Lemma bt_cur_ok : forall r, bt_good r -> forall it, bt_valid r it -> c_in (bt_inorder r) (bt_pos r it) = true ->
  ientry r it = nth_error (bt_inorder r) (Z.to_nat (bt_pos r it)).
Proof.
  intros r Hg it Hv Hin. rewrite <- (bt_between_in r Hg it Hv) in Hin.
  destruct it as [| |path key]; cbn [bt_between] in Hin; try discriminate.
  cbn [bt_valid] in Hv. destruct r as [rt|]; [|contradiction].
  destruct Hv as (n & e & Ha). destruct (at_entry_facts rt path key n e Hg Ha) as (Hp & _ & Hc).
  rewrite Hp, Nat2Z.id. exact Hc.
Qed.

Theorem bt_run_from : forall r fuel it cs, bt_good r -> (length (bt_inorder r) + 2 <= fuel)%nat -> bt_valid r it ->
  run_script ipos (bt_next cmp r) (bt_prev cmp r) (fun _ => IBegin) (fun _ => IEnd) (ientry r) true fuel it cs =
  cursor_run (bt_inorder r) true (bt_pos r it) cs.
Proof.
  intros r fuel it cs Hg Hf Hv.
  apply (sim_run ipos (bt_next cmp r) (bt_prev cmp r) (fun _ => IBegin) (fun _ => IEnd) (ientry r) true
           (bt_inorder r) (bt_valid r) (bt_pos r) (bt_pos_range r Hg) (bt_next_ok r Hg) (bt_prev_ok r Hg)).
  - intros s _. split; [exact I|reflexivity].
  - intros s _. split; [exact I|reflexivity].
  - apply bt_cur_ok. exact Hg.
  - exact Hf.
  - exact Hv.
Qed.

Theorem bt_iter_script : forall r fuel cs, bt_good r -> (length (bt_inorder r) + 2 <= fuel)%nat ->
  run_script ipos (bt_next cmp r) (bt_prev cmp r) (fun _ => IBegin) (fun _ => IEnd) (ientry r) true fuel IBegin cs =
  cursor_script (bt_inorder r) true cs.
Proof. intros r fuel cs Hg Hf. exact (bt_run_from r fuel IBegin cs Hg Hf I). Qed.

Theorem bt_walk_forward : forall r fuel, bt_good r -> (length (bt_inorder r) + 2 <= fuel)%nat ->
  walk ipos (ientry r) (bt_next cmp r) fuel IBegin = Some (bt_inorder r).
Proof.
  intros r fuel Hg Hf.
  rewrite (sim_walk_next ipos (bt_next cmp r) (ientry r) (bt_inorder r) (bt_valid r) (bt_pos r)
             (bt_pos_range r Hg) (bt_next_ok r Hg) (bt_cur_ok r Hg) fuel IBegin I).
  - reflexivity.
  - rewrite cn_bt. cbn [bt_pos]. lia.
Qed.

Theorem bt_walk_backward : forall r fuel, bt_good r -> (length (bt_inorder r) + 2 <= fuel)%nat ->
  walk ipos (ientry r) (bt_prev cmp r) fuel IEnd = Some (rev (bt_inorder r)).
Proof.
  intros r fuel Hg Hf.
  rewrite (sim_walk_prev ipos (bt_prev cmp r) (ientry r) (bt_inorder r) (bt_valid r) (bt_pos r)
             (bt_pos_range r Hg) (bt_prev_ok r Hg) (bt_cur_ok r Hg) fuel IEnd I).
  - cbn [bt_pos]. rewrite Nat2Z.id, firstn_all. reflexivity.
  - cbn [bt_pos]. lia.
Qed.
End BTSim.

(* ====================================================================================== *)
(* [bt_good] from the reachable-state invariant, and the machine-level statements           *)
(* ====================================================================================== *)
(* The B-tree invariant of Proofs/BTreeInv.v ([btree_inv m r]: all leaves at one depth, entry-count
   bounds, root non-empty) and sortedness ([sorted_root cmp r] = the in-order sequence is strictly
   ascending, hence duplicate-free, for cmp) are all of [good]; both hold in every reachable state
   (MachineMaps.run_sim). *)
Lemma cnt_ne : forall m, (3 <= m)%nat -> forall n lo, (1 <= lo)%nat -> BTreeInv.cnt m lo n -> ne_entries n.
Proof.
  intros m Hm n. induction n as [es cs IH] using BTreeInd.node_ind2. intros lo Hlo Hc.
  apply BTreeInv.cnt_inv in Hc. destruct Hc as [Hlen Hf]. constructor.
  - intros E. subst es. cbn [length] in Hlen. lia.
  - rewrite Forall_forall in *. intros c Hc.
    apply (IH c Hc (minEntries m)); [apply BTreeInv.minE_pos; exact Hm | apply Hf; exact Hc].
Qed.

Theorem bt_good_of_inv : forall m cmp r, (3 <= m)%nat ->
  BTreeInv.btree_inv m r -> BTreeInv.sorted_root cmp r -> bt_good cmp r.
Proof.
  intros m cmp [n|] Hm Hinv Hs; [|exact I]. cbn [bt_good].
  split; [eapply BTreeInv.btree_inv_wf; exact Hinv|]. split.
  - destruct Hinv as (h & _ & Hc). exact (cnt_ne m Hm n 1%nat (le_n 1) Hc).
  - exact Hs.
Qed.

(* ---------- machine level ---------- *)
(* the hypotheses are invariants of the reachable states (Proofs/IterTreeMachine.v) *)
Theorem run_iter_bt : forall c r n cs, bt_good (kc c) r -> n = Z.of_nat (length (bt_inorder r)) ->
  run_iter c (StBT r n) cs = cursor_script (bt_inorder r) true cs.
Proof.
  intros c r n cs Hg Hn. subst n. unfold run_iter, script_fuel, size_of. rewrite Nat2Z.id.
  apply (bt_iter_script (kc c) (MapSpecProofs.cmp_of_SWO _)); [exact Hg|lia].
Qed.

Theorem each_of_bt : forall c r n, bt_good (kc c) r -> n = Z.of_nat (length (bt_inorder r)) ->
  each_of c (StBT r n) = Some (bt_inorder r).
Proof.
  intros c r n Hg Hn. subst n. unfold each_of, script_fuel, size_of. rewrite Nat2Z.id.
  apply (bt_walk_forward (kc c) (MapSpecProofs.cmp_of_SWO _)); [exact Hg|lia].
Qed.

Theorem each_back_bt : forall c r n, bt_good (kc c) r -> n = Z.of_nat (length (bt_inorder r)) ->
  each_back c (StBT r n) = Some (rev (bt_inorder r)).
Proof.
  intros c r n Hg Hn. subst n. unfold each_back, script_fuel, size_of. rewrite Nat2Z.id.
  apply (bt_walk_backward (kc c) (MapSpecProofs.cmp_of_SWO _)); [exact Hg|lia].
Qed.

Print Assumptions bt_iter_script.
Print Assumptions run_iter_bt.
Print Assumptions each_of_bt.
Print Assumptions each_back_bt.
Print Assumptions bt_good_of_inv.
